(** C07 - the best-first search of the ball tree, abstracted from the arithmetic: the loop of
    nn_helper only COMPARES numbers; the two places where it computes are the reduced distance from
    the query to a stored point ([rd]) and the bound of a node ([nb]).  For any pair of such functions
    with  nb t <= rd p  for every point p stored below a well-formed node t, the search returns a
    correct answer with respect to [rd].  Instances: exact arithmetic (C07/Proofs.v proves that
    one directly) and every rounded arithmetic in which the bound is sound (C07/FloatSearch.v).
    The proof follows Section Search / Section Final of C07/Proofs.v step by step. *)
From Coq Require Import List NArith Reals Lra Lia Bool Arith Permutation Sorting.Sorted.
From LinfaVerif Require Import Common.Num C07.Model C07.Proofs.
Import ListNotations.
Local Open Scope R_scope.

Section Gen.
Context (rd : rpt -> R) (nb : btree R -> R).

(* visit_point and bt_loop of C07/Model.v with [rd] / [nb] in place of rdist / node_bound; comparisons
   are those of the reals *)
Definition gvisit (k : nat) (mx : option R) (out : list (R * rpt)) (p : rpt) : list (R * rpt) :=
  let d := rd p in
  if lt_max Ro d mx && (Nat.ltb (length out) k || Rltb d (worst Ro out)) then
    let out1 := ins_desc Ro fst (d, p) out in
    if Nat.ltb k (length out1) then tl out1 else out1
  else out.

Fixpoint gloop (fuel : nat) (k : nat) (mx : option R) (queue : list (R * btree R)) (out : list (R * rpt))
  : list (R * rpt) :=
  match fuel with
  | O => out
  | S f =>
      match queue with
      | [] => out
      | (d, t) :: queue' =>
          if ge_max Ro d mx || (Nat.eqb (length out) k && Rleb (worst Ro out) d) then out
          else match t with
               | BLeaf _ _ ps => gloop f k mx queue' (fold_left (gvisit k mx) ps out)
               | BBranch _ _ l r =>
                   let dl := nb l in
                   let dr := nb r in
                   let q1 := if le_max Ro dl mx then ins_asc Ro fst (dl, l) queue' else queue' in
                   let q2 := if le_max Ro dr mx then ins_asc Ro fst (dr, r) q1 else q1 in
                   gloop f k mx q2 out
               end
      end
  end.

Definition gnn_helper (t : btree R) (n k : nat) (mx : option R) : list rpt :=
  if Nat.eqb n 0 || Nat.eqb k 0 then []
  else map snd (rev (gloop (S (tree_nodes t)) k mx [(nb t, t)] [])).

(** well-formed nodes: any predicate inherited by the children under which the bound is sound *)
Context (good : btree R -> Prop).
Context (good_children : forall c r l rt, good (BBranch c r l rt) -> good l /\ good rt).
Context (nb_ok : forall t p, good t -> In p (tree_points t) -> nb t <= rd p).

Section Search.
Context (k : nat) (mx : option R) (Hk : (1 <= k)%nat) (P : list rpt).

Definition gnode_ok (e : R * btree R) : Prop := fst e = nb (snd e) /\ good (snd e).

Definition gout_of_range (p : rpt) : Prop := match mx with Some r => r <= rd p | None => False end.
Definition gjustified (out : list (R * rpt)) (p : rpt) : Prop :=
  gout_of_range p \/ (length out = k /\ worst Ro out <= rd p).
Definition gout_ok (out : list (R * rpt)) : Prop :=
  desc_by fst out /\ (length out <= k)%nat /\
  forall e, In e out -> fst e = rd (snd e) /\ lt_max Ro (fst e) mx = true.
Definition gstate (pend : list rpt) (queue : list (R * btree R)) (out : list (R * rpt)) (D : list rpt) : Prop :=
  Permutation (pend ++ (map snd out ++ D) ++ qpoints queue) P /\
  gout_ok out /\
  (forall p, In p D -> gjustified out p).

Lemma gnode_points_bound e p : gnode_ok e -> In p (tree_points (snd e)) -> fst e <= rd p.
Proof. intros [Hb Hg] Hp. rewrite Hb. apply nb_ok; assumption. Qed.

Lemma gworst_head (out : list (R * rpt)) e : In e out -> desc_by fst out -> fst e <= worst Ro out.
Proof.
  destruct out as [|h t]; [intros []|]. intros He Hs. simpl. destruct h as [d p]. simpl.
  apply (desc_by_head fst (d, p) t Hs e He).
Qed.

Lemma gvisit_state p pend queue out D :
  gstate (p :: pend) queue out D ->
  exists D', gstate pend queue (gvisit k mx out p) D'.
Proof.
  intros [Hperm [[Hs [Hl He]] Hj]]. unfold gvisit. cbv zeta.
  unfold rpt, ipt, pt in *.
  destruct (lt_max Ro (rd p) mx) eqn:Elt; simpl andb.
  2:{ exists (p :: D). split; [|split; [exact (conj Hs (conj Hl He))|]].
    - eapply perm_move; [|exact Hperm]. apply Permutation_sym, Permutation_middle.
    - intros p' [Hp' | Hp']; [subst | auto]. left. unfold gout_of_range, lt_max in *.
      destruct mx as [r|]; [|discriminate]. simpl in Elt. apply Rltb_false in Elt. exact Elt. }
  destruct (Nat.ltb (length out) k) eqn:Elen; simpl orb.
  - apply Nat.ltb_lt in Elen.
    assert (Hlen1 : length (ins_desc Ro fst (rd p, p) out) = S (length out)).
    { rewrite (Permutation_length (ins_desc_perm fst (rd p, p) out)). reflexivity. }
    assert (Hk1 : Nat.ltb k (length (ins_desc Ro fst (rd p, p) out)) = false).
    { apply Nat.ltb_ge. rewrite Hlen1. exact Elen. }
    rewrite Hk1. exists D. split; [|split; [repeat split|]].
    + eapply perm_move; [|exact Hperm].
      apply (Permutation_app_tail D (Permutation_map snd (ins_desc_perm fst (rd p, p) out))).
    + apply ins_desc_sorted. exact Hs.
    + apply Nat.le_trans with (S (length out)); [apply Nat.eq_le_incl; exact Hlen1 | exact Elen].
    + apply (Permutation_in _ (ins_desc_perm fst (rd p, p) out)) in H. destruct H as [H | H]; [subst; reflexivity | apply He; auto].
    + apply (Permutation_in _ (ins_desc_perm fst (rd p, p) out)) in H. destruct H as [H | H]; [subst; exact Elt | apply He; auto].
    + intros p' Hp'. destruct (Hj p' Hp') as [H | [H _]]; [left; exact H | exfalso; apply (Nat.lt_irrefl k); apply Nat.le_lt_trans with (length out); [apply Nat.eq_le_incl; symmetry; exact H | exact Elen]].
  - apply Nat.ltb_ge in Elen. assert (Hfull : length out = k) by (apply Nat.le_antisymm; [exact Hl | exact Elen]).
    destruct (Rltb (rd p) (worst Ro out)) eqn:Ew.
    + apply Rltb_true in Ew.
      destruct out as [|[dh ph] t]; [simpl in Hfull; rewrite <- Hfull in Hk; inversion Hk|].
      simpl in Ew. simpl ins_desc.
      assert (Eh : Rltb dh (rd p) = false) by (apply Rltb_false; lra).
      simpl fst. rewrite Eh.
      assert (Hlen1 : length (ins_desc Ro fst (rd p, p) t) = S (length t)).
      { rewrite (Permutation_length (ins_desc_perm fst (rd p, p) t)). reflexivity. }
      assert (Hk1 : Nat.ltb k (length ((dh, ph) :: ins_desc Ro fst (rd p, p) t)) = true).
      { apply Nat.ltb_lt. simpl. simpl in Hfull. rewrite <- Hfull. apply Nat.lt_succ_r. apply Nat.eq_le_incl. symmetry. exact Hlen1. }
      rewrite Hk1. simpl tl.
      assert (Hst : desc_by fst t) by (inversion Hs; auto).
      assert (Hsn : desc_by fst (ins_desc Ro fst (rd p, p) t)) by (apply ins_desc_sorted; exact Hst).
      assert (Hle : forall e, In e (ins_desc Ro fst (rd p, p) t) -> fst e <= dh).
      { intros e Hin. apply (Permutation_in _ (ins_desc_perm fst (rd p, p) t)) in Hin.
        destruct Hin as [Hin | Hin]; [subst; simpl; lra|].
        apply (desc_by_head fst (dh, ph) t Hs e). right. exact Hin. }
      assert (Hw : worst Ro (ins_desc Ro fst (rd p, p) t) <= dh).
      { destruct (ins_desc Ro fst (rd p, p) t) as [|[d0 p0] t0] eqn:Ei; [simpl in Hlen1; discriminate Hlen1|].
        simpl. apply (Hle (d0, p0)). left. reflexivity. }
      exists (ph :: D). split; [|split; [repeat split|]].
      * eapply perm_move; [|exact Hperm].
        eapply perm_trans; [apply (Permutation_app_tail (ph :: D) (Permutation_map snd (ins_desc_perm fst (rd p, p) t)))|].
        simpl. apply perm_skip. apply Permutation_sym, Permutation_middle.
      * exact Hsn.
      * apply Nat.le_trans with (S (length t)); [apply Nat.eq_le_incl; exact Hlen1 | simpl in Hfull; rewrite <- Hfull; apply Nat.le_refl].
      * apply (Permutation_in _ (ins_desc_perm fst (rd p, p) t)) in H. destruct H as [H | H]; [subst; reflexivity | apply He; right; auto].
      * apply (Permutation_in _ (ins_desc_perm fst (rd p, p) t)) in H. destruct H as [H | H]; [subst; exact Elt | apply He; right; auto].
      * intros p' [Hp' | Hp'].
        -- subst p'. right. split; [simpl in Hfull; rewrite <- Hfull; exact Hlen1|].
           destruct (He (dh, ph) (or_introl eq_refl)) as [E1 _]. simpl in E1. rewrite <- E1. exact Hw.
        -- destruct (Hj p' Hp') as [H | [_ H]]; [left; exact H|]. right.
           split; [simpl in Hfull; rewrite <- Hfull; exact Hlen1|]. simpl in H. lra.
    + apply Rltb_false in Ew. exists (p :: D). split; [|split; [exact (conj Hs (conj Hl He))|]].
      * eapply perm_move; [|exact Hperm]. apply Permutation_sym, Permutation_middle.
      * intros p' [Hp' | Hp']; [subst | auto]. right. split; auto.
Qed.

Lemma gvisit_leaf_state pend : forall queue out D,
  gstate pend queue out D ->
  exists D', gstate [] queue (fold_left (gvisit k mx) pend out) D'.
Proof.
  induction pend as [|p pend IH]; intros queue out D H; simpl.
  - exists D. exact H.
  - destruct (gvisit_state p pend queue out D H) as [D' H']. apply (IH _ _ _ H').
Qed.

Lemma gpush_child c pend Q out D :
  gnode_ok (nb c, c) ->
  gstate (tree_points c ++ pend) Q out D ->
  exists D2, gstate pend (if le_max Ro (nb c) mx then ins_asc Ro fst (nb c, c) Q else Q) out D2.
Proof.
  intros Hn [Hperm [Hok Hj]]. destruct (le_max Ro (nb c) mx) eqn:E.
  - exists D. split; [|split; auto].
    eapply perm_trans; [|exact Hperm].
    eapply perm_trans; [apply Permutation_app_head; apply Permutation_app_head; apply qpoints_ins|].
    simpl snd. perm_solve.
  - exists (tree_points c ++ D). split; [|split; auto].
    + eapply perm_trans; [|exact Hperm]. perm_solve.
    + intros p Hp. apply in_app_or in Hp. destruct Hp as [Hp | Hp]; [|auto]. left.
      unfold gout_of_range. unfold le_max in E. destruct mx as [r|]; [|discriminate].
      apply Rleb_false in E. assert (H := gnode_points_bound _ p Hn Hp). simpl in H. lra.
Qed.

Lemma gqnodes_ins e Q : qnodes (ins_asc Ro fst e Q) = (tree_nodes (snd e) + qnodes Q)%nat.
Proof.
  unfold qnodes. induction Q as [|y t IH]; simpl; auto.
  destruct (Rltb (fst e) (fst y)); simpl; auto. rewrite IH. clear. lia.
Qed.

Lemma gasc_head_le (queue : list (R * btree R)) e0 e : asc_by fst (e0 :: queue) -> In e (e0 :: queue) -> fst e0 <= fst e.
Proof.
  intros H [Hin | Hin]; [subst; lra|]. inversion H; subst. rewrite Forall_forall in *. auto.
Qed.

Lemma gloop_state : forall fuel queue out D,
  gstate [] queue out D -> Forall gnode_ok queue -> asc_by fst queue -> (qnodes queue < fuel)%nat ->
  exists D', Permutation (map snd (gloop fuel k mx queue out) ++ D') P /\
             gout_ok (gloop fuel k mx queue out) /\
             forall p, In p D' -> gjustified (gloop fuel k mx queue out) p.
Proof.
  induction fuel as [|f IH]; intros queue out D Hst Hn Hs Hf; [inversion Hf|].
  destruct queue as [|[b t0] queue'].
  - simpl. destruct Hst as [Hperm [Hok Hj]]. exists D. simpl in Hperm. rewrite app_nil_r in Hperm. auto.
  - cbn [gloop].
    match goal with |- context [if ?cnd then out else _] => destruct cnd eqn:Ebreak end.
    + destruct Hst as [Hperm [Hok Hj]]. exists (D ++ qpoints ((b, t0) :: queue')). split; [|split; auto].
      * eapply perm_trans; [|exact Hperm]. perm_solve.
      * intros p Hp. apply in_app_or in Hp. destruct Hp as [Hp | Hp]; [auto|].
        unfold qpoints in Hp. apply in_flat_map in Hp. destruct Hp as [e [He Hpe]].
        assert (Hb : b <= rd p).
        { eapply Rle_trans; [apply (gasc_head_le queue' (b, t0) e Hs He)|].
          apply gnode_points_bound; auto. rewrite Forall_forall in Hn. auto. }
        apply orb_true_iff in Ebreak. destruct Ebreak as [Eb | Eb].
        -- left. unfold gout_of_range, ge_max in *. destruct mx as [r|]; [|discriminate].
           apply Rleb_true in Eb. lra.
        -- right. apply andb_true_iff in Eb. destruct Eb as [E1 E2]. apply Nat.eqb_eq in E1.
           apply Rleb_true in E2. split; auto. lra.
    + inversion Hn as [|? ? Hn0 Hn']; subst. assert (Hs' : asc_by fst queue') by (inversion Hs; auto).
      destruct t0 as [c r ps | c r l rt].
      * assert (Hst1 : gstate ps queue' out D).
        { destruct Hst as [Hperm [Hok Hj]]. split; [|split; auto].
          eapply perm_trans; [|exact Hperm]. simpl qpoints. perm_solve. }
        destruct (gvisit_leaf_state ps queue' out D Hst1) as [D1 Hst2].
        apply (IH queue' _ D1 Hst2 Hn' Hs'). simpl in Hf. lia.
      * destruct Hn0 as [Hb Hg]. simpl in Hg. destruct (good_children _ _ _ _ Hg) as [Hgl Hgr].
        assert (Hst1 : gstate (tree_points l ++ tree_points rt ++ []) queue' out D).
        { destruct Hst as [Hperm [Hok Hj]]. split; [|split; auto].
          eapply perm_trans; [|exact Hperm]. simpl qpoints. simpl tree_points. perm_solve. }
        assert (Hnl : gnode_ok (nb l, l)) by (split; auto).
        assert (Hnr : gnode_ok (nb rt, rt)) by (split; auto).
        destruct (gpush_child l _ queue' out D Hnl Hst1) as [D1 Hst2].
        set (q1 := if le_max Ro (nb l) mx then ins_asc Ro fst (nb l, l) queue' else queue') in *.
        destruct (gpush_child rt [] q1 out D1 Hnr Hst2) as [D2 Hst3].
        set (q2 := if le_max Ro (nb rt) mx then ins_asc Ro fst (nb rt, rt) q1 else q1) in *.
        assert (Hq1 : Forall gnode_ok q1 /\ asc_by fst q1 /\ (qnodes q1 <= tree_nodes l + qnodes queue')%nat).
        { unfold q1. destruct (le_max Ro (nb l) mx).
          - split; [|split].
            + rewrite Forall_forall in *. intros e He.
              apply (Permutation_in _ (ins_asc_perm fst _ queue')) in He. destruct He; [subst; auto | auto].
            + apply ins_asc_sorted. exact Hs'.
            + rewrite gqnodes_ins. simpl. lia.
          - split; [|split]; auto. lia. }
        destruct Hq1 as [Hq1n [Hq1s Hq1c]].
        assert (Hq2 : Forall gnode_ok q2 /\ asc_by fst q2 /\ (qnodes q2 <= tree_nodes rt + qnodes q1)%nat).
        { unfold q2. destruct (le_max Ro (nb rt) mx).
          - split; [|split].
            + rewrite Forall_forall in *. intros e He.
              apply (Permutation_in _ (ins_asc_perm fst _ q1)) in He. destruct He; [subst; auto | auto].
            + apply ins_asc_sorted. exact Hq1s.
            + rewrite gqnodes_ins. simpl. lia.
          - split; [|split]; auto. lia. }
        destruct Hq2 as [Hq2n [Hq2s Hq2c]].
        apply (IH q2 out D2 Hst3 Hq2n Hq2s). simpl in Hf. lia.
Qed.
End Search.

Section Final.
Context (X : list (list R)) (t : btree R).
Context (Hgood : good t) (Hperm : Permutation (tree_points t) (enumerate X)).

Lemma gstart_state k mx : gstate k mx (tree_points t) [] [(nb t, t)] [] [].
Proof.
  split; [|split].
  - simpl. rewrite !app_nil_r. apply Permutation_refl.
  - split; [constructor | split; [apply Nat.le_0_l | intros e []]].
  - intros p [].
Qed.

Lemma grun_loop k mx : (1 <= k)%nat ->
  exists D', let out := gloop (S (tree_nodes t)) k mx [(nb t, t)] [] in
    Permutation (map snd out ++ D') (tree_points t) /\ gout_ok k mx out /\
    forall p, In p D' -> gjustified k mx out p.
Proof.
  intros Hk.
  apply (gloop_state k mx Hk (tree_points t) (S (tree_nodes t)) _ [] [] (gstart_state k mx)).
  - constructor; [|constructor]. split; auto.
  - repeat constructor.
  - simpl. lia.
Qed.

Lemma ganswer_facts k mx (out : list (R * rpt)) (D' : list rpt) :
  Permutation (map snd out ++ D') (tree_points t) -> gout_ok k mx out ->
  incl (map snd (rev out)) (enumerate X) /\ NoDup (map snd (map snd (rev out))) /\
  asc_by rd (map snd (rev out)) /\ (length out + length D' = length X)%nat.
Proof.
  intros Hp [Hs [Hl He]].
  assert (Hall : Permutation (map snd out ++ D') (enumerate X)) by (eapply perm_trans; eauto).
  repeat split.
  - intros p Hin. apply (Permutation_in _ Hall). apply in_or_app. left.
    rewrite map_rev in Hin. apply in_rev in Hin. exact Hin.
  - assert (Hn : NoDup (map snd (map snd out ++ D'))).
    { eapply Permutation_NoDup; [apply Permutation_sym; apply Permutation_map; exact Hall | apply enumerate_nodup]. }
    rewrite map_app in Hn. apply NoDup_app_l in Hn.
    eapply Permutation_NoDup; [|exact Hn]. apply Permutation_map. apply Permutation_map. apply Permutation_rev.
  - apply asc_by_map. apply (asc_by_ext fst).
    + intros e Hin. apply in_rev in Hin. destruct (He e Hin) as [E _]. exact E.
    + apply desc_rev_asc. exact Hs.
  - assert (H := Permutation_length Hall). rewrite app_length, map_length in H.
    rewrite H. apply enumerate_length.
Qed.

Theorem gknn_is_knn k : is_knn rd k X (gnn_helper t (length X) k None).
Proof.
  unfold gnn_helper.
  destruct (Nat.eqb (length X) 0) eqn:En.
  { apply Nat.eqb_eq in En. destruct X; [|discriminate]. simpl.
    split; [rewrite Nat.min_0_r; reflexivity|]. split; [intros ? []|]. split; [constructor|].
    split; [constructor | intros ? ? []]. }
  destruct (Nat.eqb k 0) eqn:Ek.
  { apply Nat.eqb_eq in Ek. subst. simpl.
    split; [reflexivity|]. split; [intros ? []|]. split; [constructor|].
    split; [constructor | intros ? ? []]. }
  simpl orb. cbv iota.
  apply Nat.eqb_neq in En. apply Nat.eqb_neq in Ek. assert (Hk : (1 <= k)%nat) by lia.
  destruct (grun_loop k None Hk) as [D' H]. cbv zeta in H.
  set (out := gloop (S (tree_nodes t)) k None [(nb t, t)] []) in *.
  destruct H as [Hp [Hok Hj]].
  destruct (ganswer_facts k None out D' Hp Hok) as [F1 [F2 [F3 F4]]].
  destruct Hok as [Hs [Hl He]]. unfold rpt, ipt, pt in *.
  assert (HD : (length out < k)%nat -> D' = []).
  { intros Hlt. destruct D' as [|p0 D0]; auto. exfalso.
    destruct (Hj p0 (or_introl eq_refl)) as [Ho | [Hf _]]; [exact Ho|].
    apply (Nat.lt_irrefl k). apply Nat.le_lt_trans with (length out); [apply Nat.eq_le_incl; symmetry; exact Hf | exact Hlt]. }
  split; [|split; [|split; [|split]]]; auto.
  - rewrite map_length, rev_length.
    destruct (Nat.lt_ge_cases (length out) k) as [Hlt | Hge].
    + rewrite (HD Hlt) in F4. simpl in F4. lia.
    + lia.
  - intros p p' Hp0 Hp' Hn.
    assert (Hin' : In p' D').
    { assert (Hx : In p' (map snd out ++ D')).
      { apply (Permutation_in _ (Permutation_sym (perm_trans Hp Hperm))). exact Hp'. }
      apply in_app_or in Hx. destruct Hx as [Hx | Hx]; auto. exfalso. apply Hn.
      rewrite map_rev. apply in_rev. rewrite rev_involutive. exact Hx. }
    destruct (Hj p' Hin') as [Ho | [Hf Hw]]; [destruct Ho|].
    rewrite map_rev in Hp0. apply in_rev in Hp0. apply in_map_iff in Hp0. destruct Hp0 as [e [E Hein]]. subst p.
    destruct (He e Hein) as [E1 _]. rewrite <- E1.
    eapply Rle_trans; [apply (gworst_head out e Hein Hs) | exact Hw].
Qed.

Theorem grange_is_range rr : is_range rd rr X (gnn_helper t (length X) (length X) (Some rr)).
Proof.
  unfold gnn_helper.
  destruct (Nat.eqb (length X) 0) eqn:En.
  { apply Nat.eqb_eq in En. destruct X; [|discriminate]. simpl. split; [constructor|].
    intros p. simpl. tauto. }
  simpl orb. cbv iota. apply Nat.eqb_neq in En. assert (Hk : (1 <= length X)%nat) by lia.
  destruct (grun_loop (length X) (Some rr) Hk) as [D' H]. cbv zeta in H.
  set (out := gloop (S (tree_nodes t)) (length X) (Some rr) [(nb t, t)] []) in *.
  destruct H as [Hp [Hok Hj]].
  destruct (ganswer_facts _ _ out D' Hp Hok) as [F1 [F2 [F3 F4]]].
  destruct Hok as [Hs [Hl He]]. unfold rpt, ipt, pt in *.
  split; auto. intros p. split.
  - intros Hin. split; [apply F1; exact Hin|].
    rewrite map_rev in Hin. apply in_rev in Hin. apply in_map_iff in Hin. destruct Hin as [e [E Hein]]. subst p.
    destruct (He e Hein) as [E1 E2]. rewrite <- E1.
    simpl in E2. apply Rltb_true in E2. exact E2.
  - intros [Hin Hlt].
    assert (Hx : In p (map snd out ++ D')).
    { apply (Permutation_in _ (Permutation_sym (perm_trans Hp Hperm))). exact Hin. }
    apply in_app_or in Hx. destruct Hx as [Hx | Hx].
    + rewrite map_rev. apply in_rev. rewrite rev_involutive. exact Hx.
    + exfalso. destruct (Hj p Hx) as [Ho | [Hf _]].
      * unfold gout_of_range in Ho. lra.
      * destruct D' as [|d0 D0]; [destruct Hx|]. simpl in F4.
        assert (F5 : (length out + S (length D0) = length out)%nat) by (rewrite F4; symmetry; exact Hf). lia.
Qed.
End Final.
End Gen.

(** * the linear scan, abstracted in the same way *)
Section GLinear.
Context (rd : rpt -> R) (X : list (list R)).
Let tagged := map (fun p : rpt => (rd p, p)) (enumerate X).

Definition glinear_heap : list (R * rpt) :=
  fold_left (fun h p => ins_asc Ro fst (rd p, p) h) (enumerate X) [].
Definition glinear_knn (k : nat) : list rpt := map snd (firstn (Nat.min k (length X)) glinear_heap).
Definition glinear_range (rr : R) : list rpt := filter (fun p => Rltb (rd p) rr) (enumerate X).

Lemma glinear_heap_fold (l : list rpt) (h : list (R * rpt)) :
  Permutation (fold_left (fun h p => ins_asc Ro fst (rd p, p) h) l h)
              (map (fun p : rpt => (rd p, p)) l ++ h)
  /\ (asc_by fst h -> asc_by fst (fold_left (fun h p => ins_asc Ro fst (rd p, p) h) l h)).
Proof.
  revert h. induction l as [|p l IH]; intros h; simpl.
  - split; auto.
  - destruct (IH (ins_asc Ro fst (rd p, p) h)) as [H1 H2]. split.
    + eapply perm_trans; [exact H1|].
      eapply perm_trans; [apply Permutation_app_head, ins_asc_perm|].
      apply Permutation_sym, Permutation_middle.
    + intros Hs. apply H2. apply ins_asc_sorted. exact Hs.
Qed.
Lemma glinear_heap_perm : Permutation glinear_heap tagged.
Proof.
  unfold glinear_heap. destruct (glinear_heap_fold (enumerate X) []) as [H _].
  rewrite app_nil_r in H. exact H.
Qed.
Lemma glinear_heap_sorted : asc_by fst glinear_heap.
Proof.
  unfold glinear_heap. destruct (glinear_heap_fold (enumerate X) []) as [_ H]. apply H. constructor.
Qed.
Lemma glinear_heap_elem e : In e glinear_heap -> fst e = rd (snd e) /\ In (snd e) (enumerate X).
Proof.
  intros H. apply (Permutation_in _ glinear_heap_perm) in H. unfold tagged in H.
  apply in_map_iff in H. destruct H as [p [E Hp]]. subst. simpl. auto.
Qed.
Lemma glinear_heap_length : length glinear_heap = length X.
Proof.
  rewrite (Permutation_length glinear_heap_perm). unfold tagged. rewrite map_length. apply enumerate_length.
Qed.
Lemma glinear_heap_nodup : NoDup (map snd (map snd glinear_heap)).
Proof.
  eapply Permutation_NoDup.
  - apply Permutation_sym. apply Permutation_map. apply Permutation_map. apply glinear_heap_perm.
  - unfold tagged. rewrite !map_map. simpl. exact (enumerate_nodup X).
Qed.

Lemma glinear_knn_is_knn k : is_knn rd k X (glinear_knn k).
Proof.
  unfold glinear_knn. set (h := glinear_heap). set (c := Nat.min k (length X)).
  assert (Hsplit : h = firstn c h ++ skipn c h) by (symmetry; apply firstn_skipn).
  assert (Hs := glinear_heap_sorted). fold h in Hs. rewrite Hsplit in Hs.
  apply asc_by_app in Hs. destruct Hs as [Hs1 [_ Hs3]].
  repeat split.
  - rewrite map_length, firstn_length. unfold h. rewrite glinear_heap_length. unfold c. apply Nat.min_l. apply Nat.le_min_r.
  - intros p Hp. apply in_map_iff in Hp. destruct Hp as [e [E He]]. subst.
    apply firstn_In in He. apply glinear_heap_elem in He. tauto.
  - assert (Hn := glinear_heap_nodup). fold h in Hn. rewrite Hsplit in Hn.
    rewrite !map_app in Hn. apply NoDup_app_l in Hn. exact Hn.
  - apply asc_by_map. apply (asc_by_ext fst); auto.
    intros e He. apply firstn_In in He. apply glinear_heap_elem in He. tauto.
  - intros p p' Hp Hp' Hn.
    apply in_map_iff in Hp. destruct Hp as [e [E He]]. subst p.
    assert (Hin : In (rd p', p') h).
    { apply (Permutation_in _ (Permutation_sym glinear_heap_perm)). unfold tagged.
      apply in_map_iff. exists p'. auto. }
    rewrite Hsplit in Hin. apply in_app_or in Hin. destruct Hin as [Hin | Hin].
    + exfalso. apply Hn. apply in_map_iff. exists (rd p', p'). auto.
    + specialize (Hs3 _ _ He Hin). simpl in Hs3.
      assert (He' := He). apply firstn_In in He'. apply glinear_heap_elem in He'. destruct He' as [E1 _].
      rewrite <- E1. exact Hs3.
Qed.

Lemma glinear_range_is_range rr : is_range rd rr X (glinear_range rr).
Proof.
  unfold glinear_range, is_range. split.
  - assert (H := enumerate_nodup X). revert H. generalize (enumerate X). intros l H.
    induction l as [|a l IH]; simpl; [constructor|].
    simpl in H. inversion H as [|? ? Hn Hd]; subst.
    destruct (Rltb (rd a) rr); simpl; auto.
    constructor; auto. intros Hin. apply Hn.
    apply in_map_iff in Hin. destruct Hin as [b [E Hb]]. apply filter_In in Hb.
    rewrite <- E. apply in_map. tauto.
  - intros p. rewrite filter_In. rewrite Rltb_true. tauto.
Qed.
End GLinear.

(** * the model's search IS the generic one, in every arithmetic over R whose comparisons are exact *)
Section Transfer.
Context (o : NumOps R).
Context (Hlt : ltb o = Rltb) (Hle : leb o = Rleb) (Hz : zero o = 0).

Lemma ins_asc_transfer {A} (key : A -> R) x (l : list A) : ins_asc o key x l = ins_asc Ro key x l.
Proof. induction l as [|y t IH]; simpl; auto. rewrite Hlt, IH. reflexivity. Qed.
Lemma ins_desc_transfer {A} (key : A -> R) x (l : list A) : ins_desc o key x l = ins_desc Ro key x l.
Proof. induction l as [|y t IH]; simpl; auto. rewrite Hlt, IH. reflexivity. Qed.
Lemma worst_transfer (out : list (R * rpt)) : worst o out = worst Ro out.
Proof. destruct out as [|[d p] t]; simpl; auto. Qed.
Lemma lt_max_transfer d mx : lt_max o d mx = lt_max Ro d mx.
Proof. destruct mx; simpl; auto. rewrite Hlt. reflexivity. Qed.
Lemma le_max_transfer d mx : le_max o d mx = le_max Ro d mx.
Proof. destruct mx; simpl; auto. rewrite Hle. reflexivity. Qed.
Lemma ge_max_transfer d mx : ge_max o d mx = ge_max Ro d mx.
Proof. destruct mx; simpl; auto. rewrite Hle. reflexivity. Qed.

Context (eps : R) (m : metric) (q : list R).
Let rd (p : rpt) : R := rdist o m q (fst p).
Let nb (t : btree R) : R := node_bound o eps m q t.

Lemma visit_point_transfer k mx out p : visit_point o m q k mx out p = gvisit rd k mx out p.
Proof.
  unfold visit_point, gvisit. cbv zeta. fold (rd p).
  rewrite lt_max_transfer, worst_transfer, Hlt, ins_desc_transfer. reflexivity.
Qed.

Lemma fold_visit_transfer k mx ps : forall out,
  fold_left (visit_point o m q k mx) ps out = fold_left (gvisit rd k mx) ps out.
Proof. induction ps as [|p ps IH]; intros out; simpl; auto. rewrite visit_point_transfer. apply IH. Qed.

Lemma bt_loop_transfer : forall fuel k mx queue out,
  bt_loop o eps fuel m q k mx queue out = gloop rd nb fuel k mx queue out.
Proof.
  induction fuel as [|f IH]; intros k mx queue out; [reflexivity|].
  destruct queue as [|[d t] queue']; [reflexivity|].
  cbn [bt_loop gloop]. rewrite ge_max_transfer, worst_transfer, Hle. unfold rpt, ipt, pt in *.
  destruct (ge_max Ro d mx || (Nat.eqb (length out) k && Rleb (worst Ro out) d)); [reflexivity|].
  destruct t as [c r ps | c r l rt].
  - rewrite fold_visit_transfer. apply IH.
  - cbv zeta. fold (nb l). fold (nb rt). rewrite !le_max_transfer, !ins_asc_transfer. apply IH.
Qed.

Lemma linear_heap_fold_transfer (l : list rpt) : forall h,
  fold_left (fun h p => ins_asc o fst (rdist o m q (fst p), p) h) l h
  = fold_left (fun h p => ins_asc Ro fst (rd p, p) h) l h.
Proof. induction l as [|p l IH]; intros h; simpl; auto. rewrite ins_asc_transfer. apply IH. Qed.
Lemma linear_knn_transfer k X : linear_knn o m q k X = glinear_knn rd X k.
Proof. unfold linear_knn, glinear_knn, linear_heap, glinear_heap. rewrite linear_heap_fold_transfer. reflexivity. Qed.
Lemma linear_range_transfer r X : linear_range o m q r X = glinear_range rd X (to_r o m r).
Proof. unfold linear_range, glinear_range. rewrite Hlt. reflexivity. Qed.

Lemma nn_helper_transfer t n k mx : nn_helper o eps m t n q k mx = gnn_helper rd nb t n k mx.
Proof. unfold nn_helper, gnn_helper. rewrite bt_loop_transfer. reflexivity. Qed.
End Transfer.
