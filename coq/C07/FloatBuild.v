(** C07 - the ball-tree construction in any arithmetic over R with exact comparisons and a monotone
    square root (in particular SM_ops rnd for a monotone rounding): bt_new builds a tree that satisfies
    the sphere invariant AS COMPUTED in that arithmetic, has consistent dimensions and stores the rows
    of the batch.  Same proofs as for exact arithmetic in C07/Proofs.v (partition_pts_spec,
    calc_radius_ge, bt_build_spec, bt_build_dim), with the arithmetic left abstract: the construction
    only compares numbers, except for the centre of a leaf and the radius. *)
From Coq Require Import List NArith Reals Lra Lia Bool Arith Permutation.
From LinfaVerif Require Import Common.Num C07.Model C07.Proofs.
Import ListNotations.
Local Open Scope R_scope.

Section Build.
Context (o : NumOps R).
Context (Hlt : ltb o = Rltb) (Hle : leb o = Rleb).
Context (sqrt_mono : forall x y, x <= y -> sqrt o x <= sqrt o y).

(* the sphere invariant of every node as computed in o *)
Fixpoint InvO (m : metric) (t : btree R) : Prop :=
  (forall p, In p (tree_points t) -> dist o m (fst p) (center t) <= radius t) /\
  match t with BLeaf _ _ _ => True | BBranch _ _ l r => InvO m l /\ InvO m r end.

Lemma partition_pts_spec_o (ps : list rpt) l c r :
  (2 <= length ps)%nat -> partition_pts o ps = (l, c, r) ->
  Permutation (l ++ r) ps /\ l <> [] /\ r <> [] /\ (exists e, In e ps /\ c = fst e).
Proof.
  assert (Hirr : forall a, ltb o a a = false) by (intros a; rewrite Hlt; apply Rltb_false; apply Rle_refl).
  intros Hlen. unfold partition_pts. cbv zeta.
  match goal with |- context [List.partition ?f0 ?l0] => set (f := f0); set (ps' := l0) end.
  match goal with |- context [fst (nth ?m0 ps' ?d0)] => set (mid := m0) in * end.
  set (e := nth mid ps' (dflt_ipt)).
  assert (Pp : Permutation ps' ps) by apply fr_select_perm.
  assert (Hmid : (mid < length ps')%nat).
  { rewrite (Permutation_length Pp). unfold mid.
    apply Nat.div_lt; [apply Nat.lt_le_trans with 2%nat; [repeat constructor | exact Hlen] | repeat constructor]. }
  assert (He : In e ps') by (apply nth_In; exact Hmid).
  assert (Hpp := partition_perm f ps').
  assert (Hr0 : In e (snd (List.partition f ps'))).
  { apply partition_snd; auto. unfold f, coord. apply Hirr. }
  destruct (List.partition f ps') as [l0 r0]. cbn [fst snd] in Hpp, Hr0.
  destruct l0 as [|a l0].
  - destruct r0 as [|b r0]; [contradiction|].
    intros E. apply pair_equal_spec in E. destruct E as [E E3]. apply pair_equal_spec in E. destruct E as [E1 E2]. subst l c r. cbn [app] in Hpp.
    assert (Hl : length (b :: r0) = length ps)
      by (rewrite (Permutation_length Hpp); apply Permutation_length; exact Pp).
    assert (Hd : b :: r0 = removelast (b :: r0) ++ [last (b :: r0) dflt_ipt])
      by (apply app_removelast_last; discriminate).
    split; [|split; [|split]].
    + eapply perm_trans; [|exact Pp]. eapply perm_trans; [|exact Hpp].
      apply last_removelast_perm. discriminate.
    + discriminate.
    + intros Hn. rewrite Hn in Hd. cbn [app] in Hd. rewrite Hd in Hl. cbn [length] in Hl.
      rewrite <- Hl in Hlen. exact (Nat.nle_succ_diag_l 1 Hlen).
    + exists e. split; [apply (Permutation_in _ Pp); exact He | reflexivity].
  - intros E. apply pair_equal_spec in E. destruct E as [E E3]. apply pair_equal_spec in E. destruct E as [E1 E2]. subst l c r. split; [|split; [|split]].
    + eapply perm_trans; [exact Hpp | exact Pp].
    + discriminate.
    + intros Hn. subst. contradiction.
    + exists e. split; [apply (Permutation_in _ Pp); exact He | reflexivity].
Qed.

Lemma fmax_o a c : fmax o a c = Rmax a c.
Proof. unfold fmax, Rmax. rewrite Hlt. unfold Rltb. destruct (Rlt_dec a c), (Rle_dec a c); lra. Qed.

Lemma fold_fmax_ge_o {A} (g : A -> R) (l : list A) : forall acc,
  acc <= fold_left (fun a p => fmax o a (g p)) l acc /\
  (forall p, In p l -> g p <= fold_left (fun a p => fmax o a (g p)) l acc).
Proof.
  induction l as [|x l IH]; intros acc; simpl.
  - split; [lra | tauto].
  - destruct (IH (fmax o acc (g x))) as [H1 H2]. rewrite fmax_o in *.
    assert (Ha := Rmax_l acc (g x)). assert (Hb := Rmax_r acc (g x)). split; [lra|].
    intros p [Hp | Hp]; [subst; lra | auto].
Qed.

Lemma of_r_mono_o m x y : x <= y -> of_r o m x <= of_r o m y.
Proof. destruct m; simpl; auto. Qed.

Lemma calc_radius_ge_o m (ps : list rpt) c p : In p ps -> dist o m (fst p) c <= calc_radius o m ps c.
Proof.
  destruct ps as [|p0 t]; simpl; [tauto|]. intros H.
  replace (dist o m (fst p) c) with (of_r o m (rdist o m (fst p) c)) by (destruct m; reflexivity).
  apply of_r_mono_o.
  destruct (fold_fmax_ge_o (fun p : rpt => rdist o m (fst p) c) t (rdist o m (fst p0) c)) as [H1 H2].
  destruct H as [H | H]; [subst; exact H1 | apply H2; exact H].
Qed.

Lemma leaf_node_spec_o m (ps : list rpt) : InvO m (leaf_node o m ps) /\ tree_points (leaf_node o m ps) = ps.
Proof.
  unfold leaf_node. destruct ps as [|p0 t]; simpl.
  - split; [split; [tauto | exact I] | reflexivity].
  - split; [split; [|exact I] | reflexivity].
    intros p Hp. apply (calc_radius_ge_o m (p0 :: t)). exact Hp.
Qed.

Lemma bt_build_S_o f m leaf (ps : list rpt) :
  bt_build o (S f) m leaf ps =
  if Nat.leb (length ps) leaf then leaf_node o m ps
  else let '(l, c, r) := partition_pts o ps in
       BBranch c (calc_radius o m (l ++ r) c) (bt_build o f m leaf l) (bt_build o f m leaf r).
Proof. reflexivity. Qed.

Lemma bt_build_spec_o m leaf : (1 <= leaf)%nat -> forall fuel (ps : list rpt), (length ps <= fuel)%nat ->
  InvO m (bt_build o fuel m leaf ps) /\ Permutation (tree_points (bt_build o fuel m leaf ps)) ps.
Proof.
  intros Hleaf. induction fuel as [|f IH]; intros ps Hf.
  - destruct ps as [|p ps]; [|simpl in Hf; inversion Hf]. simpl.
    split; [split; [intros p [] | exact I] | constructor].
  - rewrite bt_build_S_o. destruct (Nat.leb (length ps) leaf) eqn:E.
    + destruct (leaf_node_spec_o m ps) as [H1 H2]. split; auto. rewrite H2. auto.
    + apply Nat.leb_gt in E.
      destruct (partition_pts o ps) as [[l c] r] eqn:Ep.
      assert (H2 : (2 <= length ps)%nat)
        by (apply Nat.le_trans with (S leaf); [apply le_n_S; exact Hleaf | exact E]).
      destruct (partition_pts_spec_o ps l c r H2 Ep) as [Pp [Hl [Hr _]]].
      assert (Hlen := Permutation_length Pp). rewrite app_length in Hlen.
      assert (Ll : (length l <= f)%nat).
      { destruct r; [contradiction|]. unfold rpt, ipt, pt in *. simpl in Hlen. lia. }
      assert (Lr : (length r <= f)%nat).
      { destruct l; [contradiction|]. unfold rpt, ipt, pt in *. simpl in Hlen. lia. }
      destruct (IH l Ll) as [Il Pl]. destruct (IH r Lr) as [Ir Pr].
      simpl. split; [split; [|split; auto]|].
      * intros p Hp. apply calc_radius_ge_o.
        apply (Permutation_in _ (Permutation_app Pl Pr)). exact Hp.
      * eapply perm_trans; [apply Permutation_app; eauto | exact Pp].
Qed.

(** dimensions *)
Lemma vadd_length_o (a b : list R) : length (vadd o a b) = Nat.min (length a) (length b).
Proof. unfold vadd. rewrite map_length, combine_length. reflexivity. Qed.

Lemma fold_vadd_length_o dm (ps : list rpt) : forall c,
  length c = dm -> (forall p, In p ps -> length (fst p) = dm) ->
  length (fold_left (fun c p => vadd o c (fst p)) ps c) = dm.
Proof.
  induction ps as [|p ps IH]; intros c Hc Hp; simpl; auto.
  apply IH; [|intros p' Hp'; apply Hp; right; auto].
  rewrite vadd_length_o, Hc, (Hp p (or_introl eq_refl)). apply Nat.min_id.
Qed.

Lemma leaf_node_dim_o m dm (ps : list rpt) :
  (forall p, In p ps -> length (fst p) = dm) -> dim_ok dm (leaf_node o m ps).
Proof.
  intros Hp. unfold leaf_node. destruct ps as [|p0 t]; simpl.
  - split; [intros p [] | exact I].
  - split; [|exact I]. intros p Hin. split; [apply Hp; exact Hin|].
    rewrite map_length. apply (fold_vadd_length_o dm (p0 :: t)); auto.
    rewrite repeat_length. apply Hp. left. reflexivity.
Qed.

Lemma bt_build_dim_o m leaf dm : (1 <= leaf)%nat -> forall fuel (ps : list rpt), (length ps <= fuel)%nat ->
  (forall p, In p ps -> length (fst p) = dm) -> dim_ok dm (bt_build o fuel m leaf ps).
Proof.
  intros Hleaf. induction fuel as [|f IH]; intros ps Hf Hp.
  - destruct ps as [|p ps]; [|simpl in Hf; inversion Hf]. simpl. split; [intros p [] | exact I].
  - rewrite bt_build_S_o. destruct (Nat.leb (length ps) leaf) eqn:E.
    + apply leaf_node_dim_o. exact Hp.
    + apply Nat.leb_gt in E.
      destruct (partition_pts o ps) as [[l c] r] eqn:Ep.
      assert (H2 : (2 <= length ps)%nat)
        by (apply Nat.le_trans with (S leaf); [apply le_n_S; exact Hleaf | exact E]).
      destruct (partition_pts_spec_o ps l c r H2 Ep) as [Pp [Hl [Hr [e [He Hc]]]]].
      assert (Hlen := Permutation_length Pp). rewrite app_length in Hlen.
      assert (Ll : (length l <= f)%nat).
      { destruct r; [contradiction|]. unfold rpt, ipt, pt in *. simpl in Hlen. lia. }
      assert (Lr : (length r <= f)%nat).
      { destruct l; [contradiction|]. unfold rpt, ipt, pt in *. simpl in Hlen. lia. }
      assert (Hpl : forall p, In p l -> length (fst p) = dm).
      { intros p Hin. apply Hp. apply (Permutation_in _ Pp). apply in_or_app. auto. }
      assert (Hpr : forall p, In p r -> length (fst p) = dm).
      { intros p Hin. apply Hp. apply (Permutation_in _ Pp). apply in_or_app. auto. }
      destruct (bt_build_spec_o m leaf Hleaf f l Ll) as [_ Pl].
      destruct (bt_build_spec_o m leaf Hleaf f r Lr) as [_ Pr].
      simpl. split; [|split; [apply IH | apply IH]; auto].
      intros p Hin. split; [|subst c; apply Hp; exact He].
      apply Hp. apply (Permutation_in _ Pp). apply (Permutation_in _ (Permutation_app Pl Pr)). exact Hin.
Qed.

Lemma bt_new_wf_o m leaf dm (X : list (list R)) :
  (1 <= leaf)%nat -> (forall x, In x X -> length x = dm) ->
  InvO m (bt_new o m leaf X) /\ dim_ok dm (bt_new o m leaf X)
  /\ Permutation (tree_points (bt_new o m leaf X)) (enumerate X).
Proof.
  intros Hleaf HX. unfold bt_new.
  assert (Hl : (length (enumerate X) <= length X)%nat) by (apply Nat.eq_le_incl; exact (enumerate_length X)).
  destruct (bt_build_spec_o m leaf Hleaf (length X) (enumerate X) Hl) as [H1 H2].
  split; [exact H1 | split; [|exact H2]].
  apply bt_build_dim_o; auto. intros [c i] Hin. simpl. apply HX.
  apply enumerate_spec in Hin. apply nth_error_In in Hin. exact Hin.
Qed.
End Build.
