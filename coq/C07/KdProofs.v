(** C07 - the k-d tree wrapper of linfa-nn is correct whenever the external `kdtree` crate keeps its
    contract (lemmas behind C07/PropertiesKd.v). *)
From Coq Require Import List NArith Reals Lra Lia Bool Arith Permutation Sorting.Sorted.
From LinfaVerif Require Import Common.Num C07.Model C07.KdModel C07.Proofs.
Import ListNotations.
Local Open Scope R_scope.

Definition row_of (e : R * rpt) : N := snd (snd e).

(** * the contract of the crate, for a batch X; [dq] is the reduced distance from the query to a stored point *)
(* one answer of KdTree::within(q, rr, f): exactly the stored (distance, datum) pairs with distance <= rr, each once *)
Definition within_ok_at (dq : rpt -> R) (X : list (list R)) (rr : R) (raw : list (R * rpt)) : Prop :=
  NoDup (map row_of raw) /\
  forall e, In e raw <-> (In (snd e) (enumerate X) /\ fst e = dq (snd e) /\ fst e <= rr).
Definition within_contract (dqf : list R -> rpt -> R) (X : list (list R)) (within : @kd_within_t R) : Prop :=
  forall q rr, within_ok_at (dqf q) X rr (within q rr).

(* one answer of KdTree::nearest(q, k, f): min(k, size) stored pairs, each once, ascending, and no
   stored point that was left out is strictly closer than a returned one *)
Definition nearest_ok_at (dq : rpt -> R) (X : list (list R)) (k : nat) (l : list (R * rpt)) : Prop :=
  length l = Nat.min k (length X) /\
  (forall e, In e l -> In (snd e) (enumerate X) /\ fst e = dq (snd e)) /\
  NoDup (map row_of l) /\
  StronglySorted (fun a b => fst a <= fst b) l /\
  (forall e p', In e l -> In p' (enumerate X) -> ~ In p' (map snd l) -> fst e <= dq p').
Definition nearest_contract (dqf : list R -> rpt -> R) (X : list (list R)) (nearest : @kd_nearest_t R) : Prop :=
  forall q k, nearest_ok_at (dqf q) X k (nearest q k).

Lemma NoDup_map_filter {A B} (g : A -> B) (f : A -> bool) (l : list A) :
  NoDup (map g l) -> NoDup (map g (filter f l)).
Proof.
  induction l as [|a l IH]; simpl; intros H; [constructor|].
  inversion H as [|? ? Hn Hd]; subst. destruct (f a); simpl; auto.
  constructor; auto. intros Hin. apply Hn.
  apply in_map_iff in Hin. destruct Hin as [b [E Hb]]. apply filter_In in Hb.
  rewrite <- E. apply in_map. tauto.
Qed.

(** * the range query of the wrapper *)
Lemma kd_range_at m X (within : @kd_within_t R) q r :
  within_ok_at (dq_of Ro m q) X (to_r Ro m r) (within q (to_r Ro m r)) ->
  is_range (dq_of Ro m q) (to_r Ro m r) X (kd_range Ro within m q r).
Proof.
  unfold kd_range. set (rr := to_r Ro m r). intros [Hnd Hin].
  split.
  - rewrite map_map. apply (NoDup_map_filter row_of). exact Hnd.
  - intros p. rewrite in_map_iff. split.
    + intros [e [E He]]. apply filter_In in He. destruct He as [He Hf]. simpl in Hf. apply Rltb_true in Hf.
      apply Hin in He. destruct He as [H1 [H2 _]]. subst p. split; [exact H1|].
      apply Rle_lt_trans with (fst e); [right; symmetry; exact H2 | exact Hf].
    + intros [Hp Hlt]. exists (dq_of Ro m q p, p). split; [reflexivity|].
      apply filter_In. split.
      * apply Hin. simpl. split; [exact Hp|]. split; [reflexivity | lra].
      * simpl. apply Rltb_true. exact Hlt.
Qed.

Lemma kd_range_is_range m X (within : @kd_within_t R) q r :
  within_contract (fun q p => rdist Ro m q (fst p)) X within ->
  is_range (dq_of Ro m q) (to_r Ro m r) X (kd_range Ro within m q r).
Proof. intros C. apply kd_range_at. apply (C q). Qed.

(** * the k-nearest query of the wrapper *)
Lemma kd_knn_at m X (nearest : @kd_nearest_t R) q k :
  nearest_ok_at (dq_of Ro m q) X k (nearest q k) ->
  is_knn (dq_of Ro m q) k X (kd_knn nearest q k).
Proof.
  unfold kd_knn. intros [Hlen [Hel [Hnd [Hs Hopt]]]].
  repeat split.
  - rewrite map_length. exact Hlen.
  - intros p Hp. apply in_map_iff in Hp. destruct Hp as [e [E He]]. subst p. apply Hel. exact He.
  - rewrite map_map. exact Hnd.
  - apply asc_by_map. apply (asc_by_ext fst); [|exact Hs].
    intros e He. destruct (Hel e He) as [_ E]. exact E.
  - intros p p' Hp Hp' Hn. apply in_map_iff in Hp. destruct Hp as [e [E He]]. subst p.
    destruct (Hel e He) as [_ E]. apply Rle_trans with (fst e); [right; symmetry; exact E|].
    apply (Hopt e p' He Hp' Hn).
Qed.

Lemma kd_knn_is_knn m X (nearest : @kd_nearest_t R) q k :
  nearest_contract (fun q p => rdist Ro m q (fst p)) X nearest ->
  is_knn (dq_of Ro m q) k X (kd_knn nearest q k).
Proof. intros C. apply kd_knn_at. apply (C q). Qed.

(** * the decidable contract checks that the correspondence evaluates on the crate's raw answers
      accept only answers that keep the contract (over the reals) *)
Lemma within_obs_ok_sound (dq : rpt -> R) rr X raw :
  within_obs_ok Ro Reqb dq rr X raw = true -> within_ok_at dq X rr raw.
Proof.
  unfold within_obs_ok. rewrite !andb_true_iff. intros [[[Hv Hn] He] Hall].
  apply nodup_N_sound in Hn. rewrite map_map in Hn.
  rewrite forallb_forall in Hv, He, Hall.
  split; [exact Hn|]. intros e. split.
  - intros Hin. specialize (He e Hin). apply andb_true_iff in He. destruct He as [E L].
    apply Reqb_true in E. apply Rleb_true in L. split; [|split; assumption].
    apply ipt_valid_sound. apply Hv. apply in_map. exact Hin.
  - intros [Hp [E L]]. specialize (Hall (snd e) Hp). apply orb_true_iff in Hall. destruct Hall as [Hf | Hm].
    + apply negb_true_iff in Hf. apply Rleb_false in Hf. lra.
    + apply mem_N_In in Hm. rewrite map_map in Hm. apply in_map_iff in Hm. destruct Hm as [e' [Er He']].
      assert (Hp' : In (snd e') (enumerate X)) by (apply ipt_valid_sound; apply Hv; apply in_map; exact He').
      assert (Es : snd e' = snd e).
      { apply (NoDup_map_snd_inj (enumerate X)); auto. apply enumerate_nodup. }
      specialize (He e' He'). apply andb_true_iff in He. destruct He as [E' _]. apply Reqb_true in E'.
      destruct e as [d p], e' as [d' p']. simpl in *. subst p'. rewrite E' in He'. rewrite E. exact He'.
Qed.

Lemma nearest_obs_ok_sound (dq : rpt -> R) k X raw :
  nearest_obs_ok Ro Reqb dq k X raw = true -> nearest_ok_at dq X k raw.
Proof.
  unfold nearest_obs_ok. rewrite andb_true_iff. intros [He Hk].
  rewrite forallb_forall in He.
  assert (E : forall e, In e raw -> fst e = dq (snd e)) by (intros e H; apply Reqb_true; apply He; exact H).
  apply knn_ok_sound in Hk. destruct Hk as [H1 [H2 [H3 [H4 H5]]]].
  repeat split.
  - rewrite map_length in H1. exact H1.
  - apply H2. apply in_map. exact H.
  - apply E. exact H.
  - rewrite map_map in H3. exact H3.
  - clear H1 H2 H3 H5 He. induction raw as [|a raw IH]; [constructor|].
    simpl in H4. inversion H4 as [|? ? Hs Hf]; subst. constructor.
    + apply IH; auto. intros e He'. apply E. right; exact He'.
    + rewrite Forall_forall in *. intros b Hb.
      assert (Ea : fst a = dq (snd a)) by (apply E; left; reflexivity).
      assert (Eb : fst b = dq (snd b)) by (apply E; right; exact Hb).
      assert (Hab : dq (snd a) <= dq (snd b)) by (apply Hf; apply in_map; exact Hb).
      apply Rle_trans with (dq (snd a)); [right; exact Ea|].
      apply Rle_trans with (dq (snd b)); [exact Hab | right; symmetry; exact Eb].
  - intros e p' He' Hp' Hn. apply Rle_trans with (dq (snd e)); [right; apply E; exact He'|].
    apply (H5 (snd e) p'); auto. apply in_map. exact He'.
Qed.

(** * error cases of the wrapper (every arithmetic) *)
Lemma kd_index_errors {F} (o : NumOps F) (nearest : @kd_nearest_t F) (within : @kd_within_t F) m leaf dim q k r :
  (leaf = 0%nat -> kd_index_knn nearest leaf dim q k = inl (Some EmptyLeaf)
                   /\ kd_index_range o within m leaf dim q r = inl (Some EmptyLeaf)) /\
  (leaf <> 0%nat -> dim = 0%nat -> kd_index_knn nearest leaf dim q k = inl (Some ZeroDimension)
                                   /\ kd_index_range o within m leaf dim q r = inl (Some ZeroDimension)) /\
  (leaf <> 0%nat -> dim <> 0%nat -> length q <> dim ->
     kd_index_knn nearest leaf dim q k = inr (inl (Some WrongDimension))
     /\ kd_index_range o within m leaf dim q r = inr (inl (Some WrongDimension))) /\
  (leaf <> 0%nat -> dim <> 0%nat -> length q = dim ->
     kd_index_knn nearest leaf dim q k = inr (inr (kd_knn nearest q k))
     /\ kd_index_range o within m leaf dim q r = inr (inr (kd_range o within m q r))).
Proof.
  unfold kd_index_knn, kd_index_range, build_check, query_check.
  repeat split; intros; subst; simpl;
    repeat match goal with
           | H : ?a <> 0%nat |- context [Nat.eqb ?a 0] => rewrite (proj2 (Nat.eqb_neq a 0%nat) H)
           end; simpl; try reflexivity.
  - rewrite (proj2 (Nat.eqb_neq dim (length q))) by auto. reflexivity.
  - rewrite (proj2 (Nat.eqb_neq dim (length q))) by auto. reflexivity.
  - rewrite Nat.eqb_refl. reflexivity.
  - rewrite Nat.eqb_refl. reflexivity.
Qed.

(** * non-vacuity: the contracts are satisfiable - the brute-force answers keep them for every batch *)
Definition bf_within (m : metric) (X : list (list R)) : @kd_within_t R :=
  fun q rr => filter (fun e => Rleb (fst e) rr) (map (fun p => (dq_of Ro m q p, p)) (enumerate X)).
Definition bf_nearest (m : metric) (X : list (list R)) : @kd_nearest_t R :=
  fun q k => firstn (Nat.min k (length X)) (linear_heap Ro m q X).

Lemma bf_within_contract m X : within_contract (fun q p => rdist Ro m q (fst p)) X (bf_within m X).
Proof.
  intros q rr. unfold within_ok_at, bf_within. split.
  - apply (NoDup_map_filter row_of). rewrite map_map. simpl. exact (enumerate_nodup X).
  - intros [d p]. rewrite filter_In, in_map_iff. simpl. rewrite Rleb_true. split.
    + intros [[p0 [E Hp0]] Hle]. inversion E; subst. unfold dq_of. auto.
    + intros [Hp [E Hle]]. split; [|exact Hle]. exists p. split; [|exact Hp]. unfold dq_of. rewrite E. reflexivity.
Qed.

Lemma bf_nearest_contract m X : nearest_contract (fun q p => rdist Ro m q (fst p)) X (bf_nearest m X).
Proof.
  intros q k. unfold nearest_ok_at, bf_nearest. set (h := linear_heap Ro m q X). set (c := Nat.min k (length X)).
  assert (Hsplit : h = firstn c h ++ skipn c h) by (symmetry; apply firstn_skipn).
  assert (Hs := linear_heap_sorted m q X). fold h in Hs. rewrite Hsplit in Hs.
  apply asc_by_app in Hs. destruct Hs as [Hs1 [_ Hs3]].
  repeat split.
  - rewrite firstn_length. unfold h. rewrite linear_heap_length. unfold c. apply Nat.min_l. apply Nat.le_min_r.
  - apply firstn_In in H. apply linear_heap_elem in H. tauto.
  - apply firstn_In in H. apply linear_heap_elem in H. unfold dq_of in H. tauto.
  - assert (Hn := linear_heap_nodup m q X). fold h in Hn. rewrite Hsplit in Hn.
    rewrite !map_app in Hn. apply NoDup_app_l in Hn. rewrite map_map in Hn. exact Hn.
  - exact Hs1.
  - intros e p' He Hp' Hn.
    assert (Hin : In (dq_of Ro m q p', p') h).
    { apply (Permutation_in _ (Permutation_sym (linear_heap_perm m q X))).
      apply in_map_iff. exists p'. auto. }
    rewrite Hsplit in Hin. apply in_app_or in Hin. destruct Hin as [Hin | Hin].
    + exfalso. apply Hn. apply in_map_iff. exists (dq_of Ro m q p', p'). auto.
    + exact (Hs3 _ _ He Hin).
Qed.

(* the wrapper without the strict filter (the code before repair 276337d) returns a border point:
   batch {0, 1} on the line, query 0, radius 1, with a crate that keeps its contract *)
Lemma kd_range_unfiltered_not_range :
  let X := [[0]; [1]] in
  within_contract (fun q p => rdist Ro L1 q (fst p)) X (bf_within L1 X) /\
  ~ is_range (dq_of Ro L1 [0]) (to_r Ro L1 1) X (kd_range_unfiltered Ro (bf_within L1 X) L1 [0] 1) /\
  is_range (dq_of Ro L1 [0]) (to_r Ro L1 1) X (kd_range Ro (bf_within L1 X) L1 [0] 1).
Proof.
  intros X. assert (C := bf_within_contract L1 X). split; [exact C|]. split.
  - intros [_ H]. specialize (H ([1], 1%N)).
    assert (Hin : In ([1], 1%N) (kd_range_unfiltered Ro (bf_within L1 X) L1 [0] 1)).
    { unfold kd_range_unfiltered. apply in_map_iff. exists (1, ([1], 1%N)). split; [reflexivity|].
      apply (C [0] (to_r Ro L1 1)). split; [right; left; reflexivity|].
      cbn [fst snd]. rewrite l1_01. split; [reflexivity | simpl; lra]. }
    apply H in Hin. destruct Hin as [_ Hlt]. unfold dq_of in Hlt. simpl fst in Hlt. rewrite l1_01 in Hlt.
    simpl in Hlt. lra.
  - apply kd_range_is_range. exact C.
Qed.
