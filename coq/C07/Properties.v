(** C07 - property theorems (statements only; proofs are in C07/Proofs.v).
    Specification vocabulary (C07/Proofs.v):
      is_knn dq k X res   - res is a correct answer to "k nearest rows of X" for the distance dq:
                            min(k,n) rows of the batch with their own coordinates and positions,
                            none twice, ascending, and nothing left out is strictly closer;
      is_range dq rr X res- res holds exactly the rows of X with dq < rr, none twice;
      Inv m t             - every point stored below a node of the ball tree t lies in its sphere;
      dim_ok d t          - the points and centres of t have dimension d. *)
From Coq Require Import List NArith Reals Permutation Sorting.Sorted.
From LinfaVerif Require Import Common.Num C07.Model C07.Proofs.
Import ListNotations.
Local Open Scope R_scope.

(** The linear scan answers a k-nearest query correctly, for every batch, query, k and each of the
    metrics L1, L2, L-infinity (stated in full: length, provenance of every returned
    (coordinates, position) pair, distinctness, order, optimality). *)
Theorem linear_knn_correct : forall (m : metric) (q : list R) (k : nat) (X : list (list R)),
  let res := linear_knn R_ops m q k X in
  let d := fun p : list R * N => rdist R_ops m q (fst p) in
  length res = Nat.min k (length X) /\
  (forall p, In p res -> nth_error X (N.to_nat (snd p)) = Some (fst p)) /\
  NoDup (map snd res) /\
  StronglySorted (fun a b => d a <= d b) res /\
  (forall p i x, In p res -> nth_error X i = Some x -> ~ In (x, N.of_nat i) res -> d p <= rdist R_ops m q x).
Proof.
  intros m q k X res d. destruct (linear_knn_is_knn m q X k) as [H1 [H2 [H3 [H4 H5]]]].
  repeat split; auto.
  - intros [c i] Hp. apply enumerate_spec. apply H2. exact Hp.
  - intros p i x Hp Hx Hn. apply (H5 p (x, N.of_nat i)); auto.
    apply enumerate_spec. simpl. rewrite Nat2N.id. exact Hx.
Qed.

(** ... and a range query with exactly the rows strictly inside the radius, each once. *)
Theorem linear_range_correct : forall (m : metric) (q : list R) (r : R) (X : list (list R)) (p : list R * N),
  NoDup (map snd (linear_range R_ops m q r X)) /\
  (In p (linear_range R_ops m q r X) <->
   nth_error X (N.to_nat (snd p)) = Some (fst p) /\ rdist R_ops m q (fst p) < to_r R_ops m r).
Proof.
  intros m q r X [c i]. destruct (linear_range_is_range m q X r) as [H1 H2]. split; auto.
  rewrite H2. unfold dq_of. simpl.
  split; intros [Ha Hb]; (split; [apply enumerate_spec; exact Ha | exact Hb]).
Qed.

(** The structural part holds in every arithmetic, in particular for the binary64 / binary32
    instances that are run against the implementation. *)
Theorem linear_knn_rows_valid : forall F (o : NumOps F) m q k (X : list (list F)),
  length (linear_knn o m q k X) = Nat.min k (length X) /\
  incl (linear_knn o m q k X) (enumerate X) /\
  NoDup (map snd (linear_knn o m q k X)).
Proof. exact (@linear_knn_rows_any). Qed.

(** Correct answers are unique up to ties: any two correct answers to the same k-nearest query list
    the same distances, position by position, and any two correct answers to a range query hold
    the same rows.  Hence index kinds that answer correctly agree with one another on every query. *)
Theorem indices_agree_knn : forall (dq : list R * N -> R) k X r1 r2,
  is_knn dq k X r1 -> is_knn dq k X r2 -> map dq r1 = map dq r2.
Proof. exact knn_dists_unique. Qed.

Theorem indices_agree_range : forall (dq : list R * N -> R) rr X r1 r2,
  is_range dq rr X r1 -> is_range dq rr X r2 -> forall p, In p r1 <-> In p r2.
Proof. exact range_rows_unique. Qed.

(** The decidable judges that the correspondence runs evaluate on the implementation's answers
    (all three index kinds, incl. the external k-d tree) accept only correct answers. *)
Theorem judges_sound : forall (dq : list R * N -> R) k rr X res,
  (knn_ok R_ops Reqb dq k X res = true -> is_knn dq k X res) /\
  (range_ok R_ops Reqb dq rr X res = true -> is_range dq rr X res).
Proof. intros. split; [apply knn_ok_sound | apply range_ok_sound]. Qed.

(** The three provided metrics satisfy the triangle inequality (points of one dimension). *)
Theorem metric_triangle : forall (m : metric) (a b c : list R),
  length a = length b -> length b = length c ->
  dist R_ops m a c <= dist R_ops m a b + dist R_ops m b c.
Proof. exact dist_triangle. Qed.

(** Ball-tree construction (partition with order_stat's selection, leaf means, calc_radius): for
    every batch and leaf size >= 1 the tree satisfies the sphere invariant at every node and its
    leaves hold exactly the rows of the batch, each with its coordinates and position. *)
Theorem bt_build_inv : forall (m : metric) (leaf : nat) (X : list (list R)),
  (1 <= leaf)%nat ->
  Inv m (bt_new R_ops m leaf X) /\ Permutation (tree_points (bt_new R_ops m leaf X)) (enumerate X).
Proof.
  intros m leaf X H. unfold bt_new. apply bt_build_spec; auto.
  apply Nat.eq_le_incl. exact (enumerate_length X).
Qed.

(** The pruning bound of the search (with any non-negative safety margin factor, in particular 0 =
    the textbook bound and the 2^-52 of the repaired code) never exceeds the reduced distance from
    the query to a point stored below the node. *)
Theorem bt_bound_sound : forall (eps : R) (m : metric) (q : list R) (t : btree R) (p : list R * N),
  0 <= eps ->
  (forall p, In p (tree_points t) -> dist R_ops m (fst p) (center t) <= radius t) ->
  In p (tree_points t) ->
  length q = length (fst p) -> length (fst p) = length (center t) ->
  node_bound R_ops eps m q t <= rdist R_ops m q (fst p).
Proof. exact node_bound_sound. Qed.

(** Malformed builds and queries are reported as errors, well-formed ones are answered (linear
    scan and ball tree, every arithmetic). *)
Theorem error_cases : forall F (o : NumOps F) eps kd m leaf dim X q k r,
  ((leaf = 0%nat -> index_knn o eps kd m leaf dim X q k = inl (Some EmptyLeaf)) /\
   (leaf <> 0%nat -> dim = 0%nat -> index_knn o eps kd m leaf dim X q k = inl (Some ZeroDimension)) /\
   (leaf <> 0%nat -> dim <> 0%nat -> length q <> dim ->
      index_knn o eps kd m leaf dim X q k = inr (inl (Some WrongDimension))) /\
   (leaf <> 0%nat -> dim <> 0%nat -> length q = dim ->
      exists res, index_knn o eps kd m leaf dim X q k = inr (inr res))) /\
  ((leaf = 0%nat -> index_range o eps kd m leaf dim X q r = inl (Some EmptyLeaf)) /\
   (leaf <> 0%nat -> dim = 0%nat -> index_range o eps kd m leaf dim X q r = inl (Some ZeroDimension)) /\
   (leaf <> 0%nat -> dim <> 0%nat -> length q <> dim ->
      index_range o eps kd m leaf dim X q r = inr (inl (Some WrongDimension))) /\
   (leaf <> 0%nat -> dim <> 0%nat -> length q = dim ->
      exists res, index_range o eps kd m leaf dim X q r = inr (inr res))).
Proof. intros. split; [apply index_knn_errors | apply index_range_errors]. Qed.

(** The ball tree of the model - construction followed by the best-first search with its pruning -
    answers every k-nearest and every range query correctly: for every metric (L1, L2, Linf), batch
    of points of one dimension, leaf size >= 1, query of that dimension, k, radius and safety
    margin factor eps >= 0 (eps = 0: the original bound; eps = 2^-52: the repaired code). *)
Theorem bt_search_correct_knn : forall (m : metric) (eps : R) (leaf dm : nat) (X : list (list R)) (q : list R) (k : nat),
  0 <= eps -> (1 <= leaf)%nat -> (forall x, In x X -> length x = dm) -> length q = dm ->
  is_knn (dq_of R_ops m q) k X (bt_knn R_ops eps m (bt_new R_ops m leaf X) (length X) q k).
Proof. intros; apply (ball_tree_knn_correct m eps leaf dm); auto. Qed.

Theorem bt_search_correct_range : forall (m : metric) (eps : R) (leaf dm : nat) (X : list (list R)) (q : list R) (r : R),
  0 <= eps -> (1 <= leaf)%nat -> (forall x, In x X -> length x = dm) -> length q = dm ->
  is_range (dq_of R_ops m q) (to_r R_ops m r) X (bt_range R_ops eps m (bt_new R_ops m leaf X) (length X) q r).
Proof. intros; apply (ball_tree_range_correct m eps leaf dm); auto. Qed.

(** ... and this holds for the search on ANY tree that satisfies the sphere invariant, has
    consistent dimensions and stores the rows of the batch (e.g. a tree built differently). *)
Theorem bt_search_correct_any_tree : forall (m : metric) (eps : R) (X : list (list R)) (t : btree R) (q : list R) (dm : nat) (k : nat) (r : R),
  0 <= eps -> Inv m t -> dim_ok dm t -> length q = dm -> Permutation (tree_points t) (enumerate X) ->
  is_knn (dq_of R_ops m q) k X (bt_knn R_ops eps m t (length X) q k) /\
  is_range (dq_of R_ops m q) (to_r R_ops m r) X (bt_range R_ops eps m t (length X) q r).
Proof. intros. split; [eapply bt_knn_is_knn | eapply bt_range_is_range]; eauto. Qed.

(** Interchangeability: on every query the linear scan and the ball tree return the same distances
    (k nearest) and the same rows (range). *)
Theorem linear_and_ball_tree_agree : forall (m : metric) (eps : R) (leaf dm : nat) (X : list (list R)) (q : list R) (k : nat) (r : R),
  0 <= eps -> (1 <= leaf)%nat -> (forall x, In x X -> length x = dm) -> length q = dm ->
  map (dq_of R_ops m q) (linear_knn R_ops m q k X)
    = map (dq_of R_ops m q) (bt_knn R_ops eps m (bt_new R_ops m leaf X) (length X) q k) /\
  (forall p, In p (linear_range R_ops m q r X)
             <-> In p (bt_range R_ops eps m (bt_new R_ops m leaf X) (length X) q r)).
Proof.
  intros m eps leaf dm X q k r H1 H2 H3 H4. split.
  - apply (knn_dists_unique (dq_of R_ops m q) k X); [apply linear_knn_is_knn | eapply ball_tree_knn_correct; eauto].
  - apply (range_rows_unique (dq_of R_ops m q) (to_r R_ops m r) X); [apply linear_range_is_range | eapply ball_tree_range_correct; eauto].
Qed.
