(** C07 - lemmas behind the property theorems of C07/Properties.v *)
From Coq Require Import List NArith Reals Lra Lia Bool Arith Permutation Sorting.Sorted Psatz Floats.
From LinfaVerif Require Import Common.Num C07.Model.
Import ListNotations.
Local Open Scope R_scope.

Notation Ro := R_ops.

(** * the specification of an answer *)
Definition rpt := @ipt R.

(* ascending by a key *)
Definition asc_by {A} (key : A -> R) (l : list A) : Prop := StronglySorted (fun a b => key a <= key b) l.

(* [res] is a correct answer to "the k stored points nearest to the query", where [dq p] is the
   (reduced) distance from the query to p: min(k, n) rows of the batch, each with its own
   coordinates and row position, no row twice, in ascending distance, and no row that was left out
   is strictly closer than a returned one (so the returned distances are those of the true k
   nearest points; which of several equidistant points is returned is free) *)
Definition is_knn (dq : rpt -> R) (k : nat) (X : list (list R)) (res : list rpt) : Prop :=
  length res = Nat.min k (length X) /\
  incl res (enumerate X) /\
  NoDup (map snd res) /\
  asc_by dq res /\
  (forall p p', In p res -> In p' (enumerate X) -> ~ In p' res -> dq p <= dq p').

(* [res] is the answer to "all stored points strictly within the reduced radius rr" *)
Definition is_range (dq : rpt -> R) (rr : R) (X : list (list R)) (res : list rpt) : Prop :=
  NoDup (map snd res) /\
  forall p, In p res <-> In p (enumerate X) /\ dq p < rr.

(** * enumerate *)
Lemma enumerate_from_spec {A} (X : list A) : forall s (x : A) (i : N),
  In (x, i) (combine X (map N.of_nat (seq s (length X)))) <->
  (exists j, i = N.of_nat (s + j) /\ nth_error X j = Some x).
Proof.
  induction X as [|a X IH]; intros s x i; simpl.
  - split; [tauto | intros [j [_ H]]; destruct j; discriminate].
  - split.
    + intros [H | H].
      * inversion H; subst. exists 0%nat. rewrite Nat.add_0_r. auto.
      * apply IH in H. destruct H as [j [H1 H2]]. exists (S j). split; auto.
        rewrite H1. f_equal. lia.
    + intros [j [H1 H2]]. destruct j as [|j].
      * left. simpl in H2. inversion H2; subst. rewrite Nat.add_0_r. reflexivity.
      * right. apply IH. exists j. split; auto. rewrite H1. f_equal. lia.
Qed.

Lemma enumerate_spec {F} (X : list (list F)) (x : list F) (i : N) :
  In (x, i) (@enumerate F X) <-> nth_error X (N.to_nat i) = Some x.
Proof.
  unfold enumerate. rewrite enumerate_from_spec. split.
  - intros [j [H1 H2]]. subst. simpl. rewrite Nat2N.id. exact H2.
  - intros H. exists (N.to_nat i). simpl. rewrite N2Nat.id. auto.
Qed.

Lemma enumerate_length {F} (X : list (list F)) : length (@enumerate F X) = length X.
Proof. unfold enumerate, ipt, pt. rewrite combine_length, map_length, seq_length. lia. Qed.

Lemma enumerate_snd {F} (X : list (list F)) : map snd (@enumerate F X) = map N.of_nat (seq 0 (length X)).
Proof.
  unfold enumerate. generalize 0%nat. induction X as [|a X IH]; intros s; simpl; auto.
  f_equal. apply IH.
Qed.

Lemma NoDup_map_inj {A B} (f : A -> B) (l : list A) :
  (forall a b, f a = f b -> a = b) -> NoDup l -> NoDup (map f l).
Proof.
  intros Hf H. induction H as [|a l Hn Hd IH]; simpl; constructor; auto.
  intros Hin. apply in_map_iff in Hin. destruct Hin as [b [E Hb]]. apply Hf in E. subst. auto.
Qed.

Lemma enumerate_nodup {F} (X : list (list F)) : NoDup (map snd (@enumerate F X)).
Proof.
  rewrite enumerate_snd. apply NoDup_map_inj; [apply Nat2N.inj | apply seq_NoDup].
Qed.

Lemma NoDup_map_snd_inj {A B} (l : list (A * B)) p p' :
  NoDup (map snd l) -> In p l -> In p' l -> snd p = snd p' -> p = p'.
Proof.
  induction l as [|a l IH]; simpl; intros Hn H1 H2 E; [tauto|].
  inversion Hn as [|? ? Hna Hnl]; subst.
  destruct H1 as [H1 | H1], H2 as [H2 | H2]; subst; auto.
  - exfalso. apply Hna. rewrite E. apply in_map. exact H2.
  - exfalso. apply Hna. rewrite <- E. apply in_map. exact H1.
Qed.

Lemma NoDup_map_fwd {A B} (f : A -> B) (l : list A) : NoDup (map f l) -> NoDup l.
Proof.
  induction l as [|a l IH]; simpl; intros H; constructor; inversion H; subst; auto.
  intros Hin. apply H2. apply in_map. exact Hin.
Qed.

Lemma firstn_In {A} (l : list A) : forall n x, In x (firstn n l) -> In x l.
Proof.
  induction l as [|a l IH]; intros [|n] x H; simpl in *; try tauto.
  destruct H; auto. right. eapply IH; eauto.
Qed.

Lemma NoDup_app_l {A} (l1 l2 : list A) : NoDup (l1 ++ l2) -> NoDup l1.
Proof.
  induction l1 as [|a l1 IH]; simpl; intros H; [constructor|].
  inversion H; subst. constructor; auto. intros Hin. apply H2. apply in_or_app. auto.
Qed.

(** * sorted insertion (the model of the heaps) over the reals *)
Section Ins.
Context {A : Type} (key : A -> R).

Lemma ins_asc_perm x l : Permutation (ins_asc Ro key x l) (x :: l).
Proof.
  induction l as [|y t IH]; simpl; auto.
  destruct (Rltb (key x) (key y)); auto.
  eapply perm_trans; [apply perm_skip, IH | apply perm_swap].
Qed.

Lemma ins_asc_sorted x l : asc_by key l -> asc_by key (ins_asc Ro key x l).
Proof.
  unfold asc_by. induction l as [|y t IH]; simpl; intros H.
  - constructor; constructor.
  - inversion H as [|? ? Ht Hy]; subst.
    destruct (Rltb (key x) (key y)) eqn:E.
    + apply Rltb_true in E. constructor; auto. constructor; [lra|].
      rewrite Forall_forall in *. intros z Hz. specialize (Hy z Hz). lra.
    + apply Rltb_false in E. constructor; auto.
      rewrite Forall_forall in *. intros z Hz.
      apply (Permutation_in _ (ins_asc_perm x t)) in Hz. destruct Hz as [Hz | Hz]; subst; auto.
Qed.

Lemma ins_desc_perm x l : Permutation (ins_desc Ro key x l) (x :: l).
Proof.
  induction l as [|y t IH]; simpl; auto.
  destruct (Rltb (key y) (key x)); auto.
  eapply perm_trans; [apply perm_skip, IH | apply perm_swap].
Qed.
End Ins.

Lemma asc_by_app {A} (key : A -> R) (l1 l2 : list A) :
  asc_by key (l1 ++ l2) ->
  asc_by key l1 /\ asc_by key l2 /\ (forall a b, In a l1 -> In b l2 -> key a <= key b).
Proof.
  unfold asc_by. induction l1 as [|x l1 IH]; simpl; intros H.
  - repeat split; auto; [constructor | tauto].
  - inversion H as [|? ? Ht Hx]; subst. destruct (IH Ht) as [H1 [H2 H3]].
    repeat split; auto.
    + constructor; auto. rewrite Forall_forall in *. intros z Hz. apply Hx. apply in_or_app; auto.
    + intros a b [Ha | Ha] Hb; subst; auto.
      rewrite Forall_forall in Hx. apply Hx. apply in_or_app; auto.
Qed.

Lemma asc_by_map {A B} (f : A -> B) (key : B -> R) (l : list A) :
  asc_by (fun a => key (f a)) l -> asc_by key (map f l).
Proof.
  unfold asc_by. induction l as [|a l IH]; simpl; intros H; [constructor|].
  inversion H; subst. constructor; auto. rewrite Forall_forall in *.
  intros b Hb. apply in_map_iff in Hb. destruct Hb as [c [E Hc]]. subst. auto.
Qed.

Lemma asc_by_ext {A} (k1 k2 : A -> R) (l : list A) :
  (forall e, In e l -> k1 e = k2 e) -> asc_by k1 l -> asc_by k2 l.
Proof.
  unfold asc_by. induction l as [|a l IH]; intros He H; [constructor|].
  inversion H; subst. constructor.
  - apply IH; auto. intros e Hin. apply He. right; auto.
  - rewrite Forall_forall in *. intros b Hb. rewrite <- (He a), <- (He b); simpl; auto.
Qed.

(** * the linear scan *)
Section Linear.
Context (m : metric) (q : list R) (X : list (list R)).
Let dq := dq_of Ro m q.
Let tagged := map (fun p : rpt => (dq p, p)) (enumerate X).

Lemma linear_heap_fold (l : list rpt) (h : list (R * rpt)) :
  Permutation (fold_left (fun h p => ins_asc Ro fst (rdist Ro m q (fst p), p) h) l h)
              (map (fun p : rpt => (dq p, p)) l ++ h)
  /\ (asc_by fst h -> asc_by fst (fold_left (fun h p => ins_asc Ro fst (rdist Ro m q (fst p), p) h) l h)).
Proof.
  revert h. induction l as [|p l IH]; intros h; simpl.
  - split; auto.
  - destruct (IH (ins_asc Ro fst (rdist Ro m q (fst p), p) h)) as [H1 H2]. split.
    + eapply perm_trans; [exact H1|].
      eapply perm_trans; [apply Permutation_app_head, ins_asc_perm|].
      apply Permutation_sym, Permutation_middle.
    + intros Hs. apply H2. apply ins_asc_sorted. exact Hs.
Qed.

Lemma linear_heap_perm : Permutation (linear_heap Ro m q X) tagged.
Proof.
  unfold linear_heap. destruct (linear_heap_fold (enumerate X) []) as [H _].
  rewrite app_nil_r in H. exact H.
Qed.
Lemma linear_heap_sorted : asc_by fst (linear_heap Ro m q X).
Proof.
  unfold linear_heap. destruct (linear_heap_fold (enumerate X) []) as [_ H]. apply H. constructor.
Qed.
Lemma linear_heap_elem e : In e (linear_heap Ro m q X) -> fst e = dq (snd e) /\ In (snd e) (enumerate X).
Proof.
  intros H. apply (Permutation_in _ linear_heap_perm) in H. unfold tagged in H.
  apply in_map_iff in H. destruct H as [p [E Hp]]. subst. simpl. auto.
Qed.
Lemma linear_heap_length : length (linear_heap Ro m q X) = length X.
Proof.
  rewrite (Permutation_length linear_heap_perm). unfold tagged. rewrite map_length. apply enumerate_length.
Qed.
Lemma linear_heap_nodup : NoDup (map snd (map snd (linear_heap Ro m q X))).
Proof.
  eapply Permutation_NoDup.
  - apply Permutation_sym. apply Permutation_map. apply Permutation_map. apply linear_heap_perm.
  - unfold tagged. rewrite !map_map. simpl. exact (enumerate_nodup X).
Qed.

Lemma linear_knn_is_knn k : is_knn dq k X (linear_knn Ro m q k X).
Proof.
  unfold linear_knn. set (h := linear_heap Ro m q X). set (c := Nat.min k (length X)).
  assert (Hsplit : h = firstn c h ++ skipn c h) by (symmetry; apply firstn_skipn).
  assert (Hs := linear_heap_sorted). fold h in Hs. rewrite Hsplit in Hs.
  apply asc_by_app in Hs. destruct Hs as [Hs1 [_ Hs3]].
  repeat split.
  - rewrite map_length, firstn_length. unfold h. rewrite linear_heap_length. unfold c. apply Nat.min_l. apply Nat.le_min_r.
  - intros p Hp. apply in_map_iff in Hp. destruct Hp as [e [E He]]. subst.
    apply firstn_In in He. apply linear_heap_elem in He. tauto.
  - assert (Hn := linear_heap_nodup). fold h in Hn. rewrite Hsplit in Hn.
    rewrite !map_app in Hn. apply NoDup_app_l in Hn. exact Hn.
  - apply asc_by_map. apply (asc_by_ext fst); auto.
    intros e He. apply firstn_In in He. apply linear_heap_elem in He. tauto.
  - intros p p' Hp Hp' Hn.
    apply in_map_iff in Hp. destruct Hp as [e [E He]]. subst p.
    assert (Hin : In (dq p', p') h).
    { apply (Permutation_in _ (Permutation_sym linear_heap_perm)). unfold tagged.
      apply in_map_iff. exists p'. auto. }
    rewrite Hsplit in Hin. apply in_app_or in Hin. destruct Hin as [Hin | Hin].
    + exfalso. apply Hn. apply in_map_iff. exists (dq p', p'). auto.
    + specialize (Hs3 _ _ He Hin). simpl in Hs3.
      assert (He' := He). apply firstn_In in He'. apply linear_heap_elem in He'. destruct He' as [E1 _].
      rewrite <- E1. exact Hs3.
Qed.

Lemma linear_range_is_range r : is_range dq (to_r Ro m r) X (linear_range Ro m q r X).
Proof.
  unfold linear_range, is_range. split.
  - assert (H := enumerate_nodup X). revert H. generalize (enumerate X). intros l H.
    induction l as [|a l IH]; simpl; [constructor|].
    simpl in H. inversion H as [|? ? Hn Hd]; subst.
    destruct (Rltb (rdist Ro m q (fst a)) (to_r Ro m r)); simpl; auto.
    constructor; auto. intros Hin. apply Hn.
    apply in_map_iff in Hin. destruct Hin as [b [E Hb]]. apply filter_In in Hb.
    rewrite <- E. apply in_map. tauto.
  - intros p. rewrite filter_In. simpl. rewrite Rltb_true. unfold dq, dq_of. tauto.
Qed.
End Linear.

(** * soundness of the decidable judges (the property oracle of the correspondence runs) *)
Lemma mem_N_In a l : mem_N a l = true <-> In a l.
Proof.
  unfold mem_N. rewrite existsb_exists. split.
  - intros [x [H E]]. apply N.eqb_eq in E. subst. exact H.
  - intros H. exists a. split; auto. apply N.eqb_refl.
Qed.

Lemma nodup_N_sound l : nodup_N l = true -> NoDup l.
Proof.
  induction l as [|a l IH]; simpl; intros H; constructor.
  - apply andb_true_iff in H. destruct H as [H _]. apply negb_true_iff in H.
    intros Hin. apply mem_N_In in Hin. unfold mem_N in Hin. congruence.
  - apply IH. apply andb_true_iff in H. tauto.
Qed.

Lemma ascending_sound (l : list R) : ascending Ro l = true -> StronglySorted Rle l.
Proof.
  intros H. apply Sorted_StronglySorted. { intros x y z; apply Rle_trans. }
  induction l as [|a l IH]; [constructor|].
  destruct l as [|b l]; [repeat constructor|].
  simpl in H. apply andb_true_iff in H. destruct H as [H1 H2]. apply Rleb_true in H1.
  constructor; [apply IH; exact H2 | constructor; exact H1].
Qed.

Lemma asc_by_of_map {A} (key : A -> R) (l : list A) : StronglySorted Rle (map key l) -> asc_by key l.
Proof.
  unfold asc_by. induction l as [|a l IH]; simpl; intros H; [constructor|].
  inversion H; subst. constructor; auto. rewrite Forall_forall in *.
  intros b Hb. apply H3. apply in_map. exact Hb.
Qed.
Lemma asc_by_to_map {A} (key : A -> R) (l : list A) : asc_by key l -> StronglySorted Rle (map key l).
Proof. intros H. apply (asc_by_map key (fun x => x)). exact H. Qed.

Lemma Reqb_list_eq (a b : list R) : list_eqb Reqb a b = true -> a = b.
Proof. apply list_eqb_eq. intros x y H. apply Reqb_true. exact H. Qed.

Lemma ipt_valid_sound (X : list (list R)) (p : rpt) : ipt_valid Reqb X p = true -> In p (enumerate X).
Proof.
  unfold ipt_valid, rpt, ipt, pt in *. destruct (nth_error X (N.to_nat (snd p))) as [x|] eqn:E; [|intros H; discriminate H].
  intros H. apply Reqb_list_eq in H. destruct p as [c i]. simpl in *. subst.
  apply enumerate_spec. exact E.
Qed.

Lemma knn_ok_sound (dq : rpt -> R) k X res : knn_ok Ro Reqb dq k X res = true -> is_knn dq k X res.
Proof.
  unfold knn_ok. rewrite !andb_true_iff. intros [[[[H1 H2] H3] H4] H5].
  apply Nat.eqb_eq in H1. rewrite forallb_forall in H2, H5.
  assert (Hincl : incl res (enumerate X)) by (intros p Hp; apply ipt_valid_sound; auto).
  apply nodup_N_sound in H3.
  repeat split; auto.
  - apply asc_by_of_map. apply ascending_sound. exact H4.
  - intros p p' Hp Hp' Hn. specialize (H5 p' Hp'). apply orb_true_iff in H5. destruct H5 as [H5 | H5].
    + exfalso. apply mem_N_In in H5. apply in_map_iff in H5. destruct H5 as [p'' [E Hp'']].
      assert (p'' = p').
      { apply (NoDup_map_snd_inj (enumerate X)); auto. apply enumerate_nodup. }
      subst. auto.
    + rewrite forallb_forall in H5. apply Rleb_true. apply H5. apply in_map. exact Hp.
Qed.

Lemma range_ok_sound (dq : rpt -> R) rr X res : range_ok Ro Reqb dq rr X res = true -> is_range dq rr X res.
Proof.
  unfold range_ok. rewrite !andb_true_iff. intros [[[H1 H2] H3] H4].
  rewrite forallb_forall in H1, H3, H4. apply nodup_N_sound in H2.
  split; auto. intros p. split.
  - intros Hp. split; [apply ipt_valid_sound; auto | apply Rltb_true; apply (H3 p Hp)].
  - intros [Hp Hd]. specialize (H4 p Hp). apply orb_true_iff in H4. destruct H4 as [H4 | H4].
    + apply negb_true_iff in H4. apply Rltb_true in Hd. simpl in H4. congruence.
    + apply mem_N_In in H4. apply in_map_iff in H4. destruct H4 as [p' [E Hp']].
      assert (p' = p).
      { apply (NoDup_map_snd_inj (enumerate X)); auto; [apply enumerate_nodup | apply ipt_valid_sound; auto]. }
      subst. exact Hp'.
Qed.

(** * answers are unique up to ties: the distances of two correct answers coincide *)
Lemma sorted_perm_eq (l1 l2 : list R) :
  StronglySorted Rle l1 -> StronglySorted Rle l2 -> Permutation l1 l2 -> l1 = l2.
Proof.
  revert l2. induction l1 as [|a l1 IH]; intros l2 H1 H2 P.
  - apply Permutation_nil in P. auto.
  - destruct l2 as [|b l2]; [apply Permutation_sym, Permutation_nil in P; discriminate|].
    inversion H1 as [|? ? Hs1 Hf1]; inversion H2 as [|? ? Hs2 Hf2]; subst.
    rewrite Forall_forall in Hf1, Hf2.
    assert (a = b).
    { assert (Ha : In a (b :: l2)) by (apply (Permutation_in _ P); left; auto).
      assert (Hb : In b (a :: l1)) by (apply (Permutation_in _ (Permutation_sym P)); left; auto).
      destruct Ha as [Ha | Ha]; auto. destruct Hb as [Hb | Hb]; auto.
      specialize (Hf1 _ Hb). specialize (Hf2 _ Ha). lra. }
    subst. f_equal. apply IH; auto. apply Permutation_cons_inv in P. exact P.
Qed.

Fixpoint isort (l : list R) : list R :=
  match l with [] => [] | a :: t => ins_asc Ro (fun x => x) a (isort t) end.
Lemma isort_perm l : Permutation (isort l) l.
Proof.
  induction l as [|a l IH]; simpl; auto.
  eapply perm_trans; [apply ins_asc_perm | apply perm_skip, IH].
Qed.
Lemma isort_sorted l : StronglySorted Rle (isort l).
Proof.
  induction l as [|a l IH]; simpl; [constructor|].
  apply (ins_asc_sorted (fun x => x)). exact IH.
Qed.

Lemma sorted_app (l1 l2 : list R) :
  StronglySorted Rle l1 -> StronglySorted Rle l2 -> (forall a b, In a l1 -> In b l2 -> a <= b) ->
  StronglySorted Rle (l1 ++ l2).
Proof.
  induction l1 as [|x l1 IH]; simpl; intros H1 H2 H; auto.
  inversion H1 as [|? ? Hs Hf]; subst. constructor.
  - apply IH; auto.
  - rewrite Forall_forall in *. intros z Hz. apply in_app_or in Hz. destruct Hz; auto.
Qed.

Lemma NoDup_app_intro' {A} (l1 l2 : list A) :
  NoDup l1 -> NoDup l2 -> (forall x, In x l1 -> In x l2 -> False) -> NoDup (l1 ++ l2).
Proof.
  induction l1 as [|a l1 IH]; simpl; intros H1 H2 H; auto.
  inversion H1; subst. constructor.
  - intros Hin. apply in_app_or in Hin. destruct Hin as [Hin | Hin]; [contradiction | eapply H; eauto].
  - apply IH; auto. intros x Hx. apply H. auto.
Qed.
Lemma NoDup_filter' {A} (f : A -> bool) (l : list A) : NoDup l -> NoDup (filter f l).
Proof.
  induction 1 as [|a l Hn Hd IH]; simpl; [constructor|].
  destruct (f a); auto. constructor; auto. intros Hin. apply filter_In in Hin. tauto.
Qed.

(* the complement of an answer inside the batch *)
Lemma complement_perm {A} (dec : forall a b : A, {a = b} + {a <> b}) (res E : list A) :
  NoDup res -> NoDup E -> incl res E ->
  Permutation (res ++ filter (fun p => if in_dec dec p res then false else true) E) E.
Proof.
  intros Hr HE Hi. apply NoDup_Permutation; auto.
  - apply NoDup_app_intro'; auto.
    + apply NoDup_filter'. exact HE.
    + intros x Hx Hf. apply filter_In in Hf. destruct Hf as [_ Hf].
      destruct (in_dec dec x res); [discriminate | contradiction].
  - intros x. rewrite in_app_iff, filter_In. split.
    + intros [H | [H _]]; auto.
    + intros H. destruct (in_dec dec x res) as [i | n] eqn:Ed; [left; auto | right; split; auto].
Qed.

Lemma app_eq_length {A} (l1 l1' l2 l2' : list A) :
  l1 ++ l2 = l1' ++ l2' -> length l1 = length l1' -> l1 = l1'.
Proof.
  revert l1'. induction l1 as [|a l1 IH]; intros [|b l1'] H L; simpl in *; try discriminate; auto.
  inversion H; subst. f_equal. eapply IH; eauto.
Qed.

Definition rpt_dec : forall a b : rpt, {a = b} + {a <> b}.
Proof.
  intros [c i] [c' i']. destruct (list_eq_dec Req_EM_T c c'); [|right; congruence].
  destruct (N.eq_dec i i'); [left; congruence | right; congruence].
Defined.

Lemma knn_sorted_decomposition (dq : rpt -> R) k X res :
  is_knn dq k X res ->
  exists B, StronglySorted Rle (map dq res ++ B) /\ Permutation (map dq res ++ B) (map dq (enumerate X)).
Proof.
  intros [_ [Hi [Hn [Hs Ho]]]].
  set (rest := filter (fun p => if in_dec rpt_dec p res then false else true) (enumerate X)).
  exists (isort (map dq rest)). split.
  - apply sorted_app; [apply asc_by_to_map; exact Hs | apply isort_sorted |].
    intros a b Ha Hb. apply in_map_iff in Ha. destruct Ha as [p [E Hp]]. subst.
    apply (Permutation_in _ (isort_perm _)) in Hb. apply in_map_iff in Hb. destruct Hb as [p' [E Hp']]. subst.
    unfold rest in Hp'. apply filter_In in Hp'. destruct Hp' as [H1 H2].
    apply Ho; auto. destruct (in_dec rpt_dec p' res); [discriminate | auto].
  - eapply perm_trans; [apply Permutation_app_head, isort_perm|].
    rewrite <- map_app. apply Permutation_map. apply complement_perm; auto.
    + eapply NoDup_map_fwd. exact Hn.
    + eapply NoDup_map_fwd. apply enumerate_nodup.
Qed.

Lemma knn_dists_unique (dq : rpt -> R) k X r1 r2 :
  is_knn dq k X r1 -> is_knn dq k X r2 -> map dq r1 = map dq r2.
Proof.
  intros H1 H2.
  destruct (knn_sorted_decomposition _ _ _ _ H1) as [B1 [S1 P1]].
  destruct (knn_sorted_decomposition _ _ _ _ H2) as [B2 [S2 P2]].
  assert (E : map dq r1 ++ B1 = map dq r2 ++ B2).
  { apply sorted_perm_eq; auto. eapply perm_trans; [exact P1 | apply Permutation_sym, P2]. }
  apply app_eq_length in E; auto.
  rewrite !map_length. destruct H1 as [L1 _], H2 as [L2 _]. congruence.
Qed.

Lemma range_rows_unique (dq : rpt -> R) rr X r1 r2 :
  is_range dq rr X r1 -> is_range dq rr X r2 -> forall p, In p r1 <-> In p r2.
Proof. intros [_ H1] [_ H2] p. rewrite H1, H2. tauto. Qed.

(** * the metrics over the reals: folds as sums, non-negativity, triangle inequality *)
Lemma sq_diff_nonneg x y : 0 <= (x - y) * (x - y).
Proof. pose proof (Rle_0_sqr (x - y)) as H. unfold Rsqr in H. exact H. Qed.
Lemma sq_nonneg x : 0 <= x * x.
Proof. pose proof (Rle_0_sqr x) as H. unfold Rsqr in H. exact H. Qed.
Fixpoint ssum (g : R -> R -> R) (a b : list R) : R :=
  match a, b with x :: a', y :: b' => g x y + ssum g a' b' | _, _ => 0 end.

Lemma fold2_sum g a : forall b acc,
  @fold2 R (fun acc x y => acc + g x y) a b acc = acc + ssum g a b.
Proof.
  induction a as [|x a IH]; intros [|y b] acc; simpl; try lra.
  rewrite IH. lra.
Qed.

Lemma sq_l2_sum a b : sq_l2 Ro a b = ssum (fun x y => (x - y) * (x - y)) a b.
Proof. unfold sq_l2. simpl. rewrite (fold2_sum (fun x y => (x - y) * (x - y))). lra. Qed.
Lemma l1d_sum a b : l1d Ro a b = ssum (fun x y => Rabs (x - y)) a b.
Proof. unfold l1d. simpl. rewrite (fold2_sum (fun x y => Rabs (x - y))). lra. Qed.

Lemma ssum_nonneg g a : (forall x y, 0 <= g x y) -> forall b, 0 <= ssum g a b.
Proof.
  intros Hg. induction a as [|x a IH]; intros [|y b]; simpl; try lra.
  specialize (IH b). specialize (Hg x y). lra.
Qed.

(* L-infinity: running maximum *)
Fixpoint smax (a b : list R) : R :=
  match a, b with x :: a', y :: b' => Rmax (Rabs (x - y)) (smax a' b') | _, _ => 0 end.
Lemma smax_nonneg a : forall b, 0 <= smax a b.
Proof.
  induction a as [|x a IH]; intros [|y b]; simpl; try lra.
  eapply Rle_trans; [apply Rabs_pos | apply Rmax_l].
Qed.
Lemma linf_fold a : forall b acc, 0 <= acc ->
  @fold2 R (fun acc x y => let d := abs Ro (x - y) in if ltb Ro acc d then d else acc) a b acc
  = Rmax acc (smax a b).
Proof.
  induction a as [|x a IH]; intros [|y b] acc Hacc; simpl; try (rewrite Rmax_left; lra).
  assert (Hs := smax_nonneg a b).
  destruct (Rltb acc (Rabs (x - y))) eqn:E.
  - apply Rltb_true in E. rewrite IH by (apply Rabs_pos).
    unfold Rmax; repeat (destruct (Rle_dec _ _)); lra.
  - apply Rltb_false in E. rewrite IH by exact Hacc.
    unfold Rmax; repeat (destruct (Rle_dec _ _)); lra.
Qed.
Lemma linfd_max a b : linfd Ro a b = smax a b.
Proof. unfold linfd. simpl. rewrite linf_fold by lra. apply Rmax_right. apply smax_nonneg. Qed.

Lemma rdist_nonneg m a b : 0 <= rdist Ro m a b.
Proof.
  destruct m; simpl.
  - rewrite l1d_sum. apply ssum_nonneg. intros; apply Rabs_pos.
  - rewrite sq_l2_sum. apply ssum_nonneg. intros x y. apply sq_diff_nonneg.
  - rewrite linfd_max. apply smax_nonneg.
Qed.
Lemma dist_of_r m a b : dist Ro m a b = of_r Ro m (rdist Ro m a b).
Proof. destruct m; reflexivity. Qed.
Lemma dist_nonneg m a b : 0 <= dist Ro m a b.
Proof.
  destruct m; simpl; try apply (rdist_nonneg L1); try apply (rdist_nonneg Linf).
  apply sqrt_pos.
Qed.
Lemma of_r_mono m x y : x <= y -> of_r Ro m x <= of_r Ro m y.
Proof. destruct m; simpl; auto. apply sqrt_le_1_alt. Qed.
Lemma to_r_mono m x y : 0 <= x -> x <= y -> to_r Ro m x <= to_r Ro m y.
Proof. destruct m; simpl; auto. intros; nra. Qed.
Lemma to_r_dist m a b : to_r Ro m (dist Ro m a b) = rdist Ro m a b.
Proof.
  destruct m; simpl; auto. apply sqrt_sqrt. apply (rdist_nonneg L2).
Qed.

(* Cauchy-Schwarz in the accumulated form needed for Minkowski's inequality *)
Lemma cs_step P A B u v : P * P <= A * B -> 0 <= A -> 0 <= B ->
  (P + u * v) * (P + u * v) <= (u * u + A) * (v * v + B).
Proof.
  intros H HA HB.
  assert (H1 : 0 <= (A * v * v - B * u * u) * (A * v * v - B * u * u)) by apply sq_nonneg.
  assert (Huv : 0 <= u * u * (v * v)) by (apply Rmult_le_pos; apply sq_nonneg).
  assert (H2 : 0 <= (A * B - P * P) * (u * u * (v * v))) by (apply Rmult_le_pos; [lra | exact Huv]).
  assert (H3 : 0 <= A * v * v + B * u * u).
  { assert (0 <= A * (v * v)) by (apply Rmult_le_pos; [lra | apply sq_nonneg]).
    assert (0 <= B * (u * u)) by (apply Rmult_le_pos; [lra | apply sq_nonneg]). lra. }
  assert (H4 : (2 * P * u * v) * (2 * P * u * v) <= (A * v * v + B * u * u) * (A * v * v + B * u * u)).
  { replace ((A * v * v + B * u * u) * (A * v * v + B * u * u))
      with ((A * v * v - B * u * u) * (A * v * v - B * u * u) + 4 * ((A * B) * (u * u * (v * v)))) by ring.
    replace ((2 * P * u * v) * (2 * P * u * v)) with (4 * ((P * P) * (u * u * (v * v)))) by ring.
    replace ((A * B - P * P) * (u * u * (v * v)))
      with ((A * B) * (u * u * (v * v)) - (P * P) * (u * u * (v * v))) in H2 by ring.
    lra. }
  assert (H5 : 2 * P * u * v <= A * v * v + B * u * u).
  { destruct (Rle_or_lt (2 * P * u * v) (A * v * v + B * u * u)) as [Hle | Hlt]; auto. exfalso.
    assert (Hm : (A * v * v + B * u * u) * (A * v * v + B * u * u) < (2 * P * u * v) * (2 * P * u * v)).
    { apply Rle_lt_trans with ((A * v * v + B * u * u) * (2 * P * u * v)).
      - apply Rmult_le_compat_l; lra.
      - apply Rmult_lt_compat_r; lra. }
    lra. }
  replace ((P + u * v) * (P + u * v)) with (P * P + 2 * P * u * v + u * u * (v * v)) by ring.
  replace ((u * u + A) * (v * v + B)) with (A * B + (A * v * v + B * u * u) + u * u * (v * v)) by ring.
  lra.
Qed.

Lemma l2_triangle_sums a : forall b c, length a = length b -> length b = length c ->
  let A := ssum (fun x y => (x - y) * (x - y)) a b in
  let B := ssum (fun x y => (x - y) * (x - y)) b c in
  let C := ssum (fun x y => (x - y) * (x - y)) a c in
  exists P, C = A + 2 * P + B /\ P * P <= A * B.
Proof.
  induction a as [|x a IH]; intros [|y b] [|z c] L1 L2; simpl in *; try discriminate.
  - exists 0. split; lra.
  - destruct (IH b c) as [P [E H]]; try lia.
    exists (P + (x - y) * (y - z)). split.
    + rewrite E. ring.
    + apply cs_step; auto; apply ssum_nonneg; intros; apply sq_diff_nonneg.
Qed.

Lemma sqrt_triangle A B C P : 0 <= A -> 0 <= B -> C = A + 2 * P + B -> P * P <= A * B ->
  R_sqrt.sqrt C <= R_sqrt.sqrt A + R_sqrt.sqrt B.
Proof.
  intros HA HB E H.
  assert (Hs : P <= R_sqrt.sqrt A * R_sqrt.sqrt B).
  { rewrite <- sqrt_mult by assumption.
    destruct (Rle_or_lt P 0) as [Hn | Hp]; [eapply Rle_trans; [exact Hn | apply sqrt_pos]|].
    rewrite <- (sqrt_square P) by lra. apply sqrt_le_1_alt. exact H. }
  assert (HC : C <= (R_sqrt.sqrt A + R_sqrt.sqrt B) * (R_sqrt.sqrt A + R_sqrt.sqrt B)).
  { assert (R_sqrt.sqrt A * R_sqrt.sqrt A = A) by (apply sqrt_sqrt; auto).
    assert (R_sqrt.sqrt B * R_sqrt.sqrt B = B) by (apply sqrt_sqrt; auto). nra. }
  rewrite <- (sqrt_square (R_sqrt.sqrt A + R_sqrt.sqrt B)).
  - apply sqrt_le_1_alt. exact HC.
  - assert (0 <= R_sqrt.sqrt A) by apply sqrt_pos. assert (0 <= R_sqrt.sqrt B) by apply sqrt_pos. lra.
Qed.

Lemma l1_triangle a : forall b c, length a = length b -> length b = length c ->
  ssum (fun x y => Rabs (x - y)) a c <= ssum (fun x y => Rabs (x - y)) a b + ssum (fun x y => Rabs (x - y)) b c.
Proof.
  induction a as [|x a IH]; intros [|y b] [|z c] L1 L2; simpl in *; try discriminate; try lra.
  assert (H := IH b c). assert (Rabs (x - z) <= Rabs (x - y) + Rabs (y - z)).
  { replace (x - z) with ((x - y) + (y - z)) by ring. apply Rabs_triang. }
  assert (length a = length b) by lia. assert (length b = length c) by lia. intuition lra.
Qed.

Lemma linf_triangle a : forall b c, length a = length b -> length b = length c ->
  smax a c <= smax a b + smax b c.
Proof.
  induction a as [|x a IH]; intros [|y b] [|z c] L1 L2; simpl in *; try discriminate; try lra.
  assert (H : smax a c <= smax a b + smax b c) by (apply IH; lia).
  assert (Rabs (x - z) <= Rabs (x - y) + Rabs (y - z)).
  { replace (x - z) with ((x - y) + (y - z)) by ring. apply Rabs_triang. }
  assert (H1 := Rmax_l (Rabs (x - y)) (smax a b)). assert (H2 := Rmax_r (Rabs (x - y)) (smax a b)).
  assert (H3 := Rmax_l (Rabs (y - z)) (smax b c)). assert (H4 := Rmax_r (Rabs (y - z)) (smax b c)).
  apply Rmax_lub; lra.
Qed.

(* the triangle inequality of the three provided metrics (points of one dimension) *)
Lemma dist_triangle m a b c : length a = length b -> length b = length c ->
  dist Ro m a c <= dist Ro m a b + dist Ro m b c.
Proof.
  intros L1 L2. destruct m; simpl.
  - rewrite !l1d_sum. apply l1_triangle; auto.
  - rewrite !sq_l2_sum. destruct (l2_triangle_sums a b c L1 L2) as [P [E H]].
    eapply sqrt_triangle; eauto; apply ssum_nonneg; intros; apply sq_diff_nonneg.
  - rewrite !linfd_max. apply linf_triangle; auto.
Qed.

(** * the selection of order_stat only permutes its array *)
Section SelectPerm.
Context {A : Type} (dflt : A) (lt : A -> A -> bool).

Lemma set_nth_length (l : list A) : forall i v, length (set_nth l i v) = length l.
Proof. induction l as [|a l IH]; intros [|i] v; simpl; auto. Qed.

Lemma swap0_perm (t : list A) : forall j a, (j < length t)%nat ->
  Permutation (nth j t dflt :: set_nth t j a) (a :: t).
Proof.
  induction t as [|b t IH]; intros [|j] a H; simpl in *; try lia.
  - apply perm_swap.
  - eapply perm_trans; [apply perm_swap|].
    eapply perm_trans; [apply perm_skip, IH; lia|]. apply perm_swap.
Qed.

Lemma swap_perm (l : list A) : forall i j, Permutation (swap dflt l i j) l.
Proof.
  unfold swap. induction l as [|a l IH]; intros i j.
  - destruct (Nat.ltb i (length []) && Nat.ltb j (length [])); auto.
  - destruct (Nat.ltb i (length (a :: l)) && Nat.ltb j (length (a :: l))) eqn:E; auto.
    apply andb_true_iff in E. destruct E as [E1 E2].
    apply Nat.ltb_lt in E1. apply Nat.ltb_lt in E2. simpl in E1, E2.
    destruct i as [|i], j as [|j]; simpl.
    + auto.
    + apply swap0_perm. lia.
    + apply swap0_perm. lia.
    + apply perm_skip. specialize (IH i j).
      assert (Hb : Nat.ltb i (length l) && Nat.ltb j (length l) = true).
      { apply andb_true_iff. split; apply Nat.ltb_lt; lia. }
      rewrite Hb in IH. exact IH.
Qed.

Lemma swap_loop_perm fuel : forall l t i j,
  Permutation (fst (fst (swap_loop dflt lt fuel l t i j))) l.
Proof.
  induction fuel as [|f IH]; intros l t i j; simpl; auto.
  destruct (Nat.ltb i j); simpl; auto.
  eapply perm_trans; [apply IH | apply swap_perm].
Qed.

Lemma fr_loop_perm fuel : forall l left right k, Permutation (fr_loop dflt lt fuel l left right k) l.
Proof.
  induction fuel as [|f IH]; intros l left right k; simpl; auto.
  destruct (Nat.ltb left right); auto.
  set (l1 := swap dflt l left k).
  set (at_right := negb (lt (nth left l1 dflt) (nth right l1 dflt))).
  set (l2 := if at_right then swap dflt l1 left right else l1).
  assert (P2 : Permutation l2 l).
  { unfold l2. destruct at_right; [eapply perm_trans; [apply swap_perm|] |]; apply swap_perm. }
  set (t := nth (if at_right then right else left) l2 dflt).
  set (i := scan_up dflt lt (length l) l2 t (S left)).
  set (j := scan_down dflt lt (length l) l2 t (Nat.pred right)).
  assert (P3 := swap_loop_perm (length l) l2 t i j).
  destruct (swap_loop dflt lt (length l) l2 t i j) as [[l3 i3] j3]. simpl in P3.
  destruct at_right.
  - eapply perm_trans; [apply IH|]. eapply perm_trans; [apply swap_perm|].
    eapply perm_trans; [exact P3 | exact P2].
  - eapply perm_trans; [apply IH|]. eapply perm_trans; [apply swap_perm|].
    eapply perm_trans; [exact P3 | exact P2].
Qed.

Lemma fr_select_perm l k : Permutation (fr_select dflt lt l k) l.
Proof. unfold fr_select. destruct l; auto. apply fr_loop_perm. Qed.
End SelectPerm.

(** * partition() of the ball tree *)
Lemma partition_perm {A} (f : A -> bool) (l : list A) :
  Permutation (fst (List.partition f l) ++ snd (List.partition f l)) l.
Proof.
  induction l as [|a l IH]; simpl; auto.
  destruct (List.partition f l) as [l1 l2]. simpl in *. destruct (f a); simpl.
  - apply perm_skip. exact IH.
  - eapply perm_trans; [apply Permutation_sym, Permutation_middle | apply perm_skip, IH].
Qed.
Lemma partition_snd {A} (f : A -> bool) (l : list A) x :
  In x l -> f x = false -> In x (snd (List.partition f l)).
Proof.
  induction l as [|a l IH]; simpl; [tauto|]. intros [H | H] Hf.
  - subst. destruct (List.partition f l). rewrite Hf. simpl. auto.
  - specialize (IH H Hf). destruct (List.partition f l). destruct (f a); simpl in *; auto.
Qed.

Lemma last_removelast_perm {A} (l : list A) d : l <> [] -> Permutation (last l d :: removelast l) l.
Proof.
  intros H. eapply perm_trans; [apply Permutation_cons_append|].
  rewrite <- (app_removelast_last d H). apply Permutation_refl.
Qed.

Lemma partition_pts_spec (ps : list rpt) l c r :
  (2 <= length ps)%nat -> partition_pts Ro ps = (l, c, r) ->
  Permutation (l ++ r) ps /\ l <> [] /\ r <> [] /\ (exists e, In e ps /\ c = fst e).
Proof.
  intros Hlen. unfold partition_pts. cbv zeta.
  match goal with |- context [List.partition ?f0 ?l0] => set (f := f0); set (ps' := l0) end.
  match goal with |- context [fst (nth ?m0 ps' ?d0)] => set (mid := m0) in * end.
  set (e := nth mid ps' dflt_ipt).
  assert (Pp : Permutation ps' ps) by apply fr_select_perm.
  assert (Hmid : (mid < length ps')%nat).
  { rewrite (Permutation_length Pp). unfold mid.
    apply Nat.div_lt; [apply Nat.lt_le_trans with 2%nat; [repeat constructor | exact Hlen] | repeat constructor]. }
  assert (He : In e ps') by (apply nth_In; exact Hmid).
  assert (Hpp := partition_perm f ps').
  assert (Hr0 : In e (snd (List.partition f ps'))).
  { apply partition_snd; auto. unfold f, coord. apply Rltb_false. apply Rle_refl. }
  destruct (List.partition f ps') as [l0 r0]. cbn [fst snd] in Hpp, Hr0.
  destruct l0 as [|a l0].
  - destruct r0 as [|b r0]; [contradiction|].
    intros E. apply pair_equal_spec in E. destruct E as [E E3]. apply pair_equal_spec in E. destruct E as [E1 E2]. subst l c r. cbn [app] in Hpp.
    assert (Hl : length (b :: r0) = length ps)
      by (rewrite (Permutation_length Hpp); apply Permutation_length; exact Pp).
    assert (Hd : b :: r0 = removelast (b :: r0) ++ [last (b :: r0) dflt_ipt])
      by (apply app_removelast_last; discriminate).
    split; [|split; [|split]].
    + eapply perm_trans; [|exact Pp]. eapply perm_trans; [|exact Hpp].
      apply last_removelast_perm. discriminate.
    + discriminate.
    + intros Hn. rewrite Hn in Hd. cbn [app] in Hd. rewrite Hd in Hl. cbn [length] in Hl.
      rewrite <- Hl in Hlen. exact (Nat.nle_succ_diag_l 1 Hlen).
    + exists e. split; [apply (Permutation_in _ Pp); exact He | reflexivity].
  - intros E. apply pair_equal_spec in E. destruct E as [E E3]. apply pair_equal_spec in E. destruct E as [E1 E2]. subst l c r. split; [|split; [|split]].
    + eapply perm_trans; [exact Hpp | exact Pp].
    + discriminate.
    + intros Hn. subst. contradiction.
    + exists e. split; [apply (Permutation_in _ Pp); exact He | reflexivity].
Qed.

(** * radius and invariant *)
Lemma fmax_R a c : fmax Ro a c = Rmax a c.
Proof. unfold fmax, Rmax. simpl. unfold Rltb. destruct (Rlt_dec a c), (Rle_dec a c); lra. Qed.

Lemma fold_fmax_ge {A} (g : A -> R) (l : list A) : forall acc,
  acc <= fold_left (fun a p => fmax Ro a (g p)) l acc /\
  (forall p, In p l -> g p <= fold_left (fun a p => fmax Ro a (g p)) l acc).
Proof.
  induction l as [|x l IH]; intros acc; simpl.
  - split; [lra | tauto].
  - destruct (IH (fmax Ro acc (g x))) as [H1 H2]. rewrite fmax_R in *.
    assert (Ha := Rmax_l acc (g x)). assert (Hb := Rmax_r acc (g x)). split; [lra|].
    intros p [Hp | Hp]; [subst; lra | auto].
Qed.

Lemma calc_radius_ge m (ps : list rpt) c p : In p ps -> dist Ro m (fst p) c <= calc_radius Ro m ps c.
Proof.
  destruct ps as [|p0 t]; simpl; [tauto|]. intros H. rewrite dist_of_r. apply of_r_mono.
  destruct (fold_fmax_ge (fun p : rpt => rdist Ro m (fst p) c) t (rdist Ro m (fst p0) c)) as [H1 H2].
  destruct H as [H | H]; [subst; exact H1 | apply H2; exact H].
Qed.

(* every point below a node lies in the node's sphere *)
Fixpoint Inv (m : metric) (t : btree R) : Prop :=
  (forall p, In p (tree_points t) -> dist Ro m (fst p) (center t) <= radius t) /\
  match t with
  | BLeaf _ _ _ => True
  | BBranch _ _ l r => Inv m l /\ Inv m r
  end.

Lemma tree_inv_sound m t : tree_inv Ro m t = true -> Inv m t.
Proof.
  induction t as [c r ps | c r l IHl rt IHr]; simpl; rewrite !andb_true_iff.
  - intros [H _]. split; auto. rewrite forallb_forall in H. intros p Hp. apply Rleb_true. apply (H p Hp).
  - intros [H [Hl Hr]]. split; [|split; auto].
    rewrite forallb_forall in H. intros p Hp. apply Rleb_true. apply (H p Hp).
Qed.

Lemma leaf_node_spec m (ps : list rpt) : Inv m (leaf_node Ro m ps) /\ tree_points (leaf_node Ro m ps) = ps.
Proof.
  unfold leaf_node. destruct ps as [|p0 t]; simpl.
  - split; [split; [tauto | exact I] | reflexivity].
  - split; [split; [|exact I] | reflexivity].
    intros p Hp. apply (calc_radius_ge m (p0 :: t)). exact Hp.
Qed.

Lemma bt_build_S f m leaf (ps : list rpt) :
  bt_build Ro (S f) m leaf ps =
  if Nat.leb (length ps) leaf then leaf_node Ro m ps
  else let '(l, c, r) := partition_pts Ro ps in
       BBranch c (calc_radius Ro m (l ++ r) c) (bt_build Ro f m leaf l) (bt_build Ro f m leaf r).
Proof. reflexivity. Qed.

Lemma bt_build_spec m leaf : (1 <= leaf)%nat -> forall fuel (ps : list rpt), (length ps <= fuel)%nat ->
  Inv m (bt_build Ro fuel m leaf ps) /\ Permutation (tree_points (bt_build Ro fuel m leaf ps)) ps.
Proof.
  intros Hleaf. induction fuel as [|f IH]; intros ps Hf.
  - destruct ps as [|p ps]; [|simpl in Hf; inversion Hf]. simpl.
    split; [split; [intros p [] | exact I] | constructor].
  - rewrite bt_build_S. destruct (Nat.leb (length ps) leaf) eqn:E.
    + destruct (leaf_node_spec m ps) as [H1 H2]. split; auto. rewrite H2. auto.
    + apply Nat.leb_gt in E.
      destruct (partition_pts Ro ps) as [[l c] r] eqn:Ep.
      assert (H2 : (2 <= length ps)%nat)
        by (apply Nat.le_trans with (S leaf); [apply le_n_S; exact Hleaf | exact E]).
      destruct (partition_pts_spec ps l c r H2 Ep) as [Pp [Hl [Hr _]]].
      assert (Hlen := Permutation_length Pp). rewrite app_length in Hlen.
      assert (Ll : (length l <= f)%nat).
      { destruct r; [contradiction|]. unfold rpt, ipt, pt in *. simpl in Hlen. lia. }
      assert (Lr : (length r <= f)%nat).
      { destruct l; [contradiction|]. unfold rpt, ipt, pt in *. simpl in Hlen. lia. }
      destruct (IH l Ll) as [Il Pl]. destruct (IH r Lr) as [Ir Pr].
      simpl. split; [split; [|split; auto]|].
      * intros p Hp. apply calc_radius_ge.
        apply (Permutation_in _ (Permutation_app Pl Pr)). exact Hp.
      * eapply perm_trans; [apply Permutation_app; eauto | exact Pp].
Qed.

(** * the sphere bound never exceeds the reduced distance to a point of the node *)
Lemma node_bound_sound eps m (q : list R) (t : btree R) (p : rpt) :
  0 <= eps ->
  (forall p, In p (tree_points t) -> dist Ro m (fst p) (center t) <= radius t) ->
  In p (tree_points t) ->
  length q = length (fst p) -> length (fst p) = length (center t) ->
  node_bound Ro eps m q t <= rdist Ro m q (fst p).
Proof.
  intros Heps Hinv Hp L1 L2. unfold node_bound.
  set (d := dist Ro m q (center t)). set (r := radius t).
  assert (Hd : 0 <= d) by apply dist_nonneg.
  assert (Hpc := Hinv p Hp). fold r in Hpc.
  assert (Hr : 0 <= r) by (eapply Rle_trans; [apply dist_nonneg | exact Hpc]).
  assert (Htri := dist_triangle m q (fst p) (center t) L1 L2). fold d in Htri.
  assert (Hqp : 0 <= dist Ro m q (fst p)) by apply dist_nonneg.
  assert (Hm : 0 <= (d + r) * eps * of_N Ro (N.of_nat (length (center t) + 4))).
  { apply Rmult_le_pos; [apply Rmult_le_pos; lra | simpl; apply pos_INR]. }
  rewrite <- (to_r_dist m q (fst p)).
  change (add Ro) with Rplus. change (sub Ro) with Rminus. change (mul Ro) with Rmult.
  set (b := d - r - (d + r) * eps * of_N Ro (N.of_nat (length (center t) + 4))).
  assert (Hb : b <= dist Ro m q (fst p)) by (unfold b; lra).
  destruct (ltb Ro b (zero Ro)) eqn:E.
  - apply to_r_mono; [apply Rle_refl | exact Hqp].
  - apply to_r_mono; [apply Rltb_false in E; exact E | exact Hb].
Qed.

(** * error cases *)
Lemma index_knn_errors {F} (o : NumOps F) eps kd m leaf dim X q k :
  (leaf = 0%nat -> index_knn o eps kd m leaf dim X q k = inl (Some EmptyLeaf)) /\
  (leaf <> 0%nat -> dim = 0%nat -> index_knn o eps kd m leaf dim X q k = inl (Some ZeroDimension)) /\
  (leaf <> 0%nat -> dim <> 0%nat -> length q <> dim ->
     index_knn o eps kd m leaf dim X q k = inr (inl (Some WrongDimension))) /\
  (leaf <> 0%nat -> dim <> 0%nat -> length q = dim ->
     exists res, index_knn o eps kd m leaf dim X q k = inr (inr res)).
Proof.
  unfold index_knn, build_check, query_check. repeat split.
  - intros H. subst. reflexivity.
  - intros H1 H2. subst. apply Nat.eqb_neq in H1. rewrite H1. reflexivity.
  - intros H1 H2 H3. apply Nat.eqb_neq in H1. apply Nat.eqb_neq in H2. rewrite H1, H2.
    assert (E : Nat.eqb dim (length q) = false) by (apply Nat.eqb_neq; congruence).
    rewrite E. reflexivity.
  - intros H1 H2 H3. apply Nat.eqb_neq in H1. apply Nat.eqb_neq in H2. rewrite H1, H2.
    rewrite H3, Nat.eqb_refl. eexists; reflexivity.
Qed.
Lemma index_range_errors {F} (o : NumOps F) eps kd m leaf dim X q r :
  (leaf = 0%nat -> index_range o eps kd m leaf dim X q r = inl (Some EmptyLeaf)) /\
  (leaf <> 0%nat -> dim = 0%nat -> index_range o eps kd m leaf dim X q r = inl (Some ZeroDimension)) /\
  (leaf <> 0%nat -> dim <> 0%nat -> length q <> dim ->
     index_range o eps kd m leaf dim X q r = inr (inl (Some WrongDimension))) /\
  (leaf <> 0%nat -> dim <> 0%nat -> length q = dim ->
     exists res, index_range o eps kd m leaf dim X q r = inr (inr res)).
Proof.
  unfold index_range, build_check, query_check. repeat split.
  - intros H. subst. reflexivity.
  - intros H1 H2. subst. apply Nat.eqb_neq in H1. rewrite H1. reflexivity.
  - intros H1 H2 H3. apply Nat.eqb_neq in H1. apply Nat.eqb_neq in H2. rewrite H1, H2.
    assert (E : Nat.eqb dim (length q) = false) by (apply Nat.eqb_neq; congruence).
    rewrite E. reflexivity.
  - intros H1 H2 H3. apply Nat.eqb_neq in H1. apply Nat.eqb_neq in H2. rewrite H1, H2.
    rewrite H3, Nat.eqb_refl. eexists; reflexivity.
Qed.

(** * facts about the linear scan that hold in every arithmetic (also binary64 / binary32) *)
Section AnyOps.
Context {F : Type} (o : NumOps F).

Lemma ins_asc_perm_any {A} (key : A -> F) x l : Permutation (ins_asc o key x l) (x :: l).
Proof.
  induction l as [|y t IH]; simpl; auto.
  destruct (ltb o (key x) (key y)); auto.
  eapply perm_trans; [apply perm_skip, IH | apply perm_swap].
Qed.

Lemma linear_heap_perm_any m q (l : list (@ipt F)) h :
  Permutation (fold_left (fun h p => ins_asc o fst (rdist o m q (fst p), p) h) l h)
              (map (fun p => (rdist o m q (fst p), p)) l ++ h).
Proof.
  revert h. induction l as [|p l IH]; intros h; simpl; auto.
  eapply perm_trans; [apply IH|].
  eapply perm_trans; [apply Permutation_app_head, ins_asc_perm_any|].
  apply Permutation_sym, Permutation_middle.
Qed.

Lemma linear_knn_rows_any m q k (X : list (list F)) :
  length (linear_knn o m q k X) = Nat.min k (length X) /\
  incl (linear_knn o m q k X) (enumerate X) /\
  NoDup (map snd (linear_knn o m q k X)).
Proof.
  unfold linear_knn. set (h := linear_heap o m q X).
  assert (P : Permutation h (map (fun p => (rdist o m q (fst p), p)) (enumerate X))).
  { unfold h, linear_heap. eapply perm_trans; [apply linear_heap_perm_any|]. rewrite app_nil_r. auto. }
  repeat split.
  - rewrite map_length, firstn_length, (Permutation_length P), map_length.
    assert (HL := enumerate_length X). unfold ipt, pt in *. rewrite HL. apply Nat.min_l. apply Nat.le_min_r.
  - intros p Hp. apply in_map_iff in Hp. destruct Hp as [e [E He]]. subst.
    apply firstn_In in He. apply (Permutation_in _ P) in He.
    apply in_map_iff in He. destruct He as [p' [E' Hp']]. subst. exact Hp'.
  - assert (Hn : NoDup (map snd (map snd h))).
    { eapply Permutation_NoDup; [apply Permutation_sym; apply Permutation_map; apply Permutation_map; exact P|].
      rewrite !map_map. simpl. exact (enumerate_nodup X). }
    rewrite <- (firstn_skipn (Nat.min k (length X)) h) in Hn. rewrite !map_app in Hn.
    apply NoDup_app_l in Hn. exact Hn.
Qed.
End AnyOps.

(** * non-vacuity: the hypotheses of the theorems are satisfiable on non-trivial inputs *)
Ltac rabs := unfold Rabs; repeat (destruct (Rcase_abs _)); lra.
Lemma l1_01 : rdist Ro L1 [0] [1] = 1.
Proof. simpl. unfold l1d. simpl. rabs. Qed.
Lemma l1_0m1 : rdist Ro L1 [0] [-1] = 1.
Proof. simpl. unfold l1d. simpl. rabs. Qed.

(* two different correct answers to the same 1-nearest query (a tie): they agree on the distance *)
Example tie_two_answers :
  let X := [[1]; [-1]] in let dq := dq_of Ro L1 [0] in
  is_knn dq 1 X [([1], 0%N)] /\ is_knn dq 1 X [([-1], 1%N)] /\ [([1], 0%N)] <> [([-1], 1%N) : rpt].
Proof.
  assert (E : forall p : rpt, In p (enumerate [[1]; [-1]]) -> dq_of Ro L1 [0] p = 1).
  { intros p [H | [H | []]]; subst; unfold dq_of; simpl fst; [apply l1_01 | apply l1_0m1]. }
  split; [|split].
  - split; [reflexivity|]. split; [|split; [|split]].
    + intros p [H | []]. subst. left. reflexivity.
    + repeat constructor. intros [].
    + repeat constructor.
    + intros p p' [H | []] Hp' _. subst. rewrite (E p' Hp'). unfold dq_of. simpl fst. rewrite l1_01. lra.
  - split; [reflexivity|]. split; [|split; [|split]].
    + intros p [H | []]. subst. right. left. reflexivity.
    + repeat constructor. intros [].
    + repeat constructor.
    + intros p p' [H | []] Hp' _. subst. rewrite (E p' Hp'). unfold dq_of. simpl fst. rewrite l1_0m1. lra.
  - intros H. inversion H.
Qed.

(* a sphere with a stored point on its border, and a query outside: the bound is attained *)
Example bound_attained :
  let t := BLeaf [0] 1 [([1], 0%N)] in
  (forall p, In p (tree_points t) -> dist Ro L1 (fst p) (center t) <= radius t) /\
  node_bound Ro 0 L1 [3] t = 2 /\ rdist Ro L1 [3] [1] = 2.
Proof.
  assert (A3 : Rabs (3 - 0) = 3) by rabs.
  repeat split.
  - intros p [H | []]. subst. simpl. unfold l1d. simpl. rabs.
  - unfold node_bound. simpl. unfold l1d. simpl. rewrite A3.
    unfold Rltb. destruct (Rlt_dec _ _) as [H | H]; lra.
  - simpl. unfold l1d. simpl. rabs.
Qed.

(* the model of the ball tree computes: three points on a line, leaf size 1, binary64 *)
Example bt_new_runs :
  map snd (tree_points (bt_new B64_ops L2 1 [[0]; [2]; [1]]%float)) = [0%N; 2%N; 1%N]
  /\ tree_inv B64_ops L2 (bt_new B64_ops L2 1 [[0]; [2]; [1]]%float) = true.
Proof. split; vm_compute; reflexivity. Qed.

(* the repaired sphere bound at work on the input of finding F38: the point (1,1) at reduced
   distance 2 from the query (0,0) lies in the sphere around (2,2) of radius sqrt 2; with the safety
   margin (eps = 2^-52) the bound stays at or below 2, without it (eps = 0) it is 2.0000000000000004 *)
Example f25_bound :
  let t := (BBranch [2; 2] (PrimFloat.sqrt 2) (BLeaf [1; 1] 0 [([1; 1], 0%N)]) (BLeaf [2; 2] 0 [([2; 2], 1%N)]))%float in
  (PrimFloat.leb (node_bound B64_ops 0x1p-52 L2 [0; 0] t) 2 = true /\
   PrimFloat.ltb 2 (node_bound B64_ops 0 L2 [0; 0] t) = true)%float.
Proof. split; vm_compute; reflexivity. Qed.

(** * the best-first search of the ball tree returns a correct answer (over the reals) *)
Definition desc_by {A} (key : A -> R) (l : list A) : Prop := StronglySorted (fun a b => key b <= key a) l.

Lemma ins_desc_sorted {A} (key : A -> R) x l : desc_by key l -> desc_by key (ins_desc Ro key x l).
Proof.
  unfold desc_by. induction l as [|y t IH]; simpl; intros H.
  - constructor; constructor.
  - inversion H as [|? ? Ht Hy]; subst.
    destruct (Rltb (key y) (key x)) eqn:E.
    + apply Rltb_true in E. constructor; auto. constructor; [lra|].
      rewrite Forall_forall in *. intros z Hz. specialize (Hy z Hz). lra.
    + apply Rltb_false in E. constructor; auto.
      rewrite Forall_forall in *. intros z Hz.
      apply (Permutation_in _ (ins_desc_perm key x t)) in Hz. destruct Hz as [Hz | Hz]; subst; auto.
Qed.

Lemma desc_by_head {A} (key : A -> R) x l : desc_by key (x :: l) -> forall y, In y (x :: l) -> key y <= key x.
Proof.
  intros H y [Hy | Hy]; [subst; lra|]. inversion H; subst. rewrite Forall_forall in *. auto.
Qed.

Lemma perm_swap_app {A} (X Y Z : list A) : Permutation (X ++ Y ++ Z) (Y ++ X ++ Z).
Proof. rewrite !app_assoc. apply Permutation_app_tail. apply Permutation_app_comm. Qed.
Lemma perm_lift {A} (X Y R R' : list A) : Permutation R (X ++ R') -> Permutation (Y ++ R) (X ++ Y ++ R').
Proof. intros H. eapply perm_trans; [apply Permutation_app_head; exact H | apply perm_swap_app]. Qed.
Lemma perm_nil_end {A} (L R : list A) : Permutation (L ++ []) (R ++ []) -> Permutation L R.
Proof. rewrite !app_nil_r. auto. Qed.
(* a solver for permutations between lists built from ++ over the same atoms *)
Ltac perm_pull X := first [ apply Permutation_refl | apply perm_lift; perm_pull X ].
Ltac perm_go :=
  match goal with
  | |- Permutation [] _ => apply Permutation_refl
  | |- Permutation (?X ++ ?L) ?R =>
      refine (perm_trans (l' := X ++ _) _ _); [| apply Permutation_sym; perm_pull X ]; apply Permutation_app_head; perm_go
  end.
Ltac perm_solve := cbn [app]; apply perm_nil_end; repeat rewrite <- app_assoc; perm_go.

Lemma perm_move {A} (p : A) pend S S' Q Pl :
  Permutation S' (p :: S) -> Permutation ((p :: pend) ++ S ++ Q) Pl -> Permutation (pend ++ S' ++ Q) Pl.
Proof.
  intros H1 H2. eapply perm_trans; [|exact H2].
  eapply perm_trans; [apply Permutation_app_head; apply Permutation_app_tail; exact H1|].
  simpl. apply Permutation_sym. apply Permutation_middle.
Qed.

Section Search.
Context (m : metric) (q : list R) (k : nat) (mx : option R) (eps : R) (dm : nat).
Context (Heps : 0 <= eps) (Hk : (1 <= k)%nat) (Hq : length q = dm).
Context (P : list rpt).

Definition dqp (p : rpt) : R := rdist Ro m q (fst p).

(* dimensions: wherever a node holds a point, the point and the node's centre have dimension dm *)
Fixpoint dim_ok (t : btree R) : Prop :=
  (forall p, In p (tree_points t) -> length (fst p) = dm /\ length (center t) = dm) /\
  match t with BLeaf _ _ _ => True | BBranch _ _ l r => dim_ok l /\ dim_ok r end.

Definition node_ok (e : R * btree R) : Prop :=
  fst e = node_bound Ro eps m q (snd e) /\ Inv m (snd e) /\ dim_ok (snd e).

Definition qpoints (queue : list (R * btree R)) : list rpt := flat_map (fun e => tree_points (snd e)) queue.
Definition qnodes (queue : list (R * btree R)) : nat := fold_right (fun e a => (tree_nodes (snd e) + a)%nat) 0%nat queue.

Definition out_of_range (p : rpt) : Prop := match mx with Some r => r <= dqp p | None => False end.
Definition justified (out : list (R * rpt)) (p : rpt) : Prop :=
  out_of_range p \/ (length out = k /\ worst Ro out <= dqp p).

Definition out_ok (out : list (R * rpt)) : Prop :=
  desc_by fst out /\ (length out <= k)%nat /\
  forall e, In e out -> fst e = dqp (snd e) /\ lt_max Ro (fst e) mx = true.

(* state of the loop; [pend] = points of the leaf being scanned, [D] = points set aside *)
Definition state (pend : list rpt) (queue : list (R * btree R)) (out : list (R * rpt)) (D : list rpt) : Prop :=
  Permutation (pend ++ (map snd out ++ D) ++ qpoints queue) P /\
  out_ok out /\
  (forall p, In p D -> justified out p).

Lemma node_points_bound e p : node_ok e -> In p (tree_points (snd e)) -> fst e <= dqp p.
Proof.
  intros [Hb [Hi Hd]] Hp. rewrite Hb. unfold dqp.
  assert (Hdim : length (fst p) = dm /\ length (center (snd e)) = dm).
  { destruct (snd e); simpl in Hd; destruct Hd as [Hd _]; apply Hd; exact Hp. }
  apply node_bound_sound; auto.
  - destruct (snd e); simpl in Hi; destruct Hi as [Hi _]; exact Hi.
  - destruct Hdim; congruence.
  - destruct Hdim; congruence.
Qed.

Lemma worst_head (out : list (R * rpt)) e : In e out -> desc_by fst out -> fst e <= worst Ro out.
Proof.
  destruct out as [|h t]; [intros []|]. intros He Hs. simpl. destruct h as [d p]. simpl.
  apply (desc_by_head fst (d, p) t Hs e He).
Qed.

(* visiting one stored point *)
Lemma visit_point_state p pend queue out D :
  state (p :: pend) queue out D ->
  exists D', state pend queue (visit_point Ro m q k mx out p) D'.
Proof.
  intros [Hperm [[Hs [Hl He]] Hj]]. unfold visit_point. cbv zeta. fold (dqp p).
  unfold rpt, ipt, pt in *.
  destruct (lt_max Ro (dqp p) mx) eqn:Elt; simpl andb.
  2:{ (* outside the radius *)
    exists (p :: D). split; [|split; [exact (conj Hs (conj Hl He))|]].
    - eapply perm_move; [|exact Hperm]. apply Permutation_sym, Permutation_middle.
    - intros p' [Hp' | Hp']; [subst | auto]. left. unfold out_of_range, lt_max in *.
      destruct mx as [r|]; [|discriminate]. simpl in Elt. apply Rltb_false in Elt. exact Elt. }
  destruct (Nat.ltb (length out) k) eqn:Elen; simpl orb.
  - (* room left: insert *)
    apply Nat.ltb_lt in Elen.
    assert (Hlen1 : length (ins_desc Ro fst (dqp p, p) out) = S (length out)).
    { rewrite (Permutation_length (ins_desc_perm fst (dqp p, p) out)). reflexivity. }
    assert (Hk1 : Nat.ltb k (length (ins_desc Ro fst (dqp p, p) out)) = false).
    { apply Nat.ltb_ge. rewrite Hlen1. exact Elen. }
    rewrite Hk1. exists D. split; [|split; [repeat split|]].
    + eapply perm_move; [|exact Hperm].
      apply (Permutation_app_tail D (Permutation_map snd (ins_desc_perm fst (dqp p, p) out))).
    + apply ins_desc_sorted. exact Hs.
    + apply Nat.le_trans with (S (length out)); [apply Nat.eq_le_incl; exact Hlen1 | exact Elen].
    + apply (Permutation_in _ (ins_desc_perm fst (dqp p, p) out)) in H. destruct H as [H | H]; [subst; reflexivity | apply He; auto].
    + apply (Permutation_in _ (ins_desc_perm fst (dqp p, p) out)) in H. destruct H as [H | H]; [subst; exact Elt | apply He; auto].
    + intros p' Hp'. destruct (Hj p' Hp') as [H | [H _]]; [left; exact H | exfalso; apply (Nat.lt_irrefl k); apply Nat.le_lt_trans with (length out); [apply Nat.eq_le_incl; symmetry; exact H | exact Elen]].
  - apply Nat.ltb_ge in Elen. assert (Hfull : length out = k) by (apply Nat.le_antisymm; [exact Hl | exact Elen]).
    destruct (Rltb (dqp p) (worst Ro out)) eqn:Ew.
    + (* full, strictly better than the worst: replace the worst *)
      apply Rltb_true in Ew.
      destruct out as [|[dh ph] t]; [simpl in Hfull; rewrite <- Hfull in Hk; inversion Hk|].
      simpl in Ew. simpl ins_desc.
      assert (Eh : Rltb dh (dqp p) = false) by (apply Rltb_false; lra).
      simpl fst. rewrite Eh.
      assert (Hlen1 : length (ins_desc Ro fst (dqp p, p) t) = S (length t)).
      { rewrite (Permutation_length (ins_desc_perm fst (dqp p, p) t)). reflexivity. }
      assert (Hk1 : Nat.ltb k (length ((dh, ph) :: ins_desc Ro fst (dqp p, p) t)) = true).
      { apply Nat.ltb_lt. simpl. simpl in Hfull. rewrite <- Hfull. apply Nat.lt_succ_r. apply Nat.eq_le_incl. symmetry. exact Hlen1. }
      rewrite Hk1. simpl tl.
      assert (Hst : desc_by fst t) by (inversion Hs; auto).
      assert (Hsn : desc_by fst (ins_desc Ro fst (dqp p, p) t)) by (apply ins_desc_sorted; exact Hst).
      assert (Hle : forall e, In e (ins_desc Ro fst (dqp p, p) t) -> fst e <= dh).
      { intros e Hin. apply (Permutation_in _ (ins_desc_perm fst (dqp p, p) t)) in Hin.
        destruct Hin as [Hin | Hin]; [subst; simpl; lra|].
        apply (desc_by_head fst (dh, ph) t Hs e). right. exact Hin. }
      assert (Hw : worst Ro (ins_desc Ro fst (dqp p, p) t) <= dh).
      { destruct (ins_desc Ro fst (dqp p, p) t) as [|[d0 p0] t0] eqn:Ei; [simpl in Hlen1; discriminate Hlen1|].
        simpl. apply (Hle (d0, p0)). left. reflexivity. }
      exists (ph :: D). split; [|split; [repeat split|]].
      * eapply perm_move; [|exact Hperm].
        eapply perm_trans; [apply (Permutation_app_tail (ph :: D) (Permutation_map snd (ins_desc_perm fst (dqp p, p) t)))|].
        simpl. apply perm_skip. apply Permutation_sym, Permutation_middle.
      * exact Hsn.
      * apply Nat.le_trans with (S (length t)); [apply Nat.eq_le_incl; exact Hlen1 | simpl in Hfull; rewrite <- Hfull; apply Nat.le_refl].
      * apply (Permutation_in _ (ins_desc_perm fst (dqp p, p) t)) in H. destruct H as [H | H]; [subst; reflexivity | apply He; right; auto].
      * apply (Permutation_in _ (ins_desc_perm fst (dqp p, p) t)) in H. destruct H as [H | H]; [subst; exact Elt | apply He; right; auto].
      * intros p' [Hp' | Hp'].
        -- subst p'. right. split; [simpl in Hfull; rewrite <- Hfull; exact Hlen1|].
           destruct (He (dh, ph) (or_introl eq_refl)) as [E1 _]. simpl in E1. rewrite <- E1. exact Hw.
        -- destruct (Hj p' Hp') as [H | [_ H]]; [left; exact H|]. right.
           split; [simpl in Hfull; rewrite <- Hfull; exact Hlen1|]. simpl in H. lra.
    + (* full and not better: set aside *)
      apply Rltb_false in Ew. exists (p :: D). split; [|split; [exact (conj Hs (conj Hl He))|]].
      * eapply perm_move; [|exact Hperm]. apply Permutation_sym, Permutation_middle.
      * intros p' [Hp' | Hp']; [subst | auto]. right. split; auto.
Qed.

Lemma visit_leaf_state pend : forall queue out D,
  state pend queue out D ->
  exists D', state [] queue (fold_left (visit_point Ro m q k mx) pend out) D'.
Proof.
  induction pend as [|p pend IH]; intros queue out D H; simpl.
  - exists D. exact H.
  - destruct (visit_point_state p pend queue out D H) as [D' H']. apply (IH _ _ _ H').
Qed.

Lemma qpoints_ins e Q : Permutation (qpoints (ins_asc Ro fst e Q)) (tree_points (snd e) ++ qpoints Q).
Proof.
  unfold qpoints. induction Q as [|y t IH]; simpl; auto.
  destruct (Rltb (fst e) (fst y)); simpl; auto.
  eapply perm_trans; [apply Permutation_app_head; exact IH|].
  rewrite !app_assoc. apply Permutation_app_tail. apply Permutation_app_comm.
Qed.
Lemma qnodes_ins e Q : qnodes (ins_asc Ro fst e Q) = (tree_nodes (snd e) + qnodes Q)%nat.
Proof.
  unfold qnodes. induction Q as [|y t IH]; simpl; auto.
  destruct (Rltb (fst e) (fst y)); simpl; auto. rewrite IH. lia.
Qed.

(* a child of an expanded branch: pushed on the queue, or all its points are out of range *)
Lemma push_child c pend Q out D :
  node_ok (node_bound Ro eps m q c, c) ->
  state (tree_points c ++ pend) Q out D ->
  exists D2, state pend (if le_max Ro (node_bound Ro eps m q c) mx
                         then ins_asc Ro fst (node_bound Ro eps m q c, c) Q else Q) out D2.
Proof.
  intros Hn [Hperm [Hok Hj]]. destruct (le_max Ro (node_bound Ro eps m q c) mx) eqn:E.
  - exists D. split; [|split; auto].
    eapply perm_trans; [|exact Hperm].
    eapply perm_trans; [apply Permutation_app_head; apply Permutation_app_head; apply qpoints_ins|].
    simpl snd. perm_solve.
  - exists (tree_points c ++ D). split; [|split; auto].
    + eapply perm_trans; [|exact Hperm]. perm_solve.
    + intros p Hp. apply in_app_or in Hp. destruct Hp as [Hp | Hp]; [|auto]. left.
      unfold out_of_range. unfold le_max in E. destruct mx as [r|]; [|discriminate].
      apply Rleb_false in E. assert (H := node_points_bound _ p Hn Hp). simpl in H. lra.
Qed.

Lemma asc_head_le (queue : list (R * btree R)) e0 e : asc_by fst (e0 :: queue) -> In e (e0 :: queue) -> fst e0 <= fst e.
Proof.
  intros H [Hin | Hin]; [subst; lra|]. inversion H; subst. rewrite Forall_forall in *. auto.
Qed.

Lemma bt_loop_state : forall fuel queue out D,
  state [] queue out D -> Forall node_ok queue -> asc_by fst queue -> (qnodes queue < fuel)%nat ->
  exists D', Permutation (map snd (bt_loop Ro eps fuel m q k mx queue out) ++ D') P /\
             out_ok (bt_loop Ro eps fuel m q k mx queue out) /\
             forall p, In p D' -> justified (bt_loop Ro eps fuel m q k mx queue out) p.
Proof.
  induction fuel as [|f IH]; intros queue out D Hst Hn Hs Hf; [inversion Hf|].
  destruct queue as [|[b t0] queue'].
  - simpl. destruct Hst as [Hperm [Hok Hj]]. exists D. simpl in Hperm. rewrite app_nil_r in Hperm. auto.
  - cbn [bt_loop].
    match goal with |- context [if ?cnd then out else _] => destruct cnd eqn:Ebreak end.
    + (* break: everything still queued is out of reach *)
      destruct Hst as [Hperm [Hok Hj]]. exists (D ++ qpoints ((b, t0) :: queue')). split; [|split; auto].
      * eapply perm_trans; [|exact Hperm]. perm_solve.
      * intros p Hp. apply in_app_or in Hp. destruct Hp as [Hp | Hp]; [auto|].
        unfold qpoints in Hp. apply in_flat_map in Hp. destruct Hp as [e [He Hpe]].
        assert (Hb : b <= dqp p).
        { eapply Rle_trans; [apply (asc_head_le queue' (b, t0) e Hs He)|].
          apply node_points_bound; auto. rewrite Forall_forall in Hn. auto. }
        apply orb_true_iff in Ebreak. destruct Ebreak as [Eb | Eb].
        -- left. unfold out_of_range, ge_max in *. destruct mx as [r|]; [|discriminate].
           apply Rleb_true in Eb. lra.
        -- right. apply andb_true_iff in Eb. destruct Eb as [E1 E2]. apply Nat.eqb_eq in E1.
           apply Rleb_true in E2. split; auto. lra.
    + inversion Hn as [|? ? Hn0 Hn']; subst. assert (Hs' : asc_by fst queue') by (inversion Hs; auto).
      destruct t0 as [c r ps | c r l rt].
      * (* leaf *)
        assert (Hst1 : state ps queue' out D).
        { destruct Hst as [Hperm [Hok Hj]]. split; [|split; auto].
          eapply perm_trans; [|exact Hperm]. simpl qpoints. perm_solve. }
        destruct (visit_leaf_state ps queue' out D Hst1) as [D1 Hst2].
        apply (IH queue' _ D1 Hst2 Hn' Hs'). simpl in Hf. lia.
      * (* branch *)
        destruct Hn0 as [Hb [Hinv Hdim]]. simpl in Hinv, Hdim.
        destruct Hinv as [_ [Hil Hir]]. destruct Hdim as [_ [Hdl Hdr]].
        assert (Hst1 : state (tree_points l ++ tree_points rt ++ []) queue' out D).
        { destruct Hst as [Hperm [Hok Hj]]. split; [|split; auto].
          eapply perm_trans; [|exact Hperm]. simpl qpoints. simpl tree_points. perm_solve. }
        assert (Hnl : node_ok (node_bound Ro eps m q l, l)) by (repeat split; auto).
        assert (Hnr : node_ok (node_bound Ro eps m q rt, rt)) by (repeat split; auto).
        destruct (push_child l _ queue' out D Hnl Hst1) as [D1 Hst2].
        set (q1 := if le_max Ro (node_bound Ro eps m q l) mx
                   then ins_asc Ro fst (node_bound Ro eps m q l, l) queue' else queue') in *.
        destruct (push_child rt [] q1 out D1 Hnr Hst2) as [D2 Hst3].
        set (q2 := if le_max Ro (node_bound Ro eps m q rt) mx
                   then ins_asc Ro fst (node_bound Ro eps m q rt, rt) q1 else q1) in *.
        assert (Hq1 : Forall node_ok q1 /\ asc_by fst q1 /\ (qnodes q1 <= tree_nodes l + qnodes queue')%nat).
        { unfold q1. destruct (le_max Ro (node_bound Ro eps m q l) mx).
          - split; [|split].
            + rewrite Forall_forall in *. intros e He.
              apply (Permutation_in _ (ins_asc_perm fst _ queue')) in He. destruct He; [subst; auto | auto].
            + apply ins_asc_sorted. exact Hs'.
            + rewrite qnodes_ins. simpl. lia.
          - split; [|split]; auto. lia. }
        destruct Hq1 as [Hq1n [Hq1s Hq1c]].
        assert (Hq2 : Forall node_ok q2 /\ asc_by fst q2 /\ (qnodes q2 <= tree_nodes rt + qnodes q1)%nat).
        { unfold q2. destruct (le_max Ro (node_bound Ro eps m q rt) mx).
          - split; [|split].
            + rewrite Forall_forall in *. intros e He.
              apply (Permutation_in _ (ins_asc_perm fst _ q1)) in He. destruct He; [subst; auto | auto].
            + apply ins_asc_sorted. exact Hq1s.
            + rewrite qnodes_ins. simpl. lia.
          - split; [|split]; auto. lia. }
        destruct Hq2 as [Hq2n [Hq2s Hq2c]].
        apply (IH q2 out D2 Hst3 Hq2n Hq2s). simpl in Hf. lia.
Qed.
End Search.

(** * final statements *)
Lemma desc_rev_asc {A} (key : A -> R) (l : list A) : desc_by key l -> asc_by key (rev l).
Proof.
  unfold desc_by, asc_by. induction l as [|a l IH]; simpl; intros H; [constructor|].
  inversion H as [|? ? Hl Ha]; subst.
  assert (Hs : forall l1 l2 : list A, StronglySorted (fun a b => key a <= key b) l1 ->
                 StronglySorted (fun a b => key a <= key b) l2 ->
                 (forall x y, In x l1 -> In y l2 -> key x <= key y) ->
                 StronglySorted (fun a b => key a <= key b) (l1 ++ l2)).
  { induction l1 as [|x l1 IH1]; simpl; intros l2 H1 H2 H12; auto.
    inversion H1; subst. constructor; [apply IH1; auto|].
    rewrite Forall_forall in *. intros z Hz. apply in_app_or in Hz. destruct Hz; auto. }
  apply Hs; [apply IH; exact Hl | repeat constructor |].
  intros x y Hx [Hy | []]. subst. rewrite Forall_forall in Ha. apply Ha. apply in_rev. exact Hx.
Qed.

Section Final.
Context (m : metric) (eps : R) (X : list (list R)) (t : btree R) (q : list R) (dm : nat).
Context (Heps : 0 <= eps) (Hinv : Inv m t) (Hdim : dim_ok dm t) (Hq : length q = dm).
Context (Hperm : Permutation (tree_points t) (enumerate X)).

Let dq := dq_of Ro m q.

Lemma start_state k mx :
  state m q k mx (tree_points t) [] [(node_bound Ro eps m q t, t)] [] [].
Proof.
  split; [|split].
  - simpl. rewrite !app_nil_r. apply Permutation_refl.
  - split; [constructor | split; [apply Nat.le_0_l | intros e []]].
  - intros p [].
Qed.

Lemma run_loop k mx : (1 <= k)%nat ->
  exists D', let out := bt_loop Ro eps (S (tree_nodes t)) m q k mx [(node_bound Ro eps m q t, t)] [] in
    Permutation (map snd out ++ D') (tree_points t) /\ out_ok m q k mx out /\
    forall p, In p D' -> justified m q k mx out p.
Proof.
  intros Hk.
  apply (bt_loop_state m q k mx eps dm Heps Hk Hq (tree_points t) (S (tree_nodes t)) _ [] [] (start_state k mx)).
  - constructor; [|constructor]. repeat split; auto.
  - repeat constructor.
  - simpl. lia.
Qed.

Lemma answer_facts k mx (out : list (R * rpt)) (D' : list rpt) :
  Permutation (map snd out ++ D') (tree_points t) -> out_ok m q k mx out ->
  incl (map snd (rev out)) (enumerate X) /\ NoDup (map snd (map snd (rev out))) /\
  asc_by dq (map snd (rev out)) /\ (length out + length D' = length X)%nat.
Proof.
  intros Hp [Hs [Hl He]].
  assert (Hall : Permutation (map snd out ++ D') (enumerate X)) by (eapply perm_trans; eauto).
  repeat split.
  - intros p Hin. apply (Permutation_in _ Hall). apply in_or_app. left.
    rewrite map_rev in Hin. apply in_rev in Hin. exact Hin.
  - assert (Hn : NoDup (map snd (map snd out ++ D'))).
    { eapply Permutation_NoDup; [apply Permutation_sym; apply Permutation_map; exact Hall | apply enumerate_nodup]. }
    rewrite map_app in Hn. apply NoDup_app_l in Hn.
    eapply Permutation_NoDup; [|exact Hn]. apply Permutation_map. apply Permutation_map. apply Permutation_rev.
  - apply asc_by_map. apply (asc_by_ext fst).
    + intros e Hin. apply in_rev in Hin. destruct (He e Hin) as [E _]. exact E.
    + apply desc_rev_asc. exact Hs.
  - assert (H := Permutation_length Hall). rewrite app_length, map_length in H.
    rewrite H. apply enumerate_length.
Qed.

(* k nearest *)
Theorem bt_knn_is_knn k : is_knn dq k X (bt_knn Ro eps m t (length X) q k).
Proof.
  unfold bt_knn, nn_helper.
  destruct (Nat.eqb (length X) 0) eqn:En.
  { apply Nat.eqb_eq in En. destruct X; [|discriminate]. simpl.
    split; [rewrite Nat.min_0_r; reflexivity|]. split; [intros ? []|]. split; [constructor|].
    split; [constructor | intros ? ? []]. }
  destruct (Nat.eqb k 0) eqn:Ek.
  { apply Nat.eqb_eq in Ek. subst. simpl.
    split; [reflexivity|]. split; [intros ? []|]. split; [constructor|].
    split; [constructor | intros ? ? []]. }
  simpl orb. cbv iota.
  apply Nat.eqb_neq in En. apply Nat.eqb_neq in Ek. assert (Hk : (1 <= k)%nat) by lia.
  destruct (run_loop k None Hk) as [D' H]. cbv zeta in H.
  set (out := bt_loop Ro eps (S (tree_nodes t)) m q k None [(node_bound Ro eps m q t, t)] []) in *.
  destruct H as [Hp [Hok Hj]].
  destruct (answer_facts k None out D' Hp Hok) as [F1 [F2 [F3 F4]]].
  destruct Hok as [Hs [Hl He]]. unfold rpt, ipt, pt in *.
  assert (HD : (length out < k)%nat -> D' = []).
  { intros Hlt. destruct D' as [|p0 D0]; auto. exfalso.
    destruct (Hj p0 (or_introl eq_refl)) as [Ho | [Hf _]]; [exact Ho|].
    apply (Nat.lt_irrefl k). apply Nat.le_lt_trans with (length out); [apply Nat.eq_le_incl; symmetry; exact Hf | exact Hlt]. }
  split; [|split; [|split; [|split]]]; auto.
  - rewrite map_length, rev_length.
    destruct (Nat.lt_ge_cases (length out) k) as [Hlt | Hge].
    + rewrite (HD Hlt) in F4. simpl in F4. lia.
    + lia.
  - intros p p' Hp0 Hp' Hn.
    assert (Hin' : In p' D').
    { assert (Hx : In p' (map snd out ++ D')).
      { apply (Permutation_in _ (Permutation_sym (perm_trans Hp Hperm))). exact Hp'. }
      apply in_app_or in Hx. destruct Hx as [Hx | Hx]; auto. exfalso. apply Hn.
      rewrite map_rev. apply in_rev. rewrite rev_involutive. exact Hx. }
    destruct (Hj p' Hin') as [Ho | [Hf Hw]]; [destruct Ho|].
    rewrite map_rev in Hp0. apply in_rev in Hp0. apply in_map_iff in Hp0. destruct Hp0 as [e [E Hein]]. subst p.
    destruct (He e Hein) as [E1 _]. unfold dq, dq_of. fold (dqp m q (snd e)). rewrite <- E1.
    eapply Rle_trans; [apply (worst_head out e Hein Hs) | exact Hw].
Qed.

(* range *)
Theorem bt_range_is_range r : is_range dq (to_r Ro m r) X (bt_range Ro eps m t (length X) q r).
Proof.
  unfold bt_range, nn_helper.
  destruct (Nat.eqb (length X) 0) eqn:En.
  { apply Nat.eqb_eq in En. destruct X; [|discriminate]. simpl. split; [constructor|].
    intros p. simpl. tauto. }
  simpl orb. cbv iota. apply Nat.eqb_neq in En. assert (Hk : (1 <= length X)%nat) by lia.
  destruct (run_loop (length X) (Some (to_r Ro m r)) Hk) as [D' H]. cbv zeta in H.
  set (out := bt_loop Ro eps (S (tree_nodes t)) m q (length X) (Some (to_r Ro m r)) [(node_bound Ro eps m q t, t)] []) in *.
  destruct H as [Hp [Hok Hj]].
  destruct (answer_facts _ _ out D' Hp Hok) as [F1 [F2 [F3 F4]]].
  destruct Hok as [Hs [Hl He]]. unfold rpt, ipt, pt in *.
  split; auto. intros p. split.
  - intros Hin. split; [apply F1; exact Hin|].
    rewrite map_rev in Hin. apply in_rev in Hin. apply in_map_iff in Hin. destruct Hin as [e [E Hein]]. subst p.
    destruct (He e Hein) as [E1 E2]. unfold dq, dq_of. fold (dqp m q (snd e)). rewrite <- E1.
    simpl in E2. apply Rltb_true in E2. exact E2.
  - intros [Hin Hlt].
    assert (Hx : In p (map snd out ++ D')).
    { apply (Permutation_in _ (Permutation_sym (perm_trans Hp Hperm))). exact Hin. }
    apply in_app_or in Hx. destruct Hx as [Hx | Hx].
    + rewrite map_rev. apply in_rev. rewrite rev_involutive. exact Hx.
    + exfalso. destruct (Hj p Hx) as [Ho | [Hf _]].
      * unfold out_of_range in Ho. unfold dq, dq_of in Hlt. unfold dqp in Ho. lra.
      * destruct D' as [|d0 D0]; [destruct Hx|]. simpl in F4.
        assert (F5 : (length out + S (length D0) = length out)%nat) by (rewrite F4; symmetry; exact Hf). lia.
Qed.
End Final.

(** * dimensions in the tree built by bt_build; the end-to-end statements *)
Lemma vadd_length (a b : list R) : length (vadd Ro a b) = Nat.min (length a) (length b).
Proof. unfold vadd. rewrite map_length, combine_length. reflexivity. Qed.

Lemma fold_vadd_length dm (ps : list rpt) : forall c,
  length c = dm -> (forall p, In p ps -> length (fst p) = dm) ->
  length (fold_left (fun c p => vadd Ro c (fst p)) ps c) = dm.
Proof.
  induction ps as [|p ps IH]; intros c Hc Hp; simpl; auto.
  apply IH; [|intros p' Hp'; apply Hp; right; auto].
  rewrite vadd_length, Hc, (Hp p (or_introl eq_refl)). apply Nat.min_id.
Qed.

Lemma leaf_node_dim m dm (ps : list rpt) :
  (forall p, In p ps -> length (fst p) = dm) -> dim_ok dm (leaf_node Ro m ps).
Proof.
  intros Hp. unfold leaf_node. destruct ps as [|p0 t]; simpl.
  - split; [intros p [] | exact I].
  - split; [|exact I]. intros p Hin. split; [apply Hp; exact Hin|].
    rewrite map_length. apply (fold_vadd_length dm (p0 :: t)); auto.
    rewrite repeat_length. apply Hp. left. reflexivity.
Qed.

Lemma bt_build_dim m leaf dm : (1 <= leaf)%nat -> forall fuel (ps : list rpt), (length ps <= fuel)%nat ->
  (forall p, In p ps -> length (fst p) = dm) -> dim_ok dm (bt_build Ro fuel m leaf ps).
Proof.
  intros Hleaf. induction fuel as [|f IH]; intros ps Hf Hp.
  - destruct ps as [|p ps]; [|simpl in Hf; inversion Hf]. simpl. split; [intros p [] | exact I].
  - rewrite bt_build_S. destruct (Nat.leb (length ps) leaf) eqn:E.
    + apply leaf_node_dim. exact Hp.
    + apply Nat.leb_gt in E.
      destruct (partition_pts Ro ps) as [[l c] r] eqn:Ep.
      assert (H2 : (2 <= length ps)%nat)
        by (apply Nat.le_trans with (S leaf); [apply le_n_S; exact Hleaf | exact E]).
      destruct (partition_pts_spec ps l c r H2 Ep) as [Pp [Hl [Hr [e [He Hc]]]]].
      assert (Hlen := Permutation_length Pp). rewrite app_length in Hlen.
      assert (Ll : (length l <= f)%nat).
      { destruct r; [contradiction|]. unfold rpt, ipt, pt in *. simpl in Hlen. lia. }
      assert (Lr : (length r <= f)%nat).
      { destruct l; [contradiction|]. unfold rpt, ipt, pt in *. simpl in Hlen. lia. }
      assert (Hpl : forall p, In p l -> length (fst p) = dm).
      { intros p Hin. apply Hp. apply (Permutation_in _ Pp). apply in_or_app. auto. }
      assert (Hpr : forall p, In p r -> length (fst p) = dm).
      { intros p Hin. apply Hp. apply (Permutation_in _ Pp). apply in_or_app. auto. }
      destruct (bt_build_spec m leaf Hleaf f l Ll) as [_ Pl].
      destruct (bt_build_spec m leaf Hleaf f r Lr) as [_ Pr].
      simpl. split; [|split; [apply IH | apply IH]; auto].
      intros p Hin. split; [|subst c; apply Hp; exact He].
      apply Hp. apply (Permutation_in _ Pp). apply (Permutation_in _ (Permutation_app Pl Pr)). exact Hin.
Qed.

Section EndToEnd.
Context (m : metric) (eps : R) (leaf dm : nat) (X : list (list R)) (q : list R).
Context (Heps : 0 <= eps) (Hleaf : (1 <= leaf)%nat) (HX : forall x, In x X -> length x = dm) (Hq : length q = dm).

Lemma bt_new_wf : Inv m (bt_new Ro m leaf X) /\ dim_ok dm (bt_new Ro m leaf X)
                  /\ Permutation (tree_points (bt_new Ro m leaf X)) (enumerate X).
Proof.
  unfold bt_new.
  assert (Hl : (length (enumerate X) <= length X)%nat) by (apply Nat.eq_le_incl; exact (enumerate_length X)).
  destruct (bt_build_spec m leaf Hleaf (length X) (enumerate X) Hl) as [H1 H2].
  split; [exact H1 | split; [|exact H2]].
  apply bt_build_dim; auto. intros [c i] Hin. simpl. apply HX.
  apply enumerate_spec in Hin. apply nth_error_In in Hin. exact Hin.
Qed.

Theorem ball_tree_knn_correct k :
  is_knn (dq_of Ro m q) k X (bt_knn Ro eps m (bt_new Ro m leaf X) (length X) q k).
Proof.
  destruct bt_new_wf as [H1 [H2 H3]]. apply (bt_knn_is_knn m eps X _ q dm); auto.
Qed.
Theorem ball_tree_range_correct r :
  is_range (dq_of Ro m q) (to_r Ro m r) X (bt_range Ro eps m (bt_new Ro m leaf X) (length X) q r).
Proof.
  destruct bt_new_wf as [H1 [H2 H3]]. apply (bt_range_is_range m eps X _ q dm); auto.
Qed.
End EndToEnd.
