(** C07 - property theorems about the k-d tree wrapper of linfa-nn (algorithms/linfa-nn/src/kdtree.rs);
    statements only, proofs in C07/KdProofs.v.  The external `kdtree` crate enters as two functions

      within  q rr : the crate's KdTree::within(q, rr, rdistance)  - a list of (distance, (point, row))
      nearest q k  : the crate's KdTree::nearest(q, k, rdistance)

    with the contract (C07/KdProofs.v)
      within_ok_at dq X rr raw  - raw holds exactly the stored points whose reduced distance is <= rr
                                  (inclusive), each once, each entry carrying the distance of its point;
      nearest_ok_at dq X k raw  - raw holds min(k, n) stored points, each once, each with its distance,
                                  ascending, and no point left out is strictly closer than a returned one;
      within_contract / nearest_contract - the same for every query.
    The correspondence runs call the crate directly, check within_ok_at / nearest_ok_at on every raw
    answer (checks proved sound below) and compare the wrapper model applied to the raw answer with
    the answer of KdTreeIndex, row by row in order. *)
From Coq Require Import List NArith Reals Sorting.Sorted.
From LinfaVerif Require Import Common.Num C07.Model C07.KdModel C07.Proofs C07.KdProofs.
Import ListNotations.
Local Open Scope R_scope.

(** KdTreeIndex::within_range (conversion of the radius, the crate's inclusive query, the strict
    filter of repair 276337d) returns exactly the rows strictly inside the radius, each once - for
    every metric, batch, query and radius, whenever the crate keeps its contract. *)
Theorem kdtree_wrapper_range_correct :
  forall (m : metric) (X : list (list R)) (within : list R -> R -> list (R * (list R * N))) (q : list R) (r : R),
  within_contract (fun q p => rdist R_ops m q (fst p)) X within ->
  is_range (dq_of R_ops m q) (to_r R_ops m r) X (kd_range R_ops within m q r).
Proof. exact kd_range_is_range. Qed.

(** KdTreeIndex::k_nearest returns a correct k-nearest answer whenever the crate keeps its contract. *)
Theorem kdtree_wrapper_knn_correct :
  forall (m : metric) (X : list (list R)) (nearest : list R -> nat -> list (R * (list R * N))) (q : list R) (k : nat),
  nearest_contract (fun q p => rdist R_ops m q (fst p)) X nearest ->
  is_knn (dq_of R_ops m q) k X (kd_knn nearest q k).
Proof. exact kd_knn_is_knn. Qed.

(** Per answer (what one correspondence case establishes): if the decidable check accepts the crate's
    raw answer, the wrapper model applied to it is a correct answer. *)
Theorem kdtree_wrapper_checked_answers :
  forall (m : metric) (X : list (list R)) (q : list R) (r : R) (k : nat) (raw_w raw_n : list (R * (list R * N))),
  (within_obs_ok R_ops Reqb (dq_of R_ops m q) (to_r R_ops m r) X raw_w = true ->
   is_range (dq_of R_ops m q) (to_r R_ops m r) X (kd_range R_ops (fun _ _ => raw_w) m q r)) /\
  (nearest_obs_ok R_ops Reqb (dq_of R_ops m q) k X raw_n = true ->
   is_knn (dq_of R_ops m q) k X (kd_knn (fun _ _ => raw_n) q k)).
Proof.
  intros. split; intros H.
  - apply kd_range_at. apply within_obs_ok_sound. exact H.
  - apply kd_knn_at. apply nearest_obs_ok_sound. exact H.
Qed.

(** The contracts are satisfiable for every batch (brute-force answers keep them), so the two
    theorems above are not vacuous. *)
Theorem kdtree_contracts_satisfiable : forall (m : metric) (X : list (list R)),
  within_contract (fun q p => rdist R_ops m q (fst p)) X (bf_within m X) /\
  nearest_contract (fun q p => rdist R_ops m q (fst p)) X (bf_nearest m X).
Proof. intros. split; [apply bf_within_contract | apply bf_nearest_contract]. Qed.

(** Build and query errors of the wrapper (every arithmetic): zero leaf size, zero columns, wrong
    query dimension; otherwise the query is answered by kd_knn / kd_range. *)
Theorem kdtree_wrapper_error_cases :
  forall F (o : NumOps F) (nearest : list F -> nat -> list (F * (list F * N)))
         (within : list F -> F -> list (F * (list F * N))) m leaf dim q k r,
  (leaf = 0%nat -> kd_index_knn nearest leaf dim q k = inl (Some EmptyLeaf)
                   /\ kd_index_range o within m leaf dim q r = inl (Some EmptyLeaf)) /\
  (leaf <> 0%nat -> dim = 0%nat -> kd_index_knn nearest leaf dim q k = inl (Some ZeroDimension)
                                   /\ kd_index_range o within m leaf dim q r = inl (Some ZeroDimension)) /\
  (leaf <> 0%nat -> dim <> 0%nat -> length q <> dim ->
     kd_index_knn nearest leaf dim q k = inr (inl (Some WrongDimension))
     /\ kd_index_range o within m leaf dim q r = inr (inl (Some WrongDimension))) /\
  (leaf <> 0%nat -> dim <> 0%nat -> length q = dim ->
     kd_index_knn nearest leaf dim q k = inr (inr (kd_knn nearest q k))
     /\ kd_index_range o within m leaf dim q r = inr (inr (kd_range o within m q r))).
Proof. intros. apply kd_index_errors. Qed.

(** The wrapper WITHOUT the strict filter (the code before repair 276337d, finding F3) is refuted:
    with a crate that keeps its contract it returns the border point of the batch {0, 1}, query 0,
    radius 1, while the repaired wrapper is correct on the same input. *)
Theorem kdtree_wrapper_unfiltered_refuted :
  exists (X : list (list R)) (within : list R -> R -> list (R * (list R * N))) (q : list R) (r : R),
  within_contract (fun q p => rdist R_ops L1 q (fst p)) X within /\
  ~ is_range (dq_of R_ops L1 q) (to_r R_ops L1 r) X (kd_range_unfiltered R_ops within L1 q r) /\
  is_range (dq_of R_ops L1 q) (to_r R_ops L1 r) X (kd_range R_ops within L1 q r).
Proof.
  exists [[0]; [1]], (bf_within L1 [[0]; [1]]), [0], 1. exact kd_range_unfiltered_not_range.
Qed.

(** Interchangeability with the other kinds: a k-d tree whose crate keeps its contract returns the
    same distances (k nearest) and the same rows (range) as the linear scan on every query. *)
Theorem kdtree_and_linear_agree :
  forall (m : metric) (X : list (list R)) (within : list R -> R -> list (R * (list R * N)))
         (nearest : list R -> nat -> list (R * (list R * N))) (q : list R) (k : nat) (r : R),
  within_contract (fun q p => rdist R_ops m q (fst p)) X within ->
  nearest_contract (fun q p => rdist R_ops m q (fst p)) X nearest ->
  map (dq_of R_ops m q) (linear_knn R_ops m q k X) = map (dq_of R_ops m q) (kd_knn nearest q k) /\
  (forall p, In p (linear_range R_ops m q r X) <-> In p (kd_range R_ops within m q r)).
Proof.
  intros m X within nearest q k r Hw Hn. split.
  - apply (knn_dists_unique (dq_of R_ops m q) k X); [apply linear_knn_is_knn | apply kd_knn_is_knn; exact Hn].
  - apply (range_rows_unique (dq_of R_ops m q) (to_r R_ops m r) X); [apply linear_range_is_range | apply kd_range_is_range; exact Hw].
Qed.
