(** C07 - correspondence (model vs linfa-nn) and property oracle, evaluated by vm_compute with the
    binary64 instance (Rust f64) or the binary32 instance (Rust f32). *)
From Coq Require Import List NArith ZArith QArith Bool Floats Arith.
From LinfaVerif Require Export Common.Num Common.Run Common.B32 Common.QF C07.Model C07.KdModel.
Import ListNotations.

(** an answer of the implementation: rows as (position, coordinates); coordinates are [None] when
    the harness has already verified them to be bit-identical to that row of the batch *)
Inductive outcome := ROk (rows : list N) (coords : list (list float)) | RErr | RPanic
  | RSkip (* nothing to judge: the k-d tree refused a non-contiguous batch / query with its documented panic *).
(* [coords = []] : verified by the harness; otherwise one coordinate vector per returned row *)

(* [ko_raw] / [ro_raw]: the raw answer of the external crate - kdtree::KdTree::nearest(q, k, rdistance) /
   ::within(q, dist_to_rdist(r), rdistance) on a tree built like KdTreeIndex::new builds it - as
   (distances, row positions); None = not observed (malformed query, the crate refused) *)
Record knn_obs := KO { ko_k : N; ko_lin : outcome; ko_kd : outcome; ko_ball : outcome;
                       ko_raw : option (list float * list N) }.
Record rng_obs := RO { ro_r : float; ro_rr : float (* Rust dist_to_rdist(r) *);
                       ro_lin : outcome; ro_kd : outcome; ro_ball : outcome;
                       ro_raw : option (list float * list N) }.
Record query := QR {
  q_pt : list float;
  q_rd : list float;      (* Rust rdistance(q, row i) for every row (empty for a malformed query) *)
  q_dd : list float;      (* Rust distance(q, row i); [] = not shipped for this query *)
  q_knn : list knn_obs;
  q_rng : list rng_obs
}.

(** dump of the implementation's ball tree (parsed from its Debug rendering) *)
Inductive dtree :=
| DLeaf (c : list float) (r : float) (rows : list N)
| DBranch (c : list float) (r : float) (l rt : dtree).

Inductive bstat := BOk | BZeroDim | BEmptyLeaf | BPanic
  | BSkip (* k-d tree only: documented panic on a batch whose rows are not contiguous *).

Record case := CS {
  c_id : N;
  c_f32 : bool;
  c_metric : N;                 (* 0 L1, 1 L2, 2 Linf, 3 Lp (distances taken from q_rd) *)
  c_lp : N;                     (* Lp with an integer exponent p >= 1: p, otherwise 0 *)
  c_dim : N;
  c_leaf : N;
  c_X : list (list float);
  c_build : list bstat;         (* linear, k-d tree, ball tree *)
  c_tree : option dtree;
  c_tree_rows_ok : bool;        (* harness: coordinates stored in the leaves equal the batch rows *)
  c_queries : list query
}.

Definition lor_list (l : list N) : N := fold_left N.lor l 0%N.

(* some non-zero coordinate of the batch or of a query lies below 2^-400 (binary32 data: 2^-36): squared
   differences may then fall below the normal range of the format (underflow), the regime that the
   float-level theorems exclude and in which finding F-C07-1 lives *)
Definition tiny_case (c : case) : bool :=
  let thr := if c_f32 c then 0x1p-36%float else 0x1p-400%float in
  existsb (fun x => PrimFloat.ltb 0 (PrimFloat.abs x) && PrimFloat.ltb (PrimFloat.abs x) thr)
          (concat (c_X c) ++ concat (map q_pt (c_queries c))).

Section Gen.
Context {F : Type} (o : NumOps F) (cv : float -> F) (beq : F -> F -> bool) (eps : F).

Definition metric_of (c : N) : metric := match c with 0%N => L1 | 1%N => L2 | _ => Linf end.

Fixpoint tree_of_dump (X : list (list F)) (d : dtree) : btree F :=
  match d with
  | DLeaf c r rows => BLeaf (map cv c) (cv r) (map (fun i => (nth (N.to_nat i) X [], i)) rows)
  | DBranch c r l rt => BBranch (map cv c) (cv r) (tree_of_dump X l) (tree_of_dump X rt)
  end.

Fixpoint btree_eqb (with_radius : bool) (a b : btree F) : bool :=
  match a, b with
  | BLeaf c r ps, BLeaf c' r' ps' =>
      list_eqb beq c c' && (negb with_radius || beq r r') && list_eqb N.eqb (map snd ps) (map snd ps')
  | BBranch c r l rt, BBranch c' r' l' rt' =>
      list_eqb beq c c' && (negb with_radius || beq r r') && btree_eqb with_radius l l' && btree_eqb with_radius rt rt'
  | _, _ => false
  end.

Fixpoint rows_with (rows : list N) (coords : list (list float)) : list (@ipt F) :=
  match rows, coords with
  | i :: rows', c :: coords' => (map cv c, i) :: rows_with rows' coords'
  | i :: rows', [] => (([] : list F), i) :: rows_with rows' []     (* missing coordinates: invalid *)
  | [], _ => []
  end.
Definition rows_of (X : list (list F)) (rows : list N) (coords : list (list float)) : list (@ipt F) :=
  match coords with
  | [] => map (fun i => (nth (N.to_nat i) X [], i)) rows
  | _ => rows_with rows coords
  end.

(* sorted row positions, for comparing answers as sets *)
Fixpoint ins_N (a : N) (l : list N) : list N :=
  match l with [] => [a] | b :: t => if N.leb a b then a :: l else b :: ins_N a t end.
Definition sort_N (l : list N) : list N := fold_right ins_N [] l.

Definition is_ok (x : outcome) : bool := match x with ROk _ _ => true | _ => false end.
Definition is_err (x : outcome) : bool := match x with RErr => true | _ => false end.
Definition is_panic (x : outcome) : bool := match x with RPanic => true | _ => false end.

(* status of one answer for a well-formed query: Ok expected *)
Definition status_valid (x : outcome) : N :=
  match x with ROk _ _ => 0 | RErr => 64 | RPanic => 128 | RSkip => 0 end%N.
(* ... and for a malformed one: an error expected *)
Definition status_malformed (x : outcome) : N :=
  match x with ROk _ _ => 64 | RErr => 0 | RPanic => 192 | RSkip => 0 end%N.

(* the float-level invariant of the search (C07/FloatSearch.v proves it for L2 in the standard rounding
   model): at every node of the tree the computed bound is at or below the computed reduced distance
   of every point stored below the node *)
Fixpoint bound_ok_tree (m : metric) (q : list F) (t : btree F) : bool :=
  let b := node_bound o eps m q t in
  forallb (fun p => leb o b (rdist o m q (fst p))) (tree_points t)
  && match t with
     | BLeaf _ _ _ => true
     | BBranch _ _ l r => bound_ok_tree m q l && bound_ok_tree m q r
     end.

Section OneQuery.
(* [chk_bound]: evaluate the float-level invariant (the case lies outside the underflow regime) *)
Context (lp : bool) (m : metric) (X : list (list F)) (dim : nat) (tree : option (btree F)) (chk_bound : bool) (qr : query).

Let q : list F := map cv (q_pt qr).
Let n := length X.
(* reduced distances from the query to every row: the model's metric, or Rust's table for Lp
   (powf is not available in Coq); answers are judged through this table, row by row - an answer
   whose coordinates are not those of its row is rejected by ipt_valid anyway *)
Definition qtab : list F := if lp then map cv (q_rd qr) else map (fun x => rdist o m q x) X.
Section WithTab.
Context (tab : list F).
Definition dq (p : @ipt F) : F := nth (N.to_nat (snd p)) tab (zero o).

Definition knn_judge (code : N) (k : nat) (x : outcome) : N :=
  match x with
  | ROk l c => flag (knn_ok o beq dq k X (rows_of X l c)) code
  | _ => 0%N
  end.
Definition range_judge (code : N) (rr : F) (x : outcome) : N :=
  match x with
  | ROk l c => flag (range_ok o beq dq rr X (rows_of X l c)) code
  | _ => 0%N
  end.

Definition oracle_knn (ko : knn_obs) : N :=
  let k := N.to_nat (ko_k ko) in
  lor_list [knn_judge 1 k (ko_lin ko); knn_judge 4 k (ko_kd ko); knn_judge 16 k (ko_ball ko);
            status_valid (ko_lin ko); status_valid (ko_kd ko); status_valid (ko_ball ko)].
Definition rr_of (ro : rng_obs) : F := if lp then cv (ro_rr ro) else to_r o m (cv (ro_r ro)).
Definition oracle_rng (ro : rng_obs) : N :=
  let rr := rr_of ro in
  lor_list [range_judge 2 rr (ro_lin ro); range_judge 8 rr (ro_kd ro); range_judge 32 rr (ro_ball ro);
            status_valid (ro_lin ro); status_valid (ro_kd ro); status_valid (ro_ball ro)].

(* correspondence of one k-nearest observation: the model's answers have the same reduced
   distances, position by position, as the implementation's (rows of equal distance may differ) *)
Definition dists (l : list ipt) : list F := map dq l.
Definition corr_knn (ko : knn_obs) : N :=
  let k := N.to_nat (ko_k ko) in
  ((match ko_lin ko with
    | ROk l c => flag (list_eqb beq (dists (linear_knn o m q k X)) (dists (rows_of X l c))) 16
    | _ => 128 end)
   + (match ko_ball ko, tree with
      | ROk l c, Some t => flag (list_eqb beq (dists (bt_knn o eps m t n q k)) (dists (rows_of X l c))) 4
      | ROk _ _, None => 0
      | _, _ => 128 end))%N.
Definition corr_rng (ro : rng_obs) : N :=
  let r := cv (ro_r ro) in
  ((match ro_lin ro with
    | ROk l _ => flag (list_eqb N.eqb (map snd (linear_range o m q r X)) l) 32
    | _ => 128 end)
   + (match ro_ball ro, tree with
      | ROk l _, Some t => flag (list_eqb N.eqb (sort_N (map snd (bt_range o eps m t n q r))) (sort_N l)) 8
      | ROk _ _, None => 0
      | _, _ => 128 end)
   + flag (beq (to_r o m r) (cv (ro_rr ro))) 64)%N.
(* the k-d tree wrapper: the raw answer of the crate keeps the contract the wrapper theorems assume
   (512), and the wrapper model applied to it gives the rows KdTreeIndex returned, in order (256) *)
Definition raw_of (raw : list float * list N) : list (F * @ipt F) :=
  combine (map cv (fst raw)) (map (fun i => (nth (N.to_nat i) X [], i)) (snd raw)).
Definition kd_contract_knn (ko : knn_obs) : N :=
  match ko_raw ko with
  | Some raw => flag (nearest_obs_ok o beq dq (N.to_nat (ko_k ko)) X (raw_of raw)
                      && Nat.eqb (length (fst raw)) (length (snd raw))) 512
  | None => 0%N
  end.
Definition kd_contract_rng (ro : rng_obs) : N :=
  match ro_raw ro with
  | Some raw => flag (within_obs_ok o beq dq (rr_of ro) X (raw_of raw)
                      && Nat.eqb (length (fst raw)) (length (snd raw))) 512
  | None => 0%N
  end.
Definition kd_corr_knn (ko : knn_obs) : N :=
  match ko_raw ko, ko_kd ko with
  | Some raw, ROk l _ => flag (list_eqb N.eqb (map snd (kd_knn (fun _ _ => raw_of raw) q (N.to_nat (ko_k ko)))) l) 256
  | Some _, _ => 256%N
  | None, _ => 0%N
  end.
Definition kd_corr_rng (ro : rng_obs) : N :=
  match ro_raw ro, ro_kd ro with
  | Some raw, ROk l _ => flag (list_eqb N.eqb (map snd (kd_range o (fun _ _ => raw_of raw) m q (cv (ro_r ro)))) l) 256
  | Some _, _ => 256%N
  | None, _ => 0%N
  end.
(* the metric itself: Rust's rdistance / distance tables against the model's *)
Definition corr_metric : N :=
  flag (list_eqb beq tab (map cv (q_rd qr))
        && match q_dd qr with
           | [] => true
           | dd => list_eqb beq (map (fun x => dist o m q x) X) (map cv dd)
           end) 64.

Definition run_wellformed : N * N :=
    (lor_list ((if lp then [] else corr_metric
                                     :: flag (negb chk_bound || match tree with Some t => bound_ok_tree m q t | None => true end) 1024
                                     :: map corr_knn (q_knn qr) ++ map corr_rng (q_rng qr)
                                     ++ map kd_corr_knn (q_knn qr) ++ map kd_corr_rng (q_rng qr))
               ++ map kd_contract_knn (q_knn qr) ++ map kd_contract_rng (q_rng qr)),
     lor_list (map oracle_knn (q_knn qr) ++ map oracle_rng (q_rng qr))).
End WithTab.

Definition run_query : N * N :=
  if Nat.eqb (length (q_pt qr)) dim then run_wellformed qtab
  else
    (* wrong query dimension: every kind must report an error (model: query_check) *)
    let all := concat (map (fun ko => [ko_lin ko; ko_kd ko; ko_ball ko]) (q_knn qr))
               ++ concat (map (fun ro => [ro_lin ro; ro_kd ro; ro_ball ro]) (q_rng qr)) in
    (match query_check dim q with
     | Some _ => flag (forallb is_err (concat (map (fun ko => [ko_lin ko; ko_ball ko]) (q_knn qr))
                                       ++ concat (map (fun ro => [ro_lin ro; ro_ball ro]) (q_rng qr)))) 128
     | None => 128%N
     end,
     lor_list (map status_malformed all)).
End OneQuery.

Fixpoint dump_rows (d : dtree) : list N :=
  match d with DLeaf _ _ rows => rows | DBranch _ _ l r => dump_rows l ++ dump_rows r end.
Fixpoint leaves_within (leaf : nat) (d : dtree) : bool :=
  match d with
  | DLeaf _ _ rows => Nat.leb (length rows) leaf
  | DBranch _ _ l r => leaves_within leaf l && leaves_within leaf r
  end.

Definition bstat_code (expected : option build_error) (s : bstat) : N * N :=
  (* (corr, oracle) *)
  match expected, s with
  | _, BSkip => (0, 0)
  | None, BOk => (0, 0)
  | None, BPanic => (128, 128)
  | None, _ => (128, 64)
  | Some ZeroDimension, BZeroDim => (0, 0)
  | Some EmptyLeaf, BEmptyLeaf => (0, 0)
  | Some _, BOk => (128, 64)
  | Some _, BPanic => (128, 192)
  | Some _, _ => (128, 0)         (* an error, but not the variant of the model *)
  end%N.

Definition run_gen (c : case) : verdict :=
  let lp := N.eqb (c_metric c) 3 in
  let m := metric_of (c_metric c) in
  let X := map (map cv) (c_X c) in
  let dim := N.to_nat (c_dim c) in
  let leaf := N.to_nat (c_leaf c) in
  let expected := build_check dim leaf in
  let bs := map (bstat_code expected) (c_build c) in
  let bcorr := lor_list (map fst bs) in
  let borac := lor_list (map snd bs) in
  match expected with
  | Some _ => (c_id c, (bcorr, borac))
  | None =>
      let tree := match c_tree c with Some d => Some (tree_of_dump X d) | None => None end in
      let tcorr :=
        match c_tree c, tree with
        | Some d, Some t =>
            (flag (btree_eqb (negb lp) (bt_new o m leaf X) t) 1
             + flag (c_tree_rows_ok c
                     && list_eqb N.eqb (sort_N (dump_rows d)) (map N.of_nat (seq 0 (length X)))
                     && leaves_within leaf d
                     && (lp || tree_inv o m t)) 2)%N
        | _, _ => if existsb (fun s => match s with BOk => true | _ => false end) (skipn 2 (c_build c))
                  then 1%N else 0%N
        end in
      let qs := map (run_query lp m X dim (if lp then None else tree) (negb (tiny_case c))) (c_queries c) in
      (c_id c, (lor_list (bcorr :: tcorr :: map fst qs), lor_list (borac :: map snd qs)))
  end.
End Gen.

(** the Lp metric (powf is not an IEEE operation, so it has no executable model): for integer p
    the distances Rust reports are enclosed by exact rational arithmetic,
    | t^p - sum_j |q_j - x_j|^p |  <=  tol * sum,  tol = 2^-44 (f64) or 2^-16 (f32) *)
Fixpoint Qpow (x : Q) (n : nat) : Q := match n with O => 1 | S n' => Qred (x * Qpow x n') end.
Definition lp_sum (p : nat) (a b : list float) : Q :=
  fold_left (fun acc xy => Qred (acc + Qpow (Qabs' (f64_Q (fst xy) - f64_Q (snd xy))) p)) (combine a b) 0.
Definition lp_ok (p : nat) (tol : Q) (q x : list float) (t : float) : bool :=
  f64_finite t && Qleb 0 (f64_Q t)
  && (let S := lp_sum p q x in Qleb (Qabs' (Qpow (f64_Q t) p - S)) (S * tol)).
Definition lp_check (c : case) : N :=
  match c_lp c with
  | 0%N => 0%N
  | p =>
      let tol := if c_f32 c then (1 # 65536)%Q else (1 # 17592186044416)%Q in
      flag (forallb (fun qr =>
                       negb (Nat.eqb (length (q_pt qr)) (N.to_nat (c_dim c)))
                       || (Nat.eqb (length (q_rd qr)) (length (c_X c))
                           && forallb (fun xt => lp_ok (N.to_nat p) tol (q_pt qr) (fst xt) (snd xt))
                                      (combine (c_X c) (q_rd qr))
                           && forallb (fun xt => lp_ok (N.to_nat p) tol (q_pt qr) (fst xt) (snd xt))
                                      (combine (c_X c) (q_dd qr))))
                    (c_queries c)) 256
  end.

(** instances *)
Definition eps64 : float := 0x1p-52%float.
Definition run64 := run_gen B64_ops (fun x => x) f64_biteq eps64.

Definition cv32 (x : float) : spec_float := b32_of_b64 (Prim2SF x).
Definition eps32 : spec_float := cv32 0x1p-23%float.
Definition run32 := run_gen B32_ops cv32 sf_eqb eps32.

Definition run_case (c : case) : verdict :=
  let '(id, (co, orc)) := if c_f32 c then run32 c else run64 c in
  (id, (co, N.lor orc (lp_check c))).
Definition run_cases (cs : list case) : list N := report (map run_case cs).
