(** C07 - the ball tree search in rounded arithmetic (L1, L2, Linf): with the safety margin of the repaired
    code the model's best-first search, run in ANY arithmetic of the standard rounding model
    (C07/FloatBound.v: SM_ops rnd), returns a correct answer WITH RESPECT TO THE COMPUTED reduced
    distances - the same criterion as the linear scan run in that arithmetic.  Ingredients:
    [node_bound_computed] (the bound never exceeds the computed reduced distance of a stored point)
    and the arithmetic-free search proof of C07/SearchGen.v. *)
From Coq Require Import List NArith ZArith Reals Lra Lia Bool Arith Permutation.
From LinfaVerif Require Import Common.Num C07.Model C07.Proofs C07.FloatBound C07.SearchGen C07.FloatBuild.
Import ListNotations.
Local Open Scope R_scope.

Section FloatSearch.
Variable rnd : R -> R.
Variable u : R.
Hypothesis u_pos : 0 <= u.
Hypothesis rnd_rel : forall x, Rabs (rnd x - x) <= u * Rabs x.
Hypothesis rnd_idem : forall x, rnd (rnd x) = rnd x.

Notation SM := (SM_ops rnd).
Variable m : metric.

(** the sphere invariant of every node as it is COMPUTED in the rounded arithmetic *)
Fixpoint InvC (t : btree R) : Prop :=
  (forall p, In p (tree_points t) -> dist SM m (fst p) (center t) <= radius t) /\
  match t with BLeaf _ _ _ => True | BBranch _ _ l r => InvC l /\ InvC r end.

(* ... which is what the executable checker tree_inv decides *)
Lemma tree_inv_InvC t : tree_inv SM m t = true -> InvC t.
Proof.
  induction t as [c r ps | c r l IHl rt IHr]; simpl; rewrite ?andb_true_iff.
  - intros [H _]. split; [|exact I]. intros p Hp. rewrite forallb_forall in H. apply Rleb_true. apply (H p Hp).
  - intros [H [Hl Hr]]. split; [|split; auto]. intros p Hp. rewrite forallb_forall in H. apply Rleb_true. apply (H p Hp).
Qed.

Section Query.
Context (dm : nat) (q : list R).
Context (Hdm : (1 <= dm)%nat) (Hsmall : (INR dm + 4) * u <= 1 / 16) (Hq : length q = dm).

Definition goodF (t : btree R) : Prop := InvC t /\ dim_ok dm t.

Lemma goodF_children c r l rt : goodF (BBranch c r l rt) -> goodF l /\ goodF rt.
Proof. intros [[_ [Hl Hr]] [_ [Dl Dr]]]. split; split; assumption. Qed.

Lemma goodF_bound t p : goodF t -> In p (tree_points t) ->
  node_bound SM (2 * u) m q t <= rdist SM m q (fst p).
Proof.
  intros [Hi Hd] Hp.
  assert (Hdim : length (fst p) = dm /\ length (center t) = dm).
  { destruct t; simpl in Hd; destruct Hd as [Hd _]; apply Hd; exact Hp. }
  destruct Hdim as [Lp Lc].
  apply (node_bound_computed rnd u u_pos rnd_rel rnd_idem m q t p); rewrite ?Lc; auto.
  destruct t; simpl in Hi; destruct Hi as [Hi _]; exact Hi.
Qed.

Context (X : list (list R)) (t : btree R).
Context (Hgood : goodF t) (Hperm : Permutation (tree_points t) (enumerate X)).

Theorem bt_knn_float k : is_knn (dq_of SM m q) k X (bt_knn SM (2 * u) m t (length X) q k).
Proof.
  unfold bt_knn. rewrite (nn_helper_transfer SM eq_refl eq_refl eq_refl).
  apply (gknn_is_knn _ _ goodF goodF_children goodF_bound X t Hgood Hperm).
Qed.

Theorem bt_range_float r : is_range (dq_of SM m q) (to_r SM m r) X (bt_range SM (2 * u) m t (length X) q r).
Proof.
  unfold bt_range. rewrite (nn_helper_transfer SM eq_refl eq_refl eq_refl).
  apply (grange_is_range _ _ goodF goodF_children goodF_bound X t Hgood Hperm).
Qed.

(* the linear scan in the same arithmetic *)
Theorem linear_knn_float k : is_knn (dq_of SM m q) k X (linear_knn SM m q k X).
Proof. rewrite (linear_knn_transfer SM eq_refl). apply glinear_knn_is_knn. Qed.
Theorem linear_range_float r : is_range (dq_of SM m q) (to_r SM m r) X (linear_range SM m q r X).
Proof. rewrite (linear_range_transfer SM eq_refl). apply glinear_range_is_range. Qed.

(** interchangeability in rounded arithmetic *)
Theorem linear_and_ball_tree_agree_float k r :
  map (dq_of SM m q) (linear_knn SM m q k X) = map (dq_of SM m q) (bt_knn SM (2 * u) m t (length X) q k) /\
  (forall p, In p (linear_range SM m q r X) <-> In p (bt_range SM (2 * u) m t (length X) q r)).
Proof.
  split.
  - apply (knn_dists_unique (dq_of SM m q) k X); [apply linear_knn_float | apply bt_knn_float].
  - apply (range_rows_unique (dq_of SM m q) (to_r SM m r) X); [apply linear_range_float | apply bt_range_float].
Qed.
End Query.
End FloatSearch.

(** * end to end: construction and search in rounded arithmetic (the rounding is monotone in addition) *)
Section EndToEndFloat.
Variable rnd : R -> R.
Variable u : R.
Hypothesis u_pos : 0 <= u.
Hypothesis rnd_rel : forall x, Rabs (rnd x - x) <= u * Rabs x.
Hypothesis rnd_idem : forall x, rnd (rnd x) = rnd x.
Hypothesis rnd_mono : forall x y, x <= y -> rnd x <= rnd y.

Notation SM := (SM_ops rnd).

Lemma InvO_InvC m t : InvO SM m t -> InvC rnd m t.
Proof.
  induction t as [c r ps | c r l IHl rt IHr]; simpl.
  - intros [H _]. split; [exact H | exact I].
  - intros [H [Hl Hr]]. split; [exact H | split; auto].
Qed.

Lemma SM_sqrt_mono x y : x <= y -> sqrt SM x <= sqrt SM y.
Proof. intros H. simpl. apply rnd_mono. apply sqrt_le_1_alt. exact H. Qed.

Context (m : metric) (leaf dm : nat) (X : list (list R)) (q : list R).
Context (Hleaf : (1 <= leaf)%nat) (Hdm : (1 <= dm)%nat) (Hsmall : (INR dm + 4) * u <= 1 / 16).
Context (HX : forall x, In x X -> length x = dm) (Hq : length q = dm).

Lemma bt_new_float_wf :
  InvC rnd m (bt_new SM m leaf X) /\ dim_ok dm (bt_new SM m leaf X)
  /\ Permutation (tree_points (bt_new SM m leaf X)) (enumerate X).
Proof.
  destruct (bt_new_wf_o SM eq_refl SM_sqrt_mono m leaf dm X Hleaf HX) as [H1 [H2 H3]].
  split; [apply InvO_InvC; exact H1 | split; assumption].
Qed.

Theorem ball_tree_float_correct k r :
  is_knn (dq_of SM m q) k X (bt_knn SM (2 * u) m (bt_new SM m leaf X) (length X) q k) /\
  is_range (dq_of SM m q) (to_r SM m r) X (bt_range SM (2 * u) m (bt_new SM m leaf X) (length X) q r).
Proof.
  destruct bt_new_float_wf as [H1 [H2 H3]]. split.
  - apply (bt_knn_float rnd u u_pos rnd_rel rnd_idem m dm q Hdm Hsmall Hq X _ (conj H1 H2) H3).
  - apply (bt_range_float rnd u u_pos rnd_rel rnd_idem m dm q Hdm Hsmall Hq X _ (conj H1 H2) H3).
Qed.

Theorem linear_and_ball_tree_agree_float_e2e k r :
  map (dq_of SM m q) (linear_knn SM m q k X)
    = map (dq_of SM m q) (bt_knn SM (2 * u) m (bt_new SM m leaf X) (length X) q k) /\
  (forall p, In p (linear_range SM m q r X) <-> In p (bt_range SM (2 * u) m (bt_new SM m leaf X) (length X) q r)).
Proof.
  destruct bt_new_float_wf as [H1 [H2 H3]].
  apply (linear_and_ball_tree_agree_float rnd u u_pos rnd_rel rnd_idem m dm q Hdm Hsmall Hq X _ (conj H1 H2) H3).
Qed.
End EndToEndFloat.

Lemma rnd53_mono x y : x <= y -> rnd53 x <= rnd53 y.
Proof.
  intros H. apply Flocq.Core.Generic_fmt.round_le; [apply Flocq.Core.FLX.FLX_exp_valid; reflexivity | apply Flocq.Core.Generic_fmt.valid_rnd_N | exact H].
Qed.

(** * non-vacuity: a two-node tree over the batch {1, 4} (dimension 1) in Flocq's precision-53
      arithmetic satisfies the hypotheses *)
Lemma rnd53_small_int (z : Z) : (Z.abs z <= 1024)%Z -> rnd53 (IZR z) = IZR z.
Proof.
  intros H. apply Flocq.Core.Generic_fmt.round_generic; [apply Flocq.Core.Generic_fmt.valid_rnd_N|].
  apply Flocq.Core.FLX.generic_format_FLX.
  exists (Flocq.Core.Defs.Float Flocq.Core.Zaux.radix2 z 0).
  - unfold Flocq.Core.Defs.F2R. simpl. lra.
  - simpl. lia.
Qed.

Example float_search_instance :
  let X := [[1]; [4]] in
  let t := BBranch [4] 3 (BLeaf [1] 0 [([1], 0%N)]) (BLeaf [4] 0 [([4], 1%N)]) in
  goodF rnd53 L2 1 t /\ Permutation (tree_points t) (enumerate X) /\ (INR 1 + 4) * u53 <= 1 / 16.
Proof.
  intros X t.
  assert (E0 : rnd53 0 = 0) by (apply (rnd53_small_int 0); simpl; lia).
  assert (D14 : dist (SM_ops rnd53) L2 [1] [4] = 3).
  { simpl. unfold sq_l2. simpl. replace (1 - 4) with (IZR (-3)) by (simpl; lra).
    rewrite (rnd53_small_int (-3)) by (simpl; lia).
    replace (IZR (-3) * IZR (-3)) with (IZR 9) by (simpl; lra).
    rewrite (rnd53_small_int 9) by (simpl; lia). rewrite Rplus_0_l.
    rewrite (rnd53_small_int 9) by (simpl; lia).
    replace (IZR 9) with (3 * 3) by (simpl; lra). rewrite sqrt_square by lra.
    apply (rnd53_small_int 3). simpl. lia. }
  assert (Dxx : forall x, dist (SM_ops rnd53) L2 [x] [x] = 0).
  { intros x. simpl. unfold sq_l2. simpl. replace (x - x) with 0 by ring.
    rewrite E0, Rmult_0_l, E0, Rplus_0_l, E0, sqrt_0. exact E0. }
  split; [split|split].
  - unfold t. cbn [InvC tree_points app center radius]. repeat split.
    + intros p [H | [H | []]]; subst p; cbn [fst]; [rewrite D14 | rewrite Dxx]; lra.
    + intros p [H | []]; subst p; cbn [fst]. rewrite Dxx. lra.
    + intros p [H | []]; subst p; cbn [fst]. rewrite Dxx. lra.
  - simpl. repeat split; auto;
      try (destruct H as [H | [H | []]]; subst p; reflexivity);
      try (destruct H as [H | []]; subst p; reflexivity).
  - apply Permutation_refl.
  - apply dim_small_53. simpl. lia.
Qed.
