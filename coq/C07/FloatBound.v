(** C07 - float-level soundness of the ball tree's pruning bound (BallTreeInner::rdistance after the
    repair of finding F38) under an explicit rounding-error model, and the refutation of the variant
    whose safety margin is relative to the difference (dist - radius) only (seeded change C07-c).

    Layers:
    1. [border_abstract]: pure real arithmetic.  The five roundings of
         b = fl( fl(dc - rr) - fl( fl( fl(dc + rr) * eps ) * (dim + 4) ) ),   eps = 2u,
       are written (1 + d_i), |d_i| <= u; the computed centre distance dc and the stored radius rr
       are tied to the true distances D = dist(q, centre), P = dist(p, centre) by
         |dc - D| <= e * D      and      P * (1 - e) <= rr,
       with 2e + 4u <= 2(dim+4)u (in particular e = (dim+2)u) and (dim+4)u <= 1/16.  Then b <= T for
       every T >= 0 with D <= T + P (triangle inequality: T = dist(q, p)).
    2. [SM_ops]: the NumOps instance "reals with a rounding after every operation", for any rounding
       function with relative error u (standard model).  The model term node_bound at this instance
       IS the expression above ([node_bound_border], [border_bound_std]).
    3. For L2 the hypotheses on dc and rr are derived ([l2_dist_std_error]: the sequential sum of
       squares followed by a square root has relative error <= (dim+2)u), so that the bound is sound
       for every tree whose sphere invariant holds as computed ([node_border_l2_std]).
    4. Flocq: round-to-nearest-even at precision 53 with unbounded exponent range (FLX) satisfies the
       standard model with u = 2^-53 ([rnd53_rel], [rnd53_idem]); what separates it from binary64 is
       underflow / overflow only.
    5. [rel_margin_witness]: a concrete binary64 input (PrimFloat) on which the variant bound exceeds
       the exact distance to a stored point, while the repaired bound does not. *)
From Coq Require Import List NArith ZArith QArith Reals Lra Lia Psatz Floats.
From Flocq Require Import Core Relative.
From LinfaVerif Require Import Common.Num Common.QF C07.Model C07.Proofs.
Import ListNotations.
Local Open Scope R_scope.

Lemma Rabs_le_both x a : Rabs x <= a -> - a <= x <= a.
Proof. unfold Rabs. destruct (Rcase_abs x); lra. Qed.

Section Border.
Context {F : Type} (o : NumOps F).
Definition border_bound (eps : F) (dim : nat) (d r : F) : F :=
  let margin := mul o (mul o (add o d r) eps) (of_N o (N.of_nat (dim + 4))) in
  let b := sub o (sub o d r) margin in
  if ltb o b (zero o) then zero o else b.
Lemma node_bound_border eps m q t :
  node_bound o eps m q t = to_r o m (border_bound eps (length (center t)) (dist o m q (center t)) (radius t)).
Proof. reflexivity. Qed.
Definition border_bound_rel (eps : F) (dim : nat) (d r : F) : F :=
  let bd := sub o d r in
  let margin := mul o (mul o bd eps) (of_N o (N.of_nat (dim + 4))) in
  let b := sub o bd margin in
  if ltb o b (zero o) then zero o else b.
Definition node_bound_rel (eps : F) (m : metric) (q : list F) (t : btree F) : F :=
  to_r o m (border_bound_rel eps (length (center t)) (dist o m q (center t)) (radius t)).
End Border.

Section Abstract.
Variables u e K : R.
Hypothesis Hu : 0 <= u.
Hypothesis He : 0 <= e.
Hypothesis HKu : K * u <= 1/16.
Hypothesis Hcover : 2 * e + 4 * u <= 2 * K * u.

Lemma prod3_lower d1 d2 d3 : u <= 1/32 -> Rabs d1 <= u -> Rabs d2 <= u -> Rabs d3 <= u ->
  1 - 3 * u <= (1 + d1) * (1 + d2) * (1 + d3).
Proof.
  intros Hs H1 H2 H3. apply Rabs_le_both in H1. apply Rabs_le_both in H2. apply Rabs_le_both in H3.
  assert (A : (1 - u) * (1 - u) <= (1 + d1) * (1 + d2)).
  { apply Rmult_le_compat; lra. }
  assert (B : (1 - u) * (1 - u) * (1 - u) <= (1 + d1) * (1 + d2) * (1 + d3)).
  { apply Rmult_le_compat; try lra. nra. }
  nra.
Qed.

(* the value of the bound expression from above, in terms of the two inputs only *)
Lemma border_value (dc rr d1 d2 d3 d4 d5 : R) :
  0 <= dc -> 0 <= rr ->
  Rabs d1 <= u -> Rabs d2 <= u -> Rabs d3 <= u -> Rabs d4 <= u -> Rabs d5 <= u ->
  let s := (dc + rr) * (1 + d1) in
  let m1 := s * (2 * u) * (1 + d2) in
  let m := m1 * K * (1 + d3) in
  let x := (dc - rr) * (1 + d4) in
  let b := (x - m) * (1 + d5) in
  b <= 0 \/ b <= dc - rr + 3 * u * (dc + rr) - 2 * (K * u) * (1 - 3 * u) * (dc + rr).
Proof.
  intros Hdc Hrr H1 H2 H3 H4 H5 s m1 m x b.
  assert (Hu32 : u <= 1/32) by lra.
  set (S := dc + rr). assert (HS : 0 <= S) by (unfold S; lra).
  assert (HK : 0 <= K * u) by lra.
  (* the margin from below *)
  assert (Hm : 2 * (K * u) * (1 - 3 * u) * S <= m).
  { unfold m, m1, s. fold S.
    replace (S * (1 + d1) * (2 * u) * (1 + d2) * K * (1 + d3))
      with (2 * (K * u) * S * ((1 + d1) * (1 + d2) * (1 + d3))) by ring.
    replace (2 * (K * u) * (1 - 3 * u) * S) with (2 * (K * u) * S * (1 - 3 * u)) by ring.
    apply Rmult_le_compat_l; [|apply prod3_lower; auto].
    apply Rmult_le_pos; [lra | exact HS]. }
  (* the rounded difference from above *)
  assert (Hx : x <= dc - rr + u * S).
  { unfold x. apply Rabs_le_both in H4.
    assert (d4 * (dc - rr) <= u * S).
    { destruct (Rle_or_lt 0 (dc - rr)).
      - apply Rle_trans with (u * (dc - rr)); [apply Rmult_le_compat_r; lra|].
        apply Rmult_le_compat_l; unfold S; lra.
      - apply Rle_trans with ((- u) * (dc - rr)).
        + replace (d4 * (dc - rr)) with ((- d4) * (- (dc - rr))) by ring.
          replace (- u * (dc - rr)) with (u * (- (dc - rr))) by ring.
          apply Rmult_le_compat_r; lra.
        + replace (- u * (dc - rr)) with (u * (rr - dc)) by ring.
          apply Rmult_le_compat_l; unfold S; lra. }
    lra. }
  apply Rabs_le_both in H5.
  destruct (Rle_or_lt (x - m) 0) as [Hneg | Hpos].
  - left. unfold b. replace 0 with (0 * (1 + d5)) by ring. apply Rmult_le_compat_r; lra.
  - right. assert (Hb : b <= (x - m) + u * (2 * S)).
    { unfold b. assert (d5 * (x - m) <= u * (x - m)) by (apply Rmult_le_compat_r; lra).
      assert (x - m <= 2 * S).
      { assert (0 <= m).
        { eapply Rle_trans; [|exact Hm]. apply Rmult_le_pos; [apply Rmult_le_pos; lra | exact HS]. }
        assert (u * S <= S) by nra. unfold S in *. lra. }
      assert (u * (x - m) <= u * (2 * S)) by (apply Rmult_le_compat_l; lra). lra. }
    fold S. lra.
Qed.

Lemma border_abstract (T D P dc rr d1 d2 d3 d4 d5 : R) :
  0 <= T -> 0 <= D -> 0 <= P -> D <= T + P ->
  0 <= dc -> 0 <= rr ->
  Rabs (dc - D) <= e * D -> P * (1 - e) <= rr ->
  Rabs d1 <= u -> Rabs d2 <= u -> Rabs d3 <= u -> Rabs d4 <= u -> Rabs d5 <= u ->
  let s := (dc + rr) * (1 + d1) in
  let m1 := s * (2 * u) * (1 + d2) in
  let m := m1 * K * (1 + d3) in
  let x := (dc - rr) * (1 + d4) in
  let b := (x - m) * (1 + d5) in
  b <= T.
Proof.
  intros HT HD HP Htri Hdc Hrr HdcD HrrP H1 H2 H3 H4 H5 s m1 m x b.
  assert (He16 : e <= 1/16) by lra.
  set (S := dc + rr). assert (HS : 0 <= S) by (unfold S; lra).
  (* true distances from the computed ones *)
  apply Rabs_le_both in HdcD.
  assert (HD1 : dc - e * dc <= D).
  { (* D >= dc / (1+e) >= dc (1-e) *)
    assert (dc <= D * (1 + e)) by lra.
    assert (dc * (1 - e) <= D * (1 + e) * (1 - e)) by (apply Rmult_le_compat_r; lra).
    assert (0 <= D * (e * e)) by (apply Rmult_le_pos; [lra | nra]).
    replace (D * (1 + e) * (1 - e)) with (D - D * (e * e)) in * by ring.
    replace (dc * (1 - e)) with (dc - e * dc) in * by ring. lra. }
  assert (HP1 : P <= rr + 2 * e * rr).
  { assert (P * (1 - e) * (1 + 2 * e) <= rr * (1 + 2 * e)) by (apply Rmult_le_compat_r; lra).
    assert (0 <= P * (e * (1 - 2 * e))) by (apply Rmult_le_pos; [lra | apply Rmult_le_pos; lra]).
    replace (P * (1 - e) * (1 + 2 * e)) with (P + P * (e * (1 - 2 * e))) in * by ring.
    replace (rr * (1 + 2 * e)) with (rr + 2 * e * rr) in * by ring. lra. }
  assert (HT1 : dc - rr - 2 * e * S <= T).
  { assert (e * dc <= 2 * e * dc) by nra. unfold S. lra. }
  destruct (border_value dc rr d1 d2 d3 d4 d5 Hdc Hrr H1 H2 H3 H4 H5) as [Hb | Hb];
    fold s m1 m x b in Hb; [lra|]. fold S in Hb.
  (* b <= dc - rr + 3 u S - 2 K u (1 - 3u) S  and  T >= dc - rr - 2 e S *)
  assert (Hfin : 3 * u * S + 2 * e * S <= 2 * (K * u) * (1 - 3 * u) * S).
  { replace (3 * u * S + 2 * e * S) with ((3 * u + 2 * e) * S) by ring.
    apply Rmult_le_compat_r; [exact HS|]. nra. }
  lra.
Qed.
End Abstract.

Section StdModel.
Variable rnd : R -> R.
Variable u : R.
Hypothesis u_pos : 0 <= u.
Hypothesis rnd_rel : forall x, Rabs (rnd x - x) <= u * Rabs x.

Definition SM_ops : NumOps R :=
  {| zero := 0; one := 1;
     add := fun x y => rnd (x + y); sub := fun x y => rnd (x - y);
     mul := fun x y => rnd (x * y); div := fun x y => rnd (x / y);
     opp := Ropp; abs := Rabs; sqrt := fun x => rnd (R_sqrt.sqrt x);
     ltb := Rltb; leb := Rleb; eqb := Reqb; of_N := fun n => INR (N.to_nat n) |}.

Lemma rnd_delta x : exists d, Rabs d <= u /\ rnd x = x * (1 + d).
Proof.
  destruct (Req_dec x 0) as [E | N].
  - exists 0. split; [rewrite Rabs_R0; exact u_pos|].
    assert (H := rnd_rel x). rewrite E in *. rewrite Rabs_R0, Rmult_0_r in H.
    assert (Rabs (rnd 0 - 0) = 0) by (apply Rle_antisym; [exact H | apply Rabs_pos]).
    destruct (Req_dec (rnd 0 - 0) 0) as [Z | Z]; [lra | apply Rabs_no_R0 in Z; contradiction].
  - exists ((rnd x - x) / x). split.
    + unfold Rdiv. rewrite Rabs_mult, Rabs_inv.
      apply Rmult_le_reg_r with (Rabs x); [apply Rabs_pos_lt; exact N|].
      rewrite Rmult_assoc, Rinv_l, Rmult_1_r by (apply Rabs_no_R0; exact N). apply rnd_rel.
    + field. exact N.
Qed.

Lemma border_bound_std (n : nat) (e T D P dc rr : R) :
  (INR n + 4) * u <= 1 / 16 -> 0 <= e -> 2 * e + 4 * u <= 2 * (INR n + 4) * u ->
  0 <= T -> 0 <= D -> 0 <= P -> D <= T + P -> 0 <= dc -> 0 <= rr ->
  Rabs (dc - D) <= e * D -> P * (1 - e) <= rr ->
  border_bound SM_ops (2 * u) n dc rr <= T.
Proof.
  intros HKu He Hcov HT HD HP Htri Hdc Hrr HdcD HrrP.
  unfold border_bound. simpl.
  replace (INR (N.to_nat (N.of_nat (n + 4)))) with (INR n + 4)
    by (rewrite Nat2N.id, plus_INR; simpl; lra).
  destruct (rnd_delta (dc + rr)) as [d1 [B1 E1]].
  destruct (rnd_delta (rnd (dc + rr) * (2 * u))) as [d2 [B2 E2]].
  destruct (rnd_delta (rnd (rnd (dc + rr) * (2 * u)) * (INR n + 4))) as [d3 [B3 E3]].
  destruct (rnd_delta (dc - rr)) as [d4 [B4 E4]].
  destruct (rnd_delta (rnd (dc - rr) - rnd (rnd (rnd (dc + rr) * (2 * u)) * (INR n + 4)))) as [d5 [B5 E5]].
  assert (Hb := border_abstract u e (INR n + 4) u_pos He HKu Hcov T D P dc rr d1 d2 d3 d4 d5
                 HT HD HP Htri Hdc Hrr HdcD HrrP B1 B2 B3 B4 B5).
  cbv zeta in Hb.
  rewrite E5, E4, E3, E2, E1.
  destruct (Rltb _ 0); [exact HT | exact Hb].
Qed.

(** ** rounding error of the L2 distance (sequential sum of squares, then a square root) *)
Hypothesis rnd_idem : forall x, rnd (rnd x) = rnd x.

Lemma rnd_bounds x : 0 <= x -> (1 - u) * x <= rnd x <= (1 + u) * x.
Proof.
  intros Hx. assert (H := rnd_rel x). rewrite (Rabs_pos_eq x Hx) in H. apply Rabs_le_both in H. lra.
Qed.

Definition sqt (x y : R) : R := (x - y) * (x - y).
Definition sqt' (x y : R) : R := rnd (rnd (x - y) * rnd (x - y)).

Lemma sqt_nonneg x y : 0 <= sqt x y.
Proof. apply sq_diff_nonneg. Qed.

Lemma sqt'_bounds x y : u <= 1 -> (1 - u) ^ 3 * sqt x y <= sqt' x y <= (1 + u) ^ 3 * sqt x y.
Proof.
  intros Hu1. unfold sqt'. destruct (rnd_delta (x - y)) as [d [B E]]. rewrite E.
  apply Rabs_le_both in B.
  assert (Ht := sqt_nonneg x y).
  replace ((x - y) * (1 + d) * ((x - y) * (1 + d))) with (sqt x y * ((1 + d) * (1 + d))) by (unfold sqt; ring).
  assert (L : (1 - u) * (1 - u) <= (1 + d) * (1 + d)) by (apply Rmult_le_compat; lra).
  assert (U : (1 + d) * (1 + d) <= (1 + u) * (1 + u)) by (apply Rmult_le_compat; lra).
  assert (P0 : 0 <= sqt x y * ((1 + d) * (1 + d))) by (apply Rmult_le_pos; [exact Ht | nra]).
  destruct (rnd_bounds _ P0) as [R1 R2].
  assert (L' : sqt x y * ((1 - u) * (1 - u)) <= sqt x y * ((1 + d) * (1 + d))) by (apply Rmult_le_compat_l; assumption).
  assert (U' : sqt x y * ((1 + d) * (1 + d)) <= sqt x y * ((1 + u) * (1 + u))) by (apply Rmult_le_compat_l; assumption).
  split.
  - eapply Rle_trans; [|exact R1].
    replace ((1 - u) ^ 3 * sqt x y) with ((1 - u) * (sqt x y * ((1 - u) * (1 - u)))) by ring.
    apply Rmult_le_compat_l; lra.
  - eapply Rle_trans; [exact R2|].
    replace ((1 + u) ^ 3 * sqt x y) with ((1 + u) * (sqt x y * ((1 + u) * (1 + u)))) by ring.
    apply Rmult_le_compat_l; lra.
Qed.

Lemma pow_le1_anti h : 0 <= h <= 1 -> forall m n, (m <= n)%nat -> h ^ n <= h ^ m.
Proof.
  intros Hh m n L. induction L as [|n L IH]; [lra|].
  simpl. assert (0 <= h ^ n) by (apply pow_le; lra). nra.
Qed.

Lemma fold_sq_bounds : forall (a b : list R) (acc A : R) (j : nat),
  length a = length b -> (3 <= j)%nat -> u <= 1 -> 0 <= A ->
  (1 - u) ^ j * A <= acc <= (1 + u) ^ j * A ->
  (1 - u) ^ (j + length a) * (A + ssum sqt a b)
    <= @fold2 R (fun acc x y => rnd (acc + rnd (rnd (x - y) * rnd (x - y)))) a b acc
    <= (1 + u) ^ (j + length a) * (A + ssum sqt a b).
Proof.
  induction a as [|x a IH]; intros [|y b] acc A j L Hj Hu1 HA Hacc; simpl in L; try discriminate.
  - simpl. rewrite Nat.add_0_r, Rplus_0_r. exact Hacc.
  - simpl fold2. simpl ssum. simpl length.
    replace (j + S (length a))%nat with (S j + length a)%nat by lia.
    replace (A + (sqt x y + ssum sqt a b)) with ((A + sqt x y) + ssum sqt a b) by ring.
    assert (Ht := sqt_nonneg x y). destruct (sqt'_bounds x y Hu1) as [T1 T2]. fold (sqt' x y).
    assert (Hh : 0 <= (1 - u) ^ j) by (apply pow_le; lra).
    assert (Hh3 : (1 - u) ^ j <= (1 - u) ^ 3) by (apply pow_le1_anti; [lra | exact Hj]).
    assert (Hg3 : (1 + u) ^ 3 <= (1 + u) ^ j) by (apply Rle_pow; [lra | exact Hj]).
    assert (Hg : 0 <= (1 + u) ^ 3) by (apply pow_le; lra).
    assert (T0 : 0 <= sqt' x y).
    { eapply Rle_trans; [|exact T1]. apply Rmult_le_pos; [apply pow_le; lra | exact Ht]. }
    assert (A0 : 0 <= acc) by (eapply Rle_trans; [|apply Hacc]; apply Rmult_le_pos; assumption).
    assert (S0 : 0 <= acc + sqt' x y) by lra.
    destruct (rnd_bounds _ S0) as [R1 R2].
    apply IH; auto; try lia; try lra.
    split.
    + eapply Rle_trans; [|exact R1]. simpl pow. rewrite Rmult_assoc.
      apply Rmult_le_compat_l; [lra|].
      assert ((1 - u) ^ j * sqt x y <= (1 - u) ^ 3 * sqt x y) by (apply Rmult_le_compat_r; assumption).
      lra.
    + eapply Rle_trans; [exact R2|]. simpl pow. rewrite Rmult_assoc.
      apply Rmult_le_compat_l; [lra|].
      assert ((1 + u) ^ 3 * sqt x y <= (1 + u) ^ j * sqt x y) by (apply Rmult_le_compat_r; assumption).
      lra.
Qed.

Lemma sq_l2_std_bounds (a b : list R) : length a = length b -> u <= 1 ->
  (1 - u) ^ (length a + 2) * sq_l2 R_ops a b <= sq_l2 SM_ops a b <= (1 + u) ^ (length a + 2) * sq_l2 R_ops a b.
Proof.
  intros L Hu1. rewrite sq_l2_sum. fold sqt. change (fun x y : R => (x - y) * (x - y)) with sqt.
  destruct a as [|x a], b as [|y b]; simpl in L; try discriminate.
  - unfold sq_l2. simpl. lra.
  - unfold sq_l2. simpl fold2. rewrite Rplus_0_l. fold (sqt' x y).
    replace (rnd (sqt' x y)) with (sqt' x y) by (unfold sqt'; rewrite rnd_idem; reflexivity).
    simpl ssum. simpl length.
    replace (S (length a) + 2)%nat with (3 + length a)%nat by lia.
    apply fold_sq_bounds; auto; try lia; [apply sqt_nonneg | apply sqt'_bounds; exact Hu1].
Qed.

Lemma bern_lower m : u <= 1 -> 1 - INR m * u <= (1 - u) ^ m.
Proof.
  intros Hu1. induction m as [|m IH]; [simpl; lra|].
  rewrite S_INR. simpl pow.
  assert (0 <= INR m) by apply pos_INR.
  assert ((1 - u) * (1 - INR m * u) <= (1 - u) * (1 - u) ^ m) by (apply Rmult_le_compat_l; lra).
  assert (0 <= INR m * (u * u)) by (apply Rmult_le_pos; [lra | nra]).
  replace ((1 - u) * (1 - INR m * u)) with (1 - (INR m + 1) * u + INR m * (u * u)) in * by ring. lra.
Qed.

Lemma pow_upper m : (1 + u) ^ m * (1 - INR m * u) <= 1.
Proof.
  induction m as [|m IH]; [simpl; lra|].
  rewrite S_INR. simpl pow.
  assert (0 <= INR m) by apply pos_INR.
  assert (G : 0 <= (1 + u) ^ m) by (apply pow_le; lra).
  assert (E : (1 + u) * (1 - (INR m + 1) * u) <= 1 - INR m * u).
  { assert (0 <= (INR m + 1) * (u * u)) by (apply Rmult_le_pos; [lra | nra]).
    replace ((1 + u) * (1 - (INR m + 1) * u)) with (1 - INR m * u - (INR m + 1) * (u * u)) by ring. lra. }
  replace ((1 + u) * (1 + u) ^ m * (1 - (INR m + 1) * u))
    with ((1 + u) ^ m * ((1 + u) * (1 - (INR m + 1) * u))) by ring.
  eapply Rle_trans; [apply Rmult_le_compat_l; [exact G | exact E] | exact IH].
Qed.

Lemma sqrt_pow_upper m : INR m * u <= 1 / 8 ->
  R_sqrt.sqrt ((1 + u) ^ m) <= 1 + INR m * u / 2 + (INR m * u) * (INR m * u).
Proof.
  intros Hz. set (z := INR m * u) in *.
  assert (Z0 : 0 <= z) by (unfold z; apply Rmult_le_pos; [apply pos_INR | exact u_pos]).
  set (w := 1 + z / 2 + z * z). assert (W0 : 0 <= w) by (unfold w; nra).
  rewrite <- (sqrt_square w W0). apply sqrt_le_1_alt.
  apply Rmult_le_reg_r with (1 - z); [lra|].
  eapply Rle_trans; [apply pow_upper|]. fold z.
  unfold w.
  assert (Q0 : 0 <= z * z) by nra. assert (Q1 : z * z <= 1 / 64) by nra.
  assert (Q2 : z * z * z <= 1 / 512) by nra. assert (Q3 : 0 <= z * z * z) by nra.
  replace ((1 + z / 2 + z * z) * (1 + z / 2 + z * z) * (1 - z))
    with (1 + (z * z) * (5 / 4 - 5 / 4 * z - z * z * z)) by field.
  assert (0 <= (z * z) * (5 / 4 - 5 / 4 * z - z * z * z)) by (apply Rmult_le_pos; lra). lra.
Qed.

Lemma sqrt_pow_lower m : u <= 1 -> INR m * u <= 1 / 8 ->
  1 - INR m * u / 2 - (INR m * u) * (INR m * u) / 2 <= R_sqrt.sqrt ((1 - u) ^ m).
Proof.
  intros Hu1 Hz. assert (B := bern_lower m Hu1). set (z := INR m * u) in *.
  assert (Z0 : 0 <= z) by (unfold z; apply Rmult_le_pos; [apply pos_INR | exact u_pos]).
  set (w := 1 - z / 2 - z * z / 2). assert (W0 : 0 <= w) by (unfold w; nra).
  rewrite <- (sqrt_square w W0). apply sqrt_le_1_alt.
  eapply Rle_trans; [|exact B]. unfold w. nra.
Qed.

(** the computed Euclidean distance d' of two points of dimension n >= 1 against the true one D,
    z = (n+2)u:  (1-u)(1 - z/2 - z^2/2) D <= d' <= (1+u)(1 + z/2 + z^2) D *)
Lemma l2_dist_std_bounds (a b : list R) :
  length a = length b -> (1 <= length a)%nat -> (INR (length a) + 2) * u <= 1 / 8 ->
  let z := (INR (length a) + 2) * u in
  (1 - u) * ((1 - z / 2 - z * z / 2) * dist R_ops L2 a b) <= dist SM_ops L2 a b
  /\ dist SM_ops L2 a b <= (1 + u) * ((1 + z / 2 + z * z) * dist R_ops L2 a b).
Proof.
  intros L Hn Hz z0.
  assert (N1 : 1 <= INR (length a)) by (change 1 with (INR 1); apply le_INR; exact Hn).
  assert (Hu1 : u <= 1) by nra.
  set (m := (length a + 2)%nat).
  assert (Em : INR m = INR (length a) + 2) by (unfold m; rewrite plus_INR; simpl; lra).
  subst z0. set (z := (INR (length a) + 2) * u) in *.
  assert (Ez : INR m * u = z) by (rewrite Em; reflexivity).
  assert (Z0 : 0 <= z) by (unfold z; nra).
  destruct (sq_l2_std_bounds a b L Hu1) as [B1 B2]. fold m in B1, B2.
  simpl dist. change (sqrt SM_ops) with (fun x => rnd (R_sqrt.sqrt x)). cbv beta.
  set (S' := sq_l2 SM_ops a b) in *. set (S := sq_l2 R_ops a b) in *.
  assert (S0 : 0 <= S) by (unfold S; apply (rdist_nonneg L2)).
  assert (H0 : 0 <= (1 - u) ^ m) by (apply pow_le; lra).
  assert (G0 : 0 <= (1 + u) ^ m) by (apply pow_le; lra).
  assert (S'0 : 0 <= S') by (eapply Rle_trans; [|exact B1]; apply Rmult_le_pos; assumption).
  set (D := R_sqrt.sqrt S). assert (D0 : 0 <= D) by apply sqrt_pos.
  destruct (rnd_bounds _ (sqrt_pos S')) as [R1 R2].
  assert (U : R_sqrt.sqrt S' <= (1 + z / 2 + z * z) * D).
  { eapply Rle_trans; [apply sqrt_le_1_alt; exact B2|]. rewrite sqrt_mult by assumption.
    apply Rmult_le_compat_r; [exact D0|]. rewrite <- Ez. apply sqrt_pow_upper. lra. }
  assert (Lo : (1 - z / 2 - z * z / 2) * D <= R_sqrt.sqrt S').
  { eapply Rle_trans; [|apply sqrt_le_1_alt; exact B1]. rewrite sqrt_mult by assumption.
    apply Rmult_le_compat_r; [exact D0|]. rewrite <- Ez. apply sqrt_pow_lower; lra. }
  split.
  - eapply Rle_trans; [|exact R1]. apply Rmult_le_compat_l; lra.
  - eapply Rle_trans; [exact R2|]. apply Rmult_le_compat_l; lra.
Qed.

(** ... hence its relative error is at most (n+2)u *)
Lemma l2_dist_std_error (a b : list R) :
  length a = length b -> (INR (length a) + 2) * u <= 1 / 8 ->
  Rabs (dist SM_ops L2 a b - dist R_ops L2 a b) <= (INR (length a) + 2) * u * dist R_ops L2 a b.
Proof.
  intros L Hz.
  destruct a as [|x0 a0] eqn:Ea.
  { destruct b; [|discriminate]. simpl. unfold sq_l2. simpl. rewrite sqrt_0.
    destruct (rnd_delta 0) as [d [_ E]]. rewrite E. rewrite Rmult_0_l, Rminus_0_r, Rabs_R0. lra. }
  rewrite <- Ea in *.
  assert (Hn : (1 <= length a)%nat) by (rewrite Ea; simpl; lia).
  assert (N1 : 1 <= INR (length a)) by (change 1 with (INR 1); apply le_INR; exact Hn).
  clear Ea x0 a0.
  destruct (l2_dist_std_bounds a b L Hn Hz) as [Lo Up]. cbv zeta in Lo, Up.
  set (z := (INR (length a) + 2) * u) in *.
  assert (Z3 : 3 * u <= z) by (unfold z; nra).
  set (D := dist R_ops L2 a b) in *. assert (D0 : 0 <= D) by (unfold D; apply dist_nonneg).
  set (d' := dist SM_ops L2 a b) in *. clearbody d' D z.
  assert (U2 : d' <= (1 + z) * D).
  { eapply Rle_trans; [exact Up|]. rewrite <- Rmult_assoc. apply Rmult_le_compat_r; [exact D0|]. nra. }
  assert (L2' : (1 - z) * D <= d').
  { eapply Rle_trans; [|exact Lo]. rewrite <- Rmult_assoc. apply Rmult_le_compat_r; [exact D0|]. nra. }
  apply Rabs_le. lra.
Qed.

(** ** the bound of a node, hypotheses on the computed centre distance and the stored radius *)
Lemma node_border_std (m : metric) (e : R) (q : list R) (t : btree R) (p : list R * N) :
  let n := length (center t) in
  (INR n + 4) * u <= 1 / 16 -> 0 <= e -> 2 * e + 4 * u <= 2 * (INR n + 4) * u ->
  In p (tree_points t) -> length q = length (fst p) -> length (fst p) = n ->
  0 <= dist SM_ops m q (center t) -> 0 <= radius t ->
  Rabs (dist SM_ops m q (center t) - dist R_ops m q (center t)) <= e * dist R_ops m q (center t) ->
  dist R_ops m (fst p) (center t) * (1 - e) <= radius t ->
  border_bound SM_ops (2 * u) n (dist SM_ops m q (center t)) (radius t) <= dist R_ops m q (fst p).
Proof.
  intros n HKu He Hcov Hp L1 L2 Hdc Hrr HdcD HrrP.
  apply (border_bound_std n e (dist R_ops m q (fst p)) (dist R_ops m q (center t)) (dist R_ops m (fst p) (center t)));
    auto; try apply dist_nonneg.
  apply dist_triangle; assumption.
Qed.

(** ** L2: no hypothesis on the computed numbers beyond the sphere invariant as it is computed *)
Lemma node_border_l2_std (q : list R) (t : btree R) (p : list R * N) :
  let n := length (center t) in
  (INR n + 4) * u <= 1 / 16 ->
  (forall p', In p' (tree_points t) -> dist SM_ops L2 (fst p') (center t) <= radius t) ->
  In p (tree_points t) -> length q = n -> length (fst p) = n ->
  border_bound SM_ops (2 * u) n (dist SM_ops L2 q (center t)) (radius t) <= dist R_ops L2 q (fst p).
Proof.
  intros n HKu Hinv Hp Lq Lp.
  assert (N0 : 0 <= INR n) by apply pos_INR.
  assert (Hz : (INR n + 2) * u <= 1 / 8) by nra.
  assert (Eq := l2_dist_std_error q (center t) Lq). rewrite Lq in Eq. specialize (Eq Hz).
  assert (Ep := l2_dist_std_error (fst p) (center t) Lp). rewrite Lp in Ep. specialize (Ep Hz).
  set (z := (INR n + 2) * u) in *.
  assert (Z0 : 0 <= z) by (unfold z; nra).
  assert (Hcov : 2 * z + 4 * u <= 2 * (INR n + 4) * u) by (unfold z; lra).
  clearbody z.
  assert (P0 := dist_nonneg L2 (fst p) (center t)). assert (D0 := dist_nonneg L2 q (center t)).
  apply Rabs_le_both in Ep.
  assert (Hr : dist SM_ops L2 (fst p) (center t) <= radius t) by (apply Hinv; exact Hp).
  assert (Hdc : 0 <= dist SM_ops L2 q (center t)).
  { pose proof Eq as Eq'. apply Rabs_le_both in Eq'. nra. }
  apply (node_border_std L2 z q t p); auto; try lra; try lia.
  - eapply Rle_trans; [|exact Hr].
    assert (0 <= (1 - z) * dist R_ops L2 (fst p) (center t)) by (apply Rmult_le_pos; lra). lra.
Qed.

(** ** L2, computed against computed: the reduced bound of a node never exceeds the COMPUTED reduced
    distance from the query to a point stored below the node (the two numbers the search compares) *)
Lemma border_bound_std_value (n : nat) (dc rr : R) :
  (INR n + 4) * u <= 1 / 16 -> 0 <= dc -> 0 <= rr ->
  let bb := border_bound SM_ops (2 * u) n dc rr in
  0 <= bb /\
  (bb = 0 \/ bb <= dc - rr + 3 * u * (dc + rr) - 2 * ((INR n + 4) * u) * (1 - 3 * u) * (dc + rr)).
Proof.
  intros HKu Hdc Hrr. unfold border_bound. simpl.
  replace (INR (N.to_nat (N.of_nat (n + 4)))) with (INR n + 4)
    by (rewrite Nat2N.id, plus_INR; simpl; lra).
  destruct (rnd_delta (dc + rr)) as [d1 [B1 E1]].
  destruct (rnd_delta (rnd (dc + rr) * (2 * u))) as [d2 [B2 E2]].
  destruct (rnd_delta (rnd (rnd (dc + rr) * (2 * u)) * (INR n + 4))) as [d3 [B3 E3]].
  destruct (rnd_delta (dc - rr)) as [d4 [B4 E4]].
  destruct (rnd_delta (rnd (dc - rr) - rnd (rnd (rnd (dc + rr) * (2 * u)) * (INR n + 4)))) as [d5 [B5 E5]].
  assert (N0 : 0 <= INR n) by apply pos_INR.
  assert (He : 0 <= (INR n + 2) * u) by (apply Rmult_le_pos; lra).
  assert (Hcov : 2 * ((INR n + 2) * u) + 4 * u <= 2 * (INR n + 4) * u) by lra.
  assert (Hb := border_value u ((INR n + 2) * u) (INR n + 4) u_pos He HKu Hcov dc rr d1 d2 d3 d4 d5
                 Hdc Hrr B1 B2 B3 B4 B5).
  cbv zeta in Hb. rewrite E5, E4, E3, E2, E1.
  match goal with |- context [Rltb ?b 0] => destruct (Rltb b 0) eqn:E end.
  - split; [lra | left; reflexivity].
  - apply Rltb_false in E. split; [exact E|]. destruct Hb as [Hb | Hb]; [left; lra | right; exact Hb].
Qed.

Lemma node_bound_l2_computed (q : list R) (t : btree R) (p : list R * N) :
  let n := length (center t) in
  (1 <= n)%nat -> (INR n + 4) * u <= 1 / 16 ->
  (forall p', In p' (tree_points t) -> dist SM_ops L2 (fst p') (center t) <= radius t) ->
  In p (tree_points t) -> length q = n -> length (fst p) = n ->
  node_bound SM_ops (2 * u) L2 q t <= rdist SM_ops L2 q (fst p).
Proof.
  intros n Hn1 HKu Hinv Hp Lq Lp.
  assert (N1 : 1 <= INR n) by (change 1 with (INR 1); apply le_INR; exact Hn1).
  assert (Hz8 : (INR n + 2) * u <= 1 / 8) by nra.
  assert (Hu1 : u <= 1) by nra.
  assert (Lqp : length q = length (fst p)) by lia.
  (* the three computed quantities against the true ones *)
  assert (BD := l2_dist_std_bounds q (center t) Lq). rewrite Lq in BD.
  specialize (BD Hn1 Hz8). cbv zeta in BD. destruct BD as [LoD UpD].
  assert (BP := l2_dist_std_bounds (fst p) (center t) Lp). rewrite Lp in BP.
  specialize (BP Hn1 Hz8). cbv zeta in BP. destruct BP as [LoP _].
  assert (Hr : dist SM_ops L2 (fst p) (center t) <= radius t) by (apply Hinv; exact Hp).
  destruct (sq_l2_std_bounds q (fst p) Lqp Hu1) as [LoS _]. rewrite Lq in LoS.
  assert (Bern := bern_lower (n + 2) Hu1). rewrite plus_INR in Bern. simpl INR in Bern.
  assert (Htri := dist_triangle L2 q (fst p) (center t) Lqp Lp).
  assert (ET : dist R_ops L2 q (fst p) * dist R_ops L2 q (fst p) = sq_l2 R_ops q (fst p)).
  { exact (to_r_dist L2 q (fst p)). }
  assert (T0 := dist_nonneg L2 q (fst p)). assert (P0 := dist_nonneg L2 (fst p) (center t)).
  assert (D0 := dist_nonneg L2 q (center t)).
  assert (S20 : 0 <= sq_l2 R_ops q (fst p)) by apply (rdist_nonneg L2).
  rewrite node_bound_border. fold n.
  set (dc := dist SM_ops L2 q (center t)) in *. set (rr := radius t) in *.
  set (bb := border_bound SM_ops (2 * u) n dc rr).
  change (rnd (bb * bb) <= sq_l2 SM_ops q (fst p)).
  set (dp := dist SM_ops L2 (fst p) (center t)) in *.
  set (D := dist R_ops L2 q (center t)) in *. set (P := dist R_ops L2 (fst p) (center t)) in *.
  set (T := dist R_ops L2 q (fst p)) in *.
  set (T2 := sq_l2 R_ops q (fst p)) in *. set (s' := sq_l2 SM_ops q (fst p)) in *.
  set (z := (INR n + 2) * u) in *.
  assert (Z3 : 3 * u <= z) by (unfold z; nra).
  assert (Z16 : z + 2 * u <= 1 / 16) by (unfold z; lra).
  assert (EK : (INR n + 4) * u = z + 2 * u) by (unfold z; ring).
  assert (U0 := u_pos).
  assert (Hs' : (1 - z) * T2 <= s').
  { eapply Rle_trans; [|exact LoS]. apply Rmult_le_compat_r; [exact S20|].
    replace (1 - z) with (1 - (INR n + (1 + 1)) * u) by (unfold z; ring). exact Bern. }
  clearbody dc rr dp D P T T2 s' z. clear Bern LoS Hinv Hp Lq Lp Lqp Hz8.
  (* the computed numbers are non-negative *)
  set (al := 1 + z / 2 + z * z) in *. set (be := 1 - z / 2 - z * z / 2) in *.
  assert (Be0 : 0 <= be) by (unfold be; nra). assert (Be1 : be <= 1) by (unfold be; nra).
  assert (Al1 : 1 <= al) by (unfold al; nra).
  assert (dp0 : 0 <= dp).
  { eapply Rle_trans; [|exact LoP]. apply Rmult_le_pos; [lra | apply Rmult_le_pos; assumption]. }
  assert (rr0 : 0 <= rr) by lra.
  assert (dc0 : 0 <= dc).
  { eapply Rle_trans; [|exact LoD]. apply Rmult_le_pos; [lra | apply Rmult_le_pos; assumption]. }
  clear LoD.
  (* true distances from the computed ones, without divisions *)
  set (la := 1 - u - (z / 2 + z * z)).
  assert (HD : la * dc <= D).
  { assert (La0 : 0 <= la) by (unfold la; nra).
    assert (E1 : la * ((1 + u) * al) <= 1).
    { unfold la, al. set (a := z / 2 + z * z). assert (0 <= a) by (unfold a; nra).
      replace (1 + z / 2 + z * z) with (1 + a) by (unfold a; ring).
      replace ((1 - u - a) * ((1 + u) * (1 + a))) with (1 - (u * u + a * a + u * a + u * a * (u + a))) by ring.
      assert (0 <= u * u + a * a + u * a + u * a * (u + a)) by nra. lra. }
    apply Rle_trans with (la * ((1 + u) * (al * D))); [apply Rmult_le_compat_l; assumption|].
    replace (la * ((1 + u) * (al * D))) with (la * ((1 + u) * al) * D) by ring.
    rewrite <- (Rmult_1_l D) at 2. apply Rmult_le_compat_r; assumption. }
  set (w := u + z / 2 + z * z / 2). set (mu := 1 + w + 2 * (w * w)).
  assert (W0 : 0 <= w) by (unfold w; nra). assert (W1 : w <= 1 / 8) by (unfold w; nra).
  assert (HP : P <= mu * rr).
  { assert (E1 : 1 - w <= (1 - u) * be) by (unfold w, be; nra).
    assert (E2 : 1 <= mu * (1 - w)).
    { unfold mu. replace ((1 + w + 2 * (w * w)) * (1 - w)) with (1 + w * w * (1 - 2 * w)) by ring.
      assert (0 <= w * w * (1 - 2 * w)) by (apply Rmult_le_pos; nra). lra. }
    assert (Mu0 : 0 <= mu) by (unfold mu; nra).
    apply Rle_trans with (mu * (1 - w) * P); [rewrite <- (Rmult_1_l P) at 1; apply Rmult_le_compat_r; assumption|].
    rewrite Rmult_assoc. apply Rmult_le_compat_l; [exact Mu0|].
    apply Rle_trans with ((1 - u) * be * P); [apply Rmult_le_compat_r; assumption|].
    rewrite Rmult_assoc. lra. }
  set (ga := be - u).
  assert (Ga0 : 0 <= ga) by (unfold ga, be; nra). assert (Ga1 : ga <= 1) by (unfold ga; lra).
  destruct (border_bound_std_value n dc rr HKu dc0 rr0) as [B0 BV]. fold bb in B0, BV.
  rewrite EK in BV. clearbody bb.
  set (c2 := z + 3 / 2 * (z * z) + 2 * u).
  assert (C20 : 0 <= c2) by (unfold c2; nra).
  assert (HbT : bb <= ga * T).
  { destruct BV as [BV | BV]; [rewrite BV; apply Rmult_le_pos; assumption|].
    apply Rle_trans with (ga * (D - P)); [|apply Rmult_le_compat_l; lra].
    assert (G1 : 1 - c2 <= ga * la).
    { unfold ga, be, la, c2.
      set (x := z / 2 + z * z / 2 + u). set (y := u + (z / 2 + z * z)).
      assert (0 <= x) by (unfold x; nra). assert (0 <= y) by (unfold y; nra).
      replace (1 - z / 2 - z * z / 2 - u) with (1 - x) by (unfold x; ring).
      replace (1 - u - (z / 2 + z * z)) with (1 - y) by (unfold y; ring).
      replace (1 - (z + 3 / 2 * (z * z) + 2 * u)) with (1 - x - y) by (unfold x, y; field).
      assert (0 <= x * y) by (apply Rmult_le_pos; assumption). nra. }
    assert (G2 : mu <= 1 + c2).
    { unfold mu, c2. assert (w * w <= w * (1 / 8)) by (apply Rmult_le_compat_l; assumption).
      unfold w in *. nra. }
    assert (G3 : ga * la * dc <= ga * D).
    { rewrite Rmult_assoc. apply Rmult_le_compat_l; assumption. }
    assert (G4 : ga * P <= mu * rr).
    { apply Rle_trans with (1 * P); [apply Rmult_le_compat_r; assumption | lra]. }
    assert (G5 : (1 - c2) * dc <= ga * la * dc) by (apply Rmult_le_compat_r; assumption).
    assert (G6 : mu * rr <= (1 + c2) * rr) by (apply Rmult_le_compat_r; assumption).
    assert (G7 : 3 * u * (dc + rr) - 2 * (z + 2 * u) * (1 - 3 * u) * (dc + rr) <= - c2 * (dc + rr)).
    { replace (3 * u * (dc + rr) - 2 * (z + 2 * u) * (1 - 3 * u) * (dc + rr))
        with ((3 * u - 2 * (z + 2 * u) * (1 - 3 * u)) * (dc + rr)) by ring.
      apply Rmult_le_compat_r; [lra|]. unfold c2. nra. }
    replace (ga * (D - P)) with (ga * D - ga * P) by ring.
    replace ((1 - c2) * dc) with (dc - c2 * dc) in G5 by ring.
    replace ((1 + c2) * rr) with (rr + c2 * rr) in G6 by ring.
    replace (- c2 * (dc + rr)) with (- (c2 * dc) - c2 * rr) in G7 by ring. lra. }
  assert (Hfin : (1 + u) * (ga * ga) <= 1 - z).
  { assert (E1 : ga <= be * (1 - u)) by (unfold ga; nra).
    assert (E2 : ga * ga <= (be * (1 - u)) * (be * (1 - u))) by (apply Rmult_le_compat; nra).
    assert (E3 : be * be <= 1 - z).
    { unfold be. replace ((1 - z / 2 - z * z / 2) * (1 - z / 2 - z * z / 2))
        with (1 - z - (z * z) * (3 / 4 - z / 2 - z * z / 4)) by field.
      assert (0 <= (z * z) * (3 / 4 - z / 2 - z * z / 4)) by (apply Rmult_le_pos; nra). lra. }
    assert (E4 : (1 + u) * ((1 - u) * (1 - u)) <= 1) by nra.
    assert (B20 : 0 <= be * be) by nra.
    apply Rle_trans with ((1 + u) * ((be * (1 - u)) * (be * (1 - u)))); [apply Rmult_le_compat_l; lra|].
    replace ((1 + u) * (be * (1 - u) * (be * (1 - u)))) with ((be * be) * ((1 + u) * ((1 - u) * (1 - u)))) by ring.
    apply Rle_trans with ((be * be) * 1); [apply Rmult_le_compat_l; assumption | lra]. }
  assert (Q0 : 0 <= bb * bb) by nra.
  destruct (rnd_bounds (bb * bb) Q0) as [_ Ub]. eapply Rle_trans; [exact Ub|].
  eapply Rle_trans; [|exact Hs'].
  assert (Hsq : bb * bb <= (ga * T) * (ga * T)) by (apply Rmult_le_compat; lra).
  apply Rle_trans with ((1 + u) * ((ga * T) * (ga * T))); [apply Rmult_le_compat_l; lra|].
  replace ((1 + u) * (ga * T * (ga * T))) with ((1 + u) * (ga * ga) * (T * T)) by ring.
  rewrite ET. apply Rmult_le_compat_r; assumption.
Qed.
(** ** L1 and Linf: no square root, the reduced distance is the distance *)
(* the bound against a computed distance, for metrics whose computed values carry a relative error
   of at most m roundings (m <= dim + 1) *)
Lemma border_bound_computed_lin (n m : nat) (dc rr D P T rdqp : R) :
  (INR n + 4) * u <= 1 / 16 -> INR m <= INR n + 1 ->
  0 <= D -> 0 <= P -> 0 <= T -> D <= T + P -> 0 <= dc -> 0 <= rr ->
  dc <= (1 + u) ^ m * D -> (1 - u) ^ m * P <= rr -> (1 - u) ^ m * T <= rdqp ->
  border_bound SM_ops (2 * u) n dc rr <= rdqp.
Proof.
  intros HKu Hm D0 P0 T0 Htri dc0 rr0 HdcD HrrP HT.
  assert (N0 : 0 <= INR n) by apply pos_INR. assert (M0 : 0 <= INR m) by apply pos_INR.
  assert (U0 := u_pos). assert (Hu1 : u <= 1) by nra.
  set (z := INR m * u). assert (Z0 : 0 <= z) by (unfold z; nra).
  assert (Z16 : z + 3 * u <= 1 / 16) by (unfold z; nra).
  assert (Bern := bern_lower m Hu1). fold z in Bern.
  assert (Up := pow_upper m). fold z in Up.
  assert (H0 : 0 <= (1 - u) ^ m) by (apply pow_le; lra).
  assert (H1 : (1 - u) ^ m <= 1) by (apply (pow_le1_anti (1 - u)) with (m := 0%nat); [lra | lia]).
  assert (G0 : 0 <= (1 + u) ^ m) by (apply pow_le; lra).
  destruct (border_bound_std_value n dc rr HKu dc0 rr0) as [B0 BV].
  set (bb := border_bound SM_ops (2 * u) n dc rr) in *. clearbody bb.
  eapply Rle_trans; [|exact HT].
  destruct BV as [BV | BV].
  { rewrite BV. apply Rmult_le_pos; assumption. }
  (* D >= (1 - z) dc *)
  assert (HD : (1 - z) * dc <= D).
  { apply Rle_trans with ((1 - z) * ((1 + u) ^ m * D)); [apply Rmult_le_compat_l; lra|].
    replace ((1 - z) * ((1 + u) ^ m * D)) with ((1 + u) ^ m * (1 - z) * D) by ring.
    rewrite <- (Rmult_1_l D) at 2. apply Rmult_le_compat_r; assumption. }
  assert (HhD : (1 - 2 * z) * dc <= (1 - u) ^ m * D).
  { apply Rle_trans with ((1 - z) * ((1 - z) * dc)).
    - replace ((1 - z) * ((1 - z) * dc)) with ((1 - 2 * z + z * z) * dc) by ring.
      apply Rmult_le_compat_r; [exact dc0 | nra].
    - apply Rmult_le_compat; try lra. apply Rmult_le_pos; lra. }
  assert (HhT : (1 - u) ^ m * (D - P) <= (1 - u) ^ m * T) by (apply Rmult_le_compat_l; lra).
  replace ((1 - u) ^ m * (D - P)) with ((1 - u) ^ m * D - (1 - u) ^ m * P) in HhT by ring.
  assert (EK : (INR n + 4) * u >= z + 3 * u) by (unfold z; nra).
  assert (G7 : 3 * u * (dc + rr) - 2 * ((INR n + 4) * u) * (1 - 3 * u) * (dc + rr) <= - (2 * z) * dc).
  { set (S := dc + rr). assert (S0 : 0 <= S) by (unfold S; lra).
    assert (A1 : 2 * (z + 3 * u) * (1 - 3 * u) * S <= 2 * ((INR n + 4) * u) * (1 - 3 * u) * S).
    { apply Rmult_le_compat_r; [exact S0|]. apply Rmult_le_compat_r; lra. }
    assert (A2 : (3 * u - 2 * (z + 3 * u) * (1 - 3 * u)) * S <= - (2 * z) * S).
    { apply Rmult_le_compat_r; [exact S0|]. nra. }
    assert (A3 : - (2 * z) * S <= - (2 * z) * dc) by (unfold S; nra).
    lra. }
  replace ((1 - 2 * z) * dc) with (dc - 2 * z * dc) in HhD by ring. lra.
Qed.

(* L1: the sequential sum of |x - y| *)
Definition abt (x y : R) : R := Rabs (x - y).
Lemma abt'_bounds x y : u <= 1 -> (1 - u) * abt x y <= Rabs (rnd (x - y)) <= (1 + u) * abt x y.
Proof.
  intros Hu1. destruct (rnd_delta (x - y)) as [d [B E]]. rewrite E. apply Rabs_le_both in B.
  unfold abt. rewrite Rabs_mult. rewrite (Rabs_pos_eq (1 + d)) by lra.
  assert (0 <= Rabs (x - y)) by apply Rabs_pos. split; rewrite (Rmult_comm _ (Rabs (x - y)));
    apply Rmult_le_compat_l; lra.
Qed.

Lemma fold_l1_bounds : forall (a b : list R) (acc A : R) (j : nat),
  length a = length b -> (1 <= j)%nat -> u <= 1 -> 0 <= A ->
  (1 - u) ^ j * A <= acc <= (1 + u) ^ j * A ->
  (1 - u) ^ (j + length a) * (A + ssum abt a b)
    <= @fold2 R (fun acc x y => rnd (acc + Rabs (rnd (x - y)))) a b acc
    <= (1 + u) ^ (j + length a) * (A + ssum abt a b).
Proof.
  induction a as [|x a IH]; intros [|y b] acc A j L Hj Hu1 HA Hacc; simpl in L; try discriminate.
  - simpl. rewrite Nat.add_0_r, Rplus_0_r. exact Hacc.
  - simpl fold2. simpl ssum. simpl length.
    replace (j + S (length a))%nat with (S j + length a)%nat by lia.
    replace (A + (abt x y + ssum abt a b)) with ((A + abt x y) + ssum abt a b) by ring.
    assert (Ht : 0 <= abt x y) by (unfold abt; apply Rabs_pos).
    destruct (abt'_bounds x y Hu1) as [T1 T2].
    assert (Hh : 0 <= (1 - u) ^ j) by (apply pow_le; lra).
    assert (Hh1 : (1 - u) ^ j <= (1 - u) ^ 1) by (apply pow_le1_anti; [lra | exact Hj]).
    assert (Hg1 : (1 + u) ^ 1 <= (1 + u) ^ j) by (apply Rle_pow; [lra | exact Hj]).
    simpl pow in Hh1, Hg1. rewrite Rmult_1_r in Hh1, Hg1.
    assert (T0 : 0 <= Rabs (rnd (x - y))) by apply Rabs_pos.
    assert (A0 : 0 <= acc) by (eapply Rle_trans; [|apply Hacc]; apply Rmult_le_pos; assumption).
    assert (S0 : 0 <= acc + Rabs (rnd (x - y))) by lra.
    destruct (rnd_bounds _ S0) as [R1 R2].
    apply IH; auto; try lia; try lra.
    split.
    + eapply Rle_trans; [|exact R1]. simpl pow. rewrite Rmult_assoc.
      apply Rmult_le_compat_l; [lra|].
      assert ((1 - u) ^ j * abt x y <= (1 - u) * abt x y) by (apply Rmult_le_compat_r; assumption).
      lra.
    + eapply Rle_trans; [exact R2|]. simpl pow. rewrite Rmult_assoc.
      apply Rmult_le_compat_l; [lra|].
      assert ((1 + u) * abt x y <= (1 + u) ^ j * abt x y) by (apply Rmult_le_compat_r; assumption).
      lra.
Qed.

Lemma l1d_std_bounds (a b : list R) : length a = length b -> u <= 1 ->
  (1 - u) ^ (length a + 1) * l1d R_ops a b <= l1d SM_ops a b <= (1 + u) ^ (length a + 1) * l1d R_ops a b.
Proof.
  intros L Hu1. rewrite l1d_sum. change (fun x y : R => Rabs (x - y)) with abt.
  unfold l1d. simpl.
  assert (H := fold_l1_bounds a b 0 0 1 L (le_n 1) Hu1 (Rle_refl 0)).
  rewrite !Rmult_0_r in H. specialize (H (conj (Rle_refl 0) (Rle_refl 0))).
  rewrite Rplus_0_l in H. replace (length a + 1)%nat with (1 + length a)%nat by lia. exact H.
Qed.

(* Linf: the running maximum of |x - y| *)
Lemma fold_linf_bounds : forall (a b : list R) (acc A : R),
  length a = length b -> u <= 1 -> 0 <= A ->
  (1 - u) * A <= acc <= (1 + u) * A ->
  (1 - u) * Rmax A (smax a b)
    <= @fold2 R (fun acc x y => let d := Rabs (rnd (x - y)) in if Rltb acc d then d else acc) a b acc
    <= (1 + u) * Rmax A (smax a b).
Proof.
  induction a as [|x a IH]; intros [|y b] acc A L Hu1 HA Hacc; simpl in L; try discriminate.
  - simpl. rewrite Rmax_left by lra. exact Hacc.
  - simpl fold2. simpl smax. cbv zeta.
    destruct (abt'_bounds x y Hu1) as [T1 T2]. unfold abt in T1, T2.
    assert (Ht : 0 <= Rabs (x - y)) by apply Rabs_pos.
    assert (Hs := smax_nonneg a b).
    replace (Rmax A (Rmax (Rabs (x - y)) (smax a b))) with (Rmax (Rmax A (Rabs (x - y))) (smax a b))
      by (symmetry; apply Rmax_assoc).
    apply IH; auto; try lia.
    + eapply Rle_trans; [exact HA | apply Rmax_l].
    + destruct (Rltb acc (Rabs (rnd (x - y)))) eqn:E.
      * apply Rltb_true in E. unfold Rmax. destruct (Rle_dec A (Rabs (x - y))); nra.
      * apply Rltb_false in E. unfold Rmax. destruct (Rle_dec A (Rabs (x - y))); nra.
Qed.

Lemma linfd_std_bounds (a b : list R) : length a = length b -> u <= 1 ->
  (1 - u) * linfd R_ops a b <= linfd SM_ops a b <= (1 + u) * linfd R_ops a b.
Proof.
  intros L Hu1. rewrite linfd_max. unfold linfd. simpl.
  assert (H := fold_linf_bounds a b 0 0 L Hu1 (Rle_refl 0)).
  rewrite !Rmult_0_r in H. specialize (H (conj (Rle_refl 0) (Rle_refl 0))).
  rewrite Rmax_right in H by apply smax_nonneg. exact H.
Qed.
(** ** every provided metric: the reduced bound of a node never exceeds the computed reduced distance
       from the query to a point stored below the node *)
Lemma node_bound_computed (m : metric) (q : list R) (t : btree R) (p : list R * N) :
  let n := length (center t) in
  (1 <= n)%nat -> (INR n + 4) * u <= 1 / 16 ->
  (forall p', In p' (tree_points t) -> dist SM_ops m (fst p') (center t) <= radius t) ->
  In p (tree_points t) -> length q = n -> length (fst p) = n ->
  node_bound SM_ops (2 * u) m q t <= rdist SM_ops m q (fst p).
Proof.
  destruct m; [| apply node_bound_l2_computed |].
  - (* L1 *)
    intros n Hn1 HKu Hinv Hp Lq Lp.
    assert (U0 := u_pos). assert (N0 : 0 <= INR n) by apply pos_INR. assert (Hu1 : u <= 1) by nra.
    assert (Lqp : length q = length (fst p)) by lia.
    assert (Hr : dist SM_ops L1 (fst p) (center t) <= radius t) by (apply Hinv; exact Hp).
    destruct (l1d_std_bounds q (center t) Lq Hu1) as [LoD UpD]. rewrite Lq in LoD, UpD.
    destruct (l1d_std_bounds (fst p) (center t) Lp Hu1) as [LoP _]. rewrite Lp in LoP.
    destruct (l1d_std_bounds q (fst p) Lqp Hu1) as [LoT _]. rewrite Lq in LoT.
    assert (D0 := rdist_nonneg L1 q (center t)). assert (P0 := rdist_nonneg L1 (fst p) (center t)).
    assert (T0 := rdist_nonneg L1 q (fst p)). simpl in D0, P0, T0.
    assert (Htri := dist_triangle L1 q (fst p) (center t) Lqp Lp). simpl in Htri.
    assert (H0 : 0 <= (1 - u) ^ (n + 1)) by (apply pow_le; lra).
    rewrite node_bound_border. fold n. simpl to_r. simpl rdist. simpl dist in *.
    apply (border_bound_computed_lin n (n + 1) _ _ (l1d R_ops q (center t)) (l1d R_ops (fst p) (center t)) (l1d R_ops q (fst p))); auto.
    + rewrite plus_INR. simpl. lra.
    + eapply Rle_trans; [|exact LoD]. apply Rmult_le_pos; assumption.
    + eapply Rle_trans; [|exact Hr]. eapply Rle_trans; [|exact LoP]. apply Rmult_le_pos; assumption.
    + lra.
  - (* Linf *)
    intros n Hn1 HKu Hinv Hp Lq Lp.
    assert (U0 := u_pos). assert (N0 : 0 <= INR n) by apply pos_INR. assert (Hu1 : u <= 1) by nra.
    assert (N1 : 1 <= INR n) by (change 1 with (INR 1); apply le_INR; exact Hn1).
    assert (Lqp : length q = length (fst p)) by lia.
    assert (Hr : dist SM_ops Linf (fst p) (center t) <= radius t) by (apply Hinv; exact Hp).
    destruct (linfd_std_bounds q (center t) Lq Hu1) as [LoD UpD].
    destruct (linfd_std_bounds (fst p) (center t) Lp Hu1) as [LoP _].
    destruct (linfd_std_bounds q (fst p) Lqp Hu1) as [LoT _].
    assert (D0 := rdist_nonneg Linf q (center t)). assert (P0 := rdist_nonneg Linf (fst p) (center t)).
    assert (T0 := rdist_nonneg Linf q (fst p)). simpl in D0, P0, T0.
    assert (Htri := dist_triangle Linf q (fst p) (center t) Lqp Lp). simpl in Htri.
    rewrite node_bound_border. fold n. simpl to_r. simpl rdist. simpl dist in *.
    apply (border_bound_computed_lin n 1 _ _ (linfd R_ops q (center t)) (linfd R_ops (fst p) (center t)) (linfd R_ops q (fst p))); auto;
      simpl pow; rewrite ?Rmult_1_r; try lra.
    + simpl. lra.
    + eapply Rle_trans; [|exact LoD]. apply Rmult_le_pos; lra.
    + eapply Rle_trans; [|exact Hr]. eapply Rle_trans; [|exact LoP]. apply Rmult_le_pos; lra.
Qed.
End StdModel.


(** * Flocq: precision 53, round to nearest even, unbounded exponents *)
Definition rnd53 : R -> R := round radix2 (FLX_exp 53) ZnearestE.
Definition u53 : R := / 2 * bpow radix2 (- (53) + 1).

Lemma u53_pos : 0 <= u53.
Proof. unfold u53. assert (H := bpow_ge_0 radix2 (-(53) + 1)). lra. Qed.
Lemma u53_eq : u53 = / 9007199254740992.
Proof. unfold u53. simpl. change (Z.pow_pos 2 52) with 4503599627370496%Z. field. Qed.
Lemma rnd53_rel x : Rabs (rnd53 x - x) <= u53 * Rabs x.
Proof. apply relative_error_N_FLX. reflexivity. Qed.
Lemma rnd53_idem x : rnd53 (rnd53 x) = rnd53 x.
Proof.
  apply round_generic; [apply valid_rnd_N|].
  apply generic_format_round; [apply FLX_exp_valid; reflexivity | apply valid_rnd_N].
Qed.
Lemma rnd53_1 : rnd53 1 = 1.
Proof.
  apply round_generic; [apply valid_rnd_N|].
  change 1 with (bpow radix2 0). apply generic_format_bpow. unfold FLX_exp. lia.
Qed.

Definition FLX53_ops : NumOps R := SM_ops rnd53.
Definition eps53 : R := 2 * u53.

Lemma eps53_eq : eps53 = / 4503599627370496.
Proof. unfold eps53. rewrite u53_eq. field. Qed.

(* the dimension is small enough for the theorems: (d + 4) * 2^-53 <= 1/16, i.e. d + 4 <= 2^49 *)
Lemma dim_small_53 (n : nat) : (Z.of_nat n + 4 <= 562949953421312)%Z -> (INR n + 4) * u53 <= 1 / 16.
Proof.
  intros H. rewrite u53_eq. rewrite INR_IZR_INZ. apply IZR_le in H. rewrite plus_IZR in H. lra.
Qed.

(** the two node-level theorems at the Flocq instance *)
Lemma node_border_flx53 (m : metric) (e : R) (q : list R) (t : btree R) (p : list R * N) :
  let n := length (center t) in
  (Z.of_nat n + 4 <= 562949953421312)%Z -> 0 <= e -> e <= (INR n + 2) * u53 ->
  In p (tree_points t) -> length q = length (fst p) -> length (fst p) = n ->
  0 <= dist FLX53_ops m q (center t) -> 0 <= radius t ->
  Rabs (dist FLX53_ops m q (center t) - dist R_ops m q (center t)) <= e * dist R_ops m q (center t) ->
  dist R_ops m (fst p) (center t) * (1 - e) <= radius t ->
  border_bound FLX53_ops eps53 n (dist FLX53_ops m q (center t)) (radius t) <= dist R_ops m q (fst p).
Proof.
  intros n Hn He0 He. intros. apply (node_border_std rnd53 u53 u53_pos rnd53_rel m e); auto.
  - apply dim_small_53; exact Hn.
  - fold n. lra.
Qed.

Lemma node_border_l2_flx53 (q : list R) (t : btree R) (p : list R * N) :
  let n := length (center t) in
  (Z.of_nat n + 4 <= 562949953421312)%Z ->
  (forall p', In p' (tree_points t) -> dist FLX53_ops L2 (fst p') (center t) <= radius t) ->
  In p (tree_points t) -> length q = n -> length (fst p) = n ->
  border_bound FLX53_ops eps53 n (dist FLX53_ops L2 q (center t)) (radius t) <= dist R_ops L2 q (fst p).
Proof.
  intros n Hn. intros.
  apply (node_border_l2_std rnd53 u53 u53_pos rnd53_rel rnd53_idem); auto.
  apply dim_small_53; exact Hn.
Qed.

(** the reduced form that the search compares: squaring keeps the bound at or below the true
    reduced distance up to the one rounding of the square *)
Lemma node_bound_l2_flx53 (q : list R) (t : btree R) (p : list R * N) :
  let n := length (center t) in
  (Z.of_nat n + 4 <= 562949953421312)%Z ->
  (forall p', In p' (tree_points t) -> dist FLX53_ops L2 (fst p') (center t) <= radius t) ->
  In p (tree_points t) -> length q = n -> length (fst p) = n ->
  node_bound FLX53_ops eps53 L2 q t <= (1 + u53) * rdist R_ops L2 q (fst p).
Proof.
  intros n Hn Hinv Hp Lq Lp. rewrite node_bound_border. fold n.
  assert (Hb := node_border_l2_flx53 q t p Hn Hinv Hp Lq Lp). fold n in Hb.
  set (b := border_bound FLX53_ops eps53 n (dist FLX53_ops L2 q (center t)) (radius t)) in *.
  assert (B0 : 0 <= b).
  { unfold b, border_bound. simpl. destruct (Rltb _ 0) eqn:E; [lra | apply Rltb_false in E; exact E]. }
  simpl to_r.
  assert (Q0 : 0 <= b * b) by nra.
  destruct (rnd_bounds rnd53 u53 rnd53_rel (b * b) Q0) as [_ U]. eapply Rle_trans; [exact U|].
  apply Rmult_le_compat_l; [assert (H := u53_pos); lra|].
  rewrite <- (to_r_dist L2 q (fst p)).
  change (to_r R_ops L2 (dist R_ops L2 q (fst p))) with (dist R_ops L2 q (fst p) * dist R_ops L2 q (fst p)).
  clearbody b. apply Rmult_le_compat; lra.
Qed.

(** * non-vacuity *)
(* the standard model is inhabited: exact arithmetic satisfies it for every u >= 0 ... *)
Example std_model_exact u : 0 <= u -> (forall x, Rabs ((fun y : R => y) x - x) <= u * Rabs x) /\ (forall x : R, (fun y : R => y) ((fun y : R => y) x) = x).
Proof.
  intros Hu. split; [|reflexivity]. intros x. replace (x - x) with 0 by ring. rewrite Rabs_R0.
  apply Rmult_le_pos; [exact Hu | apply Rabs_pos].
Qed.

(* ... and the hypotheses of the L2 theorem hold at the Flocq instance for a ball of radius 1 around 0
   holding the point 1, with the query 3 (true distance 2): the theorem applies *)
Example flx53_instance :
  let t := BLeaf [0] 1 [([1], 0%N)] in
  (forall p', In p' (tree_points t) -> dist FLX53_ops L2 (fst p') (center t) <= radius t) /\
  border_bound FLX53_ops eps53 1 (dist FLX53_ops L2 [3] (center t)) (radius t) <= 2.
Proof.
  intros t.
  assert (Inv : forall p', In p' (tree_points t) -> dist FLX53_ops L2 (fst p') (center t) <= radius t).
  { intros p' [H | []]. subst p'. simpl. unfold sq_l2. simpl.
    rewrite Rminus_0_r, rnd53_1, Rmult_1_r, rnd53_1, Rplus_0_l, rnd53_1, sqrt_1, rnd53_1. lra. }
  split; [exact Inv|].
  assert (H := node_border_l2_flx53 [3] t ([1], 0%N)). simpl in H.
  assert (E : dist R_ops L2 [3] [1] = 2).
  { simpl. unfold sq_l2. simpl. replace (0 + (3 - 1) * (3 - 1)) with (2 * 2) by ring. apply sqrt_square. lra. }
  rewrite <- E. apply H; auto. lia.
Qed.

(** * the variant of seeded change C07-c: margin relative to (dist - radius) only *)
(* exact squared Euclidean distance of two binary64 points *)
Definition sq_l2_Q (a b : list PrimFloat.float) : Q :=
  fold_left (fun acc xy => Qred (acc + (f64_Q (fst xy) - f64_Q (snd xy)) * (f64_Q (fst xy) - f64_Q (snd xy))))
            (combine a b) 0%Q.

Definition w_eps : PrimFloat.float := 0x1p-52%float.
Definition w_X : list (list PrimFloat.float) := [[1; 1]; [0; 0]]%float.
Definition w_t : btree PrimFloat.float := bt_new B64_ops L2 2 w_X.
Definition w_q : list PrimFloat.float := [0x1.002p+0; 0x1.002p+0]%float.
Definition w_p : list PrimFloat.float * N := ([1; 1]%float, 0%N).

(* the leaf {(1,1), (0,0)} (centre (1/2,1/2), radius fl(sqrt(1/2))) and the query (1+2^-11, 1+2^-11):
   - the tree is the one the model builds and satisfies the sphere invariant as computed;
   - the variant bound is strictly above the computed reduced distance 2^-21 to the stored point (1,1)
     (so a range query whose reduced radius lies between the two prunes the leaf and loses the point),
   - it is also above the exact distance: bound^2 > (exact squared distance), in rationals;
   - the bound of the repaired code stays at or below the computed reduced distance. *)
Lemma rel_margin_witness :
  tree_inv B64_ops L2 w_t = true /\
  In w_p (tree_points w_t) /\
  PrimFloat.ltb (rdist B64_ops L2 w_q (fst w_p)) (node_bound_rel B64_ops w_eps L2 w_q w_t) = true /\
  (let b := f64_Q (border_bound_rel B64_ops w_eps 2 (dist B64_ops L2 w_q (center w_t)) (radius w_t)) in
   Qltb (sq_l2_Q w_q (fst w_p)) (b * b) = true) /\
  PrimFloat.leb (node_bound B64_ops w_eps L2 w_q w_t) (rdist B64_ops L2 w_q (fst w_p)) = true /\
  (* the first test of the search loop with the variant bound and the reduced radius 2^-21 * (1 + 2^-51):
     the root is dropped although (1,1) is strictly inside *)
  (let rr := 0x1.0000000000002p-21%float in
   PrimFloat.ltb (rdist B64_ops L2 w_q (fst w_p)) rr = true /\
   ge_max B64_ops (node_bound_rel B64_ops w_eps L2 w_q w_t) (Some rr) = true /\
   ge_max B64_ops (node_bound B64_ops w_eps L2 w_q w_t) (Some rr) = false).
Proof.
  repeat split; try (vm_compute; reflexivity).
  vm_compute. left. reflexivity.
Qed.

(* in exact arithmetic (which satisfies the rounding model) the variant is refuted as well: numbers
   that meet every hypothesis of [border_bound_std] (dimension 1, e = 3u, u = 2^-53) with the variant
   bound strictly above the true distance *)
Lemma border_rel_std_refuted :
  exists (T D P dc rr : R),
    let u := u53 in let e := 3 * u in
    0 <= T /\ 0 <= D /\ 0 <= P /\ D <= T + P /\ 0 <= dc /\ 0 <= rr /\
    Rabs (dc - D) <= e * D /\ P * (1 - e) <= rr /\
    T < border_bound_rel (SM_ops (fun x => x)) (2 * u) 1 dc rr /\
    border_bound (SM_ops (fun x => x)) (2 * u) 1 dc rr <= T.
Proof.
  exists u53, (1 + u53), 1, ((1 + u53) * (1 + 3 * u53)), 1.
  assert (U := u53_eq). assert (P := u53_pos).
  assert (Us : u53 <= / 1024) by (rewrite U; lra).
  cbv zeta. repeat split; try lra; try nra.
  - rewrite Rabs_pos_eq; nra.
  - unfold border_bound_rel. simpl. replace (0 + 1 + 1 + 1 + 1 + 1) with 5 by ring.
    match goal with |- context [Rltb ?b 0] => destruct (Rltb b 0) eqn:E end.
    + apply Rltb_true in E. nra.
    + nra.
  - unfold border_bound. simpl. replace (0 + 1 + 1 + 1 + 1 + 1) with 5 by ring.
    match goal with |- context [Rltb ?b 0] => destruct (Rltb b 0) eqn:E end.
    + lra.
    + nra.
Qed.

(** * the underflow regime (finding F-C07-1): what the standard model leaves out *)
(* batch {0, 60 * 2^-537} on the line, one leaf (leaf size 2), query 60.7002 * 2^-537, radius 2^-537:
   squared distances are a few hundred quanta of 2^-1074, the computed centre distance is off by a
   relative 3e-4, and the bound (1 quantum) reaches the reduced radius although the stored point
   60 * 2^-537 has the computed reduced distance 0 from the query *)
Definition uw_X : list (list PrimFloat.float) := [[0]; [0x1.ep-532]]%float.
Definition uw_q : list PrimFloat.float := [0x1.e59a027525461p-532]%float.
Definition uw_r : PrimFloat.float := 0x1p-537%float.
Definition uw_t : btree PrimFloat.float := bt_new B64_ops L2 2 uw_X.

Lemma underflow_witness :
  tree_inv B64_ops L2 uw_t = true /\
  map snd (linear_range B64_ops L2 uw_q uw_r uw_X) = [1%N] /\
  map snd (bt_range B64_ops w_eps L2 uw_t 2 uw_q uw_r) = [] /\
  range_ok B64_ops f64_biteq (dq_of B64_ops L2 uw_q) (to_r B64_ops L2 uw_r) uw_X
           (bt_range B64_ops w_eps L2 uw_t 2 uw_q uw_r) = false /\
  range_ok B64_ops f64_biteq (dq_of B64_ops L2 uw_q) (to_r B64_ops L2 uw_r) uw_X
           (linear_range B64_ops L2 uw_q uw_r uw_X) = true.
Proof. repeat split; vm_compute; reflexivity. Qed.
