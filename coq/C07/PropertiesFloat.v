(** C07 - property theorems about the ball tree's pruning bound in floating-point arithmetic
    (statements only; proofs are in C07/FloatBound.v).

    Vocabulary (C07/FloatBound.v):
      SM_ops rnd           - the NumOps instance "real numbers, every +, -, *, /, sqrt followed by the
                             rounding function rnd" (comparisons exact, small integers exact);
      border_bound o eps dim d r
                           - BallTreeInner::rdistance before dist_to_rdist, in the arithmetic o:
                             max(0, (d - r) - ((d + r) * eps) * (dim + 4));
      border_bound_rel     - the variant whose margin is ((d - r) * eps) * (dim + 4) (seeded change C07-c);
      rnd53, u53, eps53    - Flocq's round-to-nearest-even at precision 53 with unbounded exponents
                             (FLX), u53 = 2^-53, eps53 = 2^-52 = f64::EPSILON;
      FLX53_ops            - SM_ops rnd53: binary64 arithmetic without underflow / overflow.
      InvC rnd m t         - the sphere invariant of every node of t AS COMPUTED in SM_ops rnd, metric m: the
                             computed distance of every stored point from the node's centre is <= the
                             stored radius (C07/FloatSearch.v; decided by the executable tree_inv).
    D = dist(q, centre), P = dist(p, centre), T = dist(q, p) are TRUE (real) distances of the points;
    dc, rr are the computed centre distance and the stored radius. *)
From Coq Require Import List NArith ZArith QArith Reals Floats Lra.
From Coq Require Import Permutation.
From LinfaVerif Require Import Common.Num Common.QF C07.Model C07.Proofs C07.FloatBound C07.FloatBuild C07.FloatSearch.
Import ListNotations.
Local Open Scope R_scope.

(** The model's node bound is the reduced form of [border_bound], in every arithmetic (so the
    theorems below speak about the term that is run against the implementation). *)
Theorem bt_node_bound_is_border : forall F (o : NumOps F) eps m q t,
  node_bound o eps m q t = to_r o m (border_bound o eps (length (center t)) (dist o m q (center t)) (radius t)).
Proof. intros. apply node_bound_border. Qed.

(** Soundness of the pruning bound under the standard rounding model.  For every rounding function
    of relative error u, dimension dim with (dim+4)u <= 1/16, and relative accuracy e <= (dim+2)u of
    the two inputs: if the computed centre distance dc is within e of the true distance D and the
    stored radius rr is at least (1-e) times the true distance P of a stored point from the centre,
    then the computed bound (five roundings, margin (dc+rr) * 2u * (dim+4)) does not exceed any T >= 0
    with D <= T + P - in particular the true distance from the query to that stored point. *)
Theorem bt_bound_float_sound :
  forall (rnd : R -> R) (u : R), 0 <= u -> (forall x, Rabs (rnd x - x) <= u * Rabs x) ->
  forall (dim : nat) (e T D P dc rr : R),
  (INR dim + 4) * u <= 1 / 16 -> 0 <= e -> e <= (INR dim + 2) * u ->
  0 <= T -> 0 <= D -> 0 <= P -> D <= T + P -> 0 <= dc -> 0 <= rr ->
  Rabs (dc - D) <= e * D -> P * (1 - e) <= rr ->
  border_bound (SM_ops rnd) (2 * u) dim dc rr <= T.
Proof.
  intros rnd u Hu Hr dim e T D P dc rr HK He0 He. intros.
  apply (border_bound_std rnd u Hu Hr dim e T D P); auto. lra.
Qed.

(** ... stated for a node of a tree and a stored point below it, any of the metrics L1, L2, Linf
    (the triangle inequality is the proved [metric_triangle]). *)
Theorem bt_node_bound_float_sound :
  forall (rnd : R -> R) (u : R), 0 <= u -> (forall x, Rabs (rnd x - x) <= u * Rabs x) ->
  forall (m : metric) (e : R) (q : list R) (t : btree R) (p : list R * N),
  let dim := length (center t) in
  (INR dim + 4) * u <= 1 / 16 -> 0 <= e -> e <= (INR dim + 2) * u ->
  In p (tree_points t) -> length q = length (fst p) -> length (fst p) = dim ->
  0 <= dist (SM_ops rnd) m q (center t) -> 0 <= radius t ->
  Rabs (dist (SM_ops rnd) m q (center t) - dist R_ops m q (center t)) <= e * dist R_ops m q (center t) ->
  dist R_ops m (fst p) (center t) * (1 - e) <= radius t ->
  border_bound (SM_ops rnd) (2 * u) dim (dist (SM_ops rnd) m q (center t)) (radius t) <= dist R_ops m q (fst p).
Proof.
  intros rnd u Hu Hr m e q t p dim HK He0 He. intros.
  apply (node_border_std rnd u Hu Hr m e); auto. fold dim. lra.
Qed.

(** The accuracy hypothesis is a theorem for L2: the Euclidean distance as linfa computes it
    (sequential sum of squared differences, then a square root; the first addition 0 + x is exact
    because rounding is idempotent) has relative error at most (dim+2)u. *)
Theorem l2_distance_rounding_error :
  forall (rnd : R -> R) (u : R), 0 <= u -> (forall x, Rabs (rnd x - x) <= u * Rabs x) ->
  (forall x, rnd (rnd x) = rnd x) ->
  forall a b : list R, length a = length b -> (INR (length a) + 2) * u <= 1 / 8 ->
  Rabs (dist (SM_ops rnd) L2 a b - dist R_ops L2 a b) <= (INR (length a) + 2) * u * dist R_ops L2 a b.
Proof. exact l2_dist_std_error. Qed.

(** Hence for L2 the bound is sound for every tree whose sphere invariant holds AS COMPUTED (this is
    the predicate tree_inv that the correspondence evaluates on the dump of the implementation's
    tree): no hypothesis about the accuracy of the computed numbers is left. *)
Theorem bt_bound_float_sound_l2 :
  forall (rnd : R -> R) (u : R), 0 <= u -> (forall x, Rabs (rnd x - x) <= u * Rabs x) ->
  (forall x, rnd (rnd x) = rnd x) ->
  forall (q : list R) (t : btree R) (p : list R * N),
  let dim := length (center t) in
  (INR dim + 4) * u <= 1 / 16 ->
  (forall p', In p' (tree_points t) -> dist (SM_ops rnd) L2 (fst p') (center t) <= radius t) ->
  In p (tree_points t) -> length q = dim -> length (fst p) = dim ->
  border_bound (SM_ops rnd) (2 * u) dim (dist (SM_ops rnd) L2 q (center t)) (radius t) <= dist R_ops L2 q (fst p).
Proof. exact node_border_l2_std. Qed.

(** Flocq's round-to-nearest-even at precision 53 (unbounded exponent range) is such a rounding
    function, with u = 2^-53; 2u = 2^-52 is the f64::EPSILON of the code. *)
Theorem flx53_standard_model :
  0 <= u53 /\ u53 = / 9007199254740992 /\ eps53 = / 4503599627370496 /\
  (forall x, Rabs (rnd53 x - x) <= u53 * Rabs x) /\ (forall x, rnd53 (rnd53 x) = rnd53 x).
Proof. exact (conj u53_pos (conj u53_eq (conj eps53_eq (conj rnd53_rel rnd53_idem)))). Qed.

(** The L2 theorem at that instance: in binary64 arithmetic without underflow / overflow, for every
    dimension up to 2^49 - 4, the bound computed for a node never exceeds the true Euclidean distance
    from the query to a point stored below the node ... *)
Theorem bt_bound_float_sound_l2_flx53 :
  forall (q : list R) (t : btree R) (p : list R * N),
  let dim := length (center t) in
  (Z.of_nat dim + 4 <= 562949953421312)%Z ->
  (forall p', In p' (tree_points t) -> dist FLX53_ops L2 (fst p') (center t) <= radius t) ->
  In p (tree_points t) -> length q = dim -> length (fst p) = dim ->
  border_bound FLX53_ops eps53 dim (dist FLX53_ops L2 q (center t)) (radius t) <= dist R_ops L2 q (fst p).
Proof. exact node_border_l2_flx53. Qed.

(** ... and the reduced (squared, rounded once more) value that the search compares is at most
    (1 + 2^-53) times the true squared distance. *)
Theorem bt_node_bound_float_sound_l2_flx53 :
  forall (q : list R) (t : btree R) (p : list R * N),
  let dim := length (center t) in
  (Z.of_nat dim + 4 <= 562949953421312)%Z ->
  (forall p', In p' (tree_points t) -> dist FLX53_ops L2 (fst p') (center t) <= radius t) ->
  In p (tree_points t) -> length q = dim -> length (fst p) = dim ->
  node_bound FLX53_ops eps53 L2 q t <= (1 + u53) * rdist R_ops L2 q (fst p).
Proof. exact node_bound_l2_flx53. Qed.

(** The variant with the margin relative to (dist - radius) is refuted by a binary64 input, evaluated
    with Coq's primitive floats: a tree built by the model that satisfies the sphere invariant, a
    stored point p and a query q such that
    - the variant bound is strictly above the computed reduced distance from q to p,
    - its square is strictly above the exact squared distance (rational arithmetic),
    - a range query with a reduced radius strictly above the computed reduced distance of p is cut off
      at the root by the variant bound (ge_max is the first test of the search loop) and not by the
      repaired bound, which stays at or below the computed reduced distance. *)
Theorem bt_bound_rel_margin_refuted :
  exists (X : list (list PrimFloat.float)) (leaf : nat) (q : list PrimFloat.float) (p : list PrimFloat.float * N) (rr : PrimFloat.float),
    let o := B64_ops in let eps := 0x1p-52%float in
    let t := bt_new o L2 leaf X in
    tree_inv o L2 t = true /\ In p (tree_points t) /\ length q = length (fst p) /\
    PrimFloat.ltb (rdist o L2 q (fst p)) (node_bound_rel o eps L2 q t) = true /\
    (let b := f64_Q (border_bound_rel o eps (length (center t)) (dist o L2 q (center t)) (radius t)) in
     Qltb (sq_l2_Q q (fst p)) (b * b) = true) /\
    PrimFloat.leb (node_bound o eps L2 q t) (rdist o L2 q (fst p)) = true /\
    PrimFloat.ltb (rdist o L2 q (fst p)) rr = true /\
    ge_max o (node_bound_rel o eps L2 q t) (Some rr) = true /\
    ge_max o (node_bound o eps L2 q t) (Some rr) = false.
Proof.
  exists w_X, 2%nat, w_q, w_p, 0x1.0000000000002p-21%float.
  destruct rel_margin_witness as [H1 [H2 [H3 [H4 [H5 [H6 [H7 H8]]]]]]].
  cbv zeta. repeat split; assumption || reflexivity.
Qed.

(** The same variant fails the rounding-model theorem itself: numbers that satisfy every hypothesis
    of [bt_bound_float_sound] (exact arithmetic, dimension 1, e = 3u, u = 2^-53) for which the variant
    bound is strictly above the true distance while the repaired bound is not. *)
Theorem bt_bound_rel_margin_refuted_model :
  exists (T D P dc rr : R),
    let u := u53 in let e := 3 * u in
    0 <= T /\ 0 <= D /\ 0 <= P /\ D <= T + P /\ 0 <= dc /\ 0 <= rr /\
    Rabs (dc - D) <= e * D /\ P * (1 - e) <= rr /\
    T < border_bound_rel (SM_ops (fun x => x)) (2 * u) 1 dc rr /\
    border_bound (SM_ops (fun x => x)) (2 * u) 1 dc rr <= T.
Proof. exact border_rel_std_refuted. Qed.

(** * Computed against computed, and the whole search in rounded arithmetic (L1, L2, Linf) *)

(** The number the search actually compares: the reduced bound of a node, computed in the rounded
    arithmetic, never exceeds the reduced distance from the query to a point stored below the node AS
    COMPUTED IN THE SAME ARITHMETIC (both sides carry their rounding errors; the margin of the
    repaired code covers the sum of them) - for each of the metrics L1, L2, Linf and every dimension
    1 <= dim with (dim+4)u <= 1/16. *)
Theorem bt_node_bound_float_computed_sound :
  forall (rnd : R -> R) (u : R), 0 <= u -> (forall x, Rabs (rnd x - x) <= u * Rabs x) ->
  (forall x, rnd (rnd x) = rnd x) ->
  forall (m : metric) (q : list R) (t : btree R) (p : list R * N),
  let dim := length (center t) in
  (1 <= dim)%nat -> (INR dim + 4) * u <= 1 / 16 ->
  (forall p', In p' (tree_points t) -> dist (SM_ops rnd) m (fst p') (center t) <= radius t) ->
  In p (tree_points t) -> length q = dim -> length (fst p) = dim ->
  node_bound (SM_ops rnd) (2 * u) m q t <= rdist (SM_ops rnd) m q (fst p).
Proof. exact node_bound_computed. Qed.

(** The executable checker that the correspondence evaluates on the dump of the implementation's
    tree decides the computed invariant. *)
Theorem tree_inv_decides_computed_invariant :
  forall (rnd : R -> R) (m : metric) (t : btree R), tree_inv (SM_ops rnd) m t = true -> InvC rnd m t.
Proof. exact tree_inv_InvC. Qed.

(** Hence the model's best-first search (nn_helper with its pruning and early exit), run in any
    arithmetic of the standard rounding model on any tree that satisfies the computed invariant and
    stores the rows of the batch, answers every k-nearest and every range query correctly with
    respect to the reduced distances computed in that arithmetic - i.e. by the criterion of the
    linear scan run in the same arithmetic. *)
Theorem bt_search_float_correct :
  forall (rnd : R -> R) (u : R), 0 <= u -> (forall x, Rabs (rnd x - x) <= u * Rabs x) ->
  (forall x, rnd (rnd x) = rnd x) ->
  forall (m : metric) (dim : nat) (q : list R) (X : list (list R)) (t : btree R) (k : nat) (r : R),
  (1 <= dim)%nat -> (INR dim + 4) * u <= 1 / 16 -> length q = dim ->
  InvC rnd m t -> dim_ok dim t -> Permutation (tree_points t) (enumerate X) ->
  is_knn (dq_of (SM_ops rnd) m q) k X (bt_knn (SM_ops rnd) (2 * u) m t (length X) q k) /\
  is_range (dq_of (SM_ops rnd) m q) (to_r (SM_ops rnd) m r) X (bt_range (SM_ops rnd) (2 * u) m t (length X) q r).
Proof.
  intros rnd u Hu Hr Hi m dim q X t k r Hd Hs Hq HI HD HP. split.
  - apply (bt_knn_float rnd u Hu Hr Hi m dim q Hd Hs Hq X t (conj HI HD) HP).
  - apply (bt_range_float rnd u Hu Hr Hi m dim q Hd Hs Hq X t (conj HI HD) HP).
Qed.

(** Interchangeability in rounded arithmetic: linear scan and ball tree, both run in the rounded
    arithmetic, return the same computed distances (k nearest) and the same rows (range). *)
Theorem linear_and_ball_tree_agree_float :
  forall (rnd : R -> R) (u : R), 0 <= u -> (forall x, Rabs (rnd x - x) <= u * Rabs x) ->
  (forall x, rnd (rnd x) = rnd x) ->
  forall (m : metric) (dim : nat) (q : list R) (X : list (list R)) (t : btree R) (k : nat) (r : R),
  (1 <= dim)%nat -> (INR dim + 4) * u <= 1 / 16 -> length q = dim ->
  InvC rnd m t -> dim_ok dim t -> Permutation (tree_points t) (enumerate X) ->
  map (dq_of (SM_ops rnd) m q) (linear_knn (SM_ops rnd) m q k X)
    = map (dq_of (SM_ops rnd) m q) (bt_knn (SM_ops rnd) (2 * u) m t (length X) q k) /\
  (forall p, In p (linear_range (SM_ops rnd) m q r X) <-> In p (bt_range (SM_ops rnd) (2 * u) m t (length X) q r)).
Proof.
  intros rnd u Hu Hr Hi m dim q X t k r Hd Hs Hq HI HD HP.
  apply (FloatSearch.linear_and_ball_tree_agree_float rnd u Hu Hr Hi m dim q Hd Hs Hq X t (conj HI HD) HP).
Qed.

(** ... in particular in binary64 arithmetic without underflow / overflow (Flocq FLX, precision 53,
    eps53 = 2^-52 = f64::EPSILON), for every dimension from 1 to 2^49 - 4. *)
Theorem linear_and_ball_tree_agree_flx53 :
  forall (m : metric) (dim : nat) (q : list R) (X : list (list R)) (t : btree R) (k : nat) (r : R),
  (1 <= dim)%nat -> (Z.of_nat dim + 4 <= 562949953421312)%Z -> length q = dim ->
  InvC rnd53 m t -> dim_ok dim t -> Permutation (tree_points t) (enumerate X) ->
  map (dq_of FLX53_ops m q) (linear_knn FLX53_ops m q k X)
    = map (dq_of FLX53_ops m q) (bt_knn FLX53_ops eps53 m t (length X) q k) /\
  (forall p, In p (linear_range FLX53_ops m q r X) <-> In p (bt_range FLX53_ops eps53 m t (length X) q r)).
Proof.
  intros m dim q X t k r Hd Hs Hq HI HD HP.
  apply (linear_and_ball_tree_agree_float rnd53 u53 u53_pos rnd53_rel rnd53_idem m dim q X t k r Hd (dim_small_53 dim Hs) Hq HI HD HP).
Qed.

(** * End to end in rounded arithmetic *)

(** The construction (partition by order_stat's selection, leaf means, calc_radius), run in the rounded
    arithmetic with a rounding that is also monotone, yields a tree that satisfies the computed
    invariant, has consistent dimensions and stores the rows of the batch ... *)
Theorem bt_build_float_inv :
  forall (rnd : R -> R), (forall x y, x <= y -> rnd x <= rnd y) ->
  forall (m : metric) (leaf dim : nat) (X : list (list R)),
  (1 <= leaf)%nat -> (forall x, In x X -> length x = dim) ->
  InvC rnd m (bt_new (SM_ops rnd) m leaf X) /\ dim_ok dim (bt_new (SM_ops rnd) m leaf X) /\
  Permutation (tree_points (bt_new (SM_ops rnd) m leaf X)) (enumerate X).
Proof.
  intros rnd Hm m leaf dim X Hl HX.
  destruct (FloatBuild.bt_new_wf_o (SM_ops rnd) eq_refl (SM_sqrt_mono rnd Hm) m leaf dim X Hl HX) as [H1 [H2 H3]].
  split; [apply InvO_InvC; exact H1 | split; assumption].
Qed.

(** ... so that, for every batch of points of one dimension 1 <= dim with (dim+4)u <= 1/16, every leaf
    size >= 1, metric L1 / L2 / Linf, query, k and radius: the ball tree of the model - built and
    searched in the rounded arithmetic - answers correctly with respect to the computed distances, and
    returns the same computed distances (k nearest) and the same rows (range) as the linear scan run
    in the same arithmetic. *)
Theorem ball_tree_float_end_to_end :
  forall (rnd : R -> R) (u : R), 0 <= u -> (forall x, Rabs (rnd x - x) <= u * Rabs x) ->
  (forall x, rnd (rnd x) = rnd x) -> (forall x y, x <= y -> rnd x <= rnd y) ->
  forall (m : metric) (leaf dim : nat) (X : list (list R)) (q : list R) (k : nat) (r : R),
  (1 <= leaf)%nat -> (1 <= dim)%nat -> (INR dim + 4) * u <= 1 / 16 ->
  (forall x, In x X -> length x = dim) -> length q = dim ->
  let o := SM_ops rnd in let t := bt_new o m leaf X in
  is_knn (dq_of o m q) k X (bt_knn o (2 * u) m t (length X) q k) /\
  is_range (dq_of o m q) (to_r o m r) X (bt_range o (2 * u) m t (length X) q r) /\
  map (dq_of o m q) (linear_knn o m q k X) = map (dq_of o m q) (bt_knn o (2 * u) m t (length X) q k) /\
  (forall p, In p (linear_range o m q r X) <-> In p (bt_range o (2 * u) m t (length X) q r)).
Proof.
  intros rnd u Hu Hr Hi Hm m leaf dim X q k r Hl Hd Hs HX Hq o t.
  destruct (ball_tree_float_correct rnd u Hu Hr Hi Hm m leaf dim X q Hl Hd Hs HX Hq k r) as [A B].
  destruct (linear_and_ball_tree_agree_float_e2e rnd u Hu Hr Hi Hm m leaf dim X q Hl Hd Hs HX Hq k r) as [C D].
  exact (conj A (conj B (conj C D))).
Qed.

(** Flocq's precision-53 round-to-nearest-even is monotone as well: the statement above holds in
    binary64 arithmetic without underflow / overflow for every dimension from 1 to 2^49 - 4. *)
Theorem ball_tree_flx53_end_to_end :
  forall (m : metric) (leaf dim : nat) (X : list (list R)) (q : list R) (k : nat) (r : R),
  (1 <= leaf)%nat -> (1 <= dim)%nat -> (Z.of_nat dim + 4 <= 562949953421312)%Z ->
  (forall x, In x X -> length x = dim) -> length q = dim ->
  let t := bt_new FLX53_ops m leaf X in
  is_knn (dq_of FLX53_ops m q) k X (bt_knn FLX53_ops eps53 m t (length X) q k) /\
  is_range (dq_of FLX53_ops m q) (to_r FLX53_ops m r) X (bt_range FLX53_ops eps53 m t (length X) q r) /\
  map (dq_of FLX53_ops m q) (linear_knn FLX53_ops m q k X) = map (dq_of FLX53_ops m q) (bt_knn FLX53_ops eps53 m t (length X) q k) /\
  (forall p, In p (linear_range FLX53_ops m q r X) <-> In p (bt_range FLX53_ops eps53 m t (length X) q r)).
Proof.
  intros m leaf dim X q k r Hl Hd Hs HX Hq.
  exact (ball_tree_float_end_to_end rnd53 u53 u53_pos rnd53_rel rnd53_idem rnd53_mono m leaf dim X q k r Hl Hd (dim_small_53 dim Hs) HX Hq).
Qed.

(** * Outside the rounding model: underflow (finding F-C07-1) *)

(** The standard model has no underflow.  In binary64 itself the model of the ball tree (which the
    correspondence ties to the implementation bit for bit) loses a point when squared differences
    fall below the normal range: a batch, leaf size, query and radius, evaluated with Coq's primitive
    floats, for which the tree satisfies the computed sphere invariant, the linear scan returns row 1
    (accepted by the judge range_ok), and the ball tree returns nothing (rejected by the judge).
    [linear_and_ball_tree_agree_flx53] is the counterpart outside this regime. *)
Theorem bt_range_underflow_refuted :
  exists (X : list (list PrimFloat.float)) (leaf : nat) (q : list PrimFloat.float) (r : PrimFloat.float),
    let o := B64_ops in let eps := 0x1p-52%float in
    let t := bt_new o L2 leaf X in
    tree_inv o L2 t = true /\
    map snd (linear_range o L2 q r X) = [1%N] /\
    map snd (bt_range o eps L2 t (length X) q r) = [] /\
    range_ok o f64_biteq (dq_of o L2 q) (to_r o L2 r) X (bt_range o eps L2 t (length X) q r) = false /\
    range_ok o f64_biteq (dq_of o L2 q) (to_r o L2 r) X (linear_range o L2 q r X) = true.
Proof. exists uw_X, 2%nat, uw_q, uw_r. exact underflow_witness. Qed.
