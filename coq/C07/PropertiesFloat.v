(** C07 - property theorems about the ball tree's pruning bound in floating-point arithmetic
    (statements only; proofs are in C07/FloatBound.v).

    Vocabulary (C07/FloatBound.v):
      SM_ops rnd           - the NumOps instance "real numbers, every +, -, *, /, sqrt followed by the
                             rounding function rnd" (comparisons exact, small integers exact);
      border_bound o eps dim d r
                           - BallTreeInner::rdistance before dist_to_rdist, in the arithmetic o:
                             max(0, (d - r) - ((d + r) * eps) * (dim + 4));
      border_bound_rel     - the variant whose margin is ((d - r) * eps) * (dim + 4) (seeded change C07-c);
      rnd53, u53, eps53    - Flocq's round-to-nearest-even at precision 53 with unbounded exponents
                             (FLX), u53 = 2^-53, eps53 = 2^-52 = f64::EPSILON;
      FLX53_ops            - SM_ops rnd53: binary64 arithmetic without underflow / overflow.
    D = dist(q, centre), P = dist(p, centre), T = dist(q, p) are TRUE (real) distances of the points;
    dc, rr are the computed centre distance and the stored radius. *)
From Coq Require Import List NArith ZArith QArith Reals Floats Lra.
From LinfaVerif Require Import Common.Num Common.QF C07.Model C07.Proofs C07.FloatBound.
Import ListNotations.
Local Open Scope R_scope.

(** The model's node bound is the reduced form of [border_bound], in every arithmetic (so the
    theorems below speak about the term that is run against the implementation). *)
Theorem bt_node_bound_is_border : forall F (o : NumOps F) eps m q t,
  node_bound o eps m q t = to_r o m (border_bound o eps (length (center t)) (dist o m q (center t)) (radius t)).
Proof. intros. apply node_bound_border. Qed.

(** Soundness of the pruning bound under the standard rounding model.  For every rounding function
    of relative error u, dimension dim with (dim+4)u <= 1/16, and relative accuracy e <= (dim+2)u of
    the two inputs: if the computed centre distance dc is within e of the true distance D and the
    stored radius rr is at least (1-e) times the true distance P of a stored point from the centre,
    then the computed bound (five roundings, margin (dc+rr) * 2u * (dim+4)) does not exceed any T >= 0
    with D <= T + P - in particular the true distance from the query to that stored point. *)
Theorem bt_bound_float_sound :
  forall (rnd : R -> R) (u : R), 0 <= u -> (forall x, Rabs (rnd x - x) <= u * Rabs x) ->
  forall (dim : nat) (e T D P dc rr : R),
  (INR dim + 4) * u <= 1 / 16 -> 0 <= e -> e <= (INR dim + 2) * u ->
  0 <= T -> 0 <= D -> 0 <= P -> D <= T + P -> 0 <= dc -> 0 <= rr ->
  Rabs (dc - D) <= e * D -> P * (1 - e) <= rr ->
  border_bound (SM_ops rnd) (2 * u) dim dc rr <= T.
Proof.
  intros rnd u Hu Hr dim e T D P dc rr HK He0 He. intros.
  apply (border_bound_std rnd u Hu Hr dim e T D P); auto. lra.
Qed.

(** ... stated for a node of a tree and a stored point below it, any of the metrics L1, L2, Linf
    (the triangle inequality is the proved [metric_triangle]). *)
Theorem bt_node_bound_float_sound :
  forall (rnd : R -> R) (u : R), 0 <= u -> (forall x, Rabs (rnd x - x) <= u * Rabs x) ->
  forall (m : metric) (e : R) (q : list R) (t : btree R) (p : list R * N),
  let dim := length (center t) in
  (INR dim + 4) * u <= 1 / 16 -> 0 <= e -> e <= (INR dim + 2) * u ->
  In p (tree_points t) -> length q = length (fst p) -> length (fst p) = dim ->
  0 <= dist (SM_ops rnd) m q (center t) -> 0 <= radius t ->
  Rabs (dist (SM_ops rnd) m q (center t) - dist R_ops m q (center t)) <= e * dist R_ops m q (center t) ->
  dist R_ops m (fst p) (center t) * (1 - e) <= radius t ->
  border_bound (SM_ops rnd) (2 * u) dim (dist (SM_ops rnd) m q (center t)) (radius t) <= dist R_ops m q (fst p).
Proof.
  intros rnd u Hu Hr m e q t p dim HK He0 He. intros.
  apply (node_border_std rnd u Hu Hr m e); auto. fold dim. lra.
Qed.

(** The accuracy hypothesis is a theorem for L2: the Euclidean distance as linfa computes it
    (sequential sum of squared differences, then a square root; the first addition 0 + x is exact
    because rounding is idempotent) has relative error at most (dim+2)u. *)
Theorem l2_distance_rounding_error :
  forall (rnd : R -> R) (u : R), 0 <= u -> (forall x, Rabs (rnd x - x) <= u * Rabs x) ->
  (forall x, rnd (rnd x) = rnd x) ->
  forall a b : list R, length a = length b -> (INR (length a) + 2) * u <= 1 / 8 ->
  Rabs (dist (SM_ops rnd) L2 a b - dist R_ops L2 a b) <= (INR (length a) + 2) * u * dist R_ops L2 a b.
Proof. exact l2_dist_std_error. Qed.

(** Hence for L2 the bound is sound for every tree whose sphere invariant holds AS COMPUTED (this is
    the predicate tree_inv that the correspondence evaluates on the dump of the implementation's
    tree): no hypothesis about the accuracy of the computed numbers is left. *)
Theorem bt_bound_float_sound_l2 :
  forall (rnd : R -> R) (u : R), 0 <= u -> (forall x, Rabs (rnd x - x) <= u * Rabs x) ->
  (forall x, rnd (rnd x) = rnd x) ->
  forall (q : list R) (t : btree R) (p : list R * N),
  let dim := length (center t) in
  (INR dim + 4) * u <= 1 / 16 ->
  (forall p', In p' (tree_points t) -> dist (SM_ops rnd) L2 (fst p') (center t) <= radius t) ->
  In p (tree_points t) -> length q = dim -> length (fst p) = dim ->
  border_bound (SM_ops rnd) (2 * u) dim (dist (SM_ops rnd) L2 q (center t)) (radius t) <= dist R_ops L2 q (fst p).
Proof. exact node_border_l2_std. Qed.

(** Flocq's round-to-nearest-even at precision 53 (unbounded exponent range) is such a rounding
    function, with u = 2^-53; 2u = 2^-52 is the f64::EPSILON of the code. *)
Theorem flx53_standard_model :
  0 <= u53 /\ u53 = / 9007199254740992 /\ eps53 = / 4503599627370496 /\
  (forall x, Rabs (rnd53 x - x) <= u53 * Rabs x) /\ (forall x, rnd53 (rnd53 x) = rnd53 x).
Proof. exact (conj u53_pos (conj u53_eq (conj eps53_eq (conj rnd53_rel rnd53_idem)))). Qed.

(** The L2 theorem at that instance: in binary64 arithmetic without underflow / overflow, for every
    dimension up to 2^49 - 4, the bound computed for a node never exceeds the true Euclidean distance
    from the query to a point stored below the node ... *)
Theorem bt_bound_float_sound_l2_flx53 :
  forall (q : list R) (t : btree R) (p : list R * N),
  let dim := length (center t) in
  (Z.of_nat dim + 4 <= 562949953421312)%Z ->
  (forall p', In p' (tree_points t) -> dist FLX53_ops L2 (fst p') (center t) <= radius t) ->
  In p (tree_points t) -> length q = dim -> length (fst p) = dim ->
  border_bound FLX53_ops eps53 dim (dist FLX53_ops L2 q (center t)) (radius t) <= dist R_ops L2 q (fst p).
Proof. exact node_border_l2_flx53. Qed.

(** ... and the reduced (squared, rounded once more) value that the search compares is at most
    (1 + 2^-53) times the true squared distance. *)
Theorem bt_node_bound_float_sound_l2_flx53 :
  forall (q : list R) (t : btree R) (p : list R * N),
  let dim := length (center t) in
  (Z.of_nat dim + 4 <= 562949953421312)%Z ->
  (forall p', In p' (tree_points t) -> dist FLX53_ops L2 (fst p') (center t) <= radius t) ->
  In p (tree_points t) -> length q = dim -> length (fst p) = dim ->
  node_bound FLX53_ops eps53 L2 q t <= (1 + u53) * rdist R_ops L2 q (fst p).
Proof. exact node_bound_l2_flx53. Qed.

(** The variant with the margin relative to (dist - radius) is refuted by a binary64 input, evaluated
    with Coq's primitive floats: a tree built by the model that satisfies the sphere invariant, a
    stored point p and a query q such that
    - the variant bound is strictly above the computed reduced distance from q to p,
    - its square is strictly above the exact squared distance (rational arithmetic),
    - a range query with a reduced radius strictly above the computed reduced distance of p is cut off
      at the root by the variant bound (ge_max is the first test of the search loop) and not by the
      repaired bound, which stays at or below the computed reduced distance. *)
Theorem bt_bound_rel_margin_refuted :
  exists (X : list (list PrimFloat.float)) (leaf : nat) (q : list PrimFloat.float) (p : list PrimFloat.float * N) (rr : PrimFloat.float),
    let o := B64_ops in let eps := 0x1p-52%float in
    let t := bt_new o L2 leaf X in
    tree_inv o L2 t = true /\ In p (tree_points t) /\ length q = length (fst p) /\
    PrimFloat.ltb (rdist o L2 q (fst p)) (node_bound_rel o eps L2 q t) = true /\
    (let b := f64_Q (border_bound_rel o eps (length (center t)) (dist o L2 q (center t)) (radius t)) in
     Qltb (sq_l2_Q q (fst p)) (b * b) = true) /\
    PrimFloat.leb (node_bound o eps L2 q t) (rdist o L2 q (fst p)) = true /\
    PrimFloat.ltb (rdist o L2 q (fst p)) rr = true /\
    ge_max o (node_bound_rel o eps L2 q t) (Some rr) = true /\
    ge_max o (node_bound o eps L2 q t) (Some rr) = false.
Proof.
  exists w_X, 2%nat, w_q, w_p, 0x1.0000000000002p-21%float.
  destruct rel_margin_witness as [H1 [H2 [H3 [H4 [H5 [H6 [H7 H8]]]]]]].
  cbv zeta. repeat split; assumption || reflexivity.
Qed.

(** The same variant fails the rounding-model theorem itself: numbers that satisfy every hypothesis
    of [bt_bound_float_sound] (exact arithmetic, dimension 1, e = 3u, u = 2^-53) for which the variant
    bound is strictly above the true distance while the repaired bound is not. *)
Theorem bt_bound_rel_margin_refuted_model :
  exists (T D P dc rr : R),
    let u := u53 in let e := 3 * u in
    0 <= T /\ 0 <= D /\ 0 <= P /\ D <= T + P /\ 0 <= dc /\ 0 <= rr /\
    Rabs (dc - D) <= e * D /\ P * (1 - e) <= rr /\
    T < border_bound_rel (SM_ops (fun x => x)) (2 * u) 1 dc rr /\
    border_bound (SM_ops (fun x => x)) (2 * u) 1 dc rr <= T.
Proof. exact border_rel_std_refuted. Qed.
