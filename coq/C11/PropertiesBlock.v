(** C11 - property theorems about the block (multi-task) coordinate descent (statements only; proofs in C11/Block.v).

    Notation.  Matrices are lists of rows: the targets Y and the residual R are n x t (samples x tasks), the
    coefficient matrix W is p x t (one row per feature), the design is given by its p feature columns [cols].
    [mshape n t M]: M has n rows of length t.  [mres cols Y W] = Y - sum_j x_j (x) W_j = Y - X W, the residual
    matrix; [xtr t x R] = x^T R (a t-vector); [trans t M]: the t columns of M.
    [mobjective cols (trans t Y) l1 l2 (trans t W)]
        = sum_k 1/2 |y_k - X w_k|^2 + l1 sum_j |W_j|_2 + l2/2 |W|_F^2
    is n times the objective documented by MultiTaskElasticNet for l1 = n*l1_ratio*penalty,
    l2 = n*(1-l1_ratio)*penalty (Y: the centred targets) - the same term [group_kkt_eps_optimal] and
    [mtl_ok_sound] of C11/Properties.v speak about.  [bcd_sweep] is the term of C11/Model.v that is replayed
    bit for bit at binary64 against the implementation, here over the reals with [RXe e]: e is the tolerance
    of approx::abs_diff_eq! in the test that skips columns of tiny norm (2^-52 in the implementation,
    [RX] = [RXe 2^-52]; e = 0 reads `abs_diff_eq!(norm, 0)` as `norm = 0`).  The rank-one residual updates are
    guarded by the exact test `norm != 0` since the repair of finding F52 (/repo 8010f90);
    [bcd_sweep_absdiff] is the sweep with the earlier guard `abs_diff_ne!(norm, 0)`, kept for the witness of
    that finding, and [rband_free e W] (no row of W has its Euclidean norm in the band 0 < |W_j| <= e) is the
    side condition that sweep needed.  [group_cond C l1 l2 w 0]: the exact first-order condition of row w with correlation
    C = x_j^T R (|C - l2 w| <= l1 if w = 0, C - l2 w = l1 w/|w| otherwise). *)
From Coq Require Import List Reals.
From LinfaVerif Require Import Common.Num Common.NdSum Common.QF Common.Convex C11.Model C11.Proofs C11.Descent C11.Block.
Import ListNotations.
Local Open Scope R_scope.

(** T2.  The block update minimises the objective over its row:
    g(v) = 1/2 nj |v|^2 - <tmp, v> + l1 |v|_2 + l2/2 |v|^2 is the objective as a function of W_j (up to a
    constant), tmp = x_j^T (R + x_j (x) W_j), nj = |x_j|^2; [wn] is literally what the model computes,
    `block_soft_thresholding(tmp, n*l1_ratio*penalty) / (norm_cols_x[j] + n*(1-l1_ratio)*penalty)`. *)
Theorem bcd_update_minimises_row : forall (l1r pen nF nj : R) (tmp v : list R),
  0 <= nF * l1r * pen -> 0 <= nF * (1 - l1r) * pen -> 0 <= nj -> 0 < nj + nF * (1 - l1r) * pen -> length v = length tmp ->
  let wn := map (fun u => div R_ops u (add R_ops nj (mul R_ops (mul R_ops nF (sub R_ops (one R_ops) l1r)) pen)))
                (block_soft_thresholding R_ops tmp (mul R_ops (mul R_ops nF l1r) pen)) in
  let g u := / 2 * nj * sq u - Rdot tmp u + gpen1 (nF * l1r * pen) (nF * (1 - l1r) * pen) u in
  g wn <= g v.
Proof. exact Block.bcd_update_minimises_row. Qed.

(** T2.  For every input and every tolerance e >= 0 of the column-skipping test: one sweep
    `for j in 0..n_features` of block_coordinate_descent started with the true residual matrix never increases
    the multi-task objective and returns the true residual matrix of the new coefficients (columns with
    |x_j|^2 <= e are skipped: row and residual untouched) ... *)
Theorem bcd_sweep_noninc : forall (cc t1 : bool) (l1r pen nF e : R) (n t : nat) (cols Y W : list (list R))
                                  (wmax dwmax : R) (W2 R2 : list (list R)) (m : R * R),
  0 <= nF * l1r * pen -> 0 <= nF * (1 - l1r) * pen -> 0 <= e ->
  mshape n t Y -> Forall (fun c => length c = n) cols -> length W = length cols -> Forall (fun w => length w = t) W ->
  bcd_sweep R_ops (RXe e) cc l1r pen nF t1 cols (map (fun c => dot R_ops cc c c) cols) W (mres cols Y W) wmax dwmax
    = (W2, (R2, m)) ->
  let P V := mobjective cols (trans t Y) (nF * l1r * pen) (nF * (1 - l1r) * pen) (trans t V) in
  length W2 = length cols /\ Forall (fun w => length w = t) W2 /\ R2 = mres cols Y W2 /\ P W2 <= P W.
Proof. exact Block.bcd_sweep_noninc. Qed.

(** ... in particular with the literal tolerance 2^-52, i.e. for the very instance [RX] whose binary64
    counterpart is replayed against the implementation ... *)
Theorem bcd_sweep_noninc_literal : forall (cc t1 : bool) (l1r pen nF : R) (n t : nat) (cols Y W : list (list R))
                                          (wmax dwmax : R) (W2 R2 : list (list R)) (m : R * R),
  0 <= nF * l1r * pen -> 0 <= nF * (1 - l1r) * pen ->
  mshape n t Y -> Forall (fun c => length c = n) cols -> length W = length cols -> Forall (fun w => length w = t) W ->
  bcd_sweep R_ops RX cc l1r pen nF t1 cols (map (fun c => dot R_ops cc c c) cols) W (mres cols Y W) wmax dwmax
    = (W2, (R2, m)) ->
  let P V := mobjective cols (trans t Y) (nF * l1r * pen) (nF * (1 - l1r) * pen) (trans t V) in
  length W2 = length cols /\ Forall (fun w => length w = t) W2 /\ R2 = mres cols Y W2 /\ P W2 <= P W.
Proof. exact Block.bcd_sweep_noninc_literal. Qed.

(** Finding F52 (repaired in /repo 8010f90).  The sweep with the earlier guard `abs_diff_ne!(norm, 0)` was a
    descent step only when no row before or after the sweep had its norm in the band (0, e] ... *)
Theorem bcd_sweep_absdiff_noninc : forall (cc t1 : bool) (l1r pen nF e : R) (n t : nat) (cols Y W : list (list R))
                                          (wmax dwmax : R) (W2 R2 : list (list R)) (m : R * R),
  0 <= nF * l1r * pen -> 0 <= nF * (1 - l1r) * pen -> 0 <= e ->
  mshape n t Y -> Forall (fun c => length c = n) cols -> length W = length cols -> Forall (fun w => length w = t) W ->
  bcd_sweep_absdiff R_ops (RXe e) cc l1r pen nF t1 cols (map (fun c => dot R_ops cc c c) cols) W (mres cols Y W) wmax dwmax
    = (W2, (R2, m)) ->
  rband_free e W -> rband_free e W2 ->
  let P V := mobjective cols (trans t Y) (nF * l1r * pen) (nF * (1 - l1r) * pen) (trans t V) in
  length W2 = length cols /\ Forall (fun w => length w = t) W2 /\ R2 = mres cols Y W2 /\ P W2 <= P W.
Proof. exact Block.bcd_sweep_absdiff_noninc. Qed.

(** ... and with the literal tolerance 2^-52 the band mattered (witness: three copies of the column (1), one
    task with target 2^-52, no penalty - every block update returns the row (2^-52), whose norm
    abs_diff_ne!(norm_w_j, 0) treated as zero, so the rows were stored without the residual matrix being
    updated; the objective quadrupled). *)
Theorem bcd_sweep_band_refuted :
  exists (cols Y W W2 R2 : list (list R)) (m : R * R),
    bcd_sweep_absdiff R_ops RX false 0 0 1 true cols (map (fun c => dot R_ops false c c) cols) W (mres cols Y W) 0 0 = (W2, (R2, m))
    /\ R2 <> mres cols Y W2
    /\ mobjective cols (trans 1 Y) 0 0 (trans 1 W) < mobjective cols (trans 1 Y) 0 0 (trans 1 W2).
Proof. exact Block.bcd_sweep_band_refuted. Qed.

(** T2.  A sweep that returns the coefficient matrix it was given certifies the group first-order condition
    of every row exactly, hence global optimality against every other coefficient matrix - provided skipped
    columns are zero columns with a zero row (the only side condition left; it is finding F50) ... *)
Theorem bcd_fixed_point_is_kkt : forall (cc t1 : bool) (l1r pen nF e : R) (n t : nat) (cols Y W : list (list R))
                                        (wmax dwmax : R) (R2 : list (list R)) (m : R * R),
  0 <= nF * l1r * pen -> 0 <= nF * (1 - l1r) * pen -> 0 <= e ->
  mshape n t Y -> Forall (fun c => length c = n) cols ->
  Forall2 (fun c w => length w = t /\ (sq c <= e -> sq c = 0 /\ sq w = 0)) cols W ->
  bcd_sweep R_ops (RXe e) cc l1r pen nF t1 cols (map (fun c => dot R_ops cc c c) cols) W (mres cols Y W) wmax dwmax
    = (W, (R2, m)) ->
  let l1 := nF * l1r * pen in
  let l2 := nF * (1 - l1r) * pen in
  Forall2 (fun c w => group_cond (xtr t c (mres cols Y W)) l1 l2 w 0) cols W
  /\ forall W', length W' = length cols -> Forall (fun w => length w = t) W' ->
       mobjective cols (trans t Y) l1 l2 (trans t W') >= mobjective cols (trans t Y) l1 l2 (trans t W).
Proof. exact Block.bcd_fixed_point_is_kkt. Qed.

(** ... for e = 0: zero columns carry a zero row (true of everything the solver produces from W = 0,
    [bcd_sweep_keeps_skipped]). *)
Theorem bcd_fixed_point_is_kkt_exact : forall (cc t1 : bool) (l1r pen nF : R) (n t : nat) (cols Y W : list (list R))
                                              (wmax dwmax : R) (R2 : list (list R)) (m : R * R),
  0 <= nF * l1r * pen -> 0 <= nF * (1 - l1r) * pen ->
  mshape n t Y -> Forall (fun c => length c = n) cols ->
  Forall2 (fun c w => length w = t /\ (sq c = 0 -> sq w = 0)) cols W ->
  bcd_sweep R_ops (RXe 0) cc l1r pen nF t1 cols (map (fun c => dot R_ops cc c c) cols) W (mres cols Y W) wmax dwmax
    = (W, (R2, m)) ->
  let l1 := nF * l1r * pen in
  let l2 := nF * (1 - l1r) * pen in
  Forall2 (fun c w => group_cond (xtr t c (mres cols Y W)) l1 l2 w 0) cols W
  /\ forall W', length W' = length cols -> Forall (fun w => length w = t) W' ->
       mobjective cols (trans t Y) l1 l2 (trans t W') >= mobjective cols (trans t Y) l1 l2 (trans t W).
Proof. exact Block.bcd_fixed_point_is_kkt_exact. Qed.

Theorem bcd_sweep_keeps_skipped : forall (cc t1 : bool) (l1r pen nF e : R) (cols W M : list (list R)) (wmax dwmax : R)
                                         (W2 R2 : list (list R)) (m : R * R),
  length W = length cols ->
  bcd_sweep R_ops (RXe e) cc l1r pen nF t1 cols (map (fun c => dot R_ops cc c c) cols) W M wmax dwmax = (W2, (R2, m)) ->
  Forall2 (fun c w => sq c <= e -> sq w = 0) cols W -> Forall2 (fun c w => sq c <= e -> sq w = 0) cols W2.
Proof. exact Block.bcd_sweep_keeps_skipped. Qed.

(** T2.  Exact first-order conditions of every row imply optimality, in row form (the statement the fixed-point
    theorem rests on; [Mobj_tasks] below identifies the row form with [mobjective]). *)
Theorem group_rows_optimal : forall (n t : nat) (l1 l2 : R) (cols Y W W' : list (list R)),
  0 <= l1 -> 0 <= l2 ->
  mshape n t Y -> Forall (fun c => length c = n) cols ->
  length W = length cols -> length W' = length cols ->
  Forall (fun w => length w = t) W -> Forall (fun w => length w = t) W' ->
  Forall2 (fun c w => group_cond (xtr t c (mres cols Y W)) l1 l2 w 0) cols W ->
  / 2 * fsq (mres cols Y W') + gpen l1 l2 W' >= / 2 * fsq (mres cols Y W) + gpen l1 l2 W.
Proof. exact Block.group_rows_optimal. Qed.

Theorem Mobj_tasks : forall (n t : nat) (l1 l2 : R) (cols Y W : list (list R)),
  mshape n t Y -> Forall (fun c => length c = n) cols ->
  length W = length cols -> Forall (fun w => length w = t) W ->
  / 2 * fsq (mres cols Y W) + gpen l1 l2 W = mobjective cols (trans t Y) l1 l2 (trans t W).
Proof. exact Block.Mobj_tasks. Qed.
