(** C11 - executable model of the least-squares estimators of linfa-elasticnet
    (algorithm.rs: compute_intercept, coordinate_descent, duality_gap, block_coordinate_descent,
    block_soft_thresholding, duality_gap_mtl, predict) - a transliteration, polymorphic in NumOps
    plus the three float primitives the code uses beyond it (signum, max, the default epsilon of
    approx::abs_diff_eq).  Run with B64_ops against the Rust f64 implementation bit for bit,
    reasoned about with R_ops.  Definitions only. *)
From Coq Require Import List NArith ZArith Bool Reals Floats SpecFloat.
From LinfaVerif Require Import Common.Num Common.NdSum.
Import ListNotations.

(** primitives of Rust's f64 that NumOps does not carry *)
Record FloatX (F : Type) := mkFloatX {
  fx_signum : F -> F;        (* f64::signum: 1 for +0 and positives, -1 for -0 and negatives, NaN for NaN *)
  fx_max : F -> F -> F;      (* f64::max: the other operand when one is NaN *)
  fx_eps : F                 (* f64::EPSILON, the default tolerance of approx::abs_diff_eq! *)
}.
Arguments fx_signum {F}. Arguments fx_max {F}. Arguments fx_eps {F}.

Definition RX : FloatX R :=
  {| fx_signum := fun x => if Rlt_dec x 0 then (-1)%R else 1%R;
     fx_max := Rmax;
     fx_eps := (/ 4503599627370496)%R |}.

(** the same primitives over the reals with the tolerance of abs_diff_eq as a parameter: [RXe 0] reads
    `abs_diff_eq!(a, 0)` as `a = 0` (the algorithm as documented), [RXe 2^-52] is [RX] *)
Definition RXe (e : R) : FloatX R :=
  {| fx_signum := fun x => if Rlt_dec x 0 then (-1)%R else 1%R;
     fx_max := Rmax;
     fx_eps := e |}.

Definition b64_signum (x : float) : float :=
  if PrimFloat.eqb x x then (if PrimFloat.get_sign x then (-1)%float else 1%float) else nan.
Definition b64_max (a b : float) : float :=
  if PrimFloat.eqb a a then (if PrimFloat.eqb b b then (if PrimFloat.ltb a b then b else a) else a) else b.
Definition B64X : FloatX float :=
  {| fx_signum := b64_signum; fx_max := b64_max; fx_eps := 0x1p-52%float |}.

(** the same primitives for binary32 (SpecFloat at precision 24, Common/B32.v) *)
Definition b32_signum (x : spec_float) : spec_float :=
  match x with
  | S754_nan => S754_nan
  | S754_zero s | S754_infinity s | S754_finite s _ _ =>
      S754_finite s 8388608 (-23)
  end.
Definition b32_is_nan (x : spec_float) : bool := match x with S754_nan => true | _ => false end.
Definition b32_max (a b : spec_float) : spec_float :=
  if b32_is_nan a then b else if b32_is_nan b then a else if SFltb a b then b else a.
Definition B32X : FloatX spec_float :=
  {| fx_signum := b32_signum; fx_max := b32_max; fx_eps := S754_finite false 8388608 (-46) |}.

Section EN.
Context {F : Type} (o : NumOps F) (fx : FloatX F).
Notation "a + b" := (add o a b).
Notation "a - b" := (sub o a b).
Notation "a * b" := (mul o a b).
Notation "a / b" := (div o a b).
Notation f0 := (zero o).
Notation f1 := (one o).

Definition vec := list F.
Definition half : F := f1 / (f1 + f1).

Fixpoint map2 (f : F -> F -> F) (a b : vec) : vec :=
  match a, b with
  | x :: a', y :: b' => f x y :: map2 f a' b'
  | _, _ => []
  end.

(** ndarray's 1-D `dot`: `unrolled_dot` (8 lanes) when both operands are contiguous slices, the plain
    sequential loop otherwise (a column of a row-major matrix is strided) *)
Definition dot (contig : bool) (a b : vec) : F :=
  let pr := map2 (mul o) a b in
  if contig then usum o pr else seq_sum o pr.

(** approx::abs_diff_eq!(a, b) with the default epsilon, and its negation *)
Definition abs_diff_eq (a b : F) : bool :=
  leb o (if ltb o b a then a - b else b - a) (fx_eps fx).
Definition abs_diff_ne (a b : F) : bool := negb (abs_diff_eq a b).
(** `a != F::zero()` (IEEE comparison: true for NaN, false for -0) *)
Definition nonzero (a : F) : bool := negb (eqb o a f0).

(** ArrayBase::scaled_add: y_i <- y_i + alpha * x_i *)
Definition scaled_add (r : vec) (alpha : F) (x : vec) : vec := map2 (fun ri xi => ri + alpha * xi) r x.

Fixpoint transpose_aux (rows : list vec) (width : nat) : list vec :=
  match width with
  | O => []
  | S k => map (fun r => hd f0 r) rows :: transpose_aux (map (fun r => tl r) rows) k
  end.
Definition ncols (rows : list vec) : nat := match rows with [] => O | r :: _ => length r end.
Definition columns (rows : list vec) : list vec := transpose_aux rows (ncols rows).

(** compute_intercept for 1-D targets: `mean_axis` = `sum()` (unrolled) / n, then y - mean *)
Definition compute_intercept1 (icpt : bool) (y : vec) : F * vec :=
  if icpt then
    let m := usum o y / of_N o (N.of_nat (length y)) in
    (m, map (fun v => v - m) y)
  else (f0, y).

(** compute_intercept for 2-D targets: `sum_axis(Axis(0))` adds the rows one after the other to a
    zero vector (axis 0 is not the minimal-stride axis), then divides by n *)
Definition compute_intercept2 (icpt : bool) (Y : list vec) : vec * list vec :=
  if icpt then
    let n := of_N o (N.of_nat (length Y)) in
    let m := map (fun c => seq_sum o c / n) (columns Y) in
    (m, map (fun row => map2 (sub o) row m) Y)
  else (repeat f0 (ncols Y), Y).

Section Single.
Variable cc : bool.            (* feature columns are contiguous in memory (one feature or column-major data) *)
Variables (l1r pen : F) (nF : F).

(** duality_gap *)
Definition duality_gap (cols : list vec) (y w r : vec) : F :=
  let l1_reg := (l1r * pen) * nF in
  let l2_reg := ((f1 - l1r) * pen) * nF in
  let xta := map2 (fun d wj => d - wj * l2_reg) (map (fun xj => dot cc xj r) cols) w in
  let dn := fold_left (fun f v => fx_max fx (abs o v) f) xta f0 in
  let r2 := dot true r r in
  let w2 := dot true w w in
  let '(c, g0) :=
    if ltb o l1_reg dn then
      let c := l1_reg / dn in
      let a2 := (r2 * c) * c in
      (c, half * (r2 + a2))
    else (f1, r2) in
  let l1n := seq_sum o (map (abs o) w) in
  g0 + (((l1_reg * l1n) - (c * dot true r y)) + (((half * l2_reg) * (f1 + c * c)) * w2)).

(** the coordinate update of one feature: soft thresholding of x_j . (r + w_j x_j) *)
Definition cd_new_w (tmp nj : F) : F :=
  (fx_signum fx tmp * fx_max fx (abs o tmp - (nF * l1r) * pen) f0) / (nj + (nF * (f1 - l1r)) * pen).

(** one sweep `for j in 0..n_features`; returns (w, (r, (w_max, d_w_max))).  [nz] is the test that guards the
    two residual updates of a coordinate: `old_w_j != 0` / `w[j] != 0` since the repair 8010f90 (finding F52),
    `abs_diff_ne!(., 0)` before it *)
Fixpoint cd_sweep_gen (nz : F -> bool) (cols : list vec) (norms w : vec) (r : vec) (wmax dwmax : F)
  : vec * (vec * (F * F)) :=
  match cols, norms, w with
  | xj :: cols', nj :: norms', wj :: w' =>
      if abs_diff_eq nj f0 then
        let '(w2, rest) := cd_sweep_gen nz cols' norms' w' r wmax dwmax in (wj :: w2, rest)
      else
        let r1 := if nz wj then scaled_add r wj xj else r in
        let tmp := dot cc xj r1 in
        let wn := cd_new_w tmp nj in
        let r2 := if nz wn then scaled_add r1 (opp o wn) xj else r1 in
        let dwj := abs o (wn - wj) in
        let '(w2, rest) := cd_sweep_gen nz cols' norms' w' r2 (fx_max fx wmax (abs o wn)) (fx_max fx dwmax dwj) in
        (wn :: w2, rest)
  | _, _, _ => ([], (r, (wmax, dwmax)))
  end.
(** the code as it is *)
Definition cd_sweep := cd_sweep_gen nonzero.
(** the code before the repair of finding F52 (kept for the witness [cd_sweep_band_refuted]) *)
Definition cd_sweep_absdiff := cd_sweep_gen (fun a => abs_diff_ne a f0).

(** the `while n_steps < max_steps` loop; [fuel] = max_steps *)
Fixpoint cd_loop (fuel : nat) (maxit : N) (cols : list vec) (norms y : vec) (tolY dwtol : F)
         (w r : vec) (gap : F) (steps : N) : vec * (F * N) :=
  match fuel with
  | O => (w, (gap, steps))
  | S f =>
      let '(w1, (r1, (wmax, dwmax))) := cd_sweep cols norms w r f0 f0 in
      let steps1 := N.succ steps in
      let check :=
        if N.eqb steps1 (N.pred maxit) then true
        else if abs_diff_eq wmax f0 then true
        else ltb o (dwmax / wmax) dwtol in
      if check then
        let g := duality_gap cols y w1 r1 in
        if ltb o g tolY then (w1, (g, steps1))
        else cd_loop f maxit cols norms y tolY dwtol w1 r1 g steps1
      else cd_loop f maxit cols norms y tolY dwtol w1 r1 gap steps1
  end.

Definition coordinate_descent (cols : list vec) (y : vec) (tol : F) (maxit : N) : vec * (F * N) :=
  let norms := map (fun c => dot cc c c) cols in
  let gap0 := f1 + tol in
  let tolY := tol * dot true y y in
  cd_loop (N.to_nat maxit) maxit cols norms y tolY tol (map (fun _ => f0) cols) y gap0 0%N.
End Single.

Record enet_fitted := { ef_w : vec; ef_b : F; ef_gap : F; ef_steps : N }.

(** ElasticNetValidParams::fit (hyperplane, intercept, duality_gap, n_steps) *)
Definition enet_fit (cc : bool) (X : list vec) (y : vec) (icpt : bool) (pen l1r tol : F) (maxit : N)
  : enet_fitted :=
  let '(b, yc) := compute_intercept1 icpt y in
  let nF := of_N o (N.of_nat (length X)) in
  let '(w, (g, s)) := coordinate_descent cc l1r pen nF (columns X) yc tol maxit in
  {| ef_w := w; ef_b := b; ef_gap := g; ef_steps := s |}.

(** predict: `x.dot(&hyperplane) + intercept`, a row-wise unrolled dot (rows and weights are contiguous) *)
Definition predict1 (w : vec) (b : F) (Q : list vec) : vec := map (fun q => dot true q w + b) Q.

(** * multi-task *)
Section Multi.
Variable cc : bool.
Variables (l1r pen : F) (nF : F).
Variable t1 : bool.        (* exactly one task: the columns of the residual matrix are contiguous *)

Definition norm2 (v : vec) : F := sqrt o (dot true v v).

(** block_soft_thresholding (after the repair of finding F33: the guard is `norm_x <= threshold`, so a
    zero threshold with a zero correlation yields zeros instead of 1 - 0/0) *)
Definition block_soft_thresholding (x : vec) (thr : F) : vec :=
  let nx := norm2 x in
  if leb o nx thr then map (fun _ => f0) x
  else let scale := f1 - thr / nx in map (fun v => v * scale) x.

(** r <- r +/- outer(x_j, w_j): general_mat_mul with inner dimension 1 *)
Definition rank1 (plus : bool) (R : list vec) (xj : vec) (wj : vec) : list vec :=
  map (fun p => let '(row, xi) := p in
                map2 (fun rik wk => if plus then rik + xi * wk else rik - xi * wk) row wj)
      (combine R xj).

(** [nz] guards the two rank-one residual updates: `norm_old_w_j != 0` / `norm_w_j != 0` since the repair
    8010f90 (finding F52), `abs_diff_ne!(., 0)` before it *)
Fixpoint bcd_sweep_gen (nz : F -> bool) (cols : list vec) (norms : vec) (W : list vec) (R : list vec) (wmax dwmax : F)
  : list vec * (list vec * (F * F)) :=
  match cols, norms, W with
  | xj :: cols', nj :: norms', wj :: W' =>
      if abs_diff_eq nj f0 then
        let '(W2, rest) := bcd_sweep_gen nz cols' norms' W' R wmax dwmax in (wj :: W2, rest)
      else
        let nold := norm2 wj in
        let R1 := if nz nold then rank1 true R xj wj else R in
        let tmp := map (fun rc => dot (cc && t1) rc xj) (columns R1) in
        let den := nj + (nF * (f1 - l1r)) * pen in
        let wn := map (fun v => v / den) (block_soft_thresholding tmp ((nF * l1r) * pen)) in
        let nnew := norm2 wn in
        let R2 := if nz nnew then rank1 false R1 xj wn else R1 in
        let dwj := abs o (nnew - nold) in
        let '(W2, rest) := bcd_sweep_gen nz cols' norms' W' R2 (fx_max fx wmax nnew) (fx_max fx dwmax dwj) in
        (wn :: W2, rest)
  | _, _, _ => ([], (R, (wmax, dwmax)))
  end.
(** the code as it is *)
Definition bcd_sweep := bcd_sweep_gen nonzero.
(** the code before the repair of finding F52 (kept for the witness [bcd_sweep_band_refuted]) *)
Definition bcd_sweep_absdiff := bcd_sweep_gen (fun a => abs_diff_ne a f0).

Definition sqsum (M : list vec) : F := seq_sum o (map (fun v => v * v) (concat M)).

(** duality_gap_mtl; the two matrix products (x^T r and r^T y) go through matrixmultiply in the
    implementation and are evaluated here with sequential dot products, so the result is only compared
    up to a relative tolerance.  The formula is discontinuous where the dual norm crosses l1_reg (always
    the case for l1_reg = 0 at an exact stationary point); the result therefore carries the value of the
    branch the model takes, the value of the other branch, whether the branch test is within rounding of
    the border, and the magnitude of the terms. *)
Record gap_info := { gi_gap : F; gi_other : F; gi_amb : bool; gi_scale : F }.

Definition duality_gap_mtl (cols : list vec) (Y W R : list vec) : gap_info :=
  let l1_reg := (l1r * pen) * nF in
  let l2_reg := ((f1 - l1r) * pen) * nF in
  let Rc := columns R in
  let xta := map (fun p => let '(xj, wj) := p in
                           map2 (fun d wjk => d - wjk * l2_reg) (map (fun rc => dot false xj rc) Rc) wj)
                 (combine cols W) in
  let dn := fold_left (fun f v => fx_max fx (abs o v) f) (map norm2 xta) f0 in
  let r2 := sqsum R in
  let w2 := sqsum W in
  let tr := seq_sum o (map (fun p => dot false (fst p) (snd p)) (combine Rc (columns Y))) in
  let l21 := usum o (map norm2 W) in
  let a := l1_reg * l21 in
  let branch (scaled : bool) : F * F :=
    let '(c, g0) :=
      if scaled then
        (* (the implementation takes this branch only for dn > l1_reg >= 0; as the "other" branch with
           dn = 0 = l1_reg it stands for an implementation-side dn that is tiny but not zero, where c = 0) *)
        let c := if eqb o dn f0 then f0 else l1_reg / dn in
        let a2 := (r2 * c) * c in
        (c, half * (r2 + a2))
      else (f1, r2) in
    let b := c * tr in
    let d := ((half * l2_reg) * (f1 + c * c)) * w2 in
    (g0 + ((a - b) + d), (abs o g0 + abs o a) + (abs o b + abs o d)) in
  let scaled := ltb o l1_reg dn in
  let '(g, sc) := branch scaled in
  let '(g', sc') := branch (negb scaled) in
  let maxnorm := fold_left (fun f c => fx_max fx (dot false c c) f) cols f0 in
  let dscale := (sqrt o (maxnorm * r2) + l2_reg * sqrt o w2) + l1_reg in
  {| gi_gap := g; gi_other := g';
     gi_amb := leb o (abs o (dn - l1_reg)) (dscale * (fx_eps fx * of_N o 4194304));   (* 2^-30 relative *)
     gi_scale := fx_max fx sc sc' |}.

(** replay of the `while` loop for exactly [steps] sweeps; for every sweep the trace records whether
    the stopping test fired and, if so, the model's gap and its magnitude *)
Fixpoint bcd_replay (steps : nat) (maxit : N) (cols : list vec) (norms : vec) (Y : list vec) (dwtol : F)
         (W R : list vec) (k : N) : list vec * list (bool * gap_info) :=
  match steps with
  | O => (W, [])
  | S s =>
      let '(W1, (R1, (wmax, dwmax))) := bcd_sweep cols norms W R f0 f0 in
      let k1 := N.succ k in
      let check :=
        if N.eqb k1 (N.pred maxit) then true
        else if abs_diff_eq wmax f0 then true
        else ltb o (dwmax / wmax) dwtol in
      let entry := if check then (true, duality_gap_mtl cols Y W1 R1)
                   else (false, {| gi_gap := f0; gi_other := f0; gi_amb := false; gi_scale := f0 |}) in
      let '(Wf, tr) := bcd_replay s maxit cols norms Y dwtol W1 R1 k1 in
      (Wf, entry :: tr)
  end.
End Multi.

Definition mtl_replay (cc : bool) (X Y : list vec) (icpt : bool) (pen l1r tol : F) (maxit steps : N)
  : vec * (list vec * (F * list (bool * gap_info))) :=
  let '(b, Yc) := compute_intercept2 icpt Y in
  let nF := of_N o (N.of_nat (length X)) in
  let cols := columns X in
  let norms := map (fun c => dot cc c c) cols in
  let t := ncols Y in
  let tolY := tol * sqsum Yc in
  let W0 := map (fun _ => repeat f0 t) cols in
  let '(W, tr) := bcd_replay cc l1r pen nF (Nat.eqb t 1) (N.to_nat steps) maxit cols norms Yc tol W0 Yc 0%N in
  (b, (W, (tolY, tr))).

(** multi-task predict: `x.dot(&hyperplane) + &intercept` is a matrix product; evaluated sequentially,
    compared up to a tolerance *)
Definition predict2 (W : list vec) (b : vec) (Q : list vec) : list vec :=
  map (fun q => map2 (add o) (map (fun wc => dot false q wc) (columns W)) b) Q.

End EN.

(** * Exact rational checkers (pattern B): optimality conditions recomputed over Q.
      All data are dyadic rationals, so denominators stay powers of two; [Qn2] strips the common
      factors of two (cheaper than a gcd) to keep the numbers small. *)
From Coq Require Import QArith.

Fixpoint pos_strip2 (a d : positive) : positive * positive :=
  match a, d with
  | xO a', xO d' => pos_strip2 a' d'
  | _, _ => (a, d)
  end.
Definition Qn2 (q : Q) : Q :=
  match Qnum q with
  | Z0 => 0%Q
  | Zpos a => let '(a', d') := pos_strip2 a (Qden q) in Zpos a' # d'
  | Zneg a => let '(a', d') := pos_strip2 a (Qden q) in Zneg a' # d'
  end.
(** a + b; fast path when one denominator is the other times a power of two (always the case for
    dyadic data): no multiplication at all, only shifts *)
Definition qadd_shift (a b : Q) : option Q :=
  let da := Qden a in
  let db := Qden b in
  let sa := Npos (Pos.size da) in
  let sb := Npos (Pos.size db) in
  if N.leb sb sa then
    let s := Z.of_N (sa - sb) in
    if Z.eqb (Z.shiftl (Zpos db) s) (Zpos da) then Some ((Qnum a + Z.shiftl (Qnum b) s) # da) else None
  else
    let s := Z.of_N (sb - sa) in
    if Z.eqb (Z.shiftl (Zpos da) s) (Zpos db) then Some ((Z.shiftl (Qnum a) s + Qnum b) # db) else None.
Definition qadd (a b : Q) : Q :=
  match qadd_shift a b with Some q => Qn2 q | None => Qn2 (a + b) end.
Definition qsub (a b : Q) : Q := qadd a (Qopp b).
Definition qmul (a b : Q) : Q := Qn2 (a * b).
Definition qabs (a : Q) : Q := if Qle_bool 0 a then a else Qopp a.
Definition qsgn (a : Q) : Q := if Qle_bool a 0 then (if Qle_bool 0 a then 0%Q else (-1)%Q) else 1%Q.
Fixpoint qdot (a b : list Q) : Q :=
  match a, b with x :: a', y :: b' => qadd (qmul x y) (qdot a' b') | _, _ => 0%Q end.
Definition qsum (l : list Q) : Q := fold_right qadd 0%Q l.
Definition qvadd (a b : list Q) : list Q := map (fun p => qadd (fst p) (snd p)) (combine a b).
Definition qvscale (c : Q) (a : list Q) : list Q := map (qmul c) a.

(** sum_j theta_j * col_j  (an n-vector; [n] is needed for the empty sum) *)
Fixpoint qlin (n : nat) (cols : list (list Q)) (th : list Q) : list Q :=
  match cols, th with
  | c :: cols', t :: th' => qvadd (qvscale t c) (qlin n cols' th')
  | _, _ => repeat 0%Q n
  end.
Definition qresidual (cols : list (list Q)) (y th : list Q) : list Q :=
  qvadd y (qvscale (-1) (qlin (length y) cols th)).

(** first-order condition of coordinate j for the objective
      1/2 |y - sum_j theta_j col_j|^2 + sum_j (l1_j |theta_j| + l2_j/2 theta_j^2)
    up to eps_j, given as its square [e2]:  c = <col_j, residual> *)
Definition coord_ok (c l1 l2 th e2 : Q) : bool :=
  let g := qsub c (qmul l2 th) in
  if Qeq_bool th 0 then
    let ex := qsub (qabs g) l1 in
    Qle_bool ex 0 || Qle_bool (qmul ex ex) e2
  else
    let d := qsub g (qmul l1 (qsgn th)) in
    Qle_bool (qmul d d) e2.

(** [cs] = the correlations <col_j, residual> *)
Fixpoint kkt_flags_c (cs l1s l2s th e2s : list Q) : list bool :=
  match cs, l1s, l2s, th, e2s with
  | c :: cs', a :: l1s', b :: l2s', t :: th', e :: e2s' =>
      coord_ok c a b t e :: kkt_flags_c cs' l1s' l2s' th' e2s'
  | _, _, _, _, _ => []
  end.
Definition kkt_flags (r : list Q) (cols : list (list Q)) (l1s l2s th e2s : list Q) : list bool :=
  kkt_flags_c (map (fun c => qdot c r) cols) l1s l2s th e2s.

Definition all_len {A} (n : nat) (ls : list (list A)) : bool := forallb (fun l => Nat.eqb (length l) n) ls.
Definition all_nonneg (l : list Q) : bool := forallb (fun v => Qle_bool 0 v) l.

(** the verified checker: shapes, non-negative penalties and tolerances, every coordinate condition *)
Definition kkt_ok (cols : list (list Q)) (y th l1s l2s e2s : list Q) : bool :=
  let p := length cols in
  all_len (length y) cols
  && Nat.eqb (length th) p && Nat.eqb (length l1s) p && Nat.eqb (length l2s) p && Nat.eqb (length e2s) p
  && all_nonneg l1s && all_nonneg l2s && all_nonneg e2s
  && forallb (fun b => b) (kkt_flags (qresidual cols y th) cols l1s l2s th e2s).

(** elastic net: features penalised with l1 = n*penalty*l1_ratio, l2 = n*penalty*(1-l1_ratio); the
    intercept is the coefficient of an unpenalised column of ones *)
Definition ones (n : nat) : list Q := repeat 1%Q n.
Definition enet_ok (cols : list (list Q)) (y w : list Q) (b l1 l2 : Q) (e2s : list Q) (e2b : Q) : bool :=
  let p := length cols in
  kkt_ok (cols ++ [ones (length y)]) y (w ++ [b]) (repeat l1 p ++ [0%Q]) (repeat l2 p ++ [0%Q]) (e2s ++ [e2b]).
(** the weaker statement checked for the known class (intercept = mean y on un-centred features) and
    for fits without intercept: w is optimal for the given, fixed intercept *)
Definition enet_ok_fixed (cols : list (list Q)) (y w : list Q) (b l1 l2 : Q) (e2s : list Q) : bool :=
  let p := length cols in
  kkt_ok cols (map (fun v => qsub v b) y) w (repeat l1 p) (repeat l2 p) e2s.
(** ordinary least squares: no penalty at all *)
Definition ols_ok (cols : list (list Q)) (y w : list Q) (b : Q) (e2s : list Q) (e2b : Q) : bool :=
  enet_ok cols y w b 0 0 e2s e2b.
Definition ols_ok_noint (cols : list (list Q)) (y w : list Q) (e2s : list Q) : bool :=
  enet_ok_fixed cols y w 0 0 0 e2s.

(** ** ordinary least squares against the EXACT minimiser.
      [qnormal_solve A y] solves the normal equations by fraction-free elimination; its result is only a
      candidate - the checker [ols_exact_ok] verifies that the candidate (ws, bs) is an exact least-squares
      solution (residual exactly orthogonal to every column) and then compares the sums of squared errors:
      SSE(w, b) - SSE(ws, bs) <= tau2, the exact optimality gap of the returned fit. *)
(** fraction-free Gauss-Jordan elimination (Montante / Bareiss) over Z: every row other than the pivot row
    becomes (p * row - row_c * pivot_row) / previous pivot, an exact division; at the end the diagonal holds
    the determinant and x_c = last entry of row c / diagonal entry of row c *)
Fixpoint zfind_pivot (c : nat) (rows : list (list Z)) : option (list Z * list (list Z)) :=
  match rows with
  | [] => None
  | r :: rs =>
      if Z.eqb (nth c r 0%Z) 0 then
        match zfind_pivot c rs with Some (pr, rest) => Some (pr, r :: rest) | None => None end
      else Some (r, rs)
  end.
Fixpoint montante (k c : nat) (prev : Z) (done todo : list (list Z)) : option (list (list Z)) :=
  match k with
  | O => Some done
  | S k' =>
      match zfind_pivot c todo with
      | None => None
      | Some (pr, rest) =>
          let pv := nth c pr 0%Z in
          let elim r := let f := nth c r 0%Z in
                        map (fun q => Z.div (pv * fst q - f * snd q) prev) (combine r pr) in
          montante k' (S c) pv (map elim done ++ [pr]) (map elim rest)
      end
  end.
(** a dyadic vector as integers over a common power-of-two denominator *)
Definition zscale (v : list Q) : list Z * positive :=
  let d := fold_left (fun m q => Pos.max m (Qden q)) v 1%positive in
  (map (fun q => (Qnum q * (Zpos d / Zpos (Qden q)))%Z) v, d).
Fixpoint zdot (a b : list Z) : Z :=
  match a, b with x :: a', y :: b' => (x * y + zdot a' b')%Z | _, _ => 0%Z end.
(** candidate exact least-squares coefficients for the design given by its columns [A] (dyadic data): the
    normal equations of the integer-scaled problem, solved without fractions; the candidates share one
    denominator and are deliberately not reduced (all later sums then stay on the shift-only path of [qadd]) *)
Definition qnormal_solve (A : list (list Q)) (y : list Q) : option (list Q) :=
  let As := map zscale A in
  let '(yi, dy) := zscale y in
  let rows := map (fun a => map (fun b => zdot (fst a) (fst b)) As ++ [zdot (fst a) yi]) As in
  match montante (length A) 0 1%Z [] rows with
  | None => None
  | Some sol =>
      let k := length A in
      let cand := map (fun t => let '(j, (row, a)) := t in
                         let num := (last row 0 * Zpos (snd a))%Z in
                         let den := (nth j row 0 * Zpos dy)%Z in
                         match den with
                         | Zpos dp => Some (num # dp)
                         | Zneg dp => Some ((- num) # dp)
                         | Z0 => None
                         end)
                      (combine (seq 0 k) (combine sol As)) in
      if forallb (fun o => match o with Some _ => true | None => false end) cand
      then Some (map (fun o => match o with Some q => q | None => 0%Q end) cand) else None
  end.

Definition qsse (cols : list (list Q)) (y w : list Q) (b : Q) : Q :=
  let r := qresidual (cols ++ [ones (length y)]) y (w ++ [b]) in qdot r r.
Definition qsse0 (cols : list (list Q)) (y w : list Q) : Q :=
  let r := qresidual cols y w in qdot r r.
Definition ols_exact_ok (cols : list (list Q)) (y w : list Q) (b : Q) (ws : list Q) (bs : Q) (tau2 : Q) : bool :=
  ols_ok cols y ws bs (repeat 0%Q (length cols)) 0
  && Nat.eqb (length w) (length cols)
  && Qle_bool (qsub (qsse cols y w b) (qsse cols y ws bs)) tau2.
Definition ols_exact_ok_noint (cols : list (list Q)) (y w ws : list Q) (tau2 : Q) : bool :=
  ols_ok_noint cols y ws (repeat 0%Q (length cols))
  && Nat.eqb (length w) (length cols)
  && Qle_bool (qsub (qsse0 cols y w) (qsse0 cols y ws)) tau2.

(** multi-task (group) conditions of feature j: G = x_j^T R - l2 W_j (a t-vector),
    W_j = 0 -> |G| <= l1 + eps ;  W_j <> 0 -> |G - l1 W_j/|W_j|| <= eps ; norms compared squared *)
Definition group_ok (G Wj : list Q) (l1 e2 : Q) : bool :=
  let g2 := qdot G G in
  let w2 := qdot Wj Wj in
  if Qeq_bool w2 0 then Qle_bool g2 (qadd (qmul l1 l1) e2)
  else
    (* |G - l1 W/|W||^2 <= e2  <->  a <= 2 l1 <G,W>/|W|  with a = |G|^2 + l1^2 - e2 *)
    let a := qsub (qadd g2 (qmul l1 l1)) e2 in
    let gw := qdot G Wj in
    let lhs := qmul (qmul a a) w2 in
    let rhs := qmul (qmul 4 (qmul l1 l1)) (qmul gw gw) in
    Qle_bool a 0 && (Qle_bool 0 gw || Qle_bool rhs lhs)
    || Qle_bool 0 gw && Qle_bool lhs rhs.

(** multi-task checker.  [Ys]: the t target columns with their intercepts already subtracted; [Ws]: the t
    coefficient vectors (columns of the hyperplane matrix); the rows W_j are obtained by transposition *)
Fixpoint qtrans (p : nat) (M : list (list Q)) : list (list Q) :=
  match p with
  | O => []
  | S p' => map (hd 0%Q) M :: qtrans p' (map (@tl Q) M)
  end.
Definition group_ok_c (C Wj : list Q) (l1 l2 e2 : Q) : bool :=
  group_ok (map (fun p => qsub (fst p) (qmul l2 (snd p))) (combine C Wj)) Wj l1 e2.
Fixpoint qcorr_tasks (cols Ys Ws : list (list Q)) : list (list Q) :=
  match Ys, Ws with
  | y :: Ys', w :: Ws' => map (fun c => qdot c (qresidual cols y w)) cols :: qcorr_tasks cols Ys' Ws'
  | _, _ => []
  end.
Fixpoint group_flags (Cs rows : list (list Q)) (l1 l2 : Q) (e2s : list Q) : list bool :=
  match Cs, rows, e2s with
  | C :: Cs', r :: rows', e :: e2s' =>
      (Nat.eqb (length C) (length r) && group_ok_c C r l1 l2 e) :: group_flags Cs' rows' l1 l2 e2s'
  | _, _, _ => []
  end.
Definition mtl_ok (cols Ys Ws : list (list Q)) (l1 l2 : Q) (e2s : list Q) : bool :=
  let p := length cols in
  forallb (fun y => all_len (length y) cols) Ys
  && Nat.eqb (length Ws) (length Ys) && all_len p Ws && Nat.eqb (length e2s) p
  && Qle_bool 0 l1 && Qle_bool 0 l2 && all_nonneg e2s
  && forallb (fun b => b) (group_flags (qtrans p (qcorr_tasks cols Ys Ws)) (qtrans p Ws) l1 l2 e2s).

