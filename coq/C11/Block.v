(** C11 - the block coordinate-descent model (multi-task elastic net) over the reals: one sweep of
    [bcd_sweep] never increases the documented multi-task objective and keeps the residual matrix
    consistent; a sweep that returns the coefficient matrix it was given certifies the group (row)
    first-order conditions and hence global optimality.  Matrices are lists of rows: Y, R are n x t
    (samples x tasks), W is p x t (features x tasks), the design is given by its p columns.
    As in C11/Descent.v the tolerance of approx::abs_diff_eq (column-skipping test) is the argument [e] of
    [RXe e], and the sweep proofs are generic in the test [nz] that guards the rank-one residual updates:
    `norm != 0` in the code as it is ([bcd_sweep]: all inputs, every e >= 0), `abs_diff_ne!(norm, 0)` in
    the code before the repair of finding F52 ([bcd_sweep_absdiff]: only outside the band (0, e]). *)
From Coq Require Import List ZArith NArith Reals Lra Lia Psatz Bool.
From LinfaVerif Require Import Common.Num Common.NdSum Common.QF Common.Convex C11.Model C11.Proofs C11.Descent C11.OlsGap.
Import ListNotations.
Local Open Scope R_scope.

(* ------------------------------------------------------------------------------------------- *)
(** * matrices as lists of rows *)

(** M + x (x) w : row i becomes M_i + x_i * w *)
Definition radd (M : list (list R)) (x w : list R) : list (list R) :=
  map (fun p => vadd (fst p) (vscale (snd p) w)) (combine M x).
Definition vopp (w : list R) : list R := vscale (-1) w.

(** Y - sum_j x_j (x) W_j *)
Fixpoint mres (cols : list (list R)) (Y W : list (list R)) : list (list R) :=
  match cols, W with
  | x :: cols', w :: W' => mres cols' (radd Y x (vopp w)) W'
  | _, _ => Y
  end.

Definition fsq (M : list (list R)) : R := fdot M M.

(** x^T M = sum_i x_i * M_i (a t-vector) *)
Fixpoint xtr (t : nat) (x : list R) (M : list (list R)) : list R :=
  match x, M with
  | xi :: x', row :: M' => vadd (vscale xi row) (xtr t x' M')
  | _, _ => repeat 0 t
  end.

Definition mshape (n t : nat) (M : list (list R)) : Prop := length M = n /\ Forall (fun r => length r = t) M.

Lemma radd_shape n t M x w : mshape n t M -> length x = n -> length w = t -> mshape n t (radd M x w).
Proof.
  intros [L F] Lx Lw. unfold radd. split.
  - rewrite map_length, combine_length. lia.
  - apply Forall_map. rewrite Forall_forall in *. intros [row xi] Hin. simpl.
    apply in_combine_l in Hin. rewrite vadd_length; rewrite ?vscale_length; auto. rewrite (F _ Hin). lia.
Qed.

Lemma vopp_length w : length (vopp w) = length w.
Proof. apply vscale_length. Qed.

Lemma mres_shape n t : forall cols Y W, mshape n t Y -> Forall (fun c => length c = n) cols ->
  Forall (fun w => length w = t) W -> mshape n t (mres cols Y W).
Proof.
  induction cols as [|x cols IH]; intros Y W HY HC HW; simpl; auto.
  destruct W as [|w W]; auto. inversion HC; inversion HW; subst.
  apply IH; auto. apply radd_shape; auto. now rewrite vopp_length.
Qed.

(** element-wise identities on rows *)
Lemma vadd_comm3 a : forall b c, length b = length a -> length c = length a ->
  vadd (vadd a b) c = vadd (vadd a c) b.
Proof.
  unfold vadd. induction a as [|a0 a IH]; intros [|b0 b] [|c0 c] Lb Lc; simpl in *; try discriminate; auto.
  f_equal; [lra|]. apply IH; lia.
Qed.

Lemma radd_comm n t M x a z b : mshape n t M -> length x = n -> length z = n -> length a = t -> length b = t ->
  radd (radd M x a) z b = radd (radd M z b) x a.
Proof.
  intros [L F] Lx Lz La Lb. subst n. revert x z Lx Lz.
  induction M as [|row M IH]; intros [|xi x] [|zi z] Lx Lz; simpl in *; try discriminate; auto.
  inversion F as [|? ? Fr F']; subst. unfold radd in *. simpl. f_equal.
  - apply vadd_comm3; rewrite vscale_length; lia.
  - apply IH; auto.
Qed.

Lemma mres_radd n t : forall cols Y W x a, mshape n t Y -> Forall (fun c => length c = n) cols ->
  Forall (fun w => length w = t) W -> length x = n -> length a = t ->
  mres cols (radd Y x a) W = radd (mres cols Y W) x a.
Proof.
  induction cols as [|c cols IH]; intros Y W x a HY HC HW Lx La; simpl; auto.
  destruct W as [|w W]; auto. inversion HC; inversion HW; subst.
  rewrite (radd_comm (length x) (length a) Y x a c (vopp w)); auto; [|now rewrite vopp_length].
  apply IH; auto. apply radd_shape; auto. now rewrite vopp_length.
Qed.

Lemma vadd_vscale_opp row : forall xi w, length w = length row ->
  vadd (vadd row (vscale xi (vopp w))) (vscale xi w) = row.
Proof.
  unfold vadd, vscale, vopp. induction row as [|r0 row IH]; intros xi [|w0 w] L; simpl in *; try discriminate; auto.
  f_equal; [lra|]. apply IH; lia.
Qed.

Lemma radd_cancel n t M x w : mshape n t M -> length x = n -> length w = t ->
  radd (radd M x (vopp w)) x w = M.
Proof.
  intros [L F] Lx Lw. subst n. revert x Lx.
  induction M as [|row M IH]; intros [|xi x] Lx; simpl in *; try discriminate; auto.
  inversion F as [|? ? Fr F']; subst. unfold radd in *. simpl. f_equal.
  - apply vadd_vscale_opp. lia.
  - apply IH; auto.
Qed.

Lemma vscale_repeat0 xi n : vscale xi (repeat 0 n) = repeat 0 n.
Proof. unfold vscale. induction n as [|n IH]; simpl; auto. f_equal; [ring|exact IH]. Qed.
Lemma vscale_zero_vec xi w : sq w = 0 -> vscale xi w = repeat 0 (length w).
Proof. intros Z. rewrite (sq_zero_vec w Z) at 1. apply vscale_repeat0. Qed.

Lemma vadd_repeat0 row : vadd row (repeat 0 (length row)) = row.
Proof. unfold vadd. induction row as [|r0 row IH]; simpl; auto. f_equal; [lra|exact IH]. Qed.

(** adding the outer product with a zero row changes nothing *)
Lemma radd_zero n t M x w : mshape n t M -> length x = n -> length w = t -> sq w = 0 -> radd M x w = M.
Proof.
  intros [L F] Lx Lw Z. subst n. revert x Lx.
  induction M as [|row M IH]; intros [|xi x] Lx; simpl in *; try discriminate; auto.
  inversion F as [|? ? Fr F']; subst. unfold radd in *. simpl. f_equal.
  - rewrite vscale_zero_vec by auto. rewrite <- Fr. apply vadd_repeat0.
  - apply IH; auto.
Qed.

Lemma sq_vopp w : sq (vopp w) = sq w.
Proof. unfold vopp. rewrite sq_vscale. ring. Qed.

(* ------------------------------------------------------------------------------------------- *)
(** * x^T M and the Frobenius products *)

Lemma xtr_length t : forall x M, Forall (fun r => length r = t) M -> length (xtr t x M) = t.
Proof.
  induction x as [|xi x IH]; intros [|row M] F; simpl; try apply repeat_length.
  inversion F; subst. rewrite vadd_length; rewrite vscale_length; auto. now rewrite IH.
Qed.

Lemma Rdot_repeat0_r n : forall c, Rdot c (repeat 0 n) = 0.
Proof. intros c. rewrite Rdot_comm. apply Rdot_repeat0_l. Qed.

(** <M, x (x) v>_F = <x^T M, v> *)
Lemma fdot_outer t v : length v = t -> forall M x B, Forall (fun r => length r = t) M -> Forall (fun r => length r = t) B ->
  length x = length M -> length B = length M ->
  fdot M (radd B x v) = fdot M B + Rdot (xtr t x M) v.
Proof.
  intros Lv. induction M as [|row M IH]; intros [|xi x] [|b B] FM FB Lx LB; simpl in *; try discriminate.
  - rewrite Rdot_repeat0_l. lra.
  - inversion FM; inversion FB; subst. unfold radd in *. simpl.
    rewrite IH by (auto; lia).
    rewrite Rdot_vadd_r by (rewrite vscale_length; lia).
    rewrite Rdot_vadd_l by (rewrite vscale_length, xtr_length; auto).
    rewrite (Rdot_comm row (vscale xi v)), !Rdot_vscale_l. rewrite (Rdot_comm v row). lra.
Qed.

Lemma fdot_comm : forall A B, fdot A B = fdot B A.
Proof. induction A as [|a A IH]; intros [|b B]; simpl; auto. rewrite IH, Rdot_comm. ring. Qed.

Lemma fsq_nonneg M : 0 <= fsq M.
Proof. unfold fsq. induction M as [|a M IH]; simpl; [lra|]. pose proof (sq_nonneg a). unfold sq in *. lra. Qed.

(** |M + x (x) v|_F^2 = |M|_F^2 + 2 <x^T M, v> + |x|^2 |v|^2 *)
Lemma fsq_radd t v : length v = t -> forall M x, Forall (fun r => length r = t) M -> length x = length M ->
  fsq (radd M x v) = fsq M + 2 * Rdot (xtr t x M) v + sq x * sq v.
Proof.
  intros Lv. unfold fsq. induction M as [|row M IH]; intros [|xi x] FM Lx; simpl in *; try discriminate.
  - rewrite Rdot_repeat0_l. unfold sq. simpl. lra.
  - inversion FM; subst. unfold radd in *. simpl. rewrite IH by (auto; lia).
    fold (sq (vadd row (vscale xi v))). rewrite sq_vadd_scale by lia.
    rewrite Rdot_vadd_l by (rewrite vscale_length, xtr_length; auto).
    rewrite Rdot_vscale_l. unfold sq. simpl. lra.
Qed.

(** x^T (M + x' (x) w) = x^T M + <x, x'> w *)
Lemma vadd_assoc4 a : forall b c d, length b = length a -> length c = length a -> length d = length a ->
  vadd (vadd a b) (vadd c d) = vadd (vadd a c) (vadd b d).
Proof.
  unfold vadd. induction a as [|a0 a IH]; intros [|b0 b] [|c0 c] [|d0 d] Lb Lc Ld; simpl in *; try discriminate; auto.
  f_equal; [lra|]. apply IH; lia.
Qed.
Lemma vscale_vadd' k a : forall b, vscale k (vadd a b) = vadd (vscale k a) (vscale k b).
Proof.
  unfold vscale, vadd. induction a as [|a0 a IH]; intros [|b0 b]; simpl; auto. f_equal; [lra|apply IH].
Qed.
Lemma vscale_mul k m a : vscale k (vscale m a) = vscale (k * m) a.
Proof. unfold vscale. rewrite map_map. apply map_ext. intros; ring. Qed.
Lemma vscale_plus k m a : vscale (k + m) a = vadd (vscale k a) (vscale m a).
Proof. unfold vscale, vadd. induction a as [|a0 a IH]; simpl; auto. f_equal; [lra|exact IH]. Qed.
Lemma vscale_0 a : vscale 0 a = repeat 0 (length a).
Proof. unfold vscale. induction a as [|a0 a IH]; simpl; auto. f_equal; [lra|exact IH]. Qed.
Lemma vadd_repeat0_l row : vadd (repeat 0 (length row)) row = row.
Proof. unfold vadd. induction row as [|r0 row IH]; simpl; auto. f_equal; [lra|exact IH]. Qed.

Lemma xtr_radd t w : length w = t -> forall x M z, Forall (fun r => length r = t) M -> length x = length M -> length z = length M ->
  xtr t x (radd M z w) = vadd (xtr t x M) (vscale (Rdot x z) w).
Proof.
  intros Lw. induction x as [|xi x IH]; intros [|row M] [|zi z] FM Lx Lz; simpl in *; try discriminate.
  - rewrite vscale_0, Lw. clear. unfold vadd. induction t as [|t IH]; simpl; auto. f_equal; [lra|exact IH].
  - inversion FM; subst. unfold radd in *. simpl. rewrite IH by (auto; lia).
    rewrite vscale_vadd', vscale_mul, vscale_plus.
    apply vadd_assoc4; rewrite ?vscale_length, ?xtr_length; auto.
Qed.

(* ------------------------------------------------------------------------------------------- *)
(** * the operations of the model over the reals *)

Lemma map2_sub_R row : forall xi w,
  map2 (fun rik wk => sub R_ops rik (mul R_ops xi wk)) row w = vadd row (vscale xi (vopp w)).
Proof.
  unfold vadd, vscale, vopp. induction row as [|r0 row IH]; intros xi [|w0 w]; simpl; auto.
  rewrite IH. f_equal. lra.
Qed.

Lemma rank1_plus_R M x w : rank1 R_ops true M x w = radd M x w.
Proof.
  unfold rank1, radd. apply map_ext. intros [row xi]. simpl.
  exact (scaled_add_R row xi w).
Qed.
Lemma rank1_minus_R M x w : rank1 R_ops false M x w = radd M x (vopp w).
Proof.
  unfold rank1, radd. apply map_ext. intros [row xi]. simpl. apply map2_sub_R.
Qed.

Lemma norm2_R v : norm2 R_ops v = norm v.
Proof. unfold norm2, norm, sq. rewrite dot_R. reflexivity. Qed.

Lemma transpose_aux_R : forall w rows, transpose_aux R_ops rows w = trans w rows.
Proof. induction w as [|w IH]; intros rows; simpl; auto. now rewrite IH. Qed.

Lemma columns_R t M : M <> [] -> Forall (fun r => length r = t) M -> columns R_ops M = trans t M.
Proof.
  intros NE F. unfold columns. rewrite transpose_aux_R. f_equal.
  destruct M as [|r M]; [congruence|]. inversion F; subst. reflexivity.
Qed.

Lemma xtr_nil_rows : forall x M, Forall (fun r => length r = 0%nat) M -> xtr 0 x M = [].
Proof.
  induction x as [|xi x IH]; intros [|row M] F; simpl; auto.
  inversion F as [|? ? Fr F']; subst. destruct row; [|discriminate]. reflexivity.
Qed.

Lemma xtr_hd_tl t : forall x M, Forall (fun r => length r = S t) M -> length x = length M ->
  xtr (S t) x M = Rdot (map (hd 0) M) x :: xtr t x (map (@tl R) M).
Proof.
  induction x as [|xi x IH]; intros [|row M] F L; simpl in *; try discriminate; auto.
  inversion F as [|? ? Fr F']; subst. rewrite IH by (auto; lia).
  destruct row as [|r0 row]; [discriminate|]. unfold vadd, vscale. simpl. f_equal. lra.
Qed.

(** the model's `x_j.dot(&r)` (one dot product per column of the residual matrix) is x^T R *)
Lemma xtr_cols : forall t x M, Forall (fun r => length r = t) M -> length x = length M ->
  map (fun rc => Rdot rc x) (trans t M) = xtr t x M.
Proof.
  induction t as [|t IH]; intros x M F L; simpl.
  - now rewrite xtr_nil_rows.
  - rewrite xtr_hd_tl by auto. f_equal. apply IH.
    + apply Forall_map. eapply Forall_impl; [|exact F]. intros a Ha. destruct a; simpl in *; [discriminate|lia].
    + now rewrite map_length.
Qed.

Lemma bst_R x thr : block_soft_thresholding R_ops x thr
  = if Rle_dec (norm x) thr then repeat 0 (length x) else vscale (1 - thr / norm x) x.
Proof.
  unfold block_soft_thresholding. rewrite norm2_R. simpl. unfold Rleb.
  destruct (Rle_dec (norm x) thr).
  - clear. induction x; simpl; auto. now rewrite IHx.
  - unfold vscale. apply map_ext. intros; ring.
Qed.

(* ------------------------------------------------------------------------------------------- *)
(** * the block update solves the group first-order condition of its row exactly *)

Definition bcd_new_w (l1 l2 nj : R) (c : list R) : list R :=
  vscale (/ (nj + l2)) (if Rle_dec (norm c) l1 then repeat 0 (length c) else vscale (1 - l1 / norm c) c).

Lemma bcd_new_w_length l1 l2 nj c : length (bcd_new_w l1 l2 nj c) = length c.
Proof. unfold bcd_new_w. rewrite vscale_length. destruct (Rle_dec (norm c) l1); [apply repeat_length|apply vscale_length]. Qed.

Lemma sq_repeat0 n : sq (repeat 0 n) = 0.
Proof. unfold sq. apply Rdot_repeat0_l. Qed.

Lemma norm_zero v : sq v = 0 -> norm v = 0.
Proof. intros Z. unfold norm. rewrite Z. apply sqrt_0. Qed.

Lemma norm_vscale k v : norm (vscale k v) = Rabs k * norm v.
Proof.
  unfold norm. rewrite sq_vscale. rewrite sqrt_mult_alt by nra.
  f_equal. replace (k * k) with (Rsqr k) by (unfold Rsqr; ring). apply sqrt_Rsqr_abs.
Qed.

Lemma vsub_vscale_same a b c : vsub (vscale a c) (vscale b c) = vscale (a - b) c.
Proof.
  unfold vsub, vadd, vscale. induction c as [|c0 c IH]; simpl; auto. f_equal; [lra|exact IH].
Qed.

Lemma vsub_repeat0 c : vsub c (repeat 0 (length c)) = c.
Proof. unfold vsub. rewrite vscale_repeat0. apply vadd_repeat0. Qed.

Lemma vscale_1 c : vscale 1 c = c.
Proof. unfold vscale. induction c as [|c0 c IH]; simpl; auto. f_equal; [lra|exact IH]. Qed.

Lemma bcd_update_kkt l1 l2 nj c : 0 <= l1 -> 0 <= l2 -> 0 < nj + l2 ->
  let wn := bcd_new_w l1 l2 nj c in
  group_cond (vsub c (vscale nj wn)) l1 l2 wn 0.
Proof.
  intros H1 H2 Hd wn. unfold group_cond. cbv zeta.
  unfold wn, bcd_new_w. destruct (Rle_dec (norm c) l1) as [Le | Gt].
  - (* thresholded to zero *)
    rewrite vscale_repeat0. rewrite !vscale_repeat0.
    replace (vsub c (repeat 0 (length c))) with c by (symmetry; apply vsub_repeat0).
    rewrite vsub_repeat0. split.
    + intros _. lra.
    + intros NZ. exfalso. apply NZ. apply sq_repeat0.
  - assert (Pc : 0 < norm c) by lra.
    assert (Pl : l1 / norm c < 1) by (apply Rmult_lt_reg_r with (norm c); auto; unfold Rdiv; rewrite Rmult_assoc, Rinv_l by lra; lra).
    set (s := / (nj + l2) * (1 - l1 / norm c)).
    assert (Ps : 0 < s) by (unfold s; apply Rmult_lt_0_compat; [apply Rinv_0_lt_compat; lra | lra]).
    rewrite vscale_mul. fold s.
    assert (Nw : norm (vscale s c) = s * norm c) by (rewrite norm_vscale, Rabs_right; lra).
    assert (NZ : sq (vscale s c) <> 0).
    { rewrite sq_vscale. pose proof (norm_sq c) as Nc. intros Z.
      apply Rmult_integral in Z. destruct Z as [Z | Z]; [nra|]. rewrite Z in Nc. nra. }
    split; [intros Z; contradiction|]. intros _.
    rewrite Nw. rewrite !vscale_mul.
    rewrite <- (vscale_1 c) at 1. rewrite !vsub_vscale_same.
    replace (1 - nj * s - l2 * s - l1 / (s * norm c) * s) with 0.
    + rewrite vscale_0. rewrite norm_zero by apply sq_repeat0. lra.
    + unfold s. field. split; lra.
Qed.

(** ... and therefore minimises the objective as a function of row j alone:
    g(v) = 1/2 nj |v|^2 - <c, v> + l1 |v| + l2/2 |v|^2, c = x_j^T (R + x_j (x) W_j), nj = |x_j|^2 *)
Lemma bcd_update_minimises l1 l2 nj c v : 0 <= l1 -> 0 <= l2 -> 0 <= nj -> 0 < nj + l2 -> length v = length c ->
  let wn := bcd_new_w l1 l2 nj c in
  let g u := / 2 * nj * sq u - Rdot c u + gpen1 l1 l2 u in
  g wn <= g v.
Proof.
  intros H1 H2 Hn Hd Lv wn g.
  pose proof (bcd_update_kkt l1 l2 nj c H1 H2 Hd) as K. cbv zeta in K. fold wn in K.
  assert (Lw : length wn = length c) by apply bcd_new_w_length.
  pose proof (group_ineq (vsub c (vscale nj wn)) l1 l2 wn 0 v H1 H2
                ltac:(rewrite vsub_length; rewrite ?vscale_length; lia) ltac:(lia) K) as G.
  rewrite (Rdot_comm (vsub v wn)), vsub_self_dot in G by (rewrite ?vscale_length, ?vsub_length; lia).
  rewrite Rdot_vscale_l in G.
  rewrite !(Rdot_comm _ (vsub v wn)), !vsub_self_dot in G by lia.
  pose proof (sq_nonneg (vsub v wn)) as Q. rewrite sq_vsub in Q by lia.
  unfold g. rewrite (Rdot_comm c wn), (Rdot_comm c v). unfold sq in *. nra.
Qed.

(* ------------------------------------------------------------------------------------------- *)
(** * one block sweep *)

(** no row norm in the band (0, e]: such a row is stored but treated as zero by the residual updates *)
Definition rband_free (e : R) (W : list (list R)) : Prop := Forall (fun w => sq w = 0 \/ e < norm w) W.

Lemma rband_free_0 W : rband_free 0 W.
Proof.
  unfold rband_free. induction W as [|w W IH]; constructor; auto.
  destruct (Req_dec (sq w) 0) as [Z | NZ]; [left; auto | right].
  pose proof (norm_nonneg w). pose proof (norm_sq w). destruct (Req_dec (norm w) 0) as [E | E]; [rewrite E in *; lra | lra].
Qed.

Lemma guarded_plus e n t M x w : 0 <= e -> (sq w = 0 \/ e < norm w) -> mshape n t M -> length x = n -> length w = t ->
  (if abs_diff_ne R_ops (RXe e) (norm2 R_ops w) (zero R_ops) return (list (list R)) then rank1 R_ops true M x w else M) = radd M x w.
Proof.
  intros He B HM Lx Lw. rewrite norm2_R. unfold abs_diff_ne.
  destruct (abs_diff_eq R_ops (RXe e) (norm w) (zero R_ops)) eqn:E; simpl.
  - apply abs_diff_eq_true in E. pose proof (norm_nonneg w). rewrite Rabs_right in E by lra.
    destruct B as [B | B]; [|lra]. symmetry. eapply radd_zero; eauto.
  - apply rank1_plus_R.
Qed.
Lemma guarded_minus e n t M x w : 0 <= e -> (sq w = 0 \/ e < norm w) -> mshape n t M -> length x = n -> length w = t ->
  (if abs_diff_ne R_ops (RXe e) (norm2 R_ops w) (zero R_ops) return (list (list R)) then rank1 R_ops false M x w else M) = radd M x (vopp w).
Proof.
  intros He B HM Lx Lw. rewrite norm2_R. unfold abs_diff_ne.
  destruct (abs_diff_eq R_ops (RXe e) (norm w) (zero R_ops)) eqn:E; simpl.
  - apply abs_diff_eq_true in E. pose proof (norm_nonneg w). rewrite Rabs_right in E by lra.
    destruct B as [B | B]; [|lra]. symmetry. eapply radd_zero; eauto; [now rewrite vopp_length | now rewrite sq_vopp].
  - apply rank1_minus_R.
Qed.

(** ... and with the exact test `norm != 0` for every row *)
Lemma norm_zero_sq w : norm w = 0 -> sq w = 0.
Proof. intros Z. rewrite <- (norm_sq w), Z. ring. Qed.
Lemma exact_plus n t M x w : mshape n t M -> length x = n -> length w = t ->
  (if nonzero R_ops (norm2 R_ops w) return (list (list R)) then rank1 R_ops true M x w else M) = radd M x w.
Proof.
  intros HM Lx Lw. rewrite norm2_R, nonzero_R. destruct (Reqb (norm w) 0) eqn:E; simpl.
  - apply Reqb_true in E. symmetry. eapply radd_zero; eauto. now apply norm_zero_sq.
  - apply rank1_plus_R.
Qed.
Lemma exact_minus n t M x w : mshape n t M -> length x = n -> length w = t ->
  (if nonzero R_ops (norm2 R_ops w) return (list (list R)) then rank1 R_ops false M x w else M) = radd M x (vopp w).
Proof.
  intros HM Lx Lw. rewrite norm2_R, nonzero_R. destruct (Reqb (norm w) 0) eqn:E; simpl.
  - apply Reqb_true in E. symmetry. eapply radd_zero; eauto; [now rewrite vopp_length | rewrite sq_vopp; now apply norm_zero_sq].
  - apply rank1_minus_R.
Qed.

Lemma new_w_R l1r pen nF nj tmp :
  map (fun v => div R_ops v (add R_ops nj (mul R_ops (mul R_ops nF (sub R_ops (one R_ops) l1r)) pen)))
      (block_soft_thresholding R_ops tmp (mul R_ops (mul R_ops nF l1r) pen))
  = bcd_new_w (nF * l1r * pen) (nF * (1 - l1r) * pen) nj tmp.
Proof.
  rewrite bst_R. unfold bcd_new_w. simpl. unfold vscale at 1. apply map_ext. intros v. unfold Rdiv. ring.
Qed.

Lemma radd_cancel' n t M x w : mshape n t M -> length x = n -> length w = t ->
  radd (radd M x w) x (vopp w) = M.
Proof.
  intros HM Lx Lw. rewrite (radd_comm n t M x w x (vopp w)); auto; [|now rewrite vopp_length].
  eapply radd_cancel; eauto.
Qed.

Section BSweep.
Variables (cc t1 : bool) (l1r pen nF e : R) (n t : nat).
Let l1 := nF * l1r * pen.
Let l2 := nF * (1 - l1r) * pen.
Hypothesis H1 : 0 <= l1.
Hypothesis H2 : 0 <= l2.
Hypothesis He : 0 <= e.
(** the guard of the residual updates and the rows for which it behaves like `norm != 0` *)
Variable nz : R -> bool.
Variable good : list R -> Prop.
Hypothesis Hp : forall n' t' M x w, good w -> mshape n' t' M -> length x = n' -> length w = t' ->
  (if nz (norm2 R_ops w) return (list (list R)) then rank1 R_ops true M x w else M) = radd M x w.
Hypothesis Hm : forall n' t' M x w, good w -> mshape n' t' M -> length x = n' -> length w = t' ->
  (if nz (norm2 R_ops w) return (list (list R)) then rank1 R_ops false M x w else M) = radd M x (vopp w).

Notation sweep := (bcd_sweep_gen R_ops (RXe e) cc l1r pen nF t1 nz).

(** n times the documented multi-task objective, rows of W penalised by their Euclidean norm *)
Definition Mobj (cols Y W : list (list R)) : R := / 2 * fsq (mres cols Y W) + gpen l1 l2 W.

Lemma sq_pos_nonnil (x : list R) : 0 < sq x -> x <> [].
Proof. intros P E. subst x. unfold sq in P. simpl in P. lra. Qed.

Lemma bsweep_spec : forall cols W Y wmax dwmax W2 R2 m,
  mshape n t Y -> Forall (fun c => length c = n) cols -> length W = length cols ->
  Forall (fun w => length w = t) W -> Forall good W ->
  sweep cols (map (fun c => sq c) cols) W (mres cols Y W) wmax dwmax = (W2, (R2, m)) ->
  Forall good W2 ->
  length W2 = length cols /\ Forall (fun w => length w = t) W2 /\ R2 = mres cols Y W2 /\ Mobj cols Y W2 <= Mobj cols Y W.
Proof.
  induction cols as [|xj cols IH]; intros W Y wmax dwmax W2 R2 m HY HC LW FW BW E BW2.
  - destruct W; try discriminate. simpl in E. inversion E; subst. repeat split; auto; try apply Rle_refl.
  - destruct W as [|wj W]; try discriminate. simpl in LW.
    inversion HC as [|? ? Lx HC']; subst. inversion FW as [|? ? Lwj FW']; subst.
    inversion BW as [|? ? Bj BW']; subst.
    cbn [map bcd_sweep_gen] in E.
    assert (HY' : mshape (length xj) (length wj) (radd Y xj (vopp wj))) by (apply radd_shape; auto; now rewrite vopp_length).
    destruct (abs_diff_eq R_ops (RXe e) (sq xj) (zero R_ops)) eqn:Sk.
    + (* skipped column *)
      cbn [mres] in E.
      match type of E with context [sweep cols ?a ?b ?c ?d ?f] =>
        destruct (sweep cols a b c d f) as [W2' [R2' m']] eqn:E' end.
      inversion E; subst W2 R2' m'. inversion BW2 as [|? ? _ BW2']; subst.
      destruct (IH W _ wmax dwmax W2' R2 m HY' HC' ltac:(lia) FW' BW' E' BW2') as (A & B & C & D).
      split; [simpl; lia|]. split; [constructor; auto|]. split; [exact C|].
      unfold Mobj in *. cbn [mres gpen]. lra.
    + (* updated column *)
      apply abs_diff_eq_false in Sk. simpl in Sk.
      assert (Pn : 0 < sq xj). { pose proof (sq_nonneg xj). rewrite Rabs_right in Sk; lra. }
      cbn [mres] in E.
      set (R0 := mres cols (radd Y xj (vopp wj)) W) in *.
      assert (HR0 : mshape (length xj) (length wj) R0) by (apply mres_shape; auto).
      unfold vec in E. rewrite (Hp _ _ R0 xj wj Bj HR0 eq_refl eq_refl) in E.
      set (R1 := radd R0 xj wj) in *.
      assert (ER1 : R1 = mres cols Y W).
      { unfold R1, R0. rewrite <- (mres_radd (length xj) (length wj)); auto. f_equal. eapply radd_cancel; eauto. }
      assert (HR1 : mshape (length xj) (length wj) R1) by (apply radd_shape; auto).
      assert (NE : R1 <> []).
      { destruct HR1 as [L1 _]. intros Z. rewrite Z in L1. simpl in L1.
        apply (sq_pos_nonnil xj Pn). destruct xj; [reflexivity|discriminate]. }
      rewrite (columns_R (length wj) R1 NE (proj2 HR1)) in E.
      erewrite (map_ext (fun rc => dot R_ops (cc && t1) rc xj) (fun rc => Rdot rc xj)) in E by (intros; apply dot_R).
      unfold vec in E. rewrite (xtr_cols (length wj) xj R1 (proj2 HR1) ltac:(destruct HR1; lia)) in E.
      set (tmp := xtr (length wj) xj R1) in *.
      assert (Lt : length tmp = length wj) by (apply xtr_length; apply HR1).
      rewrite new_w_R in E. fold l1 l2 in E.
      set (wn := bcd_new_w l1 l2 (sq xj) tmp) in *.
      assert (Lwn : length wn = length wj) by (unfold wn; rewrite bcd_new_w_length; auto).
      match type of E with context [sweep cols ?a ?b ?c ?d ?f] =>
        destruct (sweep cols a b c d f) as [W2' [R2' m']] eqn:E' end.
      inversion E; subst W2 R2' m'. clear E.
      inversion BW2 as [|? ? Bn BW2']; subst.
      rewrite (Hm _ _ R1 xj wn Bn HR1 eq_refl Lwn) in E'.
      assert (ER2 : radd R1 xj (vopp wn) = mres cols (radd Y xj (vopp wn)) W).
      { rewrite ER1. symmetry. apply (mres_radd (length xj) (length wj)); auto. now rewrite vopp_length. }
      rewrite ER2 in E'.
      assert (HY'' : mshape (length xj) (length wj) (radd Y xj (vopp wn))) by (apply radd_shape; auto; now rewrite vopp_length).
      destruct (IH W _ _ _ W2' R2 m HY'' HC' ltac:(lia) FW' BW' E' BW2') as (A & B & C & D).
      split; [simpl; lia|]. split; [constructor; auto|]. split; [exact C|].
      unfold Mobj in *. cbn [mres gpen].
      (* the step on row j *)
      assert (S1 : / 2 * fsq (mres cols (radd Y xj (vopp wn)) W) + gpen1 l1 l2 wn
                   <= / 2 * fsq (mres cols (radd Y xj (vopp wj)) W) + gpen1 l1 l2 wj).
      { rewrite <- ER2. fold R0.
        assert (E0 : R0 = radd R1 xj (vopp wj)).
        { unfold R1. symmetry. eapply radd_cancel'; eauto. }
        rewrite E0.
        rewrite !(fsq_radd (length wj)) by (rewrite ?vopp_length; destruct HR1; auto; lia).
        fold tmp. rewrite !sq_vopp. unfold vopp. rewrite !(Rdot_comm tmp (vscale _ _)), !Rdot_vscale_l.
        assert (Hd : 0 < sq xj + l2) by lra.
        pose proof (bcd_update_minimises l1 l2 (sq xj) tmp wj H1 H2 ltac:(lra) Hd ltac:(lia)) as M.
        cbv zeta in M. fold wn in M. rewrite (Rdot_comm wn tmp), (Rdot_comm wj tmp). lra. }
      lra.
Qed.
End BSweep.

(* ------------------------------------------------------------------------------------------- *)
(** * a sweep that changes nothing: group first-order conditions of every row *)

Lemma xtr_zero t : forall x M, sq x = 0 -> Forall (fun r => length r = t) M -> xtr t x M = repeat 0 t.
Proof.
  induction x as [|xi x IH]; intros [|row M] Z F; simpl; auto.
  inversion F as [|? ? Fr F']; subst.
  unfold sq in Z. simpl in Z. pose proof (sq_nonneg x) as Nx. unfold sq in Nx.
  assert (xi * xi = 0) by nra. assert (xi = 0) by nra. subst xi.
  rewrite IH; auto; [|unfold sq; nra]. rewrite vscale_0. clear.
  unfold vadd. induction (length row) as [|k IHk]; simpl; auto. f_equal; [lra|exact IHk].
Qed.

Lemma vadd_vsub_cancel a : forall b, length b = length a -> vsub (vadd a b) b = a.
Proof.
  unfold vsub, vadd, vscale. induction a as [|a0 a IH]; intros [|b0 b] L; simpl in *; try discriminate; auto.
  f_equal; [lra|]. apply IH; lia.
Qed.

Lemma group_cond_zero t l1 l2 w : 0 <= l1 -> length w = t -> sq w = 0 -> group_cond (repeat 0 t) l1 l2 w 0.
Proof.
  intros H1 L Z. unfold group_cond. cbv zeta. split; [intros _|intros NZ; contradiction].
  rewrite (sq_zero_vec w Z), L, vscale_repeat0.
  replace (vsub (repeat 0 t) (repeat 0 t)) with (repeat 0 t).
  - rewrite norm_zero by apply sq_repeat0. lra.
  - rewrite <- (repeat_length 0 t) at 3. symmetry. apply vsub_repeat0.
Qed.

Section BFixed.
Variables (cc t1 : bool) (l1r pen nF e : R) (n t : nat).
Let l1 := nF * l1r * pen.
Let l2 := nF * (1 - l1r) * pen.
Hypothesis H1 : 0 <= l1.
Hypothesis H2 : 0 <= l2.
Hypothesis He : 0 <= e.
(** the guard of the residual updates and the rows for which it behaves like `norm != 0` *)
Variable nz : R -> bool.
Variable good : list R -> Prop.
Hypothesis Hp : forall n' t' M x w, good w -> mshape n' t' M -> length x = n' -> length w = t' ->
  (if nz (norm2 R_ops w) return (list (list R)) then rank1 R_ops true M x w else M) = radd M x w.
Hypothesis Hm : forall n' t' M x w, good w -> mshape n' t' M -> length x = n' -> length w = t' ->
  (if nz (norm2 R_ops w) return (list (list R)) then rank1 R_ops false M x w else M) = radd M x (vopp w).

Notation sweep := (bcd_sweep_gen R_ops (RXe e) cc l1r pen nF t1 nz).

Lemma bsweep_fixed : forall cols W R wmax dwmax W2 R2 m,
  mshape n t R -> Forall (fun c => length c = n) cols ->
  Forall2 (fun c w => length w = t /\ (sq c <= e -> sq c = 0 /\ sq w = 0)) cols W ->
  Forall good W ->
  sweep cols (map (fun c => sq c) cols) W R wmax dwmax = (W2, (R2, m)) ->
  W2 = W ->
  R2 = R /\ Forall2 (fun c w => group_cond (xtr t c R) l1 l2 w 0) cols W.
Proof.
  induction cols as [|xj cols IH]; intros W R wmax dwmax W2 R2 m HR HC HS BW E EW.
  - inversion HS; subst. simpl in E. inversion E; subst. split; auto.
  - inversion HS as [|? wj ? W' [Lwj Sj] HS']; subst. rename W' into W.
    inversion HC as [|? ? Lx HC']; subst. inversion BW as [|? ? Bj BW']; subst.
    cbn [map bcd_sweep_gen] in E. unfold vec in E.
    destruct (abs_diff_eq R_ops (RXe e) (sq xj) (zero R_ops)) eqn:Sk.
    + apply abs_diff_eq_true in Sk. simpl in Sk.
      pose proof (sq_nonneg xj) as Nn. rewrite Rabs_right in Sk by lra.
      destruct (Sj Sk) as [Zx Zw].
      match type of E with context [sweep cols ?a ?b ?c ?d ?f] =>
        destruct (sweep cols a b c d f) as [W2' [R2' m']] eqn:E' end.
      inversion E; subst. clear E.
      destruct (IH W R wmax dwmax W R2 m HR HC' HS' BW' E' eq_refl) as [A K].
      split; auto. constructor; auto.
      rewrite xtr_zero by (auto; apply HR). apply group_cond_zero; auto.
    + apply abs_diff_eq_false in Sk. simpl in Sk.
      assert (Pn : 0 < sq xj). { pose proof (sq_nonneg xj). rewrite Rabs_right in Sk; lra. }
      rewrite (Hp _ _ R xj wj Bj HR eq_refl eq_refl) in E.
      set (R1 := radd R xj wj) in *.
      assert (HR1 : mshape (length xj) (length wj) R1) by (apply radd_shape; auto).
      assert (NE : R1 <> []).
      { destruct HR1 as [L1 _]. intros Z. rewrite Z in L1. simpl in L1.
        apply (sq_pos_nonnil xj Pn). destruct xj; [reflexivity|discriminate]. }
      rewrite (columns_R (length wj) R1 NE (proj2 HR1)) in E.
      erewrite (map_ext (fun rc => dot R_ops (cc && t1) rc xj) (fun rc => Rdot rc xj)) in E by (intros; apply dot_R).
      unfold vec in E. rewrite (xtr_cols (length wj) xj R1 (proj2 HR1) ltac:(destruct HR1; lia)) in E.
      set (tmp := xtr (length wj) xj R1) in *.
      rewrite new_w_R in E. fold l1 l2 in E.
      set (wn := bcd_new_w l1 l2 (sq xj) tmp) in *.
      match type of E with context [sweep cols ?a ?b ?c ?d ?f] =>
        destruct (sweep cols a b c d f) as [W2' [R2' m']] eqn:E' end.
      injection E as Ewn EW2 ER Em. subst W2' R2' m'.
      rewrite Ewn in E'.
      rewrite (Hm _ _ R1 xj wj Bj HR1 eq_refl eq_refl) in E'.
      unfold R1 in E'. rewrite (radd_cancel' (length xj) (length wj)) in E' by auto.
      destruct (IH W R _ _ W R2 m HR HC' HS' BW' E' eq_refl) as [A K].
      split; auto. constructor; auto.
      assert (Hd : 0 < sq xj + l2) by lra.
      pose proof (bcd_update_kkt l1 l2 (sq xj) tmp H1 H2 Hd) as C. cbv zeta in C. fold wn in C.
      rewrite Ewn in C.
      replace (vsub tmp (vscale (sq xj) wj)) with (xtr (length wj) xj R) in C; [exact C|].
      unfold tmp, R1. rewrite (xtr_radd (length wj)) by (auto; destruct HR; auto; lia).
      fold (sq xj). symmetry. apply vadd_vsub_cancel.
      rewrite vscale_length, xtr_length; auto. apply HR.
Qed.
End BFixed.

(* ------------------------------------------------------------------------------------------- *)
(** * group first-order conditions of every row imply global optimality (row form) *)

Definition madd (A B : list (list R)) : list (list R) := map2l vadd A B.
Definition zmat (n t : nat) : list (list R) := repeat (repeat 0 t) n.

Lemma zmat_shape n t : mshape n t (zmat n t).
Proof.
  unfold zmat. split; [apply repeat_length|].
  apply Forall_forall. intros r Hr. apply repeat_spec in Hr. subst. apply repeat_length.
Qed.

Lemma madd_shape n t : forall A B, mshape n t A -> mshape n t B -> mshape n t (madd A B).
Proof.
  intros A B [LA FA] [LB FB]. subst n. revert B LB FB.
  induction A as [|a A IH]; intros [|b B] LB FB; simpl in *; try discriminate; [split; auto|].
  inversion FA; inversion FB; subst.
  destruct (IH ltac:(auto) B ltac:(lia) ltac:(auto)) as [X Y]. unfold madd in *. simpl.
  split; [simpl; lia|]. constructor; auto. rewrite vadd_length; lia.
Qed.

Lemma radd_madd n t : forall A B x a, mshape n t A -> mshape n t B -> length x = n ->
  radd (madd A B) x a = madd A (radd B x a).
Proof.
  intros A B x a [LA FA] [LB FB] Lx. subst n. revert B x LB FB Lx.
  induction A as [|a0 A IH]; intros [|b0 B] [|xi x] LB FB Lx; simpl in *; try discriminate; auto.
  inversion FA; inversion FB; subst. unfold radd, madd in *. simpl. f_equal.
  - apply vadd_assoc.
  - apply IH; auto.
Qed.

Lemma mres_madd n t : forall cols A B D, mshape n t A -> mshape n t B -> Forall (fun c => length c = n) cols ->
  Forall (fun d => length d = t) D ->
  mres cols (madd A B) D = madd A (mres cols B D).
Proof.
  induction cols as [|x cols IH]; intros A B D HA HB HC HD; simpl; auto.
  destruct D as [|d D]; auto. inversion HC; inversion HD; subst.
  rewrite (radd_madd (length x) (length d)); auto.
  apply IH; auto. apply radd_shape; auto. now rewrite vopp_length.
Qed.

Lemma madd_zmat n t : forall A, mshape n t A -> madd A (zmat n t) = A.
Proof.
  intros A [LA FA]. subst n. unfold madd, zmat. induction A as [|a A IH]; simpl; auto.
  inversion FA; subst. rewrite IH by auto. f_equal. apply vadd_repeat0.
Qed.

Lemma fsq_madd n t : forall A B, mshape n t A -> mshape n t B ->
  fsq (madd A B) = fsq A + 2 * fdot A B + fsq B.
Proof.
  intros A B [LA FA] [LB FB]. subst n. revert B LB FB. unfold fsq, madd.
  induction A as [|a A IH]; intros [|b B] LB FB; simpl in *; try discriminate; try lra.
  inversion FA; inversion FB; subst. rewrite IH by (auto; lia).
  rewrite Rdot_vadd_l by lia. rewrite !Rdot_vadd_r by lia. rewrite (Rdot_comm b a). lra.
Qed.

Lemma fdot_zmat t : forall A n, fdot A (zmat n t) = 0.
Proof.
  unfold zmat. induction A as [|a A IH]; intros [|n]; simpl; auto.
  rewrite IH, Rdot_repeat0_r. lra.
Qed.

Fixpoint gsum (t : nat) (cols : list (list R)) (M D : list (list R)) : R :=
  match cols, D with
  | x :: cols', d :: D' => Rdot (xtr t x M) d + gsum t cols' M D'
  | _, _ => 0
  end.

Lemma fdot_mres n t M : mshape n t M -> forall cols B D, mshape n t B -> Forall (fun c => length c = n) cols ->
  Forall (fun d => length d = t) D ->
  fdot M (mres cols B D) = fdot M B - gsum t cols M D.
Proof.
  intros [LM FM]. induction cols as [|x cols IH]; intros B D HB HC HD; simpl; [lra|].
  destruct D as [|d D]; [lra|]. inversion HC; inversion HD; subst.
  rewrite IH by (auto; apply radd_shape; auto; now rewrite vopp_length).
  destruct HB as [LB FB].
  rewrite (fdot_outer (length d)) by (auto; rewrite ?vopp_length; auto; lia).
  unfold vopp. rewrite (Rdot_comm _ (vscale (-1) d)), Rdot_vscale_l, (Rdot_comm d). lra.
Qed.

(** the quadratic part: moving from the residual M by the coefficient change D *)
Lemma quad_lower_rows n t M cols D : mshape n t M -> Forall (fun c => length c = n) cols ->
  Forall (fun d => length d = t) D ->
  / 2 * fsq (mres cols M D) >= / 2 * fsq M - gsum t cols M D.
Proof.
  intros HM HC HD.
  rewrite <- (madd_zmat n t M HM) at 1.
  rewrite (mres_madd n t) by (auto; apply zmat_shape).
  assert (HN : mshape n t (mres cols (zmat n t) D)) by (apply mres_shape; auto; apply zmat_shape).
  rewrite (fsq_madd n t) by auto.
  rewrite (fdot_mres n t M HM) by (auto; apply zmat_shape).
  rewrite fdot_zmat. pose proof (fsq_nonneg (mres cols (zmat n t) D)). lra.
Qed.

Lemma radd_radd_same n t M x a b : mshape n t M -> length x = n -> length a = t -> length b = t ->
  radd (radd M x a) x b = radd M x (vadd a b).
Proof.
  intros [L F] Lx La Lb. subst n. revert x Lx.
  induction M as [|row M IH]; intros [|xi x] Lx; simpl in *; try discriminate; auto.
  inversion F; subst. unfold radd in *. simpl. f_equal.
  - rewrite vadd_assoc. f_equal. symmetry. apply vscale_vadd'.
  - apply IH; auto.
Qed.

Lemma vopp_split w' : forall w, length w = length w' -> vadd (vopp w) (vopp (vsub w' w)) = vopp w'.
Proof.
  unfold vopp, vsub, vadd, vscale. induction w' as [|a w' IH]; intros [|b w] L; simpl in *; try discriminate; auto.
  f_equal; [lra|]. apply IH; lia.
Qed.

Lemma mres_split n t : forall cols Y W W', mshape n t Y -> Forall (fun c => length c = n) cols ->
  length W = length cols -> length W' = length cols ->
  Forall (fun w => length w = t) W -> Forall (fun w => length w = t) W' ->
  mres cols Y W' = mres cols (mres cols Y W) (map2l vsub W' W).
Proof.
  induction cols as [|x cols IH]; intros Y W W' HY HC LW LW' FW FW'.
  - destruct W, W'; try discriminate. reflexivity.
  - destruct W as [|w W], W' as [|w' W']; try discriminate.
    inversion HC; inversion FW; inversion FW'; subst. simpl in *.
    assert (Ld : length (vopp (vsub w' w)) = length w) by (rewrite vopp_length, vsub_length; lia).
    assert (FD : Forall (fun d => length d = length w) (map2l vsub W' W)).
    { destruct (map2l_vsub_shape (length w) W' W ltac:(lia) ltac:(auto) ltac:(auto)) as [_ X]. exact X. }
    rewrite <- (mres_radd (length x) (length w)) by (auto; apply radd_shape; auto; now rewrite vopp_length).
    rewrite (radd_radd_same (length x) (length w)) by (auto; now rewrite vopp_length).
    rewrite vopp_split by lia.
    apply IH; auto; try lia. apply radd_shape; auto. rewrite vopp_length. lia.
Qed.

Lemma gpen_lower_rows t l1 l2 : 0 <= l1 -> 0 <= l2 -> forall cols M W W',
  Forall (fun r => length r = t) M ->
  Forall2 (fun c w => group_cond (xtr t c M) l1 l2 w 0) cols W ->
  Forall (fun w => length w = t) W -> Forall (fun w => length w = t) W' -> length W' = length W ->
  gpen l1 l2 W' - gpen l1 l2 W - gsum t cols M (map2l vsub W' W) >= 0.
Proof.
  intros H1 H2. induction cols as [|x cols IH]; intros M W W' FM K FW FW' L.
  - inversion K; subst. destruct W'; try discriminate. simpl. lra.
  - inversion K as [|? w ? W0 Kj K']; subst. destruct W' as [|w' W']; try discriminate.
    inversion FW; inversion FW'; subst. simpl in *.
    specialize (IH M W0 W' FM K' ltac:(auto) ltac:(auto) ltac:(lia)).
    pose proof (group_ineq (xtr (length w) x M) l1 l2 w 0 w' H1 H2
                  ltac:(apply xtr_length; auto) ltac:(lia) Kj) as G.
    rewrite (Rdot_comm (xtr _ _ _) (vsub w' w)). lra.
Qed.

(** first-order conditions of every row (exactly) imply optimality against every other coefficient matrix *)
Theorem group_rows_optimal n t l1 l2 cols Y W W' : 0 <= l1 -> 0 <= l2 ->
  mshape n t Y -> Forall (fun c => length c = n) cols ->
  length W = length cols -> length W' = length cols ->
  Forall (fun w => length w = t) W -> Forall (fun w => length w = t) W' ->
  Forall2 (fun c w => group_cond (xtr t c (mres cols Y W)) l1 l2 w 0) cols W ->
  / 2 * fsq (mres cols Y W') + gpen l1 l2 W' >= / 2 * fsq (mres cols Y W) + gpen l1 l2 W.
Proof.
  intros H1 H2 HY HC LW LW' FW FW' K.
  assert (HR : mshape n t (mres cols Y W)) by (apply mres_shape; auto).
  rewrite (mres_split n t cols Y W W') by auto.
  assert (FD : Forall (fun d => length d = t) (map2l vsub W' W)).
  { destruct (map2l_vsub_shape t W' W ltac:(lia) ltac:(auto) ltac:(auto)) as [_ X]. exact X. }
  pose proof (quad_lower_rows n t (mres cols Y W) cols _ HR HC FD) as Q.
  pose proof (gpen_lower_rows t l1 l2 H1 H2 cols (mres cols Y W) W W' (proj2 HR) K FW FW' ltac:(lia)) as G.
  lra.
Qed.

(* ------------------------------------------------------------------------------------------- *)
(** * the row form and the task form (Common/Convex.v [mobjective]) of the objective agree *)

Lemma tl_vadd a b : tl (vadd a b) = vadd (tl a) (tl b).
Proof. destruct a, b; unfold vadd; simpl; auto. destruct a; reflexivity. Qed.
Lemma tl_vscale k a : tl (vscale k a) = vscale k (tl a).
Proof. destruct a; reflexivity. Qed.

Lemma map_tl_radd : forall M x a, map (@tl R) (radd M x a) = radd (map (@tl R) M) x (tl a).
Proof.
  unfold radd. induction M as [|row M IH]; intros [|xi x] a; simpl; auto.
  rewrite IH. f_equal. now rewrite tl_vadd, tl_vscale.
Qed.

Lemma mres_tl : forall cols Y W, map (@tl R) (mres cols Y W) = mres cols (map (@tl R) Y) (map (@tl R) W).
Proof.
  induction cols as [|x cols IH]; intros Y W; simpl; auto.
  destruct W as [|w W]; simpl; auto. rewrite IH, map_tl_radd. unfold vopp. now rewrite tl_vscale.
Qed.

Lemma map_hd_radd t : forall M x w, Forall (fun r => length r = S t) M -> length w = S t -> length x = length M ->
  map (hd 0) (radd M x (vopp w)) = vsub (map (hd 0) M) (vscale (hd 0 w) x).
Proof.
  intros M x w F Lw. destruct w as [|w0 w]; [discriminate|]. revert x.
  unfold radd, vopp, vsub, vadd, vscale. induction M as [|row M IH]; intros [|xi x] Lx; simpl in *; try discriminate; auto.
  inversion F as [|? ? Fr F']; subst. destruct row as [|r0 row]; [discriminate|]. simpl.
  rewrite IH by (auto; lia). f_equal. lra.
Qed.

Lemma residual_nil y : residual [] y [] = y.
Proof. unfold residual. simpl. apply vsub_repeat0. Qed.

Lemma mres_hd n t : forall cols Y W, mshape n (S t) Y -> Forall (fun c => length c = n) cols ->
  length W = length cols -> Forall (fun w => length w = S t) W ->
  map (hd 0) (mres cols Y W) = residual cols (map (hd 0) Y) (map (hd 0) W).
Proof.
  induction cols as [|x cols IH]; intros Y W HY HC LW FW.
  - destruct W; try discriminate. simpl. now rewrite residual_nil.
  - destruct W as [|w W]; try discriminate. inversion HC; inversion FW; subst. simpl in *.
    rewrite IH by (auto; try lia; apply radd_shape; auto; rewrite vopp_length; lia).
    destruct HY as [LY FY].
    rewrite (map_hd_radd t) by (auto; lia).
    rewrite residual_cons; auto.
    + now rewrite map_length.
    + rewrite map_length. eapply Forall_impl; [|exact H2]. intros c Hc. simpl in Hc. lia.
Qed.

Lemma fsq_hd_tl t M : Forall (fun r => length r = S t) M ->
  fsq M = sq (map (hd 0) M) + fsq (map (@tl R) M).
Proof.
  intros F. unfold fsq, sq. apply fdot_hd_tl; auto; intros a Ha E; rewrite Forall_forall in F;
    specialize (F a Ha); subst a; discriminate.
Qed.

Lemma tl_shape n t M : mshape n (S t) M -> mshape n t (map (@tl R) M).
Proof.
  intros [L F]. split; [now rewrite map_length|].
  apply Forall_map. eapply Forall_impl; [|exact F]. intros a Ha. destruct a; simpl in *; [discriminate|lia].
Qed.
Lemma tl_rows t W : Forall (fun w => length w = S t) W -> Forall (fun w : list R => length w = t) (map (@tl R) W).
Proof.
  intros F. apply Forall_map. eapply Forall_impl; [|exact F]. intros a Ha. destruct a; simpl in *; [discriminate|lia].
Qed.

Lemma quad_rows_tasks n : forall t cols Y W, mshape n t Y -> Forall (fun c => length c = n) cols ->
  length W = length cols -> Forall (fun w => length w = t) W ->
  / 2 * fsq (mres cols Y W) = quad_tasks cols (trans t Y) (trans t W).
Proof.
  induction t as [|t IH]; intros cols Y W HY HC LW FW.
  - simpl. pose proof (mres_shape n 0 cols Y W HY HC FW) as [_ F0]. unfold fsq.
    rewrite fdot_nil_rows; [lra|]. eapply Forall_impl; [|exact F0]. intros a Ha. now destruct a.
  - cbn [trans quad_tasks].
    pose proof (mres_shape n (S t) cols Y W HY HC FW) as [_ FS].
    rewrite (fsq_hd_tl t _ FS), (mres_hd n t) by auto. rewrite mres_tl.
    rewrite <- IH; auto.
    + lra.
    + now apply tl_shape.
    + now rewrite map_length.
    + now apply tl_rows.
Qed.

Lemma trans_cons t : forall (w : list R) W, length w = t ->
  map (hd 0) (trans t (w :: W)) = w /\ map (@tl R) (trans t (w :: W)) = trans t W.
Proof.
  induction t as [|t IH]; intros w W L.
  - destruct w; [|discriminate]. split; reflexivity.
  - destruct w as [|w0 w]; [discriminate|]. simpl in L.
    destruct (IH w (map (@tl R) W) ltac:(lia)) as [A B]. cbn [trans map hd tl]. split.
    + f_equal. exact A.
    + f_equal. exact B.
Qed.

Lemma trans_trans t : forall W, Forall (fun w => length w = t) W -> trans (length W) (trans t W) = W.
Proof.
  induction W as [|w W IH]; intros F; simpl; auto.
  inversion F; subst. destruct (trans_cons (length w) w W eq_refl) as [A B].
  rewrite A, B, IH; auto.
Qed.

Lemma trans_length_rows t W : length (trans t W) = t.
Proof. apply trans_length. Qed.

(** 1/2 |Y - X W|_F^2 + l1 sum_j |W_j| + l2/2 |W|_F^2 in row form = [mobjective] on the task columns *)
Lemma Mobj_tasks n t l1 l2 cols Y W : mshape n t Y -> Forall (fun c => length c = n) cols ->
  length W = length cols -> Forall (fun w => length w = t) W ->
  / 2 * fsq (mres cols Y W) + gpen l1 l2 W = mobjective cols (trans t Y) l1 l2 (trans t W).
Proof.
  intros HY HC LW FW. unfold mobjective.
  rewrite (quad_rows_tasks n t cols Y W HY HC LW FW). rewrite <- LW, trans_trans by auto. reflexivity.
Qed.

(* ------------------------------------------------------------------------------------------- *)
(** * the sweep theorems in the form quoted by PropertiesBlock.v *)

Lemma Forall_True' {A} (l : list A) : Forall (fun _ => True) l.
Proof. induction l; constructor; auto. Qed.

(** the code as it is (exact test `norm != 0`): every input, every tolerance e >= 0 of the column-skipping test *)
Lemma bcd_sweep_noninc cc t1 l1r pen nF e n t cols Y W wmax dwmax W2 R2 m :
  0 <= nF * l1r * pen -> 0 <= nF * (1 - l1r) * pen -> 0 <= e ->
  mshape n t Y -> Forall (fun c => length c = n) cols -> length W = length cols -> Forall (fun w => length w = t) W ->
  bcd_sweep R_ops (RXe e) cc l1r pen nF t1 cols (map (fun c => dot R_ops cc c c) cols) W (mres cols Y W) wmax dwmax
    = (W2, (R2, m)) ->
  let P V := mobjective cols (trans t Y) (nF * l1r * pen) (nF * (1 - l1r) * pen) (trans t V) in
  length W2 = length cols /\ Forall (fun w => length w = t) W2 /\ R2 = mres cols Y W2 /\ P W2 <= P W.
Proof.
  intros H1 H2 He HY HC LW FW E P. rewrite norms_R in E. unfold bcd_sweep in E.
  destruct (bsweep_spec cc t1 l1r pen nF e n t H1 H2 He (nonzero R_ops) (fun _ => True)
              (fun n' t' M x w _ HM Lx Lw => exact_plus n' t' M x w HM Lx Lw)
              (fun n' t' M x w _ HM Lx Lw => exact_minus n' t' M x w HM Lx Lw)
              cols W Y wmax dwmax W2 R2 m HY HC LW FW (Forall_True' W) E (Forall_True' W2))
    as (A & B & C & D).
  repeat split; auto. unfold P. unfold Mobj in D.
  rewrite <- !(Mobj_tasks n t) by (auto; lia). exact D.
Qed.

(** ... in particular with the literal tolerance 2^-52 of the implementation *)
Lemma bcd_sweep_noninc_literal cc t1 l1r pen nF n t cols Y W wmax dwmax W2 R2 m :
  0 <= nF * l1r * pen -> 0 <= nF * (1 - l1r) * pen ->
  mshape n t Y -> Forall (fun c => length c = n) cols -> length W = length cols -> Forall (fun w => length w = t) W ->
  bcd_sweep R_ops RX cc l1r pen nF t1 cols (map (fun c => dot R_ops cc c c) cols) W (mres cols Y W) wmax dwmax
    = (W2, (R2, m)) ->
  let P V := mobjective cols (trans t Y) (nF * l1r * pen) (nF * (1 - l1r) * pen) (trans t V) in
  length W2 = length cols /\ Forall (fun w => length w = t) W2 /\ R2 = mres cols Y W2 /\ P W2 <= P W.
Proof.
  intros H1 H2 HY HC LW FW E. change RX with (RXe eps64) in E.
  assert (He : 0 <= eps64) by (unfold eps64; lra).
  exact (bcd_sweep_noninc cc t1 l1r pen nF eps64 n t cols Y W wmax dwmax W2 R2 m H1 H2 He HY HC LW FW E).
Qed.

(** the code before the repair of F52 (test `abs_diff_ne!(norm, 0)`): only outside the band (0, e] *)
Lemma bcd_sweep_absdiff_noninc cc t1 l1r pen nF e n t cols Y W wmax dwmax W2 R2 m :
  0 <= nF * l1r * pen -> 0 <= nF * (1 - l1r) * pen -> 0 <= e ->
  mshape n t Y -> Forall (fun c => length c = n) cols -> length W = length cols -> Forall (fun w => length w = t) W ->
  bcd_sweep_absdiff R_ops (RXe e) cc l1r pen nF t1 cols (map (fun c => dot R_ops cc c c) cols) W (mres cols Y W) wmax dwmax
    = (W2, (R2, m)) ->
  rband_free e W -> rband_free e W2 ->
  let P V := mobjective cols (trans t Y) (nF * l1r * pen) (nF * (1 - l1r) * pen) (trans t V) in
  length W2 = length cols /\ Forall (fun w => length w = t) W2 /\ R2 = mres cols Y W2 /\ P W2 <= P W.
Proof.
  intros H1 H2 He HY HC LW FW E BW BW2 P. rewrite norms_R in E. unfold bcd_sweep_absdiff in E.
  destruct (bsweep_spec cc t1 l1r pen nF e n t H1 H2 He (fun a => abs_diff_ne R_ops (RXe e) a 0)
              (fun w => sq w = 0 \/ e < norm w)
              (fun n' t' M x w B HM Lx Lw => guarded_plus e n' t' M x w He B HM Lx Lw)
              (fun n' t' M x w B HM Lx Lw => guarded_minus e n' t' M x w He B HM Lx Lw)
              cols W Y wmax dwmax W2 R2 m HY HC LW FW BW E BW2)
    as (A & B & C & D).
  repeat split; auto. unfold P. unfold Mobj in D.
  rewrite <- !(Mobj_tasks n t) by (auto; lia). exact D.
Qed.

Lemma bcd_fixed_point_is_kkt cc t1 l1r pen nF e n t cols Y W wmax dwmax R2 m :
  0 <= nF * l1r * pen -> 0 <= nF * (1 - l1r) * pen -> 0 <= e ->
  mshape n t Y -> Forall (fun c => length c = n) cols ->
  Forall2 (fun c w => length w = t /\ (sq c <= e -> sq c = 0 /\ sq w = 0)) cols W ->
  bcd_sweep R_ops (RXe e) cc l1r pen nF t1 cols (map (fun c => dot R_ops cc c c) cols) W (mres cols Y W) wmax dwmax
    = (W, (R2, m)) ->
  let l1 := nF * l1r * pen in
  let l2 := nF * (1 - l1r) * pen in
  Forall2 (fun c w => group_cond (xtr t c (mres cols Y W)) l1 l2 w 0) cols W
  /\ forall W', length W' = length cols -> Forall (fun w => length w = t) W' ->
       mobjective cols (trans t Y) l1 l2 (trans t W') >= mobjective cols (trans t Y) l1 l2 (trans t W).
Proof.
  intros H1 H2 He HY HC HS E l1 l2. rewrite norms_R in E. unfold bcd_sweep in E.
  assert (LW : length W = length cols) by (symmetry; eapply F2_length; eauto).
  assert (FW : Forall (fun w => length w = t) W).
  { clear - HS. induction HS as [|c w cs ws [L _] _ IH]; constructor; auto. }
  assert (HR : mshape n t (mres cols Y W)) by (apply mres_shape; auto).
  destruct (bsweep_fixed cc t1 l1r pen nF e n t H1 H2 He (nonzero R_ops) (fun _ => True)
              (fun n' t' M x w _ HM Lx Lw => exact_plus n' t' M x w HM Lx Lw)
              (fun n' t' M x w _ HM Lx Lw => exact_minus n' t' M x w HM Lx Lw)
              cols W _ wmax dwmax W R2 m HR HC HS (Forall_True' W) E eq_refl) as [_ K].
  split; [exact K|]. intros W' LW' FW'.
  rewrite <- !(Mobj_tasks n t) by (auto; lia).
  apply (group_rows_optimal n t); auto.
Qed.

Lemma zero_cols_rows_exact t (cols W : list (list R)) :
  Forall2 (fun c w => length w = t /\ (sq c = 0 -> sq w = 0)) cols W ->
  Forall2 (fun c w => length w = t /\ (sq c <= 0 -> sq c = 0 /\ sq w = 0)) cols W.
Proof.
  induction 1 as [|c w cs ws [L Hc] Hr IH]; constructor; auto.
  split; auto. intros Hle. pose proof (sq_nonneg c). assert (sq c = 0) by lra. auto.
Qed.

Lemma bcd_fixed_point_is_kkt_exact cc t1 l1r pen nF n t cols Y W wmax dwmax R2 m :
  0 <= nF * l1r * pen -> 0 <= nF * (1 - l1r) * pen ->
  mshape n t Y -> Forall (fun c => length c = n) cols ->
  Forall2 (fun c w => length w = t /\ (sq c = 0 -> sq w = 0)) cols W ->
  bcd_sweep R_ops (RXe 0) cc l1r pen nF t1 cols (map (fun c => dot R_ops cc c c) cols) W (mres cols Y W) wmax dwmax
    = (W, (R2, m)) ->
  let l1 := nF * l1r * pen in
  let l2 := nF * (1 - l1r) * pen in
  Forall2 (fun c w => group_cond (xtr t c (mres cols Y W)) l1 l2 w 0) cols W
  /\ forall W', length W' = length cols -> Forall (fun w => length w = t) W' ->
       mobjective cols (trans t Y) l1 l2 (trans t W') >= mobjective cols (trans t Y) l1 l2 (trans t W).
Proof.
  intros H1 H2 HY HC HS E.
  exact (bcd_fixed_point_is_kkt cc t1 l1r pen nF 0 n t cols Y W wmax dwmax R2 m H1 H2 (Rle_refl 0) HY HC
           (zero_cols_rows_exact t cols W HS) E).
Qed.

(** the block update in the notation of the model: what `block_soft_thresholding(tmp, n l1_ratio penalty) /
    (|x_j|^2 + n (1 - l1_ratio) penalty)` returns minimises the objective over row j *)
Lemma bcd_update_minimises_row l1r pen nF nj (tmp v : list R) :
  0 <= nF * l1r * pen -> 0 <= nF * (1 - l1r) * pen -> 0 <= nj -> 0 < nj + nF * (1 - l1r) * pen -> length v = length tmp ->
  let wn := map (fun u => div R_ops u (add R_ops nj (mul R_ops (mul R_ops nF (sub R_ops (one R_ops) l1r)) pen)))
                (block_soft_thresholding R_ops tmp (mul R_ops (mul R_ops nF l1r) pen)) in
  let g u := / 2 * nj * sq u - Rdot tmp u + gpen1 (nF * l1r * pen) (nF * (1 - l1r) * pen) u in
  g wn <= g v.
Proof.
  intros H1 H2 Hn Hd Lv wn g. unfold wn. rewrite new_w_R.
  exact (bcd_update_minimises _ _ nj tmp v H1 H2 Hn Hd Lv).
Qed.

(** skipped columns keep their row: started from W = 0 (as block_coordinate_descent does), the rows of columns
    with |x_j|^2 <= e stay zero *)
Lemma bcd_sweep_gen_keeps_skipped cc t1 l1r pen nF e nz : forall cols W M wmax dwmax W2 R2 m,
  length W = length cols ->
  bcd_sweep_gen R_ops (RXe e) cc l1r pen nF t1 nz cols (map (fun c => sq c) cols) W M wmax dwmax = (W2, (R2, m)) ->
  Forall2 (fun c w => sq c <= e -> sq w = 0) cols W -> Forall2 (fun c w => sq c <= e -> sq w = 0) cols W2.
Proof.
  induction cols as [|xj cols IH]; intros W M wmax dwmax W2 R2 m LW E HS.
  - destruct W; try discriminate. simpl in E. inversion E; subst. constructor.
  - destruct W as [|wj W]; try discriminate. inversion HS as [|? ? ? ? Sj HS']; subst.
    assert (LW' : length W = length cols) by (simpl in LW; lia).
    cbn [map bcd_sweep_gen] in E.
    destruct (abs_diff_eq R_ops (RXe e) (sq xj) (zero R_ops)) eqn:Sk.
    + match type of E with context [bcd_sweep_gen _ _ _ _ _ _ _ _ cols ?a ?b ?c ?d ?f] =>
        destruct (bcd_sweep_gen R_ops (RXe e) cc l1r pen nF t1 nz cols a b c d f) as [W2' [R2' m']] eqn:E' end.
      inversion E; subst. constructor; auto. eapply IH; eauto.
    + match type of E with context [bcd_sweep_gen _ _ _ _ _ _ _ _ cols ?a ?b ?c ?d ?f] =>
        destruct (bcd_sweep_gen R_ops (RXe e) cc l1r pen nF t1 nz cols a b c d f) as [W2' [R2' m']] eqn:E' end.
      inversion E; subst. constructor.
      * apply abs_diff_eq_false in Sk. simpl in Sk. pose proof (sq_nonneg xj). rewrite Rabs_right in Sk by lra.
        intros; lra.
      * eapply IH; eauto.
Qed.
Lemma bcd_sweep_keeps_skipped cc t1 l1r pen nF e cols W M wmax dwmax W2 R2 m :
  length W = length cols ->
  bcd_sweep R_ops (RXe e) cc l1r pen nF t1 cols (map (fun c => dot R_ops cc c c) cols) W M wmax dwmax = (W2, (R2, m)) ->
  Forall2 (fun c w => sq c <= e -> sq w = 0) cols W -> Forall2 (fun c w => sq c <= e -> sq w = 0) cols W2.
Proof.
  intros LW E. rewrite norms_R in E. unfold bcd_sweep in E. eapply bcd_sweep_gen_keeps_skipped; eauto.
Qed.

(* ------------------------------------------------------------------------------------------- *)
(** * non-vacuity *)

(** one feature x = (1), one task with target (1), lasso threshold 2: the zero matrix is a fixed point of the sweep *)
Example ex_bcd_fixed_point : exists R2 m,
  bcd_sweep R_ops (RXe 0) false 1 2 1 true [[1]] (map (fun c => dot R_ops false c c) [[1]]) [[0]]
    (mres [[1]] [[1]] [[0]]) 0 0 = ([[0]], (R2, m)).
Proof.
  rewrite norms_R. unfold bcd_sweep. cbn [map bcd_sweep_gen]. unfold vec.
  assert (S1 : sq [1] = 1) by (unfold sq; simpl; ring).
  replace (abs_diff_eq R_ops (RXe 0) (sq [1]) (zero R_ops)) with false
    by (symmetry; apply abs_diff_eq_false; rewrite S1, Rabs_right; lra).
  assert (HR : mshape 1 1 (mres [[1]] [[1]] [[0]])) by (apply mres_shape; repeat constructor).
  rewrite (exact_plus 1 1 _ [1] [0] HR eq_refl eq_refl).
  set (R1 := radd (mres [[1]] [[1]] [[0]]) [1] [0]).
  assert (E1 : R1 = [[1]]).
  { unfold R1, radd, vopp, vadd, vscale. simpl. repeat f_equal. lra. }
  rewrite E1.
  rewrite (columns_R 1 [[1]]) by (try discriminate; repeat constructor).
  erewrite (map_ext (fun rc => dot R_ops (false && true) rc [1]) (fun rc => Rdot rc [1])) by (intros; apply dot_R).
  unfold vec. rewrite (xtr_cols 1 [1] [[1]]) by (repeat constructor).
  rewrite new_w_R.
  assert (Ew : bcd_new_w (1 * 1 * 2) (1 * (1 - 1) * 2) (sq [1]) (xtr 1 [1] [[1]]) = [0]).
  { unfold bcd_new_w. replace (xtr 1 [1] [[1]]) with [1] by (simpl; unfold vadd, vscale; simpl; f_equal; lra).
    assert (N1 : norm [1] = 1) by (unfold norm; rewrite S1; apply sqrt_1).
    rewrite N1. destruct (Rle_dec 1 (1 * 1 * 2)); [|lra]. unfold vscale. simpl. f_equal. ring. }
  rewrite Ew.
  rewrite (exact_minus 1 1 [[1]] [1] [0] ltac:(split; repeat constructor) eq_refl eq_refl).
  cbn [bcd_sweep_gen]. eexists. eexists. reflexivity.
Qed.
Example ex_bcd_fixed_point_hyp :
  Forall2 (fun c w => length w = 1%nat /\ (sq c = 0 -> sq w = 0)) [[1]] [[0]] /\ mshape 1 1 [[1]].
Proof. split; [|split; repeat constructor]. repeat constructor. intros _. unfold sq; simpl; ring. Qed.

(* ------------------------------------------------------------------------------------------- *)
(** * finding F52 about the block sweep before its repair: with the literal tolerance 2^-52 the band mattered *)

(** one step of the pre-repair block sweep when the norms of the old and of the new row are within the tolerance
    of zero: the row is stored, the residual matrix is left as it was *)
Lemma bsweep_cons_stale e cc t1 l1r pen nF n t xj cols norms wj W M wmax dwmax : 0 <= e ->
  e < sq xj -> norm wj <= e -> mshape n t M -> M <> [] -> length xj = n ->
  let wn := bcd_new_w (nF * l1r * pen) (nF * (1 - l1r) * pen) (sq xj) (xtr t xj M) in
  norm wn <= e ->
  bcd_sweep_absdiff R_ops (RXe e) cc l1r pen nF t1 (xj :: cols) (sq xj :: norms) (wj :: W) M wmax dwmax
  = let '(W2, rest) := bcd_sweep_absdiff R_ops (RXe e) cc l1r pen nF t1 cols norms W M
                         (Rmax wmax (norm wn)) (Rmax dwmax (Rabs (norm wn - norm wj)))
    in (wn :: W2, rest).
Proof.
  intros He Hn Hw HM NE Lx wn Hwn. unfold bcd_sweep_absdiff. cbn [bcd_sweep_gen]. unfold vec.
  replace (abs_diff_eq R_ops (RXe e) (sq xj) (zero R_ops)) with false
    by (symmetry; apply abs_diff_eq_false; pose proof (sq_nonneg xj); rewrite Rabs_right; lra).
  unfold abs_diff_ne. rewrite (norm2_R wj).
  replace (abs_diff_eq R_ops (RXe e) (norm wj) (zero R_ops)) with true
    by (symmetry; apply abs_diff_eq_true; pose proof (norm_nonneg wj); rewrite Rabs_right; lra).
  cbn [negb].
  rewrite (columns_R t M NE (proj2 HM)).
  erewrite (map_ext (fun rc => dot R_ops (cc && t1) rc xj) (fun rc => Rdot rc xj)) by (intros; apply dot_R).
  unfold vec. rewrite (xtr_cols t xj M (proj2 HM) ltac:(destruct HM; lia)).
  rewrite new_w_R. fold wn. rewrite !norm2_R.
  replace (abs_diff_eq R_ops (RXe e) (norm wn) (zero R_ops)) with true
    by (symmetry; apply abs_diff_eq_true; pose proof (norm_nonneg wn); rewrite Rabs_right; lra).
  reflexivity.
Qed.

(** three copies of the column (1), one task with target 2^-52, no penalty: every block update returns the row
    (2^-52), whose norm `abs_diff_ne!(norm_w_j, 0)` treated as zero; the rows were stored, the residual matrix
    was never updated, and the objective of the returned matrix is four times that of the starting point *)
Lemma bcd_sweep_band_refuted :
  exists (cols Y W W2 R2 : list (list R)) (m : R * R),
    bcd_sweep_absdiff R_ops RX false 0 0 1 true cols (map (fun c => dot R_ops false c c) cols) W (mres cols Y W) 0 0 = (W2, (R2, m))
    /\ R2 <> mres cols Y W2
    /\ mobjective cols (trans 1 Y) 0 0 (trans 1 W) < mobjective cols (trans 1 Y) 0 0 (trans 1 W2).
Proof.
  exists [[1]; [1]; [1]], [[eps64]], [[0]; [0]; [0]], [[eps64]; [eps64]; [eps64]], [[eps64]].
  change RX with (RXe eps64). rewrite norms_R.
  assert (Pe : 0 < eps64) by (unfold eps64; lra).
  assert (Er : mres [[1]; [1]; [1]] [[eps64]] [[0]; [0]; [0]] = [[eps64]]).
  { simpl. unfold radd, vopp, vadd, vscale. simpl. repeat f_equal. lra. }
  rewrite Er. cbn [map].
  assert (S1 : sq [1] = 1) by (unfold sq; simpl; ring).
  assert (N0 : norm [0] = 0) by (apply norm_zero; unfold sq; simpl; ring).
  assert (Ne : norm [eps64] = eps64).
  { unfold norm, sq. simpl. replace (eps64 * eps64 + 0) with (Rsqr eps64) by (unfold Rsqr; ring).
    apply sqrt_Rsqr. lra. }
  assert (HM : mshape 1 1 [[eps64]]) by (split; repeat constructor).
  assert (Ew : bcd_new_w (1 * 0 * 0) (1 * (1 - 0) * 0) (sq [1]) (xtr 1 [1] [[eps64]]) = [eps64]).
  { replace (xtr 1 [1] [[eps64]]) with [eps64] by (simpl; unfold vadd, vscale; simpl; f_equal; lra).
    unfold bcd_new_w. rewrite Ne. destruct (Rle_dec eps64 (1 * 0 * 0)); [lra|].
    rewrite S1. unfold vscale. simpl. f_equal. field. lra. }
  assert (St : forall cols norms W wmax dwmax,
     bcd_sweep_absdiff R_ops (RXe eps64) false 0 0 1 true ([1] :: cols) (sq [1] :: norms) ([0] :: W) [[eps64]] wmax dwmax
     = let '(W2, rest) := bcd_sweep_absdiff R_ops (RXe eps64) false 0 0 1 true cols norms W [[eps64]]
                            (Rmax wmax (norm [eps64])) (Rmax dwmax (Rabs (norm [eps64] - norm [0])))
       in ([eps64] :: W2, rest)).
  { intros. rewrite (bsweep_cons_stale eps64 false true 0 0 1 1 1); rewrite ?Ew; auto; try lra; try discriminate.
    rewrite S1. unfold eps64. lra. }
  rewrite !St. unfold bcd_sweep_absdiff. cbn [bcd_sweep_gen]. eexists. split; [reflexivity|]. split.
  - simpl. unfold radd, vopp, vadd, vscale. simpl. intros C. inversion C as [C1]. lra.
  - unfold mobjective. cbn [length trans map hd tl quad_tasks gpen]. unfold gpen1.
    unfold residual, vsub, vadd, vscale, sq. simpl. nra.
Qed.
