(** C11 - (1) uniqueness of the least-squares solution on full column rank;
          (2) what the reported duality gap bounds when an intercept is fitted: always the suboptimality
              for the fixed intercept mean(y); the joint suboptimality only on centred features
              (outside the class of finding F7), refuted by a witness inside that class. *)
From Coq Require Import List ZArith QArith Qreals Reals Lra Lia Psatz Bool.
From LinfaVerif Require Import Common.Num Common.NdSum Common.QF Common.Convex C11.Model C11.Proofs.
Import ListNotations.
Local Open Scope R_scope.

(* ------------------------------------------------------------------------------------------- *)
(** * linearity of the predictions [X 1] (w, b) *)

Lemma vscale_repeat k c n : vscale k (repeat c n) = repeat (k * c) n.
Proof. unfold vscale. induction n; simpl; auto. now rewrite IHn. Qed.
Lemma vadd_repeat a b n : vadd (repeat a n) (repeat b n) = repeat (a + b) n.
Proof. unfold vadd. induction n; simpl; auto. now rewrite IHn. Qed.

Lemma vscale_vadd k a : forall b, vscale k (vadd a b) = vadd (vscale k a) (vscale k b).
Proof.
  unfold vscale, vadd. induction a as [|x a IH]; intros [|z b]; simpl; auto. rewrite IH. f_equal. lra.
Qed.
Lemma vscale_vscale k t a : vscale k (vscale t a) = vscale (t * k) a.
Proof. unfold vscale. rewrite map_map. apply map_ext. intros; ring. Qed.

Lemma lin_vscale n k cols : forall a, lin n cols (vscale k a) = vscale k (lin n cols a).
Proof.
  induction cols as [|c cols IH]; intros a; simpl.
  - rewrite vscale_repeat. now replace (k * 0) with 0 by ring.
  - destruct a as [|t a]; simpl.
    + rewrite vscale_repeat. now replace (k * 0) with 0 by ring.
    + fold (vscale k a). rewrite IH, vscale_vadd, vscale_vscale. f_equal. f_equal. ring.
Qed.

(** (a + b) + (c + d) = (a + c) + (b + d) *)
Lemma vadd_swap a : forall b c d, length b = length a -> length c = length a -> length d = length a ->
  vadd (vadd a b) (vadd c d) = vadd (vadd a c) (vadd b d).
Proof.
  unfold vadd. induction a as [|a0 a IH]; intros [|b0 b] [|c0 c] [|d0 d] Lb Lc Ld; simpl in *; try discriminate; auto.
  rewrite IH by lia. f_equal. lra.
Qed.

Lemma predictions_length cols n w b : Forall (fun c => length c = n) cols -> length (predictions cols n w b) = n.
Proof.
  intros H. unfold predictions. rewrite vadd_length; rewrite lin_length; auto. now rewrite repeat_length.
Qed.

Lemma predictions_vadd cols n w1 b1 w2 b2 : Forall (fun c => length c = n) cols ->
  length w1 = length cols -> length w2 = length cols ->
  predictions cols n (vadd w1 w2) (b1 + b2) = vadd (predictions cols n w1 b1) (predictions cols n w2 b2).
Proof.
  intros H L1 L2. unfold predictions. rewrite lin_vadd by auto. rewrite <- vadd_repeat.
  apply vadd_swap; rewrite ?lin_length, ?repeat_length; auto.
Qed.
Lemma predictions_vscale cols n k w b : predictions cols n (vscale k w) (k * b) = vscale k (predictions cols n w b).
Proof. unfold predictions. now rewrite lin_vscale, vscale_vadd, vscale_repeat. Qed.

(** parallelogram identity around the midpoint of two prediction vectors *)
Lemma sq_midpoint y : forall p1 p2, length p1 = length y -> length p2 = length y ->
  sq (vsub y (vscale (/ 2) (vadd p1 p2)))
  = / 2 * sq (vsub y p1) + / 2 * sq (vsub y p2) - / 4 * sq (vsub p1 p2).
Proof.
  unfold sq, vsub, vadd, vscale.
  induction y as [|y0 y IH]; intros [|a p1] [|b p2] L1 L2; simpl in *; try discriminate; try lra.
  rewrite IH by lia. field.
Qed.

Lemma sq_zero_vec : forall v, sq v = 0 -> v = repeat 0 (length v).
Proof.
  induction v as [|x v IH]; intros H; simpl; auto.
  unfold sq in H; simpl in H. pose proof (sq_nonneg v) as N. unfold sq in N.
  assert (0 <= x * x) by apply Rle_0_sqr.
  assert (x * x = 0) by lra. assert (x = 0) by nra. subst x. f_equal. apply IH. unfold sq. lra.
Qed.

Lemma vsub_zero_eq a : forall b, length b = length a -> vsub a b = repeat 0 (length a) -> a = b.
Proof.
  induction a as [|x a IH]; intros [|z b] L H; try discriminate; auto.
  unfold vsub, vadd, vscale in H. simpl in H. injection H as H0 H1.
  f_equal; [lra|]. apply IH; [simpl in L; lia|exact H1].
Qed.

(** the sum of squared errors at the midpoint of two candidate solutions *)
Lemma sse_midpoint cols y w1 b1 w2 b2 : Forall (fun c => length c = length y) cols ->
  length w1 = length cols -> length w2 = length cols ->
  sse cols y (vscale (/ 2) (vadd w1 w2)) (/ 2 * (b1 + b2))
  = / 2 * sse cols y w1 b1 + / 2 * sse cols y w2 b2
    - / 4 * sq (predictions cols (length y) (vsub w1 w2) (b1 - b2)).
Proof.
  intros H L1 L2. unfold sse.
  rewrite predictions_vscale, predictions_vadd by auto.
  rewrite sq_midpoint by (apply predictions_length; auto).
  assert (Ed : predictions cols (length y) (vsub w1 w2) (b1 - b2)
               = vsub (predictions cols (length y) w1 b1) (predictions cols (length y) w2 b2)).
  { unfold vsub. replace (b1 - b2) with (b1 + -1 * b2) by ring.
    rewrite predictions_vadd by (rewrite ?vscale_length; auto). now rewrite predictions_vscale. }
  rewrite Ed. reflexivity.
Qed.

(** T2.  Uniqueness of the least-squares solution when the columns of [X 1] are linearly independent *)
Lemma ols_unique cols y w1 b1 w2 b2 :
  Forall (fun c => length c = length y) cols -> length w1 = length cols -> length w2 = length cols ->
  (forall (v : list R) (c : R), length v = length cols ->
     predictions cols (length y) v c = repeat 0 (length y) -> v = repeat 0 (length cols) /\ c = 0) ->
  (forall w' b', length w' = length cols -> sse cols y w' b' >= sse cols y w1 b1) ->
  (forall w' b', length w' = length cols -> sse cols y w' b' >= sse cols y w2 b2) ->
  w1 = w2 /\ b1 = b2.
Proof.
  intros H L1 L2 Ind M1 M2.
  pose proof (M1 w2 b2 L2) as A. pose proof (M2 w1 b1 L1) as B.
  assert (Lm : length (vscale (/ 2) (vadd w1 w2)) = length cols)
    by (rewrite vscale_length, vadd_length; lia).
  pose proof (M1 _ (/ 2 * (b1 + b2)) Lm) as C. rewrite sse_midpoint in C by auto.
  set (d := predictions cols (length y) (vsub w1 w2) (b1 - b2)) in *.
  pose proof (sq_nonneg d) as N.
  assert (Z : sq d = 0) by lra.
  apply sq_zero_vec in Z. unfold d in Z at 2. rewrite predictions_length in Z by auto.
  destruct (Ind (vsub w1 w2) (b1 - b2) ltac:(rewrite vsub_length; lia) Z) as [Zw Zb].
  split; [|lra]. apply vsub_zero_eq; [lia|]. now rewrite L1.
Qed.

Lemma vadd_repeat0 u : vadd u (repeat 0 (length u)) = u.
Proof. unfold vadd. induction u as [|u0 u IH]; simpl; auto. rewrite IH. f_equal. lra. Qed.

(** the same without intercept (LinearRegression::with_intercept(false)): X v = 0 only for v = 0 *)
Lemma ols_unique_noint cols y w1 w2 :
  Forall (fun c => length c = length y) cols -> length w1 = length cols -> length w2 = length cols ->
  (forall v : list R, length v = length cols ->
     lin (length y) cols v = repeat 0 (length y) -> v = repeat 0 (length cols)) ->
  (forall w', length w' = length cols -> sse cols y w' 0 >= sse cols y w1 0) ->
  (forall w', length w' = length cols -> sse cols y w' 0 >= sse cols y w2 0) ->
  w1 = w2.
Proof.
  intros H L1 L2 Ind M1 M2.
  pose proof (M1 w2 L2) as A. pose proof (M2 w1 L1) as B.
  assert (Lm : length (vscale (/ 2) (vadd w1 w2)) = length cols)
    by (rewrite vscale_length, vadd_length; lia).
  pose proof (M1 _ Lm) as C.
  replace 0 with (/ 2 * (0 + 0)) in C at 1 by ring. rewrite sse_midpoint in C by auto.
  replace (0 - 0) with 0 in C by ring.
  set (d := predictions cols (length y) (vsub w1 w2) 0) in *.
  pose proof (sq_nonneg d) as N.
  assert (Z : sq d = 0) by lra.
  apply sq_zero_vec in Z. unfold d in Z at 2. rewrite predictions_length in Z by auto.
  assert (Ed : d = lin (length y) cols (vsub w1 w2)).
  { unfold d, predictions.
    assert (Ll : length (lin (length y) cols (vsub w1 w2)) = length y) by (apply lin_length; auto).
    rewrite <- Ll at 2. apply vadd_repeat0. }
  rewrite Ed in Z.
  pose proof (Ind (vsub w1 w2) ltac:(rewrite vsub_length; lia) Z) as Zw.
  apply vsub_zero_eq; [lia|]. now rewrite L1.
Qed.

(** non-vacuity: the three dots (0,0), (1,0), (2,2) of the unit test have an independent design [x 1] *)
Example ex_ols_independent : forall (v : list R) (c : R), length v = length [[0; 1; 2]] ->
  predictions [[0; 1; 2]] 3 v c = repeat 0 3 -> v = repeat 0 (length [[0; 1; 2]]) /\ c = 0.
Proof.
  intros v c L E. destruct v as [|v0 [|? ?]]; try discriminate.
  unfold predictions, vadd, vscale in E; simpl in E. inversion E. split; [simpl; f_equal|]; lra.
Qed.

(* ------------------------------------------------------------------------------------------- *)
(** * the reported duality gap and the intercept *)

Lemma pen_nonneg penalty l1_ratio n : 0 <= penalty -> 0 <= l1_ratio <= 1 -> 0 <= n ->
  0 <= l1_ratio * penalty * n /\ 0 <= (1 - l1_ratio) * penalty * n.
Proof.
  intros Hp [Ha Hb] Hn. split.
  - apply Rmult_le_pos; auto. apply Rmult_le_pos; auto.
  - apply Rmult_le_pos; auto. apply Rmult_le_pos; auto. lra.
Qed.

(** for every input: the gap computed by the solver on the centred target y - b (b = mean y in the
    implementation) bounds the suboptimality of w among all coefficient vectors FOR THAT INTERCEPT *)
Lemma gap_bounds_fixed_intercept cc cols y b penalty l1_ratio w w' :
  Forall (fun c => length c = length y) cols -> length w = length cols -> length w' = length cols ->
  (0 < length y)%nat -> 0 <= penalty -> 0 <= l1_ratio <= 1 ->
  let n := INR (length y) in
  let yc := map (fun v => v - b) y in
  n * (enet_objective cols y penalty l1_ratio w b - enet_objective cols y penalty l1_ratio w' b)
  <= duality_gap R_ops RX cc l1_ratio penalty n cols yc w (residual cols yc w).
Proof.
  intros H L L' Hn Hp Hr n yc.
  assert (Pn : 0 < n) by (apply lt_0_INR; lia).
  destruct (pen_nonneg penalty l1_ratio n Hp Hr ltac:(lra)) as [A B].
  assert (Hc : Forall (fun c => length c = length yc) cols) by (unfold yc; now rewrite map_length).
  pose proof (gap_upper_bound cc l1_ratio penalty n cols yc w w' Hc L L' A B) as G. cbv zeta in G.
  unfold yc in G at 1 3.
  rewrite (objective_fixed cols y _ _ w b (length cols) H L ltac:(lia)) in G.
  rewrite (objective_fixed cols y _ _ w' b (length cols) H L' ltac:(lia)) in G.
  pose proof (scaled_objective cols y penalty l1_ratio w b Hn) as S1.
  pose proof (scaled_objective cols y penalty l1_ratio w' b Hn) as S2.
  fold n in S1, S2. fold yc in G.
  replace (n * penalty * l1_ratio) with (l1_ratio * penalty * n) in S1, S2 by ring.
  replace (n * penalty * (1 - l1_ratio)) with ((1 - l1_ratio) * penalty * n) in S1, S2 by ring.
  lra.
Qed.

(** moving the intercept away from mean y on centred features only adds n (mean y - b')^2 to the SSE *)
Lemma Rsum_vsub a b : length a = length b -> Rsum (vsub a b) = Rsum a - Rsum b.
Proof.
  intros L. unfold vsub. rewrite Rsum_vadd by (now rewrite vscale_length). rewrite Rsum_vscale. lra.
Qed.
Lemma sq_vadd_repeat v d : sq (vadd v (repeat d (length v))) = sq v + 2 * d * Rsum v + INR (length v) * (d * d).
Proof.
  unfold sq, vadd. induction v as [|x v IH]; [simpl; lra|].
  cbn [length repeat combine map Rdot Rsum fold_right fst snd]. rewrite S_INR.
  unfold Rsum in *. rewrite IH. ring.
Qed.
Lemma shift_intercept y : forall (l : list R) (b b' : R), length l = length y ->
  vsub y (vadd l (repeat b' (length y))) = vadd (vsub y (vadd l (repeat b (length y)))) (repeat (b - b') (length (vsub y (vadd l (repeat b (length y)))))).
Proof.
  unfold vsub, vadd, vscale.
  induction y as [|y0 y IH]; intros [|l0 l] b b' L; simpl in *; try discriminate; auto.
  f_equal; [lra|]. apply IH. lia.
Qed.

Lemma sse_centred_intercept cols y w b' : Forall (fun c => length c = length y) cols ->
  Forall (fun c => Rsum c = 0) cols -> (0 < length y)%nat ->
  let ybar := Rsum y / INR (length y) in
  sse cols y w b' = sse cols y w ybar + INR (length y) * ((ybar - b') * (ybar - b')).
Proof.
  intros H Z Hn ybar. unfold sse, predictions.
  assert (Ll : length (lin (length y) cols w) = length y) by (apply lin_length; auto).
  rewrite (shift_intercept y _ ybar b' Ll).
  set (r := vsub y (vadd (lin (length y) cols w) (repeat ybar (length y)))).
  assert (Lr : length r = length y).
  { unfold r. rewrite vsub_length; auto. rewrite vadd_length; rewrite ?repeat_length; lia. }
  rewrite sq_vadd_repeat.
  assert (Sr : Rsum r = 0).
  { unfold r. rewrite Rsum_vsub by (rewrite vadd_length; rewrite ?repeat_length; lia).
    rewrite Rsum_vadd by (rewrite repeat_length; lia).
    rewrite Rsum_lin_centred, Rsum_repeat by auto. unfold ybar.
    assert (0 < INR (length y)) by (apply lt_0_INR; lia). field. lra. }
  rewrite Sr, Lr. ring.
Qed.

(** outside the class of finding F7 (every feature column sums to zero) the reported gap bounds the
    suboptimality of (w, mean y) JOINTLY, against every coefficient vector and every intercept *)
Lemma gap_bounds_joint_centred cc cols y penalty l1_ratio w w' b' :
  Forall (fun c => length c = length y) cols -> length w = length cols -> length w' = length cols ->
  (0 < length y)%nat -> 0 <= penalty -> 0 <= l1_ratio <= 1 ->
  Forall (fun c => Rsum c = 0) cols ->
  let n := INR (length y) in
  let ybar := Rsum y / n in
  let yc := map (fun v => v - ybar) y in
  n * (enet_objective cols y penalty l1_ratio w ybar - enet_objective cols y penalty l1_ratio w' b')
  <= duality_gap R_ops RX cc l1_ratio penalty n cols yc w (residual cols yc w).
Proof.
  intros H L L' Hn Hp Hr Z n ybar yc.
  pose proof (gap_bounds_fixed_intercept cc cols y ybar penalty l1_ratio w w' H L L' Hn Hp Hr) as G.
  cbv zeta in G. fold n yc in G.
  pose proof (sse_centred_intercept cols y w' b' H Z Hn) as S. cbv zeta in S. fold n ybar in S.
  assert (Pn : 0 < n) by (apply lt_0_INR; lia).
  assert (E : enet_objective cols y penalty l1_ratio w' ybar <= enet_objective cols y penalty l1_ratio w' b').
  { unfold enet_objective. fold n. rewrite S.
    assert (0 < / (2 * n)) by (apply Rinv_0_lt_compat; lra).
    assert (0 <= n * ((ybar - b') * (ybar - b'))) by (apply Rmult_le_pos; [lra|apply Rle_0_sqr]).
    nra. }
  nra.
Qed.

(** inside the class (witness of finding F7: x = 10..13, y = 1..4, penalty 0.1, l1_ratio 0.5): the point
    (w, mean y) the solver converges to has reported gap exactly 0 and still is not a joint minimiser *)
Lemma gap_joint_refuted :
  exists (cols : list (list R)) (y : list R) (penalty l1_ratio : R) (w : list R),
    let n := INR (length y) in
    let ybar := Rsum y / n in
    let yc := map (fun v => v - ybar) y in
    duality_gap R_ops RX false l1_ratio penalty n cols yc w (residual cols yc w) = 0
    /\ exists (w' : list R) (b' : R),
         enet_objective cols y penalty l1_ratio w' b' < enet_objective cols y penalty l1_ratio w ybar.
Proof.
  exists [[10; 11; 12; 13]], [1; 2; 3; 4], (1 / 10), (1 / 2), [24 / 2671]. cbv zeta. split.
  - replace (INR (length [1; 2; 3; 4])) with 4 by (simpl; lra).
    replace (Rsum [1; 2; 3; 4] / 4) with (5 / 2) by (simpl; lra).
    unfold duality_gap. rewrite !dot_R, seq_sum_R.
    unfold residual, vsub, vadd, vscale. cbn [map combine length lin repeat fst snd map2 fold_left Rdot Rsum fold_right].
    simpl. rewrite !seq_sum_R. simpl.
    match goal with |- context [Rmax (Rabs ?v) 0] => replace v with (1 / 5) by field end.
    rewrite (Rabs_right (1 / 5)) by lra. rewrite Rmax_left by lra.
    unfold Rltb. destruct (Rlt_dec (1 / 2 * (1 / 10) * 4) (1 / 5)) as [C | _]; [lra|].
    rewrite (Rabs_right (24 / 2671)) by lra. field.
  - exists [24 / 2671], (5 / 2 - 276 / 2671).
    unfold enet_objective, sse, predictions, sq, l1norm, vsub, vadd, vscale; simpl.
    rewrite (Rabs_right (24 / 2671)) by lra. lra.
Qed.
