(** C11 - ordinary least squares against the exact minimiser: soundness of [ols_exact_ok] /
    [ols_exact_ok_noint] (C11/Model.v).  The checker is given a candidate (ws, bs), verifies that its
    residual is EXACTLY orthogonal to every feature column and the constant column - so the candidate is
    a least-squares solution ([ols_ok_sound] with all tolerances 0) - and compares the two sums of
    squared errors in exact rational arithmetic.  Acceptance bounds the optimality gap of the returned
    fit by tau2 against every other coefficient vector and intercept, whatever the conditioning. *)
From Coq Require Import List QArith Qreals Reals Lra Lia Bool.
From LinfaVerif Require Import Common.Num Common.QF Common.Convex C11.Model C11.Proofs.
Import ListNotations.
Local Open Scope R_scope.

Lemma eps_of_0 : eps_of 0 = 0.
Proof. unfold eps_of. rewrite R_0. apply sqrt_0. Qed.

Lemma EPS_zeros n v : Rdot (EPS (repeat 0%Q n)) v = 0.
Proof.
  unfold EPS. revert v. induction n as [|n IH]; intros [|x v]; simpl; try lra.
  rewrite eps_of_0, IH. ring.
Qed.

Lemma RQ2_app a b : RQ2 (a ++ b) = RQ2 a ++ RQ2 b.
Proof. apply map_app. Qed.

Lemma all_len_of_kkt cols y th l1s l2s e2s : kkt_ok cols y th l1s l2s e2s = true ->
  all_len (length y) cols = true /\ length th = length cols.
Proof.
  unfold kkt_ok. intros H. repeat (apply andb_true_iff in H as [H ?]).
  split; auto. now apply Nat.eqb_eq.
Qed.

Lemma Forall_app_l {A} (P : A -> Prop) l1 l2 : Forall P (l1 ++ l2) -> Forall P l1.
Proof. intros H. apply Forall_app in H. tauto. Qed.

Lemma R_qsse cols y w b : length w = length cols -> Forall (fun c => length c = length y) (RQ2 cols) ->
  Q2R (qsse cols y w b) = sse (RQ2 cols) (RQ y) (RQ w) (Q2R b).
Proof.
  intros L F. unfold qsse. rewrite R_qdot, R_qresidual.
  rewrite RQ2_app, RQ_app. simpl. unfold ones. rewrite RQ_repeat, R_1.
  pose proof (residual_intercept (RQ2 cols) (RQ y) (RQ w) (Q2R b)) as X. rewrite !(RQ_length y) in X.
  rewrite X.
  - unfold sse, sq. now rewrite RQ_length.
  - rewrite RQ_length. unfold RQ2. now rewrite map_length.
  - exact F.
Qed.

Lemma R_qsse0 cols y w : Q2R (qsse0 cols y w) = sq (residual (RQ2 cols) (RQ y) (RQ w)).
Proof. unfold qsse0, sq. now rewrite R_qdot, R_qresidual. Qed.

Lemma ols_exact_ok_sound cols y w b ws bs tau2 :
  ols_exact_ok cols y w b ws bs tau2 = true -> (0 < length y)%nat ->
  forall (w' : list R) (b' : R), length w' = length w ->
  sse (RQ2 cols) (RQ y) w' b' >= sse (RQ2 cols) (RQ y) (RQ w) (Q2R b) - Q2R tau2.
Proof.
  unfold ols_exact_ok. intros H Hn w' b' L.
  apply andb_true_iff in H as [H Hg]. apply andb_true_iff in H as [Ho Lw]. apply Nat.eqb_eq in Lw.
  pose proof Ho as Hk. unfold ols_ok, enet_ok in Hk. apply all_len_of_kkt in Hk as [Hl Lt].
  rewrite !app_length in Lt. simpl in Lt.
  assert (Lws : length ws = length cols) by lia.
  apply all_len_R in Hl. rewrite RQ2_app in Hl. apply Forall_app_l in Hl.
  pose proof (ols_ok_sound cols y ws bs _ _ Ho Hn w' b' ltac:(lia)) as S.
  rewrite EPS_zeros, eps_of_0 in S.
  apply Qle_bool_R in Hg. rewrite R_qsub, !R_qsse in Hg by auto. lra.
Qed.

Lemma ols_exact_ok_noint_sound cols y w ws tau2 :
  ols_exact_ok_noint cols y w ws tau2 = true -> (0 < length y)%nat ->
  forall w' : list R, length w' = length w ->
  sse (RQ2 cols) (RQ y) w' 0 >= sse (RQ2 cols) (RQ y) (RQ w) 0 - Q2R tau2.
Proof.
  unfold ols_exact_ok_noint. intros H Hn w' L.
  apply andb_true_iff in H as [H Hg]. apply andb_true_iff in H as [Ho Lw]. apply Nat.eqb_eq in Lw.
  pose proof Ho as Hk. unfold ols_ok_noint, enet_ok_fixed in Hk. apply all_len_of_kkt in Hk as [Hl Lt].
  rewrite map_length in Hl.
  apply all_len_R in Hl.
  pose proof (ols_ok_noint_sound cols y ws _ Ho Hn w' ltac:(lia)) as S.
  rewrite EPS_zeros in S.
  apply Qle_bool_R in Hg. rewrite R_qsub, !R_qsse0 in Hg.
  assert (E : forall v, length v = length cols ->
            sse (RQ2 cols) (RQ y) v 0 = sq (residual (RQ2 cols) (RQ y) v)).
  { intros v Lv. unfold sse, predictions, residual. f_equal. f_equal.
    assert (Ll : length (lin (length (RQ y)) (RQ2 cols) v) = length (RQ y)).
    { apply lin_length. rewrite RQ_length. exact Hl. }
    generalize dependent (lin (length (RQ y)) (RQ2 cols) v). intros u Lu.
    rewrite <- Lu. symmetry. clear. unfold vadd. induction u as [|u0 u IH]; simpl; auto. f_equal; [lra|exact IH]. }
  rewrite (E (RQ w)) by (rewrite RQ_length; lia).
  rewrite (E (RQ ws)) in S by (rewrite RQ_length; lia). lra.
Qed.

Local Close Scope R_scope.
Local Open Scope Q_scope.
(** non-vacuity: x = (0,1,2), y = (0,0,2); the exact solution is w = 1, b = -1/3 (SSE 2/3); the fit
    w = 1, b = -1/2 has SSE 3/4, i.e. gap 1/12 *)
Example ex_ols_exact_ok : ols_exact_ok [[0; 1; 2]] [0; 0; 2] [1] (-1 # 2) [1] (-1 # 3) (1 # 12) = true.
Proof. vm_compute. reflexivity. Qed.
Example ex_ols_exact_rejects : ols_exact_ok [[0; 1; 2]] [0; 0; 2] [1] (-1 # 2) [1] (-1 # 3) (1 # 13) = false.
Proof. vm_compute. reflexivity. Qed.
Example ex_qnormal_solve : option_map (map Qred) (qnormal_solve [[0; 1; 2]; [1; 1; 1]] [0; 0; 2]) = Some [1; -1 # 3].
Proof. vm_compute. reflexivity. Qed.
