(** C11 - the coordinate-descent model over the reals: one sweep never increases the documented
    objective and keeps the residual consistent, a sweep that leaves the coefficients unchanged
    certifies the first-order (KKT) conditions, and the whole loop returns a point whose reported
    duality gap bounds its suboptimality.  The tolerance of approx::abs_diff_eq (still used by the
    test that skips columns of tiny norm) is the argument [e] of the model instance [RXe e].
    The sweep proofs are generic in the test [nz] that guards the residual updates: with the exact
    test `w != 0` of the code as it is ([cd_sweep]) they hold for all inputs and every e >= 0, the
    literal 2^-52 included; with the test `abs_diff_ne!(w, 0)` of the code before the repair of finding
    F52 ([cd_sweep_absdiff]) they need that no coefficient lies in the band (0, e], and that condition
    is shown necessary by a witness.  What remains for e > 0 is the condition of the fixed-point
    theorem that skipped columns are zero columns (finding F50, witness at the end of the file). *)
From Coq Require Import List ZArith NArith QArith Qreals Reals Lra Lia Psatz Bool.
From LinfaVerif Require Import Common.Num Common.NdSum Common.QF Common.Convex C11.Model C11.Proofs.
Import ListNotations.
Local Open Scope R_scope.

(* ------------------------------------------------------------------------------------------- *)
(** * list-vector identities *)

Lemma scaled_add_R r : forall a x, scaled_add R_ops r a x = vadd r (vscale a x).
Proof.
  unfold scaled_add, vadd, vscale. induction r as [|r0 r IH]; intros a [|x0 x]; simpl; auto.
  now rewrite IH.
Qed.

Lemma vadd_vscale0 r : forall x, length x = length r -> vadd r (vscale 0 x) = r.
Proof.
  unfold vadd, vscale. induction r as [|r0 r IH]; intros [|x0 x] L; simpl in *; try discriminate; auto.
  rewrite IH by lia. f_equal. lra.
Qed.

(** (r + a x) - b x, back to r when a = b *)
Lemma vadd_vscale_cancel r : forall a x, length x = length r ->
  vadd (vadd r (vscale a x)) (vscale (- a) x) = r.
Proof.
  unfold vadd, vscale. induction r as [|r0 r IH]; intros a [|x0 x] L; simpl in *; try discriminate; auto.
  rewrite IH by lia. f_equal. lra.
Qed.

(** residual of (c :: cols) at (t :: th) = residual of cols at th for the target y - t c *)
Lemma residual_cons c cols y t th : length c = length y -> Forall (fun k => length k = length y) cols ->
  residual (c :: cols) y (t :: th) = residual cols (vsub y (vscale t c)) th.
Proof.
  intros Lc H. unfold residual. rewrite vsub_length by (now rewrite vscale_length). simpl.
  assert (Ll : length (lin (length y) cols th) = length y) by (apply lin_length; auto).
  generalize dependent (lin (length y) cols th). intros u Lu. clear H.
  revert c u Lc Lu. unfold vsub, vadd, vscale.
  induction y as [|y0 y IH]; intros [|c0 c] [|u0 u] Lc Lu; simpl in *; try discriminate; auto.
  f_equal; [lra|]. apply IH; lia.
Qed.

(** (y - a x - L) + a x - b x = (y - b x) - L *)
Lemma step_residual y : forall x u a b, length x = length y -> length u = length y ->
  vadd (vadd (vsub (vsub y (vscale a x)) u) (vscale a x)) (vscale (- b) x) = vsub (vsub y (vscale b x)) u.
Proof.
  unfold vsub, vadd, vscale.
  induction y as [|y0 y IH]; intros [|x0 x] [|u0 u] a b Lx Lu; simpl in *; try discriminate; auto.
  f_equal; [lra|]. apply IH; lia.
Qed.

(** (y - a x - L) + a x = y - L *)
Lemma step_partial y : forall x u a, length x = length y -> length u = length y ->
  vadd (vsub (vsub y (vscale a x)) u) (vscale a x) = vsub y u.
Proof.
  unfold vsub, vadd, vscale.
  induction y as [|y0 y IH]; intros [|x0 x] [|u0 u] a Lx Lu; simpl in *; try discriminate; auto.
  f_equal; [lra|]. apply IH; lia.
Qed.

Lemma sq_vsub_scale t a b : length a = length b ->
  sq (vsub a (vscale t b)) = sq a - 2 * t * Rdot a b + t * t * sq b.
Proof.
  intros L. unfold vsub.
  replace (vscale (-1) (vscale t b)) with (vscale (- t) b).
  - rewrite sq_vadd_scale by auto. ring.
  - unfold vscale. rewrite map_map. apply map_ext. intros. ring.
Qed.

(* ------------------------------------------------------------------------------------------- *)
(** * the tests of the model over the reals *)

Lemma absdiff0_R a : (if Rltb 0 a then a - 0 else 0 - a) = Rabs a.
Proof.
  unfold Rltb. destruct (Rlt_dec 0 a).
  - rewrite Rabs_right by lra. ring.
  - rewrite Rabs_left1 by lra. ring.
Qed.

Lemma abs_diff_eq_true e a : abs_diff_eq R_ops (RXe e) a 0 = true <-> Rabs a <= e.
Proof. unfold abs_diff_eq; simpl. rewrite absdiff0_R. apply Rleb_true. Qed.
Lemma abs_diff_eq_false e a : abs_diff_eq R_ops (RXe e) a 0 = false <-> e < Rabs a.
Proof. unfold abs_diff_eq; simpl. rewrite absdiff0_R. apply Rleb_false. Qed.

Lemma cd_new_w_RXe e l1r pen nF tmp nj :
  cd_new_w R_ops (RXe e) l1r pen nF tmp nj = cd_new_w R_ops RX l1r pen nF tmp nj.
Proof. reflexivity. Qed.
Lemma duality_gap_RXe e cc l1r pen nF cols y w r :
  duality_gap R_ops (RXe e) cc l1r pen nF cols y w r = duality_gap R_ops RX cc l1r pen nF cols y w r.
Proof. reflexivity. Qed.
Lemma RXe_RX : RXe (fx_eps RX) = RX.
Proof. reflexivity. Qed.

(** no coefficient in the band (0, e]: such a coefficient is stored but treated as zero by the residual updates *)
Definition band_free (e : R) (w : list R) : Prop := Forall (fun t => t = 0 \/ e < Rabs t) w.

Lemma band_free_0 w : band_free 0 w.
Proof.
  unfold band_free. induction w as [|t w IH]; constructor; auto.
  destruct (Req_dec t 0); [left; auto | right; now apply Rabs_pos_lt].
Qed.

(** the two guarded residual updates are the plain updates when the coefficient is outside the band *)
Lemma guarded_update e r t x : 0 <= e -> (t = 0 \/ e < Rabs t) -> length x = length r ->
  (if abs_diff_ne R_ops (RXe e) t 0 then scaled_add R_ops r t x else r) = vadd r (vscale t x).
Proof.
  intros He B L. unfold abs_diff_ne. destruct (abs_diff_eq R_ops (RXe e) t 0) eqn:E; simpl.
  - apply abs_diff_eq_true in E. destruct B as [B | B]; [|lra]. subst t. now rewrite vadd_vscale0.
  - apply scaled_add_R.
Qed.
Lemma guarded_update_opp e r t x : 0 <= e -> (t = 0 \/ e < Rabs t) -> length x = length r ->
  (if abs_diff_ne R_ops (RXe e) t 0 then scaled_add R_ops r (opp R_ops t) x else r) = vadd r (vscale (- t) x).
Proof.
  intros He B L. unfold abs_diff_ne. destruct (abs_diff_eq R_ops (RXe e) t 0) eqn:E; simpl.
  - apply abs_diff_eq_true in E. destruct B as [B | B]; [|lra]. subst t.
    replace (- 0) with 0 by ring. now rewrite vadd_vscale0.
  - apply scaled_add_R.
Qed.

(** ... and with the exact test `t != 0` for every coefficient *)
Lemma nonzero_R t : nonzero R_ops t = negb (Reqb t 0).
Proof. reflexivity. Qed.
Lemma exact_update r t x : length x = length r ->
  (if nonzero R_ops t then scaled_add R_ops r t x else r) = vadd r (vscale t x).
Proof.
  intros L. rewrite nonzero_R. destruct (Reqb t 0) eqn:E; simpl.
  - apply Reqb_true in E. subst t. now rewrite vadd_vscale0.
  - apply scaled_add_R.
Qed.
Lemma exact_update_opp r t x : length x = length r ->
  (if nonzero R_ops t then scaled_add R_ops r (opp R_ops t) x else r) = vadd r (vscale (- t) x).
Proof.
  intros L. rewrite nonzero_R. destruct (Reqb t 0) eqn:E; simpl.
  - apply Reqb_true in E. subst t. replace (- 0) with 0 by ring. now rewrite vadd_vscale0.
  - apply scaled_add_R.
Qed.

(* ------------------------------------------------------------------------------------------- *)
(** * the coordinate update minimises its coordinate *)

(** f(t) = 1/2 nj t^2 - tmp t + l1 |t| + l2/2 t^2 is the objective as a function of coordinate j alone
    (up to a constant), with tmp = x_j.(r + w_j x_j) and nj = |x_j|^2 *)
Lemma cd_update_minimises (l1r pen nF tmp nj t : R) :
  0 <= nF * l1r * pen -> 0 <= nF * (1 - l1r) * pen -> 0 <= nj -> 0 < nj + nF * (1 - l1r) * pen ->
  let wn := cd_new_w R_ops RX l1r pen nF tmp nj in
  let f v := / 2 * nj * (v * v) - tmp * v + pen1 (nF * l1r * pen) (nF * (1 - l1r) * pen) v in
  f wn <= f t.
Proof.
  intros H1 H2 Hn Hd wn f.
  pose proof (cd_update_kkt l1r pen nF tmp nj H1 H2 Hd) as K. cbv zeta in K. fold wn in K.
  pose proof (coord_ineq _ _ _ _ _ t H1 H2 K) as I.
  unfold f. assert (0 <= nj * ((t - wn) * (t - wn))) by (apply Rmult_le_pos; [lra|apply Rle_0_sqr]).
  nra.
Qed.

(* ------------------------------------------------------------------------------------------- *)
(** * one sweep *)
Section Sweep.
Variables (cc : bool) (l1r pen nF e : R).
Let l1 := nF * l1r * pen.
Let l2 := nF * (1 - l1r) * pen.
Hypothesis H1 : 0 <= l1.
Hypothesis H2 : 0 <= l2.
Hypothesis He : 0 <= e.
(** the guard of the residual updates and the coefficients for which it behaves like `t != 0` *)
Variable nz : R -> bool.
Variable good : R -> Prop.
Hypothesis Hnz : forall r t x, good t -> length x = length r ->
  (if nz t then scaled_add R_ops r t x else r) = vadd r (vscale t x).
Hypothesis Hnz_opp : forall r t x, good t -> length x = length r ->
  (if nz t then scaled_add R_ops r (opp R_ops t) x else r) = vadd r (vscale (- t) x).

Notation sweep := (cd_sweep_gen R_ops (RXe e) cc l1r pen nF nz).

Lemma objective_cons c cols y t th k : length c = length y -> Forall (fun q => length q = length y) cols ->
  objective (c :: cols) y (repeat l1 (S k)) (repeat l2 (S k)) (t :: th)
  = objective cols (vsub y (vscale t c)) (repeat l1 k) (repeat l2 k) th + pen1 l1 l2 t.
Proof.
  intros Lc H. unfold objective. rewrite residual_cons by auto. simpl. lra.
Qed.

(** the sweep over a suffix of the columns; [y] is the target seen by that suffix *)
Lemma sweep_spec : forall cols w y wmax dwmax w2 r2 m,
  Forall (fun c => length c = length y) cols -> length w = length cols ->
  Forall good w ->
  sweep cols (map (fun c => sq c) cols) w (residual cols y w) wmax dwmax = (w2, (r2, m)) ->
  Forall good w2 ->
  length w2 = length cols /\ r2 = residual cols y w2 /\
  objective cols y (repeat l1 (length cols)) (repeat l2 (length cols)) w2
  <= objective cols y (repeat l1 (length cols)) (repeat l2 (length cols)) w.
Proof.
  induction cols as [|xj cols IH]; intros w y wmax dwmax w2 r2 m HL Lw Bw E Bw2.
  - destruct w; try discriminate. simpl in E. inversion E; subst. repeat split; auto. lra.
  - destruct w as [|wj w]; try discriminate. simpl in Lw.
    inversion HL as [|? ? Lx HL']; subst. inversion Bw as [|? ? Bj Bw']; subst.
    assert (Ll : length (lin (length y) cols w) = length y) by (apply lin_length; auto).
    cbn [map cd_sweep_gen] in E.
    destruct (abs_diff_eq R_ops (RXe e) (sq xj) (zero R_ops)) eqn:Sk.
    + (* skipped column: coefficient and residual untouched *)
      rewrite residual_cons in E by auto.
      destruct (sweep cols (map (fun c => sq c) cols) w (residual cols (vsub y (vscale wj xj)) w) wmax dwmax)
        as [w2' [r2' m']] eqn:E'.
      inversion E; subst. inversion Bw2 as [|? ? _ Bw2']; subst.
      assert (HLs : Forall (fun c => length c = length (vsub y (vscale wj xj))) cols).
      { rewrite vsub_length by (now rewrite vscale_length). exact HL'. }
      destruct (IH w _ wmax dwmax w2' r2 m HLs ltac:(lia) Bw' E' Bw2') as (A & B & C).
      split; [simpl; lia|]. split.
      * rewrite residual_cons by auto. exact B.
      * cbn [length]. rewrite !objective_cons by auto. lra.
    + (* updated column *)
      apply abs_diff_eq_false in Sk. simpl in Sk.
      assert (Pn : 0 < sq xj). { pose proof (Rabs_pos (sq xj)). pose proof (sq_nonneg xj). rewrite Rabs_right in Sk; lra. }
      set (r := residual (xj :: cols) y (wj :: w)) in *.
      assert (Lr : length r = length y).
      { unfold r, residual. rewrite vsub_length; auto. symmetry. apply lin_length. constructor; auto. }
      change (zero R_ops) with 0 in E.
      rewrite (Hnz r wj xj Bj ltac:(lia)) in E.
      set (r1 := vadd r (vscale wj xj)) in *.
      assert (Er1 : r1 = vsub y (lin (length y) cols w)).
      { unfold r1, r. rewrite residual_cons by auto. unfold residual.
        rewrite vsub_length by (now rewrite vscale_length). apply step_partial; auto. }
      assert (Lr1 : length r1 = length y) by (rewrite Er1, vsub_length; lia).
      rewrite dot_R in E.
      set (tmp := Rdot xj r1) in *.
      rewrite cd_new_w_RXe in E.
      set (wn := cd_new_w R_ops RX l1r pen nF tmp (sq xj)) in *.
      match type of E with context [sweep cols ?a ?b ?c ?d ?f] =>
        destruct (sweep cols a b c d f) as [w2' [r2' m']] eqn:E' end.
      inversion E; subst w2 r2' m'. clear E.
      inversion Bw2 as [|? ? Bn Bw2']; subst.
      rewrite (Hnz_opp r1 wn xj Bn ltac:(lia)) in E'.
      assert (Er2 : vadd r1 (vscale (- wn) xj) = residual cols (vsub y (vscale wn xj)) w).
      { unfold r1, r. rewrite residual_cons by auto. unfold residual.
        rewrite !vsub_length by (now rewrite vscale_length). apply step_residual; auto. }
      rewrite Er2 in E'.
      assert (HLs : Forall (fun c => length c = length (vsub y (vscale wn xj))) cols).
      { rewrite vsub_length by (now rewrite vscale_length). exact HL'. }
      destruct (IH w _ _ _ w2' r2 m HLs ltac:(lia) Bw' E' Bw2') as (A & B & C).
      split; [simpl; lia|]. split.
      * rewrite residual_cons by auto. exact B.
      * cbn [length]. rewrite !objective_cons by auto.
        (* the step on coordinate j *)
        assert (S1 : objective cols (vsub y (vscale wn xj)) (repeat l1 (length cols)) (repeat l2 (length cols)) w
                     + pen1 l1 l2 wn
                     <= objective cols (vsub y (vscale wj xj)) (repeat l1 (length cols)) (repeat l2 (length cols)) w
                        + pen1 l1 l2 wj).
        { unfold objective. rewrite <- Er2.
          assert (Eo : residual cols (vsub y (vscale wj xj)) w = vsub r1 (vscale wj xj)).
          { rewrite <- residual_cons by auto. fold r. unfold r1. unfold vsub.
            replace (vscale (-1) (vscale wj xj)) with (vscale (- wj) xj)
              by (unfold vscale; rewrite map_map; apply map_ext; intros; ring).
            symmetry. apply vadd_vscale_cancel. lia. }
          rewrite Eo.
          replace (vadd r1 (vscale (- wn) xj)) with (vsub r1 (vscale wn xj)).
          2:{ unfold vsub. f_equal. unfold vscale. rewrite map_map. apply map_ext. intros; ring. }
          rewrite !sq_vsub_scale by lia. rewrite (Rdot_comm r1 xj). fold tmp.
          assert (Hd : 0 < sq xj + nF * (1 - l1r) * pen) by (fold l2; lra).
          pose proof (cd_update_minimises l1r pen nF tmp (sq xj) wj H1 H2 ltac:(lra) Hd) as M.
          cbv zeta in M. fold wn l1 l2 in M. lra. }
        lra.
Qed.

(** a sweep that returns the coefficients it was given: the residual is unchanged and every coordinate
    satisfies its first-order condition exactly (skipped columns: zero column with zero coefficient) *)
Lemma sweep_fixed : forall cols w r wmax dwmax w2 r2 m,
  Forall (fun c => length c = length r) cols ->
  Forall2 (fun c t => sq c <= e -> sq c = 0 /\ t = 0) cols w ->
  Forall good w ->
  sweep cols (map (fun c => sq c) cols) w r wmax dwmax = (w2, (r2, m)) ->
  w2 = w ->
  r2 = r /\
  kkt_all (map (fun c => Rdot c r) cols) (repeat l1 (length cols)) (repeat l2 (length cols)) w (repeat 0 (length cols)).
Proof.
  induction cols as [|xj cols IH]; intros w r wmax dwmax w2 r2 m HL HS Bw E Ew.
  - inversion HS; subst. simpl in E. inversion E; subst. split; simpl; auto.
  - inversion HS as [|? wj ? w' Sj HS']; subst. rename w' into w.
    inversion HL as [|? ? Lx HL']; subst. inversion Bw as [|? ? Bj Bw']; subst.
    cbn [map cd_sweep_gen] in E.
    destruct (abs_diff_eq R_ops (RXe e) (sq xj) (zero R_ops)) eqn:Sk.
    + apply abs_diff_eq_true in Sk. simpl in Sk.
      pose proof (sq_nonneg xj) as Nn. rewrite Rabs_right in Sk by lra.
      destruct (Sj Sk) as [Z Wz]. subst wj.
      destruct (sweep cols (map (fun c => sq c) cols) w r wmax dwmax) as [w2' [r2' m']] eqn:E'.
      inversion E; subst. clear E.
      destruct (IH w r wmax dwmax w r2 m HL' HS' Bw' E' eq_refl) as [A K].
      split; auto. cbn [map length repeat kkt_all].
      repeat (split; [lra|]). split; [|exact K].
      rewrite (sq_zero_dot r xj ltac:(lia) Z) || rewrite Rdot_comm, (sq_zero_dot r xj ltac:(lia) Z).
      unfold coord_cond. replace (0 - l2 * 0) with 0 by ring.
      repeat split; intros Hs; try lra. rewrite Rabs_R0. lra.
    + apply abs_diff_eq_false in Sk. simpl in Sk.
      assert (Pn : 0 < sq xj). { pose proof (sq_nonneg xj). rewrite Rabs_right in Sk; lra. }
      change (zero R_ops) with 0 in E.
      rewrite (Hnz r wj xj Bj ltac:(lia)) in E.
      set (r1 := vadd r (vscale wj xj)) in *.
      assert (Lr1 : length r1 = length r) by (unfold r1; rewrite vadd_length; rewrite ?vscale_length; lia).
      rewrite dot_R in E. set (tmp := Rdot xj r1) in *.
      rewrite cd_new_w_RXe in E.
      set (wn := cd_new_w R_ops RX l1r pen nF tmp (sq xj)) in *.
      match type of E with context [sweep cols ?a ?b ?c ?d ?f] =>
        destruct (sweep cols a b c d f) as [w2' [r2' m']] eqn:E' end.
      injection E as Ewn Ew2 Er Em. subst w2' r2' m'.
      rewrite Ewn in E'. rewrite (Hnz_opp r1 wj xj Bj ltac:(lia)) in E'.
      unfold r1 in E'. rewrite vadd_vscale_cancel in E' by lia.
      destruct (IH w r _ _ w r2 m HL' HS' Bw' E' eq_refl) as [A K].
      split; auto. cbn [map length repeat kkt_all].
      repeat (split; [lra|]). split; [|exact K].
      assert (Hd : 0 < sq xj + nF * (1 - l1r) * pen) by (fold l2; lra).
      pose proof (cd_update_kkt l1r pen nF tmp (sq xj) H1 H2 Hd) as C. cbv zeta in C. fold wn l1 l2 in C.
      rewrite Ewn in C.
      replace (tmp - sq xj * wj) with (Rdot xj r) in C; [exact C|].
      unfold tmp, r1. rewrite Rdot_vadd_r by (rewrite vscale_length; lia).
      rewrite (Rdot_comm xj (vscale wj xj)), Rdot_vscale_l. unfold sq. ring.
Qed.
End Sweep.

(* ------------------------------------------------------------------------------------------- *)
(** * the sweep theorems in the form quoted by Properties.v *)

Lemma norms_R cc (cols : list (list R)) : map (fun c => dot R_ops cc c c) cols = map (fun c => sq c) cols.
Proof. apply map_ext. intros c. apply dot_R. Qed.

Lemma residual_length cols y w : Forall (fun c => length c = length y) cols -> length (residual cols y w) = length y.
Proof. intros H. unfold residual. rewrite vsub_length; auto. symmetry. now apply lin_length. Qed.

Lemma Forall_True {A} (l : list A) : Forall (fun _ => True) l.
Proof. induction l; constructor; auto. Qed.

Definition eps64 : R := / 4503599627370496.

(** the code as it is (exact test `w != 0`): every input, every tolerance e >= 0 of the column-skipping test *)
Lemma cd_sweep_noninc cc l1r pen nF e cols y w wmax dwmax w2 r2 m :
  0 <= nF * l1r * pen -> 0 <= nF * (1 - l1r) * pen -> 0 <= e ->
  Forall (fun c => length c = length y) cols -> length w = length cols ->
  cd_sweep R_ops (RXe e) cc l1r pen nF cols (map (fun c => dot R_ops cc c c) cols) w (residual cols y w) wmax dwmax
    = (w2, (r2, m)) ->
  let p := length cols in
  let P v := objective cols y (repeat (nF * l1r * pen) p) (repeat (nF * (1 - l1r) * pen) p) v in
  length w2 = length cols /\ r2 = residual cols y w2 /\ P w2 <= P w.
Proof.
  intros H1 H2 He HL Lw E p P. rewrite norms_R in E. unfold cd_sweep in E.
  exact (sweep_spec cc l1r pen nF e H1 H2 He (nonzero R_ops) (fun _ => True)
           (fun r t x _ L => exact_update r t x L) (fun r t x _ L => exact_update_opp r t x L)
           cols w y wmax dwmax w2 r2 m HL Lw (Forall_True w) E (Forall_True w2)).
Qed.

(** ... in particular with the literal tolerance 2^-52 of the implementation *)
Lemma cd_sweep_noninc_literal cc l1r pen nF cols y w wmax dwmax w2 r2 m :
  0 <= nF * l1r * pen -> 0 <= nF * (1 - l1r) * pen ->
  Forall (fun c => length c = length y) cols -> length w = length cols ->
  cd_sweep R_ops RX cc l1r pen nF cols (map (fun c => dot R_ops cc c c) cols) w (residual cols y w) wmax dwmax
    = (w2, (r2, m)) ->
  let p := length cols in
  let P v := objective cols y (repeat (nF * l1r * pen) p) (repeat (nF * (1 - l1r) * pen) p) v in
  length w2 = length cols /\ r2 = residual cols y w2 /\ P w2 <= P w.
Proof.
  intros H1 H2 HL Lw E. change RX with (RXe eps64) in E.
  assert (He : 0 <= eps64) by (unfold eps64; lra).
  exact (cd_sweep_noninc cc l1r pen nF eps64 cols y w wmax dwmax w2 r2 m H1 H2 He HL Lw E).
Qed.

(** the code before the repair of F52 (test `abs_diff_ne!(w, 0)`): only outside the band (0, e] *)
Lemma cd_sweep_absdiff_noninc cc l1r pen nF e cols y w wmax dwmax w2 r2 m :
  0 <= nF * l1r * pen -> 0 <= nF * (1 - l1r) * pen -> 0 <= e ->
  Forall (fun c => length c = length y) cols -> length w = length cols ->
  cd_sweep_absdiff R_ops (RXe e) cc l1r pen nF cols (map (fun c => dot R_ops cc c c) cols) w (residual cols y w) wmax dwmax
    = (w2, (r2, m)) ->
  band_free e w -> band_free e w2 ->
  let p := length cols in
  let P v := objective cols y (repeat (nF * l1r * pen) p) (repeat (nF * (1 - l1r) * pen) p) v in
  length w2 = length cols /\ r2 = residual cols y w2 /\ P w2 <= P w.
Proof.
  intros H1 H2 He HL Lw E Bw Bw2 p P. rewrite norms_R in E. unfold cd_sweep_absdiff in E.
  exact (sweep_spec cc l1r pen nF e H1 H2 He (fun a => abs_diff_ne R_ops (RXe e) a 0) (fun t => t = 0 \/ e < Rabs t)
           (fun r t x B L => guarded_update e r t x He B L) (fun r t x B L => guarded_update_opp e r t x He B L)
           cols w y wmax dwmax w2 r2 m HL Lw Bw E Bw2).
Qed.

Lemma F2_length {A B} (Q : A -> B -> Prop) : forall l1 l2, Forall2 Q l1 l2 -> length l1 = length l2.
Proof. induction 1; simpl; auto. Qed.

Lemma cd_fixed_point_is_kkt cc l1r pen nF e cols y w wmax dwmax r2 m :
  0 <= nF * l1r * pen -> 0 <= nF * (1 - l1r) * pen -> 0 <= e ->
  Forall (fun c => length c = length y) cols ->
  Forall2 (fun c t => sq c <= e -> sq c = 0 /\ t = 0) cols w ->
  cd_sweep R_ops (RXe e) cc l1r pen nF cols (map (fun c => dot R_ops cc c c) cols) w (residual cols y w) wmax dwmax
    = (w, (r2, m)) ->
  let p := length cols in
  let l1s := repeat (nF * l1r * pen) p in
  let l2s := repeat (nF * (1 - l1r) * pen) p in
  kkt_all (map (fun c => Rdot c (residual cols y w)) cols) l1s l2s w (repeat 0 p)
  /\ forall w', length w' = length w -> objective cols y l1s l2s w' >= objective cols y l1s l2s w.
Proof.
  intros H1 H2 He HL HS E p l1s l2s. rewrite norms_R in E. unfold cd_sweep in E.
  assert (HLr : Forall (fun c => length c = length (residual cols y w)) cols) by (now rewrite residual_length).
  destruct (sweep_fixed cc l1r pen nF e H1 H2 He (nonzero R_ops) (fun _ => True)
              (fun r t x _ L => exact_update r t x L) (fun r t x _ L => exact_update_opp r t x L)
              cols w _ wmax dwmax w r2 m HLr HS (Forall_True w) E eq_refl) as [_ K].
  split; [exact K|]. intros w' L.
  apply kkt_optimal; auto.
  assert (Lw : length w = length cols) by (symmetry; eapply F2_length; eauto).
  rewrite Lw. exact K.
Qed.

Lemma zero_cols_exact (cols : list (list R)) w : Forall2 (fun c t => sq c = 0 -> t = 0) cols w ->
  Forall2 (fun c t => sq c <= 0 -> sq c = 0 /\ t = 0) cols w.
Proof.
  induction 1 as [|c t cs ts Hc Hr IH]; constructor; auto.
  intros Hle. pose proof (sq_nonneg c). assert (sq c = 0) by lra. auto.
Qed.

Lemma cd_fixed_point_is_kkt_exact cc l1r pen nF cols y w wmax dwmax r2 m :
  0 <= nF * l1r * pen -> 0 <= nF * (1 - l1r) * pen ->
  Forall (fun c => length c = length y) cols ->
  Forall2 (fun c t => sq c = 0 -> t = 0) cols w ->
  cd_sweep R_ops (RXe 0) cc l1r pen nF cols (map (fun c => dot R_ops cc c c) cols) w (residual cols y w) wmax dwmax
    = (w, (r2, m)) ->
  let p := length cols in
  let l1s := repeat (nF * l1r * pen) p in
  let l2s := repeat (nF * (1 - l1r) * pen) p in
  kkt_all (map (fun c => Rdot c (residual cols y w)) cols) l1s l2s w (repeat 0 p)
  /\ forall w', length w' = length w -> objective cols y l1s l2s w' >= objective cols y l1s l2s w.
Proof.
  intros H1 H2 HL HS E.
  exact (cd_fixed_point_is_kkt cc l1r pen nF 0 cols y w wmax dwmax r2 m H1 H2 (Rle_refl 0) HL
           (zero_cols_exact cols w HS) E).
Qed.

(** skipped columns keep their coefficient: starting from zeros, the coefficients of skipped columns stay zero *)
Lemma sweep_keeps_skipped cc l1r pen nF e nz : forall cols w r wmax dwmax w2 r2 m,
  length w = length cols ->
  cd_sweep_gen R_ops (RXe e) cc l1r pen nF nz cols (map (fun c => sq c) cols) w r wmax dwmax = (w2, (r2, m)) ->
  Forall2 (fun c t => sq c <= e -> t = 0) cols w -> Forall2 (fun c t => sq c <= e -> t = 0) cols w2.
Proof.
  induction cols as [|xj cols IH]; intros w r wmax dwmax w2 r2 m Lw E HS.
  - destruct w; try discriminate. simpl in E. inversion E; subst. constructor.
  - destruct w as [|wj w]; try discriminate. inversion HS as [|? ? ? ? Sj HS']; subst.
    cbn [map cd_sweep_gen] in E.
    destruct (abs_diff_eq R_ops (RXe e) (sq xj) (zero R_ops)) eqn:Sk.
    + match type of E with context [cd_sweep_gen _ _ _ _ _ _ _ cols ?a ?b ?c ?d ?f] =>
        destruct (cd_sweep_gen R_ops (RXe e) cc l1r pen nF nz cols a b c d f) as [w2' [r2' m']] eqn:E' end.
      inversion E; subst. constructor; auto. eapply IH; eauto.
    + match type of E with context [cd_sweep_gen _ _ _ _ _ _ _ cols ?a ?b ?c ?d ?f] =>
        destruct (cd_sweep_gen R_ops (RXe e) cc l1r pen nF nz cols a b c d f) as [w2' [r2' m']] eqn:E' end.
      inversion E; subst. constructor.
      * apply abs_diff_eq_false in Sk. simpl in Sk. pose proof (sq_nonneg xj). rewrite Rabs_right in Sk by lra.
        intros; lra.
      * eapply IH; eauto.
Qed.

(* ------------------------------------------------------------------------------------------- *)
(** * the whole loop (every tolerance e >= 0 of the column-skipping test) *)
Section Loop.
Variables (cc : bool) (l1r pen nF e : R) (cols : list (list R)) (y : list R).
Let l1 := nF * l1r * pen.
Let l2 := nF * (1 - l1r) * pen.
Hypothesis H1 : 0 <= l1.
Hypothesis H2 : 0 <= l2.
Hypothesis He : 0 <= e.
Hypothesis HL : Forall (fun c => length c = length y) cols.
Let p := length cols.
Let P v := objective cols y (repeat l1 p) (repeat l2 p) v.
Variable g0 : R.

(** the gap variable is either still its initial value or bounds the suboptimality of the current point *)
Definition gap_good (w : list R) (g : R) : Prop := g = g0 \/ forall v, length v = p -> P w - P v <= g.

Lemma gap_bound' w v : length w = p -> length v = p ->
  P w - P v <= duality_gap R_ops (RXe e) cc l1r pen nF cols y w (residual cols y w).
Proof.
  intros Lw Lv. rewrite duality_gap_RXe.
  assert (A : 0 <= l1r * pen * nF) by (unfold l1 in H1; lra).
  assert (B : 0 <= (1 - l1r) * pen * nF) by (unfold l2 in H2; lra).
  pose proof (gap_upper_bound cc l1r pen nF cols y w v HL Lw Lv A B) as G. cbv zeta in G.
  unfold P, p, l1, l2.
  replace (nF * l1r * pen) with (l1r * pen * nF) by ring.
  replace (nF * (1 - l1r) * pen) with ((1 - l1r) * pen * nF) by ring. exact G.
Qed.

Lemma cd_loop_spec maxit tolY dwtol : forall fuel w r gap steps w' g' s',
  length w = p -> r = residual cols y w -> gap_good w gap -> (N.of_nat fuel + steps = maxit)%N ->
  cd_loop R_ops (RXe e) cc l1r pen nF fuel maxit cols (map (fun c => dot R_ops cc c c) cols) y tolY dwtol w r gap steps
    = (w', (g', s')) ->
  length w' = p /\ P w' <= P w /\ gap_good w' g' /\ ((s' < maxit)%N -> g' < tolY).
Proof.
  induction fuel as [|fuel IH]; intros w r gap steps w' g' s' Lw Er G Hs E.
  - simpl in E. inversion E; subst. repeat split; auto; try lra. intros; lia.
  - cbn [cd_loop] in E.
    destruct (cd_sweep R_ops (RXe e) cc l1r pen nF cols (map (fun c => dot R_ops cc c c) cols) w r (zero R_ops) (zero R_ops))
      as [w1 [r1 [wmax dwmax]]] eqn:Es.
    rewrite Er in Es.
    destruct (cd_sweep_noninc cc l1r pen nF e cols y w _ _ w1 r1 _ H1 H2 He HL Lw Es) as (L1 & R1 & D1).
    fold l1 l2 p in D1. fold (P w1) (P w) in D1. subst r1.
    assert (G1 : gap_good w1 gap).
    { destruct G as [G | G]; [left; auto | right]. intros v Lv. specialize (G v Lv). lra. }
    assert (Hs1 : (N.of_nat fuel + N.succ steps = maxit)%N) by lia.
    match type of E with (if ?b then _ else _) = _ => destruct b end.
    + cbv zeta in E.
      destruct (ltb R_ops (duality_gap R_ops (RXe e) cc l1r pen nF cols y w1 (residual cols y w1)) tolY) eqn:Lt.
      * inversion E; subst w' g' s'. simpl in Lt. apply Rltb_true in Lt.
        repeat split; auto. right. intros v Lv. apply gap_bound'; auto.
      * assert (G2 : gap_good w1 (duality_gap R_ops (RXe e) cc l1r pen nF cols y w1 (residual cols y w1))).
        { right. intros v Lv. apply gap_bound'; auto. }
        destruct (IH w1 _ _ _ w' g' s' L1 eq_refl G2 Hs1 E) as (A & B & C & D).
        repeat split; auto. lra.
    + destruct (IH w1 _ _ _ w' g' s' L1 eq_refl G1 Hs1 E) as (A & B & C & D).
      repeat split; auto. lra.
Qed.
End Loop.

Lemma lin_zeros n : forall (cols : list (list R)), Forall (fun c => length c = n) cols ->
  lin n cols (map (fun _ => 0) cols) = repeat 0 n.
Proof.
  induction cols as [|c cols IH]; intros H; simpl; auto.
  inversion H as [|? ? Hc Hr]; subst. rewrite IH by auto.
  clear. unfold vadd, vscale. induction c as [|c0 c IHc]; simpl; auto. f_equal; [lra|exact IHc].
Qed.
Lemma residual_zeros cols y : Forall (fun c => length c = length y) cols ->
  residual cols y (map (fun _ => 0) cols) = y.
Proof.
  intros H. unfold residual. rewrite lin_zeros by auto. unfold vsub, vadd, vscale.
  clear. induction y as [|y0 y IH]; simpl; auto. f_equal; [lra|exact IH].
Qed.

(** the model of `coordinate_descent` over the reals, for every tolerance e >= 0 of the column-skipping test
    (the literal 2^-52 included): the returned point is never worse than the starting point w = 0, its reported
    gap - unless it is still the initial value 1 + tol because the stopping test never fired - bounds its
    suboptimality against every other coefficient vector even when the iteration budget ran out (the gap is
    then one of an earlier, worse iterate), and a run that stopped early has gap < tol * |y|^2 *)
Lemma cd_result_certified cc l1r pen nF e cols y tol maxit w g s :
  0 <= nF * l1r * pen -> 0 <= nF * (1 - l1r) * pen -> 0 <= e ->
  Forall (fun c => length c = length y) cols ->
  coordinate_descent R_ops (RXe e) cc l1r pen nF cols y tol maxit = (w, (g, s)) ->
  let p := length cols in
  let P v := objective cols y (repeat (nF * l1r * pen) p) (repeat (nF * (1 - l1r) * pen) p) v in
  length w = p /\ P w <= P (repeat 0 p)
  /\ (g = 1 + tol \/ forall v, length v = p -> P w - P v <= g)
  /\ ((s < maxit)%N -> g < tol * sq y).
Proof.
  intros H1 H2 He HL E p P. unfold coordinate_descent in E. cbv zeta in E.
  assert (Z' : map (fun _ : list R => 0) cols = repeat 0 p).
  { unfold p. clear. induction cols; simpl; auto. now rewrite IHcols. }
  pose proof (cd_loop_spec cc l1r pen nF e cols y H1 H2 He HL (add R_ops (one R_ops) tol) maxit
                (mul R_ops tol (dot R_ops true y y)) tol (N.to_nat maxit)
                (map (fun _ => 0) cols) y (add R_ops (one R_ops) tol) 0%N w g s
                ltac:(now rewrite map_length) ltac:(now rewrite residual_zeros)
                ltac:(left; reflexivity) ltac:(lia) E) as (A & B & C & D).
  rewrite dot_R in D. simpl in D. rewrite Z' in B. unfold gap_good in C. simpl in C.
  repeat split; auto.
Qed.

Lemma cd_result_certified_literal cc l1r pen nF cols y tol maxit w g s :
  0 <= nF * l1r * pen -> 0 <= nF * (1 - l1r) * pen ->
  Forall (fun c => length c = length y) cols ->
  coordinate_descent R_ops RX cc l1r pen nF cols y tol maxit = (w, (g, s)) ->
  let p := length cols in
  let P v := objective cols y (repeat (nF * l1r * pen) p) (repeat (nF * (1 - l1r) * pen) p) v in
  length w = p /\ P w <= P (repeat 0 p)
  /\ (g = 1 + tol \/ forall v, length v = p -> P w - P v <= g)
  /\ ((s < maxit)%N -> g < tol * sq y).
Proof.
  intros H1 H2 HL E. change RX with (RXe eps64) in E.
  assert (He : 0 <= eps64) by (unfold eps64; lra).
  exact (cd_result_certified cc l1r pen nF eps64 cols y tol maxit w g s H1 H2 He HL E).
Qed.

(** the coefficients of skipped columns stay zero along the loop *)
Lemma cd_loop_skipped cc l1r pen nF e maxit cols y tolY dwtol : forall fuel w r gap steps w' g' s',
  length w = length cols ->
  cd_loop R_ops (RXe e) cc l1r pen nF fuel maxit cols (map (fun c => dot R_ops cc c c) cols) y tolY dwtol w r gap steps
    = (w', (g', s')) ->
  Forall2 (fun c t => sq c <= e -> t = 0) cols w -> Forall2 (fun c t => sq c <= e -> t = 0) cols w'.
Proof.
  induction fuel as [|fuel IH]; intros w r gap steps w' g' s' Lw E HS.
  - simpl in E. inversion E; subst. exact HS.
  - cbn [cd_loop] in E.
    destruct (cd_sweep R_ops (RXe e) cc l1r pen nF cols (map (fun c => dot R_ops cc c c) cols) w r (zero R_ops) (zero R_ops))
      as [w1 [r1 [wmax dwmax]]] eqn:Es.
    rewrite norms_R in Es. unfold cd_sweep in Es.
    pose proof (sweep_keeps_skipped cc l1r pen nF e _ cols w r _ _ w1 r1 _ Lw Es HS) as HS1.
    assert (L1 : length w1 = length cols) by (symmetry; eapply F2_length; eauto).
    match type of E with (if ?b then _ else _) = _ => destruct b end.
    + cbv zeta in E.
      match type of E with (if ?b then _ else _) = _ => destruct b end.
      * inversion E; subst. exact HS1.
      * eapply IH; eauto.
    + eapply IH; eauto.
Qed.

Lemma cd_result_zero_columns cc l1r pen nF e cols y tol maxit w g s :
  coordinate_descent R_ops (RXe e) cc l1r pen nF cols y tol maxit = (w, (g, s)) ->
  Forall2 (fun c t => sq c <= e -> t = 0) cols w.
Proof.
  intros E. unfold coordinate_descent in E. cbv zeta in E.
  eapply cd_loop_skipped; [|exact E|]; [now rewrite map_length|].
  clear. induction cols; simpl; constructor; auto.
Qed.

(* ------------------------------------------------------------------------------------------- *)
(** * non-vacuity and the literal tolerance 2^-52 *)

Lemma soft_pos l1r pen nF tmp nj : nF * l1r * pen < tmp -> 0 <= nF * l1r * pen ->
  cd_new_w R_ops RX l1r pen nF tmp nj = (tmp - nF * l1r * pen) / (nj + nF * (1 - l1r) * pen).
Proof.
  intros H H0. unfold cd_new_w; simpl. destruct (Rlt_dec tmp 0); [lra|].
  rewrite Rabs_right by lra. rewrite Rmax_left by lra. unfold Rdiv. ring.
Qed.

(** the lasso toy problem of the unit tests (x = y = (-1,0,1), penalty 0.1): w = 0.85 is a fixed point of the sweep *)
Example ex_cd_fixed_point : exists r2 m,
  cd_sweep R_ops (RXe 0) false 1 (1 / 10) 3 [[-1; 0; 1]] (map (fun c => dot R_ops false c c) [[-1; 0; 1]]) [17 / 20]
    (residual [[-1; 0; 1]] [-1; 0; 1] [17 / 20]) 0 0 = ([17 / 20], (r2, m)).
Proof.
  rewrite norms_R. unfold cd_sweep. cbn [map cd_sweep_gen].
  replace (abs_diff_eq R_ops (RXe 0) (sq [-1; 0; 1]) (zero R_ops)) with false
    by (symmetry; apply abs_diff_eq_false; unfold sq; simpl; rewrite Rabs_right; lra).
  rewrite exact_update by reflexivity.
  rewrite dot_R, cd_new_w_RXe.
  match goal with |- context [cd_new_w R_ops RX _ _ _ ?t ?n] => set (tmp := t); set (nj := n) end.
  assert (Et : tmp = 2) by (unfold tmp, residual, vsub, vadd, vscale; simpl; field).
  assert (En : nj = 2) by (unfold nj, sq; simpl; ring).
  assert (Ew : cd_new_w R_ops RX 1 (1 / 10) 3 tmp nj = 17 / 20).
  { rewrite soft_pos by (rewrite ?Et; lra). rewrite Et, En. field. }
  rewrite Ew. eexists. eexists. reflexivity.
Qed.
Example ex_cd_fixed_point_hyp : Forall2 (fun c t => sq c = 0 -> t = 0) [[-1; 0; 1]] [17 / 20].
Proof. repeat constructor. unfold sq; simpl. intros; lra. Qed.

(** the code before the repair of F52: one step of the sweep when both the old and the new coefficient are
    within the tolerance of zero - the coefficient is stored, the residual is left as it was *)
Lemma sweep_cons_stale e cc l1r pen nF xj cols norms wj w r wmax dwmax : 0 <= e ->
  e < sq xj -> Rabs wj <= e ->
  let wn := cd_new_w R_ops RX l1r pen nF (Rdot xj r) (sq xj) in
  Rabs wn <= e ->
  cd_sweep_absdiff R_ops (RXe e) cc l1r pen nF (xj :: cols) (sq xj :: norms) (wj :: w) r wmax dwmax
  = let '(w2, rest) := cd_sweep_absdiff R_ops (RXe e) cc l1r pen nF cols norms w r (Rmax wmax (Rabs wn)) (Rmax dwmax (Rabs (wn - wj)))
    in (wn :: w2, rest).
Proof.
  intros He Hn Hw wn Hwn. unfold cd_sweep_absdiff. cbn [cd_sweep_gen].
  replace (abs_diff_eq R_ops (RXe e) (sq xj) (zero R_ops)) with false
    by (symmetry; apply abs_diff_eq_false; pose proof (sq_nonneg xj); rewrite Rabs_right; lra).
  unfold abs_diff_ne.
  replace (abs_diff_eq R_ops (RXe e) wj (zero R_ops)) with true by (symmetry; now apply abs_diff_eq_true).
  cbn [negb]. rewrite dot_R, cd_new_w_RXe. fold wn.
  replace (abs_diff_eq R_ops (RXe e) wn (zero R_ops)) with true by (symmetry; now apply abs_diff_eq_true).
  reflexivity.
Qed.

(** Finding F50 as a statement about the model with the literal tolerance: a non-zero column of squared norm
    2^-54 is skipped, so w = 0 is a fixed point of the sweep although w = 2^27 fits the target exactly *)
Lemma cd_fixed_point_eps_refuted :
  exists (cols : list (list R)) (y w w' r2 : list R) (m : R * R),
    cd_sweep R_ops RX false 0 0 1 cols (map (fun c => dot R_ops false c c) cols) w (residual cols y w) 0 0 = (w, (r2, m))
    /\ length w' = length w
    /\ objective cols y (repeat 0 1) (repeat 0 1) w' < objective cols y (repeat 0 1) (repeat 0 1) w.
Proof.
  exists [[/ 134217728]], [1], [0], [134217728]. change RX with (RXe eps64).
  rewrite norms_R. unfold cd_sweep. cbn [map cd_sweep_gen].
  replace (abs_diff_eq R_ops (RXe eps64) (sq [/ 134217728]) (zero R_ops)) with true.
  2:{ symmetry. apply abs_diff_eq_true. unfold sq, eps64; simpl. rewrite Rabs_right; lra. }
  eexists. eexists. split; [reflexivity|]. split; [reflexivity|].
  unfold objective, residual, vsub, vadd, vscale, sq; simpl. unfold pen1. rewrite Rabs_R0.
  replace (1 + -1 * (134217728 * / 134217728 + 0)) with 0 by field. lra.
Qed.

(** Finding F52 (repaired in the code, kept as a statement about the pre-repair sweep): the band (0, 2^-52].
    Three copies of the column (1), target 2^-52, no penalty.  Every coordinate update returns 2^-52, which
    `abs_diff_ne!(w_j, 0)` treated as zero: the coefficients were stored but the residual was never updated,
    and the objective of the returned point is four times that of the starting point *)
Lemma cd_sweep_band_refuted :
  exists (cols : list (list R)) (y w w2 r2 : list R) (m : R * R),
    cd_sweep_absdiff R_ops RX false 0 0 1 cols (map (fun c => dot R_ops false c c) cols) w (residual cols y w) 0 0 = (w2, (r2, m))
    /\ r2 <> residual cols y w2
    /\ objective cols y (repeat 0 3) (repeat 0 3) w < objective cols y (repeat 0 3) (repeat 0 3) w2.
Proof.
  exists [[1]; [1]; [1]], [eps64], [0; 0; 0], [eps64; eps64; eps64], [eps64].
  change RX with (RXe eps64). rewrite norms_R.
  assert (Pe : 0 < eps64) by (unfold eps64; lra).
  assert (Er : residual [[1]; [1]; [1]] [eps64] [0; 0; 0] = [eps64]).
  { unfold residual, vsub, vadd, vscale; simpl. f_equal. lra. }
  rewrite Er. cbn [map].
  assert (S1 : sq [1] = 1) by (unfold sq; simpl; ring).
  assert (Ew : forall n, cd_new_w R_ops RX 0 0 1 (Rdot [1] [eps64]) n = eps64 / n).
  { intros n. rewrite soft_pos by (simpl; lra). simpl.
    replace (n + 1 * (1 - 0) * 0) with n by ring. unfold Rdiv. ring. }
  assert (Ew1 : cd_new_w R_ops RX 0 0 1 (Rdot [1] [eps64]) (sq [1]) = eps64).
  { rewrite Ew, S1. field. }
  assert (St : forall cols norms w wmax dwmax,
     cd_sweep_absdiff R_ops (RXe eps64) false 0 0 1 ([1] :: cols) (sq [1] :: norms) (0 :: w) [eps64] wmax dwmax
     = let '(w2, rest) := cd_sweep_absdiff R_ops (RXe eps64) false 0 0 1 cols norms w [eps64]
                            (Rmax wmax (Rabs eps64)) (Rmax dwmax (Rabs (eps64 - 0)))
       in (eps64 :: w2, rest)).
  { intros. rewrite sweep_cons_stale; rewrite ?Ew1; auto; try lra.
    - rewrite S1. unfold eps64. lra.
    - rewrite Rabs_R0. lra.
    - rewrite Rabs_right; lra. }
  rewrite !St. unfold cd_sweep_absdiff. cbn [cd_sweep_gen]. eexists. split; [reflexivity|]. split.
  - unfold residual, vsub, vadd, vscale; simpl. intros C. inversion C as [C1]. lra.
  - unfold objective, residual, vsub, vadd, vscale, sq; simpl. unfold pen1. nra.
Qed.

(** ... while the code as it is handles the same input correctly: the repaired sweep is a descent step for
    every input ([cd_sweep_noninc_literal]); on the witness it returns (2^-52, 0, 0) with residual 0 *)
Example ex_band_repaired : exists m,
  cd_sweep R_ops RX false 0 0 1 [[1]; [1]; [1]] (map (fun c => dot R_ops false c c) [[1]; [1]; [1]]) [0; 0; 0]
    (residual [[1]; [1]; [1]] [eps64] [0; 0; 0]) 0 0 = ([eps64; 0; 0], ([0], m)).
Proof.
  change RX with (RXe eps64). rewrite norms_R.
  assert (Pe : 0 < eps64) by (unfold eps64; lra).
  assert (Er : residual [[1]; [1]; [1]] [eps64] [0; 0; 0] = [eps64]).
  { unfold residual, vsub, vadd, vscale; simpl. f_equal. lra. }
  rewrite Er. cbn [map].
  assert (S1 : sq [1] = 1) by (unfold sq; simpl; ring).
  assert (Sk : abs_diff_eq R_ops (RXe eps64) (sq [1]) (zero R_ops) = false).
  { apply abs_diff_eq_false. rewrite S1, Rabs_right by lra. unfold eps64. lra. }
  unfold cd_sweep. cbn [cd_sweep_gen]. rewrite !Sk.
  rewrite !exact_update, !exact_update_opp by reflexivity.
  rewrite !dot_R, !cd_new_w_RXe.
  assert (V0 : vadd [eps64] (vscale 0 [1]) = [eps64]) by (unfold vadd, vscale; simpl; f_equal; lra).
  rewrite V0.
  assert (Ew1 : cd_new_w R_ops RX 0 0 1 (Rdot [1] [eps64]) (sq [1]) = eps64).
  { rewrite soft_pos by (simpl; lra). rewrite S1. simpl. field. }
  rewrite Ew1.
  assert (V1 : vadd [eps64] (vscale (- eps64) [1]) = [0]) by (unfold vadd, vscale; simpl; f_equal; lra).
  rewrite V1.
  assert (V2 : vadd [0] (vscale 0 [1]) = [0]) by (unfold vadd, vscale; simpl; f_equal; lra).
  assert (V3 : vadd [0] (vscale (- 0) [1]) = [0]) by (unfold vadd, vscale; simpl; f_equal; lra).
  assert (Ew0 : cd_new_w R_ops RX 0 0 1 (Rdot [1] [0]) (sq [1]) = 0).
  { unfold cd_new_w; simpl. rewrite Rabs_right by lra. unfold Rmax. destruct (Rle_dec _ _); unfold Rdiv; ring. }
  repeat first [ rewrite exact_update by reflexivity | rewrite exact_update_opp by reflexivity
               | rewrite dot_R | rewrite cd_new_w_RXe | rewrite V2 | rewrite V3 | rewrite Ew0 ].
  eexists. reflexivity.
Qed.
