(** C11 - property theorems (statements only; proofs are in Common/Convex.v and C11/Proofs.v).

    Notation of the statements.  The design matrix is given by its feature columns [cols]
    (each of length n = length y); [predictions cols n w b] = X w + b; [sse] = |y - X w - b|^2;
    [enet_objective cols y penalty l1_ratio w b]
       = 1/(2n) |y - X w - b|^2 + penalty * (l1_ratio |w|_1 + (1 - l1_ratio)/2 |w|_2^2),
    the objective documented by linfa-elasticnet.  [RQ] / [RQ2] map rational data to the reals.
    The checkers [ols_ok], [enet_ok], [enet_ok_fixed] (C11/Model.v) are the functions that every
    run of `./check C11` evaluates by vm_compute on the implementation's outputs; [eps_of e2] is
    sqrt e2, the tolerance whose square the checker was given. *)
From Coq Require Import List QArith Qreals Reals.
From LinfaVerif Require Import Common.Num Common.NdSum Common.QF Common.Convex C11.Model C11.Proofs.
Import ListNotations.
Local Open Scope R_scope.

(** T1 (Common/Convex.v).  First-order conditions up to eps_j imply eps-optimality against EVERY other
    coefficient vector, for 1/2 |y - sum_j theta_j col_j|^2 + sum_j (l1_j |theta_j| + l2_j/2 theta_j^2). *)
Theorem kkt_eps_optimal : forall (cols : list (list R)) (y l1s l2s eps th th' : list R),
  Forall (fun c => length c = length y) cols ->
  kkt_all (map (fun c => Rdot c (residual cols y th)) cols) l1s l2s th eps ->
  length th' = length th ->
  objective cols y l1s l2s th' >= objective cols y l1s l2s th - Rdot eps (absdiff th' th).
Proof. exact Convex.kkt_eps_optimal. Qed.

(** T1.  Ordinary least squares, exact form: coefficients and intercept whose residual is orthogonal to
    every feature column and to the constant column minimise the sum of squared errors. *)
Theorem ols_optimal : forall (cols : list (list R)) (y w : list R) (b : R),
  Forall (fun c => length c = length y) cols -> length w = length cols ->
  let r := vsub y (predictions cols (length y) w b) in
  Forall (fun c => Rdot c r = 0) cols -> Rsum r = 0 ->
  forall (w' : list R) (b' : R), length w' = length w -> sse cols y w' b' >= sse cols y w b.
Proof. exact Proofs.ols_optimal. Qed.

(** T1.  Soundness of the OLS checker evaluated on every LinearRegression fit: acceptance certifies
    that no other (w', b') has a sum of squared errors lower by more than the stated slack. *)
Theorem ols_ok_sound : forall (cols : list (list Q)) (y w : list Q) (b : Q) (e2s : list Q) (e2b : Q),
  ols_ok cols y w b e2s e2b = true -> (0 < length y)%nat ->
  forall (w' : list R) (b' : R), length w' = length w ->
  sse (RQ2 cols) (RQ y) w' b'
  >= sse (RQ2 cols) (RQ y) (RQ w) (Q2R b)
     - 2 * (Rdot (EPS e2s) (absdiff w' (RQ w)) + eps_of e2b * Rabs (b' - Q2R b)).
Proof. exact Proofs.ols_ok_sound. Qed.

Theorem ols_ok_noint_sound : forall (cols : list (list Q)) (y w : list Q) (e2s : list Q),
  ols_ok_noint cols y w e2s = true -> (0 < length y)%nat ->
  forall w' : list R, length w' = length w ->
  sse (RQ2 cols) (RQ y) w' 0 >= sse (RQ2 cols) (RQ y) (RQ w) 0 - 2 * Rdot (EPS e2s) (absdiff w' (RQ w)).
Proof. exact Proofs.ols_ok_noint_sound. Qed.

(** T1.  Soundness of the elastic-net checker (lasso: l1_ratio = 1, ridge: l1_ratio = 0), JOINTLY in
    coefficients and intercept, for the documented objective with l1 = n*penalty*l1_ratio and
    l2 = n*penalty*(1 - l1_ratio): no perturbation of any coefficient or of the intercept lowers the
    objective by more than (sum_j eps_j |w'_j - w_j| + eps_b |b' - b|) / n. *)
Theorem enet_ok_sound : forall (cols : list (list Q)) (y w : list Q) (b l1 l2 : Q) (e2s : list Q) (e2b : Q)
                               (penalty l1_ratio : R),
  enet_ok cols y w b l1 l2 e2s e2b = true ->
  Q2R l1 = INR (length y) * penalty * l1_ratio ->
  Q2R l2 = INR (length y) * penalty * (1 - l1_ratio) ->
  (0 < length y)%nat ->
  forall (w' : list R) (b' : R), length w' = length w ->
  enet_objective (RQ2 cols) (RQ y) penalty l1_ratio w' b'
  >= enet_objective (RQ2 cols) (RQ y) penalty l1_ratio (RQ w) (Q2R b)
     - (Rdot (EPS e2s) (absdiff w' (RQ w)) + eps_of e2b * Rabs (b' - Q2R b)) / INR (length y).
Proof. exact Proofs.enet_ok_sound. Qed.

(** T1.  The weaker certificate used for fits without intercept (b = 0) and for the known class of
    finding F7 (b = mean y on un-centred features): w is eps-optimal for the given, fixed intercept. *)
Theorem enet_ok_fixed_sound : forall (cols : list (list Q)) (y w : list Q) (b l1 l2 : Q) (e2s : list Q)
                                     (penalty l1_ratio : R),
  enet_ok_fixed cols y w b l1 l2 e2s = true ->
  Q2R l1 = INR (length y) * penalty * l1_ratio ->
  Q2R l2 = INR (length y) * penalty * (1 - l1_ratio) ->
  (0 < length y)%nat ->
  forall w' : list R, length w' = length w ->
  enet_objective (RQ2 cols) (RQ y) penalty l1_ratio w' (Q2R b)
  >= enet_objective (RQ2 cols) (RQ y) penalty l1_ratio (RQ w) (Q2R b)
     - Rdot (EPS e2s) (absdiff w' (RQ w)) / INR (length y).
Proof. exact Proofs.enet_ok_fixed_sound. Qed.

(** T1.  Coefficients under the l1 threshold are zero: at any point that satisfies the coordinate
    condition up to eps, a feature whose soft-threshold input x_j.(r + w_j x_j) = c + w_j*|x_j|^2 lies
    under l1 by more than eps has coefficient exactly 0 ... *)
Theorem threshold_zero : forall c l1 l2 q th eps : R, 0 <= q -> 0 <= l2 ->
  coord_cond c l1 l2 th eps -> Rabs (c + th * q) < l1 - eps -> th = 0.
Proof. exact Proofs.threshold_zero. Qed.

(** ... and the coordinate update of the model (`w[j] = signum(tmp) * max(|tmp| - n*l1_ratio*penalty, 0) / (...)`,
    replayed bit for bit against the implementation) returns exactly 0 there. *)
Theorem cd_update_threshold : forall l1r pen nF tmp nj : R,
  Rabs tmp <= nF * l1r * pen -> cd_new_w R_ops RX l1r pen nF tmp nj = 0.
Proof. exact Proofs.cd_update_threshold. Qed.

(** Finding F7.  The glue of ElasticNet::fit (intercept := mean y, coefficients := a minimiser for that
    fixed intercept) does NOT give a joint minimiser on un-centred features: refuted by a witness
    (x = 10..13, y = 1..4, penalty 0.1, l1_ratio 0.5) ... *)
Theorem enet_intercept_refuted :
  exists (cols : list (list R)) (y : list R) (penalty l1_ratio : R) (w : list R),
    let ybar := Rsum y / INR (length y) in
    (forall w' : list R, length w' = length w ->
       enet_objective cols y penalty l1_ratio w' ybar >= enet_objective cols y penalty l1_ratio w ybar)
    /\ exists (w' : list R) (b' : R),
       enet_objective cols y penalty l1_ratio w' b' < enet_objective cols y penalty l1_ratio w ybar.
Proof. exact Proofs.enet_intercept_refuted. Qed.

(** ... while outside the known class (every feature column sums to zero) the same glue is jointly
    optimal: exact first-order conditions in the coefficients for the intercept mean y suffice. *)
Theorem enet_intercept_outside_known : forall (cols : list (list R)) (y : list R) (penalty l1_ratio : R) (w : list R),
  Forall (fun c => length c = length y) cols -> length w = length cols -> (0 < length y)%nat ->
  Forall (fun c => Rsum c = 0) cols ->
  let n := INR (length y) in
  let ybar := Rsum y / n in
  kkt_all (map (fun c => Rdot c (vsub y (predictions cols (length y) w ybar))) cols)
          (repeat (n * penalty * l1_ratio) (length cols)) (repeat (n * penalty * (1 - l1_ratio)) (length cols))
          w (repeat 0 (length cols)) ->
  forall (w' : list R) (b' : R), length w' = length w ->
  enet_objective cols y penalty l1_ratio w' b' >= enet_objective cols y penalty l1_ratio w ybar.
Proof. exact Proofs.enet_joint_centred. Qed.

(** T2.  Weak duality of the reported gap.  [duality_gap R_ops RX ...] is the model of linfa's
    `duality_gap` (the same Gallina term that is replayed bit for bit at binary64 against the
    implementation), here over the reals and at the point w with its residual r = y - X w
    (for fits with intercept, y is the centred target).  With P(v) = 1/2 |y - X v|^2 + l1 |v|_1 +
    l2/2 |v|^2 the n-fold objective (l1 = l1_ratio*penalty*n, l2 = (1-l1_ratio)*penalty*n):
    no other coefficient vector w' lowers P by more than the gap ... *)
Theorem gap_upper_bound : forall (cc : bool) (l1r pen nF : R) (cols : list (list R)) (y w w' : list R),
  Forall (fun c => length c = length y) cols -> length w = length cols -> length w' = length cols ->
  0 <= l1r * pen * nF -> 0 <= (1 - l1r) * pen * nF ->
  let p := length cols in
  let P v := objective cols y (repeat (l1r * pen * nF) p) (repeat ((1 - l1r) * pen * nF) p) v in
  P w - P w' <= duality_gap R_ops RX cc l1r pen nF cols y w (residual cols y w).
Proof. exact Proofs.gap_upper_bound. Qed.

(** ... and the gap is non-negative. *)
Theorem gap_nonneg : forall (cc : bool) (l1r pen nF : R) (cols : list (list R)) (y w : list R),
  Forall (fun c => length c = length y) cols -> length w = length cols ->
  0 <= l1r * pen * nF -> 0 <= (1 - l1r) * pen * nF ->
  0 <= duality_gap R_ops RX cc l1r pen nF cols y w (residual cols y w).
Proof. exact Proofs.gap_nonneg. Qed.

(** T2.  For all inputs: the coordinate update of the model (soft thresholding of tmp = x_j.(r + w_j x_j),
    divided by |x_j|^2 + n(1-l1_ratio)penalty) solves the first-order condition of its coordinate exactly;
    tmp - nj*w_new is the correlation x_j.r after the residual update. *)
Theorem cd_update_kkt : forall l1r pen nF tmp nj : R,
  0 <= nF * l1r * pen -> 0 <= nF * (1 - l1r) * pen -> 0 < nj + nF * (1 - l1r) * pen ->
  let wn := cd_new_w R_ops RX l1r pen nF tmp nj in
  coord_cond (tmp - nj * wn) (nF * l1r * pen) (nF * (1 - l1r) * pen) wn 0.
Proof. exact Proofs.cd_update_kkt. Qed.

(** T2 (Common/Convex.v).  Multi-task: first-order conditions of every row W_j of the coefficient matrix
    (group soft-thresholding: |G_j - l1 W_j/|W_j|| <= eps_j, or |G_j| <= l1 + eps_j for a zero row) imply
    eps-optimality against every other coefficient matrix, for
      sum_k 1/2 |y_k - X w_k|^2 + l1 sum_j |W_j|_2 + l2/2 |W|_F^2   (n times the documented objective). *)
Theorem group_kkt_eps_optimal : forall (cols Ys Ws Ws' : list (list R)) (l1 l2 : R) (eps : list R),
  Forall (fun y => Forall (fun c => length c = length y) cols) Ys ->
  length Ws = length Ys -> length Ws' = length Ys ->
  Forall (fun w => length w = length cols) Ws -> Forall (fun w => length w = length cols) Ws' ->
  0 <= l1 -> 0 <= l2 ->
  group_all (trans (length cols) (corr_tasks cols Ys Ws)) (trans (length cols) Ws) l1 l2 eps ->
  mobjective cols Ys l1 l2 Ws'
  >= mobjective cols Ys l1 l2 Ws - Rdot eps (rowdist (trans (length cols) Ws') (trans (length cols) Ws)).
Proof. exact Convex.group_kkt_eps_optimal. Qed.

(** T2.  Soundness of the multi-task checker evaluated on every MultiTaskElasticNet fit (targets with the
    returned intercepts subtracted): the returned matrix is eps-optimal for those intercepts. *)
Theorem mtl_ok_sound : forall (cols Ys Ws : list (list Q)) (l1 l2 : Q) (e2s : list Q),
  mtl_ok cols Ys Ws l1 l2 e2s = true ->
  forall Ws' : list (list R), length Ws' = length Ys -> Forall (fun w => length w = length cols) Ws' ->
  mobjective (RQ2 cols) (RQ2 Ys) (Q2R l1) (Q2R l2) Ws'
  >= mobjective (RQ2 cols) (RQ2 Ys) (Q2R l1) (Q2R l2) (RQ2 Ws)
     - Rdot (EPS e2s) (rowdist (trans (length cols) Ws') (trans (length cols) (RQ2 Ws))).
Proof. exact Proofs.mtl_ok_sound. Qed.
