(** C11 - property theorems (statements only; proofs are in Common/Convex.v and C11/Proofs.v).

    Notation of the statements.  The design matrix is given by its feature columns [cols]
    (each of length n = length y); [predictions cols n w b] = X w + b; [sse] = |y - X w - b|^2;
    [enet_objective cols y penalty l1_ratio w b]
       = 1/(2n) |y - X w - b|^2 + penalty * (l1_ratio |w|_1 + (1 - l1_ratio)/2 |w|_2^2),
    the objective documented by linfa-elasticnet.  [RQ] / [RQ2] map rational data to the reals.
    The checkers [ols_ok], [enet_ok], [enet_ok_fixed] (C11/Model.v) are the functions that every
    run of `./check C11` evaluates by vm_compute on the implementation's outputs; [eps_of e2] is
    sqrt e2, the tolerance whose square the checker was given.

    The coordinate-descent theorems (second half of the file) are about [cd_sweep], [cd_loop],
    [coordinate_descent] of C11/Model.v - the Gallina terms replayed bit for bit at binary64 / binary32
    against the implementation - instantiated over the reals with [RXe e]: e is the tolerance of
    approx::abs_diff_eq! in the test that skips columns of tiny norm (2^-52 in the implementation,
    [RX] = [RXe 2^-52]; e = 0 reads `abs_diff_eq!(norm, 0)` as `norm = 0`).  The residual updates are guarded by
    the exact test `w != 0` since the repair of finding F52 (/repo 8010f90); [cd_sweep_absdiff] is the sweep
    with the earlier guard `abs_diff_ne!(w, 0)`, kept for the witness of that finding, and [band_free e w]
    (no coefficient in the band 0 < |w_j| <= e) is the side condition that sweep needed.
    [objective cols y (repeat l1 p) (repeat l2 p) w] = 1/2 |y - X w|^2 + l1 |w|_1 + l2/2 |w|^2 is n times the
    documented objective for l1 = n*l1_ratio*penalty, l2 = n*(1-l1_ratio)*penalty (y: the centred target).

    The corresponding theorems about the block (multi-task) sweep [bcd_sweep] are in C11/PropertiesBlock.v. *)
From Coq Require Import List QArith Qreals Reals.
From LinfaVerif Require Import Common.Num Common.NdSum Common.QF Common.Convex C11.Model C11.Proofs C11.Descent C11.OlsGap C11.OlsExact.
Import ListNotations.
Local Open Scope R_scope.

(** T1 (Common/Convex.v).  First-order conditions up to eps_j imply eps-optimality against EVERY other
    coefficient vector, for 1/2 |y - sum_j theta_j col_j|^2 + sum_j (l1_j |theta_j| + l2_j/2 theta_j^2). *)
Theorem kkt_eps_optimal : forall (cols : list (list R)) (y l1s l2s eps th th' : list R),
  Forall (fun c => length c = length y) cols ->
  kkt_all (map (fun c => Rdot c (residual cols y th)) cols) l1s l2s th eps ->
  length th' = length th ->
  objective cols y l1s l2s th' >= objective cols y l1s l2s th - Rdot eps (absdiff th' th).
Proof. exact Convex.kkt_eps_optimal. Qed.

(** T1.  Ordinary least squares, exact form: coefficients and intercept whose residual is orthogonal to
    every feature column and to the constant column minimise the sum of squared errors. *)
Theorem ols_optimal : forall (cols : list (list R)) (y w : list R) (b : R),
  Forall (fun c => length c = length y) cols -> length w = length cols ->
  let r := vsub y (predictions cols (length y) w b) in
  Forall (fun c => Rdot c r = 0) cols -> Rsum r = 0 ->
  forall (w' : list R) (b' : R), length w' = length w -> sse cols y w' b' >= sse cols y w b.
Proof. exact Proofs.ols_optimal. Qed.

(** T1.  Soundness of the OLS checker evaluated on every LinearRegression fit: acceptance certifies
    that no other (w', b') has a sum of squared errors lower by more than the stated slack. *)
Theorem ols_ok_sound : forall (cols : list (list Q)) (y w : list Q) (b : Q) (e2s : list Q) (e2b : Q),
  ols_ok cols y w b e2s e2b = true -> (0 < length y)%nat ->
  forall (w' : list R) (b' : R), length w' = length w ->
  sse (RQ2 cols) (RQ y) w' b'
  >= sse (RQ2 cols) (RQ y) (RQ w) (Q2R b)
     - 2 * (Rdot (EPS e2s) (absdiff w' (RQ w)) + eps_of e2b * Rabs (b' - Q2R b)).
Proof. exact Proofs.ols_ok_sound. Qed.

Theorem ols_ok_noint_sound : forall (cols : list (list Q)) (y w : list Q) (e2s : list Q),
  ols_ok_noint cols y w e2s = true -> (0 < length y)%nat ->
  forall w' : list R, length w' = length w ->
  sse (RQ2 cols) (RQ y) w' 0 >= sse (RQ2 cols) (RQ y) (RQ w) 0 - 2 * Rdot (EPS e2s) (absdiff w' (RQ w)).
Proof. exact Proofs.ols_ok_noint_sound. Qed.

(** T1.  Soundness of the exact-gap checker evaluated on every LinearRegression fit.  Given a candidate
    (ws, bs) - computed by rational elimination, not trusted - the checker verifies that its residual is
    exactly orthogonal to every feature column and to the constant column and compares the two sums of
    squared errors exactly.  Acceptance: no other (w', b') has a sum of squared errors lower than that of the
    returned (w, b) by more than tau2 - an absolute bound on the optimality gap that does not depend on the
    conditioning of the design (offsets, scales) nor on the distance to (w', b'). *)
Theorem ols_exact_ok_sound : forall (cols : list (list Q)) (y w : list Q) (b : Q) (ws : list Q) (bs tau2 : Q),
  ols_exact_ok cols y w b ws bs tau2 = true -> (0 < length y)%nat ->
  forall (w' : list R) (b' : R), length w' = length w ->
  sse (RQ2 cols) (RQ y) w' b' >= sse (RQ2 cols) (RQ y) (RQ w) (Q2R b) - Q2R tau2.
Proof. exact OlsExact.ols_exact_ok_sound. Qed.

Theorem ols_exact_ok_noint_sound : forall (cols : list (list Q)) (y w ws : list Q) (tau2 : Q),
  ols_exact_ok_noint cols y w ws tau2 = true -> (0 < length y)%nat ->
  forall w' : list R, length w' = length w ->
  sse (RQ2 cols) (RQ y) w' 0 >= sse (RQ2 cols) (RQ y) (RQ w) 0 - Q2R tau2.
Proof. exact OlsExact.ols_exact_ok_noint_sound. Qed.

(** T1.  Soundness of the elastic-net checker (lasso: l1_ratio = 1, ridge: l1_ratio = 0), JOINTLY in
    coefficients and intercept, for the documented objective with l1 = n*penalty*l1_ratio and
    l2 = n*penalty*(1 - l1_ratio): no perturbation of any coefficient or of the intercept lowers the
    objective by more than (sum_j eps_j |w'_j - w_j| + eps_b |b' - b|) / n. *)
Theorem enet_ok_sound : forall (cols : list (list Q)) (y w : list Q) (b l1 l2 : Q) (e2s : list Q) (e2b : Q)
                               (penalty l1_ratio : R),
  enet_ok cols y w b l1 l2 e2s e2b = true ->
  Q2R l1 = INR (length y) * penalty * l1_ratio ->
  Q2R l2 = INR (length y) * penalty * (1 - l1_ratio) ->
  (0 < length y)%nat ->
  forall (w' : list R) (b' : R), length w' = length w ->
  enet_objective (RQ2 cols) (RQ y) penalty l1_ratio w' b'
  >= enet_objective (RQ2 cols) (RQ y) penalty l1_ratio (RQ w) (Q2R b)
     - (Rdot (EPS e2s) (absdiff w' (RQ w)) + eps_of e2b * Rabs (b' - Q2R b)) / INR (length y).
Proof. exact Proofs.enet_ok_sound. Qed.

(** T1.  The weaker certificate used for fits without intercept (b = 0) and for the known class of
    finding F7 (b = mean y on un-centred features): w is eps-optimal for the given, fixed intercept. *)
Theorem enet_ok_fixed_sound : forall (cols : list (list Q)) (y w : list Q) (b l1 l2 : Q) (e2s : list Q)
                                     (penalty l1_ratio : R),
  enet_ok_fixed cols y w b l1 l2 e2s = true ->
  Q2R l1 = INR (length y) * penalty * l1_ratio ->
  Q2R l2 = INR (length y) * penalty * (1 - l1_ratio) ->
  (0 < length y)%nat ->
  forall w' : list R, length w' = length w ->
  enet_objective (RQ2 cols) (RQ y) penalty l1_ratio w' (Q2R b)
  >= enet_objective (RQ2 cols) (RQ y) penalty l1_ratio (RQ w) (Q2R b)
     - Rdot (EPS e2s) (absdiff w' (RQ w)) / INR (length y).
Proof. exact Proofs.enet_ok_fixed_sound. Qed.

(** T1.  Coefficients under the l1 threshold are zero: at any point that satisfies the coordinate
    condition up to eps, a feature whose soft-threshold input x_j.(r + w_j x_j) = c + w_j*|x_j|^2 lies
    under l1 by more than eps has coefficient exactly 0 ... *)
Theorem threshold_zero : forall c l1 l2 q th eps : R, 0 <= q -> 0 <= l2 ->
  coord_cond c l1 l2 th eps -> Rabs (c + th * q) < l1 - eps -> th = 0.
Proof. exact Proofs.threshold_zero. Qed.

(** ... and the coordinate update of the model (`w[j] = signum(tmp) * max(|tmp| - n*l1_ratio*penalty, 0) / (...)`,
    replayed bit for bit against the implementation) returns exactly 0 there. *)
Theorem cd_update_threshold : forall l1r pen nF tmp nj : R,
  Rabs tmp <= nF * l1r * pen -> cd_new_w R_ops RX l1r pen nF tmp nj = 0.
Proof. exact Proofs.cd_update_threshold. Qed.

(** Finding F7.  The glue of ElasticNet::fit (intercept := mean y, coefficients := a minimiser for that
    fixed intercept) does NOT give a joint minimiser on un-centred features: refuted by a witness
    (x = 10..13, y = 1..4, penalty 0.1, l1_ratio 0.5) ... *)
Theorem enet_intercept_refuted :
  exists (cols : list (list R)) (y : list R) (penalty l1_ratio : R) (w : list R),
    let ybar := Rsum y / INR (length y) in
    (forall w' : list R, length w' = length w ->
       enet_objective cols y penalty l1_ratio w' ybar >= enet_objective cols y penalty l1_ratio w ybar)
    /\ exists (w' : list R) (b' : R),
       enet_objective cols y penalty l1_ratio w' b' < enet_objective cols y penalty l1_ratio w ybar.
Proof. exact Proofs.enet_intercept_refuted. Qed.

(** ... while outside the known class (every feature column sums to zero) the same glue is jointly
    optimal: exact first-order conditions in the coefficients for the intercept mean y suffice. *)
Theorem enet_intercept_outside_known : forall (cols : list (list R)) (y : list R) (penalty l1_ratio : R) (w : list R),
  Forall (fun c => length c = length y) cols -> length w = length cols -> (0 < length y)%nat ->
  Forall (fun c => Rsum c = 0) cols ->
  let n := INR (length y) in
  let ybar := Rsum y / n in
  kkt_all (map (fun c => Rdot c (vsub y (predictions cols (length y) w ybar))) cols)
          (repeat (n * penalty * l1_ratio) (length cols)) (repeat (n * penalty * (1 - l1_ratio)) (length cols))
          w (repeat 0 (length cols)) ->
  forall (w' : list R) (b' : R), length w' = length w ->
  enet_objective cols y penalty l1_ratio w' b' >= enet_objective cols y penalty l1_ratio w ybar.
Proof. exact Proofs.enet_joint_centred. Qed.

(** T2.  Weak duality of the reported gap.  [duality_gap R_ops RX ...] is the model of linfa's
    `duality_gap` (the same Gallina term that is replayed bit for bit at binary64 against the
    implementation), here over the reals and at the point w with its residual r = y - X w
    (for fits with intercept, y is the centred target).  With P(v) = 1/2 |y - X v|^2 + l1 |v|_1 +
    l2/2 |v|^2 the n-fold objective (l1 = l1_ratio*penalty*n, l2 = (1-l1_ratio)*penalty*n):
    no other coefficient vector w' lowers P by more than the gap ... *)
Theorem gap_upper_bound : forall (cc : bool) (l1r pen nF : R) (cols : list (list R)) (y w w' : list R),
  Forall (fun c => length c = length y) cols -> length w = length cols -> length w' = length cols ->
  0 <= l1r * pen * nF -> 0 <= (1 - l1r) * pen * nF ->
  let p := length cols in
  let P v := objective cols y (repeat (l1r * pen * nF) p) (repeat ((1 - l1r) * pen * nF) p) v in
  P w - P w' <= duality_gap R_ops RX cc l1r pen nF cols y w (residual cols y w).
Proof. exact Proofs.gap_upper_bound. Qed.

(** ... and the gap is non-negative. *)
Theorem gap_nonneg : forall (cc : bool) (l1r pen nF : R) (cols : list (list R)) (y w : list R),
  Forall (fun c => length c = length y) cols -> length w = length cols ->
  0 <= l1r * pen * nF -> 0 <= (1 - l1r) * pen * nF ->
  0 <= duality_gap R_ops RX cc l1r pen nF cols y w (residual cols y w).
Proof. exact Proofs.gap_nonneg. Qed.

(** T2.  For all inputs: the coordinate update of the model (soft thresholding of tmp = x_j.(r + w_j x_j),
    divided by |x_j|^2 + n(1-l1_ratio)penalty) solves the first-order condition of its coordinate exactly;
    tmp - nj*w_new is the correlation x_j.r after the residual update. *)
Theorem cd_update_kkt : forall l1r pen nF tmp nj : R,
  0 <= nF * l1r * pen -> 0 <= nF * (1 - l1r) * pen -> 0 < nj + nF * (1 - l1r) * pen ->
  let wn := cd_new_w R_ops RX l1r pen nF tmp nj in
  coord_cond (tmp - nj * wn) (nF * l1r * pen) (nF * (1 - l1r) * pen) wn 0.
Proof. exact Proofs.cd_update_kkt. Qed.

(** T2 (Common/Convex.v).  Multi-task: first-order conditions of every row W_j of the coefficient matrix
    (group soft-thresholding: |G_j - l1 W_j/|W_j|| <= eps_j, or |G_j| <= l1 + eps_j for a zero row) imply
    eps-optimality against every other coefficient matrix, for
      sum_k 1/2 |y_k - X w_k|^2 + l1 sum_j |W_j|_2 + l2/2 |W|_F^2   (n times the documented objective). *)
Theorem group_kkt_eps_optimal : forall (cols Ys Ws Ws' : list (list R)) (l1 l2 : R) (eps : list R),
  Forall (fun y => Forall (fun c => length c = length y) cols) Ys ->
  length Ws = length Ys -> length Ws' = length Ys ->
  Forall (fun w => length w = length cols) Ws -> Forall (fun w => length w = length cols) Ws' ->
  0 <= l1 -> 0 <= l2 ->
  group_all (trans (length cols) (corr_tasks cols Ys Ws)) (trans (length cols) Ws) l1 l2 eps ->
  mobjective cols Ys l1 l2 Ws'
  >= mobjective cols Ys l1 l2 Ws - Rdot eps (rowdist (trans (length cols) Ws') (trans (length cols) Ws)).
Proof. exact Convex.group_kkt_eps_optimal. Qed.

(** T2.  Soundness of the multi-task checker evaluated on every MultiTaskElasticNet fit (targets with the
    returned intercepts subtracted): the returned matrix is eps-optimal for those intercepts. *)
Theorem mtl_ok_sound : forall (cols Ys Ws : list (list Q)) (l1 l2 : Q) (e2s : list Q),
  mtl_ok cols Ys Ws l1 l2 e2s = true ->
  forall Ws' : list (list R), length Ws' = length Ys -> Forall (fun w => length w = length cols) Ws' ->
  mobjective (RQ2 cols) (RQ2 Ys) (Q2R l1) (Q2R l2) Ws'
  >= mobjective (RQ2 cols) (RQ2 Ys) (Q2R l1) (Q2R l2) (RQ2 Ws)
     - Rdot (EPS e2s) (rowdist (trans (length cols) Ws') (trans (length cols) (RQ2 Ws))).
Proof. exact Proofs.mtl_ok_sound. Qed.

(* ------------------------------------------------------------------------------------------- *)
(** * the coordinate-descent algorithm itself (for all inputs, exact arithmetic) *)

(** T2.  The coordinate update minimises the objective along its coordinate:
    f(v) = 1/2 nj v^2 - tmp v + l1 |v| + l2/2 v^2 is the objective as a function of w_j (up to a constant),
    tmp = x_j.(r + w_j x_j), nj = |x_j|^2. *)
Theorem cd_update_minimises_coordinate : forall l1r pen nF tmp nj t : R,
  0 <= nF * l1r * pen -> 0 <= nF * (1 - l1r) * pen -> 0 <= nj -> 0 < nj + nF * (1 - l1r) * pen ->
  let wn := cd_new_w R_ops RX l1r pen nF tmp nj in
  let f v := / 2 * nj * (v * v) - tmp * v + pen1 (nF * l1r * pen) (nF * (1 - l1r) * pen) v in
  f wn <= f t.
Proof. exact Descent.cd_update_minimises. Qed.

(** T2.  For every input and every tolerance e >= 0 of the column-skipping test: one sweep
    `for j in 0..n_features` started with the true residual never increases the objective and returns the true
    residual of the new coefficients (columns with |x_j|^2 <= e are skipped: coefficient and residual
    untouched) ... *)
Theorem cd_sweep_noninc : forall (cc : bool) (l1r pen nF e : R) (cols : list (list R)) (y w : list R)
                                 (wmax dwmax : R) (w2 r2 : list R) (m : R * R),
  0 <= nF * l1r * pen -> 0 <= nF * (1 - l1r) * pen -> 0 <= e ->
  Forall (fun c => length c = length y) cols -> length w = length cols ->
  cd_sweep R_ops (RXe e) cc l1r pen nF cols (map (fun c => dot R_ops cc c c) cols) w (residual cols y w) wmax dwmax
    = (w2, (r2, m)) ->
  let p := length cols in
  let P v := objective cols y (repeat (nF * l1r * pen) p) (repeat (nF * (1 - l1r) * pen) p) v in
  length w2 = length cols /\ r2 = residual cols y w2 /\ P w2 <= P w.
Proof. exact Descent.cd_sweep_noninc. Qed.

(** ... in particular with the literal tolerance 2^-52, i.e. for the very instance [RX] whose binary64
    counterpart is replayed against the implementation ... *)
Theorem cd_sweep_noninc_literal : forall (cc : bool) (l1r pen nF : R) (cols : list (list R)) (y w : list R)
                                         (wmax dwmax : R) (w2 r2 : list R) (m : R * R),
  0 <= nF * l1r * pen -> 0 <= nF * (1 - l1r) * pen ->
  Forall (fun c => length c = length y) cols -> length w = length cols ->
  cd_sweep R_ops RX cc l1r pen nF cols (map (fun c => dot R_ops cc c c) cols) w (residual cols y w) wmax dwmax
    = (w2, (r2, m)) ->
  let p := length cols in
  let P v := objective cols y (repeat (nF * l1r * pen) p) (repeat (nF * (1 - l1r) * pen) p) v in
  length w2 = length cols /\ r2 = residual cols y w2 /\ P w2 <= P w.
Proof. exact Descent.cd_sweep_noninc_literal. Qed.

(** Finding F52 (repaired in /repo 8010f90).  The sweep with the earlier guard `abs_diff_ne!(w, 0)` was a
    descent step only when no coefficient before or after the sweep lay in the band (0, e] ... *)
Theorem cd_sweep_absdiff_noninc : forall (cc : bool) (l1r pen nF e : R) (cols : list (list R)) (y w : list R)
                                         (wmax dwmax : R) (w2 r2 : list R) (m : R * R),
  0 <= nF * l1r * pen -> 0 <= nF * (1 - l1r) * pen -> 0 <= e ->
  Forall (fun c => length c = length y) cols -> length w = length cols ->
  cd_sweep_absdiff R_ops (RXe e) cc l1r pen nF cols (map (fun c => dot R_ops cc c c) cols) w (residual cols y w) wmax dwmax
    = (w2, (r2, m)) ->
  band_free e w -> band_free e w2 ->
  let p := length cols in
  let P v := objective cols y (repeat (nF * l1r * pen) p) (repeat (nF * (1 - l1r) * pen) p) v in
  length w2 = length cols /\ r2 = residual cols y w2 /\ P w2 <= P w.
Proof. exact Descent.cd_sweep_absdiff_noninc. Qed.

(** ... and with the literal tolerance 2^-52 the band mattered (witness: three copies of the column (1),
    target 2^-52, no penalty - every update returns 2^-52, which abs_diff_ne!(w_j, 0) treated as zero, so the
    coefficients were stored without the residual being updated; the objective quadrupled). *)
Theorem cd_sweep_band_refuted :
  exists (cols : list (list R)) (y w w2 r2 : list R) (m : R * R),
    cd_sweep_absdiff R_ops RX false 0 0 1 cols (map (fun c => dot R_ops false c c) cols) w (residual cols y w) 0 0 = (w2, (r2, m))
    /\ r2 <> residual cols y w2
    /\ objective cols y (repeat 0 3) (repeat 0 3) w < objective cols y (repeat 0 3) (repeat 0 3) w2.
Proof. exact Descent.cd_sweep_band_refuted. Qed.

(** T2.  A sweep that returns the coefficients it was given certifies the first-order conditions of every
    coordinate exactly, hence global optimality (kkt_optimal) - provided skipped columns are zero columns
    with zero coefficient (the only side condition left; it is finding F50) ... *)
Theorem cd_fixed_point_is_kkt : forall (cc : bool) (l1r pen nF e : R) (cols : list (list R)) (y w : list R)
                                       (wmax dwmax : R) (r2 : list R) (m : R * R),
  0 <= nF * l1r * pen -> 0 <= nF * (1 - l1r) * pen -> 0 <= e ->
  Forall (fun c => length c = length y) cols ->
  Forall2 (fun c t => sq c <= e -> sq c = 0 /\ t = 0) cols w ->
  cd_sweep R_ops (RXe e) cc l1r pen nF cols (map (fun c => dot R_ops cc c c) cols) w (residual cols y w) wmax dwmax
    = (w, (r2, m)) ->
  let p := length cols in
  let l1s := repeat (nF * l1r * pen) p in
  let l2s := repeat (nF * (1 - l1r) * pen) p in
  kkt_all (map (fun c => Rdot c (residual cols y w)) cols) l1s l2s w (repeat 0 p)
  /\ forall w', length w' = length w -> objective cols y l1s l2s w' >= objective cols y l1s l2s w.
Proof. exact Descent.cd_fixed_point_is_kkt. Qed.

(** ... for e = 0: zero columns carry a zero coefficient (true of everything the solver produces,
    [cd_result_zero_columns]) ... *)
Theorem cd_fixed_point_is_kkt_exact : forall (cc : bool) (l1r pen nF : R) (cols : list (list R)) (y w : list R)
                                             (wmax dwmax : R) (r2 : list R) (m : R * R),
  0 <= nF * l1r * pen -> 0 <= nF * (1 - l1r) * pen ->
  Forall (fun c => length c = length y) cols ->
  Forall2 (fun c t => sq c = 0 -> t = 0) cols w ->
  cd_sweep R_ops (RXe 0) cc l1r pen nF cols (map (fun c => dot R_ops cc c c) cols) w (residual cols y w) wmax dwmax
    = (w, (r2, m)) ->
  let p := length cols in
  let l1s := repeat (nF * l1r * pen) p in
  let l2s := repeat (nF * (1 - l1r) * pen) p in
  kkt_all (map (fun c => Rdot c (residual cols y w)) cols) l1s l2s w (repeat 0 p)
  /\ forall w', length w' = length w -> objective cols y l1s l2s w' >= objective cols y l1s l2s w.
Proof. exact Descent.cd_fixed_point_is_kkt_exact. Qed.

Theorem cd_result_zero_columns : forall (cc : bool) (l1r pen nF e : R) (cols : list (list R)) (y : list R) (tol : R)
                                        (maxit : N) (w : list R) (g : R) (s : N),
  coordinate_descent R_ops (RXe e) cc l1r pen nF cols y tol maxit = (w, (g, s)) ->
  Forall2 (fun c t => sq c <= e -> t = 0) cols w.
Proof. exact Descent.cd_result_zero_columns. Qed.

(** ... and finding F50 (known, untouched by the repair of F52) as a statement about the model with the literal
    tolerance: a column of squared norm 2^-54 is skipped, w = 0 is a fixed point of the sweep, yet another
    coefficient fits the target exactly. *)
Theorem cd_fixed_point_eps_refuted :
  exists (cols : list (list R)) (y w w' r2 : list R) (m : R * R),
    cd_sweep R_ops RX false 0 0 1 cols (map (fun c => dot R_ops false c c) cols) w (residual cols y w) 0 0 = (w, (r2, m))
    /\ length w' = length w
    /\ objective cols y (repeat 0 1) (repeat 0 1) w' < objective cols y (repeat 0 1) (repeat 0 1) w.
Proof. exact Descent.cd_fixed_point_eps_refuted. Qed.

(** T2.  The whole solver `coordinate_descent` (w = 0, r = y, sweeps, stopping rule, duality gap) over the
    reals, for every input and every tolerance e >= 0 of the column-skipping test: the returned point is never
    worse than w = 0; its reported gap - unless it still is the initial value 1 + tol because the stopping test
    never fired - bounds the suboptimality of the returned point against every coefficient vector, also when
    the budget ran out and the gap is that of an earlier iterate; a run that stopped early
    (n_steps < max_iterations) has gap < tol * |y|^2 ... *)
Theorem cd_result_certified : forall (cc : bool) (l1r pen nF e : R) (cols : list (list R)) (y : list R) (tol : R)
                                     (maxit : N) (w : list R) (g : R) (s : N),
  0 <= nF * l1r * pen -> 0 <= nF * (1 - l1r) * pen -> 0 <= e ->
  Forall (fun c => length c = length y) cols ->
  coordinate_descent R_ops (RXe e) cc l1r pen nF cols y tol maxit = (w, (g, s)) ->
  let p := length cols in
  let P v := objective cols y (repeat (nF * l1r * pen) p) (repeat (nF * (1 - l1r) * pen) p) v in
  length w = p /\ P w <= P (repeat 0 p)
  /\ (g = 1 + tol \/ forall v, length v = p -> P w - P v <= g)
  /\ ((s < maxit)%N -> g < tol * sq y).
Proof. exact Descent.cd_result_certified. Qed.

(** ... in particular for the literal instance [RX] (tolerance 2^-52). *)
Theorem cd_result_certified_literal : forall (cc : bool) (l1r pen nF : R) (cols : list (list R)) (y : list R) (tol : R)
                                             (maxit : N) (w : list R) (g : R) (s : N),
  0 <= nF * l1r * pen -> 0 <= nF * (1 - l1r) * pen ->
  Forall (fun c => length c = length y) cols ->
  coordinate_descent R_ops RX cc l1r pen nF cols y tol maxit = (w, (g, s)) ->
  let p := length cols in
  let P v := objective cols y (repeat (nF * l1r * pen) p) (repeat (nF * (1 - l1r) * pen) p) v in
  length w = p /\ P w <= P (repeat 0 p)
  /\ (g = 1 + tol \/ forall v, length v = p -> P w - P v <= g)
  /\ ((s < maxit)%N -> g < tol * sq y).
Proof. exact Descent.cd_result_certified_literal. Qed.

(* ------------------------------------------------------------------------------------------- *)
(** * uniqueness of the least-squares solution *)

(** T2.  Full column rank of [X 1] (the only (v, c) with X v + c = 0 is 0): two minimisers of the sum of
    squared errors coincide, so the point certified by [ols_ok_sound] with eps = 0 is THE solution. *)
Theorem ols_unique : forall (cols : list (list R)) (y w1 : list R) (b1 : R) (w2 : list R) (b2 : R),
  Forall (fun c => length c = length y) cols -> length w1 = length cols -> length w2 = length cols ->
  (forall (v : list R) (c : R), length v = length cols ->
     predictions cols (length y) v c = repeat 0 (length y) -> v = repeat 0 (length cols) /\ c = 0) ->
  (forall w' b', length w' = length cols -> sse cols y w' b' >= sse cols y w1 b1) ->
  (forall w' b', length w' = length cols -> sse cols y w' b' >= sse cols y w2 b2) ->
  w1 = w2 /\ b1 = b2.
Proof. exact OlsGap.ols_unique. Qed.

Theorem ols_unique_noint : forall (cols : list (list R)) (y w1 w2 : list R),
  Forall (fun c => length c = length y) cols -> length w1 = length cols -> length w2 = length cols ->
  (forall v : list R, length v = length cols ->
     lin (length y) cols v = repeat 0 (length y) -> v = repeat 0 (length cols)) ->
  (forall w', length w' = length cols -> sse cols y w' 0 >= sse cols y w1 0) ->
  (forall w', length w' = length cols -> sse cols y w' 0 >= sse cols y w2 0) ->
  w1 = w2.
Proof. exact OlsGap.ols_unique_noint. Qed.

(* ------------------------------------------------------------------------------------------- *)
(** * the reported duality gap and the intercept (finding F7) *)

(** T2.  For every input: the gap the solver computes on the centred target y - b (b = mean y) bounds the
    suboptimality of w, in units of n times the documented objective, FOR THAT FIXED INTERCEPT ... *)
Theorem gap_bounds_fixed_intercept : forall (cc : bool) (cols : list (list R)) (y : list R) (b penalty l1_ratio : R)
                                            (w w' : list R),
  Forall (fun c => length c = length y) cols -> length w = length cols -> length w' = length cols ->
  (0 < length y)%nat -> 0 <= penalty -> 0 <= l1_ratio <= 1 ->
  let n := INR (length y) in
  let yc := map (fun v => v - b) y in
  n * (enet_objective cols y penalty l1_ratio w b - enet_objective cols y penalty l1_ratio w' b)
  <= duality_gap R_ops RX cc l1_ratio penalty n cols yc w (residual cols yc w).
Proof. exact OlsGap.gap_bounds_fixed_intercept. Qed.

(** ... jointly in coefficients and intercept when every feature column sums to zero (outside F7) ... *)
Theorem gap_bounds_joint_centred : forall (cc : bool) (cols : list (list R)) (y : list R) (penalty l1_ratio : R)
                                          (w w' : list R) (b' : R),
  Forall (fun c => length c = length y) cols -> length w = length cols -> length w' = length cols ->
  (0 < length y)%nat -> 0 <= penalty -> 0 <= l1_ratio <= 1 ->
  Forall (fun c => Rsum c = 0) cols ->
  let n := INR (length y) in
  let ybar := Rsum y / n in
  let yc := map (fun v => v - ybar) y in
  n * (enet_objective cols y penalty l1_ratio w ybar - enet_objective cols y penalty l1_ratio w' b')
  <= duality_gap R_ops RX cc l1_ratio penalty n cols yc w (residual cols yc w).
Proof. exact OlsGap.gap_bounds_joint_centred. Qed.

(** ... and not jointly on un-centred features: at the F7 witness (x = 10..13, y = 1..4, penalty 0.1,
    l1_ratio 0.5, w = 24/2671, intercept mean y) the reported gap is exactly 0 although another
    (w', b') has a strictly smaller objective. *)
Theorem gap_joint_refuted :
  exists (cols : list (list R)) (y : list R) (penalty l1_ratio : R) (w : list R),
    let n := INR (length y) in
    let ybar := Rsum y / n in
    let yc := map (fun v => v - ybar) y in
    duality_gap R_ops RX false l1_ratio penalty n cols yc w (residual cols yc w) = 0
    /\ exists (w' : list R) (b' : R),
         enet_objective cols y penalty l1_ratio w' b' < enet_objective cols y penalty l1_ratio w ybar.
Proof. exact OlsGap.gap_joint_refuted. Qed.
