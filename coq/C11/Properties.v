(** C11 - property theorems (statements only; proofs are in C11/Proofs.v). *)
From Coq Require Import List Reals.
From LinfaVerif Require Import Common.Num C11.Model C11.Proofs.
