(** C11 - lemmas.  Part 1: the exact rational arithmetic of the checkers and its real-number meaning.
    Part 2: soundness of the optimality checkers (instances of Common/Convex.v).  Part 3: the
    estimator-level statements (documented elastic-net objective, OLS).  Part 4: exact statements over
    the reals (OLS by orthogonality, the l1 threshold, the intercept glue = finding F7), followed by
    non-vacuity examples.  Part 5: weak duality of the model's duality gap.  Part 6: the coordinate
    update.  Part 7: the multi-task (group) checker. *)
From Coq Require Import List ZArith QArith Qreals Reals Lra Lia Psatz Bool.
From LinfaVerif Require Import Common.Num Common.NdSum Common.QF Common.Convex C11.Model.
Import ListNotations.

(* ------------------------------------------------------------------------------------------- *)
(** * Part 1: Q arithmetic *)

Lemma pos_strip2_eq a : forall d,
  (Zpos (fst (pos_strip2 a d)) * Zpos d = Zpos a * Zpos (snd (pos_strip2 a d)))%Z.
Proof.
  induction a as [a IH | a IH |]; intros d; simpl; try reflexivity.
  destruct d as [d | d |]; simpl; try reflexivity.
  specialize (IH d). lia.
Qed.

Lemma Qn2_eq q : Qn2 q == q.
Proof.
  destruct q as [n d]. unfold Qn2; simpl. destruct n as [|a|a]; [reflexivity | |].
  - pose proof (pos_strip2_eq a d) as H. destruct (pos_strip2 a d) as [a' d']; simpl in *.
    unfold Qeq; simpl. exact H.
  - pose proof (pos_strip2_eq a d) as H. destruct (pos_strip2 a d) as [a' d']; simpl in *.
    unfold Qeq; simpl. rewrite <- !Pos2Z.opp_pos. lia.
Qed.

Lemma qadd_shift_eq a b q : qadd_shift a b = Some q -> q == a + b.
Proof.
  unfold qadd_shift. destruct a as [na da], b as [nb db]; simpl.
  destruct (N.leb _ _).
  - destruct (Z.eqb _ _) eqn:E; [|discriminate]. intros H; inversion H; subst; clear H.
    apply Z.eqb_eq in E. rewrite Z.shiftl_mul_pow2 in E by lia.
    unfold Qeq, Qplus; simpl. rewrite Z.shiftl_mul_pow2 by lia. rewrite Pos2Z.inj_mul, <- E. ring.
  - destruct (Z.eqb _ _) eqn:E; [|discriminate]. intros H; inversion H; subst; clear H.
    apply Z.eqb_eq in E. rewrite Z.shiftl_mul_pow2 in E by lia.
    unfold Qeq, Qplus; simpl. rewrite Z.shiftl_mul_pow2 by lia. rewrite Pos2Z.inj_mul, <- E. ring.
Qed.

Lemma qadd_eq a b : qadd a b == a + b.
Proof.
  unfold qadd. destruct (qadd_shift a b) as [q|] eqn:E; rewrite Qn2_eq; [|reflexivity].
  exact (qadd_shift_eq a b q E).
Qed.
Lemma qmul_eq a b : qmul a b == a * b.
Proof. unfold qmul. apply Qn2_eq. Qed.
Lemma qsub_eq a b : qsub a b == a - b.
Proof. unfold qsub. rewrite qadd_eq. reflexivity. Qed.

Lemma R_qadd a b : Q2R (qadd a b) = (Q2R a + Q2R b)%R.
Proof. rewrite (Qeq_eqR _ _ (qadd_eq a b)). apply Q2R_plus. Qed.
Lemma R_qmul a b : Q2R (qmul a b) = (Q2R a * Q2R b)%R.
Proof. rewrite (Qeq_eqR _ _ (qmul_eq a b)). apply Q2R_mult. Qed.
Lemma R_qsub a b : Q2R (qsub a b) = (Q2R a - Q2R b)%R.
Proof. rewrite (Qeq_eqR _ _ (qsub_eq a b)). apply Q2R_minus. Qed.
Lemma R_0 : Q2R 0 = 0%R.
Proof. apply RMicromega.Q2R_0. Qed.
Lemma R_1 : Q2R 1 = 1%R.
Proof. apply RMicromega.Q2R_1. Qed.

Lemma R_qabs a : Q2R (qabs a) = Rabs (Q2R a).
Proof.
  unfold qabs. destruct (Qle_bool 0 a) eqn:E.
  - apply Qle_bool_iff in E. apply Qle_Rle in E. rewrite R_0 in E. rewrite Rabs_right; auto; lra.
  - assert (H : (a < 0)%Q). { apply Qnot_le_lt. intro C. apply Qle_bool_iff in C. congruence. }
    apply Qlt_Rlt in H. rewrite R_0 in H. rewrite Q2R_opp, Rabs_left; auto.
Qed.

Lemma Qle_bool_R a b : Qle_bool a b = true -> (Q2R a <= Q2R b)%R.
Proof. intros H. apply Qle_Rle. now apply Qle_bool_iff. Qed.
Lemma Qle_bool_R_false a b : Qle_bool a b = false -> (Q2R b < Q2R a)%R.
Proof.
  intros H. apply Qlt_Rlt. apply Qnot_le_lt. intro C. apply Qle_bool_iff in C. congruence.
Qed.
Lemma Qeq_bool_R0 a : Qeq_bool a 0 = true -> Q2R a = 0%R.
Proof. intros H. apply Qeq_bool_iff in H. rewrite (Qeq_eqR _ _ H). apply R_0. Qed.
Lemma Qeq_bool_R0_false a : Qeq_bool a 0 = false -> Q2R a <> 0%R.
Proof.
  intros H C. rewrite <- R_0 in C. apply eqR_Qeq in C. apply Qeq_bool_iff in C. congruence.
Qed.

Definition RQ (l : list Q) : list R := map Q2R l.
Definition RQ2 (m : list (list Q)) : list (list R) := map RQ m.

Lemma R_qdot a : forall b, Q2R (qdot a b) = Rdot (RQ a) (RQ b).
Proof.
  induction a as [|x a IH]; intros [|y b]; simpl; try apply R_0.
  rewrite R_qadd, R_qmul, IH. reflexivity.
Qed.
Lemma R_qsum l : Q2R (qsum l) = Rsum (RQ l).
Proof. induction l as [|a l IH]; simpl; [apply R_0|]. now rewrite R_qadd, IH. Qed.
Lemma R_qvadd a : forall b, RQ (qvadd a b) = vadd (RQ a) (RQ b).
Proof.
  unfold qvadd, vadd, RQ. induction a as [|x a IH]; intros [|y b]; simpl; auto.
  rewrite R_qadd, IH. reflexivity.
Qed.
Lemma R_qvscale c a : RQ (qvscale c a) = vscale (Q2R c) (RQ a).
Proof.
  unfold qvscale, vscale, RQ. induction a as [|x a IH]; simpl; auto. now rewrite R_qmul, IH.
Qed.
Lemma R_repeat0 n : RQ (repeat 0%Q n) = repeat 0%R n.
Proof. induction n; simpl; auto. now rewrite R_0, IHn. Qed.
Lemma R_qlin n cols : forall th, RQ (qlin n cols th) = lin n (RQ2 cols) (RQ th).
Proof.
  induction cols as [|c cols IH]; intros th; simpl; [apply R_repeat0|].
  destruct th as [|t th]; simpl; [apply R_repeat0|].
  now rewrite R_qvadd, R_qvscale, IH.
Qed.
Lemma RQ_length l : length (RQ l) = length l.
Proof. apply map_length. Qed.
Lemma R_qresidual cols y th : RQ (qresidual cols y th) = residual (RQ2 cols) (RQ y) (RQ th).
Proof.
  unfold qresidual, residual, vsub. rewrite R_qvadd, R_qvscale, R_qlin, RQ_length.
  replace (Q2R (-1)) with (-1)%R; [reflexivity|].
  change (-1)%Q with (- (1))%Q. rewrite Q2R_opp, R_1. reflexivity.
Qed.

(* ------------------------------------------------------------------------------------------- *)
(** * Part 2: soundness of the coordinate test and of [kkt_ok] *)
Local Open Scope R_scope.

Lemma sq_le_sqrt x e : x * x <= e -> Rabs x <= R_sqrt.sqrt e.
Proof.
  intros H. rewrite <- sqrt_Rsqr_abs. apply sqrt_le_1; unfold Rsqr; auto.
  - apply Rle_0_sqr.
  - pose proof (Rle_0_sqr x) as P. unfold Rsqr in P. lra.
Qed.

Definition eps_of (e2 : Q) : R := R_sqrt.sqrt (Q2R e2).

Lemma qsgn_pos th : 0 < Q2R th -> Q2R (qsgn th) = 1.
Proof.
  intros H. unfold qsgn. destruct (Qle_bool th 0) eqn:E.
  - apply Qle_bool_R in E. rewrite R_0 in E. lra.
  - apply R_1.
Qed.
Lemma qsgn_neg th : Q2R th < 0 -> Q2R (qsgn th) = -1.
Proof.
  intros H. unfold qsgn. destruct (Qle_bool th 0) eqn:E.
  - destruct (Qle_bool 0 th) eqn:E2.
    + apply Qle_bool_R in E2. rewrite R_0 in E2. lra.
    + change (-1)%Q with (- (1))%Q. rewrite Q2R_opp, R_1. reflexivity.
  - apply Qle_bool_R_false in E. rewrite R_0 in E. lra.
Qed.

Lemma coord_ok_sound c l1 l2 th e2 : coord_ok c l1 l2 th e2 = true ->
  coord_cond (Q2R c) (Q2R l1) (Q2R l2) (Q2R th) (eps_of e2).
Proof.
  unfold coord_ok, coord_cond, eps_of. intros H.
  destruct (Qeq_bool th 0) eqn:E.
  - apply Qeq_bool_R0 in E. repeat split; intros Hth; try lra.
    rewrite E. replace (Q2R c - Q2R l2 * 0) with (Q2R c) by ring.
    apply orb_true_iff in H. destruct H as [H | H]; apply Qle_bool_R in H.
    + rewrite R_qsub, R_qabs, R_qsub, R_qmul, E, R_0 in H.
      replace (Q2R c - Q2R l2 * 0) with (Q2R c) in H by ring.
      pose proof (sqrt_pos (Q2R e2)). lra.
    + rewrite R_qmul, !R_qsub, !R_qabs, !R_qsub, !R_qmul, E in H.
      replace (Q2R c - Q2R l2 * 0) with (Q2R c) in H by ring.
      apply sq_le_sqrt in H. unfold Rabs in H at 1.
      destruct (Rcase_abs (Rabs (Q2R c) - Q2R l1)); lra.
  - apply Qeq_bool_R0_false in E.
    apply Qle_bool_R in H. rewrite R_qmul, !R_qsub, !R_qmul in H. apply sq_le_sqrt in H.
    repeat split; intros Hth; try lra.
    + rewrite (qsgn_pos th Hth) in H. replace (Q2R c - Q2R l2 * Q2R th - Q2R l1 * 1)
        with (Q2R c - Q2R l2 * Q2R th - Q2R l1) in H by ring. exact H.
    + rewrite (qsgn_neg th Hth) in H. replace (Q2R c - Q2R l2 * Q2R th - Q2R l1 * -1)
        with (Q2R c - Q2R l2 * Q2R th + Q2R l1) in H by ring. exact H.
Qed.

Definition EPS (e2s : list Q) : list R := map eps_of e2s.

Lemma all_nonneg_cons a l : all_nonneg (a :: l) = true -> 0 <= Q2R a /\ all_nonneg l = true.
Proof.
  unfold all_nonneg; simpl. intros H. apply andb_true_iff in H as [H1 H2]. split; auto.
  apply Qle_bool_R in H1. now rewrite R_0 in H1.
Qed.

Lemma flags_sound cs : forall l1s l2s th e2s,
  length l1s = length cs -> length l2s = length cs -> length th = length cs -> length e2s = length cs ->
  all_nonneg l1s = true -> all_nonneg l2s = true ->
  forallb (fun b => b) (kkt_flags_c cs l1s l2s th e2s) = true ->
  kkt_all (RQ cs) (RQ l1s) (RQ l2s) (RQ th) (EPS e2s).
Proof.
  induction cs as [|c cs IH]; intros [|a l1s] [|b l2s] [|t th] [|e e2s] L1 L2 L3 L4 N1 N2 H;
    simpl in *; try discriminate; auto.
  apply andb_true_iff in H as [Hc H].
  apply all_nonneg_cons in N1 as [Ha N1]. apply all_nonneg_cons in N2 as [Hb N2].
  split; [exact Ha|]. split; [exact Hb|]. split; [unfold eps_of; apply sqrt_pos|].
  split; [apply coord_ok_sound; exact Hc|]. apply IH; auto.
Qed.

Lemma all_len_R n cols : all_len n cols = true -> Forall (fun c => length c = n) (RQ2 cols).
Proof.
  unfold all_len, RQ2. induction cols as [|c cols IH]; simpl; intros H; constructor.
  - apply andb_true_iff in H as [H _]. apply Nat.eqb_eq in H. now rewrite RQ_length.
  - apply andb_true_iff in H as [_ H]. auto.
Qed.

(** the verified checker: acceptance implies eps-optimality against every other coefficient vector *)
Lemma kkt_ok_sound cols y th l1s l2s e2s : kkt_ok cols y th l1s l2s e2s = true ->
  forall th' : list R, length th' = length th ->
  objective (RQ2 cols) (RQ y) (RQ l1s) (RQ l2s) th'
  >= objective (RQ2 cols) (RQ y) (RQ l1s) (RQ l2s) (RQ th) - Rdot (EPS e2s) (absdiff th' (RQ th)).
Proof.
  unfold kkt_ok. intros H th' L.
  repeat (apply andb_true_iff in H as [H ?]).
  repeat match goal with E : Nat.eqb _ _ = true |- _ => apply Nat.eqb_eq in E end.
  apply kkt_eps_optimal.
  - rewrite RQ_length. now apply all_len_R.
  - rewrite <- R_qresidual.
    assert (E : map (fun c => Rdot c (RQ (qresidual cols y th))) (RQ2 cols)
                = RQ (map (fun c => qdot c (qresidual cols y th)) cols)).
    { unfold RQ2, RQ. rewrite !map_map. apply map_ext. intros c. now rewrite R_qdot. }
    rewrite E. apply flags_sound; auto; rewrite map_length; auto.
  - now rewrite RQ_length.
Qed.

(* ------------------------------------------------------------------------------------------- *)
(** * Part 3: estimator-level statements *)

(** the documented objectives, over the reals; the design is given by its feature columns *)
Definition predictions (cols : list (list R)) (n : nat) (w : list R) (b : R) : list R :=
  vadd (lin n cols w) (repeat b n).
Definition sse (cols : list (list R)) (y w : list R) (b : R) : R :=
  sq (vsub y (predictions cols (length y) w b)).
Definition l1norm (w : list R) : R := Rsum (map Rabs w).
(** 1/(2n) |y - Xw - b|^2 + penalty * (l1_ratio |w|_1 + (1 - l1_ratio)/2 |w|_2^2) *)
Definition enet_objective (cols : list (list R)) (y : list R) (penalty l1_ratio : R) (w : list R) (b : R) : R :=
  / (2 * INR (length y)) * sse cols y w b + penalty * (l1_ratio * l1norm w + (1 - l1_ratio) / 2 * sq w).

Lemma vadd_assoc a : forall b c, vadd (vadd a b) c = vadd a (vadd b c).
Proof.
  unfold vadd. induction a as [|x a IH]; intros [|y b] [|z c]; simpl; auto. f_equal; [lra|apply IH].
Qed.

Lemma lin_intercept n cols : forall w b, length w = length cols ->
  lin n (cols ++ [repeat 1 n]) (w ++ [b]) = vadd (lin n cols w) (repeat b n).
Proof.
  induction cols as [|c cols IH]; intros [|t w] b L; simpl in L; try discriminate.
  - simpl. clear. unfold vadd, vscale. induction n as [|n IHn]; simpl; auto. f_equal; [lra|exact IHn].
  - simpl. rewrite IH by lia. now rewrite vadd_assoc.
Qed.

Lemma pen_intercept l1 l2 : forall w b,
  pen (repeat l1 (length w) ++ [0]) (repeat l2 (length w) ++ [0]) (w ++ [b]) = l1 * l1norm w + l2 / 2 * sq w.
Proof.
  unfold l1norm, sq. induction w as [|t w IH]; intros b; simpl.
  - unfold pen1. lra.
  - rewrite IH. unfold pen1. lra.
Qed.
Lemma pen_plain l1 l2 : forall w,
  pen (repeat l1 (length w)) (repeat l2 (length w)) w = l1 * l1norm w + l2 / 2 * sq w.
Proof.
  unfold l1norm, sq. induction w as [|t w IH]; simpl; [lra|]. rewrite IH. unfold pen1. lra.
Qed.

Lemma absdiff_app a : forall a' b b', length a' = length a ->
  forall e eb, length e = length a ->
  Rdot (e ++ [eb]) (absdiff (a' ++ [b']) (a ++ [b])) = Rdot e (absdiff a' a) + eb * Rabs (b' - b).
Proof.
  unfold absdiff. induction a as [|x a IH]; intros [|x' a'] b b' L [|e0 e] eb Le; simpl in *; try discriminate.
  - lra.
  - rewrite IH by lia. lra.
Qed.

Lemma objective_intercept cols y l1 l2 w b p : length w = length cols -> p = length w ->
  objective (cols ++ [repeat 1 (length y)]) y (repeat l1 p ++ [0]) (repeat l2 p ++ [0]) (w ++ [b])
  = / 2 * sse cols y w b + l1 * l1norm w + l2 / 2 * sq w.
Proof.
  intros L ->. unfold objective, residual, sse, predictions.
  rewrite lin_intercept by auto. rewrite pen_intercept. lra.
Qed.

Lemma scaled_objective cols y penalty l1_ratio w b : (0 < length y)%nat ->
  INR (length y) * enet_objective cols y penalty l1_ratio w b
  = / 2 * sse cols y w b + (INR (length y) * penalty * l1_ratio) * l1norm w
    + (INR (length y) * penalty * (1 - l1_ratio)) / 2 * sq w.
Proof.
  intros H. unfold enet_objective.
  assert (0 < INR (length y)) by (apply lt_0_INR; lia). field. lra.
Qed.

Lemma RQ_app a b : RQ (a ++ b) = RQ a ++ RQ b.
Proof. apply map_app. Qed.
Lemma RQ_repeat q n : RQ (repeat q n) = repeat (Q2R q) n.
Proof. induction n; simpl; auto. now rewrite IHn. Qed.

(** elastic net, jointly in coefficients and intercept *)
Lemma enet_ok_sound cols y w b l1 l2 e2s e2b penalty l1_ratio :
  enet_ok cols y w b l1 l2 e2s e2b = true ->
  Q2R l1 = INR (length y) * penalty * l1_ratio ->
  Q2R l2 = INR (length y) * penalty * (1 - l1_ratio) ->
  (0 < length y)%nat ->
  forall (w' : list R) (b' : R), length w' = length w ->
  enet_objective (RQ2 cols) (RQ y) penalty l1_ratio w' b'
  >= enet_objective (RQ2 cols) (RQ y) penalty l1_ratio (RQ w) (Q2R b)
     - (Rdot (EPS e2s) (absdiff w' (RQ w)) + eps_of e2b * Rabs (b' - Q2R b)) / INR (length y).
Proof.
  unfold enet_ok. intros H E1 E2 Hn w' b' L.
  assert (Lens : length w = length cols /\ length e2s = length cols).
  { unfold kkt_ok in H. repeat (apply andb_true_iff in H as [H ?]).
    repeat match goal with E : Nat.eqb _ _ = true |- _ => apply Nat.eqb_eq in E end.
    rewrite !app_length in *. simpl in *. lia. }
  destruct Lens as [Lw Le].
  pose proof (kkt_ok_sound _ _ _ _ _ _ H (w' ++ [b'])) as S.
  rewrite !app_length in S. simpl in S. specialize (S ltac:(lia)).
  unfold RQ2 in S. rewrite map_app in S. fold (RQ2 cols) in S. simpl in S.
  unfold ones in S. rewrite !RQ_app, !RQ_repeat in S. simpl in S. rewrite R_1, R_0 in S.
  unfold EPS in S. rewrite map_app in S. simpl in S. fold (EPS e2s) in S.
  rewrite <- (RQ_length y) in S at 1 2.
  assert (Lw' : length w' = length (RQ2 cols)) by (unfold RQ2; rewrite map_length; lia).
  assert (LwR : length (RQ w) = length (RQ2 cols)) by (unfold RQ2; rewrite RQ_length, map_length; lia).
  rewrite (objective_intercept (RQ2 cols) (RQ y) (Q2R l1) (Q2R l2) w' b' (length cols) Lw' ltac:(lia)) in S.
  rewrite (objective_intercept (RQ2 cols) (RQ y) (Q2R l1) (Q2R l2) (RQ w) (Q2R b) (length cols) LwR
             ltac:(rewrite RQ_length; lia)) in S.
  rewrite absdiff_app in S; [| rewrite RQ_length; lia | unfold EPS; rewrite map_length, RQ_length; lia].
  assert (Hn' : (0 < length (RQ y))%nat) by (rewrite RQ_length; lia).
  pose proof (scaled_objective (RQ2 cols) (RQ y) penalty l1_ratio w' b' Hn') as A.
  pose proof (scaled_objective (RQ2 cols) (RQ y) penalty l1_ratio (RQ w) (Q2R b) Hn') as B.
  rewrite RQ_length in A, B. rewrite <- E1, <- E2 in A, B.
  assert (P : 0 < INR (length y)) by (apply lt_0_INR; lia).
  set (n := INR (length y)) in *.
  set (F' := enet_objective (RQ2 cols) (RQ y) penalty l1_ratio w' b') in *.
  set (F0 := enet_objective (RQ2 cols) (RQ y) penalty l1_ratio (RQ w) (Q2R b)) in *.
  set (D := Rdot (EPS e2s) (absdiff w' (RQ w)) + eps_of e2b * Rabs (b' - Q2R b)) in *.
  assert (G : n * F' >= n * F0 - D) by lra.
  unfold Rdiv. apply Rle_ge. apply Rmult_le_reg_l with n; auto.
  rewrite Rmult_minus_distr_l. replace (n * (D * / n)) with D by (field; lra). lra.
Qed.

(** the same for a fixed intercept (fits without intercept: b = 0; known class of F7: b = mean y) *)
Lemma vadd_repeat_shift b : forall (y l : list R), length l = length y ->
  vsub (map (fun v => v - b) y) l = vsub y (vadd l (repeat b (length y))).
Proof.
  unfold vsub, vadd, vscale. induction y as [|y0 y IH]; intros [|l0 l] L; simpl in *; try discriminate; auto.
  f_equal; [lra|]. apply IH. lia.
Qed.

Lemma objective_fixed cols y l1 l2 w b p : Forall (fun c => length c = length y) cols ->
  length w = length cols -> p = length w ->
  objective cols (map (fun v => v - b) y) (repeat l1 p) (repeat l2 p) w
  = / 2 * sse cols y w b + l1 * l1norm w + l2 / 2 * sq w.
Proof.
  intros H L ->. unfold objective, residual, sse, predictions. rewrite map_length.
  rewrite vadd_repeat_shift by (apply lin_length; auto). rewrite pen_plain. lra.
Qed.

Lemma RQ_shift y b : RQ (map (fun v => qsub v b) y) = map (fun v => v - Q2R b) (RQ y).
Proof. unfold RQ. rewrite !map_map. apply map_ext. intros v. apply R_qsub. Qed.

Lemma enet_ok_fixed_sound cols y w b l1 l2 e2s penalty l1_ratio :
  enet_ok_fixed cols y w b l1 l2 e2s = true ->
  Q2R l1 = INR (length y) * penalty * l1_ratio ->
  Q2R l2 = INR (length y) * penalty * (1 - l1_ratio) ->
  (0 < length y)%nat ->
  forall w' : list R, length w' = length w ->
  enet_objective (RQ2 cols) (RQ y) penalty l1_ratio w' (Q2R b)
  >= enet_objective (RQ2 cols) (RQ y) penalty l1_ratio (RQ w) (Q2R b)
     - Rdot (EPS e2s) (absdiff w' (RQ w)) / INR (length y).
Proof.
  unfold enet_ok_fixed. intros H E1 E2 Hn w' L.
  assert (Lens : length w = length cols /\ all_len (length y) cols = true).
  { unfold kkt_ok in H. repeat (apply andb_true_iff in H as [H ?]).
    repeat match goal with E : Nat.eqb _ _ = true |- _ => apply Nat.eqb_eq in E end.
    rewrite map_length in *. split; [lia|assumption]. }
  destruct Lens as [Lw Wf]. apply all_len_R in Wf. rewrite <- (RQ_length y) in Wf.
  pose proof (kkt_ok_sound _ _ _ _ _ _ H w' L) as S.
  rewrite RQ_shift, !RQ_repeat in S.
  assert (Lw' : length w' = length (RQ2 cols)) by (unfold RQ2; rewrite map_length; lia).
  assert (LwR : length (RQ w) = length (RQ2 cols)) by (unfold RQ2; rewrite RQ_length, map_length; lia).
  rewrite (objective_fixed (RQ2 cols) (RQ y) (Q2R l1) (Q2R l2) w' (Q2R b) (length cols) Wf Lw' ltac:(lia)) in S.
  rewrite (objective_fixed (RQ2 cols) (RQ y) (Q2R l1) (Q2R l2) (RQ w) (Q2R b) (length cols) Wf LwR
             ltac:(rewrite RQ_length; lia)) in S.
  assert (Hn' : (0 < length (RQ y))%nat) by (rewrite RQ_length; lia).
  pose proof (scaled_objective (RQ2 cols) (RQ y) penalty l1_ratio w' (Q2R b) Hn') as A.
  pose proof (scaled_objective (RQ2 cols) (RQ y) penalty l1_ratio (RQ w) (Q2R b) Hn') as B.
  rewrite RQ_length in A, B. rewrite <- E1, <- E2 in A, B.
  assert (P : 0 < INR (length y)) by (apply lt_0_INR; lia).
  set (n := INR (length y)) in *.
  set (F' := enet_objective (RQ2 cols) (RQ y) penalty l1_ratio w' (Q2R b)) in *.
  set (F0 := enet_objective (RQ2 cols) (RQ y) penalty l1_ratio (RQ w) (Q2R b)) in *.
  set (D := Rdot (EPS e2s) (absdiff w' (RQ w))) in *.
  assert (G : n * F' >= n * F0 - D) by lra.
  unfold Rdiv. apply Rle_ge. apply Rmult_le_reg_l with n; auto.
  rewrite Rmult_minus_distr_l. replace (n * (D * / n)) with D by (field; lra). lra.
Qed.

(** ordinary least squares: sum of squared errors *)
Lemma ols_ok_sound cols y w b e2s e2b : ols_ok cols y w b e2s e2b = true -> (0 < length y)%nat ->
  forall (w' : list R) (b' : R), length w' = length w ->
  sse (RQ2 cols) (RQ y) w' b'
  >= sse (RQ2 cols) (RQ y) (RQ w) (Q2R b)
     - 2 * (Rdot (EPS e2s) (absdiff w' (RQ w)) + eps_of e2b * Rabs (b' - Q2R b)).
Proof.
  unfold ols_ok. intros H Hn w' b' L.
  pose proof (enet_ok_sound cols y w b 0 0 e2s e2b 0 0 H) as S.
  rewrite R_0 in S. specialize (S ltac:(ring) ltac:(ring) Hn w' b' L).
  unfold enet_objective in S. rewrite RQ_length in S.
  assert (P : 0 < INR (length y)) by (apply lt_0_INR; lia).
  set (n := INR (length y)) in *.
  set (D := Rdot (EPS e2s) (absdiff w' (RQ w)) + eps_of e2b * Rabs (b' - Q2R b)) in *.
  set (A := sse (RQ2 cols) (RQ y) w' b') in *. set (B := sse (RQ2 cols) (RQ y) (RQ w) (Q2R b)) in *.
  assert (E : / (2 * n) * A - (/ (2 * n) * B - D / n) = / (2 * n) * (A - (B - 2 * D))) by (field; lra).
  assert (Q : 0 <= / (2 * n) * (A - (B - 2 * D))) by lra.
  assert (0 < / (2 * n)) by (apply Rinv_0_lt_compat; lra).
  assert (0 <= A - (B - 2 * D)) by nra. lra.
Qed.

Lemma ols_ok_noint_sound cols y w e2s : ols_ok_noint cols y w e2s = true -> (0 < length y)%nat ->
  forall w' : list R, length w' = length w ->
  sse (RQ2 cols) (RQ y) w' 0 >= sse (RQ2 cols) (RQ y) (RQ w) 0 - 2 * Rdot (EPS e2s) (absdiff w' (RQ w)).
Proof.
  unfold ols_ok_noint. intros H Hn w' L.
  pose proof (enet_ok_fixed_sound cols y w 0 0 0 e2s 0 0 H) as S.
  rewrite R_0 in S. specialize (S ltac:(ring) ltac:(ring) Hn w' L).
  unfold enet_objective in S. rewrite RQ_length in S.
  assert (P : 0 < INR (length y)) by (apply lt_0_INR; lia).
  set (n := INR (length y)) in *.
  set (D := Rdot (EPS e2s) (absdiff w' (RQ w))) in *.
  set (A := sse (RQ2 cols) (RQ y) w' 0) in *. set (B := sse (RQ2 cols) (RQ y) (RQ w) 0) in *.
  assert (E : / (2 * n) * A - (/ (2 * n) * B - D / n) = / (2 * n) * (A - (B - 2 * D))) by (field; lra).
  assert (Q : 0 <= / (2 * n) * (A - (B - 2 * D))) by lra.
  assert (0 < / (2 * n)) by (apply Rinv_0_lt_compat; lra).
  assert (0 <= A - (B - 2 * D)) by nra. lra.
Qed.

(* ------------------------------------------------------------------------------------------- *)
(** * Part 4: exact statements over the reals *)

(** ** ordinary least squares: a residual orthogonal to every feature column and to the constant
       column minimises the sum of squared errors (Pythagoras) *)
Lemma kkt_all_zero cs : forall th, length th = length cs -> Forall (fun c => c = 0) cs ->
  kkt_all cs (repeat 0 (length cs)) (repeat 0 (length cs)) th (repeat 0 (length cs)).
Proof.
  induction cs as [|c cs IH]; intros [|t th] L H; simpl in *; try discriminate; auto.
  inversion H as [|? ? Hc Hr]; subst.
  repeat (split; [lra|]). split.
  - unfold coord_cond. replace (0 - 0 * t) with 0 by ring.
    repeat split; intros _; rewrite ?Rplus_0_r, ?Rminus_0_r, Rabs_R0; lra.
  - apply IH; auto.
Qed.

Lemma Rdot_ones r : Rdot (repeat 1 (length r)) r = Rsum r.
Proof. induction r as [|x r IH]; simpl; auto. rewrite IH. ring. Qed.

Lemma Rdot_repeat0_any n v : Rdot (repeat 0 n) v = 0.
Proof. apply Rdot_repeat0_l. Qed.

Lemma residual_intercept cols y w b : length w = length cols -> Forall (fun c => length c = length y) cols ->
  residual (cols ++ [repeat 1 (length y)]) y (w ++ [b]) = vsub y (predictions cols (length y) w b).
Proof. intros L H. unfold residual, predictions. now rewrite lin_intercept. Qed.

Lemma ols_optimal cols y w b :
  Forall (fun c => length c = length y) cols -> length w = length cols ->
  let r := vsub y (predictions cols (length y) w b) in
  Forall (fun c => Rdot c r = 0) cols -> Rsum r = 0 ->
  forall (w' : list R) (b' : R), length w' = length w -> sse cols y w' b' >= sse cols y w b.
Proof.
  intros H L r Ho Hs w' b' L'.
  set (cols1 := cols ++ [repeat 1 (length y)]).
  assert (H1 : Forall (fun c => length c = length y) cols1).
  { unfold cols1. apply Forall_app. split; auto. constructor; auto. apply repeat_length. }
  assert (Lr : length r = length y).
  { unfold r, predictions. rewrite vsub_length; auto.
    rewrite vadd_length; rewrite lin_length; auto. now rewrite repeat_length. }
  assert (K : kkt_all (map (fun c => Rdot c (residual cols1 y (w ++ [b]))) cols1)
                      (repeat 0 (length cols1)) (repeat 0 (length cols1)) (w ++ [b])
                      (repeat 0 (length (w ++ [b])))).
  { unfold cols1 at 1. rewrite residual_intercept by auto. fold r.
    replace (length (w ++ [b])) with (length cols1) by (unfold cols1; rewrite !app_length; simpl; lia).
    rewrite <- (map_length (fun c => Rdot c r) cols1) at 1 2 3.
    apply kkt_all_zero.
    - unfold cols1. rewrite map_length, !app_length. simpl. lia.
    - unfold cols1. rewrite map_app. apply Forall_app. split.
      + apply Forall_map. exact Ho.
      + simpl. constructor; auto. rewrite <- Lr, Rdot_ones. exact Hs. }
  pose proof (kkt_optimal cols1 y _ _ (w ++ [b]) (w' ++ [b']) H1 K
                ltac:(rewrite !app_length; simpl; lia)) as O.
  unfold cols1 in O. rewrite app_length in O. simpl in O.
  replace (length cols + 1)%nat with (S (length cols)) in O by lia.
  assert (E : forall n, repeat 0 (S n) = repeat 0 n ++ [0]).
  { induction n; simpl; auto. now rewrite <- IHn. }
  rewrite E in O.
  rewrite (objective_intercept cols y 0 0 w' b' (length cols) ltac:(lia) ltac:(lia)) in O.
  rewrite (objective_intercept cols y 0 0 w b (length cols) L ltac:(lia)) in O. lra.
Qed.

(** ** the l1 threshold *)
(** a point that passes the coordinate condition up to eps has a zero coefficient wherever the
    soft-threshold input x_j . (r + theta_j x_j) lies under l1 by more than eps *)
Lemma threshold_zero c l1 l2 q th eps : 0 <= q -> 0 <= l2 -> coord_cond c l1 l2 th eps ->
  Rabs (c + th * q) < l1 - eps -> th = 0.
Proof.
  intros Hq H2 (Hp & Hn & _) Hlt.
  destruct (Rtotal_order th 0) as [Hneg | [Hz | Hpos]]; auto; exfalso.
  - specialize (Hn Hneg). unfold Rabs in *.
    destruct (Rcase_abs (c - l2 * th + l1)), (Rcase_abs (c + th * q)); nra.
  - specialize (Hp Hpos). unfold Rabs in *.
    destruct (Rcase_abs (c - l2 * th - l1)), (Rcase_abs (c + th * q)); nra.
Qed.

(** the coordinate update of the model returns exactly zero when |x_j . r| <= n*l1_ratio*penalty *)
Lemma cd_update_threshold (l1r pen nF tmp nj : R) :
  Rabs tmp <= nF * l1r * pen -> cd_new_w R_ops RX l1r pen nF tmp nj = 0.
Proof.
  intros H. unfold cd_new_w; simpl. rewrite Rmax_right by lra. unfold Rdiv. ring.
Qed.

(** ** the intercept glue (finding F7) *)
(** What the implementation returns on exact arithmetic is: intercept = mean y, coefficients = a
    minimiser for that fixed intercept.  On un-centred features this is not a joint minimiser.
    Witness: one feature x = 10..13, y = 1..4, penalty 0.1, l1_ratio 0.5: w = 24/2671 is optimal
    for the intercept 5/2 (first-order condition holds exactly), the residuals sum to -1104/2671,
    and moving the intercept alone lowers the objective. *)
Lemma enet_intercept_refuted :
  exists (cols : list (list R)) (y : list R) (penalty l1_ratio : R) (w : list R),
    let ybar := Rsum y / INR (length y) in
    (forall w' : list R, length w' = length w ->
       enet_objective cols y penalty l1_ratio w' ybar >= enet_objective cols y penalty l1_ratio w ybar)
    /\ exists (w' : list R) (b' : R),
       enet_objective cols y penalty l1_ratio w' b' < enet_objective cols y penalty l1_ratio w ybar.
Proof.
  exists [[10; 11; 12; 13]], [1; 2; 3; 4], (1 / 10), (1 / 2), [24 / 2671].
  cbv zeta. split.
  - intros w' L.
    set (cols := [[10; 11; 12; 13]]). set (y := [1; 2; 3; 4]).
    assert (Eb : Rsum y / INR (length y) = 5 / 2) by (unfold y; simpl; lra).
    rewrite Eb.
    assert (Wf : Forall (fun c => length c = length y) cols) by (repeat constructor).
    assert (K : kkt_all (map (fun c => Rdot c (residual cols (map (fun v => v - 5 / 2) y) [24 / 2671])) cols)
                        [1 / 5] [1 / 5] [24 / 2671] (repeat 0 (length [24 / 2671]))).
    { simpl. repeat (split; [lra|]). split; [|exact I].
      unfold coord_cond, residual, vsub, vadd, vscale; simpl.
      repeat split; intros Hs; try lra.
      match goal with |- Rabs ?e <= _ => replace e with 0 by field end. rewrite Rabs_R0. lra. }
    assert (Wf' : Forall (fun c => length c = length (map (fun v => v - 5 / 2) y)) cols) by (repeat constructor).
    pose proof (kkt_optimal cols _ _ _ _ w' Wf' K L) as O.
    change [1 / 5] with (repeat (1 / 5) 1) in O.
    rewrite (objective_fixed cols y (1 / 5) (1 / 5) w' (5 / 2) 1 Wf L ltac:(simpl in L; lia)) in O.
    rewrite (objective_fixed cols y (1 / 5) (1 / 5) [24 / 2671] (5 / 2) 1 Wf eq_refl eq_refl) in O.
    unfold enet_objective. replace (INR (length y)) with 4 by (unfold y; simpl; lra). lra.
  - exists [24 / 2671], (5 / 2 - 276 / 2671).
    unfold enet_objective, sse, predictions, sq, l1norm, vsub, vadd, vscale; simpl.
    rewrite (Rabs_right (24 / 2671)) by lra. lra.
Qed.

(** outside the known class (every feature column sums to zero) the same glue IS jointly optimal *)
Lemma Rsum_vadd a : forall b, length a = length b -> Rsum (vadd a b) = Rsum a + Rsum b.
Proof.
  unfold vadd. induction a as [|x a IH]; intros [|y b] L; simpl in *; try discriminate; try lra.
  rewrite IH by lia. lra.
Qed.
Lemma Rsum_vscale c a : Rsum (vscale c a) = c * Rsum a.
Proof. unfold vscale. induction a as [|x a IH]; simpl; [lra|]. rewrite IH. lra. Qed.
Lemma Rsum_repeat b n : Rsum (repeat b n) = INR n * b.
Proof.
  induction n as [|n IH]; [simpl; lra|]. rewrite S_INR. simpl. rewrite IH. lra.
Qed.
Lemma Rsum_lin_centred n cols : forall w, Forall (fun c => length c = n) cols ->
  Forall (fun c => Rsum c = 0) cols -> Rsum (lin n cols w) = 0.
Proof.
  induction cols as [|c cols IH]; intros w H Z; simpl.
  - rewrite Rsum_repeat. lra.
  - destruct w as [|t w]; [rewrite Rsum_repeat; lra|].
    inversion H as [|? ? Hc Hr]; subst. inversion Z as [|? ? Zc Zr]; subst.
    rewrite Rsum_vadd by (rewrite vscale_length, lin_length; auto).
    rewrite Rsum_vscale, Zc, IH by auto. lra.
Qed.

Lemma kkt_all_app cs : forall l1s l2s th eps c a b t e,
  kkt_all cs l1s l2s th eps -> 0 <= a -> 0 <= b -> 0 <= e -> coord_cond c a b t e ->
  kkt_all (cs ++ [c]) (l1s ++ [a]) (l2s ++ [b]) (th ++ [t]) (eps ++ [e]).
Proof.
  induction cs as [|c0 cs IH]; intros [|a0 l1s] [|b0 l2s] [|t0 th] [|e0 eps] c a b t e K Ha Hb He Hc;
    simpl in K; try contradiction; simpl.
  - repeat (split; auto).
  - destruct K as (A & B & C & D & K). repeat (split; auto).
Qed.

Lemma enet_joint_centred cols y penalty l1_ratio w :
  Forall (fun c => length c = length y) cols -> length w = length cols -> (0 < length y)%nat ->
  Forall (fun c => Rsum c = 0) cols ->
  let n := INR (length y) in
  let ybar := Rsum y / n in
  kkt_all (map (fun c => Rdot c (vsub y (predictions cols (length y) w ybar))) cols)
          (repeat (n * penalty * l1_ratio) (length cols)) (repeat (n * penalty * (1 - l1_ratio)) (length cols))
          w (repeat 0 (length cols)) ->
  forall (w' : list R) (b' : R), length w' = length w ->
  enet_objective cols y penalty l1_ratio w' b' >= enet_objective cols y penalty l1_ratio w ybar.
Proof.
  intros H L Hn Z n ybar K w' b' L'.
  assert (P : 0 < n) by (apply lt_0_INR; lia).
  set (r := vsub y (predictions cols (length y) w ybar)) in *.
  assert (Sr : Rsum r = 0).
  { unfold r, predictions, vsub.
    assert (Ll : length (lin (length y) cols w) = length y) by (apply lin_length; auto).
    rewrite Rsum_vadd by (rewrite vscale_length, vadd_length; rewrite ?repeat_length; lia).
    rewrite Rsum_vscale, Rsum_vadd by (rewrite repeat_length; lia).
    rewrite Rsum_lin_centred, Rsum_repeat by auto. unfold ybar. fold n. field. lra. }
  set (cols1 := cols ++ [repeat 1 (length y)]).
  assert (H1 : Forall (fun c => length c = length y) cols1).
  { unfold cols1. apply Forall_app. split; auto. constructor; auto. apply repeat_length. }
  assert (Lr : length r = length y).
  { unfold r, predictions. rewrite vsub_length; auto.
    rewrite vadd_length; rewrite lin_length; auto. now rewrite repeat_length. }
  assert (K1 : kkt_all (map (fun c => Rdot c (residual cols1 y (w ++ [ybar]))) cols1)
                       (repeat (n * penalty * l1_ratio) (length cols) ++ [0])
                       (repeat (n * penalty * (1 - l1_ratio)) (length cols) ++ [0])
                       (w ++ [ybar]) (repeat 0 (length cols) ++ [0])).
  { unfold cols1 at 1. rewrite residual_intercept by auto. fold r. unfold cols1. rewrite map_app. simpl.
    apply kkt_all_app; auto; try lra.
    rewrite <- Lr, Rdot_ones, Sr. unfold coord_cond. replace (0 - 0 * ybar) with 0 by ring.
    repeat split; intros _; rewrite ?Rplus_0_r, ?Rminus_0_r, Rabs_R0; lra. }
  assert (E : forall k, repeat 0 k ++ [0] = repeat 0 (length (w ++ [ybar])) -> True) by auto.
  assert (E0 : repeat 0 (length cols) ++ [0] = repeat 0 (length (w ++ [ybar]))).
  { rewrite app_length. simpl. rewrite L. clear. induction (length cols); simpl; auto. now rewrite IHn. }
  rewrite E0 in K1.
  pose proof (kkt_optimal cols1 y _ _ (w ++ [ybar]) (w' ++ [b']) H1 K1
                ltac:(rewrite !app_length; simpl; lia)) as O.
  unfold cols1 in O.
  rewrite (objective_intercept cols y _ _ w' b' (length cols) ltac:(lia) ltac:(lia)) in O.
  rewrite (objective_intercept cols y _ _ w ybar (length cols) L ltac:(lia)) in O.
  pose proof (scaled_objective cols y penalty l1_ratio w' b' Hn) as A.
  pose proof (scaled_objective cols y penalty l1_ratio w ybar Hn) as B.
  fold n in A, B. nra.
Qed.

(* ------------------------------------------------------------------------------------------- *)
(** * Non-vacuity: the checkers accept genuine optima, the hypotheses of the theorems are satisfiable *)

Local Open Scope Q_scope.
(** OLS through (0,0), (1,0), (2,2): slope 1, intercept -1/3 (unit test `fits_least_squares_line_through_three_dots`) *)
Example ex_ols_ok : ols_ok [[0; 1; 2]] [0; 0; 2] [1] (-1 # 3) [0] 0 = true.
Proof. vm_compute. reflexivity. Qed.
Example ex_ols_rejects : ols_ok [[0; 1; 2]] [0; 0; 2] [1] (-1 # 2) [0] 0 = false.
Proof. vm_compute. reflexivity. Qed.
(** lasso toy problem of the unit tests: x = y = (-1,0,1), penalty 0.1: w = 0.85, intercept 0 *)
Example ex_enet_ok : enet_ok [[-1; 0; 1]] [-1; 0; 1] [17 # 20] 0 (3 # 10) 0 [0] 0 = true.
Proof. vm_compute. reflexivity. Qed.
Example ex_enet_rejects : enet_ok [[-1; 0; 1]] [-1; 0; 1] [16 # 20] 0 (3 # 10) 0 [0] 0 = false.
Proof. vm_compute. reflexivity. Qed.
Example ex_enet_penalties : (Q2R (3 # 10) = INR 3 * (1 / 10) * 1 /\ Q2R 0 = INR 3 * (1 / 10) * (1 - 1))%R.
Proof. unfold Q2R; simpl. split; lra. Qed.
(** a zero coefficient under the threshold: penalty 1 gives w = 0 *)
Example ex_enet_zero : enet_ok [[-1; 0; 1]] [-1; 0; 1] [0] 0 3 0 [0] 0 = true.
Proof. vm_compute. reflexivity. Qed.
(** the un-centred witness of F7 is accepted for the fixed intercept, rejected jointly *)
Example ex_f7_fixed : enet_ok_fixed [[10; 11; 12; 13]] [1; 2; 3; 4] [24 # 2671] (5 # 2) (1 # 5) (1 # 5) [0] = true.
Proof. vm_compute. reflexivity. Qed.
Example ex_f7_joint : enet_ok [[10; 11; 12; 13]] [1; 2; 3; 4] [24 # 2671] (5 # 2) (1 # 5) (1 # 5) [0] 0 = false.
Proof. vm_compute. reflexivity. Qed.
Local Close Scope Q_scope.
(** the hypotheses of [enet_joint_centred] hold for the centred toy problem *)
Example ex_centred_hyp :
  let cols := [[-1; 0; 1]] in let y := [-1; 0; 1] in
  Forall (fun c => Rsum c = 0) cols /\
  kkt_all (map (fun c => Rdot c (vsub y (predictions cols 3 [17 / 20] (Rsum y / INR 3)))) cols)
          (repeat (INR 3 * (1 / 10) * 1) 1) (repeat (INR 3 * (1 / 10) * (1 - 1)) 1) [17 / 20] (repeat 0 1).
Proof.
  cbv zeta. split; [repeat constructor; simpl; lra|].
  simpl. repeat (split; [lra|]). split; [|exact I].
  unfold coord_cond, predictions, vsub, vadd, vscale; simpl.
  repeat split; intros Hs; try lra.
  match goal with |- Rabs ?e <= _ => replace e with 0 by field end. rewrite Rabs_R0. lra.
Qed.

(* ------------------------------------------------------------------------------------------- *)
(** * Part 5: the reported duality gap (model of `duality_gap` over the reals) is a bound on the
      remaining suboptimality - weak duality with the scaled residual as dual point *)

(** ndarray's summation orders coincide with the plain sum over the reals *)
Lemma fold_add_R l : forall a, fold_left Rplus l a = a + Rsum l.
Proof. induction l as [|x l IH]; intros a; simpl; [lra|]. rewrite IH. lra. Qed.
Lemma seq_sum_R l : seq_sum R_ops l = Rsum l.
Proof. unfold seq_sum; simpl. rewrite fold_add_R. lra. Qed.

Lemma chunks8_R fuel : forall xs p, (length xs <= fuel)%nat -> length p = 8%nat ->
  length (fst (chunks8 R_ops xs p)) = 8%nat /\
  Rsum (fst (chunks8 R_ops xs p)) + Rsum (snd (chunks8 R_ops xs p)) = Rsum p + Rsum xs.
Proof.
  induction fuel as [|fuel IH]; intros xs p L Hp.
  - destruct xs; simpl in L; [|lia]. simpl. split; auto.
  - do 8 (destruct xs as [|? xs]; [simpl; split; auto|]).
    destruct p as [|p0 [|p1 [|p2 [|p3 [|p4 [|p5 [|p6 [|p7 [|]]]]]]]]]; simpl in Hp; try discriminate.
    cbn [chunks8]. simpl in L.
    specialize (IH xs (map (fun q => add R_ops (fst q) (snd q)) (combine [p0; p1; p2; p3; p4; p5; p6; p7] [r; r0; r1; r2; r3; r4; r5; r6]))
                  ltac:(lia) eq_refl).
    destruct IH as [A B]. split; [exact A|]. rewrite B. simpl. lra.
Qed.

Lemma usum_R l : usum R_ops l = Rsum l.
Proof.
  unfold usum.
  pose proof (chunks8_R (length l) l [0;0;0;0;0;0;0;0] (le_n _) eq_refl) as [A B].
  simpl zero. destruct (chunks8 R_ops l [0;0;0;0;0;0;0;0]) as [p rest]. simpl in A, B.
  destruct p as [|p0 [|p1 [|p2 [|p3 [|p4 [|p5 [|p6 [|p7 [|]]]]]]]]]; simpl in A; try discriminate.
  simpl. rewrite fold_add_R. simpl in B. lra.
Qed.


Lemma map2_mul_R a : forall b, Rsum (map2 Rmult a b) = Rdot a b.
Proof. induction a as [|x a IH]; intros [|y b]; simpl; auto. now rewrite IH. Qed.
Lemma dot_R cc a b : dot R_ops cc a b = Rdot a b.
Proof. unfold dot. destruct cc; [rewrite usum_R | rewrite seq_sum_R]; apply map2_mul_R. Qed.

Definition maxabs (l : list R) : R := fold_left (fun f v => Rmax (Rabs v) f) l 0.
Lemma fold_max_ge l : forall a, a <= fold_left (fun f v => Rmax (Rabs v) f) l a /\
  forall v, In v l -> Rabs v <= fold_left (fun f v => Rmax (Rabs v) f) l a.
Proof.
  induction l as [|x l IH]; intros a; simpl; [split; [lra|tauto]|].
  destruct (IH (Rmax (Rabs x) a)) as [A B]. split.
  - pose proof (Rmax_r (Rabs x) a). lra.
  - intros v [E | Hv]; [subst x; pose proof (Rmax_l (Rabs v) a); lra | auto].
Qed.

Lemma Rdot_bound dn : 0 <= dn -> forall (w' xta : list R), length w' = length xta ->
  (forall v, In v xta -> Rabs v <= dn) -> Rdot w' xta <= dn * Rsum (map Rabs w').
Proof.
  intros Hd. induction w' as [|t w' IH]; intros [|x xta] L H; simpl in *; try discriminate; try lra.
  specialize (IH xta ltac:(lia) (fun v Hv => H v (or_intror Hv))).
  pose proof (H x (or_introl eq_refl)) as Hx.
  assert (t * x <= dn * Rabs t).
  { unfold Rabs in *. destruct (Rcase_abs x), (Rcase_abs t); nra. }
  lra.
Qed.

Lemma Rdot_map2_sub l2 : forall (w' cs w : list R), length cs = length w' -> length w = length w' ->
  Rdot w' (map2 (fun d wj => d - wj * l2) cs w) = Rdot w' cs - l2 * Rdot w' w.
Proof.
  induction w' as [|t w' IH]; intros [|c cs] [|x w] L1 L2; simpl in *; try discriminate; try lra.
  rewrite IH by lia. lra.
Qed.
Lemma map2_length (f : R -> R -> R) : forall a b, length a = length b -> length (map2 f a b) = length a.
Proof. induction a as [|x a IH]; intros [|y b] L; simpl in *; try discriminate; auto. Qed.

Lemma young : forall (a th : list R), length a = length th -> / 2 * sq a >= Rdot th a - / 2 * sq th.
Proof.
  unfold sq. induction a as [|x a IH]; intros [|t th] L; simpl in *; try discriminate; try lra.
  specialize (IH th ltac:(lia)). assert (0 <= (x - t) * (x - t)) by apply Rle_0_sqr. nra.
Qed.
Lemma young_ridge l2 c : 0 <= l2 -> forall (w w' : list R), length w = length w' ->
  l2 / 2 * sq w' >= c * l2 * Rdot w w' - / 2 * (c * c) * l2 * sq w.
Proof.
  intros H. unfold sq. induction w as [|x w IH]; intros [|x' w'] L; simpl in *; try discriminate; try lra.
  specialize (IH w' ltac:(lia)).
  assert (0 <= l2 * ((x' - c * x) * (x' - c * x))) by (apply Rmult_le_pos; [lra|apply Rle_0_sqr]). nra.
Qed.
Lemma l1norm_nonneg w : 0 <= l1norm w.
Proof. unfold l1norm. induction w; simpl; [lra|]. pose proof (Rabs_pos a). lra. Qed.
Lemma sq_vscale c a : sq (vscale c a) = c * c * sq a.
Proof. unfold sq. rewrite Rdot_vscale_l, Rdot_comm, Rdot_vscale_l. ring. Qed.

(** weak duality: the duality gap reported by the solver (evaluated in exact arithmetic at the point
    w with its residual) bounds the suboptimality of w against every other coefficient vector *)
Lemma gap_upper_bound cc l1r pen nF cols y w w' :
  Forall (fun c => length c = length y) cols -> length w = length cols -> length w' = length cols ->
  0 <= l1r * pen * nF -> 0 <= (1 - l1r) * pen * nF ->
  let p := length cols in
  let P v := objective cols y (repeat (l1r * pen * nF) p) (repeat ((1 - l1r) * pen * nF) p) v in
  P w - P w' <= duality_gap R_ops RX cc l1r pen nF cols y w (residual cols y w).
Proof.
  intros H L L' H1 H2 p P.
  set (l1 := l1r * pen * nF) in *. set (l2 := (1 - l1r) * pen * nF) in *.
  set (r := residual cols y w).
  assert (Lr : length r = length y).
  { unfold r, residual. rewrite vsub_length; auto. now rewrite lin_length. }
  unfold duality_gap. rewrite !dot_R, seq_sum_R. simpl.
  rewrite (map_ext (fun xj => dot R_ops cc xj r) (fun xj => Rdot xj r)) by (intros; apply dot_R).
  cbv delta [vec] in *. fold l1 l2.
  set (cs := map (fun xj => Rdot xj r) cols).
  set (xta := map2 (fun d wj => d - wj * l2) cs w).
  set (dn := fold_left (fun f v => Rmax (Rabs v) f) xta 0).
  destruct (fold_max_ge xta 0) as [Dn0 DnB]. fold dn in Dn0, DnB.
  fold (l1norm w).
  (* the two objectives *)
  assert (EP : forall v, length v = length cols -> P v = / 2 * sq (residual cols y v) + l1 * l1norm v + l2 / 2 * sq v).
  { intros v Lv. unfold P, objective, p. rewrite <- Lv, pen_plain. lra. }
  rewrite (EP w L), (EP w' L'). fold r.
  (* the dual lower bound for an arbitrary scaling 0 <= c with c * dn <= l1 *)
  assert (D : forall c, 0 <= c -> c * dn <= l1 ->
     / 2 * sq (residual cols y w') + l1 * l1norm w' + l2 / 2 * sq w'
     >= c * Rdot r y - / 2 * (c * c) * sq r - / 2 * (c * c) * l2 * sq w).
  { intros c C0 C1.
    set (a := residual cols y w').
    assert (La : length a = length y).
    { unfold a, residual. rewrite vsub_length; auto. now rewrite lin_length. }
    pose proof (young a (vscale c r) ltac:(rewrite vscale_length; lia)) as Y1.
    rewrite sq_vscale, Rdot_vscale_l in Y1.
    assert (Era : Rdot r a = Rdot r y - Rdot w' cs).
    { unfold a, residual, vsub.
      rewrite Rdot_vadd_r by (rewrite vscale_length, lin_length; auto).
      rewrite (Rdot_comm r (vscale _ _)), Rdot_vscale_l, (Rdot_lin (length y) cols w' r H). unfold cs. lra. }
    pose proof (young_ridge l2 c H2 w w' ltac:(lia)) as Y2.
    assert (Ex : Rdot w' xta = Rdot w' cs - l2 * Rdot w' w).
    { unfold xta. apply Rdot_map2_sub; [unfold cs; rewrite map_length|]; lia. }
    assert (Bx : Rdot w' xta <= dn * Rsum (map Rabs w')).
    { apply Rdot_bound; auto. unfold xta. rewrite map2_length; unfold cs; rewrite ?map_length; lia. }
    fold (l1norm w') in Bx. pose proof (l1norm_nonneg w') as N.
    rewrite (Rdot_comm w w') in Y2.
    assert (c * Rdot w' xta <= l1 * l1norm w').
    { apply Rle_trans with (c * (dn * l1norm w')); [apply Rmult_le_compat_l; auto|]. nra. }
    rewrite Era in Y1. nra. }
  unfold Rltb. destruct (Rlt_dec l1 dn) as [Hlt | Hge].
  - assert (Dp : 0 < dn) by lra.
    specialize (D (l1 / dn) ltac:(apply Rmult_le_pos; [lra | left; now apply Rinv_0_lt_compat])
                  ltac:(right; field; lra)).
    unfold half; simpl. set (c := l1 / dn) in *.
    replace (1 / (1 + 1)) with (/ 2) by field. unfold sq, l1norm in *. nra.
  - specialize (D 1 ltac:(lra) ltac:(lra)).
    unfold half; simpl. replace (1 / (1 + 1)) with (/ 2) by field. unfold sq, l1norm in *. nra.
Qed.

(** in particular the reported gap is non-negative (take w' = w) *)
Lemma gap_nonneg cc l1r pen nF cols y w :
  Forall (fun c => length c = length y) cols -> length w = length cols ->
  0 <= l1r * pen * nF -> 0 <= (1 - l1r) * pen * nF ->
  0 <= duality_gap R_ops RX cc l1r pen nF cols y w (residual cols y w).
Proof.
  intros H L H1 H2. pose proof (gap_upper_bound cc l1r pen nF cols y w w H L L H1 H2) as G.
  cbv zeta in G. lra.
Qed.

(* ------------------------------------------------------------------------------------------- *)
(** * Part 6: the coordinate update of the model *)

(** the coordinate update solves the first-order condition of its coordinate exactly: with
    tmp = x_j.(r + w_j x_j) and nj = |x_j|^2, the correlation after the update is tmp - nj*w_new *)
Lemma cd_update_kkt (l1r pen nF tmp nj : R) :
  0 <= nF * l1r * pen -> 0 <= nF * (1 - l1r) * pen -> 0 < nj + nF * (1 - l1r) * pen ->
  let wn := cd_new_w R_ops RX l1r pen nF tmp nj in
  coord_cond (tmp - nj * wn) (nF * l1r * pen) (nF * (1 - l1r) * pen) wn 0.
Proof.
  intros H1 H2 Hd. unfold cd_new_w; simpl.
  set (l1 := nF * l1r * pen) in *. set (l2 := nF * (1 - l1r) * pen) in *.
  set (den := nj + l2) in *.
  assert (Hi : 0 < / den) by (apply Rinv_0_lt_compat; auto).
  unfold coord_cond, Rdiv.
  destruct (Rlt_dec tmp 0) as [Hn | Hp].
  - rewrite (Rabs_left tmp) by lra. unfold Rmax. destruct (Rle_dec (- tmp - l1) 0) as [Hs | Hb].
    + (* under the threshold *)
      replace (-1 * 0 * / den) with 0 by ring. replace (tmp - nj * 0 - l2 * 0) with tmp by ring.
      repeat split; intros Hw; try lra. rewrite Rabs_left by lra. lra.
    + assert (Hw : -1 * (- tmp - l1) * / den < 0) by nra.
      repeat split; intros Hw'; try lra.
      match goal with |- Rabs ?e <= _ => replace e with 0 by (unfold den; field; unfold den in Hd; lra) end.
      rewrite Rabs_R0. lra.
  - assert (Hp' : 0 <= tmp) by lra. rewrite (Rabs_right tmp) by lra. unfold Rmax.
    destruct (Rle_dec (tmp - l1) 0) as [Hs | Hb].
    + replace (1 * 0 * / den) with 0 by ring. replace (tmp - nj * 0 - l2 * 0) with tmp by ring.
      repeat split; intros Hw; try lra. rewrite Rabs_right by lra. lra.
    + assert (Hw : 0 < 1 * (tmp - l1) * / den) by nra.
      repeat split; intros Hw'; try lra.
      match goal with |- Rabs ?e <= _ => replace e with 0 by (unfold den; field; unfold den in Hd; lra) end.
      rewrite Rabs_R0. lra.
Qed.

(* ------------------------------------------------------------------------------------------- *)
(** * Part 7: the multi-task (group) checker *)

Lemma RQ_hd l : Q2R (hd 0%Q l) = hd 0 (RQ l).
Proof. destruct l; simpl; [apply R_0|reflexivity]. Qed.
Lemma RQ_tl l : RQ (tl l) = tl (RQ l).
Proof. destruct l; reflexivity. Qed.
Lemma R_qtrans p : forall M, RQ2 (qtrans p M) = trans p (RQ2 M).
Proof.
  induction p as [|p IH]; intros M; simpl; auto. f_equal.
  - unfold RQ, RQ2. rewrite !map_map. apply map_ext. intros l. apply RQ_hd.
  - rewrite IH. f_equal. unfold RQ2. rewrite !map_map. apply map_ext. intros l. apply RQ_tl.
Qed.
Lemma R_qcorr_tasks cols : forall Ys Ws,
  RQ2 (qcorr_tasks cols Ys Ws) = corr_tasks (RQ2 cols) (RQ2 Ys) (RQ2 Ws).
Proof.
  induction Ys as [|y Ys IH]; intros [|w Ws]; simpl; auto. rewrite IH. f_equal.
  rewrite <- R_qresidual. unfold RQ2, RQ. rewrite !map_map. apply map_ext. intros c. apply R_qdot.
Qed.

Lemma RQ_G C : forall W l2, length C = length W ->
  RQ (map (fun p => qsub (fst p) (qmul l2 (snd p))) (combine C W)) = vsub (RQ C) (vscale (Q2R l2) (RQ W)).
Proof.
  unfold vsub, vadd, vscale. induction C as [|c C IH]; intros [|w W] l2 L; simpl in *; try discriminate; auto.
  rewrite R_qsub, R_qmul, IH by lia. f_equal. lra.
Qed.

Lemma sqrt_le_sum l1 E g2 : 0 <= l1 -> 0 <= E -> 0 <= g2 -> g2 <= l1 * l1 + E -> R_sqrt.sqrt g2 <= l1 + R_sqrt.sqrt E.
Proof.
  intros H1 HE Hg H. pose proof (sqrt_pos E) as SE. pose proof (sqrt_sqrt E HE) as SS.
  rewrite <- (sqrt_square (l1 + R_sqrt.sqrt E)) by lra. apply sqrt_le_1; auto; nra.
Qed.

Lemma group_ok_sound G W l1 e2 : length G = length W -> 0 <= Q2R l1 -> 0 <= Q2R e2 ->
  group_ok G W l1 e2 = true ->
  (sq (RQ W) = 0 -> norm (RQ G) <= Q2R l1 + eps_of e2) /\
  (sq (RQ W) <> 0 -> norm (vsub (RQ G) (vscale (Q2R l1 / norm (RQ W)) (RQ W))) <= eps_of e2).
Proof.
  intros L H1 HE. unfold group_ok, eps_of.
  assert (Eg : Q2R (qdot G G) = sq (RQ G)) by apply R_qdot.
  assert (Ew : Q2R (qdot W W) = sq (RQ W)) by apply R_qdot.
  assert (Egw : Q2R (qdot G W) = Rdot (RQ G) (RQ W)) by apply R_qdot.
  destruct (Qeq_bool (qdot W W) 0) eqn:Z.
  - apply Qeq_bool_R0 in Z. rewrite Ew in Z. intros H. apply Qle_bool_R in H.
    rewrite R_qadd, R_qmul, Eg in H. split; intros Hs; [|contradiction].
    unfold norm. apply sqrt_le_sum; auto. apply sq_nonneg.
  - apply Qeq_bool_R0_false in Z. rewrite Ew in Z. intros H. split; intros Hs; [contradiction|].
    set (g2 := sq (RQ G)) in *. set (w2 := sq (RQ W)) in *. set (gw := Rdot (RQ G) (RQ W)) in *.
    set (N := norm (RQ W)).
    assert (PN : 0 < N).
    { unfold N. pose proof (norm_nonneg (RQ W)) as A. pose proof (norm_sq (RQ W)) as B.
      unfold w2 in Z. destruct (Req_dec (norm (RQ W)) 0) as [E|E]; [rewrite E in B; lra|lra]. }
    assert (N2 : N * N = w2) by (unfold N, w2; apply norm_sq).
    set (a := g2 + Q2R l1 * Q2R l1 - Q2R e2).
    assert (Key : a * N <= 2 * Q2R l1 * gw).
    { apply orb_true_iff in H. destruct H as [H | H]; apply andb_true_iff in H as [Ha Hb].
      - apply Qle_bool_R in Ha. rewrite R_qsub, R_qadd, R_qmul, Eg, R_0 in Ha. fold g2 a in Ha.
        apply orb_true_iff in Hb. destruct Hb as [Hb | Hb]; apply Qle_bool_R in Hb.
        + rewrite R_0, Egw in Hb. fold gw in Hb. nra.
        + rewrite !R_qmul, !R_qsub, !R_qadd, !R_qmul, Eg, Ew, Egw in Hb. fold g2 w2 gw a in Hb.
          replace (Q2R 4) with 4 in Hb by (unfold Q2R; simpl; lra).
          destruct (Rle_dec 0 gw); [nra|].
          assert (X : (2 * Q2R l1 * gw) * (2 * Q2R l1 * gw) <= (a * N) * (a * N)) by nra.
          assert (a * N <= 0) by nra. assert (2 * Q2R l1 * gw <= 0) by nra.
          destruct (Rle_dec (a * N) (2 * Q2R l1 * gw)); auto. exfalso.
          assert (0 < (a * N - 2 * Q2R l1 * gw) * (- (a * N) - (2 * Q2R l1 * gw))).
          { apply Rmult_lt_0_compat; lra. } lra.
      - apply Qle_bool_R in Ha. rewrite R_0, Egw in Ha. fold gw in Ha.
        apply Qle_bool_R in Hb.
        rewrite !R_qmul, !R_qsub, !R_qadd, !R_qmul, Eg, Ew, Egw in Hb. fold g2 w2 gw a in Hb.
        replace (Q2R 4) with 4 in Hb by (unfold Q2R; simpl; lra).
        assert (X : (a * N) * (a * N) <= (2 * Q2R l1 * gw) * (2 * Q2R l1 * gw)) by nra.
        assert (0 <= 2 * Q2R l1 * gw) by nra.
        destruct (Rle_dec (a * N) (2 * Q2R l1 * gw)); auto. exfalso.
        assert (0 < (a * N - 2 * Q2R l1 * gw) * (a * N + 2 * Q2R l1 * gw)).
        { apply Rmult_lt_0_compat; lra. } lra. }
    unfold norm at 1. rewrite <- (sqrt_square (R_sqrt.sqrt (Q2R e2))) by apply sqrt_pos.
    rewrite sqrt_sqrt by auto. apply sqrt_le_1; [apply sq_nonneg | auto |].
    rewrite sq_vsub by (rewrite vscale_length, !RQ_length; auto).
    rewrite (Rdot_comm (RQ G) (vscale _ _)), Rdot_vscale_l, (Rdot_comm (RQ W) (RQ G)).
    unfold sq at 2. rewrite Rdot_vscale_l, (Rdot_comm (RQ W) (vscale _ _)), Rdot_vscale_l.
    fold (sq (RQ W)). fold g2 w2 gw N.
    assert (E1 : Q2R l1 / N * (Q2R l1 / N * w2) = Q2R l1 * Q2R l1) by (rewrite <- N2; field; lra).
    rewrite E1.
    assert (E2 : 2 * (Q2R l1 / N * gw) = 2 * Q2R l1 * gw / N) by (field; lra).
    rewrite E2.
    assert (a <= 2 * Q2R l1 * gw / N).
    { apply Rmult_le_reg_r with N; auto. unfold Rdiv. rewrite Rmult_assoc, Rinv_l by lra. lra. }
    unfold a in *. lra.
Qed.

Lemma qtrans_length p : forall M, length (qtrans p M) = p.
Proof. induction p; intros M; simpl; auto. Qed.

Lemma group_ok_c_sound C W l1 l2 e2 : length C = length W -> 0 <= Q2R l1 -> 0 <= Q2R e2 ->
  group_ok_c C W l1 l2 e2 = true -> group_cond (RQ C) (Q2R l1) (Q2R l2) (RQ W) (eps_of e2).
Proof.
  intros L H1 HE H. unfold group_ok_c in H. unfold group_cond.
  apply group_ok_sound in H; auto.
  - rewrite RQ_G in H by auto. exact H.
  - rewrite map_length, combine_length. lia.
Qed.

Lemma group_flags_sound l1 l2 : 0 <= Q2R l1 -> forall Cs rows e2s,
  length rows = length Cs -> length e2s = length Cs -> all_nonneg e2s = true ->
  forallb (fun b => b) (group_flags Cs rows l1 l2 e2s) = true ->
  group_all (RQ2 Cs) (RQ2 rows) (Q2R l1) (Q2R l2) (EPS e2s).
Proof.
  intros H1. induction Cs as [|C Cs IH]; intros [|r rows] [|e e2s] L1 L2 N H; simpl in *; try discriminate; auto.
  apply andb_true_iff in H as [Hc H]. apply andb_true_iff in Hc as [Hl Hc]. apply Nat.eqb_eq in Hl.
  apply all_nonneg_cons in N as [He N].
  split; [unfold eps_of; apply sqrt_pos|]. split; [now rewrite !RQ_length|].
  split; [apply group_ok_c_sound; auto|]. apply IH; auto.
Qed.

Lemma all_len_R2 p M : all_len p M = true -> Forall (fun w => length w = p) (RQ2 M).
Proof. apply all_len_R. Qed.

(** the multi-task checker: acceptance implies eps-optimality against every other coefficient matrix
    (for the given targets, i.e. with the intercepts already subtracted) *)
Lemma mtl_ok_sound cols Ys Ws l1 l2 e2s : mtl_ok cols Ys Ws l1 l2 e2s = true ->
  forall Ws' : list (list R), length Ws' = length Ys -> Forall (fun w => length w = length cols) Ws' ->
  mobjective (RQ2 cols) (RQ2 Ys) (Q2R l1) (Q2R l2) Ws'
  >= mobjective (RQ2 cols) (RQ2 Ys) (Q2R l1) (Q2R l2) (RQ2 Ws)
     - Rdot (EPS e2s) (rowdist (trans (length cols) Ws') (trans (length cols) (RQ2 Ws))).
Proof.
  unfold mtl_ok. intros H Ws' L' HW'.
  apply andb_true_iff in H as [H Hfl]. apply andb_true_iff in H as [H Hne].
  apply andb_true_iff in H as [H Hl2]. apply andb_true_iff in H as [H Hl1].
  apply andb_true_iff in H as [H Hle]. apply andb_true_iff in H as [H Hws].
  apply andb_true_iff in H as [H Hlw].
  apply Nat.eqb_eq in Hle, Hlw.
  apply Qle_bool_R in Hl1, Hl2. rewrite R_0 in Hl1, Hl2.
  assert (Lc : length (RQ2 cols) = length cols) by (unfold RQ2; apply map_length).
  rewrite <- Lc.
  apply group_kkt_eps_optimal; auto.
  - clear - H. unfold RQ2. induction Ys as [|y Ys IH]; simpl in *; constructor.
    + apply andb_true_iff in H as [H _]. apply all_len_R in H. now rewrite RQ_length.
    + apply andb_true_iff in H as [_ H]. auto.
  - unfold RQ2. rewrite !map_length. auto.
  - unfold RQ2. rewrite map_length. auto.
  - rewrite Lc. apply all_len_R2. auto.
  - rewrite Lc. exact HW'.
  - rewrite Lc, <- R_qcorr_tasks, <- !R_qtrans.
    apply group_flags_sound; auto.
    + now rewrite !qtrans_length.
    + now rewrite qtrans_length.
Qed.
