(** C11 - lemmas.  Part 1: the exact rational arithmetic of the checkers and its real-number meaning.
    Part 2: soundness of the optimality checkers (instances of Common/Convex.v).  Part 3: the
    estimator-level statements (documented elastic-net objective, OLS).  Part 4: the intercept glue
    (finding F7), the l1 threshold, weak duality of the reported gap. *)
From Coq Require Import List ZArith QArith Qreals Reals Lra Lia Psatz Bool.
From LinfaVerif Require Import Common.Num Common.QF Common.Convex C11.Model.
Import ListNotations.

(* ------------------------------------------------------------------------------------------- *)
(** * Part 1: Q arithmetic *)

Lemma pos_strip2_eq a : forall d,
  (Zpos (fst (pos_strip2 a d)) * Zpos d = Zpos a * Zpos (snd (pos_strip2 a d)))%Z.
Proof.
  induction a as [a IH | a IH |]; intros d; simpl; try reflexivity.
  destruct d as [d | d |]; simpl; try reflexivity.
  specialize (IH d). rewrite !Pos2Z.inj_xO. lia.
Qed.

Lemma Qn2_eq q : Qn2 q == q.
Proof.
  destruct q as [n d]. unfold Qn2; simpl. destruct n as [|a|a]; [reflexivity | |].
  - pose proof (pos_strip2_eq a d) as H. destruct (pos_strip2 a d) as [a' d']; simpl in *.
    unfold Qeq; simpl. exact H.
  - pose proof (pos_strip2_eq a d) as H. destruct (pos_strip2 a d) as [a' d']; simpl in *.
    unfold Qeq; simpl. rewrite <- !Pos2Z.opp_pos. lia.
Qed.

Lemma qadd_shift_eq a b q : qadd_shift a b = Some q -> q == a + b.
Proof.
  unfold qadd_shift. destruct a as [na da], b as [nb db]; simpl.
  destruct (N.leb _ _).
  - destruct (Z.eqb _ _) eqn:E; [|discriminate]. intros H; inversion H; subst; clear H.
    apply Z.eqb_eq in E. rewrite Z.shiftl_mul_pow2 in E by lia.
    unfold Qeq, Qplus; simpl. rewrite Z.shiftl_mul_pow2 by lia. rewrite Pos2Z.inj_mul, <- E. ring.
  - destruct (Z.eqb _ _) eqn:E; [|discriminate]. intros H; inversion H; subst; clear H.
    apply Z.eqb_eq in E. rewrite Z.shiftl_mul_pow2 in E by lia.
    unfold Qeq, Qplus; simpl. rewrite Z.shiftl_mul_pow2 by lia. rewrite Pos2Z.inj_mul, <- E. ring.
Qed.

Lemma qadd_eq a b : qadd a b == a + b.
Proof.
  unfold qadd. destruct (qadd_shift a b) as [q|] eqn:E; rewrite Qn2_eq; [|reflexivity].
  exact (qadd_shift_eq a b q E).
Qed.
Lemma qmul_eq a b : qmul a b == a * b.
Proof. unfold qmul. apply Qn2_eq. Qed.
Lemma qsub_eq a b : qsub a b == a - b.
Proof. unfold qsub. rewrite qadd_eq. reflexivity. Qed.

Lemma R_qadd a b : Q2R (qadd a b) = (Q2R a + Q2R b)%R.
Proof. rewrite (Qeq_eqR _ _ (qadd_eq a b)). apply Q2R_plus. Qed.
Lemma R_qmul a b : Q2R (qmul a b) = (Q2R a * Q2R b)%R.
Proof. rewrite (Qeq_eqR _ _ (qmul_eq a b)). apply Q2R_mult. Qed.
Lemma R_qsub a b : Q2R (qsub a b) = (Q2R a - Q2R b)%R.
Proof. rewrite (Qeq_eqR _ _ (qsub_eq a b)). apply Q2R_minus. Qed.
Lemma R_0 : Q2R 0 = 0%R.
Proof. apply RMicromega.Q2R_0. Qed.
Lemma R_1 : Q2R 1 = 1%R.
Proof. apply RMicromega.Q2R_1. Qed.

Lemma R_qabs a : Q2R (qabs a) = Rabs (Q2R a).
Proof.
  unfold qabs. destruct (Qle_bool 0 a) eqn:E.
  - apply Qle_bool_iff in E. apply Qle_Rle in E. rewrite R_0 in E. rewrite Rabs_right; auto; lra.
  - assert (H : (a < 0)%Q). { apply Qnot_le_lt. intro C. apply Qle_bool_iff in C. congruence. }
    apply Qlt_Rlt in H. rewrite R_0 in H. rewrite Q2R_opp, Rabs_left; auto.
Qed.

Lemma Qle_bool_R a b : Qle_bool a b = true -> (Q2R a <= Q2R b)%R.
Proof. intros H. apply Qle_Rle. now apply Qle_bool_iff. Qed.
Lemma Qle_bool_R_false a b : Qle_bool a b = false -> (Q2R b < Q2R a)%R.
Proof.
  intros H. apply Qlt_Rlt. apply Qnot_le_lt. intro C. apply Qle_bool_iff in C. congruence.
Qed.
Lemma Qeq_bool_R0 a : Qeq_bool a 0 = true -> Q2R a = 0%R.
Proof. intros H. apply Qeq_bool_iff in H. rewrite (Qeq_eqR _ _ H). apply R_0. Qed.
Lemma Qeq_bool_R0_false a : Qeq_bool a 0 = false -> Q2R a <> 0%R.
Proof.
  intros H C. rewrite <- R_0 in C. apply eqR_Qeq in C. apply Qeq_bool_iff in C. congruence.
Qed.

Definition RQ (l : list Q) : list R := map Q2R l.
Definition RQ2 (m : list (list Q)) : list (list R) := map RQ m.

Lemma R_qdot a : forall b, Q2R (qdot a b) = Rdot (RQ a) (RQ b).
Proof.
  induction a as [|x a IH]; intros [|y b]; simpl; try apply R_0.
  rewrite R_qadd, R_qmul, IH. reflexivity.
Qed.
Lemma R_qsum l : Q2R (qsum l) = Rsum (RQ l).
Proof. induction l as [|a l IH]; simpl; [apply R_0|]. now rewrite R_qadd, IH. Qed.
Lemma R_qvadd a : forall b, RQ (qvadd a b) = vadd (RQ a) (RQ b).
Proof.
  unfold qvadd, vadd, RQ. induction a as [|x a IH]; intros [|y b]; simpl; auto.
  rewrite R_qadd, IH. reflexivity.
Qed.
Lemma R_qvscale c a : RQ (qvscale c a) = vscale (Q2R c) (RQ a).
Proof.
  unfold qvscale, vscale, RQ. induction a as [|x a IH]; simpl; auto. now rewrite R_qmul, IH.
Qed.
Lemma R_repeat0 n : RQ (repeat 0%Q n) = repeat 0%R n.
Proof. induction n; simpl; auto. now rewrite R_0, IHn. Qed.
Lemma R_qlin n cols : forall th, RQ (qlin n cols th) = lin n (RQ2 cols) (RQ th).
Proof.
  induction cols as [|c cols IH]; intros th; simpl; [apply R_repeat0|].
  destruct th as [|t th]; simpl; [apply R_repeat0|].
  now rewrite R_qvadd, R_qvscale, IH.
Qed.
Lemma RQ_length l : length (RQ l) = length l.
Proof. apply map_length. Qed.
Lemma R_qresidual cols y th : RQ (qresidual cols y th) = residual (RQ2 cols) (RQ y) (RQ th).
Proof.
  unfold qresidual, residual, vsub. rewrite R_qvadd, R_qvscale, R_qlin, RQ_length.
  replace (Q2R (-1)) with (-1)%R; [reflexivity|].
  change (-1)%Q with (- (1))%Q. rewrite Q2R_opp, R_1. reflexivity.
Qed.

(* ------------------------------------------------------------------------------------------- *)
(** * Part 2: soundness of the coordinate test and of [kkt_ok] *)
Local Open Scope R_scope.

Lemma sq_le_sqrt x e : x * x <= e -> Rabs x <= sqrt e.
Proof.
  intros H. rewrite <- sqrt_Rsqr_abs. apply sqrt_le_1; unfold Rsqr; auto.
  - apply Rle_0_sqr.
  - pose proof (Rle_0_sqr x) as P. unfold Rsqr in P. lra.
Qed.

Definition eps_of (e2 : Q) : R := sqrt (Q2R e2).

Lemma qsgn_pos th : 0 < Q2R th -> Q2R (qsgn th) = 1.
Proof.
  intros H. unfold qsgn. destruct (Qle_bool th 0) eqn:E.
  - apply Qle_bool_R in E. rewrite R_0 in E. lra.
  - apply R_1.
Qed.
Lemma qsgn_neg th : Q2R th < 0 -> Q2R (qsgn th) = -1.
Proof.
  intros H. unfold qsgn. destruct (Qle_bool th 0) eqn:E.
  - destruct (Qle_bool 0 th) eqn:E2.
    + apply Qle_bool_R in E2. rewrite R_0 in E2. lra.
    + change (-1)%Q with (- (1))%Q. rewrite Q2R_opp, R_1. reflexivity.
  - apply Qle_bool_R_false in E. rewrite R_0 in E. lra.
Qed.

Lemma coord_ok_sound c l1 l2 th e2 : coord_ok c l1 l2 th e2 = true ->
  coord_cond (Q2R c) (Q2R l1) (Q2R l2) (Q2R th) (eps_of e2).
Proof.
  unfold coord_ok, coord_cond, eps_of. intros H.
  destruct (Qeq_bool th 0) eqn:E.
  - apply Qeq_bool_R0 in E. repeat split; intros Hth; try lra.
    apply orb_true_iff in H. rewrite E. replace (Q2R c - Q2R l2 * 0) with (Q2R c) by ring.
    rewrite R_qsub, R_qmul, E in H.
    replace (Q2R c - Q2R l2 * 0) with (Q2R c) in H by ring.
    destruct H as [H | H].
    + apply Qle_bool_R in H. rewrite R_qsub, R_qabs, R_0 in H.
      pose proof (sqrt_pos (Q2R e2)). lra.
    + apply Qle_bool_R in H. rewrite R_qmul, !R_qsub, R_qabs in H.
      apply sq_le_sqrt in H. unfold Rabs in H at 1.
      destruct (Rcase_abs (Rabs (Q2R c) - Q2R l1)); lra.
  - apply Qeq_bool_R0_false in E.
    apply Qle_bool_R in H. rewrite R_qmul, !R_qsub, !R_qmul in H. apply sq_le_sqrt in H.
    repeat split; intros Hth; try lra.
    + rewrite (qsgn_pos th Hth) in H. replace (Q2R c - Q2R l2 * Q2R th - Q2R l1 * 1)
        with (Q2R c - Q2R l2 * Q2R th - Q2R l1) in H by ring. exact H.
    + rewrite (qsgn_neg th Hth) in H. replace (Q2R c - Q2R l2 * Q2R th - Q2R l1 * -1)
        with (Q2R c - Q2R l2 * Q2R th + Q2R l1) in H by ring. exact H.
Qed.

Definition EPS (e2s : list Q) : list R := map eps_of e2s.

Lemma all_nonneg_cons a l : all_nonneg (a :: l) = true -> 0 <= Q2R a /\ all_nonneg l = true.
Proof.
  unfold all_nonneg; simpl. intros H. apply andb_true_iff in H as [H1 H2]. split; auto.
  apply Qle_bool_R in H1. now rewrite R_0 in H1.
Qed.

Lemma flags_sound cs : forall l1s l2s th e2s,
  length l1s = length cs -> length l2s = length cs -> length th = length cs -> length e2s = length cs ->
  all_nonneg l1s = true -> all_nonneg l2s = true ->
  forallb (fun b => b) (kkt_flags_c cs l1s l2s th e2s) = true ->
  kkt_all (RQ cs) (RQ l1s) (RQ l2s) (RQ th) (EPS e2s).
Proof.
  induction cs as [|c cs IH]; intros [|a l1s] [|b l2s] [|t th] [|e e2s] L1 L2 L3 L4 N1 N2 H;
    simpl in *; try discriminate; auto.
  apply andb_true_iff in H as [Hc H].
  apply all_nonneg_cons in N1 as [Ha N1]. apply all_nonneg_cons in N2 as [Hb N2].
  repeat split; auto.
  - unfold eps_of. apply sqrt_pos.
  - apply coord_ok_sound; auto.
  - apply IH; auto.
Qed.

Lemma all_len_R n cols : all_len n cols = true -> Forall (fun c => length c = n) (RQ2 cols).
Proof.
  unfold all_len, RQ2. induction cols as [|c cols IH]; simpl; intros H; constructor.
  - apply andb_true_iff in H as [H _]. apply Nat.eqb_eq in H. now rewrite RQ_length.
  - apply andb_true_iff in H as [_ H]. auto.
Qed.

(** the verified checker: acceptance implies eps-optimality against every other coefficient vector *)
Lemma kkt_ok_sound cols y th l1s l2s e2s : kkt_ok cols y th l1s l2s e2s = true ->
  forall th' : list R, length th' = length th ->
  objective (RQ2 cols) (RQ y) (RQ l1s) (RQ l2s) th'
  >= objective (RQ2 cols) (RQ y) (RQ l1s) (RQ l2s) (RQ th) - Rdot (EPS e2s) (absdiff th' (RQ th)).
Proof.
  unfold kkt_ok. intros H th' L.
  repeat (apply andb_true_iff in H as [H ?]).
  repeat match goal with E : Nat.eqb _ _ = true |- _ => apply Nat.eqb_eq in E end.
  apply kkt_eps_optimal.
  - rewrite RQ_length. now apply all_len_R.
  - rewrite <- R_qresidual.
    assert (E : map (fun c => Rdot c (RQ (qresidual cols y th))) (RQ2 cols)
                = RQ (map (fun c => qdot c (qresidual cols y th)) cols)).
    { unfold RQ2, RQ. rewrite !map_map. apply map_ext. intros c. now rewrite R_qdot. }
    rewrite E. apply flags_sound; auto; rewrite map_length; auto.
  - now rewrite RQ_length.
Qed.
