(** C11 - correspondence (model at binary64 vs implementation, bit for bit where the arithmetic is
    reproducible) and property oracle (optimality conditions recomputed in exact rational arithmetic on
    the implementation's output). *)
From Coq Require Import List NArith ZArith QArith Bool Floats.
From LinfaVerif Require Export Common.Num Common.NdSum Common.Run Common.QF Common.B32 C11.Model.
Import ListNotations.

Definition o64 := B64_ops.
Definition x64 := B64X.

Record case := {
  c_id : N;
  c_kind : N;                      (* 0 elastic net, 1 multi-task elastic net, 2 ordinary least squares *)
  c_flags : N;                     (* bit 0: replay the solver bit-exactly; bit 1: feature columns contiguous;
                                      bit 2: budget exhausted on a fixed point of the sweep; bit 3: the fit ran in f32
                                      (all values are f32 values widened exactly to binary64); bit 4: the rows of the
                                      query batch are not contiguous slices (predict's row-wise dot is then the plain
                                      loop); bit 5: the targets were passed in a non-standard memory layout (reversed,
                                      strided, column-major): ndarray's mean / dot legitimately sum in another order,
                                      so the intercept is compared with the exact mean up to rounding and the
                                      solvers are replayed from the implementation's intercept; bit 6 (multi-task, with
                                      bit 5): the columns of the residual matrix are contiguous slices *)
  c_X : list (list float);         (* n rows of p features *)
  c_Y : list (list float);         (* n rows of t targets *)
  c_icpt : bool;
  c_pen : float; c_l1r : float; c_tol : float; c_maxit : N;
  (* implementation outputs *)
  c_W : list (list float);         (* p rows of t coefficients *)
  c_b : list float;                (* t intercepts *)
  c_gap : float; c_steps : N;
  c_Q : list (list float); c_pred : list (list float)
}.

Definition fl_eqb := f64_biteq.
Definition vec_eqb (a b : list float) : bool := list_eqb fl_eqb a b.
Definition mat_eqb (a b : list (list float)) : bool := list_eqb vec_eqb a b.
(* equality up to the sign of zero (multi-task coefficients: the block soft-thresholding returns
   +0 or x*0 for a thresholded row, which differ in the sign bit only) *)
Definition fl_eqb0 (a b : float) : bool := fl_eqb a b || (PrimFloat.eqb a 0 && PrimFloat.eqb b 0).
Definition mat_eqb0 (a b : list (list float)) : bool := list_eqb (list_eqb fl_eqb0) a b.
Definition col0 (M : list (list float)) : list float := map (fun r => hd 0%float r) M.
Definition is_finite (x : float) : bool := f64_finite x.

(* |a - b| <= 2^-30 * scale + 2^-1000, in binary64 *)
Definition approx (a b scale : float) : bool :=
  PrimFloat.leb (PrimFloat.abs (PrimFloat.sub a b))
                (PrimFloat.add (PrimFloat.mul 0x1p-30%float (PrimFloat.abs scale)) 0x1p-1000%float).

(* ------------------------------------------------------------------------------------------- *)
(** * correspondence *)

Definition to32 (x : float) : spec_float := b32_of_b64 (Prim2SF x).
Definition vec32_eqb (a b : list spec_float) : bool := list_eqb sf_eqb a b.

(* targets in a non-standard layout: |b - mean y| <= 2^-k * mean |y| in exact arithmetic (k = 44, binary32: 16), b = 0
   without intercept *)
Definition mean_close (f32 icpt : bool) (y : list float) (b : float) : bool :=
  if icpt then
    let yq := map f64_Q y in
    let n := inject_Z (Z.of_nat (length y)) in
    let d := qabs (qsub (qmul (f64_Q b) n) (qsum yq)) in
    Qle_bool d (qmul (1 # (Pos.pow 2 (if f32 then 16 else 44)))%Q (qsum (map qabs yq)))
  else PrimFloat.eqb b 0.

Definition corr_enet (c : case) : N :=
  let y := col0 (c_Y c) in
  let w := col0 (c_W c) in
  let b := hd 0%float (c_b c) in
  let cc := N.testbit (c_flags c) 1 in
  let qc := negb (N.testbit (c_flags c) 4) in
  let ylay := N.testbit (c_flags c) 5 in
  if N.testbit (c_flags c) 3 then
    (* binary32: the same model term at B32_ops *)
    let X32 := map (map to32) (c_X c) in
    let y32 := map to32 y in
    let w32 := map to32 w in
    let b32 := to32 b in
    (if N.testbit (c_flags c) 0 then
       if ylay then
         let yc := map (fun v => sub B32_ops v b32) y32 in
         let nF := of_N B32_ops (N.of_nat (length X32)) in
         let '(w', (g, st)) := coordinate_descent B32_ops B32X cc (to32 (c_l1r c)) (to32 (c_pen c)) nF (columns B32_ops X32) yc
                                 (to32 (c_tol c)) (c_maxit c) in
         flag (vec32_eqb w' w32) 1 + flag (mean_close true (c_icpt c) y b) 2
         + flag (sf_eqb g (to32 (c_gap c))) 4 + flag (N.eqb st (c_steps c)) 8
       else
       let f := enet_fit B32_ops B32X cc X32 y32 (c_icpt c) (to32 (c_pen c)) (to32 (c_l1r c)) (to32 (c_tol c)) (c_maxit c) in
       flag (vec32_eqb (ef_w f) w32) 1 + flag (sf_eqb (ef_b f) b32) 2
       + flag (sf_eqb (ef_gap f) (to32 (c_gap c))) 4 + flag (N.eqb (ef_steps f) (c_steps c)) 8
     else if ylay then flag (mean_close true (c_icpt c) y b) 2
     else flag (sf_eqb (fst (compute_intercept1 B32_ops (c_icpt c) y32)) b32) 2)
    + flag (vec32_eqb (map (fun q => add B32_ops (dot B32_ops qc q w32) b32) (map (map to32) (c_Q c))) (map to32 (col0 (c_pred c)))) 16
  else
  (if N.testbit (c_flags c) 0 then
     if ylay then
       let yc := map (fun v => sub o64 v b) y in
       let nF := of_N o64 (N.of_nat (length (c_X c))) in
       let '(w', (g, st)) := coordinate_descent o64 x64 cc (c_l1r c) (c_pen c) nF (columns o64 (c_X c)) yc (c_tol c) (c_maxit c) in
       flag (vec_eqb w' w) 1 + flag (mean_close false (c_icpt c) y b) 2
       + flag (fl_eqb g (c_gap c)) 4 + flag (N.eqb st (c_steps c)) 8
     else
     let f := enet_fit o64 x64 cc (c_X c) y (c_icpt c) (c_pen c) (c_l1r c) (c_tol c) (c_maxit c) in
     flag (vec_eqb (ef_w f) w) 1 + flag (fl_eqb (ef_b f) b) 2
     + flag (fl_eqb (ef_gap f) (c_gap c)) 4 + flag (N.eqb (ef_steps f) (c_steps c)) 8
   else if ylay then flag (mean_close false (c_icpt c) y b) 2
   else
     (* the intercept is reproducible without replaying the solver *)
     flag (fl_eqb (fst (compute_intercept1 o64 (c_icpt c) y)) b) 2)
  + flag (vec_eqb (map (fun q => add o64 (dot o64 qc q w) b) (c_Q c)) (col0 (c_pred c))) 16.

Definition corr_ols (c : case) : N :=
  let qc := negb (N.testbit (c_flags c) 4) in
  if N.testbit (c_flags c) 3 then
    let w32 := map to32 (col0 (c_W c)) in
    let b32 := to32 (hd 0%float (c_b c)) in
    flag (vec32_eqb (map (fun q => add B32_ops (dot B32_ops qc q w32) b32) (map (map to32) (c_Q c)))
                    (map to32 (col0 (c_pred c)))) 16
  else
  flag (vec_eqb (map (fun q => add o64 (dot o64 qc q (col0 (c_W c))) (hd 0%float (c_b c))) (c_Q c)) (col0 (c_pred c))) 16.

(* the stopping rule seen through the model's trace: every sweep before the last one must not have
   satisfied `gap < tol*|y|^2`; the last one must have, unless the budget ran out.  Where the branch test
   of the gap formula is within rounding of its border either branch may have been taken. *)
Definition gi := @gap_info float.
Definition lt_soft (tolY : float) (e : gi) (up : bool) : bool :=
  let m := PrimFloat.mul 0x1p-30%float (gi_scale e) in
  let bound := if up then PrimFloat.add tolY m else PrimFloat.sub tolY m in
  PrimFloat.ltb (gi_gap e) bound.
Definition lt_soft' (tolY : float) (e : gi) (up : bool) : bool :=
  let m := PrimFloat.mul 0x1p-30%float (gi_scale e) in
  let bound := if up then PrimFloat.add tolY m else PrimFloat.sub tolY m in
  PrimFloat.ltb (gi_other e) bound.
Fixpoint stop_consistent (tolY : float) (exhausted : bool) (tr : list (bool * gi)) : bool :=
  match tr with
  | [] => true
  | [(fired, e)] =>
      exhausted || (fired && (lt_soft tolY e true || (gi_amb e && lt_soft' tolY e true)))
  | (fired, e) :: rest =>
      (negb fired || negb (lt_soft tolY e false) || (gi_amb e && negb (lt_soft' tolY e false)))
      && stop_consistent tolY exhausted rest
  end.

Definition last_gap (tr : list (bool * gi)) : option gi :=
  fold_left (fun acc (e : bool * gi) => if fst e then Some (snd e) else acc) tr None.

Definition abs_rows (M : list (list float)) := map (map PrimFloat.abs) M.

(* multi-task replay for targets in a non-standard memory layout (flag bit 5): the intercepts are taken from the
   implementation (compared with the exact means up to rounding), the centred targets Y - b are formed row by row
   (an element-wise subtraction: independent of the layout), and flag bit 6 says whether the columns of the
   residual matrix are contiguous slices (that decides between the unrolled and the plain loop of `x_j.dot(&r)`;
   the harness determines it by performing the same ndarray operations on the same layout) *)
Definition mtl_replay_from (cc t1 : bool) (X Y : list (list float)) (b : list float) (icpt : bool) (pen l1r tol : float) (maxit steps : N)
  : list (list float) * (float * list (bool * gi)) :=
  let Yc := if icpt then map (fun row => map2 (sub o64) row b) Y else Y in
  let nF := of_N o64 (N.of_nat (length X)) in
  let cols := columns o64 X in
  let norms := map (fun c => dot o64 cc c c) cols in
  let t := ncols Y in
  let tolY := PrimFloat.mul tol (sqsum o64 Yc) in
  let W0 := map (fun _ => repeat 0%float t) cols in
  let '(W, tr) := bcd_replay o64 x64 cc l1r pen nF t1 (N.to_nat steps) maxit cols norms Yc tol W0 Yc 0%N in
  (W, (tolY, tr)).

Definition means_close (c : case) : bool :=
  Nat.eqb (length (c_b c)) (ncols (c_Y c))
  && forallb (fun p => mean_close false (c_icpt c) (fst p) (snd p)) (combine (columns o64 (c_Y c)) (c_b c)).

Definition corr_mtl (c : case) : N :=
  let cc := N.testbit (c_flags c) 1 in
  (if N.testbit (c_flags c) 0 then
     let '(b, (W, (tolY, tr))) :=
       if N.testbit (c_flags c) 5 then
         (c_b c, mtl_replay_from cc (N.testbit (c_flags c) 6) (c_X c) (c_Y c) (c_b c) (c_icpt c) (c_pen c) (c_l1r c) (c_tol c)
                   (c_maxit c) (c_steps c))
       else mtl_replay o64 x64 cc (c_X c) (c_Y c) (c_icpt c) (c_pen c) (c_l1r c) (c_tol c) (c_maxit c) (c_steps c) in
     flag (mat_eqb0 W (c_W c)) 1
     + flag (if N.testbit (c_flags c) 5 then means_close c else vec_eqb b (c_b c)) 2
     + flag (match last_gap tr with
             | None => fl_eqb (PrimFloat.add 1 (c_tol c)) (c_gap c)
             | Some e => approx (gi_gap e) (c_gap c) (gi_scale e)
                         || (gi_amb e && approx (gi_other e) (c_gap c) (gi_scale e))
             end) 4
     + flag (N.leb (c_steps c) (c_maxit c)
             && stop_consistent tolY (N.eqb (c_steps c) (c_maxit c)) tr) 32
   else if N.testbit (c_flags c) 5 then flag (means_close c) 2
   else flag (vec_eqb (fst (compute_intercept2 o64 (c_icpt c) (c_Y c))) (c_b c)) 2)
  + flag (Nat.eqb (length (c_pred c)) (length (c_Q c))
          && forallb (fun t => let '(q, pr) := t in
               let m := predict2 o64 (c_W c) (c_b c) [q] in
               let s := predict2 o64 (abs_rows (c_W c)) (map PrimFloat.abs (c_b c)) [map PrimFloat.abs q] in
               match m, s with
               | [mv], [sv] => Nat.eqb (length mv) (length pr)
                               && forallb (fun z => let '(a, (b, sc)) := z in approx a b sc)
                                          (combine mv (combine pr sv))
               | _, _ => false
               end) (combine (c_Q c) (c_pred c))) 16.

(* ------------------------------------------------------------------------------------------- *)
(** * property oracle: exact rational recomputation *)

Definition fq (x : float) : Q := f64_Q x.
Definition qrows (M : list (list float)) : list (list Q) := map (map fq) M.
Fixpoint qtranspose_aux (rows : list (list Q)) (width : nat) : list (list Q) :=
  match width with
  | O => []
  | S k => map (fun r => hd 0%Q r) rows :: qtranspose_aux (map (fun r => tl r) rows) k
  end.
Definition qcolumns (rows : list (list Q)) : list (list Q) :=
  qtranspose_aux rows (match rows with [] => O | r :: _ => length r end).

Definition q1norm (v : list Q) : Q := qsum (map qabs v).
Definition qpow2m (k : positive) : Q := 1 # (Pos.pow 2 k).

(** tolerances (not part of the trusted statement: the soundness theorem holds for any of them).
    Squared tolerance of coordinate j = kappa*tol*(|x_j|^2 + l2)*|y - b|^2  (the solver stops on
    gap < tol*|y|^2, and a gap g allows a first-order residual of about sqrt(2 L_j g))
    + a rounding floor (2^-36 * |x_j|_1 * (|y|_1 + n|b| + sum_k |x_k|_1 |w_k|))^2. *)
Definition kappa : Q := 2.
Definition floor_scale (cols : list (list Q)) (y w : list Q) (b : Q) : Q :=
  qadd (qadd (q1norm y) (qmul (inject_Z (Z.of_nat (length y))) (qabs b)))
       (qsum (map (fun p => qmul (q1norm (fst p)) (qabs (snd p))) (combine cols w))).
Definition e2_coord (fe : positive) (tol l2 S fs : Q) (col : list Q) : Q :=
  let fl := qmul (qmul (qpow2m fe) (q1norm col)) fs in
  qadd (qmul (qmul (qmul kappa tol) (qadd (qdot col col) l2)) S) (qmul fl fl).
Definition e2_icpt (fe : positive) (n : nat) (fs : Q) : Q :=
  let fl := qmul (qmul (qpow2m fe) (inject_Z (Z.of_nat n))) fs in qmul fl fl.

Definition bits_of_flags (th : list Q) (fl : list bool) : N :=
  fold_left N.lor
    (map (fun p => if (snd p : bool) then 0%N else if Qeq_bool (fst p) 0 then 2%N else 1%N) (combine th fl)) 0%N.

Definition Qdivr (a b : Q) : Q := Qred (a / b).

(** the gap formula of `duality_gap` in exact arithmetic for the point (w, b).  The formula is
    discontinuous where the dual norm dn = |X^T r - l2 w|_inf crosses l1 (in particular for l1 = 0,
    where dn = 0 in floating point but not exactly): both branches are accepted when dn is within
    [fl] of l1.  Returns the acceptable (gap, magnitude) pairs. *)
Definition gap_branch (cst : Q) (yc w r : list Q) (l1 l2 : Q) : Q * Q :=
  let r2 := qdot r r in
  let w2 := qdot w w in
  let c2 := Qred (cst * cst) in
  let t1 := Qred ((1 # 2) * r2 * (1 + c2)) in
  let t2 := qmul l1 (q1norm w) in
  let t3 := Qred (cst * qdot r yc) in
  let t4 := Qred ((1 # 2) * l2 * (1 + c2) * w2) in
  (Qred (t1 + t2 - t3 + t4), Qred (t1 + t2 + qabs t3 + t4)).
Definition gap_exact (cols : list (list Q)) (yc w r : list Q) (l1 l2 fl : Q) : list (Q * Q) :=
  let xta := map (fun p => qsub (qdot (fst p) r) (qmul l2 (snd p))) (combine cols w) in
  let dn := fold_left (fun f v => if Qle_bool (qabs v) f then f else qabs v) xta 0%Q in
  (if Qle_bool dn (qadd l1 fl) then [gap_branch 1 yc w r l1 l2] else [])
  ++ (if negb (Qle_bool dn 0) && Qle_bool (qsub l1 fl) dn then [gap_branch (Qdivr l1 dn) yc w r l1 l2] else []).

Local Open Scope N_scope.
Definition all_finite (c : case) : bool :=
  forallb (forallb is_finite) (c_W c) && forallb is_finite (c_b c) && is_finite (c_gap c)
  && forallb (forallb is_finite) (c_pred c).

Definition max_q (l : list Q) : Q := fold_left (fun f v => if Qle_bool v f then f else v) l 0%Q.

(** elastic net.  The verdict on optimality is the verified checker itself ([enet_ok] jointly in
    coefficients and intercept, [enet_ok_fixed] for fits without intercept); only when it rejects are
    the individual conditions inspected to name the failing clause. *)
Definition oracle_enet (c : case) : N :=
  let X := qrows (c_X c) in
  let cols := qcolumns X in
  let n := length X in
  let p := length cols in
  let y := map fq (col0 (c_Y c)) in
  let w := map fq (col0 (c_W c)) in
  let b := fq (hd 0%float (c_b c)) in
  let nq := inject_Z (Z.of_nat n) in
  let l1 := qmul (qmul nq (fq (c_pen c))) (fq (c_l1r c)) in
  let l2 := qmul (qmul nq (fq (c_pen c))) (qsub 1%Q (fq (c_l1r c))) in
  let converged := N.ltb (c_steps c) (c_maxit c) in
  let fixedpt := N.testbit (c_flags c) 2 in
  (* a run that exhausted its budget on a fixed point of the sweep is judged with the rounding floor only *)
  let tol := if converged then fq (c_tol c) else 0%Q in
  let yc := map (fun v => qsub v b) y in
  let S := qdot yc yc in
  let fs := floor_scale cols y w b in
  let f32 := N.testbit (c_flags c) 3 in
  (* rounding floors: binary64 2^-36 / 2^-28 / 2^-34, binary32 (29 bits fewer) 2^-10 / 2^-12 / 2^-10 *)
  let fe := if f32 then 10%positive else 36%positive in
  let ge := if f32 then 12%positive else 28%positive in
  let ne := if f32 then 10%positive else 34%positive in
  let e2s := map (e2_coord fe tol l2 S fs) cols in
  let e2b := e2_icpt fe n fs in
  let shape := Nat.eqb (length (c_W c)) p && Nat.eqb (length (c_b c)) 1%nat
               && (c_icpt c || fl_eqb (hd 1%float (c_b c)) 0%float) in
  flag shape 128
  + (if (converged || fixedpt) && shape then
       (if (if c_icpt c then enet_ok cols y w b l1 l2 e2s e2b else enet_ok_fixed cols y w b l1 l2 e2s) then 0
        else if c_icpt c && enet_ok_fixed cols y w b l1 l2 e2s then 4
        else
          let r := qresidual cols yc w in
          bits_of_flags w (kkt_flags r cols (repeat l1 p) (repeat l2 p) w e2s)
          + (if c_icpt c then flag (coord_ok (qsum r) 0%Q 0%Q b e2b) 4 else 0)
          (* a coefficient whose coordinate minimiser lies under the l1 threshold (by more than the tolerance) is zero *)
          + flag (forallb (fun pr => let '(col, (wj, e2)) := pr in
                     Qeq_bool wj 0%Q
                     || (let m := qsub l1 (qabs (qadd (qdot col r) (qmul wj (qdot col col)))) in
                         Qle_bool m 0 || Qle_bool (qmul m m) e2))
                  (combine cols (combine w e2s))) 32)
       + (if converged then
            let r := qresidual cols yc w in
            let fl := qmul (qmul (qpow2m fe) (max_q (map q1norm cols))) fs in
            let G := fq (c_gap c) in
            let noise := Qred (qpow2m ne * fs * (q1norm r + q1norm yc + qpow2m ne * fs * nq)) in
            let cands := gap_exact cols yc w r l1 l2 fl in
            flag (existsb (fun gs => Qle_bool (qabs (Qred (G - fst gs))) (Qred (qpow2m ge * snd gs + noise))) cands) 8
            + flag (existsb (fun gs => Qle_bool (Qopp (Qred (qpow2m ge * snd gs + noise))) G) cands) 16
          else 0)
     else 0).

(** tolerance of the exact optimality gap of an OLS fit: (2^6 eps)^2 * (k + 1) * (sum_j |a_j|^2 theta_j^2 + |y|^2)
    over the k columns a_j of the design (the constant column included) - the square of 64 eps times a bound
    of sum_j |a_j| |theta_j| + |y|, the scale of the backward error of a column-wise stable QR solve (calibrated:
    the unchanged code used at most 0.03 of it over 1 873 fits of seeds 1..8 and the default seed; the normal-equations
    variant seeded as C11-c exceeds it by factors up to 10^7).  Not part of the trusted statement: [ols_exact_ok_sound] holds
    for any tolerance and states it. *)
Definition ols_tau2 (f32 : bool) (A : list (list Q)) (y th : list Q) : Q :=
  let s2 := qadd (qsum (map (fun p => qmul (qdot (fst p) (fst p)) (qmul (snd p) (snd p))) (combine A th))) (qdot y y) in
  qmul (qmul (qpow2m (if f32 then 34%positive else 92%positive)) (inject_Z (Z.of_nat (S (length A))))) s2.

Definition oracle_ols (c : case) : N :=
  let X := qrows (c_X c) in
  let cols := qcolumns X in
  let n := length X in
  let p := length cols in
  let y := map fq (col0 (c_Y c)) in
  let w := map fq (col0 (c_W c)) in
  let b := fq (hd 0%float (c_b c)) in
  let f32 := N.testbit (c_flags c) 3 in
  let fe := if f32 then 10%positive else 36%positive in
  let fs := floor_scale cols y w b in
  let e2s := map (e2_coord fe 0%Q 0%Q 0%Q fs) cols in
  let e2b := e2_icpt fe n fs in
  let shape := Nat.eqb (length (c_W c)) p && Nat.eqb (length (c_b c)) 1%nat
               && (c_icpt c || fl_eqb (hd 1%float (c_b c)) 0%float) in
  flag shape 128
  + (if shape then
       (if (if c_icpt c then ols_ok cols y w b e2s e2b else ols_ok_noint cols y w e2s) then 0
        else
          let yc := map (fun v => qsub v b) y in
          let r := qresidual cols yc w in
          flag (forallb (fun x => x) (kkt_flags r cols (repeat 0%Q p) (repeat 0%Q p) w e2s)) 256
          + (if c_icpt c then flag (coord_ok (qsum r) 0%Q 0%Q b e2b) 512 else 0))
       (* the exact optimality gap: a candidate exact solution by rational elimination, verified and compared by
          the proved-sound checker; a design that is not of full column rank has no verdict here *)
       + (let A := if c_icpt c then cols ++ [ones n] else cols in
          let th := if c_icpt c then w ++ [b] else w in
          match qnormal_solve A y with
          | None => 0
          | Some ts =>
              let tau2 := ols_tau2 f32 A y th in
              flag (if c_icpt c then ols_exact_ok cols y w b (firstn p ts) (last ts 0%Q) tau2
                    else ols_exact_ok_noint cols y w ts tau2) 8192
          end)
     else 0).

Definition oracle_mtl (c : case) : N :=
  let X := qrows (c_X c) in
  let cols := qcolumns X in
  let n := length X in
  let p := length cols in
  let Y := qrows (c_Y c) in
  let Ycols := qcolumns Y in
  let t := length Ycols in
  let W := qrows (c_W c) in
  let Wcols := qcolumns W in
  let b := map fq (c_b c) in
  let nq := inject_Z (Z.of_nat n) in
  let l1 := qmul (qmul nq (fq (c_pen c))) (fq (c_l1r c)) in
  let l2 := qmul (qmul nq (fq (c_pen c))) (qsub 1%Q (fq (c_l1r c))) in
  let converged := N.ltb (c_steps c) (c_maxit c) in
  let fixedpt := N.testbit (c_flags c) 2 in
  let tol := if converged then fq (c_tol c) else 0%Q in
  let shape := Nat.eqb (length W) p && forallb (fun r => Nat.eqb (length r) t) W && Nat.eqb (length b) t
               && (c_icpt c || forallb (fun v => fl_eqb v 0%float) (c_b c)) in
  flag shape 128
  + (if (converged || fixedpt) && shape then
       (* per task: centred targets and residual column *)
       let Yc := map (fun pr => map (fun v => qsub v (snd pr)) (fst pr)) (combine Ycols b) in
       let S := qsum (map (fun yk => qdot yk yk) Yc) in
       let fss := map (fun pr => floor_scale cols (fst (fst pr)) (snd pr) (snd (fst pr)))
                      (combine (combine Ycols b) Wcols) in
       let fs := qsum fss in
       let e2s := map (e2_coord 36 tol l2 S fs) cols in
       let Rc := map (fun pr => qresidual cols (fst pr) (snd pr)) (combine Yc Wcols) in
       (* the verified checker decides; the rows are inspected one by one only to name what failed *)
       (if mtl_ok cols Yc Wcols l1 l2 e2s then 0
        else
          fold_left N.lor
            (map (fun pr => let '(col, (Wj, e2)) := pr in
                    let C := map (fun r => qdot col r) Rc in
                    if Nat.eqb (length C) (length Wj) && group_ok_c C Wj l1 l2 e2 then 0%N
                    else if Qeq_bool (qdot Wj Wj) 0%Q then 2%N else 1%N)
                 (combine cols (combine W e2s))) 0
          + flag (Nat.eqb (length Wcols) t) 128)
       + (if c_icpt c then
            flag (forallb (fun pr => coord_ok (qsum (fst pr)) 0%Q 0%Q 0%Q (e2_icpt 36 n fs)) (combine Rc b)) 4
          else 0)
       + flag (PrimFloat.leb (PrimFloat.opp (PrimFloat.mul 0x1p-28%float
                 (PrimFloat.add (sqsum o64 (c_Y c)) 1%float))) (c_gap c)) 16
     else 0).

Definition run_case (c : case) : verdict :=
  if negb (all_finite c) then (c_id c, (0%N, 64%N))
  else
    (c_id c,
     match c_kind c with
     | 0%N => (corr_enet c, oracle_enet c)
     | 1%N => (corr_mtl c, oracle_mtl c)
     | _ => (corr_ols c, oracle_ols c)
     end).

Definition run_cases (cs : list case) : list N := report (map run_case cs).
