(** C18 - the exact-arithmetic checker (pattern B): definitions only.
    Part 1: [dq], dyadic numerators over positive integer denominators (m * 2^e / d), a NumOps
            instance in which + - * / abs and the comparisons are exact (every finite f64 embeds).
    Part 2: the conjuncts of the PCA checker, polymorphic in NumOps: evaluated at DQ_ops on the
            implementation's output, reasoned about at R_ops (C18/Proofs.v).  Everything expensive
            (covariance, C w_i, w_i^T C w_j) is computed once and passed on explicitly. *)
From Coq Require Import ZArith NArith QArith List Bool Floats.
From LinfaVerif Require Import Common.Num Common.QF Common.LDL C18.Model.
Import ListNotations.

(* ------------------------------------------------------------------------------------------ *)
(** * dq *)
Record dq := mkdq { dm : Z; de : Z; dd : positive }.

Definition align (m1 e1 m2 e2 : Z) : Z * Z * Z :=
  if Z.leb e1 e2 then (m1, Z.shiftl m2 (e2 - e1), e1) else (Z.shiftl m1 (e1 - e2), m2, e2).

Definition dq_add (a b : dq) : dq :=
  if Pos.eqb (dd a) (dd b) then
    let '(x, y, e) := align (dm a) (de a) (dm b) (de b) in mkdq (x + y) e (dd a)
  else
    let '(x, y, e) := align (dm a * Zpos (dd b)) (de a) (dm b * Zpos (dd a)) (de b) in
    mkdq (x + y) e (dd a * dd b).
Definition dq_opp (a : dq) : dq := mkdq (- dm a) (de a) (dd a).
Definition dq_sub (a b : dq) : dq := dq_add a (dq_opp b).
Definition dq_mul (a b : dq) : dq := mkdq (dm a * dm b) (de a + de b) (dd a * dd b).
Definition dq_div (a b : dq) : dq :=
  match dm b with
  | Z0 => mkdq 0 0 1
  | Zpos q => mkdq (dm a * Zpos (dd b)) (de a - de b) (dd a * q)
  | Zneg q => mkdq (- (dm a * Zpos (dd b))) (de a - de b) (dd a * q)
  end.
Definition dq_abs (a : dq) : dq := mkdq (Z.abs (dm a)) (de a) (dd a).
Definition dq_cmp (a b : dq) : comparison :=
  let '(x, y, _) := align (dm a * Zpos (dd b)) (de a) (dm b * Zpos (dd a)) (de b) in Z.compare x y.
Definition dq_leb (a b : dq) : bool := match dq_cmp a b with Gt => false | _ => true end.
Definition dq_ltb (a b : dq) : bool := match dq_cmp a b with Lt => true | _ => false end.
Definition dq_eqb (a b : dq) : bool := match dq_cmp a b with Eq => true | _ => false end.
Definition dq_of_N (n : N) : dq := mkdq (Z.of_N n) 0 1.

(* sqrt is not exact on dq: the checker never calls it (all conditions are squared away) *)
Definition DQ_ops : NumOps dq :=
  {| zero := mkdq 0 0 1; one := mkdq 1 0 1; add := dq_add; sub := dq_sub; mul := dq_mul; div := dq_div;
     opp := dq_opp; abs := dq_abs; sqrt := fun a => a;
     ltb := dq_ltb; leb := dq_leb; eqb := dq_eqb; of_N := dq_of_N |}.

Definition sf_dq (x : spec_float) : dq :=
  match x with
  | S754_finite s m e => mkdq (if s then Zneg m else Zpos m) e 1
  | _ => mkdq 0 0 1
  end.
Definition f64_dq (x : float) : dq := sf_dq (Prim2SF x).
Definition dq_Q (a : dq) : Q := (inject_Z (dm a) * Qpow2 (de a)) / inject_Z (Zpos (dd a)).

(* ------------------------------------------------------------------------------------------ *)
(** * the conjuncts *)
Section Chk.
Context {F : Type} (o : NumOps F).
Notation "a + b" := (add o a b).
Notation "a - b" := (sub o a b).
Notation "a * b" := (mul o a b).
Notation "a / b" := (div o a b).
Notation "a <=? b" := (leb o a b).
Notation F0 := (zero o).
Notation F1 := (one o).
Notation dot := (dot o).
Notation vsub := (vsub o).
Notation vec := (list F).
Notation mat := (list (list F)).

Fixpoint ssum (l : vec) : F := match l with [] => F0 | x :: l' => x + ssum l' end.
Definition sumabs (l : vec) : F := ssum (map (abs o) l).
Definition absle (x t : F) : bool := abs o x <=? t.          (* |x| <= t *)
Definition tolp (e : N) : F := F1 / of_N o (2 ^ e).          (* 2^-e *)
Definition delta (i j : nat) (x : F) : F := if Nat.eqb i j then x else F0.
Definition nthv (i : nat) (l : vec) : F := nth i l F0.
Definition nthr (i : nat) (M : mat) : vec := nth i M [].

(* the tolerances (all relative; T = trace of the sample covariance) *)
Definition tol_sum : F := tolp 45.     (* float summation / division of the mean, of the ratio *)
Definition tol_acc : F := tolp 50.     (* two roundings of sigma^2/(n-1) *)
Definition tol_dot : F := tolp 48.     (* a dot product of <= 10 terms after one subtraction: 11 roundings of 2^-53 < 2^-49 *)
Definition d_orth : F := tolp 20.      (* orthonormality, Ritz values, whitened covariance *)
Definition d_res : F := tolp 23.       (* eigen-residual (relative to T * |w|_1) *)
Definition d_lead : F := tolp 17.      (* slack of the deflation certificate (relative to T) *)
Definition d_rt : F := tolp 20.        (* round trip *)
Definition d_small : F := tolp 20.
Definition cutoff : F := of_N o 1001000 / of_N o (2 ^ 52).   (* eps * 1e6 with 0.1% slack *)

(* --- the exact sample statistics of the data --- *)
Definition cols (p : nat) (X : mat) : mat := map (fun j => column o j X) (seq 0 p).
Definition emean (nF : F) (cs : mat) : vec := map (fun c => ssum c / nF) cs.
Definition gram (n1 : F) (cs : mat) : mat := map (fun ca => map (fun cb => dot ca cb / n1) cs) cs.
Definition cov (n : N) (p : nat) (X : mat) : mat :=
  let nF := of_N o n in
  gram (nF - F1) (cols p (centre o X (emean nF (cols p X)))).
Definition trace (C : mat) : F := ssum (map (fun i => nthv i (nthr i C)) (seq 0 (length C))).

(* --- conjunct 1: the reported mean is the column mean --- *)
Definition mean_ok (n : N) (p : nat) (X : mat) (mu : vec) : bool :=
  let nF := of_N o n in
  Nat.eqb (length mu) p &&
  forallb (fun mc => absle (fst mc - ssum (snd mc) / nF) (tol_sum * sumabs (snd mc) / nF)) (combine mu (cols p X)).

Definition lam (n1 s : F) : F := s * s / n1.
Definition lams_of (n : N) (sg : vec) : vec := map (lam (of_N o n - F1)) sg.
(* v_i v_i^T = sc_i w_i w_i^T: sc = 1 for a plain embedding, lambda_i for a whitened one *)
Definition scs_of (whiten : bool) (lams : vec) : vec := map (fun l => if whiten then l else F1) lams.

(* --- conjunct 2: shape --- *)
Definition shape_ok (p : nat) (k : N) (sg : vec) (W : mat) : bool :=
  Nat.eqb (length W) (length sg) && N.leb (N.of_nat (length sg)) k && forallb (fun w => Nat.eqb (length w) p) W.

(* --- conjunct 3: singular values positive, non-increasing --- *)
Fixpoint nonincr (l : vec) : bool :=
  match l with
  | a :: (b :: _) as r => (b <=? a) && nonincr r
  | _ => true
  end.
Definition sigma_ok (sg : vec) : bool := forallb (fun s => ltb o F0 s) sg && nonincr sg.

(* --- conjunct 4: orthonormal directions: sc_i |w_i|^2 = 1, sc_i sc_j (w_i.w_j)^2 = 0 --- *)
Definition orth_ok (scs : vec) (W : mat) : bool :=
  let idx := seq 0 (length W) in
  forallb (fun i => forallb (fun j =>
    let d := dot (nthr i W) (nthr j W) in
    if Nat.eqb i j then absle (nthv i scs * d - F1) d_orth
    else (nthv i scs * nthv j scs * (d * d)) <=? d_orth * d_orth) idx) idx.

(* --- conjunct 5: covariance of the projected centred data, G_ij = w_i^T C w_j --- *)
Definition CW_of (C W : mat) : mat := map (fun w => map (fun row => dot row w) C) W.
Definition G_of (W CW : mat) : mat := map (fun w => map (fun cw => dot w cw) CW) W.
Definition projcov_ok (T : F) (lams scs : vec) (G : mat) : bool :=
  let idx := seq 0 (length lams) in
  forallb (fun i => forallb (fun j =>
    let g := nthv j (nthr i G) in
    if Nat.eqb i j then absle (nthv i scs * g - nthv i lams) (d_orth * T)
    else (nthv i scs * nthv j scs * (g * g)) <=? (d_orth * T) * (d_orth * T)) idx) idx.

(* --- conjunct 5b: the same test on what `predict` actually returned for the training rows:
       the sample covariance S of the score rows Z (m columns) is diag(lambda) (identity when whitened) --- *)
Definition scorecov_ok (n : N) (T : F) (lams scs : vec) (Z : mat) : bool :=
  let m := length lams in
  N.eqb (N.of_nat (length Z)) n && forallb (fun z => Nat.eqb (length z) m) Z &&
  projcov_ok T lams scs (cov n m Z).

(* --- conjunct 6/7: accessors --- *)
Definition ev_ok (lams ev : vec) : bool :=
  Nat.eqb (length ev) (length lams) &&
  forallb (fun el => absle (fst el - snd el) (tol_acc * snd el)) (combine ev lams).
Definition ratio_ok (ev evr : vec) : bool :=
  Nat.eqb (length evr) (length ev) &&
  forallb (fun re => (F0 <=? fst re) && absle (fst re * ssum ev - snd re) (tol_sum * ssum ev)) (combine evr ev) &&
  (Nat.eqb (length ev) 0 || absle (ssum evr - F1) tol_sum).

(* --- conjunct 8: inverse_transform (predict x) is the orthogonal projection about the mean --- *)
Definition proj_coefs (scs : vec) (W : mat) (d : vec) : vec :=
  map2 (fun sc w => sc * dot w d) scs W.
Definition projection (p : nat) (scs : vec) (W : mat) (mu x : vec) : vec :=
  vadd o (lincomb o p (proj_coefs scs W (vsub x mu)) W) mu.
Definition close_rows (tolv : F) (a b mu : vec) : bool :=
  forallb (fun t => absle (fst (fst t) - snd (fst t)) (d_rt * (tolv + abs o (snd t)))) (combine (combine a b) mu).
Definition roundtrip_row_ok (p : nat) (scs : vec) (W : mat) (mu x inv : vec) : bool :=
  let scale := sumabs (vsub x mu) in
  Nat.eqb (length inv) p && Nat.eqb (length x) p &&
  close_rows scale inv (projection p scs W mu x) mu &&
  (negb (Nat.eqb (length W) p) || close_rows scale inv x mu).
Definition roundtrip_ok (p : nat) (scs : vec) (W : mat) (mu : vec) (Qs invs : mat) : bool :=
  Nat.eqb (length invs) (length Qs) &&
  forallb (fun xi => roundtrip_row_ok p scs W mu (fst xi) (snd xi)) (combine Qs invs).

(* --- conjunct 9: eigen-residual  |C w_i - lambda_i w_i|_inf <= d_res T |w_i|_1 --- *)
Definition resid_ok (T : F) (lams : vec) (W CW : mat) : bool :=
  forallb (fun t => let '(l, w, cw) := t in
             forallb (fun c => absle (fst c - l * snd c) (d_res * T * sumabs w)) (combine cw w))
          (combine (combine lams W) CW).

(* --- conjunct 10: leading subspace.  mu0 = lambda_m when all k requested components came back,
       else the solver's cut-off eps * 1e6 * lambda_1.
       M = (mu0 + d_lead T) I - C + sum_i (lambda_i - mu0) sc_i w_i w_i^T must be PSD *)
Definition mu0_of (k : N) (lams : vec) : F :=
  if N.eqb (N.of_nat (length lams)) k then last lams F0 else hd F0 lams * cutoff.
Definition coefs_of (mu0 : F) (lams scs : vec) : vec := map2 (fun l sc => (l - mu0) * sc) lams scs.
Definition coefs_ok (cf : vec) : bool := forallb (fun c => F0 <=? c) cf.
(* matrix expression, built structurally so that x^T M x splits term by term *)
Definition madd (A B : mat) : mat := map2 (map2 (add o)) A B.
Definition msub (A B : mat) : mat := map2 (map2 (sub o)) A B.
Definition mscale (c : F) (A : mat) : mat := map (map (fun v => c * v)) A.
Definition outer (w : vec) : mat := map (fun a => map (fun b => a * b) w) w.
Fixpoint ident (n : nat) (s : F) : mat :=
  match n with
  | O => []
  | S n' => (s :: repeat F0 n') :: map (cons F0) (ident n' s)
  end.
Definition zeros (p : nat) : mat := repeat (repeat F0 p) p.
Fixpoint rank1 (p : nat) (cf : vec) (W : mat) : mat :=
  match cf, W with
  | c :: cf', w :: W' => madd (mscale c (outer w)) (rank1 p cf' W')
  | _, _ => zeros p
  end.
Definition Mlead (p : nat) (C : mat) (shift : F) (cf : vec) (W : mat) : mat :=
  madd (msub (ident p shift) C) (rank1 p cf W).
(* the bound implied by the certificate for every orthonormal k-frame, against what W retains *)
Definition kyfan_bound (k : N) (shift : F) (cf : vec) (W : mat) : F :=
  of_N o k * shift + ssum (map2 (fun c w => c * dot w w) cf W).
Definition retained (scs : vec) (G : mat) : F :=
  ssum (map (fun i => nthv i scs * nthv i (nthr i G)) (seq 0 (length scs))).
Definition bound_ok (k : N) (T mu0 shift : F) (cf scs : vec) (W G : mat) : bool :=
  kyfan_bound k shift cf W <=?
  retained scs G + (of_N o k - of_N o (N.of_nat (length scs))) * mu0 + (of_N o k * d_lead + d_small) * T.

(* --- correspondence of the two matrix products (exact recomputation, rounding tolerance) --- *)
Definition predict_row_ok (W : mat) (mu x z : vec) : bool :=
  let xc := vsub x mu in
  let axc := map (abs o) xc in
  Nat.eqb (length z) (length W) &&
  forallb (fun zw => absle (fst zw - dot xc (snd zw)) (tol_dot * dot axc (map (abs o) (snd zw)))) (combine z W).
Definition predict_ok (W : mat) (mu : vec) (Qs Z : mat) : bool :=
  Nat.eqb (length Z) (length Qs) && forallb (fun xz => predict_row_ok W mu (fst xz) (snd xz)) (combine Qs Z).

(* [cs]: the coefficient rows prediction / sq_norms as the f64 code computes them (exact values) *)
Definition inverse_row_ok (p : nat) (W aW : mat) (mu amu c inv : vec) : bool :=
  let r := vadd o (lincomb o p c W) mu in
  let mag := vadd o (lincomb o p (map (abs o) c) aW) amu in
  Nat.eqb (length inv) p &&
  forallb (fun t => absle (fst (fst t) - snd (fst t)) (tol_dot * snd t)) (combine (combine inv r) mag).
Definition inverse_ok (p : nat) (W : mat) (mu : vec) (cs invs : mat) : bool :=
  let aW := map (map (abs o)) W in
  let amu := map (abs o) mu in
  Nat.eqb (length invs) (length cs) &&
  forallb (fun zi => inverse_row_ok p W aW mu amu (fst zi) (snd zi)) (combine cs invs).

(* --- all property conjuncts, sharing the expensive intermediate results --- *)
Record checks := mkchecks {
  k_mean : bool; k_shape : bool; k_sigma : bool; k_orth : bool; k_projcov : bool; k_ev : bool;
  k_ratio : bool; k_roundtrip : bool; k_resid : bool; k_coefs : bool; k_bound : bool;
  k_scores : bool;
  k_T : F;    (* trace of the sample covariance *)
  k_M : mat   (* the matrix handed to the deflation certificate *)
}.

Definition pca_checks (n : N) (p : nat) (k : N) (whiten : bool) (X : mat)
           (mu sg : vec) (W : mat) (ev evr : vec) (Qs invs Zs : mat) : checks :=
  let C := cov n p X in
  let T := trace C in
  let lams := lams_of n sg in
  let scs := scs_of whiten lams in
  let CW := CW_of C W in
  let G := G_of W CW in
  let mu0 := mu0_of k lams in
  let shift := mu0 + d_lead * T in
  let cf := coefs_of mu0 lams scs in
  mkchecks (mean_ok n p X mu) (shape_ok p k sg W) (sigma_ok sg) (orth_ok scs W)
           (projcov_ok T lams scs G) (ev_ok lams ev) (ratio_ok ev evr)
           (roundtrip_ok p scs W mu Qs invs) (resid_ok T lams W CW) (coefs_ok cf)
           (bound_ok k T mu0 shift cf scs W G) (scorecov_ok n T lams scs Zs) T (Mlead p C shift cf W).
End Chk.

(* ------------------------------------------------------------------------------------------ *)
(** * the deflation certificate: M = B + D with B on a coarse dyadic grid, certified by an exact
      LDL^T (Common/LDL.v), and D = M - B diagonally dominant (checked exactly), hence both PSD *)
Section Dom.
Context {F : Type} (o : NumOps F).
(* every diagonal entry >= d, every off-diagonal entry within [-g, g]; n x n *)
Fixpoint dom_rec (n : nat) (d g : F) (D : list (list F)) : bool :=
  match n, D with
  | O, [] => true
  | S n', (a :: b) :: rows =>
      leb o d a && Nat.eqb (length b) n' && forallb (fun v => leb o (abs o v) g) b
      && Nat.eqb (length rows) n'
      && forallb (fun r => match r with c :: t => leb o (abs o c) g && Nat.eqb (length t) n' | [] => false end) rows
      && dom_rec n' d g (map (@tl F) rows)
  | _, _ => false
  end.
(* D_aa >= (p-1) g  and  |D_ab| <= g for a <> b: diagonally dominant, hence PSD *)
Definition dom_ok (p : nat) (g : F) (D : list (list F)) : bool :=
  leb o (zero o) g && dom_rec p (mul o (of_N o (N.of_nat (Nat.pred p))) g) g D.
End Dom.

Definition dq_floor_to (eg : Z) (a : dq) : Z := Z.div (Z.shiftl (dm a) (de a - eg)) (Zpos (dd a)).
Definition grid_exp (T : dq) : Z := Z.log2 (Z.abs (dm T)) + de T - Z.log2 (Zpos (dd T)) - 45.
Definition round_mat (p : nat) (eg : Z) (M : list (list dq)) : list (list dq) :=
  map (fun ar => map (fun bv => mkdq (dq_floor_to eg (snd bv) - (if Nat.eqb (fst ar) (fst bv) then Z.of_nat p else 0)) eg 1)
                     (combine (seq 0 p) (snd ar)))
      (combine (seq 0 p) M).
Definition lead_psd (p : nat) (T : dq) (M : list (list dq)) : bool :=
  if Z.eqb (dm T) 0 then ldl_psd p (map (map dq_Q) M)     (* constant data: M is (close to) zero, certify it as it is *)
  else
    let eg := grid_exp T in
    let B := round_mat p eg M in
    dom_ok DQ_ops p (mkdq 1 eg 1) (msub DQ_ops M B) && ldl_psd p (map (map dq_Q) B).
