(** C18 - lemmas, second part (depends on C18/Proofs.v).
    Part E: frames.  An orthogonal family of p non-zero vectors of R^p spans R^p (dimension counting
            through Bessel's inequality applied to the unit vectors), hence for an embedding with all
            p components the round trip inverse_transform (predict x) is the identity.
    Part F: the Ky Fan bound against the REPORTED explained variances: for a fit accepted by the
            checker no orthonormal k-frame retains more variance than sum_i explained_variance_i, up
            to an explicit slack; and the returned components attain that sum up to the same slack.
    Part G: the covariance of the scores `predict` returned for the training rows. *)
From Coq Require Import ZArith NArith Reals List Bool Lia Lra Psatz.
From LinfaVerif Require Import Common.Num Common.NdSum Common.QF Common.LDL C18.Model C18.Check C18.Proofs.
Import ListNotations.
Local Open Scope R_scope.

Notation oR := R_ops.

(* ========================================================================================== *)
(** * Part E: frames *)

(** ** small facts about sums *)
Lemma Rsum_map_plus {A} (f g : A -> R) l :
  Rsum (map (fun a => f a + g a) l) = Rsum (map f l) + Rsum (map g l).
Proof. induction l as [|a l IH]; simpl; [lra|]. rewrite IH. ring. Qed.
Lemma Rsum_map_scale {A} c (f : A -> R) l : Rsum (map (fun a => c * f a) l) = c * Rsum (map f l).
Proof. induction l as [|a l IH]; simpl; [lra|]. rewrite IH. ring. Qed.
Lemma Rsum_map_divc {A} d (f : A -> R) l : Rsum (map (fun a => f a / d) l) = Rsum (map f l) / d.
Proof. induction l as [|a l IH]; simpl; [lra|]. rewrite IH. unfold Rdiv. ring. Qed.
Lemma Rsum_map_const {A} c (l : list A) : Rsum (map (fun _ => c) l) = INR (length l) * c.
Proof.
  induction l as [|a l IH]; [simpl; lra|]. cbn [map Rsum fold_right length]. fold (Rsum (map (fun _ : A => c) l)).
  rewrite IH, S_INR. ring.
Qed.
Lemma Rsum_map_le {A} (f g : A -> R) l : (forall a, In a l -> f a <= g a) -> Rsum (map f l) <= Rsum (map g l).
Proof.
  induction l as [|a l IH]; intros H; simpl; [lra|].
  pose proof (H a (or_introl eq_refl)). assert (Rsum (map f l) <= Rsum (map g l)) by (apply IH; intros; apply H; right; auto).
  unfold Rsum in *. lra.
Qed.
Lemma Rsum_swap {A B} (f : A -> B -> R) la lb :
  Rsum (map (fun a => Rsum (map (fun b => f a b) lb)) la) = Rsum (map (fun b => Rsum (map (fun a => f a b) la)) lb).
Proof.
  induction lb as [|b lb IH].
  - simpl. induction la as [|a la IHa]; simpl; [reflexivity|]. rewrite IHa. ring.
  - cbn [map Rsum fold_right]. fold (Rsum (map (fun b0 => Rsum (map (fun a => f a b0) la)) lb)).
    rewrite <- IH. rewrite <- Rsum_map_plus. reflexivity.
Qed.
Lemma seq_nth_id (l : list R) : map (fun i => nth i l 0) (seq 0 (length l)) = l.
Proof. pose proof (map_nth_seq (fun v : R => v) l) as E. cbv beta in E. rewrite E. apply map_id. Qed.

Lemma Rdot_self_nonneg x : 0 <= Rdot x x.
Proof. induction x as [|a x IH]; simpl; nra. Qed.
Lemma Rdot_sq_sum w : Rdot w w = Rsum (map (fun v => v * v) w).
Proof. induction w as [|a w IH]; simpl; [reflexivity|]. rewrite IH. reflexivity. Qed.
Lemma Rsum_sq_nth w : Rsum (map (fun j => nth j w 0 * nth j w 0) (seq 0 (length w))) = Rdot w w.
Proof.
  pose proof (map_nth_seq (fun v : R => v * v) w) as E. cbv beta in E. rewrite E. symmetry. apply Rdot_sq_sum.
Qed.

(** ** Bessel's inequality for an orthogonal (not normalised) family *)
Definition sqprojO (x : list R) (W : list (list R)) : R :=
  Rsum (map (fun w => Rdot x w * Rdot x w / Rdot w w) W).

Lemma bessel_orth p : forall W x, orthogonal W -> Forall (fun w => length w = p) W -> length x = p ->
  sqprojO x W <= Rdot x x.
Proof.
  unfold sqprojO. induction W as [|u U IH]; intros x HO FW Lx.
  - simpl. apply Rdot_self_nonneg.
  - destruct HO as (Huu & Hperp & HO). inversion FW as [|? ? Lu FU']; subst.
    set (c := Rdot x u / Rdot u u).
    set (x' := map2 (fun a b => a - c * b) x u).
    assert (Lxu : length x = length u) by lia.
    assert (Lx' : length x' = length u) by (unfold x'; rewrite map2_len; lia).
    assert (E1 : forall v, Rdot x' v = Rdot x v - c * Rdot u v) by (intros v; apply Rdot_axpy; exact Lxu).
    assert (E2 : Rdot x' x' = Rdot x x - Rdot x u * Rdot x u / Rdot u u).
    { rewrite E1. rewrite (Rdot_comm x x'), (Rdot_comm u x'), !E1. rewrite (Rdot_comm u x). unfold c. field. exact Huu. }
    assert (E3 : map (fun v => Rdot x' v * Rdot x' v / Rdot v v) U = map (fun v => Rdot x v * Rdot x v / Rdot v v) U).
    { apply map_ext_in. intros v Hv. rewrite E1. rewrite Forall_forall in Hperp. rewrite (Hperp v Hv). f_equal. ring. }
    pose proof (IH x' HO FU' (eq_trans Lx' Lu)) as B. rewrite E3, E2 in B.
    cbn [map Rsum fold_right]. fold (Rsum (map (fun w => Rdot x w * Rdot x w / Rdot w w) U)). lra.
Qed.

(** ** the unit vectors of R^p *)
Fixpoint unitv (p j : nat) : list R :=
  match p with
  | O => []
  | S p' => match j with O => 1 :: repeat 0 p' | S j' => 0 :: unitv p' j' end
  end.
Lemma unitv_len p : forall j, length (unitv p j) = p.
Proof. induction p as [|p IH]; intros [|j]; simpl; auto. rewrite repeat_length. reflexivity. Qed.
Lemma Rdot_unitv p : forall j w, length w = p -> (j < p)%nat -> Rdot (unitv p j) w = nth j w 0.
Proof.
  induction p as [|p IH]; intros j [|a w] L Hj; simpl in *; try lia. destruct j as [|j]; simpl.
  - rewrite Rdot_repeat0. ring.
  - rewrite IH by lia. ring.
Qed.
Lemma Rdot_unitv_self p : forall j, (j < p)%nat -> Rdot (unitv p j) (unitv p j) = 1.
Proof.
  induction p as [|p IH]; intros [|j] Hj; simpl; try lia.
  - rewrite Rdot_repeat0. ring.
  - rewrite IH by lia. ring.
Qed.

(** ** dimension counting: at most p orthogonal non-zero vectors in R^p *)
Lemma orthogonal_in_nonzero W : orthogonal W -> forall w, In w W -> Rdot w w <> 0.
Proof.
  induction W as [|u U IH]; intros HO w Hw; [contradiction|]. destruct HO as (Huu & _ & HO).
  destruct Hw as [<-|Hw]; auto.
Qed.

Lemma orthogonal_count p W : orthogonal W -> Forall (fun w => length w = p) W -> (length W <= p)%nat.
Proof.
  intros HO FW. apply INR_le.
  set (f := fun (w : list R) (j : nat) => Rdot (unitv p j) w * Rdot (unitv p j) w / Rdot w w).
  assert (E1 : INR (length W) = Rsum (map (fun w => Rsum (map (fun j => f w j) (seq 0 p))) W)).
  { rewrite <- (Rmult_1_r (INR (length W))), <- (Rsum_map_const 1 W). f_equal. apply map_ext_in. intros w Hw.
    rewrite Forall_forall in FW. pose proof (FW w Hw) as Lw. pose proof (orthogonal_in_nonzero W HO w Hw) as Nw.
    unfold f. rewrite Rsum_map_divc.
    rewrite (map_ext_in _ (fun j => nth j w 0 * nth j w 0)).
    - rewrite <- Lw, Rsum_sq_nth. field. exact Nw.
    - intros j Hj. apply in_seq in Hj. rewrite Rdot_unitv by lia. reflexivity. }
  rewrite E1, Rsum_swap.
  replace (INR p) with (Rsum (map (fun _ : nat => 1) (seq 0 p))) by (rewrite Rsum_map_const, seq_length; ring).
  apply Rsum_map_le. intros j Hj. apply in_seq in Hj.
  rewrite <- (Rdot_unitv_self p j) by lia.
  apply (bessel_orth p W (unitv p j) HO FW (unitv_len p j)).
Qed.

(** ** a vector orthogonal to a full orthogonal frame is zero *)
Lemma full_frame_perp_zero p W r :
  orthogonal W -> Forall (fun w => length w = p) W -> length W = p -> length r = p ->
  Forall (fun w => Rdot w r = 0) W -> Rdot r r = 0.
Proof.
  intros HO FW LW Lr HP. destruct (Req_dec (Rdot r r) 0) as [E|N]; [exact E|exfalso].
  assert (HO' : orthogonal (r :: W)).
  { cbn [orthogonal]. split; [exact N|]. split; [|exact HO].
    eapply Forall_impl; [|exact HP]. intros w E. cbv beta in *. rewrite Rdot_comm. exact E. }
  pose proof (orthogonal_count p (r :: W) HO' (Forall_cons _ Lr FW)) as C. simpl in C. lia.
Qed.

Lemma vsub_self_zero a : forall b, length a = length b ->
  Rdot (vsub oR a b) (vsub oR a b) = 0 -> a = b.
Proof.
  induction a as [|x a IH]; intros [|y b] L H; simpl in *; try discriminate; auto.
  pose proof (Rdot_self_nonneg (vsub oR a b)) as P. unfold vsub in P. simpl in P.
  assert (E : x - y = 0) by nra.
  f_equal; [lra|]. apply IH; [lia|]. unfold vsub. simpl. nra.
Qed.

(** ** the round trip with all p components is the identity *)
Theorem full_rank_roundtrip_identity (m : @pca R) (x : list R) :
  let p := length (pmean m) in
  let W := embedding m in
  orthogonal W -> Forall (fun w => length w = p) W -> length W = p -> length x = p ->
  inverse_row oR m (predict_row oR m x) = x.
Proof.
  cbv zeta. intros HO FW LW Lx.
  destruct (roundtrip_is_projection m x HO FW Lx) as [Ey HP].
  set (y := inverse_row oR m (predict_row oR m x)) in *.
  assert (Ly : length y = length (pmean m)).
  { rewrite Ey. rewrite vadd_len; rewrite lincomb_len; auto. }
  symmetry. apply vsub_self_zero; [lia|].
  apply (full_frame_perp_zero (length (pmean m)) (embedding m)); auto.
  unfold vsub. rewrite map2_len; lia.
Qed.

(** the hypothesis in matrix form: V V^T = I for the k x p matrix V of components *)
Definition gram_identity (W : list (list R)) : Prop :=
  forall i j, (i < length W)%nat -> (j < length W)%nat ->
  Rdot (nth i W []) (nth j W []) = if Nat.eqb i j then 1 else 0.

Lemma gram_identity_orthonormal W : gram_identity W -> orthonormal W.
Proof.
  induction W as [|w W IH]; intros G; [exact I|]. cbn [orthonormal]. repeat split.
  - apply (G 0%nat 0%nat); simpl; lia.
  - apply Forall_forall. intros v Hv. destruct (In_nth W v [] Hv) as (j & Hj & <-).
    apply (G 0%nat (S j)); simpl; lia.
  - apply IH. intros i j Hi Hj. apply (G (S i) (S j)); simpl; lia.
Qed.
Lemma orthonormal_orthogonal W : orthonormal W -> orthogonal W.
Proof.
  induction W as [|w W IH]; intros H; [exact I|]. destruct H as (H1 & H2 & H3).
  cbn [orthogonal]. repeat split; auto. rewrite H1. lra.
Qed.

Theorem full_rank_roundtrip_identity_gram (m : @pca R) (x : list R) :
  let p := length (pmean m) in
  let W := embedding m in
  gram_identity W -> Forall (fun w => length w = p) W -> length W = p -> length x = p ->
  inverse_row oR m (predict_row oR m x) = x.
Proof.
  cbv zeta. intros G. apply full_rank_roundtrip_identity.
  apply orthonormal_orthogonal, gram_identity_orthonormal, G.
Qed.

(** ** consequence: the columns of a square matrix with orthonormal rows are orthonormal too
       (V V^T = I implies V^T V = I):  sum_i w_i[a] w_i[b] = delta_ab *)
Lemma nth_vadd a : forall b j, length a = length b -> nth j (vadd oR a b) 0 = nth j a 0 + nth j b 0.
Proof.
  unfold vadd. induction a as [|x a IH]; intros [|y b] j L; simpl in *; try discriminate.
  - destruct j; lra.
  - destruct j; [reflexivity|]. apply IH. lia.
Qed.
Lemma nth_repeat0 n j : nth j (repeat 0 n) 0 = 0.
Proof. revert j. induction n as [|n IH]; intros [|j]; simpl; auto. Qed.
Lemma nth_scale c w j : nth j (map (fun v => mul oR c v) w) 0 = c * nth j w 0.
Proof. revert j. induction w as [|a w IH]; intros [|j]; simpl; try ring. apply IH. Qed.
Lemma nth_lincomb p j c : forall W, Forall (fun w => length w = p) W ->
  nth j (lincomb oR p c W) 0 = Rsum (map2 (fun ci w => ci * nth j w 0) c W).
Proof.
  induction c as [|ci c IH]; intros [|w W] FW; cbn [lincomb map2 Rsum fold_right]; try apply nth_repeat0.
  pose proof (Forall_inv FW) as Lw; cbv beta in Lw. pose proof (Forall_inv_tail FW) as FW'.
  rewrite nth_vadd by (rewrite map_length, lincomb_len; auto).
  rewrite nth_scale, (IH W FW'). reflexivity.
Qed.
Lemma nth_unitv p : forall a b, (a < p)%nat -> (b < p)%nat -> nth b (unitv p a) 0 = if Nat.eqb a b then 1 else 0.
Proof.
  induction p as [|p IH]; intros [|a] [|b] Ha Hb; simpl; try lia; auto.
  - apply nth_repeat0.
  - apply IH; lia.
Qed.

Theorem orthonormal_rows_orthonormal_columns p W :
  orthonormal W -> Forall (fun w => length w = p) W -> length W = p ->
  forall a b, (a < p)%nat -> (b < p)%nat ->
  Rsum (map (fun w => nth a w 0 * nth b w 0) W) = if Nat.eqb a b then 1 else 0.
Proof.
  intros HO FW LW a b Ha Hb.
  set (m := mkpca W (repeat 1 p) (repeat 0 p) 2).
  assert (Lm : length (pmean m) = p) by (simpl; apply repeat_length).
  pose proof (full_rank_roundtrip_identity m (unitv p a)) as RT. cbv zeta in RT. rewrite Lm in RT.
  specialize (RT (orthonormal_orthogonal W HO) FW LW (unitv_len p a)).
  rewrite roundtrip_unfold in RT. rewrite Lm in RT. cbn [embedding pmean m] in RT.
  assert (E : nth b (vadd oR (lincomb oR p (pcoefs W (vsub oR (unitv p a) (repeat 0 p))) W) (repeat 0 p)) 0
              = nth b (unitv p a) 0) by (rewrite RT; reflexivity).
  rewrite nth_vadd in E by (rewrite lincomb_len, repeat_length; auto).
  rewrite nth_repeat0, (nth_lincomb p) in E by exact FW. rewrite nth_unitv in E by lia.
  rewrite <- E. rewrite Rplus_0_r. unfold pcoefs. rewrite <- (map_id W) at 3. rewrite map2_map_map.
  f_equal. apply map_ext_in. intros w Hw.
  rewrite Forall_forall in FW. pose proof (FW w Hw) as Lw.
  assert (W1 : Rdot w w = 1).
  { clear - HO Hw. induction W as [|u U IH]; [contradiction|]. destruct HO as (H1 & _ & H3).
    destruct Hw as [<-|Hw]; auto. }
  rewrite W1. rewrite (Rdot_comm _ w), Rdot_vsub by (rewrite unitv_len, repeat_length; reflexivity).
  rewrite (Rdot_comm w (unitv p a)), Rdot_unitv by lia.
  rewrite (Rdot_comm w), Rdot_repeat0. field.
Qed.
