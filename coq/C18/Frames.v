(** C18 - lemmas, second part (depends on C18/Proofs.v).
    Part E: frames.  An orthogonal family of p non-zero vectors of R^p spans R^p (dimension counting
            through Bessel's inequality applied to the unit vectors), hence for an embedding with all
            p components the round trip inverse_transform (predict x) is the identity.
    Part F: the Ky Fan bound against the REPORTED explained variances: for a fit accepted by the
            checker no orthonormal k-frame retains more variance than sum_i explained_variance_i, up
            to an explicit slack; and the returned components attain that sum up to the same slack.
    Part G: the covariance of the scores `predict` returned for the training rows. *)
From Coq Require Import ZArith NArith Reals List Bool Lia Lra Psatz.
From LinfaVerif Require Import Common.Num Common.NdSum Common.QF Common.LDL C18.Model C18.Check C18.Proofs.
Import ListNotations.
Local Open Scope R_scope.

Notation oR := R_ops.

(* ========================================================================================== *)
(** * Part E: frames *)

(** ** small facts about sums *)
Lemma Rsum_map_plus {A} (f g : A -> R) l :
  Rsum (map (fun a => f a + g a) l) = Rsum (map f l) + Rsum (map g l).
Proof. induction l as [|a l IH]; simpl; [lra|]. rewrite IH. ring. Qed.
Lemma Rsum_map_scale {A} c (f : A -> R) l : Rsum (map (fun a => c * f a) l) = c * Rsum (map f l).
Proof. induction l as [|a l IH]; simpl; [lra|]. rewrite IH. ring. Qed.
Lemma Rsum_map_divc {A} d (f : A -> R) l : Rsum (map (fun a => f a / d) l) = Rsum (map f l) / d.
Proof. induction l as [|a l IH]; simpl; [lra|]. rewrite IH. unfold Rdiv. ring. Qed.
Lemma Rsum_map_const {A} c (l : list A) : Rsum (map (fun _ => c) l) = INR (length l) * c.
Proof.
  induction l as [|a l IH]; [simpl; lra|]. cbn [map Rsum fold_right length]. fold (Rsum (map (fun _ : A => c) l)).
  rewrite IH, S_INR. ring.
Qed.
Lemma Rsum_map_le {A} (f g : A -> R) l : (forall a, In a l -> f a <= g a) -> Rsum (map f l) <= Rsum (map g l).
Proof.
  induction l as [|a l IH]; intros H; simpl; [lra|].
  pose proof (H a (or_introl eq_refl)). assert (Rsum (map f l) <= Rsum (map g l)) by (apply IH; intros; apply H; right; auto).
  unfold Rsum in *. lra.
Qed.
Lemma Rsum_swap {A B} (f : A -> B -> R) la lb :
  Rsum (map (fun a => Rsum (map (fun b => f a b) lb)) la) = Rsum (map (fun b => Rsum (map (fun a => f a b) la)) lb).
Proof.
  induction lb as [|b lb IH].
  - simpl. induction la as [|a la IHa]; simpl; [reflexivity|]. rewrite IHa. ring.
  - cbn [map Rsum fold_right]. fold (Rsum (map (fun b0 => Rsum (map (fun a => f a b0) la)) lb)).
    rewrite <- IH. rewrite <- Rsum_map_plus. reflexivity.
Qed.
Lemma seq_nth_id (l : list R) : map (fun i => nth i l 0) (seq 0 (length l)) = l.
Proof. pose proof (map_nth_seq (fun v : R => v) l) as E. cbv beta in E. rewrite E. apply map_id. Qed.

Lemma Rdot_self_nonneg x : 0 <= Rdot x x.
Proof. induction x as [|a x IH]; simpl; nra. Qed.
Lemma Rdot_sq_sum w : Rdot w w = Rsum (map (fun v => v * v) w).
Proof. induction w as [|a w IH]; simpl; [reflexivity|]. rewrite IH. reflexivity. Qed.
Lemma Rsum_sq_nth w : Rsum (map (fun j => nth j w 0 * nth j w 0) (seq 0 (length w))) = Rdot w w.
Proof.
  pose proof (map_nth_seq (fun v : R => v * v) w) as E. cbv beta in E. rewrite E. symmetry. apply Rdot_sq_sum.
Qed.

(** ** Bessel's inequality for an orthogonal (not normalised) family *)
Definition sqprojO (x : list R) (W : list (list R)) : R :=
  Rsum (map (fun w => Rdot x w * Rdot x w / Rdot w w) W).

Lemma bessel_orth p : forall W x, orthogonal W -> Forall (fun w => length w = p) W -> length x = p ->
  sqprojO x W <= Rdot x x.
Proof.
  unfold sqprojO. induction W as [|u U IH]; intros x HO FW Lx.
  - simpl. apply Rdot_self_nonneg.
  - destruct HO as (Huu & Hperp & HO). inversion FW as [|? ? Lu FU']; subst.
    set (c := Rdot x u / Rdot u u).
    set (x' := map2 (fun a b => a - c * b) x u).
    assert (Lxu : length x = length u) by lia.
    assert (Lx' : length x' = length u) by (unfold x'; rewrite map2_len; lia).
    assert (E1 : forall v, Rdot x' v = Rdot x v - c * Rdot u v) by (intros v; apply Rdot_axpy; exact Lxu).
    assert (E2 : Rdot x' x' = Rdot x x - Rdot x u * Rdot x u / Rdot u u).
    { rewrite E1. rewrite (Rdot_comm x x'), (Rdot_comm u x'), !E1. rewrite (Rdot_comm u x). unfold c. field. exact Huu. }
    assert (E3 : map (fun v => Rdot x' v * Rdot x' v / Rdot v v) U = map (fun v => Rdot x v * Rdot x v / Rdot v v) U).
    { apply map_ext_in. intros v Hv. rewrite E1. rewrite Forall_forall in Hperp. rewrite (Hperp v Hv). f_equal. ring. }
    pose proof (IH x' HO FU' (eq_trans Lx' Lu)) as B. rewrite E3, E2 in B.
    cbn [map Rsum fold_right]. fold (Rsum (map (fun w => Rdot x w * Rdot x w / Rdot w w) U)). lra.
Qed.

(** ** the unit vectors of R^p *)
Fixpoint unitv (p j : nat) : list R :=
  match p with
  | O => []
  | S p' => match j with O => 1 :: repeat 0 p' | S j' => 0 :: unitv p' j' end
  end.
Lemma unitv_len p : forall j, length (unitv p j) = p.
Proof. induction p as [|p IH]; intros [|j]; simpl; auto. rewrite repeat_length. reflexivity. Qed.
Lemma Rdot_unitv p : forall j w, length w = p -> (j < p)%nat -> Rdot (unitv p j) w = nth j w 0.
Proof.
  induction p as [|p IH]; intros j [|a w] L Hj; simpl in *; try lia. destruct j as [|j]; simpl.
  - rewrite Rdot_repeat0. ring.
  - rewrite IH by lia. ring.
Qed.
Lemma Rdot_unitv_self p : forall j, (j < p)%nat -> Rdot (unitv p j) (unitv p j) = 1.
Proof.
  induction p as [|p IH]; intros [|j] Hj; simpl; try lia.
  - rewrite Rdot_repeat0. ring.
  - rewrite IH by lia. ring.
Qed.

(** ** dimension counting: at most p orthogonal non-zero vectors in R^p *)
Lemma orthogonal_in_nonzero W : orthogonal W -> forall w, In w W -> Rdot w w <> 0.
Proof.
  induction W as [|u U IH]; intros HO w Hw; [contradiction|]. destruct HO as (Huu & _ & HO).
  destruct Hw as [<-|Hw]; auto.
Qed.

Lemma orthogonal_count p W : orthogonal W -> Forall (fun w => length w = p) W -> (length W <= p)%nat.
Proof.
  intros HO FW. apply INR_le.
  set (f := fun (w : list R) (j : nat) => Rdot (unitv p j) w * Rdot (unitv p j) w / Rdot w w).
  assert (E1 : INR (length W) = Rsum (map (fun w => Rsum (map (fun j => f w j) (seq 0 p))) W)).
  { rewrite <- (Rmult_1_r (INR (length W))), <- (Rsum_map_const 1 W). f_equal. apply map_ext_in. intros w Hw.
    rewrite Forall_forall in FW. pose proof (FW w Hw) as Lw. pose proof (orthogonal_in_nonzero W HO w Hw) as Nw.
    unfold f. rewrite Rsum_map_divc.
    rewrite (map_ext_in _ (fun j => nth j w 0 * nth j w 0)).
    - rewrite <- Lw, Rsum_sq_nth. field. exact Nw.
    - intros j Hj. apply in_seq in Hj. rewrite Rdot_unitv by lia. reflexivity. }
  rewrite E1, Rsum_swap.
  replace (INR p) with (Rsum (map (fun _ : nat => 1) (seq 0 p))) by (rewrite Rsum_map_const, seq_length; ring).
  apply Rsum_map_le. intros j Hj. apply in_seq in Hj.
  rewrite <- (Rdot_unitv_self p j) by lia.
  apply (bessel_orth p W (unitv p j) HO FW (unitv_len p j)).
Qed.

(** ** a vector orthogonal to a full orthogonal frame is zero *)
Lemma full_frame_perp_zero p W r :
  orthogonal W -> Forall (fun w => length w = p) W -> length W = p -> length r = p ->
  Forall (fun w => Rdot w r = 0) W -> Rdot r r = 0.
Proof.
  intros HO FW LW Lr HP. destruct (Req_dec (Rdot r r) 0) as [E|N]; [exact E|exfalso].
  assert (HO' : orthogonal (r :: W)).
  { cbn [orthogonal]. split; [exact N|]. split; [|exact HO].
    eapply Forall_impl; [|exact HP]. intros w E. cbv beta in *. rewrite Rdot_comm. exact E. }
  pose proof (orthogonal_count p (r :: W) HO' (Forall_cons _ Lr FW)) as C. simpl in C. lia.
Qed.

Lemma vsub_self_zero a : forall b, length a = length b ->
  Rdot (vsub oR a b) (vsub oR a b) = 0 -> a = b.
Proof.
  induction a as [|x a IH]; intros [|y b] L H; simpl in *; try discriminate; auto.
  pose proof (Rdot_self_nonneg (vsub oR a b)) as P. unfold vsub in P. simpl in P.
  assert (E : x - y = 0) by nra.
  f_equal; [lra|]. apply IH; [lia|]. unfold vsub. simpl. nra.
Qed.

(** ** the round trip with all p components is the identity *)
Theorem full_rank_roundtrip_identity (m : @pca R) (x : list R) :
  let p := length (pmean m) in
  let W := embedding m in
  orthogonal W -> Forall (fun w => length w = p) W -> length W = p -> length x = p ->
  inverse_row oR m (predict_row oR m x) = x.
Proof.
  cbv zeta. intros HO FW LW Lx.
  destruct (roundtrip_is_projection m x HO FW Lx) as [Ey HP].
  set (y := inverse_row oR m (predict_row oR m x)) in *.
  assert (Ly : length y = length (pmean m)).
  { rewrite Ey. rewrite vadd_len; rewrite lincomb_len; auto. }
  symmetry. apply vsub_self_zero; [lia|].
  apply (full_frame_perp_zero (length (pmean m)) (embedding m)); auto.
  unfold vsub. rewrite map2_len; lia.
Qed.

(** the hypothesis in matrix form: V V^T = I for the k x p matrix V of components *)
Definition gram_identity (W : list (list R)) : Prop :=
  forall i j, (i < length W)%nat -> (j < length W)%nat ->
  Rdot (nth i W []) (nth j W []) = if Nat.eqb i j then 1 else 0.

Lemma gram_identity_orthonormal W : gram_identity W -> orthonormal W.
Proof.
  induction W as [|w W IH]; intros G; [exact I|]. cbn [orthonormal]. repeat split.
  - apply (G 0%nat 0%nat); simpl; lia.
  - apply Forall_forall. intros v Hv. destruct (In_nth W v [] Hv) as (j & Hj & <-).
    apply (G 0%nat (S j)); simpl; lia.
  - apply IH. intros i j Hi Hj. apply (G (S i) (S j)); simpl; lia.
Qed.
Lemma orthonormal_orthogonal W : orthonormal W -> orthogonal W.
Proof.
  induction W as [|w W IH]; intros H; [exact I|]. destruct H as (H1 & H2 & H3).
  cbn [orthogonal]. repeat split; auto. rewrite H1. lra.
Qed.

Theorem full_rank_roundtrip_identity_gram (m : @pca R) (x : list R) :
  let p := length (pmean m) in
  let W := embedding m in
  gram_identity W -> Forall (fun w => length w = p) W -> length W = p -> length x = p ->
  inverse_row oR m (predict_row oR m x) = x.
Proof.
  cbv zeta. intros G. apply full_rank_roundtrip_identity.
  apply orthonormal_orthogonal, gram_identity_orthonormal, G.
Qed.

(** ** consequence: the columns of a square matrix with orthonormal rows are orthonormal too
       (V V^T = I implies V^T V = I):  sum_i w_i[a] w_i[b] = delta_ab *)
Lemma nth_vadd a : forall b j, length a = length b -> nth j (vadd oR a b) 0 = nth j a 0 + nth j b 0.
Proof.
  unfold vadd. induction a as [|x a IH]; intros [|y b] j L; simpl in *; try discriminate.
  - destruct j; lra.
  - destruct j; [reflexivity|]. apply IH. lia.
Qed.
Lemma nth_repeat0 n j : nth j (repeat 0 n) 0 = 0.
Proof. revert j. induction n as [|n IH]; intros [|j]; simpl; auto. Qed.
Lemma nth_scale c w j : nth j (map (fun v => mul oR c v) w) 0 = c * nth j w 0.
Proof. revert j. induction w as [|a w IH]; intros [|j]; simpl; try ring. apply IH. Qed.
Lemma nth_lincomb p j c : forall W, Forall (fun w => length w = p) W ->
  nth j (lincomb oR p c W) 0 = Rsum (map2 (fun ci w => ci * nth j w 0) c W).
Proof.
  induction c as [|ci c IH]; intros [|w W] FW; cbn [lincomb map2 Rsum fold_right]; try apply nth_repeat0.
  pose proof (Forall_inv FW) as Lw; cbv beta in Lw. pose proof (Forall_inv_tail FW) as FW'.
  rewrite nth_vadd by (rewrite map_length, lincomb_len; auto).
  rewrite nth_scale, (IH W FW'). reflexivity.
Qed.
Lemma nth_unitv p : forall a b, (a < p)%nat -> (b < p)%nat -> nth b (unitv p a) 0 = if Nat.eqb a b then 1 else 0.
Proof.
  induction p as [|p IH]; intros [|a] [|b] Ha Hb; simpl; try lia; auto.
  - apply nth_repeat0.
  - apply IH; lia.
Qed.

Theorem orthonormal_rows_orthonormal_columns p W :
  orthonormal W -> Forall (fun w => length w = p) W -> length W = p ->
  forall a b, (a < p)%nat -> (b < p)%nat ->
  Rsum (map (fun w => nth a w 0 * nth b w 0) W) = if Nat.eqb a b then 1 else 0.
Proof.
  intros HO FW LW a b Ha Hb.
  set (m := mkpca W (repeat 1 p) (repeat 0 p) 2).
  assert (Lm : length (pmean m) = p) by (simpl; apply repeat_length).
  pose proof (full_rank_roundtrip_identity m (unitv p a)) as RT. cbv zeta in RT. rewrite Lm in RT.
  specialize (RT (orthonormal_orthogonal W HO) FW LW (unitv_len p a)).
  rewrite roundtrip_unfold in RT. rewrite Lm in RT. cbn [embedding pmean m] in RT.
  assert (E : nth b (vadd oR (lincomb oR p (pcoefs W (vsub oR (unitv p a) (repeat 0 p))) W) (repeat 0 p)) 0
              = nth b (unitv p a) 0) by (rewrite RT; reflexivity).
  rewrite nth_vadd in E by (rewrite lincomb_len, repeat_length; auto).
  rewrite nth_repeat0, (nth_lincomb p) in E by exact FW. rewrite nth_unitv in E by lia.
  rewrite <- E. rewrite Rplus_0_r. unfold pcoefs. rewrite <- (map_id W) at 3. rewrite map2_map_map.
  f_equal. apply map_ext_in. intros w Hw.
  rewrite Forall_forall in FW. pose proof (FW w Hw) as Lw.
  assert (W1 : Rdot w w = 1).
  { clear - HO Hw. induction W as [|u U IH]; [contradiction|]. destruct HO as (H1 & _ & H3).
    destruct Hw as [<-|Hw]; auto. }
  rewrite W1. rewrite (Rdot_comm _ w), Rdot_vsub by (rewrite unitv_len, repeat_length; reflexivity).
  rewrite (Rdot_comm w (unitv p a)), Rdot_unitv by lia.
  rewrite (Rdot_comm w), Rdot_repeat0. field.
Qed.

(* ========================================================================================== *)
(** * Part F: the Ky Fan bound against the reported explained variances *)

Lemma Rabs_le_inv x y : Rabs x <= y -> - y <= x <= y.
Proof. unfold Rabs. destruct (Rcase_abs x); lra. Qed.
Lemma map_nth_seq_gen {A B} (g : A -> B) d (l : list A) : map (fun i => g (nth i l d)) (seq 0 (length l)) = map g l.
Proof.
  induction l as [|a l IH]; simpl; auto. f_equal. rewrite <- seq_shift, map_map. exact IH.
Qed.

Lemma Rsum_map_le_eps {A} (f g : A -> R) e l : (forall a, In a l -> f a <= g a + e) ->
  Rsum (map f l) <= Rsum (map g l) + INR (length l) * e.
Proof.
  intros H. rewrite <- (Rsum_map_const e l), <- Rsum_map_plus. apply Rsum_map_le. exact H.
Qed.

Lemma retained_Rsum scs G :
  retained oR scs G = Rsum (map (fun i => nth i scs 0 * nth i (nth i G []) 0) (seq 0 (length scs))).
Proof. unfold retained. rewrite ssum_Rsum. reflexivity. Qed.

(* diagonal of the projected-covariance conjunct, for any matrix G *)
Lemma projcov_ok_diag T lams scs G : projcov_ok oR T lams scs G = true ->
  forall i, (i < length lams)%nat -> Rabs (nth i scs 0 * nth i (nth i G []) 0 - nth i lams 0) <= tolR 20 * T.
Proof.
  unfold projcov_ok. intros H i Hi.
  pose proof (forallb_seq _ _ (forallb_seq _ _ H i Hi) i Hi) as K. cbv beta zeta in K.
  rewrite Nat.eqb_refl in K. apply absle_R in K. exact K.
Qed.
Lemma projcov_ok_entries T lams scs G : projcov_ok oR T lams scs G = true ->
  forall i j, (i < length lams)%nat -> (j < length lams)%nat ->
  let g := nth j (nth i G []) 0 in
  (i = j -> Rabs (nth i scs 0 * g - nth i lams 0) <= tolR 20 * T) /\
  (i <> j -> nth i scs 0 * nth j scs 0 * (g * g) <= (tolR 20 * T) * (tolR 20 * T)).
Proof.
  unfold projcov_ok. intros H i j Hi Hj. cbv zeta.
  pose proof (forallb_seq _ _ (forallb_seq _ _ H i Hi) j Hj) as K. cbv beta zeta in K.
  unfold nthv, nthr in K. split; intros E.
  - apply Nat.eqb_eq in E. rewrite E in K. apply absle_R in K. exact K.
  - apply Nat.eqb_neq in E. rewrite E in K. apply Rleb_true in K. exact K.
Qed.

(* the variance retained by the returned components equals the sum of sigma_i^2/(n-1) up to m 2^-20 T *)
Lemma retained_vs_lams T lams scs G : length scs = length lams -> projcov_ok oR T lams scs G = true ->
  Rabs (retained oR scs G - Rsum lams) <= INR (length lams) * (tolR 20 * T).
Proof.
  intros L H. rewrite retained_Rsum, L. rewrite <- (seq_nth_id lams) at 2.
  set (f := fun i : nat => nth i scs 0 * nth i (nth i G []) 0).
  set (g := fun i : nat => nth i lams 0).
  assert (B : forall i, In i (seq 0 (length lams)) -> f i <= g i + tolR 20 * T /\ g i <= f i + tolR 20 * T).
  { intros i Hi. apply in_seq in Hi. pose proof (projcov_ok_diag T lams scs G H i) as K.
    unfold f, g. apply Rabs_le_inv in K; [lra|lia]. }
  pose proof (Rsum_map_le_eps f g (tolR 20 * T) (seq 0 (length lams)) (fun i Hi => proj1 (B i Hi))) as U1.
  pose proof (Rsum_map_le_eps g f (tolR 20 * T) (seq 0 (length lams)) (fun i Hi => proj2 (B i Hi))) as U2.
  rewrite seq_length in U1, U2. apply Rabs_le. lra.
Qed.

(* the reported explained variances sum to the sum of sigma_i^2/(n-1) up to 2^-50 relative *)
Lemma ev_sum_vs_lams lams ev : ev_ok oR lams ev = true ->
  Rabs (Rsum ev - Rsum lams) <= tolR 50 * Rsum lams.
Proof.
  intros H. destruct (ev_ok_sound lams ev H) as [L K].
  rewrite <- (seq_nth_id ev), <- (seq_nth_id lams), L.
  set (f := fun i : nat => nth i ev 0). set (g := fun i : nat => nth i lams 0).
  assert (B : forall i, In i (seq 0 (length lams)) ->
                        f i <= g i + tolR 50 * g i /\ g i <= f i + tolR 50 * g i).
  { intros i Hi. apply in_seq in Hi. pose proof (K i) as Ki. unfold f, g.
    apply Rabs_le_inv in Ki; [lra|lia]. }
  assert (U1 : Rsum (map f (seq 0 (length lams))) <= Rsum (map (fun i => g i + tolR 50 * g i) (seq 0 (length lams))))
    by (apply Rsum_map_le; intros i Hi; apply (proj1 (B i Hi))).
  assert (U2 : Rsum (map g (seq 0 (length lams))) <= Rsum (map (fun i => f i + tolR 50 * g i) (seq 0 (length lams))))
    by (apply Rsum_map_le; intros i Hi; apply (proj2 (B i Hi))).
  rewrite Rsum_map_plus, Rsum_map_scale in U1, U2. apply Rabs_le. lra.
Qed.

(* the explicit slack of the optimality statement: k requested, m returned components,
   T = trace of the sample covariance, L = sum_i sigma_i^2/(n-1) *)
Definition ky_slack (k m : nat) (T L : R) : R :=
  (INR k * tolR 17 + tolR 20 + INR m * tolR 20) * T + tolR 50 * L.

Lemma scs_lams_len whiten n (sg : list R) : length (scs_of oR whiten (lams_of oR n sg)) = length (lams_of oR n sg).
Proof. unfold scs_of. apply map_length. Qed.
Lemma lams_len n (sg : list R) : length (lams_of oR n sg) = length sg.
Proof. unfold lams_of. apply map_length. Qed.

(** for real data *)
Theorem variance_optimality_R n p k whiten X mu sg W ev evr Qs invs Zs :
  let ks := pca_checks oR n p k whiten X mu sg W ev evr Qs invs Zs in
  let C := cov oR n p X in
  let lams := lams_of oR n sg in
  k_shape ks = true -> k_projcov ks = true -> k_ev ks = true -> k_coefs ks = true -> k_bound ks = true ->
  (forall x, length x = p -> 0 <= Rquad (k_M ks) x) ->
  forall U, orthonormal U -> Forall (fun u => length u = p) U -> length U = N.to_nat k ->
  retained_by C U <=
    Rsum ev + (INR (N.to_nat k) - INR (length sg)) * mu0_of oR k lams
    + ky_slack (N.to_nat k) (length sg) (trace oR C) (Rsum lams).
Proof.
  cbv zeta. intros Hs Hp He Hc Hb HP U HO FU LU.
  pose proof (leading_subspace_R n p k whiten X mu sg W ev evr Qs invs Zs) as LS. cbv zeta in LS.
  specialize (LS Hs Hc Hb HP U HO FU LU).
  unfold pca_checks in Hp, He. cbv zeta in Hp, He. cbn [k_projcov k_ev] in Hp, He.
  pose proof (retained_vs_lams _ _ _ _ (scs_lams_len whiten n sg) Hp) as R1.
  pose proof (ev_sum_vs_lams _ _ He) as R2. rewrite lams_len in R1.
  apply Rabs_le_inv in R1. apply Rabs_le_inv in R2. unfold ky_slack. lra.
Qed.

(** the returned components attain the reported explained variances *)
Theorem reported_variance_attained_R n p k whiten X mu sg W ev evr Qs invs Zs :
  let ks := pca_checks oR n p k whiten X mu sg W ev evr Qs invs Zs in
  let C := cov oR n p X in
  let lams := lams_of oR n sg in
  let scs := scs_of oR whiten lams in
  k_projcov ks = true -> k_ev ks = true ->
  Rabs (retained oR scs (G_of oR W (CW_of oR C W)) - Rsum ev)
    <= INR (length sg) * tolR 20 * trace oR C + tolR 50 * Rsum lams.
Proof.
  cbv zeta. intros Hp He.
  unfold pca_checks in Hp, He. cbv zeta in Hp, He. cbn [k_projcov k_ev] in Hp, He.
  pose proof (retained_vs_lams _ _ _ _ (scs_lams_len whiten n sg) Hp) as R1.
  pose proof (ev_sum_vs_lams _ _ He) as R2. rewrite lams_len in R1.
  apply Rabs_le_inv in R1. apply Rabs_le_inv in R2. apply Rabs_le. lra.
Qed.

(* for a plain (not whitened) embedding that quantity is sum_i w_i^T C w_i, the variance retained by the rows of W *)
Lemma retained_plain n (sg : list R) C W : length W = length sg ->
  retained oR (scs_of oR false (lams_of oR n sg)) (G_of oR W (CW_of oR C W)) = retained_by C W.
Proof.
  intros L. rewrite retained_Rsum, scs_lams_len, lams_len, <- L. unfold retained_by.
  rewrite <- (map_nth_seq_gen (fun u => Rquad C u) [] W). f_equal. apply map_ext_in. intros i Hi. apply in_seq in Hi.
  pose proof (G_entry C W i i) as GE. unfold nthv, nthr in GE. change (zero oR) with 0 in GE. rewrite GE by lia.
  rewrite Rquad_bil.
  unfold scs_of, lams_of. rewrite map_map.
  rewrite (nth_map_lt _ sg 0 0) by lia. simpl. ring.
Qed.

(** the same for the exact dyadic evaluation on the implementation's output *)
Theorem variance_optimality_certified n p k whiten (X : list (list dq)) mu sg W ev evr Qs invs Zs :
  let ks := pca_checks DQ_ops n p k whiten X mu sg W ev evr Qs invs Zs in
  k_shape ks = true -> k_projcov ks = true -> k_ev ks = true -> k_coefs ks = true -> k_bound ks = true ->
  lead_psd p (k_T ks) (k_M ks) = true ->
  let C := cov oR n p (map (map D2R) X) in
  let lams := lams_of oR n (map D2R sg) in
  forall U, orthonormal U -> Forall (fun u => length u = p) U -> length U = N.to_nat k ->
  retained_by C U <=
    Rsum (map D2R ev) + (INR (N.to_nat k) - INR (length sg)) * mu0_of oR k lams
    + ky_slack (N.to_nat k) (length sg) (trace oR C) (Rsum lams).
Proof.
  cbv zeta. intros Hs Hp He Hc Hb HL U HO FU LU.
  destruct (hom_pca_checks D2R DQ_ops oR D2R_hom n p k whiten X mu sg W ev evr Qs invs Zs)
    as (_ & E2 & _ & _ & E5 & E6 & _ & _ & _ & E10 & E11 & _ & _ & EM).
  cbv zeta in E2, E5, E6, E10, E11, EM. rewrite E2 in Hs. rewrite E5 in Hp. rewrite E6 in He.
  rewrite E10 in Hc. rewrite E11 in Hb.
  pose proof (variance_optimality_R n p k whiten (map (map D2R) X) (map D2R mu) (map D2R sg) (map (map D2R) W)
                (map D2R ev) (map D2R evr) (map (map D2R) Qs) (map (map D2R) invs) (map (map D2R) Zs)) as R.
  cbv zeta in R. rewrite map_length in R. apply R; auto.
  rewrite <- EM. apply (lead_psd_sound p _ _ HL). rewrite EM.
  unfold pca_checks. cbv zeta. cbn [k_M].
  destruct (shape_ok_sound p k _ _ Hs) as (_ & _ & FW).
  apply rect_Mlead; [apply rect_cov|exact FW].
Qed.

(** the headline: when all k requested components came back, no orthonormal k-frame retains more
    variance than the sum of the reported explained variances, up to the slack *)
Theorem no_projection_retains_more_variance n p k whiten (X : list (list dq)) mu sg W ev evr Qs invs Zs :
  let ks := pca_checks DQ_ops n p k whiten X mu sg W ev evr Qs invs Zs in
  k_shape ks = true -> k_projcov ks = true -> k_ev ks = true -> k_coefs ks = true -> k_bound ks = true ->
  lead_psd p (k_T ks) (k_M ks) = true -> length sg = N.to_nat k ->
  let C := cov oR n p (map (map D2R) X) in
  let lams := lams_of oR n (map D2R sg) in
  forall U, orthonormal U -> Forall (fun u => length u = p) U -> length U = N.to_nat k ->
  retained_by C U <= Rsum (map D2R ev) + ky_slack (N.to_nat k) (N.to_nat k) (trace oR C) (Rsum lams).
Proof.
  cbv zeta. intros Hs Hp He Hc Hb HL Lk U HO FU LU.
  pose proof (variance_optimality_certified n p k whiten X mu sg W ev evr Qs invs Zs) as V. cbv zeta in V.
  specialize (V Hs Hp He Hc Hb HL U HO FU LU). rewrite Lk in V. lra.
Qed.

Theorem reported_variance_attained_certified n p k whiten (X : list (list dq)) mu sg W ev evr Qs invs Zs :
  let ks := pca_checks DQ_ops n p k whiten X mu sg W ev evr Qs invs Zs in
  k_projcov ks = true -> k_ev ks = true ->
  let WR := map (map D2R) W in
  let C := cov oR n p (map (map D2R) X) in
  let lams := lams_of oR n (map D2R sg) in
  let scs := scs_of oR whiten lams in
  Rabs (retained oR scs (G_of oR WR (CW_of oR C WR)) - Rsum (map D2R ev))
    <= INR (length sg) * tolR 20 * trace oR C + tolR 50 * Rsum lams.
Proof.
  cbv zeta. intros Hp He.
  destruct (hom_pca_checks D2R DQ_ops oR D2R_hom n p k whiten X mu sg W ev evr Qs invs Zs)
    as (_ & _ & _ & _ & E5 & E6 & _).
  cbv zeta in E5, E6. rewrite E5 in Hp. rewrite E6 in He.
  pose proof (reported_variance_attained_R n p k whiten (map (map D2R) X) (map D2R mu) (map D2R sg) (map (map D2R) W)
                (map D2R ev) (map D2R evr) (map (map D2R) Qs) (map (map D2R) invs) (map (map D2R) Zs) Hp He) as R.
  cbv zeta in R. rewrite map_length in R. exact R.
Qed.

(* ========================================================================================== *)
(** * Part G: the scores `predict` returned for the training rows *)
Lemma scorecov_ok_sound n T lams scs Z : scorecov_ok oR n T lams scs Z = true ->
  length Z = N.to_nat n /\ Forall (fun z => length z = length lams) Z /\
  let S := cov oR n (length lams) Z in
  forall i j, (i < length lams)%nat -> (j < length lams)%nat ->
  let s := nth j (nth i S []) 0 in
  (i = j -> Rabs (nth i scs 0 * s - nth i lams 0) <= tolR 20 * T) /\
  (i <> j -> nth i scs 0 * nth j scs 0 * (s * s) <= (tolR 20 * T) * (tolR 20 * T)).
Proof.
  unfold scorecov_ok. intros H. apply andb_true_iff in H as [H H3]. apply andb_true_iff in H as [H1 H2].
  apply N.eqb_eq in H1. split; [|split].
  - rewrite <- H1. rewrite Nnat.Nat2N.id. reflexivity.
  - apply Forall_forall. intros z Hz. rewrite forallb_forall in H2. apply Nat.eqb_eq. apply (H2 z Hz).
  - cbv zeta. intros i j Hi Hj. exact (projcov_ok_entries T lams scs _ H3 i j Hi Hj).
Qed.

(* an entry of the sample covariance is the centred cross moment of two columns divided by n-1 *)
Lemma nth_map_seq {A} (f : nat -> A) d m i : (i < m)%nat -> nth i (map f (seq 0 m)) d = f i.
Proof.
  intros Hi. rewrite (nth_indep _ d (f 0%nat)) by (rewrite map_length, seq_length; exact Hi).
  rewrite map_nth, seq_nth by exact Hi. reflexivity.
Qed.
Lemma cov_entry n m (Z : list (list R)) i j : (i < m)%nat -> (j < m)%nat ->
  let Zc := centre oR Z (emean oR (of_N oR n) (cols oR m Z)) in
  nth j (nth i (cov oR n m Z) []) 0 = Rdot (column oR i Zc) (column oR j Zc) / (INR (N.to_nat n) - 1).
Proof.
  intros Hi Hj. cbv zeta. unfold cov.
  set (Zc := centre oR Z (emean oR (of_N oR n) (cols oR m Z))).
  unfold gram, cols. rewrite map_map.
  rewrite (nth_map_seq _ [] m i Hi). rewrite map_map. rewrite (nth_map_seq _ 0 m j Hj).
  rewrite dot_Rdot. reflexivity.
Qed.

(* ========================================================================================== *)
(** * non-vacuity *)
Definition ex_full : @pca R := mkpca [[0; 1]; [1; 0]] [2; 1] [3; 4] 5.
Example ex_full_rank_premises :
  gram_identity (embedding ex_full) /\ orthogonal (embedding ex_full) /\
  Forall (fun w => length w = length (pmean ex_full)) (embedding ex_full) /\
  length (embedding ex_full) = length (pmean ex_full).
Proof.
  repeat split; simpl; auto; try lra; try (repeat constructor; lra).
  intros i j Hi Hj. simpl in Hi, Hj. destruct i as [|[|i]]; destruct j as [|[|j]]; try lia; simpl; ring.
Qed.
Example ex_full_rank_instance : inverse_row oR ex_full (predict_row oR ex_full [7; -2]) = [7; -2].
Proof.
  destruct ex_full_rank_premises as (_ & HO & FW & LW). apply full_rank_roundtrip_identity; auto.
Qed.
(* a whitened full embedding: orthogonal, not normalised *)
Definition ex_full_w : @pca R := mkpca [[0; 2]; [3; 0]] [2; 1] [3; 4] 5.
Example ex_full_rank_whitened : inverse_row oR ex_full_w (predict_row oR ex_full_w [7; -2]) = [7; -2].
Proof.
  apply full_rank_roundtrip_identity; simpl; auto; repeat split; try lra; repeat constructor; simpl; lra.
Qed.
(* with fewer than p components the identity fails: the hypothesis length W = p is needed *)
Definition ex_short : @pca R := mkpca [[1; 0]] [2] [0; 0] 5.
Example ex_short_not_identity : inverse_row oR ex_short (predict_row oR ex_short [1; 1]) <> [1; 1].
Proof. unfold inverse_row, inverse_coefs, predict_row, sq_norms, row_dot. simpl. intros E. injection E. intros. lra. Qed.

(* the optimality theorem applied to the concrete accepted fit of C18/Proofs.v (ex_checks: five records in
   the plane, covariance diag(1, 1/4), k = 1, reported variance 1): the second axis retains at most 1 + slack *)
Example ex_optimality_instance :
  retained_by (cov oR 5 2 (map (map D2R) exX)) [[0; 1]]
  <= Rsum (map D2R [exq 1]) + ky_slack 1 1 (trace oR (cov oR 5 2 (map (map D2R) exX)))
                                         (Rsum (lams_of oR 5 (map D2R [exq 2]))).
Proof.
  pose proof ex_all_conjuncts as (_ & Hs & _ & _ & Hp & He & _ & _ & _ & Hc & Hb & _ & HL).
  apply (no_projection_retains_more_variance 5 2 1 false exX [exq 0; exq 0] [exq 2] [[exq 1; exq 0]]
           [exq 1] [exq 1] exX
           (map (map (fun z => mkdq z (-1) 1)) [[2; 0]; [-2; 0]; [2; 0]; [-2; 0]; [0; 0]]%Z)
           (map (map (fun z => mkdq z (-1) 1)) [[2]; [-2]; [2]; [-2]; [0]]%Z)); auto.
  simpl. repeat split; auto; lra.
Qed.

(* scores with the wrong variance (here: doubled) are refused by the score-covariance conjunct *)
Example ex_scores_rejected :
  k_scores (pca_checks DQ_ops 5 2 1 false exX [exq 0; exq 0] [exq 2] [[exq 1; exq 0]] [exq 1] [exq 1] [] []
                       (map (map exq) [[2]; [-2]; [2]; [-2]; [0]]%Z)) = false.
Proof. vm_compute. reflexivity. Qed.
