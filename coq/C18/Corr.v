(** C18 - correspondence and property oracle.
    corr : the Gallina model of pca.rs (C18/Model.v at B64_ops, the external solver's raw output as
           oracle input) against the implementation, bit for bit; the two matrix products against an
           exact recomputation (dq) within a rounding bound.
    oracle: the verified checker (C18/Check.v at DQ_ops, exact arithmetic) on the implementation's
           output. *)
From Coq Require Import List NArith ZArith Bool Floats.
From LinfaVerif Require Export Common.Num Common.NdSum Common.Run Common.QF C18.Model C18.Check.
Import ListNotations.

Definition o64 := B64_ops.
Definition floor64 : float := 0x1.5798ee2308c3ap-27%float.    (* the f64 literal 1e-8 *)

Record case := {
  c_id : N; c_n : N; c_p : N; c_k : N; c_whiten : bool; c_colmajor : bool;
  c_X : list (list float);
  c_Q : list (list float);           (* extra query rows; predict is applied to c_X ++ c_Q *)
  c_res : N;                         (* 0 fitted, 1 NotEnoughSamples, 2 EmbeddingTooSmall, 3 other error, 4 panic *)
  c_errk : N;                        (* payload of EmbeddingTooSmall *)
  c_has_svd : bool;                  (* raw result of TruncatedSvd (seed 42) on the centred data *)
  c_svd_sigma : list float;
  c_svd_vt : list (list float);
  (* implementation outputs *)
  c_mean : list float; c_sigma : list float; c_emb : list (list float);
  c_ev : list float; c_evr : list float;
  c_pred : list (list float);        (* predict (c_X ++ c_Q) *)
  c_inv : list (list float)          (* inverse_transform c_pred *)
}.

Definition vec_eqb (a b : list float) : bool := list_eqb f64_biteq a b.
Definition mat_eqb (a b : list (list float)) : bool := list_eqb vec_eqb a b.
Definition all_finite (l : list float) : bool := forallb f64_finite l.
Definition dqv (l : list float) : list dq := map f64_dq l.
Definition dqm (l : list (list float)) : list (list dq) := map dqv l.

Definition svd_of (c : case) : list (list float) -> N -> option (list float * list (list float)) :=
  fun _ _ => if c_has_svd c then Some (c_svd_sigma c, c_svd_vt c) else None.

Definition model_fit (c : case) : fit_result :=
  fit o64 floor64 (svd_of c) (c_colmajor c) (c_whiten c) (c_n c) (c_p c) (c_k c) (c_X c).

Definition outputs_finite (c : case) : bool :=
  all_finite (c_mean c) && all_finite (c_sigma c) && forallb all_finite (c_emb c) && all_finite (c_ev c)
  && all_finite (c_evr c) && forallb all_finite (c_pred c) && forallb all_finite (c_inv c)
  && forallb all_finite (c_X c) && forallb all_finite (c_Q c).

(* ---- correspondence ---- *)
Definition corr_case (c : case) : N :=
  match model_fit c with
  | FitErrNotEnoughSamples => flag (N.eqb (c_res c) 1) 32
  | FitErrEmbeddingTooSmall k => flag (N.eqb (c_res c) 2 && N.eqb (c_errk c) k) 32
  | FitErrSolver => flag (negb (N.eqb (c_res c) 0)) 512
  | FitOk m =>
      if negb (N.eqb (c_res c) 0) then 32%N
      else
        let impl := mkpca (c_emb c) (c_sigma c) (c_mean c) (c_n c) in
        let p := N.to_nat (c_p c) in
        let fin := outputs_finite c in
        (flag (vec_eqb (pmean m) (c_mean c)) 1
         + flag (vec_eqb (sigma m) (c_sigma c)) 2
         + flag (mat_eqb (embedding m) (c_emb c)) 4
         + flag (vec_eqb (explained_variance o64 impl) (c_ev c)) 8
         + flag (vec_eqb (explained_variance_ratio o64 impl) (c_evr c)) 16
         + (if fin then
              let W := dqm (c_emb c) in
              let mu := dqv (c_mean c) in
              let cs := map (inverse_coefs o64 impl) (c_pred c) in
              flag (predict_ok DQ_ops W mu (dqm (c_X c ++ c_Q c)) (dqm (c_pred c))) 64
              + flag (forallb all_finite cs && inverse_ok DQ_ops p W mu (dqm cs) (dqm (c_inv c))) 128
            else 0))%N
  end.

(* ---- property oracle on the implementation's output ---- *)
Definition oracle_fit (c : case) : N :=
  if negb (outputs_finite c) then 4096%N
  else
    let p := N.to_nat (c_p c) in
    let X := dqm (c_X c) in
    let W := dqm (c_emb c) in
    let ks := pca_checks DQ_ops (c_n c) p (c_k c) (c_whiten c) X (dqv (c_mean c)) (dqv (c_sigma c)) W
                         (dqv (c_ev c)) (dqv (c_evr c)) (dqm (c_X c ++ c_Q c)) (dqm (c_inv c))
                         (dqm (firstn (length (c_X c)) (c_pred c))) in
    let full := N.eqb (N.of_nat (length (c_sigma c))) (c_k c) in
    (flag (k_mean ks) 1 + flag (k_shape ks) 2 + flag (k_sigma ks) 4 + flag (k_orth ks) 8
     + flag (k_projcov ks) (if c_whiten c then 32 else 16)
     + flag (k_ev ks) 64 + flag (k_ratio ks) 128 + flag (k_roundtrip ks) 256
     + flag (k_scores ks) 16384
     + (if k_shape ks && k_resid ks
        then flag (k_coefs ks && lead_psd p (k_T ks) (k_M ks) && k_bound ks) (if full then 1024 else 2048)
        else flag (k_resid ks) 512))%N.

Definition oracle_case (c : case) : N :=
  match c_res c with
  | 0%N =>
      (* a fit came back: the request must have been admissible, and the model must satisfy the checker *)
      if N.eqb (c_n c) 0 || N.ltb (c_p c) (c_k c) || N.eqb (c_k c) 0 then 8192%N else oracle_fit c
  | 1%N | 2%N =>
      (* an error: fine exactly when the dataset is empty or the size is outside 1..p
         (errors on admissible input are reported by the harness itself, bit 2^22) *)
      flag (N.eqb (c_n c) 0 || N.ltb (c_p c) (c_k c) || N.eqb (c_k c) 0) 8192
  | _ => 8192%N
  end.

Definition run_case (c : case) : verdict := (c_id c, (corr_case c, oracle_case c)).
Definition run_cases (cs : list case) : list N := report (map run_case cs).
