(** C18 - executable model of linfa-reduction `pca.rs` (the glue around the external solver):
    `PcaParams::fit` (guards, mean_axis(0), centring, sigma floor 1e-8, whitening scale),
    `Pca::{explained_variance, explained_variance_ratio, inverse_transform}` and
    `PredictInplace::predict_inplace`.  Polymorphic in NumOps: run with B64_ops against the Rust
    f64 implementation bit for bit (everything except the two matrix products), evaluated in exact
    arithmetic with DQ_ops (C18/Check.v), reasoned about with R_ops.
    `linfa_linalg::lobpcg::TruncatedSvd` (LOBPCG) is external: it enters as the function [svd]. *)
From Coq Require Import List NArith Bool.
From LinfaVerif Require Import Common.Num Common.NdSum.
Import ListNotations.

Section PCA.
Context {F : Type} (o : NumOps F).
Notation "a + b" := (add o a b).
Notation "a - b" := (sub o a b).
Notation "a * b" := (mul o a b).
Notation "a / b" := (div o a b).

Definition vec := list F.
Definition mat := list (list F).

Fixpoint map2 {A B C} (f : A -> B -> C) (a : list A) (b : list B) : list C :=
  match a, b with
  | x :: a', y :: b' => f x y :: map2 f a' b'
  | _, _ => []
  end.

Definition vadd (a b : vec) : vec := map2 (add o) a b.
Definition vsub (a b : vec) : vec := map2 (sub o) a b.
Definition column (j : nat) (X : mat) : vec := map (fun r => nth j r (zero o)) X.

Fixpoint dot (a b : vec) : F :=
  match a, b with
  | x :: a', y :: b' => x * y + dot a' b'
  | _, _ => zero o
  end.

(* ndarray `sum_axis(Axis(0))`: when axis 0 is not the axis of smallest stride (C layout) the rows
   are added one after the other to a zero vector; when it is (Fortran layout, n > 1) every column
   lane is summed with `.sum()` = unrolled_fold *)
Definition colsum_rows (p : nat) (X : mat) : vec := fold_left vadd X (repeat (zero o) p).
Definition colsum_lanes (p : nat) (X : mat) : vec := map (fun j => usum o (column j X)) (seq 0 p).

(* `mean_axis(Axis(0))` = sum_axis / n *)
Definition mean_axis0 (colmajor : bool) (n : N) (p : nat) (X : mat) : vec :=
  map (fun s => s / of_N o n) (if colmajor then colsum_lanes p X else colsum_rows p X).

Definition centre (X : mat) (mu : vec) : mat := map (fun r => vsub r mu) X.

(* f64::max(x, c): the other operand when one is NaN *)
Definition fmax (x c : F) : F := if ltb o x c then c else if eqb o x x then x else c.

(* `for (mut v_t, sigma) in v_t.axis_iter_mut(Axis(0)).zip(sigma.iter()) { v_t *= cov_scale / *sigma }` *)
Fixpoint whiten_rows (cov_scale : F) (vt : mat) (sigma : vec) : mat :=
  match vt, sigma with
  | row :: vt', s :: sigma' => map (fun v => v * (cov_scale / s)) row :: whiten_rows cov_scale vt' sigma'
  | _, _ => vt
  end.

Record pca := mkpca { embedding : mat; sigma : vec; pmean : vec; nsamples : N }.

Inductive fit_result :=
| FitErrNotEnoughSamples
| FitErrEmbeddingTooSmall (k : N)
| FitErrSolver
| FitOk (m : pca).

(* [floor] is the constant 1e-8 of the instance; [svd] the external truncated SVD returning the
   singular values (sorted, filtered) and the right singular vectors as rows *)
Definition fit (floor : F) (svd : mat -> N -> option (vec * mat))
           (colmajor whiten : bool) (n p k : N) (X : mat) : fit_result :=
  if N.eqb n 0 then FitErrNotEnoughSamples
  else if N.ltb p k || N.eqb k 0 then FitErrEmbeddingTooSmall k
  else
    let mu := mean_axis0 colmajor n (N.to_nat p) X in
    let Xc := centre X mu in
    match svd Xc k with
    | None => FitErrSolver
    | Some (s, vt) =>
        let s' := map (fun x => fmax x floor) s in
        let emb := if whiten then whiten_rows (sqrt o (of_N o n - one o)) vt s' else vt in
        FitOk (mkpca emb s' mu n)
    end.

(* accessors; the divisor is n_samples - 1 (the repaired code; the snapshot divided by sigma.len() - 1) *)
Definition explained_variance (m : pca) : vec :=
  map (fun x => x * x / (of_N o (nsamples m) - one o)) (sigma m).
Definition explained_variance_ratio (m : pca) : vec :=
  let ev := explained_variance m in
  let s := usum o ev in
  map (fun e => e / s) ev.

(* predict: (records - mean) . embedding^T *)
Definition predict_row (m : pca) (x : vec) : vec := map (fun w => dot (vsub x (pmean m)) w) (embedding m).
Definition predict (m : pca) (Q : mat) : mat := map (predict_row m) Q.

(* inverse_transform: (prediction / squared row norms of the embedding) . embedding + mean
   (the repaired code; the snapshot did not divide, which is wrong for a whitened embedding).
   `row.dot(&row)` on a row of the embedding: the embedding is the transpose view of a C-layout
   p x m matrix, so its rows are contiguous only when m = 1 (then `unrolled_dot`, the 8-lane
   order of `usum`); otherwise ndarray's plain loop `sum = sum + x*y` *)
Fixpoint lincomb (p : nat) (c : vec) (W : mat) : vec :=
  match c, W with
  | ci :: c', w :: W' => vadd (map (fun v => ci * v) w) (lincomb p c' W')
  | _, _ => repeat (zero o) p
  end.
Definition row_dot (contiguous : bool) (a b : vec) : F :=
  let prods := map2 (mul o) a b in
  if contiguous then usum o prods else seq_sum o prods.
Definition sq_norms (W : mat) : vec := map (fun w => row_dot (Nat.eqb (length W) 1) w w) W.
Definition inverse_coefs (m : pca) (z : vec) : vec := map2 (div o) z (sq_norms (embedding m)).
Definition inverse_row (m : pca) (z : vec) : vec :=
  vadd (lincomb (length (pmean m)) (inverse_coefs m z) (embedding m)) (pmean m).
Definition inverse_transform (m : pca) (Z : mat) : mat := map (inverse_row m) Z.

End PCA.
