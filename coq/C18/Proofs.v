(** C18 - lemmas.
    Part A: [dq] arithmetic is exact: D2R is a homomorphism DQ_ops -> R_ops.
    Part B: every conjunct of the checker commutes with a NumOps homomorphism, so what vm_compute
            evaluates at DQ_ops is the real-number checker on the embedded data.
    Part C: meaning of the conjuncts over R; the deflation certificate; the Ky Fan bound.
    Part D: pattern A theorems about the model of pca.rs (guards, whitening, round trip, ratios). *)
From Coq Require Import ZArith NArith QArith Qreals Reals List Bool Lia Lra Floats Psatz.
From Flocq Require Import Core.
From LinfaVerif Require Import Common.Num Common.NdSum Common.QF Common.LDL C18.Model C18.Check.
Import ListNotations.
Local Open Scope R_scope.

(* ========================================================================================== *)
(** * Part A: dq is exact *)
Definition D2R (a : dq) : R := IZR (dm a) * bpow radix2 (de a) / IZR (Zpos (dd a)).

Lemma IZR_pos_neq0 p : IZR (Zpos p) <> 0.
Proof. apply not_0_IZR. discriminate. Qed.
Lemma IZR_pos_gt0 p : 0 < IZR (Zpos p).
Proof. apply IZR_lt. reflexivity. Qed.

Lemma shiftl_IZR m k : (0 <= k)%Z -> IZR (Z.shiftl m k) = IZR m * bpow radix2 k.
Proof.
  intros Hk. rewrite Z.shiftl_mul_pow2 by exact Hk. rewrite mult_IZR.
  f_equal. change 2%Z with (radix_val radix2). apply IZR_Zpower. exact Hk.
Qed.

Lemma align_spec m1 e1 m2 e2 x y e : align m1 e1 m2 e2 = (x, y, e) ->
  IZR x * bpow radix2 e = IZR m1 * bpow radix2 e1 /\ IZR y * bpow radix2 e = IZR m2 * bpow radix2 e2.
Proof.
  unfold align. destruct (Z.leb e1 e2) eqn:E; intros H; inversion H; subst; clear H.
  - apply Z.leb_le in E. split; auto.
    rewrite shiftl_IZR by lia. rewrite Rmult_assoc, <- bpow_plus. f_equal. f_equal. lia.
  - apply Z.leb_gt in E. split; auto.
    rewrite shiftl_IZR by lia. rewrite Rmult_assoc, <- bpow_plus. f_equal. f_equal. lia.
Qed.

Lemma D2R_add a b : D2R (dq_add a b) = D2R a + D2R b.
Proof.
  unfold dq_add, D2R. destruct a as [m1 e1 d1], b as [m2 e2 d2]; simpl.
  destruct (Pos.eqb d1 d2) eqn:Ed.
  - apply Pos.eqb_eq in Ed. subst d2.
    destruct (align m1 e1 m2 e2) as [[x y] e] eqn:Ea. simpl.
    destruct (align_spec _ _ _ _ _ _ _ Ea) as [H1 H2].
    rewrite plus_IZR, <- H1, <- H2. field. apply IZR_pos_neq0.
  - destruct (align (m1 * Zpos d2) e1 (m2 * Zpos d1) e2) as [[x y] e] eqn:Ea. simpl.
    destruct (align_spec _ _ _ _ _ _ _ Ea) as [H1 H2].
    rewrite plus_IZR, Pos2Z.inj_mul, mult_IZR.
    rewrite Rmult_plus_distr_r, H1, H2, !mult_IZR. field.
    split; apply IZR_pos_neq0.
Qed.
Lemma D2R_opp a : D2R (dq_opp a) = - D2R a.
Proof. unfold dq_opp, D2R; simpl. rewrite opp_IZR. field. apply IZR_pos_neq0. Qed.
Lemma D2R_sub a b : D2R (dq_sub a b) = D2R a - D2R b.
Proof. unfold dq_sub. rewrite D2R_add, D2R_opp. ring. Qed.
Lemma D2R_mul a b : D2R (dq_mul a b) = D2R a * D2R b.
Proof.
  destruct a as [m1 e1 d1], b as [m2 e2 d2]. unfold dq_mul, D2R; cbn [dm de dd].
  rewrite mult_IZR, bpow_plus, Pos2Z.inj_mul, mult_IZR. field.
  split; apply IZR_pos_neq0.
Qed.
Lemma D2R_abs a : D2R (dq_abs a) = Rabs (D2R a).
Proof.
  unfold dq_abs, D2R; simpl. rewrite abs_IZR.
  unfold Rdiv. rewrite !Rabs_mult. rewrite (Rabs_pos_eq (bpow radix2 (de a))) by apply bpow_ge_0.
  rewrite (Rabs_pos_eq (/ _)); auto. left. apply Rinv_0_lt_compat, IZR_pos_gt0.
Qed.
Lemma D2R_div a b : D2R (dq_div a b) = D2R a / D2R b.
Proof.
  unfold dq_div, D2R. destruct a as [m1 e1 d1], b as [m2 e2 d2]; simpl.
  assert (Hb : forall e, bpow radix2 e <> 0) by (intros e; apply Rgt_not_eq, bpow_gt_0).
  destruct m2 as [|q|q]; cbn [dm de dd].
  - simpl. unfold Rdiv. rewrite !Rmult_0_l, Rinv_0. ring.
  - rewrite mult_IZR, Pos2Z.inj_mul, mult_IZR.
    unfold Zminus. rewrite bpow_plus, bpow_opp. field.
    repeat split; try apply IZR_pos_neq0; apply Hb.
  - rewrite opp_IZR, mult_IZR, Pos2Z.inj_mul, mult_IZR.
    change (Zneg q) with (- Zpos q)%Z. rewrite opp_IZR.
    unfold Zminus. rewrite bpow_plus, bpow_opp. field.
    repeat split; try apply IZR_pos_neq0; apply Hb.
Qed.
Lemma D2R_ofN n : D2R (dq_of_N n) = INR (N.to_nat n).
Proof.
  unfold dq_of_N, D2R; simpl. rewrite INR_IZR_INZ, N_nat_Z. field.
Qed.

Lemma dq_cmp_spec a b :
  match dq_cmp a b with
  | Lt => D2R a < D2R b
  | Eq => D2R a = D2R b
  | Gt => D2R b < D2R a
  end.
Proof.
  unfold dq_cmp. destruct a as [m1 e1 d1], b as [m2 e2 d2]; simpl.
  destruct (align (m1 * Zpos d2) e1 (m2 * Zpos d1) e2) as [[x y] e] eqn:Ea.
  destruct (align_spec _ _ _ _ _ _ _ Ea) as [H1 H2].
  rewrite !mult_IZR in H1, H2.
  assert (P1 := IZR_pos_gt0 d1). assert (P2 := IZR_pos_gt0 d2). assert (Pe := bpow_gt_0 radix2 e).
  assert (K : forall u v, u * bpow radix2 e = v -> u = v / bpow radix2 e) by (intros u v <-; field; lra).
  assert (Ka : D2R (mkdq m1 e1 d1) = IZR x * bpow radix2 e / (IZR (Zpos d1) * IZR (Zpos d2))).
  { unfold D2R; simpl. rewrite H1. field. lra. }
  assert (Kb : D2R (mkdq m2 e2 d2) = IZR y * bpow radix2 e / (IZR (Zpos d1) * IZR (Zpos d2))).
  { unfold D2R; simpl. rewrite H2. field. lra. }
  fold (D2R (mkdq m1 e1 d1)). fold (D2R (mkdq m2 e2 d2)). rewrite Ka, Kb.
  assert (Pd : 0 < / (IZR (Zpos d1) * IZR (Zpos d2))) by (apply Rinv_0_lt_compat; nra).
  unfold Rdiv.
  destruct (Z.compare_spec x y) as [E|L|G].
  - subst. reflexivity.
  - apply IZR_lt in L. apply Rmult_lt_compat_r; [exact Pd|]. apply Rmult_lt_compat_r; [exact Pe|exact L].
  - apply IZR_lt in G. apply Rmult_lt_compat_r; [exact Pd|]. apply Rmult_lt_compat_r; [exact Pe|exact G].
Qed.

Lemma dq_leb_R a b : dq_leb a b = Rleb (D2R a) (D2R b).
Proof.
  unfold dq_leb. pose proof (dq_cmp_spec a b) as H. symmetry.
  destruct (dq_cmp a b); [apply Rleb_true; lra | apply Rleb_true; lra | apply Rleb_false; lra].
Qed.
Lemma dq_ltb_R a b : dq_ltb a b = Rltb (D2R a) (D2R b).
Proof.
  unfold dq_ltb. pose proof (dq_cmp_spec a b) as H. symmetry.
  destruct (dq_cmp a b); [apply Rltb_false; lra | apply Rltb_true; lra | apply Rltb_false; lra].
Qed.

(* ========================================================================================== *)
(** * Part B: the checker commutes with NumOps homomorphisms *)
Record hom {A B : Type} (f : A -> B) (oa : NumOps A) (ob : NumOps B) : Prop := mkhom {
  h_zero : f (zero oa) = zero ob;
  h_one : f (one oa) = one ob;
  h_add : forall a b, f (add oa a b) = add ob (f a) (f b);
  h_sub : forall a b, f (sub oa a b) = sub ob (f a) (f b);
  h_mul : forall a b, f (mul oa a b) = mul ob (f a) (f b);
  h_div : forall a b, f (div oa a b) = div ob (f a) (f b);
  h_abs : forall a, f (abs oa a) = abs ob (f a);
  h_leb : forall a b, leb oa a b = leb ob (f a) (f b);
  h_ltb : forall a b, ltb oa a b = ltb ob (f a) (f b);
  h_ofN : forall n, f (of_N oa n) = of_N ob n
}.

Lemma D2R_hom : hom D2R DQ_ops R_ops.
Proof.
  constructor; simpl.
  - unfold D2R; simpl. lra.
  - unfold D2R; simpl. lra.
  - exact D2R_add.
  - exact D2R_sub.
  - exact D2R_mul.
  - exact D2R_div.
  - exact D2R_abs.
  - exact dq_leb_R.
  - exact dq_ltb_R.
  - exact D2R_ofN.
Qed.

Lemma forallb_ext_in {A} (g g' : A -> bool) l : (forall x, In x l -> g x = g' x) -> forallb g l = forallb g' l.
Proof.
  induction l as [|a l IH]; intros H; simpl; auto.
  rewrite H by (left; auto). rewrite IH; auto. intros x Hx. apply H. right; auto.
Qed.
Lemma forallb_map {A B} (h : A -> B) (g : B -> bool) l : forallb g (map h l) = forallb (fun x => g (h x)) l.
Proof. induction l as [|a l IH]; simpl; auto. rewrite IH. reflexivity. Qed.
Lemma combine_map {A B A' B'} (h1 : A -> A') (h2 : B -> B') a : forall b,
  combine (map h1 a) (map h2 b) = map (fun xy => (h1 (fst xy), h2 (snd xy))) (combine a b).
Proof. induction a as [|x a IH]; intros [|y b]; simpl; auto. rewrite IH. reflexivity. Qed.
Lemma map_map2 {A1 A2 A B1 B2 B} (f : A -> B) (h1 : A1 -> B1) (h2 : A2 -> B2)
      (g : A1 -> A2 -> A) (g' : B1 -> B2 -> B) :
  (forall x y, f (g x y) = g' (h1 x) (h2 y)) ->
  forall a b, map f (map2 g a b) = map2 g' (map h1 a) (map h2 b).
Proof. intros H. induction a as [|x a IH]; intros [|y b]; simpl; auto. rewrite H, IH. reflexivity. Qed.
Lemma map_repeat' {A B} (h : A -> B) x n : map h (repeat x n) = repeat (h x) n.
Proof. induction n; simpl; congruence. Qed.
Lemma map2_length {A B C} (g : A -> B -> C) a : forall b, length a = length b -> length (map2 g a b) = length a.
Proof. induction a as [|x a IH]; intros [|y b] H; simpl in *; try discriminate; auto. Qed.

Section Hom.
Context {A B : Type} (f : A -> B) (oa : NumOps A) (ob : NumOps B) (H : hom f oa ob).
Notation fv := (map f).
Notation fm := (map (map f)).

Ltac hs := repeat (rewrite (h_add _ _ _ H) || rewrite (h_sub _ _ _ H) || rewrite (h_mul _ _ _ H)
                   || rewrite (h_div _ _ _ H) || rewrite (h_abs _ _ _ H) || rewrite (h_zero _ _ _ H)
                   || rewrite (h_one _ _ _ H) || rewrite (h_ofN _ _ _ H)).

Lemma hom_dot a : forall b, f (dot oa a b) = dot ob (fv a) (fv b).
Proof. induction a as [|x a IH]; intros [|y b]; simpl; try apply (h_zero _ _ _ H). hs. rewrite IH. reflexivity. Qed.
Lemma hom_ssum l : f (ssum oa l) = ssum ob (fv l).
Proof. induction l as [|x l IH]; simpl; [apply (h_zero _ _ _ H)|]. hs. rewrite IH. reflexivity. Qed.
Lemma hom_mapabs l : fv (map (abs oa) l) = map (abs ob) (fv l).
Proof. rewrite !map_map. apply map_ext. intros a. apply (h_abs _ _ _ H). Qed.
Lemma hom_sumabs l : f (sumabs oa l) = sumabs ob (fv l).
Proof. unfold sumabs. rewrite hom_ssum, hom_mapabs. reflexivity. Qed.
Lemma hom_absle x t : absle oa x t = absle ob (f x) (f t).
Proof. unfold absle. rewrite (h_leb _ _ _ H). hs. reflexivity. Qed.
Lemma hom_tolp e : f (tolp oa e) = tolp ob e.
Proof. unfold tolp. hs. reflexivity. Qed.
Lemma hom_nthv i l : f (nthv oa i l) = nthv ob i (fv l).
Proof. unfold nthv. rewrite <- (h_zero _ _ _ H). symmetry. apply map_nth. Qed.
Lemma hom_nthr i (M : list (list A)) : fv (nthr i M) = nthr i (fm M).
Proof. unfold nthr. change (@nil B) with (fv []). symmetry. apply map_nth. Qed.
Lemma hom_delta i j x : f (delta oa i j x) = delta ob i j (f x).
Proof. unfold delta. destruct (Nat.eqb i j); auto. apply (h_zero _ _ _ H). Qed.
Lemma hom_vsub a b : fv (vsub oa a b) = vsub ob (fv a) (fv b).
Proof. unfold vsub. apply map_map2. apply (h_sub _ _ _ H). Qed.
Lemma hom_vadd a b : fv (vadd oa a b) = vadd ob (fv a) (fv b).
Proof. unfold vadd. apply map_map2. apply (h_add _ _ _ H). Qed.
Lemma hom_column j (X : list (list A)) : fv (column oa j X) = column ob j (fm X).
Proof.
  unfold column. rewrite !map_map. apply map_ext. intros r.
  rewrite <- (h_zero _ _ _ H). symmetry. apply map_nth.
Qed.
Lemma hom_cols p (X : list (list A)) : fm (cols oa p X) = cols ob p (fm X).
Proof. unfold cols. rewrite map_map. apply map_ext. intros j. apply hom_column. Qed.
Lemma hom_emean nF cs : fv (emean oa nF cs) = emean ob (f nF) (fm cs).
Proof. unfold emean. rewrite !map_map. apply map_ext. intros c. hs. rewrite hom_ssum. reflexivity. Qed.
Lemma hom_centre X mu : fm (centre oa X mu) = centre ob (fm X) (fv mu).
Proof. unfold centre. rewrite !map_map. apply map_ext. intros r. apply hom_vsub. Qed.
Lemma hom_gram n1 cs : fm (gram oa n1 cs) = gram ob (f n1) (fm cs).
Proof.
  unfold gram. rewrite !map_map. apply map_ext. intros ca.
  rewrite !map_map. apply map_ext. intros cb. hs. rewrite hom_dot. reflexivity.
Qed.
Lemma hom_cov n p X : fm (cov oa n p X) = cov ob n p (fm X).
Proof. unfold cov. rewrite hom_gram, hom_cols, hom_centre, hom_emean, hom_cols. hs. reflexivity. Qed.
Lemma hom_trace C : f (trace oa C) = trace ob (fm C).
Proof.
  unfold trace. rewrite hom_ssum, map_map, map_length. f_equal. apply map_ext. intros i.
  rewrite hom_nthv, hom_nthr. reflexivity.
Qed.
Lemma hom_lams n sg : fv (lams_of oa n sg) = lams_of ob n (fv sg).
Proof. unfold lams_of, lam. rewrite !map_map. apply map_ext. intros s. hs. reflexivity. Qed.
Lemma hom_scs w lams : fv (scs_of oa w lams) = scs_of ob w (fv lams).
Proof. unfold scs_of. rewrite !map_map. apply map_ext. intros l. destruct w; auto. apply (h_one _ _ _ H). Qed.
Lemma hom_CW C W : fm (CW_of oa C W) = CW_of ob (fm C) (fm W).
Proof.
  unfold CW_of. rewrite !map_map. apply map_ext. intros w.
  rewrite !map_map. apply map_ext. intros r. apply hom_dot.
Qed.
Lemma hom_G W CW : fm (G_of oa W CW) = G_of ob (fm W) (fm CW).
Proof.
  unfold G_of. rewrite !map_map. apply map_ext. intros w.
  rewrite !map_map. apply map_ext. intros r. apply hom_dot.
Qed.
Lemma hom_lincomb p c : forall W, fv (lincomb oa p c W) = lincomb ob p (fv c) (fm W).
Proof.
  induction c as [|ci c IH]; intros [|w W]; cbn [lincomb map];
    try (rewrite map_repeat'; rewrite (h_zero _ _ _ H); reflexivity).
  rewrite hom_vadd, IH. f_equal. rewrite !map_map. apply map_ext. intros v. apply (h_mul _ _ _ H).
Qed.

(* boolean conjuncts *)
Lemma hom_mean_ok n p X mu : mean_ok oa n p X mu = mean_ok ob n p (fm X) (fv mu).
Proof.
  unfold mean_ok. rewrite map_length. f_equal.
  rewrite <- hom_cols, combine_map, forallb_map. apply forallb_ext_in. intros [m c] _. simpl.
  rewrite hom_absle. hs. rewrite hom_ssum, hom_sumabs. unfold tol_sum. rewrite hom_tolp. reflexivity.
Qed.
Lemma hom_shape_ok p k sg (W : list (list A)) : shape_ok p k sg W = shape_ok p k (fv sg) (fm W).
Proof.
  unfold shape_ok. rewrite !map_length. f_equal. rewrite forallb_map. apply forallb_ext_in.
  intros w _. rewrite map_length. reflexivity.
Qed.
Lemma hom_nonincr l : nonincr oa l = nonincr ob (fv l).
Proof.
  induction l as [|a l IH]; simpl; auto. destruct l as [|b l]; simpl; auto.
  simpl in IH. rewrite IH. rewrite (h_leb _ _ _ H). reflexivity.
Qed.
Lemma hom_sigma_ok sg : sigma_ok oa sg = sigma_ok ob (fv sg).
Proof.
  unfold sigma_ok. rewrite hom_nonincr, forallb_map. f_equal. apply forallb_ext_in. intros s _.
  rewrite (h_ltb _ _ _ H). hs. reflexivity.
Qed.
Lemma hom_orth_ok scs W : orth_ok oa scs W = orth_ok ob (fv scs) (fm W).
Proof.
  unfold orth_ok. rewrite map_length. apply forallb_ext_in. intros i _. apply forallb_ext_in. intros j _.
  cbv zeta. destruct (Nat.eqb i j).
  - rewrite hom_absle. hs. rewrite hom_nthv, hom_dot, !hom_nthr. unfold d_orth. rewrite hom_tolp. reflexivity.
  - rewrite (h_leb _ _ _ H). hs. rewrite !hom_nthv, hom_dot, !hom_nthr. unfold d_orth. rewrite hom_tolp. reflexivity.
Qed.
Lemma hom_projcov_ok T lams scs G : projcov_ok oa T lams scs G = projcov_ok ob (f T) (fv lams) (fv scs) (fm G).
Proof.
  unfold projcov_ok. rewrite map_length. apply forallb_ext_in. intros i _. apply forallb_ext_in. intros j _.
  cbv zeta. destruct (Nat.eqb i j).
  - rewrite hom_absle. hs. rewrite !hom_nthv, hom_nthr. unfold d_orth. rewrite hom_tolp. reflexivity.
  - rewrite (h_leb _ _ _ H). hs. rewrite !hom_nthv, hom_nthr. unfold d_orth. rewrite hom_tolp. reflexivity.
Qed.
Lemma hom_ev_ok lams ev : ev_ok oa lams ev = ev_ok ob (fv lams) (fv ev).
Proof.
  unfold ev_ok. rewrite !map_length. f_equal. rewrite combine_map, forallb_map. apply forallb_ext_in.
  intros [e l] _. simpl. rewrite hom_absle. hs. unfold tol_acc. rewrite hom_tolp. reflexivity.
Qed.
Lemma hom_ratio_ok ev evr : ratio_ok oa ev evr = ratio_ok ob (fv ev) (fv evr).
Proof.
  unfold ratio_ok. rewrite !map_length. f_equal; [f_equal|].
  - rewrite combine_map, forallb_map. apply forallb_ext_in. intros [r e] _. simpl.
    rewrite (h_leb _ _ _ H), hom_absle. hs. rewrite hom_ssum. unfold tol_sum. rewrite hom_tolp. reflexivity.
  - f_equal. rewrite hom_absle. hs. rewrite hom_ssum. unfold tol_sum. rewrite hom_tolp. reflexivity.
Qed.
Lemma hom_proj_coefs scs W d : fv (proj_coefs oa scs W d) = proj_coefs ob (fv scs) (fm W) (fv d).
Proof. unfold proj_coefs. apply map_map2. intros sc w. hs. rewrite hom_dot. reflexivity. Qed.
Lemma hom_projection p scs W mu x :
  fv (projection oa p scs W mu x) = projection ob p (fv scs) (fm W) (fv mu) (fv x).
Proof. unfold projection. rewrite hom_vadd, hom_lincomb, hom_proj_coefs, hom_vsub. reflexivity. Qed.
Lemma hom_close_rows t a b mu : close_rows oa t a b mu = close_rows ob (f t) (fv a) (fv b) (fv mu).
Proof.
  unfold close_rows. rewrite !combine_map, forallb_map. apply forallb_ext_in. intros [[x y] m] _. simpl.
  rewrite hom_absle. hs. unfold d_rt. rewrite hom_tolp. reflexivity.
Qed.
Lemma hom_roundtrip_row_ok p scs W mu x inv :
  roundtrip_row_ok oa p scs W mu x inv = roundtrip_row_ok ob p (fv scs) (fm W) (fv mu) (fv x) (fv inv).
Proof.
  unfold roundtrip_row_ok. cbv zeta. rewrite !map_length, !hom_close_rows, hom_projection, hom_sumabs, hom_vsub.
  reflexivity.
Qed.
Lemma hom_roundtrip_ok p scs W mu Qs invs :
  roundtrip_ok oa p scs W mu Qs invs = roundtrip_ok ob p (fv scs) (fm W) (fv mu) (fm Qs) (fm invs).
Proof.
  unfold roundtrip_ok. rewrite !map_length. f_equal. rewrite combine_map, forallb_map.
  apply forallb_ext_in. intros [x i] _. simpl. apply hom_roundtrip_row_ok.
Qed.
Lemma hom_resid_ok T lams W CW : resid_ok oa T lams W CW = resid_ok ob (f T) (fv lams) (fm W) (fm CW).
Proof.
  unfold resid_ok. rewrite !combine_map, forallb_map. apply forallb_ext_in. intros [[l w] cw] _. simpl.
  rewrite combine_map, forallb_map. apply forallb_ext_in. intros [c v] _. simpl.
  rewrite hom_absle. hs. rewrite hom_sumabs. unfold d_res. rewrite hom_tolp. reflexivity.
Qed.
Lemma hom_cutoff : f (cutoff oa) = cutoff ob.
Proof. unfold cutoff. hs. reflexivity. Qed.
Lemma hom_last l : f (last l (zero oa)) = last (fv l) (zero ob).
Proof.
  induction l as [|a l IH]; simpl; [apply (h_zero _ _ _ H)|].
  destruct l; simpl in *; auto.
Qed.
Lemma hom_mu0 k lams : f (mu0_of oa k lams) = mu0_of ob k (fv lams).
Proof.
  unfold mu0_of. rewrite map_length. destruct (N.eqb _ k).
  - apply hom_last.
  - hs. rewrite hom_cutoff. f_equal. destruct lams; simpl; auto. apply (h_zero _ _ _ H).
Qed.
Lemma hom_coefs mu0 lams scs : fv (coefs_of oa mu0 lams scs) = coefs_of ob (f mu0) (fv lams) (fv scs).
Proof. unfold coefs_of. apply map_map2. intros l sc. hs. reflexivity. Qed.
Lemma hom_coefs_ok cf : coefs_ok oa cf = coefs_ok ob (fv cf).
Proof.
  unfold coefs_ok. rewrite forallb_map. apply forallb_ext_in. intros c _.
  rewrite (h_leb _ _ _ H). hs. reflexivity.
Qed.
Lemma hom_madd M N : fm (madd oa M N) = madd ob (fm M) (fm N).
Proof. unfold madd. apply map_map2. intros r s. apply map_map2. apply (h_add _ _ _ H). Qed.
Lemma hom_msub M N : fm (msub oa M N) = msub ob (fm M) (fm N).
Proof. unfold msub. apply map_map2. intros r s. apply map_map2. apply (h_sub _ _ _ H). Qed.
Lemma hom_mscale c M : fm (mscale oa c M) = mscale ob (f c) (fm M).
Proof.
  unfold mscale. rewrite !map_map. apply map_ext. intros r. rewrite !map_map. apply map_ext.
  intros v. apply (h_mul _ _ _ H).
Qed.
Lemma hom_outer w : fm (outer oa w) = outer ob (fv w).
Proof.
  unfold outer. rewrite !map_map. apply map_ext. intros a. rewrite !map_map. apply map_ext.
  intros b. apply (h_mul _ _ _ H).
Qed.
Lemma hom_ident n s : fm (ident oa n s) = ident ob n (f s).
Proof.
  induction n as [|n IH]; simpl; auto. rewrite map_repeat', (h_zero _ _ _ H). f_equal.
  rewrite <- IH. rewrite !map_map. apply map_ext. intros r. simpl. rewrite (h_zero _ _ _ H). reflexivity.
Qed.
Lemma hom_zeros p : fm (zeros oa p) = zeros ob p.
Proof. unfold zeros. rewrite !map_repeat', (h_zero _ _ _ H). reflexivity. Qed.
Lemma hom_rank1 p cf : forall W, fm (rank1 oa p cf W) = rank1 ob p (fv cf) (fm W).
Proof.
  induction cf as [|c cf IH]; intros [|w W]; cbn [rank1 map]; try apply hom_zeros.
  rewrite hom_madd, hom_mscale, hom_outer, IH. reflexivity.
Qed.
Lemma hom_Mlead p C shift cf W : fm (Mlead oa p C shift cf W) = Mlead ob p (fm C) (f shift) (fv cf) (fm W).
Proof. unfold Mlead. rewrite hom_madd, hom_msub, hom_ident, hom_rank1. reflexivity. Qed.
Lemma hom_dom_rec n d g : forall D, dom_rec oa n d g D = dom_rec ob n (f d) (f g) (fm D).
Proof.
  induction n as [|n IH]; intros [|[|a b] rows]; simpl; auto.
  rewrite !map_length, (h_leb _ _ _ H), IH.
  repeat f_equal.
  - rewrite forallb_map. apply forallb_ext_in. intros v _. rewrite (h_leb _ _ _ H). hs. reflexivity.
  - rewrite forallb_map. apply forallb_ext_in. intros [|c t] _; auto. simpl.
    rewrite map_length, (h_leb _ _ _ H). hs. reflexivity.
  - rewrite !map_map. apply map_ext. intros [|c t]; reflexivity.
Qed.
Lemma hom_dom_ok p g D : dom_ok oa p g D = dom_ok ob p (f g) (fm D).
Proof. unfold dom_ok. rewrite (h_leb _ _ _ H), hom_dom_rec. hs. reflexivity. Qed.
Lemma hom_kyfan_bound k shift cf W : f (kyfan_bound oa k shift cf W) = kyfan_bound ob k (f shift) (fv cf) (fm W).
Proof.
  unfold kyfan_bound. hs. rewrite hom_ssum. f_equal. f_equal. apply map_map2. intros c w. hs.
  rewrite hom_dot. reflexivity.
Qed.
Lemma hom_retained scs G : f (retained oa scs G) = retained ob (fv scs) (fm G).
Proof.
  unfold retained. rewrite hom_ssum, map_map, map_length. f_equal. apply map_ext. intros i. hs.
  rewrite !hom_nthv, hom_nthr. reflexivity.
Qed.
Lemma hom_bound_ok k T mu0 shift cf scs W G :
  bound_ok oa k T mu0 shift cf scs W G = bound_ok ob k (f T) (f mu0) (f shift) (fv cf) (fv scs) (fm W) (fm G).
Proof.
  unfold bound_ok. rewrite (h_leb _ _ _ H). hs. rewrite hom_kyfan_bound, hom_retained, map_length.
  unfold d_lead, d_small. rewrite !hom_tolp. reflexivity.
Qed.

Lemma hom_scorecov_ok n T lams scs Z :
  scorecov_ok oa n T lams scs Z = scorecov_ok ob n (f T) (fv lams) (fv scs) (fm Z).
Proof.
  unfold scorecov_ok. rewrite hom_projcov_ok, hom_cov, !map_length. f_equal. f_equal.
  rewrite forallb_map. apply forallb_ext_in. intros z _. rewrite map_length. reflexivity.
Qed.

(** the whole record: booleans agree, trace and certificate matrix are the images *)
Theorem hom_pca_checks n p k whiten X mu sg W ev evr Qs invs Zs :
  let ka := pca_checks oa n p k whiten X mu sg W ev evr Qs invs Zs in
  let kb := pca_checks ob n p k whiten (fm X) (fv mu) (fv sg) (fm W) (fv ev) (fv evr) (fm Qs) (fm invs) (fm Zs) in
  k_mean ka = k_mean kb /\ k_shape ka = k_shape kb /\ k_sigma ka = k_sigma kb /\ k_orth ka = k_orth kb /\
  k_projcov ka = k_projcov kb /\ k_ev ka = k_ev kb /\ k_ratio ka = k_ratio kb /\
  k_roundtrip ka = k_roundtrip kb /\ k_resid ka = k_resid kb /\ k_coefs ka = k_coefs kb /\
  k_bound ka = k_bound kb /\ k_scores ka = k_scores kb /\ f (k_T ka) = k_T kb /\ fm (k_M ka) = k_M kb.
Proof.
  cbv zeta. unfold pca_checks. cbv zeta. simpl.
  assert (EC : fm (cov oa n p X) = cov ob n p (fm X)) by apply hom_cov.
  assert (ET : f (trace oa (cov oa n p X)) = trace ob (cov ob n p (fm X))) by (rewrite hom_trace, EC; reflexivity).
  assert (EL : fv (lams_of oa n sg) = lams_of ob n (fv sg)) by apply hom_lams.
  assert (ES : fv (scs_of oa whiten (lams_of oa n sg)) = scs_of ob whiten (lams_of ob n (fv sg)))
    by (rewrite hom_scs, EL; reflexivity).
  assert (ECW : fm (CW_of oa (cov oa n p X) W) = CW_of ob (cov ob n p (fm X)) (fm W))
    by (rewrite hom_CW, EC; reflexivity).
  assert (EG : fm (G_of oa W (CW_of oa (cov oa n p X) W)) = G_of ob (fm W) (CW_of ob (cov ob n p (fm X)) (fm W)))
    by (rewrite hom_G, ECW; reflexivity).
  assert (EM : f (mu0_of oa k (lams_of oa n sg)) = mu0_of ob k (lams_of ob n (fv sg)))
    by (rewrite hom_mu0, EL; reflexivity).
  assert (ESh : f (add oa (mu0_of oa k (lams_of oa n sg)) (mul oa (d_lead oa) (trace oa (cov oa n p X))))
                = add ob (mu0_of ob k (lams_of ob n (fv sg))) (mul ob (d_lead ob) (trace ob (cov ob n p (fm X))))).
  { hs. rewrite EM, ET. unfold d_lead. rewrite hom_tolp. reflexivity. }
  assert (ECf : fv (coefs_of oa (mu0_of oa k (lams_of oa n sg)) (lams_of oa n sg) (scs_of oa whiten (lams_of oa n sg)))
                = coefs_of ob (mu0_of ob k (lams_of ob n (fv sg))) (lams_of ob n (fv sg)) (scs_of ob whiten (lams_of ob n (fv sg))))
    by (rewrite hom_coefs, EM, EL, ES; reflexivity).
  repeat split.
  - apply hom_mean_ok.
  - apply hom_shape_ok.
  - apply hom_sigma_ok.
  - rewrite hom_orth_ok, ES. reflexivity.
  - rewrite hom_projcov_ok, ET, EL, ES, EG. reflexivity.
  - rewrite hom_ev_ok, EL. reflexivity.
  - apply hom_ratio_ok.
  - rewrite hom_roundtrip_ok, ES. reflexivity.
  - rewrite hom_resid_ok, ET, EL, ECW. reflexivity.
  - rewrite hom_coefs_ok, ECf. reflexivity.
  - rewrite hom_bound_ok, ET, EM, ESh, ECf, ES, EG. reflexivity.
  - rewrite hom_scorecov_ok, ET, EL, ES. reflexivity.
  - exact ET.
  - rewrite hom_Mlead, EC, ESh, ECf. reflexivity.
Qed.
End Hom.

(* ========================================================================================== *)
(** * Part C: real-number meaning *)
Notation oR := R_ops.

Lemma dot_Rdot a : forall b, dot oR a b = Rdot a b.
Proof. induction a as [|x a IH]; intros [|y b]; simpl; auto; try (rewrite IH; reflexivity). Qed.
Lemma ssum_Rsum l : ssum oR l = Rsum l.
Proof. induction l as [|x l IH]; simpl; auto; try (rewrite IH; reflexivity). Qed.

Lemma Rdot_comm a : forall b, Rdot a b = Rdot b a.
Proof. induction a as [|x a IH]; intros [|y b]; simpl; auto. rewrite IH. ring. Qed.
Lemma Rdot_nil_l a : Rdot [] a = 0.
Proof. reflexivity. Qed.
Lemma Rdot_scale c a : forall x, Rdot (map (fun v => c * v) a) x = c * Rdot a x.
Proof. induction a as [|v a IH]; intros [|y x]; simpl; try ring. rewrite IH. ring. Qed.
Lemma Rdot_map2_add a : forall b x, length a = length b ->
  Rdot (map2 Rplus a b) x = Rdot a x + Rdot b x.
Proof.
  induction a as [|u a IH]; intros [|v b] [|y x] L; simpl in *; try discriminate; try ring.
  rewrite IH by lia. ring.
Qed.
Lemma Rdot_map2_sub a : forall b x, length a = length b ->
  Rdot (map2 Rminus a b) x = Rdot a x - Rdot b x.
Proof.
  induction a as [|u a IH]; intros [|v b] [|y x] L; simpl in *; try discriminate; try ring.
  rewrite IH by lia. ring.
Qed.
Lemma Rdot_repeat0 n : forall y, Rdot (repeat 0 n) y = 0.
Proof. induction n as [|n IH]; intros [|y0 y]; simpl; auto. rewrite IH. ring. Qed.

Definition rect (r c : nat) (M : list (list R)) : Prop := length M = r /\ Forall (fun row => length row = c) M.

Lemma rectb_rect {A} r c (M : list (list A)) : rectb r c M = true <-> (length M = r /\ Forall (fun row => length row = c) M).
Proof.
  unfold rectb. rewrite andb_true_iff, Nat.eqb_eq, forallb_forall, Forall_forall.
  split; intros [H1 H2]; split; auto; intros x Hx; apply Nat.eqb_eq; auto.
Qed.

(* linearity of the quadratic form in the matrix, through the general bilinear shape z^T M x *)
Definition bil (z : list R) (M : list (list R)) (x : list R) : R := Rdot z (map (fun r => Rdot r x) M).
Lemma Rquad_bil M x : Rquad M x = bil x M x.
Proof. reflexivity. Qed.

Lemma bil_map2 (op : R -> R -> R) (sg : R) :
  (forall a b x, length a = length b -> Rdot (map2 op a b) x = Rdot a x + sg * Rdot b x) ->
  forall A B z x, length A = length B -> Forall2 (fun r s => length r = length s) A B ->
  bil z (map2 (map2 op) A B) x = bil z A x + sg * bil z B x.
Proof.
  intros Hop. unfold bil. induction A as [|r A IH]; intros [|s B] [|z0 z] x L F2; simpl in *;
    try discriminate; try ring.
  inversion F2; subst. rewrite Hop by assumption. rewrite IH by (auto; lia). ring.
Qed.
Lemma rect_F2 r c A B : rect r c A -> rect r c B -> length A = length B /\ Forall2 (fun u v => length u = length v) A B.
Proof.
  intros [LA FA] [LB FB]. split; [lia|]. subst r. revert B LB FB.
  induction A as [|u A IH]; intros [|v B] LB FB; simpl in *; try discriminate; constructor.
  - inversion FA; inversion FB; subst. lia.
  - inversion FA; inversion FB; subst. apply IH; auto.
Qed.
Lemma bil_madd r c A B z x : rect r c A -> rect r c B ->
  bil z (madd oR A B) x = bil z A x + bil z B x.
Proof.
  intros HA HB. destruct (rect_F2 _ _ _ _ HA HB) as [L F2].
  unfold madd. rewrite (bil_map2 Rplus 1); auto; try ring.
  intros a b y Lab. simpl. rewrite Rdot_map2_add by exact Lab. ring.
Qed.
Lemma bil_msub r c A B z x : rect r c A -> rect r c B ->
  bil z (msub oR A B) x = bil z A x - bil z B x.
Proof.
  intros HA HB. destruct (rect_F2 _ _ _ _ HA HB) as [L F2].
  unfold msub. rewrite (bil_map2 Rminus (-1)); auto; try ring.
  intros a b y Lab. simpl. rewrite Rdot_map2_sub by exact Lab. ring.
Qed.
Lemma bil_mscale k A : forall z x, bil z (mscale oR k A) x = k * bil z A x.
Proof.
  unfold bil, mscale. induction A as [|r A IH]; intros [|z0 z] x; simpl; try ring.
  rewrite IH. rewrite (Rdot_scale k r x). ring.
Qed.
Lemma bil_outer w : forall z x, bil z (outer oR w) x = Rdot z w * Rdot w x.
Proof.
  unfold bil, outer. intros z x.
  assert (G : forall u z, Rdot z (map (fun r => Rdot r x) (map (fun a => map (fun b => mul oR a b) w) u))
                          = Rdot z u * Rdot w x).
  { induction u as [|a u IH]; intros [|z0 z']; simpl; try ring.
    rewrite IH. rewrite (Rdot_scale a w x). ring. }
  apply G.
Qed.
Lemma bil_zeros_rows n p : forall z x, bil z (repeat (repeat 0 p) n) x = 0.
Proof.
  unfold bil. induction n as [|n IH]; intros [|z0 z] x; simpl; auto.
  rewrite IH, Rdot_repeat0. ring.
Qed.
Lemma Rquad_ident n s : forall x, length x = n -> Rquad (ident oR n s) x = s * Rdot x x.
Proof.
  induction n as [|n IH]; intros [|x0 y] L; simpl in L; try discriminate.
  - unfold Rquad. simpl. ring.
  - injection L as L. unfold Rquad in *. cbn [ident map Rdot].
    rewrite map_map.
    assert (E : map (fun r => Rdot (cons (zero oR) r) (x0 :: y)) (ident oR n s) = map (fun r => Rdot r y) (ident oR n s)).
    { apply map_ext. intros r. simpl. ring. }
    rewrite E, (IH y L). simpl. rewrite Rdot_repeat0. ring.
Qed.

Lemma rect_ident n s : rect n n (ident oR n s).
Proof.
  induction n as [|n [L F]]; split; simpl; auto.
  - rewrite map_length, L. reflexivity.
  - constructor; [simpl; rewrite repeat_length; reflexivity|].
    apply Forall_forall. intros r Hr. apply in_map_iff in Hr as (r' & <- & Hr').
    simpl. f_equal. rewrite Forall_forall in F. auto.
Qed.
Lemma map2_len {A B C} (g : A -> B -> C) a : forall b, length a = length b -> length (map2 g a b) = length a.
Proof. induction a as [|x a IH]; intros [|y b] L; simpl in *; try discriminate; auto. Qed.
Lemma rect_map2 (op : R -> R -> R) r c A B : rect r c A -> rect r c B -> rect r c (map2 (map2 op) A B).
Proof.
  intros [LA FA] [LB FB]. subst r. revert B LB FB.
  induction A as [|u A IH]; intros [|v B] LB FB; simpl in *; try discriminate.
  - split; auto.
  - inversion FA; inversion FB; subst. destruct (IH H2 B) as [L F]; auto.
    split; simpl; [lia|]. constructor; auto. rewrite map2_len; lia.
Qed.
Lemma rect_outer w : rect (length w) (length w) (outer oR w).
Proof.
  unfold outer. split; [apply map_length|]. apply Forall_forall. intros r Hr.
  apply in_map_iff in Hr as (a & <- & _). apply map_length.
Qed.
Lemma rect_mscale k r c A : rect r c A -> rect r c (mscale oR k A).
Proof.
  intros [L F]. unfold mscale. split; [rewrite map_length; auto|].
  apply Forall_forall. intros u Hu. apply in_map_iff in Hu as (u' & <- & Hu').
  rewrite map_length. rewrite Forall_forall in F. auto.
Qed.
Lemma rect_zeros p : rect p p (zeros oR p).
Proof.
  unfold zeros. split; [apply repeat_length|]. apply Forall_forall. intros r Hr.
  apply repeat_spec in Hr. subst. apply repeat_length.
Qed.
Lemma rect_rank1 p cf : forall W, Forall (fun w => length w = p) W -> rect p p (rank1 oR p cf W).
Proof.
  induction cf as [|c cf IH]; intros [|w W] FW; cbn [rank1]; try apply rect_zeros.
  inversion FW; subst. apply rect_map2; [|apply IH; auto].
  apply rect_mscale. apply rect_outer.
Qed.

(* sum_i c_i (w_i . x)^2 *)
Definition r1sum (cf : list R) (W : list (list R)) (x : list R) : R :=
  Rsum (map2 (fun c w => c * (Rdot w x * Rdot w x)) cf W).

Lemma Rquad_rank1 p cf : forall W x, Forall (fun w => length w = p) W ->
  Rquad (rank1 oR p cf W) x = r1sum cf W x.
Proof.
  unfold r1sum. induction cf as [|c cf IH]; intros [|w W] x FW; cbn [rank1 map2 Rsum fold_right];
    try (rewrite Rquad_bil; apply bil_zeros_rows).
  inversion FW; subst. rewrite Rquad_bil.
  rewrite (bil_madd (length w) (length w)).
  - rewrite bil_mscale, bil_outer, <- Rquad_bil, (IH W x H2). rewrite (Rdot_comm x w). reflexivity.
  - apply rect_mscale, rect_outer.
  - apply rect_rank1; auto.
Qed.

Theorem Rquad_Mlead p C shift cf W x : rect p p C -> Forall (fun w => length w = p) W -> length x = p ->
  Rquad (Mlead oR p C shift cf W) x = shift * Rdot x x - Rquad C x + r1sum cf W x.
Proof.
  intros HC FW Lx. unfold Mlead. rewrite Rquad_bil.
  rewrite (bil_madd p p); [| apply rect_map2; [apply rect_ident|exact HC] | apply rect_rank1; exact FW].
  rewrite (bil_msub p p); [| apply rect_ident | exact HC].
  rewrite <- !Rquad_bil. rewrite Rquad_ident by exact Lx. rewrite (Rquad_rank1 p) by exact FW. reflexivity.
Qed.

(** ** Bessel's inequality and the Ky Fan bound *)
Fixpoint orthonormal (U : list (list R)) : Prop :=
  match U with
  | [] => True
  | u :: U' => Rdot u u = 1 /\ Forall (fun v => Rdot u v = 0) U' /\ orthonormal U'
  end.
Definition sqproj (w : list R) (U : list (list R)) : R := Rsum (map (fun u => Rdot w u * Rdot w u) U).

Lemma Rdot_axpy c (w u : list R) : forall v, length w = length u ->
  Rdot (map2 (fun a b => a - c * b) w u) v = Rdot w v - c * Rdot u v.
Proof.
  revert u. induction w as [|a w IH]; intros [|b u] [|y v] L; simpl in *; try discriminate; try ring.
  rewrite IH by lia. ring.
Qed.

Lemma bessel p : forall U w, orthonormal U -> Forall (fun u => length u = p) U -> length w = p ->
  sqproj w U <= Rdot w w.
Proof.
  unfold sqproj. induction U as [|u U IH]; intros w HO FU Lw; simpl.
  - clear. induction w as [|a w IHw]; simpl; [lra|]. nra.
  - destruct HO as (Huu & Hperp & HO). inversion FU as [|? ? Lu FU']; subst.
    set (c := Rdot w u).
    set (w' := map2 (fun a b => a - c * b) w u).
    assert (Lw' : length w' = length u) by (unfold w'; rewrite map2_len; lia).
    assert (Lwu : length w = length u) by lia.
    assert (E1 : forall v, Rdot w' v = Rdot w v - c * Rdot u v) by (intros v; apply Rdot_axpy; exact Lwu).
    assert (E2 : Rdot w' w' = Rdot w w - c * c).
    { rewrite E1. rewrite (Rdot_comm w w'), (Rdot_comm u w'), !E1.
      fold c. rewrite (Rdot_comm u w). fold c. rewrite Huu. ring. }
    assert (E3 : map (fun v => Rdot w' v * Rdot w' v) U = map (fun v => Rdot w v * Rdot w v) U).
    { apply map_ext_in. intros v Hv. rewrite E1. rewrite Forall_forall in Hperp. rewrite (Hperp v Hv). ring. }
    pose proof (IH w' HO FU' (eq_trans Lw' Lu)) as B. rewrite E3, E2 in B. fold c. lra.
Qed.

(* the variance retained by the rows of U: sum_u u^T C u *)
Definition retained_by (C U : list (list R)) : R := Rsum (map (fun u => Rquad C u) U).

Lemma Rsum_map2_le (g h : R -> list R -> R) cf : forall W,
  (forall c w, In c cf -> In w W -> g c w <= h c w) ->
  Rsum (map2 g cf W) <= Rsum (map2 h cf W).
Proof.
  induction cf as [|c cf IH]; intros [|w W] Hle; simpl; try lra.
  pose proof (Hle c w (or_introl eq_refl) (or_introl eq_refl)).
  assert (Rsum (map2 g cf W) <= Rsum (map2 h cf W)) by (apply IH; intros; apply Hle; simpl; auto).
  lra.
Qed.
Lemma r1sum_cons cf W u U :
  Rsum (map2 (fun c w => c * sqproj w (u :: U)) cf W) = r1sum cf W u + Rsum (map2 (fun c w => c * sqproj w U) cf W).
Proof.
  unfold r1sum, sqproj. revert W. induction cf as [|c cf IH]; intros [|w W]; simpl; try ring.
  rewrite IH. simpl. ring.
Qed.
Lemma orthonormal_len U : orthonormal U -> Rsum (map (fun u => Rdot u u) U) = INR (length U).
Proof.
  induction U as [|u U IH]; intros HO; [reflexivity|]. destruct HO as (H1 & _ & HO).
  cbn [map Rsum fold_right length]. fold (Rsum (map (fun u => Rdot u u) U)). rewrite (IH HO), H1, S_INR. ring.
Qed.

Theorem ky_fan_bound p C shift cf W U :
  (forall x, length x = p -> 0 <= Rquad (Mlead oR p C shift cf W) x) ->
  rect p p C -> Forall (fun w => length w = p) W -> Forall (fun c => 0 <= c) cf ->
  orthonormal U -> Forall (fun u => length u = p) U ->
  retained_by C U <= INR (length U) * shift + Rsum (map2 (fun c w => c * Rdot w w) cf W).
Proof.
  intros HP HC FW Fc HO FU.
  assert (S1 : retained_by C U <= shift * Rsum (map (fun u => Rdot u u) U)
                                  + Rsum (map2 (fun c w => c * sqproj w U) cf W)).
  { clear HO. unfold retained_by. induction U as [|u U IH].
    - simpl. assert (Z : Rsum (map2 (fun c w => c * sqproj w []) cf W) = 0).
      { clear. revert W. induction cf as [|c cf IH]; intros [|w W]; simpl; auto. rewrite IH. unfold sqproj. simpl. ring. }
      rewrite Z. lra.
    - pose proof (Forall_inv FU) as Lu; cbv beta in Lu. pose proof (Forall_inv_tail FU) as FU'. specialize (IH FU').
      cbn [map Rsum fold_right]. fold (Rsum (map (fun u => Rquad C u) U)).
      fold (Rsum (map (fun u => Rdot u u) U)).
      rewrite r1sum_cons.
      pose proof (HP u Lu) as Pu. rewrite (Rquad_Mlead p C shift cf W u HC FW Lu) in Pu. lra. }
  rewrite (orthonormal_len U HO) in S1.
  assert (S2 : Rsum (map2 (fun c w => c * sqproj w U) cf W) <= Rsum (map2 (fun c w => c * Rdot w w) cf W)).
  { apply Rsum_map2_le. intros c w Hc Hw. rewrite Forall_forall in Fc, FW.
    apply Rmult_le_compat_l; [apply Fc; exact Hc|]. apply (bessel p); auto. }
  lra.
Qed.

(** ** the deflation certificate is sound *)
Definition sumsq (y : list R) : R := Rdot y y.

Lemma cross_bound g x0 : 0 <= g -> forall b y, Forall (fun v => Rabs v <= g) b -> length b = length y ->
  - (g / 2) * (INR (length y) * (x0 * x0) + sumsq y) <= x0 * Rdot b y.
Proof.
  intros Hg. unfold sumsq. induction b as [|v b IH]; intros [|y0 y] Fb L; simpl in L; try discriminate.
  - simpl. lra.
  - injection L as L. pose proof (Forall_inv Fb) as Hv. pose proof (Forall_inv_tail Fb) as Fb'.
    specialize (IH y Fb' L). cbn [Rdot length]. rewrite S_INR.
    apply Rabs_le_inv in Hv.
    assert (K : - (g / 2) * (x0 * x0 + y0 * y0) <= x0 * (v * y0)).
    { pose proof (Rle_0_sqr (x0 - y0)) as S1. pose proof (Rle_0_sqr (x0 + y0)) as S2. unfold Rsqr in S1, S2.
      destruct Hv as [Hv1 Hv2].
      destruct (Rle_dec 0 (x0 * y0)) as [P|N].
      - assert (A1 : x0 * y0 <= (x0 * x0 + y0 * y0) / 2) by lra.
        assert (A2 : - g * (x0 * y0) <= v * (x0 * y0)).
        { assert (0 <= (v + g) * (x0 * y0)) by (apply Rmult_le_pos; lra). nra. }
        replace (x0 * (v * y0)) with (v * (x0 * y0)) by ring.
        assert (A3 : g * (x0 * y0) <= g * ((x0 * x0 + y0 * y0) / 2)) by (apply Rmult_le_compat_l; lra).
        lra.
      - apply Rnot_le_lt in N.
        assert (A1 : - (x0 * y0) <= (x0 * x0 + y0 * y0) / 2) by lra.
        assert (A2 : g * (x0 * y0) <= v * (x0 * y0)).
        { assert (0 <= (g - v) * (- (x0 * y0))) by (apply Rmult_le_pos; lra). nra. }
        replace (x0 * (v * y0)) with (v * (x0 * y0)) by ring.
        assert (A3 : g * (- (x0 * y0)) <= g * ((x0 * x0 + y0 * y0) / 2)) by (apply Rmult_le_compat_l; lra).
        lra. }
    unfold sumsq in *. lra.
Qed.

Lemma dom_rec_sound g d : 0 <= g -> forall n D, dom_rec oR n d g D = true ->
  forall y, length y = n -> (d - (INR n - 1) * g) * sumsq y <= Rquad D y.
Proof.
  intros Hg. induction n as [|n IH]; intros D HD y Ly.
  - destruct y; try discriminate. unfold sumsq, Rquad. destruct D; simpl; lra.
  - destruct D as [|[|a b] rows]; try discriminate. cbn [dom_rec] in HD.
    repeat (apply andb_true_iff in HD as [HD ?]).
    rename H into Hrec, H0 into Hrows, H1 into Lrows, H2 into Hb, H3 into Lb.
    apply Rleb_true in HD. apply Nat.eqb_eq in Lb, Lrows.
    destruct y as [|x0 y]; try discriminate. injection Ly as Ly.
    assert (Fb : Forall (fun v => Rabs v <= g) b).
    { apply Forall_forall. intros v Hv. rewrite forallb_forall in Hb. apply Rleb_true. apply (Hb v Hv). }
    assert (Fc : Forall (fun v => Rabs v <= g) (map (hd 0) rows)).
    { apply Forall_forall. intros v Hv. apply in_map_iff in Hv as (r & <- & Hr).
      rewrite forallb_forall in Hrows. specialize (Hrows r Hr). destruct r as [|c t]; try discriminate.
      apply andb_true_iff in Hrows as [Hc _]. apply Rleb_true in Hc. exact Hc. }
    assert (NE : forallb (fun r => negb (Nat.eqb (length r) 0)) rows = true).
    { apply forallb_forall. intros r Hr. rewrite forallb_forall in Hrows. specialize (Hrows r Hr).
      destruct r; try discriminate. reflexivity. }
    specialize (IH (map (@tl R) rows) Hrec y Ly).
    unfold Rquad in *. cbn [map Rdot].
    rewrite (split_rows x0 y rows y NE).
    pose proof (cross_bound g x0 Hg b y Fb (eq_trans Lb (eq_sym Ly))) as C1.
    assert (Lc : length (map (hd 0) rows) = length y) by (rewrite map_length; lia).
    pose proof (cross_bound g x0 Hg (map (hd 0) rows) y Fc Lc) as C2.
    rewrite Ly in C1, C2. rewrite S_INR. unfold sumsq in *. cbn [Rdot].
    assert (Hy : 0 <= Rdot y y). { clear. induction y; simpl; [lra|nra]. }
    nra.
Qed.

Lemma dom_ok_sound p g D : dom_ok oR p g D = true -> forall y, length y = p -> 0 <= Rquad D y.
Proof.
  unfold dom_ok. intros HD y Ly. apply andb_true_iff in HD as [Hg HD]. apply Rleb_true in Hg. simpl in Hg.
  destruct p as [|q].
  { destruct y; try discriminate. unfold Rquad. simpl. lra. }
  pose proof (dom_rec_sound g _ Hg (S q) D HD y Ly) as HS.
  assert (Hy : 0 <= sumsq y). { unfold sumsq. clear. induction y; simpl; [lra|nra]. }
  assert (E : mul oR (of_N oR (N.of_nat (Nat.pred (S q)))) g - (INR (S q) - 1) * g = 0).
  { cbn [Nat.pred]. simpl of_N. rewrite Nnat.Nat2N.id, S_INR. simpl. ring. }
  rewrite E in HS. lra.
Qed.

Lemma Q2R_inject_Z z : Q2R (inject_Z z) = IZR z.
Proof. unfold Q2R, inject_Z; simpl. field. Qed.
Lemma Q2R_Qpow2 e : Q2R (Qpow2 e) = bpow radix2 e.
Proof.
  destruct e as [|q|q]; unfold Qpow2.
  - unfold Q2R; simpl. field.
  - rewrite Q2R_inject_Z. reflexivity.
  - unfold Q2R. cbn [Qnum Qden bpow]. rewrite Pos2Z.inj_pow_pos. simpl. field.
    apply not_0_IZR. pose proof (Zpower_pos_gt_0 2 q). lia.
Qed.
Lemma Q2R_dq_Q a : Q2R (dq_Q a) = D2R a.
Proof.
  unfold dq_Q, D2R. rewrite Q2R_div.
  - rewrite Q2R_mult, !Q2R_inject_Z, Q2R_Qpow2. reflexivity.
  - intro E. apply Qeq_eqR in E. rewrite Q2R_inject_Z in E. replace (Q2R 0) with 0 in E by (unfold Q2R; simpl; field).
    exact (IZR_pos_neq0 _ E).
Qed.
Lemma Q2Rm_dq_Q (M : list (list dq)) : map (map Q2R) (map (map dq_Q) M) = map (map D2R) M.
Proof.
  rewrite map_map. apply map_ext. intros r. rewrite map_map. apply map_ext. intros a. apply Q2R_dq_Q.
Qed.

Theorem lead_psd_sound p T M : lead_psd p T M = true -> rect p p (map (map D2R) M) ->
  forall x, length x = p -> 0 <= Rquad (map (map D2R) M) x.
Proof.
  unfold lead_psd. intros HL HM x Lx. destruct (Z.eqb (dm T) 0).
  - rewrite <- Q2Rm_dq_Q. apply (ldl_psd_sound p); auto.
  - cbv zeta in HL. apply andb_true_iff in HL as [HD HB].
    set (B := round_mat p (grid_exp T) M) in *.
    assert (RB : rect p p (map (map D2R) B)).
    { unfold ldl_psd in HB. apply andb_true_iff in HB as [HB _]. apply rectb_rect in HB.
      destruct HB as [L F]. split; [rewrite !map_length in *; exact L|].
      apply Forall_forall. intros r Hr. apply in_map_iff in Hr as (r' & <- & Hr').
      rewrite map_length. rewrite Forall_forall in F.
      specialize (F (map dq_Q r') (in_map _ _ _ Hr')). rewrite map_length in F. exact F. }
    pose proof (ldl_psd_sound p _ HB x Lx) as PB. rewrite Q2Rm_dq_Q in PB.
    rewrite (hom_dom_ok D2R DQ_ops oR D2R_hom) in HD. rewrite (hom_msub D2R DQ_ops oR D2R_hom) in HD.
    pose proof (dom_ok_sound p _ _ HD x Lx) as PD.
    rewrite Rquad_bil in PD. rewrite (bil_msub p p _ _ x x HM RB) in PD. rewrite <- !Rquad_bil in PD. lra.
Qed.

(** ** what the conjuncts say over R *)
Lemma forallb_seq g n : forallb g (seq 0 n) = true -> forall i, (i < n)%nat -> g i = true.
Proof. intros H i Hi. rewrite forallb_forall in H. apply H. apply in_seq. lia. Qed.
Lemma forallb_combine_nth {A B} (g : A * B -> bool) da db : forall (a : list A) (b : list B),
  forallb g (combine a b) = true -> forall i, (i < length a)%nat -> (i < length b)%nat ->
  g (nth i a da, nth i b db) = true.
Proof.
  induction a as [|x a IH]; intros [|y b] H i Ha Hb; simpl in *; try lia.
  apply andb_true_iff in H as [H1 H2]. destruct i; auto. apply IH; auto; lia.
Qed.
Lemma absle_R x t : absle oR x t = true -> Rabs x <= t.
Proof. unfold absle. intros H. apply Rleb_true in H. exact H. Qed.

Definition tolR (e : N) : R := tolp oR e.
Lemma tolR_pos e : 0 < tolR e.
Proof.
  unfold tolR, tolp. simpl. unfold Rdiv. rewrite Rmult_1_l. apply Rinv_0_lt_compat.
  apply lt_0_INR. pose proof (N.pow_nonzero 2 e). lia.
Qed.

(* singular values: positive and non-increasing *)
Lemma sigma_ok_sound sg : sigma_ok oR sg = true ->
  Forall (fun s => 0 < s) sg /\ forall i, (S i < length sg)%nat -> nth (S i) sg 0 <= nth i sg 0.
Proof.
  unfold sigma_ok. intros H. apply andb_true_iff in H as [H1 H2]. split.
  - apply Forall_forall. intros s Hs. rewrite forallb_forall in H1. apply Rltb_true. apply (H1 s Hs).
  - clear H1. induction sg as [|a sg IH]; intros i Hi; simpl in Hi; [lia|].
    destruct sg as [|b sg]; [simpl in Hi; lia|]. cbn [nonincr] in H2.
    apply andb_true_iff in H2 as [Hab H2]. destruct i.
    + simpl. apply Rleb_true. exact Hab.
    + apply (IH H2 i). simpl in *. lia.
Qed.

(* orthonormality (after undoing the whitening scale: v_i = sqrt(sc_i) w_i) *)
Lemma orth_ok_sound scs W : orth_ok oR scs W = true ->
  forall i j, (i < length W)%nat -> (j < length W)%nat ->
  let d := Rdot (nth i W []) (nth j W []) in
  (i = j -> Rabs (nth i scs 0 * d - 1) <= tolR 20) /\
  (i <> j -> nth i scs 0 * nth j scs 0 * (d * d) <= tolR 20 * tolR 20).
Proof.
  unfold orth_ok. intros H i j Hi Hj. cbv zeta.
  pose proof (forallb_seq _ _ (forallb_seq _ _ H i Hi) j Hj) as K. cbv beta zeta in K.
  unfold nthr, nthv in K. rewrite dot_Rdot in K. split; intros E.
  - apply Nat.eqb_eq in E. rewrite E in K. apply absle_R in K. exact K.
  - apply Nat.eqb_neq in E. rewrite E in K. apply Rleb_true in K. exact K.
Qed.

Lemma nth_map_lt {A B} (g : A -> B) (l : list A) d d' : forall i, (i < length l)%nat -> nth i (map g l) d' = g (nth i l d).
Proof. induction l as [|a l IH]; intros [|i] Hi; simpl in *; try lia; auto. apply IH. lia. Qed.

(* entries of G are the bilinear forms w_i^T C w_j *)
Lemma G_entry C W i j : (i < length W)%nat -> (j < length W)%nat ->
  nthv oR j (nthr i (G_of oR W (CW_of oR C W))) = bil (nth i W []) C (nth j W []).
Proof.
  intros Hi Hj. unfold nthv, nthr, G_of, CW_of, bil, vec.
  rewrite (nth_map_lt _ W [] [] i Hi).
  erewrite (nth_map_lt _ _ []) by (rewrite map_length; exact Hj).
  rewrite (nth_map_lt _ W [] [] j Hj).
  rewrite dot_Rdot. f_equal; try (apply map_ext; intros r; apply dot_Rdot).
Qed.

(* projected covariance: sc_i w_i^T C w_i = lambda_i, sc_i sc_j (w_i^T C w_j)^2 = 0, up to 2^-20 T *)
Lemma projcov_ok_sound T lams scs C W : length lams = length W ->
  projcov_ok oR T lams scs (G_of oR W (CW_of oR C W)) = true ->
  forall i j, (i < length W)%nat -> (j < length W)%nat ->
  let g := bil (nth i W []) C (nth j W []) in
  (i = j -> Rabs (nth i scs 0 * g - nth i lams 0) <= tolR 20 * T) /\
  (i <> j -> nth i scs 0 * nth j scs 0 * (g * g) <= (tolR 20 * T) * (tolR 20 * T)).
Proof.
  unfold projcov_ok. intros L H i j Hi Hj. cbv zeta. rewrite L in H.
  pose proof (forallb_seq _ _ (forallb_seq _ _ H i Hi) j Hj) as K. cbv beta zeta in K.
  rewrite (G_entry C W i j Hi Hj) in K. unfold nthv in K. split; intros E.
  - apply Nat.eqb_eq in E. rewrite E in K. apply absle_R in K. exact K.
  - apply Nat.eqb_neq in E. rewrite E in K. apply Rleb_true in K. exact K.
Qed.

(* eigen-residual *)
Lemma resid_ok_sound T lams C W : length lams = length W ->
  resid_ok oR T lams W (CW_of oR C W) = true ->
  forall i a, (i < length W)%nat -> (a < length C)%nat -> (a < length (nth i W []))%nat ->
  Rabs (Rdot (nth a C []) (nth i W []) - nth i lams 0 * nth a (nth i W []) 0)
    <= tolR 23 * T * Rsum (map Rabs (nth i W [])).
Proof.
  unfold resid_ok. intros L H i a Hi Ha Hw.
  assert (LC : length (CW_of oR C W) = length W) by (unfold CW_of; apply map_length).
  pose proof (forallb_combine_nth _ (0, []) [] (combine lams W) (CW_of oR C W) H i) as K.
  rewrite combine_length, L, Nat.min_id, LC in K. specialize (K Hi Hi).
  rewrite (combine_nth lams W i 0 [] L) in K. cbv beta iota zeta in K.
  assert (E : nth i (CW_of oR C W) [] = map (fun row => dot oR row (nth i W [])) C).
  { unfold CW_of. exact (nth_map_lt (fun w : list R => map (fun row => dot oR row w) C) W [] [] i Hi). }
  rewrite E in K.
  pose proof (forallb_combine_nth _ 0 0 _ _ K a) as K2. rewrite map_length in K2. specialize (K2 Ha Hw).
  cbv beta in K2. simpl fst in K2. simpl snd in K2. apply absle_R in K2.
  rewrite (nth_map_lt _ C [] 0 a Ha) in K2. rewrite dot_Rdot in K2.
  unfold sumabs in K2. rewrite ssum_Rsum in K2. exact K2.
Qed.

(** ** the leading-subspace certificate, assembled *)
Lemma rect_cov n p X : rect p p (cov oR n p X).
Proof.
  unfold cov, gram, cols. split.
  - rewrite !map_length, seq_length. reflexivity.
  - apply Forall_forall. intros r Hr. apply in_map_iff in Hr as (c & <- & _).
    rewrite !map_length, seq_length. reflexivity.
Qed.
Lemma rect_Mlead p C shift cf W : rect p p C -> Forall (fun w => length w = p) W ->
  rect p p (Mlead oR p C shift cf W).
Proof.
  intros HC FW. unfold Mlead, madd, msub. apply rect_map2; [apply rect_map2; [apply rect_ident|exact HC]|].
  apply rect_rank1. exact FW.
Qed.
Lemma map2_ext_in {A B C} (g h : A -> B -> C) a : forall b,
  (forall x y, In x a -> In y b -> g x y = h x y) -> map2 g a b = map2 h a b.
Proof.
  induction a as [|x a IH]; intros [|y b] E; simpl; auto.
  rewrite (E x y) by (simpl; auto). rewrite IH; auto. intros; apply E; simpl; auto.
Qed.
Lemma kyfan_bound_R k shift cf W :
  kyfan_bound oR k shift cf W = INR (N.to_nat k) * shift + Rsum (map2 (fun c w => c * Rdot w w) cf W).
Proof.
  unfold kyfan_bound. rewrite ssum_Rsum. simpl.
  rewrite (map2_ext_in (fun c w => c * dot oR w w) (fun c w => c * Rdot w w)); [reflexivity|].
  intros c w _ _. rewrite dot_Rdot. reflexivity.
Qed.
Lemma coefs_ok_sound cf : coefs_ok oR cf = true -> Forall (fun c => 0 <= c) cf.
Proof.
  unfold coefs_ok. intros H. apply Forall_forall. intros c Hc. rewrite forallb_forall in H.
  apply Rleb_true. apply (H c Hc).
Qed.
Lemma shape_ok_sound {A} p k (sg : list A) (W : list (list A)) : shape_ok p k sg W = true ->
  length W = length sg /\ (N.of_nat (length sg) <= k)%N /\ Forall (fun w => length w = p) W.
Proof.
  unfold shape_ok. intros H. apply andb_true_iff in H as [H H3]. apply andb_true_iff in H as [H1 H2].
  apply Nat.eqb_eq in H1. apply N.leb_le in H2. repeat split; auto.
  apply Forall_forall. intros w Hw. rewrite forallb_forall in H3. apply Nat.eqb_eq. apply (H3 w Hw).
Qed.

(** for real data: if the checker's conjuncts hold and the certificate matrix is PSD, no orthonormal
    k-frame retains more variance than the returned components, up to the stated slack *)
Theorem leading_subspace_R n p k whiten X mu sg W ev evr Qs invs Zs :
  let ks := pca_checks oR n p k whiten X mu sg W ev evr Qs invs Zs in
  let C := cov oR n p X in
  let lams := lams_of oR n sg in
  let scs := scs_of oR whiten lams in
  k_shape ks = true -> k_coefs ks = true -> k_bound ks = true ->
  (forall x, length x = p -> 0 <= Rquad (k_M ks) x) ->
  forall U, orthonormal U -> Forall (fun u => length u = p) U -> length U = N.to_nat k ->
  retained_by C U <=
    retained oR scs (G_of oR W (CW_of oR C W))
    + (INR (N.to_nat k) - INR (length sg)) * mu0_of oR k lams
    + (INR (N.to_nat k) * tolR 17 + tolR 20) * trace oR C.
Proof.
  cbv zeta. unfold pca_checks. cbv zeta. cbn [k_shape k_coefs k_bound k_M].
  intros Hs Hc Hb HP U HO FU LU.
  destruct (shape_ok_sound p k sg W Hs) as (LW & _ & FW).
  pose proof (ky_fan_bound p _ _ _ _ U HP (rect_cov n p X) FW (coefs_ok_sound _ Hc) HO FU) as KF.
  unfold bound_ok in Hb. apply Rleb_true in Hb. rewrite kyfan_bound_R in Hb.
  rewrite LU in KF.
  assert (EL : length (scs_of oR whiten (lams_of oR n sg)) = length sg).
  { unfold scs_of, lams_of. rewrite !map_length. reflexivity. }
  rewrite EL in Hb.
  change (d_lead oR) with (tolR 17) in *. change (d_small oR) with (tolR 20) in *.
  cbn [R_ops of_N add sub mul] in Hb, KF. rewrite Nnat.Nat2N.id in Hb.
  lra.
Qed.

(** the same for the exact dyadic evaluation on the implementation's output *)
Theorem leading_subspace_certified n p k whiten (X : list (list dq)) mu sg W ev evr Qs invs Zs :
  let ks := pca_checks DQ_ops n p k whiten X mu sg W ev evr Qs invs Zs in
  k_shape ks = true -> k_coefs ks = true -> k_bound ks = true -> lead_psd p (k_T ks) (k_M ks) = true ->
  let XR := map (map D2R) X in
  let WR := map (map D2R) W in
  let C := cov oR n p XR in
  let lams := lams_of oR n (map D2R sg) in
  let scs := scs_of oR whiten lams in
  forall U, orthonormal U -> Forall (fun u => length u = p) U -> length U = N.to_nat k ->
  retained_by C U <=
    retained oR scs (G_of oR WR (CW_of oR C WR))
    + (INR (N.to_nat k) - INR (length sg)) * mu0_of oR k lams
    + (INR (N.to_nat k) * tolR 17 + tolR 20) * trace oR C.
Proof.
  cbv zeta. intros Hs Hc Hb HL U HO FU LU.
  destruct (hom_pca_checks D2R DQ_ops oR D2R_hom n p k whiten X mu sg W ev evr Qs invs Zs)
    as (_ & E2 & _ & _ & _ & _ & _ & _ & _ & E10 & E11 & _ & _ & EM).
  cbv zeta in E2, E10, E11, EM. rewrite E2 in Hs. rewrite E10 in Hc. rewrite E11 in Hb.
  pose proof (leading_subspace_R n p k whiten (map (map D2R) X) (map D2R mu) (map D2R sg) (map (map D2R) W)
                (map D2R ev) (map D2R evr) (map (map D2R) Qs) (map (map D2R) invs) (map (map D2R) Zs)) as R.
  cbv zeta in R. rewrite map_length in R. apply R; auto.
  rewrite <- EM. apply (lead_psd_sound p _ _ HL). rewrite EM.
  unfold pca_checks. cbv zeta. cbn [k_M].
  destruct (shape_ok_sound p k _ _ Hs) as (_ & _ & FW).
  apply rect_Mlead; [apply rect_cov|exact FW].
Qed.

(** ** mean, accessors, round trip *)
Lemma mean_ok_sound n p X mu : mean_ok oR n p X mu = true ->
  length mu = p /\
  forall j, (j < p)%nat ->
    let c := column oR j X in
    Rabs (nth j mu 0 - Rsum c / INR (N.to_nat n)) <= tolR 45 * Rsum (map Rabs c) / INR (N.to_nat n).
Proof.
  unfold mean_ok. intros H. apply andb_true_iff in H as [H1 H2]. apply Nat.eqb_eq in H1. split; auto.
  intros j Hj. cbv zeta.
  pose proof (forallb_combine_nth _ 0 [] mu (cols oR p X) H2 j) as K.
  unfold cols in K at 1. rewrite map_length, seq_length, H1 in K. specialize (K Hj Hj).
  cbv beta in K. simpl fst in K. simpl snd in K. apply absle_R in K.
  assert (E : nth j (cols oR p X) [] = column oR j X).
  { unfold cols. etransitivity.
    - exact (nth_map_lt (fun j => column oR j X) (seq 0 p) 0%nat [] j ltac:(rewrite seq_length; exact Hj)).
    - rewrite seq_nth by exact Hj. reflexivity. }
  rewrite E in K.
  unfold sumabs in K. rewrite !ssum_Rsum in K. exact K.
Qed.

Lemma ev_ok_sound lams ev : ev_ok oR lams ev = true ->
  length ev = length lams /\
  forall i, (i < length lams)%nat -> Rabs (nth i ev 0 - nth i lams 0) <= tolR 50 * nth i lams 0.
Proof.
  unfold ev_ok. intros H. apply andb_true_iff in H as [H1 H2]. apply Nat.eqb_eq in H1. split; auto.
  intros i Hi. pose proof (forallb_combine_nth _ 0 0 ev lams H2 i) as K. rewrite H1 in K.
  specialize (K Hi Hi). apply absle_R in K. exact K.
Qed.

Lemma ratio_ok_sound ev evr : ratio_ok oR ev evr = true ->
  length evr = length ev /\
  (forall i, (i < length ev)%nat ->
     0 <= nth i evr 0 /\ Rabs (nth i evr 0 * Rsum ev - nth i ev 0) <= tolR 45 * Rsum ev) /\
  (length ev <> 0%nat -> Rabs (Rsum evr - 1) <= tolR 45).
Proof.
  unfold ratio_ok. intros H. apply andb_true_iff in H as [H H3]. apply andb_true_iff in H as [H1 H2].
  apply Nat.eqb_eq in H1. repeat split; auto.
  - pose proof (forallb_combine_nth _ 0 0 evr ev H2 i) as K. rewrite H1 in K. specialize (K H H).
    apply andb_true_iff in K as [K _]. apply Rleb_true in K. exact K.
  - pose proof (forallb_combine_nth _ 0 0 evr ev H2 i) as K. rewrite H1 in K. specialize (K H H).
    apply andb_true_iff in K as [_ K]. apply absle_R in K. rewrite !ssum_Rsum in K. exact K.
  - intros NZ. apply orb_true_iff in H3 as [Z|K].
    + apply Nat.eqb_eq in Z. contradiction.
    + apply absle_R in K. rewrite ssum_Rsum in K. exact K.
Qed.

Lemma close_rows_sound t a b mu : close_rows oR t a b mu = true ->
  forall j, (j < length a)%nat -> (j < length b)%nat -> (j < length mu)%nat ->
  Rabs (nth j a 0 - nth j b 0) <= tolR 20 * (t + Rabs (nth j mu 0)).
Proof.
  unfold close_rows. intros H j Ha Hb Hm.
  pose proof (forallb_combine_nth _ (0, 0) 0 (combine a b) mu H j) as K.
  rewrite combine_length in K. specialize (K (Nat.min_glb_lt _ _ _ Ha Hb) Hm).
  assert (E : nth j (combine a b) (0, 0) = (nth j a 0, nth j b 0)).
  { clear -Ha Hb. revert b j Ha Hb. induction a as [|x a IH]; intros [|y b] [|j] Ha Hb; simpl in *; try lia; auto.
    apply IH; lia. }
  rewrite E in K. apply absle_R in K. exact K.
Qed.

(* every query row: inverse_transform (predict x) is within 2^-20 (|x - mu|_1 + |mu_j|) of the
   orthogonal projection of x onto the component subspace about the mean (and of x itself when
   all p components are present) *)
Lemma roundtrip_ok_sound p scs W mu Qs invs : roundtrip_ok oR p scs W mu Qs invs = true ->
  length invs = length Qs /\
  forall t, (t < length Qs)%nat ->
    let x := nth t Qs [] in let inv := nth t invs [] in
    let P := projection oR p scs W mu x in
    let scale := Rsum (map Rabs (vsub oR x mu)) in
    length inv = p /\ length x = p /\
    (forall j, (j < p)%nat -> (j < length P)%nat -> (j < length mu)%nat ->
       Rabs (nth j inv 0 - nth j P 0) <= tolR 20 * (scale + Rabs (nth j mu 0))) /\
    (length W = p -> forall j, (j < p)%nat -> (j < length mu)%nat ->
       Rabs (nth j inv 0 - nth j x 0) <= tolR 20 * (scale + Rabs (nth j mu 0))).
Proof.
  unfold roundtrip_ok. intros H. apply andb_true_iff in H as [H1 H2]. apply Nat.eqb_eq in H1. split; auto.
  intros t Ht. cbv zeta.
  pose proof (forallb_combine_nth _ [] [] Qs invs H2 t) as K. rewrite H1 in K. specialize (K Ht Ht).
  cbv beta in K. simpl fst in K. simpl snd in K. unfold roundtrip_row_ok in K. cbv zeta in K.
  apply andb_true_iff in K as [K K4]. apply andb_true_iff in K as [K K3]. apply andb_true_iff in K as [K1 K2].
  apply Nat.eqb_eq in K1, K2. unfold sumabs in K3, K4. rewrite ssum_Rsum in K3, K4.
  repeat split; auto.
  - intros j Hj HP Hm. apply (close_rows_sound _ _ _ _ K3); auto. lia.
  - intros LW j Hj Hm. apply orb_true_iff in K4 as [K4|K4].
    + apply negb_true_iff, Nat.eqb_neq in K4. contradiction.
    + apply (close_rows_sound _ _ _ _ K4); auto; lia.
Qed.

(* ========================================================================================== *)
(** * Part D: the model of pca.rs over the reals (pattern A) *)

(** ** summation orders collapse over R *)
Lemma fold_left_Rplus l : forall a, fold_left Rplus l a = a + Rsum l.
Proof. induction l as [|x l IH]; intros a; simpl; [ring|]. rewrite IH. ring. Qed.
Lemma seq_sum_R l : seq_sum oR l = Rsum l.
Proof. unfold seq_sum. simpl. rewrite fold_left_Rplus. ring. Qed.

Lemma chunks8_R : forall n xs p, (length xs <= n)%nat -> length p = 8%nat ->
  let r := chunks8 oR xs p in
  length (fst r) = 8%nat /\ Rsum (fst r) + Rsum (snd r) = Rsum p + Rsum xs.
Proof.
  induction n as [n IH] using lt_wf_ind. intros xs p Ln Lp.
  destruct xs as [|x0 [|x1 [|x2 [|x3 [|x4 [|x5 [|x6 [|x7 t]]]]]]]]; cbn [chunks8 fst snd]; try (split; [exact Lp | reflexivity]).
  destruct p as [|p0 [|p1 [|p2 [|p3 [|p4 [|p5 [|p6 [|p7 [|? ?]]]]]]]]]; simpl in Lp; try discriminate.
  simpl in Ln. cbn [combine map fst snd].
  destruct (IH (length t) ltac:(lia) t
              [add oR p0 x0; add oR p1 x1; add oR p2 x2; add oR p3 x3; add oR p4 x4; add oR p5 x5; add oR p6 x6; add oR p7 x7]
              (le_n _) eq_refl) as [L E].
  split; [exact L|]. rewrite E. simpl. ring.
Qed.
Lemma usum_R l : usum oR l = Rsum l.
Proof.
  unfold usum.
  pose proof (chunks8_R (length l) l [zero oR; zero oR; zero oR; zero oR; zero oR; zero oR; zero oR; zero oR] (le_n _) eq_refl) as [L E].
  destruct (chunks8 oR l _) as [p rest]. cbn [fst snd] in L, E.
  destruct p as [|p0 [|p1 [|p2 [|p3 [|p4 [|p5 [|p6 [|p7 [|? ?]]]]]]]]]; simpl in L; try discriminate.
  simpl. rewrite fold_left_Rplus. simpl in E. lra.
Qed.
Lemma map2_mul_Rsum a : forall b, Rsum (map2 Rmult a b) = Rdot a b.
Proof. induction a as [|x a IH]; intros [|y b]; simpl; auto. rewrite IH. reflexivity. Qed.
Lemma row_dot_R c a b : row_dot oR c a b = Rdot a b.
Proof. unfold row_dot. destruct c; [rewrite usum_R | rewrite seq_sum_R]; apply map2_mul_Rsum. Qed.

(** ** guards: an empty dataset or an embedding size outside 1..p is an error, anything else is
       handed to the solver *)
Lemma fit_guards {F} (o : NumOps F) floor svd cm wh n p k X :
  (n = 0%N -> fit o floor svd cm wh n p k X = FitErrNotEnoughSamples) /\
  (n <> 0%N -> (k = 0%N \/ (p < k)%N) -> fit o floor svd cm wh n p k X = FitErrEmbeddingTooSmall k) /\
  (n <> 0%N -> (1 <= k)%N -> (k <= p)%N ->
     match svd (centre o X (mean_axis0 o cm n (N.to_nat p) X)) k with
     | None => fit o floor svd cm wh n p k X = FitErrSolver
     | Some _ => exists m, fit o floor svd cm wh n p k X = FitOk m /\ nsamples m = n
                           /\ pmean m = mean_axis0 o cm n (N.to_nat p) X
     end).
Proof.
  unfold fit. repeat split.
  - intros ->. reflexivity.
  - intros Hn Hk. apply N.eqb_neq in Hn. rewrite Hn.
    destruct Hk as [->|Hk]; [rewrite orb_true_r; reflexivity|].
    apply N.ltb_lt in Hk. rewrite Hk. reflexivity.
  - intros Hn H1 H2. apply N.eqb_neq in Hn. rewrite Hn.
    assert (E1 : N.ltb p k = false) by (apply N.ltb_ge; exact H2).
    assert (E2 : N.eqb k 0 = false) by (apply N.eqb_neq; lia).
    rewrite E1, E2. simpl.
    destruct (svd _ k) as [[s vt]|]; [|reflexivity].
    eexists. split; [reflexivity|]. split; reflexivity.
Qed.

(** ** accessors *)
Lemma explained_variance_is_lams (m : @pca R) : explained_variance oR m = lams_of oR (nsamples m) (sigma m).
Proof. reflexivity. Qed.

Lemma Rsum_map_div l s : Rsum (map (fun e => e / s) l) = Rsum l / s.
Proof. induction l as [|a l IH]; simpl; [unfold Rdiv; ring|]. rewrite IH. unfold Rdiv. ring. Qed.

Lemma ratio_proportional (m : @pca R) :
  let ev := explained_variance oR m in
  let evr := explained_variance_ratio oR m in
  Rsum ev <> 0 ->
  length evr = length ev /\
  (forall i, nth i evr 0 * Rsum ev = nth i ev 0) /\ Rsum evr = 1.
Proof.
  cbv zeta. unfold explained_variance_ratio. rewrite usum_R. intros NZ.
  set (ev := explained_variance oR m) in *. repeat split.
  - apply map_length.
  - intros i. destruct (Nat.lt_ge_cases i (length ev)) as [Hi|Hi].
    + rewrite (nth_map_lt (fun e => div oR e (Rsum ev)) ev 0 0 i Hi). simpl. field. exact NZ.
    + rewrite !nth_overflow by (try rewrite map_length; exact Hi). ring.
  - simpl. rewrite Rsum_map_div. field. exact NZ.
Qed.

Lemma ratio_nonneg (m : @pca R) : (2 <= nsamples m)%N ->
  Forall (fun e => 0 <= e) (explained_variance oR m).
Proof.
  intros Hn. unfold explained_variance. apply Forall_forall. intros e He.
  apply in_map_iff in He as (s & <- & _). simpl.
  assert (1 <= INR (N.to_nat (nsamples m)) - 1).
  { assert (2 <= N.to_nat (nsamples m))%nat by lia. apply le_INR in H. simpl in H. lra. }
  apply Rmult_le_pos; [nra|]. left. apply Rinv_0_lt_compat. lra.
Qed.

(** ** whitening: if the raw pairs diagonalise the covariance with variances sigma_i^2/(n-1)
       (which the checker certifies per run), the whitened components give identity covariance *)
Lemma Rdot_scale_r c a : forall x, Rdot (map (fun v => v * c) a) x = c * Rdot a x.
Proof. induction a as [|v a IH]; intros [|y x]; simpl; try ring. rewrite IH. ring. Qed.
Lemma bil_scale_l c z M x : bil (map (fun v => v * c) z) M x = c * bil z M x.
Proof. unfold bil. apply Rdot_scale_r. Qed.
Lemma bil_scale_r c z M x : bil z M (map (fun v => v * c) x) = c * bil z M x.
Proof.
  unfold bil. revert z. induction M as [|r M IH]; intros [|z0 z]; simpl; try ring.
  rewrite IH. rewrite (Rdot_comm r), Rdot_scale_r, (Rdot_comm x r). ring.
Qed.
Lemma whiten_rows_nth cs : forall vt sg i, (i < length vt)%nat -> (i < length sg)%nat ->
  nth i (whiten_rows oR cs vt sg) [] = map (fun v => v * (cs / nth i sg 0)) (nth i vt []).
Proof.
  induction vt as [|r vt IH]; intros [|s sg] [|i] Hv Hs; simpl in *; try lia; auto.
  apply IH; lia.
Qed.

Theorem whitening_identity_covariance (n : N) (C vt : list (list R)) (sg : list R) :
  (2 <= n)%N -> length vt = length sg -> Forall (fun s => 0 < s) sg ->
  (forall i j, (i < length sg)%nat -> (j < length sg)%nat ->
     bil (nth i vt []) C (nth j vt []) = if Nat.eqb i j then nth i sg 0 * nth i sg 0 / (INR (N.to_nat n) - 1) else 0) ->
  let W := whiten_rows oR (sqrt oR (sub oR (of_N oR n) (one oR))) vt sg in
  forall i j, (i < length sg)%nat -> (j < length sg)%nat ->
    bil (nth i W []) C (nth j W []) = if Nat.eqb i j then 1 else 0.
Proof.
  intros Hn L Fs HD W i j Hi Hj. unfold W.
  rewrite !whiten_rows_nth by lia. rewrite bil_scale_l, bil_scale_r, (HD i j Hi Hj).
  simpl.
  assert (N1 : 1 <= INR (N.to_nat n) - 1).
  { assert (2 <= N.to_nat n)%nat by lia. apply le_INR in H. simpl in H. lra. }
  destruct (Nat.eqb i j) eqn:E; [|ring].
  apply Nat.eqb_eq in E. subst j.
  rewrite Forall_forall in Fs. pose proof (Fs (nth i sg 0) (nth_In _ _ Hi)) as Ps.
  set (s := nth i sg 0) in *. set (q := INR (N.to_nat n) - 1) in *.
  assert (SQ : R_sqrt.sqrt q * R_sqrt.sqrt q = q) by (apply sqrt_sqrt; lra).
  unfold Rdiv. 
  transitivity ((R_sqrt.sqrt q * R_sqrt.sqrt q) * (/ s * / s) * (s * s * / q)); [ring|].
  rewrite SQ. field. lra.
Qed.

(** ** round trip: inverse_transform (predict x) is the orthogonal projection of x onto the span
       of the components about the mean *)
Fixpoint orthogonal (W : list (list R)) : Prop :=
  match W with
  | [] => True
  | w :: W' => Rdot w w <> 0 /\ Forall (fun v => Rdot w v = 0) W' /\ orthogonal W'
  end.
(* the coefficients inverse_transform(predict(.)) uses: (d . w_i) / (w_i . w_i) *)
Definition pcoefs (W : list (list R)) (d : list R) : list R := map (fun w => Rdot d w / Rdot w w) W.

Lemma map2_map_map {A B1 B2 C} (g : B1 -> B2 -> C) (f1 : A -> B1) (f2 : A -> B2) l :
  map2 g (map f1 l) (map f2 l) = map (fun a => g (f1 a) (f2 a)) l.
Proof. induction l as [|a l IH]; simpl; auto. rewrite IH. reflexivity. Qed.

Lemma roundtrip_unfold (m : @pca R) x :
  inverse_row oR m (predict_row oR m x)
  = vadd oR (lincomb oR (length (pmean m)) (pcoefs (embedding m) (vsub oR x (pmean m))) (embedding m)) (pmean m).
Proof.
  unfold inverse_row, inverse_coefs, predict_row, sq_norms, pcoefs. f_equal. f_equal.
  rewrite map2_map_map. apply map_ext. intros w. rewrite row_dot_R, dot_Rdot. reflexivity.
Qed.

Lemma vadd_len a : forall b, length a = length b -> length (vadd oR a b) = length a.
Proof. apply map2_len. Qed.
Lemma lincomb_len p c : forall W, Forall (fun w => length w = p) W -> length (lincomb oR p c W) = p.
Proof.
  induction c as [|ci c IH]; intros [|w W] FW; cbn [lincomb]; try apply repeat_length.
  pose proof (Forall_inv FW) as Lw; cbv beta in Lw. pose proof (Forall_inv_tail FW) as FW'.
  unfold vadd. rewrite map2_len; rewrite map_length; [exact Lw|]. rewrite IH; auto.
Qed.
Lemma Rdot_vadd v a : forall b, length a = length b -> Rdot v (vadd oR a b) = Rdot v a + Rdot v b.
Proof.
  intros b L. rewrite (Rdot_comm v), (Rdot_comm v a), (Rdot_comm v b). apply Rdot_map2_add. exact L.
Qed.
Lemma Rdot_vsub v a : forall b, length a = length b -> Rdot v (vsub oR a b) = Rdot v a - Rdot v b.
Proof.
  intros b L. rewrite (Rdot_comm v), (Rdot_comm v a), (Rdot_comm v b). apply Rdot_map2_sub. exact L.
Qed.
Lemma Rdot_scale' c a x : Rdot (map (fun v => mul oR c v) a) x = c * Rdot a x.
Proof. exact (Rdot_scale c a x). Qed.
Lemma Rdot_lincomb p v c : forall W, Forall (fun w => length w = p) W ->
  Rdot v (lincomb oR p c W) = Rsum (map2 (fun ci w => ci * Rdot v w) c W).
Proof.
  induction c as [|ci c IH]; intros [|w W] FW; cbn [lincomb map2 Rsum fold_right];
    try (rewrite (Rdot_comm v); apply Rdot_repeat0).
  pose proof (Forall_inv FW) as Lw; cbv beta in Lw. pose proof (Forall_inv_tail FW) as FW'.
  rewrite Rdot_vadd by (rewrite map_length, lincomb_len; auto).
  rewrite (IH W FW'). rewrite (Rdot_comm v (map _ w)). rewrite (Rdot_scale' ci w v), (Rdot_comm w v). reflexivity.
Qed.
Lemma lincomb_perp p v c : forall W, Forall (fun w => length w = p) W -> Forall (fun w => Rdot v w = 0) W ->
  Rdot v (lincomb oR p c W) = 0.
Proof.
  intros W FW FP. rewrite (Rdot_lincomb p) by exact FW. revert W FW FP.
  induction c as [|ci c IH]; intros [|w W] FW FP; simpl; auto.
  rewrite (Forall_inv FP). rewrite IH; [ring| exact (Forall_inv_tail FW) | exact (Forall_inv_tail FP)].
Qed.

(* residual of d after removing its components along W is orthogonal to every row of W *)
Lemma residual_perp p : forall W d, orthogonal W -> Forall (fun w => length w = p) W -> length d = p ->
  Forall (fun w => Rdot w (vsub oR d (lincomb oR p (pcoefs W d) W)) = 0) W.
Proof.
  induction W as [|w W IH]; intros d HO FW Ld; [constructor|].
  destruct HO as (Hww & Hperp & HO). pose proof (Forall_inv FW) as Lw; cbv beta in Lw. pose proof (Forall_inv_tail FW) as FW'.
  set (c0 := Rdot d w / Rdot w w).
  assert (LL : length (lincomb oR p (pcoefs W d) W) = p) by (apply lincomb_len; exact FW').
  change (pcoefs (w :: W) d) with (c0 :: pcoefs W d). cbn [lincomb].
  assert (Ltot : length (vadd oR (map (fun v => mul oR c0 v) w) (lincomb oR p (pcoefs W d) W)) = p).
  { rewrite vadd_len; rewrite map_length; [exact Lw|]. rewrite lincomb_len; [exact Lw | exact FW']. }
  constructor.
  - rewrite Rdot_vsub by lia. rewrite Rdot_vadd by (rewrite map_length; lia).
    rewrite (lincomb_perp p w _ W FW' Hperp).
    rewrite (Rdot_comm w (map _ w)), (Rdot_scale' c0 w w). unfold c0. rewrite (Rdot_comm w d). field. exact Hww.
  - (* rows of W: the coefficients of d and of d' = d - c0 w agree *)
    set (d' := vsub oR d (map (fun v => mul oR c0 v) w)).
    assert (Ld' : length d' = p) by (unfold d', vsub; rewrite map2_len; rewrite ?map_length; lia).
    assert (Ec : pcoefs W d' = pcoefs W d).
    { unfold pcoefs. apply map_ext_in. intros v Hv. f_equal.
      unfold d'. rewrite (Rdot_comm _ v), Rdot_vsub by (rewrite map_length; lia).
      rewrite (Rdot_comm v (map _ w)), (Rdot_scale' c0 w v).
      rewrite Forall_forall in Hperp. rewrite (Hperp v Hv). rewrite (Rdot_comm v d). ring. }
    pose proof (IH d' HO FW' Ld') as R. rewrite Ec in R.
    apply Forall_forall. intros v Hv. rewrite Forall_forall in R. specialize (R v Hv).
    rewrite Forall_forall in FW'. pose proof (FW' v Hv) as Lv.
    rewrite Rdot_vsub in R by lia. rewrite Rdot_vsub by lia. rewrite Rdot_vadd by (rewrite map_length; lia).
    unfold d' in R. rewrite Rdot_vsub in R by (rewrite map_length; lia). lra.
Qed.

Theorem roundtrip_is_projection (m : @pca R) (x : list R) :
  let p := length (pmean m) in
  let W := embedding m in
  let y := inverse_row oR m (predict_row oR m x) in
  orthogonal W -> Forall (fun w => length w = p) W -> length x = p ->
  (* y - mean is a linear combination of the components ... *)
  y = vadd oR (lincomb oR p (pcoefs W (vsub oR x (pmean m))) W) (pmean m) /\
  (* ... and x - y is orthogonal to every component *)
  Forall (fun w => Rdot w (vsub oR x y) = 0) W.
Proof.
  cbv zeta. intros HO FW Lx. split; [apply roundtrip_unfold|].
  rewrite roundtrip_unfold.
  set (p := length (pmean m)) in *. set (mu := pmean m) in *. set (W := embedding m) in *.
  set (d := vsub oR x mu).
  assert (Ld : length d = p) by (unfold d, vsub; rewrite map2_len; lia).
  pose proof (residual_perp p W d HO FW Ld) as R.
  assert (LL : length (lincomb oR p (pcoefs W d) W) = p) by (apply lincomb_len; exact FW).
  apply Forall_forall. intros w Hw. rewrite Forall_forall in R. specialize (R w Hw).
  rewrite Forall_forall in FW. pose proof (FW w Hw) as Lw.
  rewrite Rdot_vsub in R by lia. unfold d in R at 1. rewrite Rdot_vsub in R by (fold p; lia).
  rewrite Rdot_vsub by (rewrite vadd_len; fold p; lia). rewrite Rdot_vadd by (fold p; lia). lra.
Qed.

Lemma vsub_vadd (L : list R) : forall mu, length L = length mu -> vsub oR (vadd oR L mu) mu = L.
Proof.
  unfold vsub, vadd. induction L as [|l L IH]; intros [|u mu] E; simpl in *; try discriminate; auto.
  rewrite IH by lia. f_equal. ring.
Qed.

Lemma pcoefs_lincomb p : forall W a, orthogonal W -> Forall (fun w => length w = p) W -> length a = length W ->
  pcoefs W (lincomb oR p a W) = a.
Proof.
  induction W as [|w W IH]; intros [|a0 a] HO FW La; simpl in La; try discriminate; auto.
  destruct HO as (Hww & Hperp & HO). pose proof (Forall_inv FW) as Lw; cbv beta in Lw. pose proof (Forall_inv_tail FW) as FW'.
  assert (LL : length (lincomb oR p a W) = p) by (apply lincomb_len; exact FW').
  cbn [pcoefs map lincomb]. f_equal.
  - rewrite (Rdot_comm _ w), Rdot_vadd by (rewrite map_length; lia).
    rewrite (lincomb_perp p w a W FW' Hperp). rewrite (Rdot_comm w (map _ w)), (Rdot_scale' a0 w w). field. exact Hww.
  - fold (pcoefs W (vadd oR (map (fun v => mul oR a0 v) w) (lincomb oR p a W))).
    rewrite <- (IH a HO FW') at 2 by lia. unfold pcoefs. apply map_ext_in. intros v Hv. f_equal.
    rewrite Forall_forall in FW'. pose proof (FW' v Hv) as Lv.
    rewrite (Rdot_comm _ v), Rdot_vadd by (rewrite map_length; lia).
    rewrite (Rdot_comm v (map _ w)), (Rdot_scale' a0 w v). rewrite Forall_forall in Hperp. rewrite (Hperp v Hv).
    rewrite (Rdot_comm v). ring.
Qed.

(* on the affine subspace mean + span(components) the round trip is the identity; for k = p
   orthogonal non-zero components that subspace is the whole space *)
Theorem roundtrip_identity_on_span (m : @pca R) (a : list R) :
  let p := length (pmean m) in
  let W := embedding m in
  let x := vadd oR (lincomb oR p a W) (pmean m) in
  orthogonal W -> Forall (fun w => length w = p) W -> length a = length W ->
  inverse_row oR m (predict_row oR m x) = x.
Proof.
  cbv zeta. intros HO FW La. rewrite roundtrip_unfold.
  rewrite vsub_vadd by (rewrite lincomb_len; auto).
  rewrite (pcoefs_lincomb _ _ a HO FW La). reflexivity.
Qed.

Theorem projection_idempotent (m : @pca R) (x : list R) :
  let p := length (pmean m) in
  let W := embedding m in
  let P := fun z => inverse_row oR m (predict_row oR m z) in
  orthogonal W -> Forall (fun w => length w = p) W -> length x = p ->
  P (P x) = P x.
Proof.
  cbv beta zeta. intros HO FW Lx. rewrite (roundtrip_unfold m x).
  apply (roundtrip_identity_on_span m); auto. unfold pcoefs. apply map_length.
Qed.

(** ** the bilinear form of the sample covariance IS the sample covariance of the projected data:
       u^T C v = sum_t ((x_t - m).u) ((x_t - m).v) / (n - 1) *)
Definition gramN (cs : list (list R)) : list (list R) := map (fun ca => map (fun cb => Rdot ca cb) cs) cs.
Definition cross_moment (rows : list (list R)) (u v : list R) : R :=
  Rsum (map (fun x => Rdot x u * Rdot x v) rows).

Lemma map_nth_seq {A} (g : R -> A) x : map (fun a => g (nth a x 0)) (seq 0 (length x)) = map g x.
Proof.
  induction x as [|x0 x IH]; simpl; auto. f_equal. rewrite <- seq_shift, map_map. exact IH.
Qed.
Lemma cols_cons p x rows : cols oR p (x :: rows) = map (fun j => nth j x 0 :: column oR j rows) (seq 0 p).
Proof. reflexivity. Qed.
Lemma gramN_cols_cons p x rows : length x = p ->
  gramN (cols oR p (x :: rows)) = madd oR (outer oR x) (gramN (cols oR p rows)).
Proof.
  intros Lx. rewrite cols_cons. unfold gramN, cols, madd, outer. rewrite !map_map.
  rewrite <- (map_nth_seq (fun a => map (fun b => mul oR a b) x) x), Lx.
  rewrite map2_map_map. apply map_ext. intros a. rewrite !map_map.
  rewrite <- (map_nth_seq (fun b => mul oR (nth a x 0) b) x), Lx.
  rewrite map2_map_map. apply map_ext. intros b. reflexivity.
Qed.
Lemma rect_gramN_cols p rows : rect p p (gramN (cols oR p rows)).
Proof.
  unfold gramN, cols. split; [rewrite !map_length, seq_length; reflexivity|].
  apply Forall_forall. intros r Hr. apply in_map_iff in Hr as (c & <- & _).
  rewrite !map_length, seq_length. reflexivity.
Qed.
Lemma bil_gramN p u v : forall rows, Forall (fun x => length x = p) rows ->
  bil u (gramN (cols oR p rows)) v = cross_moment rows u v.
Proof.
  unfold cross_moment. induction rows as [|x rows IH]; intros FR.
  - cbn [map Rsum fold_right].
    assert (E : gramN (cols oR p []) = repeat (repeat 0 p) p).
    { unfold gramN, cols, column. cbn [map].
      assert (K : forall s n, map (fun _ : nat => @nil R) (seq s n) = repeat [] n).
      { intros s n. revert s. induction n as [|n IHn]; intros s; simpl; auto. rewrite IHn. reflexivity. }
      rewrite K. rewrite map_repeat'. f_equal. rewrite map_repeat'. reflexivity. }
    rewrite E. apply bil_zeros_rows.
  - pose proof (Forall_inv FR) as Lx; cbv beta in Lx. pose proof (Forall_inv_tail FR) as FR'.
    rewrite (gramN_cols_cons p x rows Lx).
    rewrite (bil_madd p p); [| rewrite <- Lx; apply rect_outer | apply rect_gramN_cols].
    rewrite bil_outer, (IH FR'). cbn [map Rsum fold_right]. rewrite (Rdot_comm u x). reflexivity.
Qed.
Lemma gram_scale n1 cs : gram oR n1 cs = mscale oR (/ n1) (gramN cs).
Proof.
  unfold gram, mscale, gramN. rewrite map_map. apply map_ext. intros ca. rewrite map_map. apply map_ext.
  intros cb. rewrite dot_Rdot. simpl. unfold Rdiv. ring.
Qed.

Theorem projected_covariance_is_bilinear_form (n : N) (p : nat) (X : list (list R)) (u v : list R) :
  Forall (fun x => length x = p) X ->
  let m := emean oR (of_N oR n) (cols oR p X) in          (* exact column means *)
  let Xc := centre oR X m in
  length m = p ->
  bil u (cov oR n p X) v = cross_moment Xc u v / (INR (N.to_nat n) - 1).
Proof.
  cbv zeta. intros FX Lm. unfold cov. rewrite gram_scale, bil_mscale, (bil_gramN p).
  - simpl. unfold Rdiv. ring.
  - unfold centre. apply Forall_forall. intros r Hr. apply in_map_iff in Hr as (x & <- & Hx).
    rewrite Forall_forall in FX. unfold vsub. rewrite map2_len; rewrite (FX x Hx); auto.
Qed.

(* ========================================================================================== *)
(** * non-vacuity: a concrete fit satisfying every premise used above
      five records in the plane, column means 0, sample covariance diag(1, 1/4) *)
Definition exX : list (list dq) :=
  map (map (fun z => mkdq z (-1) 1)) [[2; 1]; [-2; 1]; [2; -1]; [-2; -1]; [0; 0]]%Z.
Definition exq (z : Z) : dq := mkdq z 0 1.
Definition ex_checks := pca_checks DQ_ops 5 2 1 false exX [exq 0; exq 0] [exq 2] [[exq 1; exq 0]]
                                   [exq 1] [exq 1] exX
                                   (map (map (fun z => mkdq z (-1) 1)) [[2; 0]; [-2; 0]; [2; 0]; [-2; 0]; [0; 0]]%Z)
                                   (map (map (fun z => mkdq z (-1) 1)) [[2]; [-2]; [2]; [-2]; [0]]%Z).
Example ex_all_conjuncts :
  k_mean ex_checks = true /\ k_shape ex_checks = true /\ k_sigma ex_checks = true /\ k_orth ex_checks = true /\
  k_projcov ex_checks = true /\ k_ev ex_checks = true /\ k_ratio ex_checks = true /\ k_roundtrip ex_checks = true /\
  k_resid ex_checks = true /\ k_coefs ex_checks = true /\ k_bound ex_checks = true /\
  k_scores ex_checks = true /\
  lead_psd 2 (k_T ex_checks) (k_M ex_checks) = true.
Proof. vm_compute. repeat split. Qed.
(* the second axis alone is an orthonormal direction but not the leading one: the certificate refuses it *)
Definition ex_checks_wrong := pca_checks DQ_ops 5 2 1 false exX [exq 0; exq 0] [exq 1] [[exq 0; exq 1]]
                                   [mkdq 1 (-2) 1] [exq 1] [] [] [].
Example ex_wrong_axis_rejected :
  k_resid ex_checks_wrong = true /\ lead_psd 2 (k_T ex_checks_wrong) (k_M ex_checks_wrong) = false.
Proof. vm_compute. split; reflexivity. Qed.

Example ex_orthonormal_frame : orthonormal [[1; 0]] /\ Forall (fun u => length u = 2%nat) [[1; 0]].
Proof. simpl. repeat split; auto; try lra. Qed.
Example ex_orthogonal_components : orthogonal [[2; 0]; [0; 3]].
Proof. simpl. repeat split; auto; try lra. constructor; [lra|constructor]. Qed.
Example ex_whitening_premise :
  forall i j, (i < 2)%nat -> (j < 2)%nat ->
  bil (nth i [[1; 0]; [0; 1]] []) [[1; 0]; [0; / 4]] (nth j [[1; 0]; [0; 1]] [])
  = if Nat.eqb i j then nth i [2; 1] 0 * nth i [2; 1] 0 / (INR (N.to_nat 5) - 1) else 0.
Proof.
  intros i j Hi Hj. destruct i as [|[|i]]; destruct j as [|[|j]]; try lia; unfold bil; simpl; field.
Qed.
Example ex_hom_inhabited : D2R (dq_div (exq 3) (exq 4)) = 3 / 4.
Proof. rewrite D2R_div. unfold D2R; simpl. field. Qed.
Example ex_cross_moment_premises :
  Forall (fun x => length x = 2%nat) [[1; 0]; [-1; 0]] /\
  length (emean oR (of_N oR 2) (cols oR 2 [[1; 0]; [-1; 0]])) = 2%nat.
Proof. split; [repeat constructor | reflexivity]. Qed.
