(** C18 - property theorems (statements only; proofs are in C18/Proofs.v).

    Pattern B (certified per run): the checker [pca_checks] (C18/Check.v) is evaluated by vm_compute in
    exact dyadic-rational arithmetic (DQ_ops) on the implementation's output.  Theorem 1 says that this
    evaluation IS the real-number checker on the embedded data; theorems 2-10 say what each accepted
    conjunct means over R; theorems 11-13 turn the exact LDL^T deflation certificate into the statement
    "no orthonormal k-frame retains more variance" (Ky Fan).
    Pattern A (all inputs): theorems 14-21 are about the Gallina model of pca.rs at R_ops.
    Extension: 23-25 close the former open item (with all p components the round trip is the identity:
    an orthogonal family of p non-zero vectors of R^p spans R^p; V V^T = I implies V^T V = I for square V);
    26-28 restate the Ky Fan certificate against the REPORTED explained variances with an explicit
    slack [ky_slack]; 29 is the meaning of the conjunct on the scores `predict` actually returned.

    Notation: [bil u C v] = u^T C v, [cov oR n p X] the sample covariance (divisor n-1) of the rows of X,
    [lams_of oR n sg] = sigma_i^2/(n-1), [scs_of] = 1 (plain) or lambda_i (whitened embedding: the unit
    direction is v_i = sqrt(sc_i) w_i), [tolR e] = 2^-e. *)
From Coq Require Import List NArith ZArith Reals Bool.
From LinfaVerif Require Import Common.Num Common.NdSum Common.QF Common.LDL C18.Model C18.Check C18.Proofs C18.Frames.
Import ListNotations.
Local Open Scope R_scope.

(** 1. exact dyadic evaluation = the real-number checker on the embedded data *)
Theorem exact_arithmetic_is_real_checker :
  forall n p k whiten (X : list (list dq)) mu sg W ev evr Qs invs Zs,
  let ka := pca_checks DQ_ops n p k whiten X mu sg W ev evr Qs invs Zs in
  let kb := pca_checks R_ops n p k whiten (map (map D2R) X) (map D2R mu) (map D2R sg) (map (map D2R) W)
                       (map D2R ev) (map D2R evr) (map (map D2R) Qs) (map (map D2R) invs) (map (map D2R) Zs) in
  k_mean ka = k_mean kb /\ k_shape ka = k_shape kb /\ k_sigma ka = k_sigma kb /\ k_orth ka = k_orth kb /\
  k_projcov ka = k_projcov kb /\ k_ev ka = k_ev kb /\ k_ratio ka = k_ratio kb /\
  k_roundtrip ka = k_roundtrip kb /\ k_resid ka = k_resid kb /\ k_coefs ka = k_coefs kb /\
  k_bound ka = k_bound kb /\ k_scores ka = k_scores kb /\ D2R (k_T ka) = k_T kb /\ map (map D2R) (k_M ka) = k_M kb.
Proof. exact (hom_pca_checks D2R DQ_ops R_ops D2R_hom). Qed.

(** 2. the reported mean is the column mean (up to the rounding of a float summation) *)
Theorem mean_certified : forall n p X mu, mean_ok R_ops n p X mu = true ->
  length mu = p /\
  forall j, (j < p)%nat ->
    let c := column R_ops j X in
    Rabs (nth j mu 0 - Rsum c / INR (N.to_nat n)) <= tolR 45 * Rsum (map Rabs c) / INR (N.to_nat n).
Proof. exact mean_ok_sound. Qed.

(** 3. singular values are positive and ordered non-increasingly *)
Theorem singular_values_ordered : forall sg, sigma_ok R_ops sg = true ->
  Forall (fun s => 0 < s) sg /\ forall i, (S i < length sg)%nat -> nth (S i) sg 0 <= nth i sg 0.
Proof. exact sigma_ok_sound. Qed.

(** 4. the components are orthonormal directions (whitened ones after undoing the scale) *)
Theorem components_orthonormal : forall scs W, orth_ok R_ops scs W = true ->
  forall i j, (i < length W)%nat -> (j < length W)%nat ->
  let d := Rdot (nth i W []) (nth j W []) in
  (i = j -> Rabs (nth i scs 0 * d - 1) <= tolR 20) /\
  (i <> j -> nth i scs 0 * nth j scs 0 * (d * d) <= tolR 20 * tolR 20).
Proof. exact orth_ok_sound. Qed.

(** 5. projecting the centred training data gives uncorrelated coordinates with variances
       sigma_i^2/(n-1); for a whitened embedding (sc_i = lambda_i) this reads w_i^T C w_i = 1 and
       w_i^T C w_j = 0 up to 2^-20 T / lambda *)
Theorem projected_covariance_diagonal : forall T lams scs C W, length lams = length W ->
  projcov_ok R_ops T lams scs (G_of R_ops W (CW_of R_ops C W)) = true ->
  forall i j, (i < length W)%nat -> (j < length W)%nat ->
  let g := bil (nth i W []) C (nth j W []) in
  (i = j -> Rabs (nth i scs 0 * g - nth i lams 0) <= tolR 20 * T) /\
  (i <> j -> nth i scs 0 * nth j scs 0 * (g * g) <= (tolR 20 * T) * (tolR 20 * T)).
Proof. exact projcov_ok_sound. Qed.

(** 6. each component is an eigen-direction of the sample covariance: |C w - lambda w|_inf small *)
Theorem eigen_residual_small : forall T lams C W, length lams = length W ->
  resid_ok R_ops T lams W (CW_of R_ops C W) = true ->
  forall i a, (i < length W)%nat -> (a < length C)%nat -> (a < length (nth i W []))%nat ->
  Rabs (Rdot (nth a C []) (nth i W []) - nth i lams 0 * nth a (nth i W []) 0)
    <= tolR 23 * T * Rsum (map Rabs (nth i W [])).
Proof. exact resid_ok_sound. Qed.

(** 7. explained_variance is sigma^2/(n-1) *)
Theorem explained_variance_certified : forall lams ev, ev_ok R_ops lams ev = true ->
  length ev = length lams /\
  forall i, (i < length lams)%nat -> Rabs (nth i ev 0 - nth i lams 0) <= tolR 50 * nth i lams 0.
Proof. exact ev_ok_sound. Qed.

(** 8. the ratios are non-negative, proportional to the explained variances, and sum to one *)
Theorem ratios_certified : forall ev evr, ratio_ok R_ops ev evr = true ->
  length evr = length ev /\
  (forall i, (i < length ev)%nat ->
     0 <= nth i evr 0 /\ Rabs (nth i evr 0 * Rsum ev - nth i ev 0) <= tolR 45 * Rsum ev) /\
  (length ev <> 0%nat -> Rabs (Rsum evr - 1) <= tolR 45).
Proof. exact ratio_ok_sound. Qed.

(** 9. transform followed by inverse transform is the orthogonal projection about the mean
       (the identity when all p components are present) on every explored row *)
Theorem roundtrip_certified : forall p scs W mu Qs invs, roundtrip_ok R_ops p scs W mu Qs invs = true ->
  length invs = length Qs /\
  forall t, (t < length Qs)%nat ->
    let x := nth t Qs [] in let inv := nth t invs [] in
    let P := projection R_ops p scs W mu x in
    let scale := Rsum (map Rabs (vsub R_ops x mu)) in
    length inv = p /\ length x = p /\
    (forall j, (j < p)%nat -> (j < length P)%nat -> (j < length mu)%nat ->
       Rabs (nth j inv 0 - nth j P 0) <= tolR 20 * (scale + Rabs (nth j mu 0))) /\
    (length W = p -> forall j, (j < p)%nat -> (j < length mu)%nat ->
       Rabs (nth j inv 0 - nth j x 0) <= tolR 20 * (scale + Rabs (nth j mu 0))).
Proof. exact roundtrip_ok_sound. Qed.

(** 10. the quadratic form of the certificate matrix:
        x^T M x = shift |x|^2 - x^T C x + sum_i c_i (w_i . x)^2 *)
Theorem certificate_matrix_form : forall p C shift cf W x,
  rect p p C -> Forall (fun w => length w = p) W -> length x = p ->
  Rquad (Mlead R_ops p C shift cf W) x = shift * Rdot x x - Rquad C x + r1sum cf W x.
Proof. exact Rquad_Mlead. Qed.

(** 11. the deflation certificate (coarse-grid LDL^T + exact diagonally dominant remainder) proves
        positive semi-definiteness of the exact matrix *)
Theorem deflation_certificate_sound : forall p T (M : list (list dq)),
  lead_psd p T M = true -> rect p p (map (map D2R) M) ->
  forall x, length x = p -> 0 <= Rquad (map (map D2R) M) x.
Proof. exact lead_psd_sound. Qed.

(** 12. Ky Fan: a PSD certificate matrix bounds the variance retained by EVERY orthonormal frame *)
Theorem ky_fan : forall p C shift cf W U,
  (forall x, length x = p -> 0 <= Rquad (Mlead R_ops p C shift cf W) x) ->
  rect p p C -> Forall (fun w => length w = p) W -> Forall (fun c => 0 <= c) cf ->
  orthonormal U -> Forall (fun u => length u = p) U ->
  retained_by C U <= INR (length U) * shift + Rsum (map2 (fun c w => c * Rdot w w) cf W).
Proof. exact ky_fan_bound. Qed.

(** 13. hence, for a fit accepted by the checker: no k-dimensional orthogonal projection retains
        more variance than the returned components (plus (k-m) mu0 for components the solver dropped
        below its cut-off), up to (k 2^-17 + 2^-20) trace(C) *)
Theorem leading_subspace_certified :
  forall n p k whiten (X : list (list dq)) mu sg W ev evr Qs invs Zs,
  let ks := pca_checks DQ_ops n p k whiten X mu sg W ev evr Qs invs Zs in
  k_shape ks = true -> k_coefs ks = true -> k_bound ks = true -> lead_psd p (k_T ks) (k_M ks) = true ->
  let XR := map (map D2R) X in
  let WR := map (map D2R) W in
  let C := cov R_ops n p XR in
  let lams := lams_of R_ops n (map D2R sg) in
  let scs := scs_of R_ops whiten lams in
  forall U, orthonormal U -> Forall (fun u => length u = p) U -> length U = N.to_nat k ->
  retained_by C U <=
    retained R_ops scs (G_of R_ops WR (CW_of R_ops C WR))
    + (INR (N.to_nat k) - INR (length sg)) * mu0_of R_ops k lams
    + (INR (N.to_nat k) * tolR 17 + tolR 20) * trace R_ops C.
Proof. exact Proofs.leading_subspace_certified. Qed.

(** 14. an empty dataset or an embedding size outside 1..p is an error; everything else reaches the
        solver and, when it answers, yields a model with the column mean (every arithmetic) *)
Theorem fit_guards : forall F (o : NumOps F) floor svd cm wh n p k X,
  (n = 0%N -> fit o floor svd cm wh n p k X = FitErrNotEnoughSamples) /\
  (n <> 0%N -> (k = 0%N \/ (p < k)%N) -> fit o floor svd cm wh n p k X = FitErrEmbeddingTooSmall k) /\
  (n <> 0%N -> (1 <= k)%N -> (k <= p)%N ->
     match svd (centre o X (mean_axis0 o cm n (N.to_nat p) X)) k with
     | None => fit o floor svd cm wh n p k X = FitErrSolver
     | Some _ => exists m, fit o floor svd cm wh n p k X = FitOk m /\ nsamples m = n
                           /\ pmean m = mean_axis0 o cm n (N.to_nat p) X
     end).
Proof. exact (@Proofs.fit_guards). Qed.

(** 15. whitening: directions that diagonalise C with variances sigma_i^2/(n-1) become, after the
        scaling of `fit`, directions along which the projected data has identity covariance *)
Theorem whitening_identity_covariance : forall (n : N) (C vt : list (list R)) (sg : list R),
  (2 <= n)%N -> length vt = length sg -> Forall (fun s => 0 < s) sg ->
  (forall i j, (i < length sg)%nat -> (j < length sg)%nat ->
     bil (nth i vt []) C (nth j vt []) = if Nat.eqb i j then nth i sg 0 * nth i sg 0 / (INR (N.to_nat n) - 1) else 0) ->
  let W := whiten_rows R_ops (sqrt R_ops (sub R_ops (of_N R_ops n) (one R_ops))) vt sg in
  forall i j, (i < length sg)%nat -> (j < length sg)%nat ->
    bil (nth i W []) C (nth j W []) = if Nat.eqb i j then 1 else 0.
Proof. exact Proofs.whitening_identity_covariance. Qed.

(** 16. inverse_transform (predict x) = mean + sum_i ((x-mean).w_i / w_i.w_i) w_i, and x minus it is
        orthogonal to every component: it is the orthogonal projection onto the component subspace
        about the mean (orthogonal non-zero components, whitened or not) *)
Theorem roundtrip_is_projection : forall (m : @pca R) (x : list R),
  let p := length (pmean m) in
  let W := embedding m in
  let y := inverse_row R_ops m (predict_row R_ops m x) in
  orthogonal W -> Forall (fun w => length w = p) W -> length x = p ->
  y = vadd R_ops (lincomb R_ops p (pcoefs W (vsub R_ops x (pmean m))) W) (pmean m) /\
  Forall (fun w => Rdot w (vsub R_ops x y) = 0) W.
Proof. exact Proofs.roundtrip_is_projection. Qed.

(** 17. the round trip is idempotent *)
Theorem projection_idempotent : forall (m : @pca R) (x : list R),
  let p := length (pmean m) in
  let W := embedding m in
  let P := fun z => inverse_row R_ops m (predict_row R_ops m z) in
  orthogonal W -> Forall (fun w => length w = p) W -> length x = p ->
  P (P x) = P x.
Proof. exact Proofs.projection_idempotent. Qed.

(** 18. and it is the identity on mean + span(components) (the whole space when k = p) *)
Theorem roundtrip_identity_on_span : forall (m : @pca R) (a : list R),
  let p := length (pmean m) in
  let W := embedding m in
  let x := vadd R_ops (lincomb R_ops p a W) (pmean m) in
  orthogonal W -> Forall (fun w => length w = p) W -> length a = length W ->
  inverse_row R_ops m (predict_row R_ops m x) = x.
Proof. exact Proofs.roundtrip_identity_on_span. Qed.

(** 19. the ratios are exactly proportional to the explained variances and sum to one *)
Theorem ratio_proportional : forall (m : @pca R),
  let ev := explained_variance R_ops m in
  let evr := explained_variance_ratio R_ops m in
  Rsum ev <> 0 ->
  length evr = length ev /\ (forall i, nth i evr 0 * Rsum ev = nth i ev 0) /\ Rsum evr = 1.
Proof. exact Proofs.ratio_proportional. Qed.

(** 20. explained variances are non-negative for n >= 2 ... *)
Theorem explained_variance_nonneg : forall (m : @pca R), (2 <= nsamples m)%N ->
  Forall (fun e => 0 <= e) (explained_variance R_ops m).
Proof. exact ratio_nonneg. Qed.

(** 21. ... and are, by definition of the model, sigma_i^2/(n_samples - 1) *)
Theorem explained_variance_formula : forall (m : @pca R),
  explained_variance R_ops m = lams_of R_ops (nsamples m) (sigma m).
Proof. exact explained_variance_is_lams. Qed.

(** 22. the quantity certified in 5 is the sample covariance of the projected centred training data:
        u^T C v = sum_t ((x_t - mean).u) ((x_t - mean).v) / (n - 1) *)
Theorem projected_covariance_is_bilinear_form : forall (n : N) (p : nat) (X : list (list R)) (u v : list R),
  Forall (fun x => length x = p) X ->
  let m := emean R_ops (of_N R_ops n) (cols R_ops p X) in
  let Xc := centre R_ops X m in
  length m = p ->
  bil u (cov R_ops n p X) v = cross_moment Xc u v / (INR (N.to_nat n) - 1).
Proof. exact Proofs.projected_covariance_is_bilinear_form. Qed.

(** 23. with all p components (orthogonal, non-zero: plain or whitened embedding) transform followed by
        inverse_transform is the identity on the whole space: p orthogonal non-zero vectors span R^p
        (dimension counting through Bessel's inequality on the unit vectors) *)
Theorem full_rank_roundtrip_identity : forall (m : @pca R) (x : list R),
  let p := length (pmean m) in
  let W := embedding m in
  orthogonal W -> Forall (fun w => length w = p) W -> length W = p -> length x = p ->
  inverse_row R_ops m (predict_row R_ops m x) = x.
Proof. exact Frames.full_rank_roundtrip_identity. Qed.

(** 24. the same with the hypothesis in matrix form, V V^T = I for the p x p matrix of components *)
Theorem full_rank_roundtrip_identity_gram : forall (m : @pca R) (x : list R),
  let p := length (pmean m) in
  let W := embedding m in
  (forall i j, (i < length W)%nat -> (j < length W)%nat ->
     Rdot (nth i W []) (nth j W []) = if Nat.eqb i j then 1 else 0) ->
  Forall (fun w => length w = p) W -> length W = p -> length x = p ->
  inverse_row R_ops m (predict_row R_ops m x) = x.
Proof. exact Frames.full_rank_roundtrip_identity_gram. Qed.

(** 25. left inverse implies right inverse for a square matrix with orthonormal rows: its columns are
        orthonormal too, sum_i w_i[a] w_i[b] = delta_ab *)
Theorem orthonormal_rows_orthonormal_columns : forall p W,
  orthonormal W -> Forall (fun w => length w = p) W -> length W = p ->
  forall a b, (a < p)%nat -> (b < p)%nat ->
  Rsum (map (fun w => nth a w 0 * nth b w 0) W) = if Nat.eqb a b then 1 else 0.
Proof. exact Frames.orthonormal_rows_orthonormal_columns. Qed.

(** 26. "no k-dimensional orthogonal projection retains more variance": for a fit accepted by the checker
        that returned all k components, EVERY orthonormal k-frame U of R^p satisfies
        sum_i u_i^T C u_i <= sum_i explained_variance_i + slack, with C the exact sample covariance and
        slack = (k 2^-17 + 2^-20 + k 2^-20) trace(C) + 2^-50 sum_i sigma_i^2/(n-1) *)
Theorem no_projection_retains_more_variance :
  forall n p k whiten (X : list (list dq)) mu sg W ev evr Qs invs Zs,
  let ks := pca_checks DQ_ops n p k whiten X mu sg W ev evr Qs invs Zs in
  k_shape ks = true -> k_projcov ks = true -> k_ev ks = true -> k_coefs ks = true -> k_bound ks = true ->
  lead_psd p (k_T ks) (k_M ks) = true -> length sg = N.to_nat k ->
  let C := cov R_ops n p (map (map D2R) X) in
  let lams := lams_of R_ops n (map D2R sg) in
  forall U, orthonormal U -> Forall (fun u => length u = p) U -> length U = N.to_nat k ->
  retained_by C U <= Rsum (map D2R ev) + ky_slack (N.to_nat k) (N.to_nat k) (trace R_ops C) (Rsum lams).
Proof. exact Frames.no_projection_retains_more_variance. Qed.

(** 27. the general form: when the solver dropped k - m components below its cut-off, each of them is
        charged mu0 (the cut-off eps 1e6 lambda_1) *)
Theorem variance_optimality_certified :
  forall n p k whiten (X : list (list dq)) mu sg W ev evr Qs invs Zs,
  let ks := pca_checks DQ_ops n p k whiten X mu sg W ev evr Qs invs Zs in
  k_shape ks = true -> k_projcov ks = true -> k_ev ks = true -> k_coefs ks = true -> k_bound ks = true ->
  lead_psd p (k_T ks) (k_M ks) = true ->
  let C := cov R_ops n p (map (map D2R) X) in
  let lams := lams_of R_ops n (map D2R sg) in
  forall U, orthonormal U -> Forall (fun u => length u = p) U -> length U = N.to_nat k ->
  retained_by C U <=
    Rsum (map D2R ev) + (INR (N.to_nat k) - INR (length sg)) * mu0_of R_ops k lams
    + ky_slack (N.to_nat k) (length sg) (trace R_ops C) (Rsum lams).
Proof. exact Frames.variance_optimality_certified. Qed.

(** 28. and the bound is attained: the returned components (unit directions sqrt(sc_i) w_i) retain the
        sum of the reported explained variances up to m 2^-20 trace(C) + 2^-50 sum lambda; for a plain
        embedding the left-hand quantity is sum_i w_i^T C w_i (Frames.retained_plain) *)
Theorem reported_variance_attained :
  forall n p k whiten (X : list (list dq)) mu sg W ev evr Qs invs Zs,
  let ks := pca_checks DQ_ops n p k whiten X mu sg W ev evr Qs invs Zs in
  k_projcov ks = true -> k_ev ks = true ->
  let WR := map (map D2R) W in
  let C := cov R_ops n p (map (map D2R) X) in
  let lams := lams_of R_ops n (map D2R sg) in
  let scs := scs_of R_ops whiten lams in
  Rabs (retained R_ops scs (G_of R_ops WR (CW_of R_ops C WR)) - Rsum (map D2R ev))
    <= INR (length sg) * tolR 20 * trace R_ops C + tolR 50 * Rsum lams.
Proof. exact Frames.reported_variance_attained_certified. Qed.

(** 29. the scores `predict` returned for the n training rows (Z, one row per record) have sample covariance
        S = cov Z with sc_i S_ii = sigma_i^2/(n-1) and S_ij = 0 up to 2^-20 T: uncorrelated coordinates with
        the reported variances; identity covariance for a whitened embedding (sc_i = lambda_i) *)
Theorem scores_covariance_certified : forall n T lams scs Z, scorecov_ok R_ops n T lams scs Z = true ->
  length Z = N.to_nat n /\ Forall (fun z => length z = length lams) Z /\
  let S := cov R_ops n (length lams) Z in
  forall i j, (i < length lams)%nat -> (j < length lams)%nat ->
  let s := nth j (nth i S []) 0 in
  (i = j -> Rabs (nth i scs 0 * s - nth i lams 0) <= tolR 20 * T) /\
  (i <> j -> nth i scs 0 * nth j scs 0 * (s * s) <= (tolR 20 * T) * (tolR 20 * T)).
Proof. exact scorecov_ok_sound. Qed.
