(** C18 - property theorems (work in progress). *)
From Coq Require Import List NArith Reals.
From LinfaVerif Require Import Common.Num Common.NdSum C18.Model C18.Check C18.Proofs.
Import ListNotations.
Local Open Scope R_scope.

Theorem ratio_times_sum_tmp : forall (m : pca R) (s : R), s <> 0 ->
  map (fun e => e / s * s) (explained_variance R_ops m) = explained_variance R_ops m.
Proof. exact ratio_times_sum. Qed.
