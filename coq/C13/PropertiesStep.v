(** C13 - property theorems about single steps of the SMO model C13/Model.v (statements only; proofs are in
    C13/ProofsStep.v, the notions in C13/SpecStep.v).  The model is the one the correspondence replays against
    linfa-svm bit for bit (C13/Corr.v, corr bits 2..16); these are statements about the model, for ALL states. *)
From Coq Require Import List NArith Arith Reals Permutation Floats.
From LinfaVerif Require Import Common.Num Common.QF C13.Model C13.SpecStep C13.ProofsStep.
Import ListNotations.

(** SolverState::swap(i, j) applies the SAME transposition to every per-position array - active_set, alpha,
    gradient, gradient_fixed, p, bounds, targets and the kernel's index / sign permutation - in any arithmetic:
    the state stays consistent, position k of the new state holds the complete row of position (i j) k of the old
    one (so a sample keeps its own coefficient, gradient, bound and target, and alpha[active_set[k]] written back
    at the end is unaffected), the rows are a permutation of the old rows, and nothing else changes.
    (This is the invariant whose violation was finding F10: before the repair 432f285 `bounds` was not swapped.) *)
Theorem swap_keeps_consistent : forall F (o : NumOps F) n (s : state (F := F)) i j,
  consistent n s -> (i < n)%nat -> (j < n)%nat ->
  consistent n (swap o s i j) /\
  rows (swap o s i j) = swapn (drow o) (rows s) i j /\
  (forall k, nth k (rows (swap o s i j)) (drow o) = nth (transp i j k) (rows s) (drow o)) /\
  Permutation (rows s) (rows (swap o s i j)) /\
  sNact (swap o s i j) = sNact s /\ sUnshrink (swap o s i j) = sUnshrink s /\ sR (swap o s i j) = sR s.
Proof. intros F o. exact (swap_keeps_consistent_l o). Qed.

Local Open Scope R_scope.

(** one SMO step SolverState::update(i, j) over the reals, for every state whose coefficients lie in their box
    0 <= alpha_k <= bound_k, every pair i <> j, every kernel, gradient and value of the guard constant `tiny`:
    the new coefficients lie in the box again, the equality constraint sum_k y_k alpha_k is preserved exactly,
    for a pair of the same class (the only pairs the nu solver selects) sum_k alpha_k is preserved as well (the
    second equality constraint of the nu duals), and bounds and targets are untouched *)
Theorem update_keeps_equality : forall tiny (P : problem (F := R)) s i j n,
  i <> j -> (i < n)%nat -> (j < n)%nat ->
  length (sA s) = n -> length (sU s) = n -> length (sT s) = n ->
  boxed (sA s) (sU s) ->
  let s' := update R_ops tiny P s i j in
  boxed (sA s') (sU s') /\
  ydot (sT s') (sA s') = ydot (sT s) (sA s) /\
  (nth i (sT s) true = nth j (sT s) true -> Rsum (sA s') = Rsum (sA s)) /\
  sU s' = sU s /\ sT s' = sT s /\ length (sA s') = n.
Proof. exact update_keeps_equality_l. Qed.

(** nu-SVC (repair 4625418 of finding F-C13-S1), any arithmetic: whenever the model of fit_nu publishes stored support
    vectors, they are the samples of exactly the PUBLISHED coefficients (after the division by r) that exceed the
    threshold - the hypothesis under which [weighted_sum_pairs] (C13/Properties.v) pairs every stored vector with its own
    coefficient *)
Theorem fit_nu_svc_stores_published_sv : forall F (o : NumOps F) (inf tiny feps : F) fuel K rows tgs eps shr lin nu m sv,
  fit_nu_svc o inf tiny feps fuel K rows tgs eps shr lin nu = Fitted m -> mSep m = HSupport sv ->
  sv = support_vectors o feps rows (mAlpha m).
Proof. intros F o. exact (@fit_nu_svc_stores_published_sv_l F o). Qed.

(** the selection before the repair (by the undivided coefficients) did not have this property: r = 2^60 *)
Theorem nusvc_pre_repair_selection_refuted :
  let published := map (fun x => PrimFloat.div x exS1_r) exS1_alpha in
  length (nusvc_pre_repair_sv B64_ops 0x1p-52%float exS1_rows exS1_alpha) = 2%nat /\
  length (filter (is_support B64_ops 0x1p-52%float) published) = 0%nat /\
  length (support_vectors B64_ops 0x1p-52%float exS1_rows published) = 0%nat.
Proof. exact nusvc_pre_repair_refuted_l. Qed.
