(** C13 - property theorems (statements only; proofs are in C13/Proofs.v).
    Pattern B: [*_ok] are the exact rational checkers evaluated on every run on the implementation's
    published (alpha, rho); the theorems below say what an accepted output satisfies, over the reals.
    Pattern A: facts about the model of weighted_sum / nsupport / predict. *)
From Coq Require Import List NArith QArith Qreals Reals Floats.
From LinfaVerif Require Import Common.Num Common.NdSum Common.QF Common.LDL C13.Model C13.Spec C13.Check C13.Proofs.
Import ListNotations.
Local Open Scope R_scope.

(** epsilon-KKT => epsilon-optimality: D(a) = 1/2 a^T Q a + p^T a with Q symmetric positive semi-definite,
    box lo <= a <= hi, one linear equality constraint w^T a = const with multiplier b.  If at a feasible a
    every coordinate that can still grow has Lagrangian gradient >= -eps and every coordinate that can still
    shrink has gradient <= eps, then no feasible a' with the same constraint value is better than a by more
    than eps * |a' - a|_1. *)
Theorem qp_kkt_eps_optimal : forall n Q p w lo hi a a' b eps,
  wfM n Q -> Sym n Q -> PSD n Q ->
  length p = n -> length w = n -> length a = n -> length a' = n ->
  0 <= eps ->
  in_box lo hi a -> in_box lo hi a' -> Rdot w a' = Rdot w a ->
  kkt_box eps lo hi a (lagr_grad Q p w b a) ->
  qp_obj Q p a' >= qp_obj Q p a - eps * l1R (vsubR a' a).
Proof. exact qp_kkt_eps_optimal_l. Qed.

(** C-SVC checker: an accepted (alpha, rho) is feasible (box per class weight, |sum a_i| <= eeq) and every
    sample that is not at its bound has margin >= 1 - e, every sample with non-zero coefficient margin <= 1 + e,
    where the margin is y_i (sum_j a_j K_ij - rho) computed exactly from the published coefficients *)
Theorem svc_ok_sound : forall K y cpos cneg a rho e eeq,
  svc_ok K y cpos cneg a rho e eeq = true ->
  svc_spec (mQ K) y (Q2R cpos) (Q2R cneg) (map Q2R a) (Q2R rho) (Q2R e) (Q2R eeq).
Proof. exact svc_ok_sound_l. Qed.

(** ... which is the wording of the property: zero coefficient -> on or outside the margin, free support
    vector -> on it, bounded support vector -> on or inside it (up to e) *)
Theorem svc_margins_as_worded : forall cpos cneg e y a f, 0 <= e -> 0 < cpos -> 0 < cneg ->
  svc_margins cpos cneg e y a f -> svc_margins_wording cpos cneg e y a f.
Proof. intros cpos cneg e y a f He Hp Hn H. exact (svc_margins_imp_wording cpos cneg e y a f He H Hp Hn). Qed.

(** these conditions are the e-KKT conditions of the C-SVC dual E(a) = 1/2 a^T K a - sum_i y_i a_i:
    no feasible a' with the same sum is better by more than e |a' - a|_1 *)
Theorem svc_kkt_optimal : forall n K y cpos cneg a rho e eeq a',
  wfM n K -> Sym n K -> PSD n K -> length y = n -> length a = n -> length a' = n -> 0 <= e ->
  svc_spec K y cpos cneg a rho e eeq ->
  in_box (svc_lo cneg y) (svc_hi cpos y) a' -> Rsum a' = Rsum a ->
  svc_obj K y a' >= svc_obj K y a - e * l1R (vsubR a' a).
Proof. exact svc_kkt_optimal_l. Qed.

(** checker + optimality in one statement (what a run certifies for a symmetric PSD kernel matrix) *)
Theorem svc_ok_certifies_optimality : forall n K y cpos cneg a rho e eeq a',
  svc_ok K y cpos cneg a rho e eeq = true ->
  wfM n (mQ K) -> Sym n (mQ K) -> PSD n (mQ K) -> length y = n -> length a = n -> length a' = n ->
  0 <= Q2R e ->
  in_box (svc_lo (Q2R cneg) y) (svc_hi (Q2R cpos) y) a' -> Rsum a' = Rsum (map Q2R a) ->
  svc_obj (mQ K) y a' >= svc_obj (mQ K) y (map Q2R a) - Q2R e * l1R (vsubR a' (map Q2R a)).
Proof. exact svc_ok_certifies_optimality_l. Qed.

(** the same with every hypothesis about the kernel matrix discharged by decidable checks: [symb] (exact symmetry,
    n x n) and the exact LDL^T certificate of K + dq I (Common/LDL.v); rounding of the kernel values costs the
    additional term dq/2 |a' - a|^2.  Exact elimination on float data is affordable only for n <= 8: the runs
    evaluate the a-posteriori certificate [psd_cert] instead (C13/PropertiesCert.v, all problem kinds) *)
Theorem symmetric_check_sound : forall n M, symb n M = true -> wfM n (mQ M) /\ Sym n (mQ M).
Proof. exact symb_sound. Qed.

Theorem svc_ok_certified : forall n K y cpos cneg a rho e eeq dq a',
  svc_ok K y cpos cneg a rho e eeq = true -> symb n K = true -> ldl_psd_shift n K (- dq) = true ->
  length y = n -> length a = n -> length a' = n -> 0 <= Q2R e ->
  in_box (svc_lo (Q2R cneg) y) (svc_hi (Q2R cpos) y) a' -> Rsum a' = Rsum (map Q2R a) ->
  svc_obj (mQ K) y a' >= svc_obj (mQ K) y (map Q2R a) - Q2R e * l1R (vsubR a' (map Q2R a))
                         - Q2R dq / 2 * sqnorm (vsubR a' (map Q2R a)).
Proof. exact svc_ok_certified_l. Qed.

(** the general statement with a kernel matrix that is positive semi-definite only up to a shift delta *)
Theorem qp_kkt_eps_optimal_shift : forall n Q p w lo hi a a' b eps delta,
  wfM n Q -> Sym n Q -> PSDd n Q delta ->
  length p = n -> length w = n -> length a = n -> length a' = n ->
  0 <= eps ->
  in_box lo hi a -> in_box lo hi a' -> Rdot w a' = Rdot w a ->
  kkt_box eps lo hi a (lagr_grad Q p w b a) ->
  qp_obj Q p a' >= qp_obj Q p a - eps * l1R (vsubR a' a) - delta / 2 * sqnorm (vsubR a' a).
Proof. exact qp_kkt_eps_optimal_d. Qed.

(** epsilon-SVR checker: |b_i| <= c, |sum b_i| <= eeq and the residual conditions res_i = y_i - f_i:
    b_i = 0 -> |res_i| <= p + e; free -> | |res_i| - p | <= e with the sign of b_i; bounded -> |res_i| >= p - e *)
Theorem svr_ok_sound : forall K y c p b rho e eeq,
  svr_ok K y c p b rho e eeq = true ->
  svr_spec (mQ K) (map Q2R y) (Q2R c) (Q2R p) (map Q2R b) (Q2R rho) (Q2R e) (Q2R eeq).
Proof. exact svr_ok_sound_l. Qed.

(** ... which are the e-KKT conditions of E(b) = 1/2 b^T K b - y^T b + p sum_i |b_i| *)
Theorem svr_kkt_optimal : forall n K y c p b rho e eeq b',
  wfM n K -> Sym n K -> PSD n K -> length y = n -> length b = n -> length b' = n ->
  0 <= e -> 0 <= p -> 0 < c ->
  svr_spec K y c p b rho e eeq ->
  Forall (fun x => - c <= x <= c) b' -> Rsum b' = Rsum b ->
  svr_obj K y p b' >= svr_obj K y p b - e * l1R (vsubR b' b).
Proof. exact svr_kkt_optimal_l. Qed.

(** one-class checker and its optimality statement for E(a) = 1/2 a^T K a, 0 <= a_i <= 1, sum a_i fixed *)
Theorem oneclass_ok_sound : forall K total a rho e eeq,
  oneclass_ok K total a rho e eeq = true ->
  oneclass_spec (mQ K) (Q2R total) (map Q2R a) (Q2R rho) (Q2R e) (Q2R eeq).
Proof. exact oneclass_ok_sound_l. Qed.

Theorem oneclass_kkt_optimal : forall n K total a rho e eeq a',
  wfM n K -> Sym n K -> PSD n K -> length a = n -> length a' = n -> 0 <= e ->
  oneclass_spec K total a rho e eeq ->
  Forall (fun x => 0 <= x <= 1) a' -> Rsum a' = Rsum a ->
  / 2 * quadR K a' >= / 2 * quadR K a - e * l1R (vsubR a' a).
Proof. exact oneclass_kkt_optimal_l. Qed.

(** the kernel matrix of the linear kernel (exact Gram matrix) is symmetric positive semi-definite *)
Theorem gram_kernel_sym_psd : forall (X : list (list R)) (d : nat), Forall (fun row => length row = d) X ->
  wfM (length X) (gram X) /\ Sym (length X) (gram X) /\ PSD (length X) (gram X).
Proof. exact gram_sym_psd_l. Qed.

(** decision values: an accepted query value is within tol of sum_j a_j K(x_j, x) - rho of ALL published coefficients *)
Theorem decision_close_sound : forall kq a rho d tol,
  decision_close kq a rho d tol = true ->
  Rabs (Q2R d - (Rdot (map Q2R kq) (map Q2R a) - Q2R rho)) <= Q2R tol.
Proof. exact decision_close_sound_l. Qed.

(** weighted_sum pairs every stored support vector with its own coefficient, in every arithmetic:
    the stored vectors are selected by the predicate that filters the coefficients *)
Theorem weighted_sum_pairs : forall F (o : NumOps F) (feps : F) (kf : list F -> F) (X : list (list F)) (al : list F),
  length X = length al ->
  weighted_sum_sv o feps (map kf (support_vectors o feps X al)) al
  = iter_sum o (map (fun e => mul o (kf (fst e)) (snd e))
                    (filter (fun e => is_support o feps (snd e)) (combine X al))).
Proof. exact (@weighted_sum_pairs_l). Qed.

(** over the reals, when every coefficient below the threshold is exactly zero:
    weighted_sum(x) = sum_i alpha_i K(x_i, x) *)
Theorem weighted_sum_spec : forall (feps : R) (kf : list R -> R) (X : list (list R)) (al : list R),
  length X = length al ->
  (forall a, In a al -> is_support R_ops feps a = true \/ a = 0) ->
  weighted_sum_sv R_ops feps (map kf (support_vectors R_ops feps X al)) al = Rdot (map kf X) al.
Proof. exact weighted_sum_spec_l. Qed.

(** linear kernel: the kernel value and the explicit-hyperplane product are the inner product *)
Theorem linear_kernel_is_inner_product : forall a b w x : list R,
  k_linear R_ops a b = Rdot a b /\ weighted_sum_linear R_ops w x = Rdot w x.
Proof. intros; split; [apply k_linear_R | apply weighted_sum_linear_R]. Qed.

(** the stored hyperplane of the linear kernel is sum_i (sign_i alpha_i) x_i: its product with a sample is
    sum_i sign_i alpha_i <x_i, x> *)
Theorem linear_hyperplane_spec : forall (sign : list R) (rows : list (list R)) (alpha x : list R) (d : nat),
  Forall (fun r => length r = d) rows ->
  weighted_sum_linear R_ops (hyperplane_of R_ops sign rows alpha d) x
  = Rsum (map (fun e => fst e * snd (snd e) * Rdot (fst (snd e)) x) (combine sign (combine rows alpha))).
Proof. exact linear_hyperplane_spec_l. Qed.

(** with an exact zero threshold the number of support vectors is the number of non-zero coefficients *)
Theorem nsupport_counts_nonzero : forall al : list R,
  nsupport R_ops 0 al = length (filter (fun a => negb (Reqb a 0)) al).
Proof. exact nsupport_counts_nonzero_l. Qed.

(** the predicted label is the sign of the decision value weighted_sum - rho *)
Theorem label_is_sign : forall ws rho : R, label_of R_ops ws rho = true <-> 0 <= ws - rho.
Proof. exact label_is_sign_l. Qed.

(** known finding F32 in the model: nu-SVR as implemented (nu_constraint = false) ignores nu - on four points of
    the line y = 2x with nu = 0.1, c = 1 the fit publishes (0, -1, 0, 1), sum |b_i| = 2 > c nu n = 0.4.
    (No [_outside_known] companion: for pattern B there is no theorem about the solver's output for all inputs;
    outside the known class the conditions are certified per run by the checkers above.) *)
Theorem nusvr_nu_constraint_refuted :
  exists m, exNu_fit = Fitted m /\ nu_constraint_holds 0x1.999999999999ap-4%float 1%float 4 m = false.
Proof. exact nusvr_refuted_l. Qed.
