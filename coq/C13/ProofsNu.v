(** C13 - lemmas for the nu variants: epsilon-KKT => epsilon-optimality with TWO linear equality constraints
    (multipliers rho and r), soundness of the nu-SVC / nu-SVR checkers of C13/Check.v and the optimality
    statements of the libsvm nu duals written in the published coefficients. *)
From Coq Require Import List NArith ZArith QArith Qreals Reals Lra Lia Psatz Bool.
From LinfaVerif Require Import Common.Num Common.QF C13.Spec C13.Check C13.Proofs.
Import ListNotations.
Local Open Scope R_scope.

(** * two equality constraints *)
Theorem qp_kkt_eps_optimal2_d : forall n Q p w1 w2 lo hi a a' b1 b2 eps delta,
  wfM n Q -> Sym n Q -> PSDd n Q delta ->
  length p = n -> length w1 = n -> length w2 = n -> length a = n -> length a' = n ->
  0 <= eps ->
  in_box lo hi a -> in_box lo hi a' -> Rdot w1 a' = Rdot w1 a -> Rdot w2 a' = Rdot w2 a ->
  kkt_box eps lo hi a (lagr_grad2 Q p w1 w2 b1 b2 a) ->
  qp_obj Q p a' >= qp_obj Q p a - eps * l1R (vsubR a' a) - delta / 2 * sqnorm (vsubR a' a).
Proof.
  intros n Q p w1 w2 lo hi a a' b1 b2 eps delta HQ Hs Hp Lp Lw1 Lw2 La La' He Ba Ba' Hw1 Hw2 Hk.
  pose proof (qp_first_order n Q p a a' delta HQ Hs Hp Lp La La') as H1.
  pose proof (kkt_box_bound eps lo hi a _ a' He Ba Ba' Hk) as H2.
  unfold lagr_grad2 in H2.
  assert (Lq : length (mvR Q a) = n) by (rewrite mvR_length; destruct HQ; auto).
  assert (L1 : length (vaddR (mvR Q a) p) = n) by (unfold vaddR; rewrite map2R_length; congruence).
  assert (L2 : length (vscaleR b1 w1) = n) by (unfold vscaleR; rewrite map_length; auto).
  assert (L3 : length (vscaleR b2 w2) = n) by (unfold vscaleR; rewrite map_length; auto).
  rewrite Rdot_vsub_l in H2 by (unfold vsubR; rewrite map2R_length; congruence).
  rewrite Rdot_vsub_l in H2 by congruence.
  rewrite !Rdot_vscale_l in H2.
  assert (Hz : forall w, length w = n -> Rdot w a' = Rdot w a -> Rdot w (vsubR a' a) = 0).
  { intros w Lw Hw. rewrite Rdot_comm, Rdot_vsub_l by congruence. rewrite (Rdot_comm a'), (Rdot_comm a). lra. }
  rewrite (Hz w1 Lw1 Hw1), (Hz w2 Lw2 Hw2) in H2. lra.
Qed.

Theorem qp_kkt_eps_optimal2_l : forall n Q p w1 w2 lo hi a a' b1 b2 eps,
  wfM n Q -> Sym n Q -> PSD n Q ->
  length p = n -> length w1 = n -> length w2 = n -> length a = n -> length a' = n ->
  0 <= eps ->
  in_box lo hi a -> in_box lo hi a' -> Rdot w1 a' = Rdot w1 a -> Rdot w2 a' = Rdot w2 a ->
  kkt_box eps lo hi a (lagr_grad2 Q p w1 w2 b1 b2 a) ->
  qp_obj Q p a' >= qp_obj Q p a - eps * l1R (vsubR a' a).
Proof.
  intros n Q p w1 w2 lo hi a a' b1 b2 eps HQ Hs Hp Lp Lw1 Lw2 La La' He Ba Ba' Hw1 Hw2 Hk.
  pose proof (qp_kkt_eps_optimal2_d n Q p w1 w2 lo hi a a' b1 b2 eps 0 HQ Hs (PSD_PSDd n Q Hp)
                Lp Lw1 Lw2 La La' He Ba Ba' Hw1 Hw2 Hk) as H.
  lra.
Qed.

(** * nu-SVC *)
(* inside the class-signed box, sum_i y_i a_i = sum_i |a_i| *)
Lemma signed_box_l1 cb : forall y a, 0 <= cb -> in_box (svc_lo cb y) (svc_hi cb y) a ->
  Rdot (map sgn y) a = l1R a.
Proof.
  unfold l1R, svc_lo, svc_hi.
  induction y as [|yi y IH]; intros [|ai a] Hc Hb; simpl in *; try tauto.
  destruct Hb as [[B1 B2] Hb]. rewrite (IH a Hc Hb).
  destruct yi; simpl.
  - rewrite Rabs_right by lra. ring.
  - rewrite Rabs_left1 by lra. ring.
Qed.

Lemma in_box_cb_nonneg cb : forall y a, y <> [] -> in_box (svc_lo cb y) (svc_hi cb y) a -> 0 <= cb.
Proof.
  intros [|yi y] [|ai a] Hy Hb; simpl in *; try tauto; try congruence.
  destruct Hb as [[B1 B2] _]. destruct yi; lra.
Qed.

Lemma lagr_grad2_nusvc K : forall y a rho, length y = length K ->
  lagr_grad2 K (repeat 0 (length K)) (ones (length K)) (map sgn y) rho 1 a
  = vsubR (dec_valuesR K a rho) (map sgn y).
Proof.
  unfold lagr_grad2, vsubR, vaddR, vscaleR, dec_valuesR, mvR, ones.
  induction K as [|row K IH]; intros [|yi y] a rho H; simpl in *; try discriminate; auto.
  f_equal; [ring|]. apply IH; lia.
Qed.

Theorem nusvc_kkt_optimal_d : forall n K y cb total r a rho e eeq enu a' delta,
  wfM n K -> Sym n K -> PSDd n K delta -> length y = n -> length a = n -> length a' = n -> 0 <= e ->
  nusvc_spec K y cb total r a rho e eeq enu ->
  in_box (svc_lo cb y) (svc_hi cb y) a' -> Rsum a' = Rsum a -> l1R a' = l1R a ->
  nusvc_obj K a' >= nusvc_obj K a - e * l1R (vsubR a' a) - delta / 2 * sqnorm (vsubR a' a).
Proof.
  intros n K y cb total r a rho e eeq enu a' delta HK Hs Hp Ly La La' He [Hb [_ [_ Hm]]] Hb' Hsum Hl1.
  destruct y as [|y0 y'] eqn:Ey.
  { (* n = 0 *)
    simpl in Ly. subst n. destruct a; try discriminate. destruct a'; try discriminate.
    unfold nusvc_obj, quadR, l1R, sqnorm. simpl. lra. }
  rewrite <- Ey in *.
  assert (Hy : y <> []) by (rewrite Ey; discriminate).
  assert (Hcb : 0 <= cb) by (eapply in_box_cb_nonneg; eauto).
  pose proof (qp_kkt_eps_optimal2_d n K (repeat 0 n) (ones n) (map sgn y) (svc_lo cb y) (svc_hi cb y)
                a a' rho 1 e delta HK Hs Hp) as T.
  unfold qp_obj in T. rewrite !Rdot_zero_l, !Rplus_0_r in T. unfold nusvc_obj.
  apply T; auto.
  - apply repeat_length.
  - unfold ones; apply repeat_length.
  - rewrite map_length; auto.
  - rewrite <- La' at 1. rewrite Rsum_ones_dot. rewrite <- La at 1. rewrite Rsum_ones_dot. auto.
  - rewrite (signed_box_l1 cb y a' Hcb Hb'), (signed_box_l1 cb y a Hcb Hb). exact Hl1.
  - destruct HK as [HK1 HK2]. rewrite <- HK1. rewrite lagr_grad2_nusvc by congruence.
    apply svc_margins_kkt; auto.
Qed.

Theorem nusvc_kkt_optimal_l : forall n K y cb total r a rho e eeq enu a',
  wfM n K -> Sym n K -> PSD n K -> length y = n -> length a = n -> length a' = n -> 0 <= e ->
  nusvc_spec K y cb total r a rho e eeq enu ->
  in_box (svc_lo cb y) (svc_hi cb y) a' -> Rsum a' = Rsum a -> l1R a' = l1R a ->
  nusvc_obj K a' >= nusvc_obj K a - e * l1R (vsubR a' a).
Proof.
  intros n K y cb total r a rho e eeq enu a' HK Hs Hp Ly La La' He Hspec Hb' Hsum Hl1.
  pose proof (nusvc_kkt_optimal_d n K y cb total r a rho e eeq enu a' 0 HK Hs (PSD_PSDd n K Hp)
                Ly La La' He Hspec Hb' Hsum Hl1) as H.
  lra.
Qed.

Lemma Q2R_l1' l : Q2R (Qsum' (map Qabs' l)) = l1R (map Q2R l).
Proof. rewrite Q2R_sum'. unfold l1R. rewrite !map_map. f_equal. apply map_ext. intros q. apply Qabs'_R. Qed.

Theorem nusvc_ok_sound_l : forall K y cb total rq a rho e eeq enu,
  nusvc_ok K y cb total rq a rho e eeq enu = true ->
  nusvc_spec (mQ K) y (Q2R cb) (Q2R total) (Q2R rq) (map Q2R a) (Q2R rho) (Q2R e) (Q2R eeq) (Q2R enu).
Proof.
  intros K y cb total rq a rho e eeq enu H. unfold nusvc_ok in H.
  apply andb_true_iff in H as [H H3]. apply andb_true_iff in H as [H1 H2].
  assert (S : svc_ok K y cb cb a rho e eeq = true) by (unfold svc_ok; rewrite H1, H3; reflexivity).
  destruct (svc_ok_sound_l _ _ _ _ _ _ _ _ S) as [Hb [Hs Hm]].
  repeat split; auto.
  unfold nusvc_nu in H2. apply Qleb_R in H2.
  rewrite Qabs'_R, Q2R_sub', Q2R_mult, Q2R_l1' in H2. exact H2.
Qed.

(** * nu-SVR *)
Lemma l1R_nonneg l : 0 <= l1R l.
Proof. unfold l1R. induction l as [|x l IH]; simpl; [lra|]. pose proof (Rabs_pos x). lra. Qed.

Theorem nusvr_kkt_optimal_l : forall n K y c total p b rho e eeq enu b',
  wfM n K -> Sym n K -> PSD n K -> length y = n -> length b = n -> length b' = n ->
  0 <= e -> 0 <= p -> 0 < c -> 0 <= enu ->
  nusvr_spec K y c total p b rho e eeq enu ->
  Forall (fun x => - c <= x <= c) b' -> Rsum b' = Rsum b -> l1R b' <= total ->
  svr_obj0 K y b' >= svr_obj0 K y b - e * l1R (vsubR b' b) - Rmax (p * enu) (e * total).
Proof.
  intros n K y c total p b rho e eeq enu b' HK Hs Hpsd Ly Lb Lb' He Hp Hc Hnu [Hspec [_ [Hle Hcs]]] Hb' Hsum Hl1.
  pose proof (svr_kkt_optimal_l n K y c p b rho e eeq b' HK Hs Hpsd Ly Lb Lb' He Hp Hc Hspec Hb' Hsum) as T.
  unfold svr_obj in T. unfold svr_obj0.
  pose proof (l1R_nonneg b) as N1. pose proof (l1R_nonneg b') as N2.
  assert (G : p * (l1R b' - l1R b) <= Rmax (p * enu) (e * total)).
  { destruct Hcs as [Hs1|Hs2].
    - apply Rle_trans with (e * total); [|apply Rmax_r]. nra.
    - apply Rle_trans with (p * enu); [|apply Rmax_l]. nra. }
  lra.
Qed.

Theorem nusvr_ok_sound_l : forall K y c total p b rho e eeq enu,
  nusvr_ok K y c total p b rho e eeq enu = true ->
  nusvr_spec (mQ K) (map Q2R y) (Q2R c) (Q2R total) (Q2R p) (map Q2R b) (Q2R rho) (Q2R e) (Q2R eeq) (Q2R enu).
Proof.
  intros K y c total p b rho e eeq enu H. unfold nusvr_ok in H.
  apply andb_true_iff in H as [H H3]. apply andb_true_iff in H as [H1 H2].
  assert (S : svr_ok K y c p b rho e eeq = true) by (unfold svr_ok; rewrite H1, H3; reflexivity).
  split; [apply svr_ok_sound_l; exact S|].
  unfold nusvr_nu in H2. apply andb_true_iff in H2 as [H2 C]. apply andb_true_iff in H2 as [A B].
  apply Qleb_R in A. apply Qleb_R in B. rewrite Q2R_opp in A. rewrite Q2R_plus, Q2R_l1' in B.
  split; [exact A|]. split; [exact B|].
  apply orb_true_iff in C as [C|C]; apply Qleb_R in C.
  - left; exact C.
  - right. rewrite Q2R_minus, Q2R_l1' in C. exact C.
Qed.

(** * end to end: checker + symmetric PSD kernel matrix => optimality of the nu duals *)
Theorem nusvc_ok_certifies_optimality_l : forall n K y cb total rq a rho e eeq enu a',
  nusvc_ok K y cb total rq a rho e eeq enu = true ->
  wfM n (mQ K) -> Sym n (mQ K) -> PSD n (mQ K) -> length y = n -> length a = n -> length a' = n ->
  0 <= Q2R e ->
  in_box (svc_lo (Q2R cb) y) (svc_hi (Q2R cb) y) a' -> Rsum a' = Rsum (map Q2R a) -> l1R a' = l1R (map Q2R a) ->
  nusvc_obj (mQ K) a' >= nusvc_obj (mQ K) (map Q2R a) - Q2R e * l1R (vsubR a' (map Q2R a)).
Proof.
  intros n K y cb total rq a rho e eeq enu a' Hok HK Hs Hp Ly La La' He Hb Hsum Hl1.
  eapply nusvc_kkt_optimal_l; eauto.
  - rewrite map_length; exact La.
  - apply nusvc_ok_sound_l. exact Hok.
Qed.

(** * non-vacuity *)
(* the six points of Proofs.exX as a nu-SVC problem: alpha = r |a| with r = 1, sum alpha = 8/25 = nu n *)
Example nusvc_ok_example : nusvc_ok exK exy 1 (8#25) 1 exa (-7#5) 0 0 0 = true.
Proof. vm_compute. reflexivity. Qed.
(* a wrong second multiplier (r = 2: total weight 16/25) and a wrong nu are rejected *)
Example nusvc_ok_rejects_r : nusvc_ok exK exy 1 (8#25) 2 exa (-7#5) 0 0 (1#100) = false.
Proof. vm_compute. reflexivity. Qed.
Example nusvc_ok_rejects_nu : nusvc_ok exK exy 1 (1#2) 1 exa (-7#5) 0 0 (1#100) = false.
Proof. vm_compute. reflexivity. Qed.
(* two points -1, +1 on a line, nu = 1/2: alpha = (1/2, 1/2), r = 1, rho = 0 *)
Example nusvc_ok_example2 : nusvc_ok [[1; -1]; [-1; 1]]%Q [false; true] 1 1 1 [-1#2; 1#2]%Q 0 0 0 0 = true.
Proof. vm_compute. reflexivity. Qed.

(* nu-SVR on the line y = 2x (x = 0..3), c = 1: the epsilon-SVR optimum for tube width 1/2 has sum |b_i| = 10/9;
   it is the nu-SVR optimum for c nu n = 10/9 with multiplier p = 1/2 *)
Example nusvr_ok_example : nusvr_ok exRK exRy 1 (10#9) (1#2) [-5#9; 0; 0; 5#9]%Q (-1#2) 0 0 0 = true.
Proof. vm_compute. reflexivity. Qed.
(* the same coefficients with a positive tube width but a slack weight constraint violate complementarity *)
Example nusvr_ok_rejects_slack : nusvr_ok exRK exRy 1 2 (1#2) [-5#9; 0; 0; 5#9]%Q (-1#2) (1#100) 0 (1#100) = false.
Proof. vm_compute. reflexivity. Qed.
(* more weight than c nu n is rejected *)
Example nusvr_ok_rejects_weight : nusvr_ok exRK exRy 1 1 (1#2) [-5#9; 0; 0; 5#9]%Q (-1#2) (1#100) 0 (1#100) = false.
Proof. vm_compute. reflexivity. Qed.

Example nusvc_example_hypotheses : wfM 6 (mQ exK) /\ Sym 6 (mQ exK) /\ PSD 6 (mQ exK).
Proof. exact svc_example_hypotheses. Qed.
