(** C13 - lemmas about single steps of the SMO model (C13/Model.v): [swap] permutes every per-position array of
    the solver state by the same transposition, and one [update] over the reals keeps the coefficients in their
    box and preserves the equality constraint sum_i y_i alpha_i (and sum_i alpha_i for a same-class pair). *)
From Coq Require Import List NArith Arith Reals Lra Lia Bool Permutation FinFun Floats.
From LinfaVerif Require Import Common.Num Common.QF C13.Model C13.SpecStep.
Import ListNotations.

(** * setn / swapn *)
Lemma setn_length {A} (v : A) : forall l k, length (setn l k v) = length l.
Proof. induction l as [|a l IH]; intros [|k]; simpl; auto. Qed.

Lemma nth_setn_eq {A} (v d : A) : forall l k, (k < length l)%nat -> nth k (setn l k v) d = v.
Proof. induction l as [|a l IH]; intros [|k] H; simpl in *; try lia; auto. apply IH; lia. Qed.

Lemma nth_setn_neq {A} (v d : A) : forall l k m, k <> m -> nth m (setn l k v) d = nth m l d.
Proof.
  induction l as [|a l IH]; intros [|k] [|m] H; simpl; auto; try congruence.
Qed.

Lemma setn_combine {A B} (x : A) (y : B) : forall (a : list A) (b : list B) k,
  setn (combine a b) k (x, y) = combine (setn a k x) (setn b k y).
Proof.
  induction a as [|a0 a IH]; intros b k; [reflexivity|].
  destruct b as [|b0 b]; [destruct k; reflexivity|].
  destruct k as [|k]; simpl; [reflexivity|]. f_equal. apply IH.
Qed.

Lemma swapn_length {A} (d : A) l i j : length (swapn d l i j) = length l.
Proof. unfold swapn. rewrite !setn_length. reflexivity. Qed.

Lemma nth_swapn {A} (d : A) l i j k : (i < length l)%nat -> (j < length l)%nat ->
  nth k (swapn d l i j) d = nth (transp i j k) l d.
Proof.
  intros Hi Hj. unfold swapn, transp.
  destruct (k =? j)%nat eqn:Ej.
  - apply Nat.eqb_eq in Ej. subst k. apply nth_setn_eq. rewrite setn_length. exact Hj.
  - apply Nat.eqb_neq in Ej. rewrite nth_setn_neq by congruence.
    destruct (k =? i)%nat eqn:Ei.
    + apply Nat.eqb_eq in Ei. subst k. apply nth_setn_eq. exact Hi.
    + apply Nat.eqb_neq in Ei. apply nth_setn_neq. congruence.
Qed.

Lemma swapn_combine {A B} (da : A) (db : B) (a : list A) (b : list B) i j : length a = length b ->
  swapn (da, db) (combine a b) i j = combine (swapn da a i j) (swapn db b i j).
Proof.
  intros L. unfold swapn.
  assert (N : forall k, nth k (combine a b) (da, db) = (nth k a da, nth k b db)).
  { intros k. apply combine_nth. exact L. }
  rewrite !N. rewrite !setn_combine. reflexivity.
Qed.

Lemma transp_lt i j k n : (i < n)%nat -> (j < n)%nat -> (k < n)%nat -> (transp i j k < n)%nat.
Proof. intros. unfold transp. destruct (k =? j)%nat; [assumption|]. destruct (k =? i)%nat; assumption. Qed.

Lemma transp_invol i j k : transp i j (transp i j k) = k.
Proof.
  unfold transp.
  destruct (k =? j)%nat eqn:Ej; [apply Nat.eqb_eq in Ej; subst|].
  - destruct (i =? j)%nat eqn:E1; [apply Nat.eqb_eq in E1; auto|]. rewrite Nat.eqb_refl. reflexivity.
  - destruct (k =? i)%nat eqn:Ei; [apply Nat.eqb_eq in Ei; subst|].
    + rewrite Nat.eqb_refl. reflexivity.
    + rewrite Ej, Ei. reflexivity.
Qed.

Lemma swapn_perm {A} (d : A) l i j : (i < length l)%nat -> (j < length l)%nat -> Permutation l (swapn d l i j).
Proof.
  intros Hi Hj. apply (Permutation_nth l (swapn d l i j) d). split; [apply swapn_length|].
  exists (transp i j). repeat split.
  - intros x Hx. apply transp_lt; assumption.
  - intros x y Hx Hy E. rewrite <- (transp_invol i j x), <- (transp_invol i j y). congruence.
  - intros x Hx. apply nth_swapn; assumption.
Qed.

(** * swap *)
Section Swap.
Context {F : Type} (o : NumOps F).

Lemma swap_rows n (s : state (F := F)) i j : consistent n s ->
  rows (swap o s i j) = swapn (drow o) (rows s) i j.
Proof.
  intros (L1 & L2 & L3 & L4 & L5 & L6 & L7 & L8 & L9). unfold rows, swap, drow, srow. cbn [sSet sA sG sGbar sP sU sT sKi sKs].
  repeat (rewrite swapn_combine by (rewrite ?combine_length; lia)). reflexivity.
Qed.

Lemma rows_length n (s : state (F := F)) : consistent n s -> length (rows s) = n.
Proof. intros (L1 & L2 & L3 & L4 & L5 & L6 & L7 & L8 & L9). unfold rows, srow. rewrite !combine_length. lia. Qed.

Lemma swap_consistent n (s : state (F := F)) i j : consistent n s -> consistent n (swap o s i j).
Proof.
  intros (L1 & L2 & L3 & L4 & L5 & L6 & L7 & L8 & L9). unfold consistent, swap.
  cbn [sSet sA sG sGbar sP sU sT sKi sKs]. rewrite !swapn_length. repeat split; assumption.
Qed.

Theorem swap_keeps_consistent_l : forall n (s : state (F := F)) i j, consistent n s -> (i < n)%nat -> (j < n)%nat ->
  consistent n (swap o s i j) /\
  rows (swap o s i j) = swapn (drow o) (rows s) i j /\
  (forall k, nth k (rows (swap o s i j)) (drow o) = nth (transp i j k) (rows s) (drow o)) /\
  Permutation (rows s) (rows (swap o s i j)) /\
  sNact (swap o s i j) = sNact s /\ sUnshrink (swap o s i j) = sUnshrink s /\ sR (swap o s i j) = sR s.
Proof.
  intros n s i j Hc Hi Hj. pose proof (rows_length n s Hc) as Lr.
  split; [apply swap_consistent; exact Hc|]. split; [apply (swap_rows n); exact Hc|].
  split; [|split].
  - intros k. rewrite (swap_rows n) by exact Hc. apply nth_swapn; lia.
  - rewrite (swap_rows n) by exact Hc. apply swapn_perm; lia.
  - repeat split.
Qed.
End Swap.

(** * update over the reals *)
Local Open Scope R_scope.
Notation oR := R_ops.

Lemma ydot_setn : forall T A k v, (k < length A)%nat -> length T = length A ->
  ydot T (setn A k v) = ydot T A + sgnb (nth k T true) * (v - nth k A 0).
Proof.
  induction T as [|t T IH]; intros [|a A] [|k] v Hk HL; simpl in *; try lia; try discriminate.
  - ring.
  - rewrite IH by lia. ring.
Qed.

Lemma Rsum_setn : forall (A : list R) k v, (k < length A)%nat -> Rsum (setn A k v) = Rsum A + (v - nth k A 0).
Proof.
  induction A as [|a A IH]; intros [|k] v Hk; simpl in *; try lia.
  - ring.
  - rewrite IH by lia. ring.
Qed.

(* the new pair of coefficients computed by [update] *)
Definition upd_pair (tiny : R) (differ : bool) (oai oaj bi bj gi gj qi qj dij : R) : R * R :=
  if differ then
      let q0 := add oR (add oR qi qj) (mul oR (two oR) dij) in
      let quad := if leb oR q0 (zero oR) then tiny else q0 in
      let delta := div oR (opp oR (add oR gi gj)) quad in
      let diff := sub oR oai oaj in
      let ai := add oR oai delta in
      let aj := add oR oaj delta in
      let '(ai, aj) :=
        if gtb oR diff (zero oR) then (if ltb oR aj (zero oR) then (diff, zero oR) else (ai, aj))
        else if ltb oR ai (zero oR) then (zero oR, opp oR diff) else (ai, aj) in
      if gtb oR diff (sub oR bi bj) then (if gtb oR ai bi then (bi, sub oR bi diff) else (ai, aj))
      else if gtb oR aj bj then (add oR bj diff, bj) else (ai, aj)
    else
      let q0 := sub oR (add oR qi qj) (mul oR (two oR) dij) in
      let quad := if leb oR q0 (zero oR) then tiny else q0 in
      let delta := div oR (sub oR gi gj) quad in
      let sum := add oR oai oaj in
      let ai := sub oR oai delta in
      let aj := add oR oaj delta in
      let '(ai, aj) :=
        if gtb oR sum bi then (if gtb oR ai bi then (bi, sub oR sum bi) else (ai, aj))
        else if ltb oR aj (zero oR) then (sum, zero oR) else (ai, aj) in
      if gtb oR sum bj then (if gtb oR aj bj then (sub oR sum bj, bj) else (ai, aj))
      else if ltb oR ai (zero oR) then (zero oR, sum) else (ai, aj).

Lemma sA_if_Gbar (c : bool) (s : state (F := R)) v : sA (if c then upd_Gbar s v else s) = sA s.
Proof. destruct c; reflexivity. Qed.
Lemma sU_if_Gbar (c : bool) (s : state (F := R)) v : sU (if c then upd_Gbar s v else s) = sU s.
Proof. destruct c; reflexivity. Qed.
Lemma sT_if_Gbar (c : bool) (s : state (F := R)) v : sT (if c then upd_Gbar s v else s) = sT s.
Proof. destruct c; reflexivity. Qed.

Lemma update_fields tiny (P : problem (F := R)) s i j :
  let na := sNact s in
  let pr := upd_pair tiny (negb (Bool.eqb (nth i (sT s) true) (nth j (sT s) true)))
              (nthF oR (sA s) i) (nthF oR (sA s) j) (nthF oR (sU s) i) (nthF oR (sU s) j)
              (nthF oR (sG s) i) (nthF oR (sG s) j) (selfd oR P s i) (selfd oR P s j)
              (nthF oR (distances oR P s i na) j) in
  sA (update oR tiny P s i j) = setn (setn (sA s) i (fst pr)) j (snd pr) /\
  sU (update oR tiny P s i j) = sU s /\ sT (update oR tiny P s i j) = sT s.
Proof.
  cbv zeta. unfold update, upd_pair.
  destruct (negb (Bool.eqb (nth i (sT s) true) (nth j (sT s) true))); cbv beta iota;
  repeat (match goal with
          | |- context [match ?X with _ => _ end] =>
              match type of X with (R * R)%type => destruct X end
          end; cbv beta iota);
  rewrite ?sA_if_Gbar, ?sU_if_Gbar, ?sT_if_Gbar; repeat split; reflexivity.
Qed.

Ltac cmp_cases :=
  repeat match goal with
  | |- context [Rltb ?a ?b] => let E := fresh "E" in destruct (Rltb a b) eqn:E;
        [apply Rltb_true in E | apply Rltb_false in E]
  | |- context [Rleb ?a ?b] => let E := fresh "E" in destruct (Rleb a b) eqn:E;
        [apply Rleb_true in E | apply Rleb_false in E]
  end.

Lemma upd_pair_ok tiny differ oai oaj bi bj gi gj qi qj dij :
  0 <= oai <= bi -> 0 <= oaj <= bj ->
  let pr := upd_pair tiny differ oai oaj bi bj gi gj qi qj dij in
  0 <= fst pr <= bi /\ 0 <= snd pr <= bj /\
  (if differ then fst pr - snd pr = oai - oaj else fst pr + snd pr = oai + oaj).
Proof.
  intros Hi Hj. cbv zeta. unfold upd_pair, gtb. cbn [add sub mul div opp zero ltb leb oR R_ops].
  destruct differ.
  - set (delta := - (gi + gj) / _). clearbody delta.
    cmp_cases; cbn [fst snd]; lra.
  - set (delta := (gi - gj) / _). clearbody delta.
    cmp_cases; cbn [fst snd]; lra.
Qed.

Theorem update_keeps_equality_l : forall tiny (P : problem (F := R)) s i j n,
  i <> j -> (i < n)%nat -> (j < n)%nat ->
  length (sA s) = n -> length (sU s) = n -> length (sT s) = n ->
  boxed (sA s) (sU s) ->
  let s' := update oR tiny P s i j in
  boxed (sA s') (sU s') /\
  ydot (sT s') (sA s') = ydot (sT s) (sA s) /\
  (nth i (sT s) true = nth j (sT s) true -> Rsum (sA s') = Rsum (sA s)) /\
  sU s' = sU s /\ sT s' = sT s /\ length (sA s') = n.
Proof.
  intros tiny P s i j n Hij Hi Hj LA LU LT Hbox. cbv zeta.
  destruct (update_fields tiny P s i j) as [EA [EU ET]]. cbv zeta in EA.
  set (differ := negb (Bool.eqb (nth i (sT s) true) (nth j (sT s) true))) in *.
  match type of EA with _ = setn (setn _ _ (fst ?X)) _ (snd ?X) => set (pr := X) in * end.
  assert (Bi : 0 <= nthF oR (sA s) i <= nthF oR (sU s) i) by (apply Hbox; lia).
  assert (Bj : 0 <= nthF oR (sA s) j <= nthF oR (sU s) j) by (apply Hbox; lia).
  pose proof (upd_pair_ok tiny differ _ _ _ _ (nthF oR (sG s) i) (nthF oR (sG s) j) (selfd oR P s i) (selfd oR P s j)
                (nthF oR (distances oR P s i (sNact s)) j) Bi Bj) as OK.
  cbv zeta in OK. fold pr in OK. destruct OK as [Oi [Oj Oe]].
  unfold nthF in *. cbn [zero oR R_ops] in *.
  rewrite EA, EU, ET.
  assert (Lj : (j < length (setn (sA s) i (fst pr)))%nat) by (rewrite setn_length; lia).
  assert (Nj : nth j (setn (sA s) i (fst pr)) 0 = nth j (sA s) 0) by (apply nth_setn_neq; exact Hij).
  split; [|split; [|split; [|split; [|split]]]]; auto.
  - intros k Hk. rewrite !setn_length in Hk.
    destruct (Nat.eq_dec k j) as [->|Nkj].
    + rewrite nth_setn_eq by exact Lj. exact Oj.
    + rewrite nth_setn_neq by congruence.
      destruct (Nat.eq_dec k i) as [->|Nki].
      * rewrite nth_setn_eq by lia. exact Oi.
      * rewrite nth_setn_neq by congruence. apply Hbox. exact Hk.
  - rewrite ydot_setn by (rewrite ?setn_length; lia). rewrite ydot_setn by lia. rewrite Nj.
    unfold differ in Oe. destruct (nth i (sT s) true), (nth j (sT s) true); cbn [Bool.eqb negb sgnb] in *; lra.
  - intros Hsame. rewrite Rsum_setn by exact Lj. rewrite Rsum_setn by lia. rewrite Nj.
    unfold differ in Oe. rewrite Hsame in Oe. rewrite Bool.eqb_reflx in Oe. cbn [negb] in Oe. lra.
  - rewrite !setn_length. exact LA.
Qed.

(** * non-vacuity: a two-point problem (points -1 and +1 on a line, linear kernel, C = 1) at the start state;
    the update of the pair (0, 1) moves both coefficients from 0 to 1/2 *)
Definition exP : problem (F := R) := mk_problem oR [[1; -1]; [-1; 1]] [[-1]; [1]] [1; 1] (1/1000) false false true.
Definition exS : state (F := R) :=
  {| sG := [-1; -1]; sGbar := [0; 0]; sA := [0; 0]; sU := [1; 1]; sSet := [O; S O]; sNact := 2%nat;
     sUnshrink := false; sP := [-1; -1]; sT := [false; true]; sKi := [O; S O]; sKs := [false; true]; sR := 0 |}.
Example exS_hypotheses : boxed (sA exS) (sU exS) /\ consistent 2 exS.
Proof.
  split.
  - intros [|[|k]] Hk; simpl in *; try lia; lra.
  - unfold consistent; simpl; repeat split; reflexivity.
Qed.
Example exS_update : sA (update oR (1/10) exP exS 0 1) = [/2; /2].
Proof.
  destruct (update_fields (1/10) exP exS 0 1) as [EA _]. cbv zeta in EA. rewrite EA. clear EA.
  unfold upd_pair, gtb, exS, exP, selfd, distances, kcolumn, mk_problem, diag, nthF, two.
  cbn [negb Bool.eqb nth sT sA sU sG sKi sKs sNact pK pKdiag map combine firstn seq length fst snd xorb
       add sub mul div opp zero one ltb leb oR R_ops].
  cbn [nth].
  assert (Q4 : Rleb (1 + 1 + (1 + 1) * - -1) 0 = false) by (apply Rleb_false; lra).
  rewrite Q4. replace (1 + 1 + (1 + 1) * - -1) with 4 by lra.
  repeat match goal with
  | |- context [Rltb ?a ?b] => let E := fresh "E" in destruct (Rltb a b) eqn:E;
        [apply Rltb_true in E | apply Rltb_false in E]; try lra
  | |- context [Rleb ?a ?b] => let E := fresh "E" in destruct (Rleb a b) eqn:E;
        [apply Rleb_true in E | apply Rleb_false in E]; try lra
  end; cbn [fst snd setn]; try (f_equal; [|f_equal]; lra).
Qed.

(** * nu-SVC: the stored support vectors are those of the published coefficients (repair 4625418, finding F-C13-S1) *)
Lemma fit_nu_svc_stores_published_sv_l {F : Type} (o : NumOps F) (inf tiny feps : F) fuel K rows tgs eps shr lin nu m sv :
  fit_nu_svc o inf tiny feps fuel K rows tgs eps shr lin nu = Fitted m -> mSep m = HSupport sv ->
  sv = support_vectors o feps rows (mAlpha m).
Proof.
  unfold fit_nu_svc. destruct (solve _ _ _ _ _ _ _) as [m0|]; cbn [map_outcome]; [|discriminate].
  intros H. injection H as <-. unfold with_alpha_rho_obj. cbn [mSep mAlpha].
  destruct (mSep m0); cbn [mSep mAlpha]; intros H2; [discriminate|]. injection H2 as <-. reflexivity.
Qed.

(** before the repair the vectors were selected by the undivided coefficients: with r = 2^60 both undivided coefficients
    (1, 1/2) exceed the threshold 100 eps_machine, none of the published ones (2^-60, 2^-61) does - two stored vectors
    face an empty list of filtered coefficients, weighted_sum pairs nothing *)
Definition exS1_rows : list (list PrimFloat.float) := [[1]; [2]]%float.
Definition exS1_alpha : list PrimFloat.float := [1; 0x1p-1]%float.
Definition exS1_r : PrimFloat.float := 0x1p+60%float.
Lemma nusvc_pre_repair_refuted_l :
  let published := map (fun x => PrimFloat.div x exS1_r) exS1_alpha in
  length (nusvc_pre_repair_sv B64_ops 0x1p-52%float exS1_rows exS1_alpha) = 2%nat /\
  length (filter (is_support B64_ops 0x1p-52%float) published) = 0%nat /\
  length (support_vectors B64_ops 0x1p-52%float exS1_rows published) = 0%nat.
Proof. vm_compute. repeat split. Qed.
