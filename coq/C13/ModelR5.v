(** C13 round 5 - definitions for the SMO descent lemma: the matrix Q of the dual in the solver's current
    (permuted) coordinates, built from exactly the rows [update] reads through [distances], the dual objective of
    a solver state, the second-order model of its change along a working pair, and the notion of a violating pair.
    No proofs here. *)
From Coq Require Import List NArith Arith Reals.
From LinfaVerif Require Import Common.Num Common.QF C13.Model C13.Spec C13.SpecStep.
Import ListNotations.

Section R5.
Context {F : Type} (o : NumOps F).
(* row k of Q is Permutable::distances(k, n): Q_kl = y_k y_l K(idx k, idx l) in the permuted order of the state *)
Definition qmat (P : problem (F := F)) (s : state (F := F)) : list (list F) :=
  map (fun k => distances o P s k (length (sA s))) (seq O (length (sA s))).
End R5.

Local Open Scope R_scope.
Definition ent (Q : list (list R)) (i j : nat) : R := nth j (nth i Q []) 0.

(* the dual objective f(alpha) = 1/2 alpha^T Q alpha + p^T alpha of a solver state *)
Definition dual_obj (P : problem (F := R)) (s : state (F := R)) : R := qp_obj (qmat R_ops P s) (sP s) (sA s).

(* the gradient invariant of the solver on a fully active state: G = Q alpha + p *)
Definition grad_ok (P : problem (F := R)) (s : state (F := R)) : Prop :=
  sG s = vaddR (mvR (qmat R_ops P s) (sA s)) (sP s).

(* change of a quadratic objective when coordinates i, j move by dai, daj (g = gradient before the move) *)
Definition pair_change (gi gj qii qjj qij dai daj : R) : R :=
  gi * dai + gj * daj + / 2 * (qii * dai * dai + 2 * qij * dai * daj + qjj * daj * daj).

(* {i, j} is a violating pair (in one of its two orientations): the feasible direction that keeps y_i a_i + y_j a_j
   is a strict descent direction; [differ] = the two labels differ *)
Definition violating (differ : bool) (oai oaj bi bj gi gj : R) : Prop :=
  if differ then (gi + gj < 0 /\ oai < bi /\ oaj < bj) \/ (0 < gi + gj /\ 0 < oai /\ 0 < oaj)
  else (0 < gi - gj /\ 0 < oai /\ oaj < bj) \/ (gi - gj < 0 /\ oai < bi /\ 0 < oaj).

(* curvature of the pair along that direction: Q_ii + Q_jj - 2 y_i y_j Q_ij = K_ii + K_jj - 2 K_ij *)
Definition curvature (differ : bool) (qii qjj qij : R) : R :=
  if differ then qii + qjj + 2 * qij else qii + qjj - 2 * qij.

(* a run of the solver's analytic steps on a list of working pairs, whatever rule selected them *)
Definition run_updates {F : Type} (o : NumOps F) (tiny : F) (P : problem (F := F)) (s : state (F := F))
  (pairs : list (nat * nat)) : state (F := F) :=
  fold_left (fun st ij => update o tiny P st (fst ij) (snd ij)) pairs s.

(* the invariant of the solver between steps, on a fully active state of n positions: feasible coefficients, a
   symmetric positive semi-definite Q (in the permuted coordinates), the gradient invariant, and a kernel diagonal
   that is the diagonal of Q *)
Definition smo_inv (n : nat) (P : problem (F := R)) (s : state (F := R)) : Prop :=
  length (sA s) = n /\ length (sU s) = n /\ length (sT s) = n /\ length (sP s) = n /\ sNact s = n /\
  boxed (sA s) (sU s) /\
  wfM n (qmat R_ops P s) /\ Sym n (qmat R_ops P s) /\ PSD n (qmat R_ops P s) /\
  grad_ok P s /\
  (forall k, (k < n)%nat -> selfd R_ops P s k = ent (qmat R_ops P s) k k).

Definition valid_pair (n : nat) (ij : nat * nat) : Prop := fst ij <> snd ij /\ (fst ij < n)%nat /\ (snd ij < n)%nat.
