(** A-posteriori certificate of positive semi-definiteness up to a shift, in exact integer arithmetic.

    Given a square rational matrix K (e.g. [map (map f64_Q)] of a float matrix), a shift dq and ANY square
    rational matrix L of the same size (a hint: the caller passes an approximate Cholesky factor of
    K + (dq/2) I computed in floating point), the checker scales everything to integers by one common
    denominator (exact, checked entry by entry - always possible for dyadic rationals), computes
        E = K + dq I - L L^T
    exactly and accepts iff K is symmetric and E is diagonally dominant with non-negative diagonal
    (sum_{j<>i} |E_ij| <= E_ii for every row).  Then E is positive semi-definite (Gershgorin), L L^T is a
    Gram matrix, so K + dq I is positive semi-definite:

        psd_cert n K L dq = true  ->  forall x of length n,  - dq |x|^2 <= x^T K x          (psd_cert_sound)

    Nothing is assumed about L: a bad hint can only make the certificate fail.  Cost: n^3/1 integer
    multiplications of mantissa size (no growth of the numbers, in contrast to exact elimination), so the
    certificate is usable for n in the hundreds where the exact LDL^T of Common/LDL.v stops at n ~ 8 on float
    data.  The real-analysis core (Gram matrices and diagonally dominant symmetric matrices are positive
    semi-definite, over nat-indexed finite sums) follows C06/ProofsPsd.v. *)
From Coq Require Import List ZArith QArith Qreals Reals Lra Lia Bool Arith.
From Bignums Require Import BigZ.
From LinfaVerif Require Import Common.QF Common.LDL.
Import ListNotations.

(** * the checker *)
Fixpoint Zdotl (a b : list Z) : Z :=
  match a, b with x :: a', y :: b' => (x * y + Zdotl a' b')%Z | _, _ => 0%Z end.

Definition Zsumabs (l : list Z) : Z := fold_right (fun x acc => (Z.abs x + acc)%Z) 0%Z l.

(** E0 = KZ - f * LZ LZ^T, row by row *)
Definition resid (f : Z) (KZ LZ : list (list Z)) : list (list Z) :=
  zipw (fun ki li => zipw (fun kij lj => (kij - f * Zdotl li lj)%Z) ki LZ) KZ LZ.

Definition entZ (M : list (list Z)) (i j : nat) : Z := nth j (nth i M []) 0%Z.

Definition symZb (n : nat) (M : list (list Z)) : bool :=
  forallb (fun i => forallb (fun j => Z.eqb (entZ M i j) (entZ M j i)) (seq 0 n)) (seq 0 n).

(** row i of E0 with the shift dz added on the diagonal is diagonally dominant *)
Definition ddrow (dz : Z) (ie : nat * list Z) : bool :=
  let d0 := nth (fst ie) (snd ie) 0%Z in
  (Zsumabs (snd ie) - Z.abs d0 <=? d0 + dz)%Z.

Definition psd_certZ (n : nat) (KZ LZ : list (list Z)) (f dz : Z) : bool :=
  rectb n n KZ && rectb n n LZ && (0 <=? f)%Z && symZb n KZ &&
  forallb (ddrow dz) (combine (seq 0 n) (resid f KZ LZ)).

(** the same computation on machine-word integers (Bignums BigZ; vm_compute multiplies those natively, where Z
    is a binary list): this is the version that is run, proved equal to [psd_certZ] below *)
Fixpoint Bdotl (a b : list bigZ) : bigZ :=
  match a, b with x :: a', y :: b' => (x * y + Bdotl a' b')%bigZ | _, _ => 0%bigZ end.
Definition Bsumabs (l : list bigZ) : bigZ := fold_right (fun x acc => (BigZ.abs x + acc)%bigZ) 0%bigZ l.
Definition residB (f : bigZ) (KB LB : list (list bigZ)) : list (list bigZ) :=
  zipw (fun ki li => zipw (fun kij lj => (kij - f * Bdotl li lj)%bigZ) ki LB) KB LB.
Definition ddrowB (dz : bigZ) (ie : nat * list bigZ) : bool :=
  let d0 := nth (fst ie) (snd ie) 0%bigZ in
  BigZ.leb (Bsumabs (snd ie) - BigZ.abs d0)%bigZ (d0 + dz)%bigZ.
Definition psd_certB (n : nat) (KZ LZ : list (list Z)) (f dz : Z) : bool :=
  rectb n n KZ && rectb n n LZ && (0 <=? f)%Z && symZb n KZ &&
  forallb (ddrowB (BigZ.of_Z dz))
          (combine (seq 0 n) (residB (BigZ.of_Z f) (map (map BigZ.of_Z) KZ) (map (map BigZ.of_Z) LZ))).

(** scaling the rational data to integers: L by its largest denominator DL, K and dq by D >= DL^2 *)
Definition psd_cert (n : nat) (K L : list (list Q)) (dq : Q) : bool :=
  let DL := maxden L in
  let LZ := map (map (toZ DL)) L in
  let D := Pos.max (Pos.max (maxden K) (Qden dq)) (DL * DL) in
  let KZ := map (map (toZ D)) K in
  let dz := toZ D dq in
  let f := (Zpos D / Zpos (DL * DL))%Z in
  scaledb DL LZ L && scaledb D KZ K && scaled_entry D dz dq &&
  (f * Zpos (DL * DL) =? Zpos D)%Z &&
  psd_certB n KZ LZ f dz.

(** [psd_certB] computes [psd_certZ] *)
Lemma Bdotl_eq : forall a b, BigZ.to_Z (Bdotl a b) = Zdotl (map BigZ.to_Z a) (map BigZ.to_Z b).
Proof.
  induction a as [|x a IH]; intros [|y b]; simpl; auto.
  rewrite BigZ.spec_add, BigZ.spec_mul, IH. reflexivity.
Qed.

Lemma Bsumabs_eq : forall l, BigZ.to_Z (Bsumabs l) = Zsumabs (map BigZ.to_Z l).
Proof.
  induction l as [|x l IH]; [reflexivity|].
  change (Bsumabs (x :: l)) with (BigZ.abs x + Bsumabs l)%bigZ.
  rewrite BigZ.spec_add, BigZ.spec_abs, IH. reflexivity.
Qed.

Lemma residB_eq f KB LB :
  map (map BigZ.to_Z) (residB f KB LB) = resid (BigZ.to_Z f) (map (map BigZ.to_Z) KB) (map (map BigZ.to_Z) LB).
Proof.
  unfold residB, resid. generalize LB at 1 3 as LB0. revert LB.
  induction KB as [|ki KB IH]; intros [|li LB] LB0; cbn [zipw map]; auto.
  rewrite IH. f_equal. clear IH.
  revert LB0. induction ki as [|kij ki IHk]; intros [|lj LB0]; cbn [zipw map]; auto.
  rewrite IHk, BigZ.spec_sub, BigZ.spec_mul, Bdotl_eq. reflexivity.
Qed.

Lemma ddrowB_eq dz i r : ddrowB dz (i, r) = ddrow (BigZ.to_Z dz) (i, map BigZ.to_Z r).
Proof.
  unfold ddrowB, ddrow. cbn [fst snd].
  rewrite BigZ.spec_leb, BigZ.spec_sub, BigZ.spec_add, BigZ.spec_abs, Bsumabs_eq.
  change 0%Z with (BigZ.to_Z 0%bigZ). rewrite (map_nth BigZ.to_Z). reflexivity.
Qed.

Lemma forallb_combine_map {A B C} (g : B -> C) (p : A * C -> bool) (q : A * B -> bool) :
  (forall a b, q (a, b) = p (a, g b)) ->
  forall (s : list A) (l : list B), forallb q (combine s l) = forallb p (combine s (map g l)).
Proof.
  intros H. induction s as [|a s IH]; intros [|b l]; simpl; auto. rewrite H, IH. reflexivity.
Qed.

Lemma psd_certB_eq n KZ LZ f dz : psd_certB n KZ LZ f dz = psd_certZ n KZ LZ f dz.
Proof.
  unfold psd_certB, psd_certZ. f_equal.
  rewrite (forallb_combine_map (map BigZ.to_Z) (ddrow (BigZ.to_Z (BigZ.of_Z dz))) (ddrowB (BigZ.of_Z dz)))
    by (intros; apply ddrowB_eq).
  rewrite residB_eq, !B2Zm_of_Z, !BigZ.spec_of_Z. reflexivity.
Qed.

(* ------------------------------------------------------------------------------------------ *)
Local Open Scope R_scope.

(** * finite sums and quadratic forms over nat-indexed families *)
Fixpoint sumn (f : nat -> R) (n : nat) : R := match n with O => 0 | S k => sumn f k + f k end.

Lemma sumn_ext f g n : (forall i, (i < n)%nat -> f i = g i) -> sumn f n = sumn g n.
Proof. induction n as [|n IH]; intros H; simpl; auto. rewrite IH, H; auto. Qed.
Lemma sumn_plus f g n : sumn (fun i => f i + g i) n = sumn f n + sumn g n.
Proof. induction n as [|n IH]; simpl; [lra|]. rewrite IH. lra. Qed.
Lemma sumn_scal c f n : sumn (fun i => c * f i) n = c * sumn f n.
Proof. induction n as [|n IH]; simpl; [lra|]. rewrite IH. lra. Qed.
Lemma sumn_scal_r c f n : sumn (fun i => f i * c) n = sumn f n * c.
Proof. induction n as [|n IH]; simpl; [lra|]. rewrite IH. lra. Qed.
Lemma sumn_le f g n : (forall i, (i < n)%nat -> f i <= g i) -> sumn f n <= sumn g n.
Proof.
  induction n as [|n IH]; intros H; simpl; [lra|].
  assert (f n <= g n) by auto. assert (sumn f n <= sumn g n) by auto. lra.
Qed.
Lemma sumn_nonneg f n : (forall i, (i < n)%nat -> 0 <= f i) -> 0 <= sumn f n.
Proof.
  induction n as [|n IH]; intros H; simpl; [lra|].
  assert (0 <= f n) by auto. assert (0 <= sumn f n) by auto. lra.
Qed.
Lemma sumn_zero n : sumn (fun _ => 0) n = 0.
Proof. induction n as [|n IH]; simpl; lra. Qed.
Lemma sumn_swap (f : nat -> nat -> R) n m :
  sumn (fun i => sumn (fun j => f i j) m) n = sumn (fun j => sumn (fun i => f i j) n) m.
Proof.
  induction n as [|n IH]; simpl.
  - symmetry. apply sumn_zero.
  - rewrite IH. rewrite <- sumn_plus. reflexivity.
Qed.
Lemma sumn_shift f n : sumn f (S n) = f O + sumn (fun i => f (S i)) n.
Proof. induction n as [|n IH]; [simpl; lra|]. change (sumn f (S (S n))) with (sumn f (S n) + f (S n)). rewrite IH. simpl. lra. Qed.
Lemma sumn_diag n (c : nat -> R) i : (i < n)%nat -> sumn (fun j => if (i =? j)%nat then c j else 0) n = c i.
Proof.
  induction n as [|n IH]; intros Hi; [lia|]. simpl. destruct (Nat.eq_dec i n) as [->|Ne].
  - rewrite Nat.eqb_refl. rewrite (sumn_ext _ (fun _ => 0)); [rewrite sumn_zero; lra|].
    intros j Hj. destruct (n =? j)%nat eqn:Eq; auto. apply Nat.eqb_eq in Eq. lia.
  - rewrite IH by lia. destruct (i =? n)%nat eqn:Eq; [apply Nat.eqb_eq in Eq; lia|lra].
Qed.
Lemma sumn_offdiag n (g : nat -> R) i : (i < n)%nat ->
  sumn (fun j => if (i =? j)%nat then 0 else g j) n = sumn g n - g i.
Proof.
  intros Hi. rewrite <- (sumn_diag n g i Hi).
  assert (Q : forall f h : nat -> R, sumn f n - sumn h n = sumn (fun j => f j - h j) n).
  { intros f h. clear. induction n as [|n IH]; simpl; [lra|]. rewrite <- IH. lra. }
  rewrite Q. apply sumn_ext. intros j _. destruct (i =? j)%nat; lra.
Qed.

Definition qf (n : nat) (M : nat -> nat -> R) (x : nat -> R) : R :=
  sumn (fun i => sumn (fun j => M i j * x i * x j) n) n.

Lemma qf_plus n A B x : qf n (fun i j => A i j + B i j) x = qf n A x + qf n B x.
Proof.
  unfold qf. rewrite <- sumn_plus. apply sumn_ext. intros i _. rewrite <- sumn_plus. apply sumn_ext. intros j _. lra.
Qed.
Lemma qf_scal n c A x : qf n (fun i j => c * A i j) x = c * qf n A x.
Proof.
  unfold qf. rewrite <- sumn_scal. apply sumn_ext. intros i _. rewrite <- sumn_scal. apply sumn_ext. intros j _. lra.
Qed.
Lemma qf_ext n A B x : (forall i j, (i < n)%nat -> (j < n)%nat -> A i j = B i j) -> qf n A x = qf n B x.
Proof. intros H. unfold qf. apply sumn_ext. intros i Hi. apply sumn_ext. intros j Hj. rewrite H; auto. Qed.
Lemma qf_identity n d x : qf n (fun i j => if (i =? j)%nat then d else 0) x = d * sumn (fun i => x i * x i) n.
Proof.
  unfold qf. rewrite <- sumn_scal. apply sumn_ext. intros i Hi.
  rewrite (sumn_ext _ (fun j => if (i =? j)%nat then d * (x j * x j) else 0)).
  - apply (sumn_diag n (fun j => d * (x j * x j))). exact Hi.
  - intros j _. destruct (i =? j)%nat eqn:Eq; [apply Nat.eqb_eq in Eq; subst; lra|lra].
Qed.

(** a Gram matrix is positive semi-definite *)
Lemma qf_gram n m (L : nat -> nat -> R) x :
  0 <= qf n (fun i j => sumn (fun k => L i k * L j k) m) x.
Proof.
  unfold qf.
  assert (E : sumn (fun i => sumn (fun j => sumn (fun k => L i k * L j k) m * x i * x j) n) n
              = sumn (fun k => sumn (fun i => L i k * x i) n * sumn (fun i => L i k * x i) n) m).
  { transitivity (sumn (fun i => sumn (fun k => (L i k * x i) * sumn (fun j => L j k * x j) n) m) n).
    - apply sumn_ext. intros i _.
      transitivity (sumn (fun j => sumn (fun k => (L i k * x i) * (L j k * x j)) m) n).
      + apply sumn_ext. intros j _. rewrite <- sumn_scal_r, <- sumn_scal_r. apply sumn_ext. intros k _. lra.
      + rewrite sumn_swap. apply sumn_ext. intros k _. rewrite sumn_scal. reflexivity.
    - rewrite sumn_swap. apply sumn_ext. intros k _. rewrite <- sumn_scal_r. reflexivity. }
  rewrite E. apply sumn_nonneg. intros k _. apply Rle_0_sqr.
Qed.

(** a symmetric diagonally dominant matrix with non-negative diagonal is positive semi-definite *)
Lemma qf_dd n (E : nat -> nat -> R) x :
  (forall i j, (i < n)%nat -> (j < n)%nat -> E i j = E j i) ->
  (forall i, (i < n)%nat -> sumn (fun j => if (i =? j)%nat then 0 else Rabs (E i j)) n <= E i i) ->
  0 <= qf n E x.
Proof.
  intros SYM DD.
  set (a := fun i j => if (i =? j)%nat then 0 else Rabs (E i j)).
  assert (T : forall i j, (i < n)%nat -> (j < n)%nat ->
     (if (i =? j)%nat then E i i * (x i * x i) else 0) - a i j * (x i * x i) / 2 - a i j * (x j * x j) / 2 <= E i j * x i * x j).
  { intros i j Hi Hj. unfold a. destruct (i =? j)%nat eqn:Eq.
    - apply Nat.eqb_eq in Eq. subst j. lra.
    - assert (H1 : - Rabs (E i j) <= E i j) by (pose proof (Rle_abs (- E i j)) as H; rewrite Rabs_Ropp in H; lra).
      assert (H2 : E i j <= Rabs (E i j)) by apply Rle_abs.
      assert (H3 : 0 <= Rabs (E i j)) by apply Rabs_pos.
      assert (P : 0 <= (x i + x j) * (x i + x j)) by apply Rle_0_sqr.
      assert (M : 0 <= (x i - x j) * (x i - x j)) by apply Rle_0_sqr.
      nra. }
  unfold qf.
  apply Rle_trans with (sumn (fun i => sumn (fun j =>
       (if (i =? j)%nat then E i i * (x i * x i) else 0) - a i j * (x i * x i) / 2 - a i j * (x j * x j) / 2) n) n).
  2:{ apply sumn_le. intros i Hi. apply sumn_le. intros j Hj. apply T; auto. }
  assert (P1 : forall i, (i < n)%nat -> sumn (fun j => if (i =? j)%nat then E i i * (x i * x i) else 0) n = E i i * (x i * x i)).
  { intros i Hi. apply (sumn_diag n (fun _ => E i i * (x i * x i)) i Hi). }
  assert (S3 : sumn (fun i => sumn (fun j => a i j * (x j * x j) / 2) n) n = sumn (fun i => sumn (fun j => a i j * (x i * x i) / 2) n) n).
  { rewrite sumn_swap. apply sumn_ext. intros i Hi. apply sumn_ext. intros j Hj. unfold a.
    rewrite (Nat.eqb_sym j i). destruct (i =? j)%nat; auto. rewrite (SYM j i) by auto. reflexivity. }
  assert (Q3 : forall (m : nat) (f g h : nat -> R), sumn (fun i => f i - g i - h i) m = sumn f m - sumn g m - sumn h m).
  { intros m f g h. induction m as [|m IH]; simpl; [lra|]. rewrite IH. lra. }
  assert (EQ : sumn (fun i => sumn (fun j =>
       (if (i =? j)%nat then E i i * (x i * x i) else 0) - a i j * (x i * x i) / 2 - a i j * (x j * x j) / 2) n) n
       = sumn (fun i => (E i i - sumn (fun j => a i j) n) * (x i * x i)) n).
  { transitivity (sumn (fun i => E i i * (x i * x i)) n - sumn (fun i => sumn (fun j => a i j * (x i * x i) / 2) n) n
                  - sumn (fun i => sumn (fun j => a i j * (x j * x j) / 2) n) n).
    - rewrite <- (sumn_ext _ _ n P1). rewrite <- Q3. apply sumn_ext. intros i Hi. apply Q3.
    - rewrite S3.
      assert (Q : forall f g : nat -> R, sumn f n - sumn g n - sumn g n = sumn (fun i => f i - 2 * g i) n).
      { intros f g. clear. induction n as [|n IH]; simpl; [lra|]. rewrite <- IH. lra. }
      rewrite Q. apply sumn_ext. intros i Hi.
      rewrite (sumn_ext (fun j => a i j * (x i * x i) / 2) (fun j => a i j * ((x i * x i) / 2))) by (intros; lra).
      rewrite sumn_scal_r. change (sumn (fun j => a i j) n) with (sumn (a i) n). field. }
  rewrite EQ. apply sumn_nonneg. intros i Hi. apply Rmult_le_pos; [|apply Rle_0_sqr].
  specialize (DD i Hi). fold (a i) in DD. unfold a in *. lra.
Qed.

(** * lists and nat-indexed families *)
Lemma Rdot_sumn : forall (a b : list R), length a = length b ->
  Rdot a b = sumn (fun i => nth i a 0 * nth i b 0) (length a).
Proof.
  induction a as [|x a IH]; intros [|y b] H; simpl in H; try discriminate; [reflexivity|].
  change (length (x :: a)) with (S (length a)). rewrite sumn_shift. simpl. rewrite (IH b) by lia. reflexivity.
Qed.

Lemma Rquad_qf n (M : list (list R)) (x : list R) :
  length M = n -> Forall (fun r => length r = n) M -> length x = n ->
  Rquad M x = qf n (fun i j => nth j (nth i M []) 0) (fun i => nth i x 0).
Proof.
  intros LM HM Lx. unfold Rquad, qf.
  rewrite Rdot_sumn by (rewrite map_length; congruence). rewrite Lx.
  apply sumn_ext. intros i Hi.
  assert (Hr : length (nth i M []) = n).
  { rewrite Forall_forall in HM. apply HM. apply nth_In. lia. }
  replace (nth i (map (fun r => Rdot r x) M) 0) with (Rdot (nth i M []) x).
  2:{ symmetry. rewrite (nth_indep _ 0 (Rdot [] x)) by (rewrite map_length; lia).
      apply (map_nth (fun r => Rdot r x)). }
  rewrite Rdot_sumn by congruence. rewrite Hr. rewrite <- sumn_scal. apply sumn_ext. intros j _. ring.
Qed.

Lemma Zdotl_nil_r a : Zdotl a [] = 0%Z.
Proof. destruct a; reflexivity. Qed.

Lemma Zdotl_sumn : forall (a b : list Z), length a = length b ->
  IZR (Zdotl a b) = sumn (fun k => IZR (nth k a 0%Z) * IZR (nth k b 0%Z)) (length a).
Proof.
  induction a as [|x a IH]; intros [|y b] H; simpl in H; try discriminate; [reflexivity|].
  change (length (x :: a)) with (S (length a)). rewrite sumn_shift. simpl Zdotl.
  rewrite plus_IZR, mult_IZR, (IH b) by lia. reflexivity.
Qed.

Lemma Zsumabs_sumn : forall l : list Z,
  IZR (Zsumabs l) = sumn (fun j => Rabs (IZR (nth j l 0%Z))) (length l).
Proof.
  induction l as [|x l IH]; [reflexivity|].
  change (length (x :: l)) with (S (length l)). rewrite sumn_shift.
  change (Zsumabs (x :: l)) with (Z.abs x + Zsumabs l)%Z.
  rewrite plus_IZR, abs_IZR, IH. reflexivity.
Qed.

Lemma rectb_spec {A} r c (M : list (list A)) : rectb r c M = true ->
  length M = r /\ Forall (fun row => length row = c) M.
Proof.
  unfold rectb. intros H. apply andb_true_iff in H as [H1 H2]. apply Nat.eqb_eq in H1. split; auto.
  apply Forall_forall. intros row Hr. rewrite forallb_forall in H2. apply Nat.eqb_eq. apply H2; exact Hr.
Qed.

Lemma nth_zipw {A B C} (f : A -> B -> C) (da : A) (db : B) (dc : C) : forall (a : list A) (b : list B) k,
  (k < length a)%nat -> (k < length b)%nat -> nth k (zipw f a b) dc = f (nth k a da) (nth k b db).
Proof.
  induction a as [|x a IH]; intros [|y b] k Ha Hb; simpl in *; try lia.
  destruct k; [reflexivity|]. apply IH; lia.
Qed.

Lemma zipw_length_min {A B C} (f : A -> B -> C) : forall (a : list A) (b : list B),
  length (zipw f a b) = Nat.min (length a) (length b).
Proof. induction a as [|x a IH]; intros [|y b]; simpl; auto. Qed.

(** entries and row lengths of the residual *)
Lemma resid_row f KZ LZ n i : length KZ = n -> Forall (fun r => length r = n) KZ ->
  length LZ = n -> (i < n)%nat ->
  length (nth i (resid f KZ LZ) []) = n.
Proof.
  intros LK HK LL Hi. unfold resid.
  rewrite (nth_zipw _ [] [] []) by lia.
  rewrite zipw_length_min, LL. rewrite Forall_forall in HK. rewrite (HK (nth i KZ [])) by (apply nth_In; lia). lia.
Qed.

Lemma resid_ent f KZ LZ n i j : length KZ = n -> Forall (fun r => length r = n) KZ ->
  length LZ = n -> (i < n)%nat -> (j < n)%nat ->
  nth j (nth i (resid f KZ LZ) []) 0%Z = (entZ KZ i j - f * Zdotl (nth i LZ []) (nth j LZ []))%Z.
Proof.
  intros LK HK LL Hi Hj. unfold resid, entZ.
  rewrite (nth_zipw _ [] [] []) by lia.
  rewrite Forall_forall in HK.
  rewrite (nth_zipw _ 0%Z [] 0%Z); [reflexivity| |lia].
  rewrite (HK (nth i KZ [])) by (apply nth_In; lia). exact Hj.
Qed.

(** * soundness of the integer core *)
Lemma psd_certZ_sound n KZ LZ f dz : psd_certZ n KZ LZ f dz = true ->
  forall x : nat -> R,
  0 <= qf n (fun i j => IZR (entZ KZ i j) + (if (i =? j)%nat then IZR dz else 0)) x.
Proof.
  intros H x. unfold psd_certZ in H.
  apply andb_true_iff in H as [H Hdd]. apply andb_true_iff in H as [H Hsym].
  apply andb_true_iff in H as [H Hf]. apply andb_true_iff in H as [HK HL].
  apply rectb_spec in HK as [LK HK]. apply rectb_spec in HL as [LL HL].
  apply Z.leb_le in Hf. apply IZR_le in Hf.
  set (Lf := fun i k => IZR (nth k (nth i LZ []) 0%Z)).
  set (G := fun i j => sumn (fun k => Lf i k * Lf j k) n).
  set (A := fun i j => IZR (entZ KZ i j) + (if (i =? j)%nat then IZR dz else 0)).
  set (E := fun i j => A i j - IZR f * G i j).
  assert (HrowL : forall i, (i < n)%nat -> length (nth i LZ []) = n).
  { intros i Hi. rewrite Forall_forall in HL. apply HL. apply nth_In. lia. }
  assert (HG : forall i j, (i < n)%nat -> (j < n)%nat -> IZR (Zdotl (nth i LZ []) (nth j LZ [])) = G i j).
  { intros i j Hi Hj. rewrite Zdotl_sumn by (rewrite !HrowL; auto). rewrite HrowL by auto. reflexivity. }
  assert (HS : forall i j, (i < n)%nat -> (j < n)%nat -> entZ KZ i j = entZ KZ j i).
  { intros i j Hi Hj. unfold symZb in Hsym. rewrite forallb_forall in Hsym.
    specialize (Hsym i (proj2 (in_seq _ _ _) (conj (Nat.le_0_l _) Hi))).
    rewrite forallb_forall in Hsym. apply Z.eqb_eq. apply Hsym. apply in_seq. lia. }
  assert (HE0 : forall i j, (i < n)%nat -> (j < n)%nat ->
            IZR (nth j (nth i (resid f KZ LZ) []) 0%Z) = IZR (entZ KZ i j) - IZR f * G i j).
  { intros i j Hi Hj. rewrite (resid_ent f KZ LZ n i j LK HK LL Hi Hj).
    rewrite minus_IZR, mult_IZR, HG by auto. reflexivity. }
  rewrite (qf_ext n _ (fun i j => IZR f * G i j + E i j)) by (intros; unfold E, A; lra).
  rewrite qf_plus, qf_scal.
  assert (P1 : 0 <= qf n G x) by apply qf_gram.
  assert (P2 : 0 <= qf n E x).
  { apply qf_dd.
    - intros i j Hi Hj. unfold E, A, G. rewrite (HS i j), (Nat.eqb_sym i j) by auto.
      f_equal. f_equal. apply sumn_ext. intros; lra.
    - intros i Hi. rewrite forallb_forall in Hdd.
      assert (Hin : In (i, nth i (resid f KZ LZ) []) (combine (seq 0 n) (resid f KZ LZ))).
      { assert (Lr : length (resid f KZ LZ) = n) by (unfold resid; rewrite zipw_length_min; lia).
        replace (i, nth i (resid f KZ LZ) []) with (nth i (combine (seq 0 n) (resid f KZ LZ)) (O, [])).
        - apply nth_In. rewrite combine_length, seq_length, Lr. lia.
        - rewrite combine_nth by (rewrite seq_length; auto). rewrite seq_nth by auto. reflexivity. }
      specialize (Hdd _ Hin). unfold ddrow in Hdd. cbn [fst snd] in Hdd.
      apply Z.leb_le in Hdd. apply IZR_le in Hdd.
      rewrite minus_IZR, plus_IZR, abs_IZR, Zsumabs_sumn in Hdd.
      rewrite (resid_row f KZ LZ n i LK HK LL Hi) in Hdd.
      rewrite (sumn_offdiag n (fun j => Rabs (E i j)) i Hi).
      rewrite (sumn_ext (fun j => Rabs (E i j))
                 (fun j => if (i =? j)%nat then Rabs (E i i) else Rabs (IZR (nth j (nth i (resid f KZ LZ) []) 0%Z)))).
      2:{ intros j Hj. destruct (i =? j)%nat eqn:Eq; [apply Nat.eqb_eq in Eq; subst; reflexivity|].
          rewrite HE0 by auto. unfold E, A. rewrite Eq. f_equal. lra. }
      (* the checker's row sum contains |E0_ii| where E contains |E_ii| = |E0_ii + dz| *)
      set (e0 := fun j => Rabs (IZR (nth j (nth i (resid f KZ LZ) []) 0%Z))) in *.
      assert (Sp : sumn (fun j => if (i =? j)%nat then Rabs (E i i) else e0 j) n
                   = sumn e0 n - e0 i + Rabs (E i i)).
      { rewrite (sumn_ext _ (fun j => (if (i =? j)%nat then 0 else e0 j) + (if (i =? j)%nat then Rabs (E i i) else 0))).
        - rewrite sumn_plus, (sumn_offdiag n e0 i Hi), (sumn_diag n (fun _ => Rabs (E i i)) i Hi). reflexivity.
        - intros j _. destruct (i =? j)%nat; lra. }
      change (sumn (fun j => if (i =? j)%nat then Rabs (E i i) else e0 j) n - Rabs (E i i) <= E i i).
      rewrite Sp.
      assert (Ed : E i i = IZR (nth i (nth i (resid f KZ LZ) []) 0%Z) + IZR dz).
      { rewrite HE0 by auto. unfold E, A. rewrite Nat.eqb_refl. lra. }
      unfold e0 in *. rewrite Ed. lra. }
  nra.
Qed.

(** * soundness of the certificate *)
Lemma scaled_ent D : forall (MZ : list (list Z)) (M : list (list Q)) i j,
  scaledb D MZ M = true ->
  IZR (nth j (nth i MZ []) 0%Z) = IZR (Zpos D) * Q2R (nth j (nth i M []) 0%Q).
Proof.
  unfold scaledb.
  induction MZ as [|rz MZ IH]; intros [|r M] i j H; cbn [forallb2] in H; try discriminate.
  - destruct i, j; simpl; rewrite Q2R_0'; lra.
  - apply andb_true_iff in H as [H1 H2]. destruct i as [|i]; [|simpl; apply IH; exact H2].
    simpl. clear IH H2. revert r j H1.
    induction rz as [|z rz IHr]; intros [|q r] j H1; cbn [forallb2] in H1; try discriminate.
    + destruct j; simpl; rewrite Q2R_0'; lra.
    + apply andb_true_iff in H1 as [H0 H1]. destruct j as [|j]; simpl.
      * apply scaled_entry_R; exact H0.
      * apply IHr; exact H1.
Qed.

Lemma forallb2_length {A B} (f : A -> B -> bool) : forall l1 l2, forallb2 f l1 l2 = true -> length l1 = length l2.
Proof.
  induction l1 as [|a l1 IH]; intros [|b l2] H; simpl in H; try discriminate; auto.
  apply andb_true_iff in H as [_ H]. simpl. f_equal. apply IH; exact H.
Qed.

Lemma scaledb_shape D : forall (MZ : list (list Z)) (M : list (list Q)) n,
  scaledb D MZ M = true -> length MZ = n -> Forall (fun r => length r = n) MZ ->
  length M = n /\ Forall (fun r => length r = n) M.
Proof.
  unfold scaledb. intros MZ M n H LZ HZ. split.
  - rewrite <- (forallb2_length _ _ _ H). exact LZ.
  - clear LZ. revert M H. induction MZ as [|rz MZ IH]; intros [|r M] H; cbn [forallb2] in H; try discriminate.
    + constructor.
    + apply andb_true_iff in H as [H1 H2]. inversion HZ as [|? ? Hr HZ']; subst.
      constructor; [|apply IH; auto]. rewrite <- (forallb2_length _ _ _ H1). reflexivity.
Qed.

Theorem psd_cert_sound : forall n K L dq, psd_cert n K L dq = true ->
  forall x, length x = n -> - Q2R dq * Rdot x x <= Rquad (map (map Q2R) K) x.
Proof.
  intros n K L dq H x Lx. unfold psd_cert in H.
  set (DL := maxden L) in *. set (D := Pos.max (Pos.max (maxden K) (Qden dq)) (DL * DL)) in *.
  set (LZ := map (map (toZ DL)) L) in *. set (KZ := map (map (toZ D)) K) in *.
  set (dz := toZ D dq) in *. set (f := (Z.pos D / Z.pos (DL * DL))%Z) in *.
  apply andb_true_iff in H as [H Hc]. apply andb_true_iff in H as [H _].
  apply andb_true_iff in H as [H Hdz]. apply andb_true_iff in H as [_ HKs].
  rewrite psd_certB_eq in Hc.
  pose proof (psd_certZ_sound n KZ LZ f dz Hc (fun i => nth i x 0)) as P.
  assert (HD : 0 < IZR (Zpos D)) by (apply (IZR_lt 0); reflexivity).
  (* shapes *)
  unfold psd_certZ in Hc. apply andb_true_iff in Hc as [Hc _]. apply andb_true_iff in Hc as [Hc _].
  apply andb_true_iff in Hc as [Hc _]. apply andb_true_iff in Hc as [HKr _].
  apply rectb_spec in HKr as [LKZ HKZ].
  destruct (scaledb_shape D KZ K n HKs LKZ HKZ) as [LK HK].
  rewrite (qf_ext n _ (fun i j => IZR (Zpos D) * nth j (nth i (map (map Q2R) K) []) 0
                                   + (if (i =? j)%nat then IZR (Zpos D) * Q2R dq else 0))) in P.
  2:{ intros i j Hi Hj. unfold entZ. rewrite (scaled_ent D KZ K i j HKs).
      rewrite (scaled_entry_R D dz dq Hdz). f_equal.
      f_equal. rewrite (nth_indep _ [] (map Q2R [])) by (rewrite map_length; lia).
      rewrite (map_nth (map Q2R)). rewrite <- Q2R_0'. rewrite (map_nth Q2R). reflexivity. }
  rewrite qf_plus, qf_scal, qf_identity in P.
  rewrite <- (Rquad_qf n (map (map Q2R) K) x) in P.
  2:{ rewrite map_length; exact LK. }
  2:{ apply Forall_forall. intros r Hr. apply in_map_iff in Hr as [q [<- Hq]]. rewrite map_length.
      rewrite Forall_forall in HK. apply HK; exact Hq. }
  2:{ exact Lx. }
  assert (Ex : sumn (fun i => nth i x 0 * nth i x 0) n = Rdot x x).
  { rewrite Rdot_sumn by reflexivity. rewrite Lx. reflexivity. }
  rewrite Ex in P. nra.
Qed.

(** non-vacuity: [[1, 1/2], [1/2, 1]] with the hint L = [[1, 0], [1/2, 27/32]] and shift 1/1024 is accepted; an
    indefinite matrix is rejected whatever the hint; a bad hint only loses the certificate *)
Example psd_cert_accepts :
  psd_cert 2 [[1; 1#2]; [1#2; 1]]%Q [[1; 0]; [1#2; 27#32]]%Q (1#1024) = true.
Proof. vm_compute. reflexivity. Qed.
Example psd_cert_rejects_indefinite :
  psd_cert 2 [[1; 2]; [2; 1]]%Q [[1; 0]; [2; 0]]%Q (1#1024) = false.
Proof. vm_compute. reflexivity. Qed.
Example psd_cert_bad_hint :
  psd_cert 2 [[1; 1#2]; [1#2; 1]]%Q [[2; 0]; [0; 2]]%Q (1#1024) = false.
Proof. vm_compute. reflexivity. Qed.
