(** C13 - property theorems for the nu variants (statements only; proofs are in C13/ProofsNu.v).
    The nu duals of libsvm have TWO linear equality constraints; the solver's multipliers are rho and r.
    [nusvc_ok] / [nusvr_ok] (C13/Check.v) are the exact rational checkers whose conjuncts the oracle of
    C13/Corr.v evaluates on every nu-SVC / nu-SVR fit (bits 1, 2, 4). *)
From Coq Require Import List NArith QArith Qreals Reals.
From LinfaVerif Require Import Common.QF C13.Spec C13.Check C13.Proofs C13.ProofsNu.
Import ListNotations.
Local Open Scope R_scope.

(** epsilon-KKT => epsilon-optimality with two equality constraints w1^T a = c1, w2^T a = c2 (multipliers b1, b2):
    D(a) = 1/2 a^T Q a + p^T a, Q symmetric positive semi-definite, box lo <= a <= hi.  If at a feasible a every
    coordinate that can still grow has Lagrangian gradient >= -eps and every coordinate that can still shrink has
    gradient <= eps, no feasible a' with the same two constraint values is better by more than eps |a' - a|_1. *)
Theorem qp_kkt_eps_optimal2 : forall n Q p w1 w2 lo hi a a' b1 b2 eps,
  wfM n Q -> Sym n Q -> PSD n Q ->
  length p = n -> length w1 = n -> length w2 = n -> length a = n -> length a' = n ->
  0 <= eps ->
  in_box lo hi a -> in_box lo hi a' -> Rdot w1 a' = Rdot w1 a -> Rdot w2 a' = Rdot w2 a ->
  kkt_box eps lo hi a (lagr_grad2 Q p w1 w2 b1 b2 a) ->
  qp_obj Q p a' >= qp_obj Q p a - eps * l1R (vsubR a' a).
Proof. exact qp_kkt_eps_optimal2_l. Qed.

(** the same for a matrix that is positive semi-definite only up to a shift delta *)
Theorem qp_kkt_eps_optimal2_shift : forall n Q p w1 w2 lo hi a a' b1 b2 eps delta,
  wfM n Q -> Sym n Q -> PSDd n Q delta ->
  length p = n -> length w1 = n -> length w2 = n -> length a = n -> length a' = n ->
  0 <= eps ->
  in_box lo hi a -> in_box lo hi a' -> Rdot w1 a' = Rdot w1 a -> Rdot w2 a' = Rdot w2 a ->
  kkt_box eps lo hi a (lagr_grad2 Q p w1 w2 b1 b2 a) ->
  qp_obj Q p a' >= qp_obj Q p a - eps * l1R (vsubR a' a) - delta / 2 * sqnorm (vsubR a' a).
Proof. exact qp_kkt_eps_optimal2_d. Qed.

(** nu-SVC checker.  Published: a_i = y_i alpha_i / r, rho / r, r; cb = 1/r, total = nu n.  An accepted output is
    feasible (class-signed box [0, cb], |sum a_i| <= eeq), satisfies the second equality constraint
    | r sum |a_i| - nu n | <= enu, and the margin conditions of C-SVC with C = 1/r (margin computed exactly from
    the published coefficients) *)
Theorem nusvc_ok_sound : forall K y cb total rq a rho e eeq enu,
  nusvc_ok K y cb total rq a rho e eeq enu = true ->
  nusvc_spec (mQ K) y (Q2R cb) (Q2R total) (Q2R rq) (map Q2R a) (Q2R rho) (Q2R e) (Q2R eeq) (Q2R enu).
Proof. exact nusvc_ok_sound_l. Qed.

(** ... which are the e-KKT conditions of the nu-SVC dual in the published coefficients, E(a) = 1/2 a^T K a with
    the two constraints sum_i a_i and sum_i y_i a_i = sum_i |a_i| fixed: no point a' of the same box with the same
    two sums is better by more than e |a' - a|_1 *)
Theorem nusvc_kkt_optimal : forall n K y cb total r a rho e eeq enu a',
  wfM n K -> Sym n K -> PSD n K -> length y = n -> length a = n -> length a' = n -> 0 <= e ->
  nusvc_spec K y cb total r a rho e eeq enu ->
  in_box (svc_lo cb y) (svc_hi cb y) a' -> Rsum a' = Rsum a -> l1R a' = l1R a ->
  nusvc_obj K a' >= nusvc_obj K a - e * l1R (vsubR a' a).
Proof. exact nusvc_kkt_optimal_l. Qed.

(** checker + optimality in one statement (what a run certifies for a symmetric PSD kernel matrix) *)
Theorem nusvc_ok_certifies_optimality : forall n K y cb total rq a rho e eeq enu a',
  nusvc_ok K y cb total rq a rho e eeq enu = true ->
  wfM n (mQ K) -> Sym n (mQ K) -> PSD n (mQ K) -> length y = n -> length a = n -> length a' = n ->
  0 <= Q2R e ->
  in_box (svc_lo (Q2R cb) y) (svc_hi (Q2R cb) y) a' -> Rsum a' = Rsum (map Q2R a) -> l1R a' = l1R (map Q2R a) ->
  nusvc_obj (mQ K) a' >= nusvc_obj (mQ K) (map Q2R a) - Q2R e * l1R (vsubR a' (map Q2R a)).
Proof. exact nusvc_ok_certifies_optimality_l. Qed.

(** nu-SVR checker.  Published: b_i = alpha_i - alpha*_i, rho, and the width of the tube p = -r; total = c nu n.
    An accepted output satisfies the epsilon-SVR conditions with loss epsilon p, p >= -e, sum |b_i| <= total + enu,
    and complementarity: p <= e or sum |b_i| >= total - enu *)
Theorem nusvr_ok_sound : forall K y c total p b rho e eeq enu,
  nusvr_ok K y c total p b rho e eeq enu = true ->
  nusvr_spec (mQ K) (map Q2R y) (Q2R c) (Q2R total) (Q2R p) (map Q2R b) (Q2R rho) (Q2R e) (Q2R eeq) (Q2R enu).
Proof. exact nusvr_ok_sound_l. Qed.

(** ... which are the e-KKT conditions of the nu-SVR dual E0(b) = 1/2 b^T K b - y^T b over |b_i| <= c,
    sum_i b_i fixed, sum_i |b_i| <= c nu n, the multiplier of the last constraint being p *)
Theorem nusvr_kkt_optimal : forall n K y c total p b rho e eeq enu b',
  wfM n K -> Sym n K -> PSD n K -> length y = n -> length b = n -> length b' = n ->
  0 <= e -> 0 <= p -> 0 < c -> 0 <= enu ->
  nusvr_spec K y c total p b rho e eeq enu ->
  Forall (fun x => - c <= x <= c) b' -> Rsum b' = Rsum b -> l1R b' <= total ->
  svr_obj0 K y b' >= svr_obj0 K y b - e * l1R (vsubR b' b) - Rmax (p * enu) (e * total).
Proof. exact nusvr_kkt_optimal_l. Qed.
