(** C13 - mathematical statements over the reals (definitions only): box-constrained convex quadratic
    programs with one linear equality constraint, their epsilon-KKT conditions, and the KKT conditions of
    the SVM duals in terms of the published coefficients. *)
From Coq Require Import List Reals.
From LinfaVerif Require Import Common.QF.
Import ListNotations.
Local Open Scope R_scope.

(** list vectors / matrices over R ([Rdot], [Rsum] come from Common/QF.v) *)
Fixpoint map2R (f : R -> R -> R) (a b : list R) : list R :=
  match a, b with x :: a', y :: b' => f x y :: map2R f a' b' | _, _ => [] end.
Definition vaddR := map2R Rplus.
Definition vsubR := map2R Rminus.
Definition vscaleR (c : R) (a : list R) : list R := map (Rmult c) a.
Definition mvR (M : list (list R)) (v : list R) : list R := map (fun row => Rdot row v) M.
Definition quadR (M : list (list R)) (v : list R) : R := Rdot v (mvR M v).
Definition l1R (d : list R) : R := Rsum (map Rabs d).
Definition ones (n : nat) : list R := repeat 1 n.

Definition wfM (n : nat) (M : list (list R)) : Prop := length M = n /\ Forall (fun row => length row = n) M.
(** symmetric and positive semi-definite, as bilinear / quadratic forms on vectors of length n *)
Definition Sym (n : nat) (M : list (list R)) : Prop :=
  forall u v, length u = n -> length v = n -> Rdot u (mvR M v) = Rdot v (mvR M u).
Definition PSD (n : nat) (M : list (list R)) : Prop := forall v, length v = n -> 0 <= quadR M v.
(** positive semi-definite up to a shift: M + delta I is PSD (what an exact LDL^T certificate of the rounded
    kernel matrix establishes) *)
Definition PSDd (n : nat) (M : list (list R)) (delta : R) : Prop :=
  forall v, length v = n -> - delta * Rdot v v <= quadR M v.
Definition sqnorm (d : list R) : R := Rdot d d.

(** D(a) = 1/2 a^T Q a + p^T a *)
Definition qp_obj (Q : list (list R)) (p a : list R) : R := / 2 * quadR Q a + Rdot p a.

Fixpoint in_box (lo hi a : list R) : Prop :=
  match lo, hi, a with
  | [], [], [] => True
  | l :: lo', h :: hi', x :: a' => l <= x <= h /\ in_box lo' hi' a'
  | _, _, _ => False
  end.

(** epsilon-KKT of a box-constrained problem at a, g = gradient of the Lagrangian:
    a coordinate that can still grow has g_i >= -eps, one that can still shrink has g_i <= eps *)
Fixpoint kkt_box (eps : R) (lo hi a g : list R) : Prop :=
  match lo, hi, a, g with
  | [], [], [], [] => True
  | l :: lo', h :: hi', x :: a', gi :: g' =>
      (x < h -> - eps <= gi) /\ (l < x -> gi <= eps) /\ kkt_box eps lo' hi' a' g'
  | _, _, _, _ => False
  end.

(** gradient of the Lagrangian of  min D(a) s.t. w^T a = const :  Q a + p - b w *)
Definition lagr_grad (Q : list (list R)) (p w : list R) (b : R) (a : list R) : list R :=
  vsubR (vaddR (mvR Q a) p) (vscaleR b w).

(** the same with two linear equality constraints w1^T a = c1, w2^T a = c2 (multipliers b1, b2): the nu variants *)
Definition lagr_grad2 (Q : list (list R)) (p w1 w2 : list R) (b1 b2 : R) (a : list R) : list R :=
  vsubR (vsubR (vaddR (mvR Q a) p) (vscaleR b1 w1)) (vscaleR b2 w2).

(** * SVM duals in the published coefficients *)
Definition sgn (y : bool) : R := if y then 1 else -1.
Definition dec_valuesR (K : list (list R)) (a : list R) (rho : R) : list R :=
  map (fun row => Rdot row a - rho) K.

(** C-SVC: a_i = y_i alpha_i; E(a) = 1/2 a^T K a - sum_i y_i a_i; sum a_i = const;
    a_i in [0, cpos] for the positive class, [-cneg, 0] for the negative one *)
Definition svc_lo (cneg : R) (y : list bool) : list R := map (fun b : bool => if b then 0 else - cneg) y.
Definition svc_hi (cpos : R) (y : list bool) : list R := map (fun b : bool => if b then cpos else 0) y.
Definition svc_obj (K : list (list R)) (y : list bool) (a : list R) : R :=
  qp_obj K (map (fun b => - sgn b) y) a.

Fixpoint svc_margins (cpos cneg e : R) (y : list bool) (a f : list R) : Prop :=
  match y, a, f with
  | [], [], [] => True
  | yi :: y', ai :: a', fi :: f' =>
      let m := sgn yi * fi in
      let c := if yi then cpos else cneg in
      (Rabs ai < c -> 1 - e <= m) /\ (ai <> 0 -> m <= 1 + e) /\ svc_margins cpos cneg e y' a' f'
  | _, _, _ => False
  end.

(** the wording of the property: zero coefficient -> on or outside the margin; free -> on it; bounded -> on or inside *)
Fixpoint svc_margins_wording (cpos cneg e : R) (y : list bool) (a f : list R) : Prop :=
  match y, a, f with
  | [], [], [] => True
  | yi :: y', ai :: a', fi :: f' =>
      let m := sgn yi * fi in
      let c := if yi then cpos else cneg in
      (ai = 0 -> 1 - e <= m) /\ (0 < Rabs ai < c -> Rabs (m - 1) <= e) /\ (ai <> 0 -> Rabs ai = c -> m <= 1 + e)
      /\ svc_margins_wording cpos cneg e y' a' f'
  | _, _, _ => False
  end.

Definition svc_spec (K : list (list R)) (y : list bool) (cpos cneg : R) (a : list R) (rho e eeq : R) : Prop :=
  in_box (svc_lo cneg y) (svc_hi cpos y) a /\ Rabs (Rsum a) <= eeq /\
  svc_margins cpos cneg e y a (dec_valuesR K a rho).

(** epsilon-SVR: b_i = alpha_i - alpha*_i; E(b) = 1/2 b^T K b - y^T b + p sum |b_i|; sum b_i = const; |b_i| <= c *)
Definition svr_obj (K : list (list R)) (y : list R) (p : R) (b : list R) : R :=
  qp_obj K (map Ropp y) b + p * l1R b.

Fixpoint svr_residuals (c p e : R) (y b f : list R) : Prop :=
  match y, b, f with
  | [], [], [] => True
  | yi :: y', bi :: b', fi :: f' =>
      let res := yi - fi in
      (0 <= bi < c -> res <= p + e) /\ (bi < 0 -> res <= - p + e) /\
      (- c < bi <= 0 -> - p - e <= res) /\ (0 < bi -> p - e <= res) /\
      svr_residuals c p e y' b' f'
  | _, _, _ => False
  end.

Definition svr_spec (K : list (list R)) (y : list R) (c p : R) (b : list R) (rho e eeq : R) : Prop :=
  Forall (fun x => - c <= x <= c) b /\ Rabs (Rsum b) <= eeq /\
  svr_residuals c p e y b (dec_valuesR K b rho).

(** one-class: 0 <= a_i <= 1, sum a_i = total; E(a) = 1/2 a^T K a *)
Fixpoint oc_conditions (e : R) (a f : list R) : Prop :=
  match a, f with
  | [], [] => True
  | ai :: a', fi :: f' => (ai < 1 -> - e <= fi) /\ (0 < ai -> fi <= e) /\ oc_conditions e a' f'
  | _, _ => False
  end.
Definition oneclass_spec (K : list (list R)) (total : R) (a : list R) (rho e eeq : R) : Prop :=
  Forall (fun x => 0 <= x <= 1) a /\ Rabs (Rsum a - total) <= eeq /\ oc_conditions e a (dec_valuesR K a rho).

(** nu-SVC.  The solver minimises 1/2 alpha^T Q alpha (Q_ij = y_i y_j K_ij) over 0 <= alpha_i <= 1 with the two
    equality constraints sum_i y_i alpha_i = 0 and sum_i alpha_i = nu n; the multipliers are rho and r.  Published:
    a_i = y_i alpha_i / r and rho / r.  In the published coefficients: E(a) = 1/2 a^T K a;
    a_i in [0, cb] (positive class) / [-cb, 0] (negative class) with cb = 1/r; sum_i a_i = 0;
    sum_i y_i a_i = sum_i |a_i| = nu n / r ([total] = nu n); the multiplier of the first constraint is the published rho,
    the one of the second is 1 (= r / r), so the Lagrangian gradient is f_i - y_i as for C-SVC with C = 1/r *)
Definition nusvc_obj (K : list (list R)) (a : list R) : R := / 2 * quadR K a.
Definition nusvc_spec (K : list (list R)) (y : list bool) (cb total r : R) (a : list R) (rho e eeq enu : R) : Prop :=
  in_box (svc_lo cb y) (svc_hi cb y) a /\ Rabs (Rsum a) <= eeq /\
  Rabs (l1R a * r - total) <= enu /\
  svc_margins cb cb e y a (dec_valuesR K a rho).

(** nu-SVR in b_i = alpha_i - alpha*_i: E0(b) = 1/2 b^T K b - y^T b; |b_i| <= c; sum_i b_i = 0;
    sum_i |b_i| <= c nu n (= [total]).  The multiplier of the last constraint is the width p of the tube (the
    solver's -r): p >= 0, and p > 0 only if the constraint is active; the residual conditions are those of
    epsilon-SVR with loss epsilon p *)
Definition svr_obj0 (K : list (list R)) (y : list R) (b : list R) : R := qp_obj K (map Ropp y) b.
Definition nusvr_spec (K : list (list R)) (y : list R) (c total p : R) (b : list R) (rho e eeq enu : R) : Prop :=
  svr_spec K y c p b rho e eeq /\ - e <= p /\ l1R b <= total + enu /\ (p <= e \/ total - enu <= l1R b).
