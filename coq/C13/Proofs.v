(** C13 - lemmas: epsilon-KKT => epsilon-optimality for box-constrained convex quadratic programs with one
    equality constraint (and the l1 variant of epsilon-SVR), their instantiation for the SVM duals in the
    published coefficients, soundness of the exact rational checkers of C13/Check.v, and the pattern-A facts
    about weighted_sum / nsupport / labels of C13/Model.v. *)
From Coq Require Import List NArith ZArith QArith Qreals Reals Lra Lia Psatz Bool.
From Coq Require Import Floats.
From LinfaVerif Require Import Common.Num Common.NdSum Common.QF Common.LDL C13.Model C13.Spec C13.Check C13.Corr.
Import ListNotations.
Local Open Scope R_scope.

(** * list algebra over R *)
Lemma Rdot_comm a : forall b, Rdot a b = Rdot b a.
Proof. induction a as [|x a IH]; destruct b as [|y b]; simpl; try reflexivity. rewrite IH; ring. Qed.

Lemma map2R_length f a : forall b, length a = length b -> length (map2R f a b) = length a.
Proof. induction a as [|x a IH]; intros [|y b] H; simpl in *; try discriminate; auto. Qed.

Lemma Rdot_vadd_l a : forall b c, length a = length b -> Rdot (vaddR a b) c = Rdot a c + Rdot b c.
Proof.
  induction a as [|x a IH]; intros [|y b] c H; simpl in *; try discriminate; try lra.
  destruct c as [|z c]; simpl; [lra|]. unfold vaddR in IH. rewrite IH by lia. ring.
Qed.
Lemma Rdot_vadd_r c a b : length a = length b -> Rdot c (vaddR a b) = Rdot c a + Rdot c b.
Proof. intros H. rewrite Rdot_comm, Rdot_vadd_l by auto. rewrite (Rdot_comm a), (Rdot_comm b); reflexivity. Qed.
Lemma Rdot_vsub_l a : forall b c, length a = length b -> Rdot (vsubR a b) c = Rdot a c - Rdot b c.
Proof.
  induction a as [|x a IH]; intros [|y b] c H; simpl in *; try discriminate; try lra.
  destruct c as [|z c]; simpl; [lra|]. unfold vsubR in IH. rewrite IH by lia. ring.
Qed.
Lemma Rdot_vscale_l k a : forall c, Rdot (vscaleR k a) c = k * Rdot a c.
Proof. induction a as [|x a IH]; intros [|z c]; simpl; try lra. unfold vscaleR in IH. rewrite IH; ring. Qed.

Lemma vadd_vsub a : forall a', length a = length a' -> vaddR a (vsubR a' a) = a'.
Proof.
  unfold vaddR, vsubR.
  induction a as [|x a IH]; intros [|y a'] H; simpl in *; try discriminate; auto.
  f_equal; [ring|]. apply IH; lia.
Qed.

Lemma mvR_length M v : length (mvR M v) = length M.
Proof. apply map_length. Qed.

Lemma mvR_vadd M : forall n t d, Forall (fun row => length row = n) M -> length t = n -> length d = n ->
  mvR M (vaddR t d) = vaddR (mvR M t) (mvR M d).
Proof.
  induction M as [|row M IH]; intros n t d Hwf Ht Hd; simpl; [reflexivity|].
  inversion Hwf as [|? ? Hr Hwf']; subst.
  change (vaddR (Rdot row t :: mvR M t) (Rdot row d :: mvR M d))
    with ((Rdot row t + Rdot row d) :: vaddR (mvR M t) (mvR M d)).
  f_equal.
  - apply Rdot_vadd_r; congruence.
  - eapply IH; eauto.
Qed.

(** quadratic expansion for a symmetric form *)
Lemma quad_expand n Q a d : wfM n Q -> Sym n Q -> length a = n -> length d = n ->
  quadR Q (vaddR a d) = quadR Q a + 2 * Rdot d (mvR Q a) + quadR Q d.
Proof.
  intros [HQ Hwf] Hs Ha Hd. unfold quadR.
  rewrite (mvR_vadd Q n a d Hwf Ha Hd).
  rewrite Rdot_vadd_l by congruence.
  rewrite !Rdot_vadd_r by (rewrite !mvR_length; reflexivity).
  rewrite (Hs a d Ha Hd). ring.
Qed.

(** the first-order lower bound of a convex quadratic *)
Lemma PSD_PSDd n Q : PSD n Q -> PSDd n Q 0.
Proof. intros H v Hv. specialize (H v Hv). lra. Qed.

Lemma qp_first_order n Q p a a' delta : wfM n Q -> Sym n Q -> PSDd n Q delta ->
  length p = n -> length a = n -> length a' = n ->
  qp_obj Q p a' >= qp_obj Q p a + Rdot (vaddR (mvR Q a) p) (vsubR a' a) - delta / 2 * sqnorm (vsubR a' a).
Proof.
  intros HQ Hs Hp Lp La La'. unfold sqnorm.
  set (d := vsubR a' a).
  assert (Ld : length d = n). { unfold d, vsubR. rewrite map2R_length; congruence. }
  assert (E : a' = vaddR a d). { unfold d. symmetry. apply vadd_vsub. congruence. }
  rewrite E at 1. unfold qp_obj. rewrite (quad_expand n Q a d HQ Hs La Ld).
  rewrite Rdot_vadd_r by congruence.
  rewrite Rdot_vadd_l by (rewrite mvR_length; destruct HQ; congruence).
  pose proof (Hp d Ld) as Hn. rewrite (Rdot_comm (mvR Q a) d), (Rdot_comm p d). fold d. lra.
Qed.

(** sum_i g_i (a'_i - a_i) >= - eps sum_i |a'_i - a_i| under the epsilon-KKT conditions at a *)
Lemma kkt_box_bound eps : forall lo hi a g a', 0 <= eps ->
  in_box lo hi a -> in_box lo hi a' -> kkt_box eps lo hi a g ->
  Rdot g (vsubR a' a) >= - eps * l1R (vsubR a' a).
Proof.
  unfold l1R, vsubR.
  induction lo as [|l lo IH]; intros [|h hi] [|x a] [|gi g] [|x' a'] He Ba Ba' Hk; simpl in *; try tauto; try lra.
  destruct Ba as [[B1 B2] Ba], Ba' as [[B1' B2'] Ba'], Hk as [K1 [K2 Hk]].
  specialize (IH hi a g a' He Ba Ba' Hk).
  assert (T : gi * (x' - x) >= - eps * Rabs (x' - x)).
  { destruct (Rle_dec x x') as [L|L].
    - rewrite Rabs_right by lra. destruct (Req_dec x x') as [->|N]; [nra|].
      assert (x < h) by lra. specialize (K1 H). nra.
    - rewrite Rabs_left by lra. assert (l < x) by lra. specialize (K2 H). nra. }
  lra.
Qed.

Lemma lagr_grad_length n Q p w b a : wfM n Q -> length p = n -> length w = n ->
  length (lagr_grad Q p w b a) = n.
Proof.
  intros [HQ _] Lp Lw. unfold lagr_grad, vsubR, vaddR, vscaleR.
  rewrite !map2R_length; rewrite ?mvR_length, ?map_length, ?map2R_length; rewrite ?mvR_length; congruence.
Qed.

Theorem qp_kkt_eps_optimal_d : forall n Q p w lo hi a a' b eps delta,
  wfM n Q -> Sym n Q -> PSDd n Q delta ->
  length p = n -> length w = n -> length a = n -> length a' = n ->
  0 <= eps ->
  in_box lo hi a -> in_box lo hi a' -> Rdot w a' = Rdot w a ->
  kkt_box eps lo hi a (lagr_grad Q p w b a) ->
  qp_obj Q p a' >= qp_obj Q p a - eps * l1R (vsubR a' a) - delta / 2 * sqnorm (vsubR a' a).
Proof.
  intros n Q p w lo hi a a' b eps delta HQ Hs Hp Lp Lw La La' He Ba Ba' Hw Hk.
  pose proof (qp_first_order n Q p a a' delta HQ Hs Hp Lp La La') as H1.
  pose proof (kkt_box_bound eps lo hi a _ a' He Ba Ba' Hk) as H2.
  unfold lagr_grad in H2.
  assert (Lq : length (mvR Q a) = n) by (rewrite mvR_length; destruct HQ; auto).
  rewrite Rdot_vsub_l in H2.
  2:{ unfold vaddR, vscaleR. rewrite map2R_length, map_length; congruence. }
  rewrite Rdot_vscale_l in H2.
  assert (Hz : Rdot w (vsubR a' a) = 0).
  { rewrite Rdot_comm, Rdot_vsub_l by congruence. rewrite (Rdot_comm a'), (Rdot_comm a). lra. }
  rewrite Hz in H2. lra.
Qed.

Theorem qp_kkt_eps_optimal_l : forall n Q p w lo hi a a' b eps,
  wfM n Q -> Sym n Q -> PSD n Q ->
  length p = n -> length w = n -> length a = n -> length a' = n ->
  0 <= eps ->
  in_box lo hi a -> in_box lo hi a' -> Rdot w a' = Rdot w a ->
  kkt_box eps lo hi a (lagr_grad Q p w b a) ->
  qp_obj Q p a' >= qp_obj Q p a - eps * l1R (vsubR a' a).
Proof.
  intros n Q p w lo hi a a' b eps HQ Hs Hp Lp Lw La La' He Ba Ba' Hw Hk.
  pose proof (qp_kkt_eps_optimal_d n Q p w lo hi a a' b eps 0 HQ Hs (PSD_PSDd n Q Hp) Lp Lw La La' He Ba Ba' Hw Hk) as H.
  lra.
Qed.

(** * instantiation: C-SVC, one-class *)
Lemma Rsum_ones_dot a : Rdot (ones (length a)) a = Rsum a.
Proof. unfold ones. induction a as [|x a IH]; simpl; [reflexivity|]. rewrite IH; ring. Qed.

Lemma lagr_grad_svc K : forall y a rho, length y = length K ->
  lagr_grad K (map (fun b => - sgn b) y) (ones (length K)) rho a
  = vsubR (dec_valuesR K a rho) (map sgn y).
Proof.
  unfold lagr_grad, vsubR, vaddR, vscaleR, dec_valuesR, mvR, ones.
  induction K as [|row K IH]; intros [|yi y] a rho H; simpl in *; try discriminate; auto.
  f_equal; [ring|]. apply IH; lia.
Qed.

Lemma svc_margins_kkt cpos cneg e : forall y a f,
  svc_margins cpos cneg e y a f ->
  in_box (svc_lo cneg y) (svc_hi cpos y) a ->
  kkt_box e (svc_lo cneg y) (svc_hi cpos y) a (vsubR f (map sgn y)).
Proof.
  unfold vsubR, svc_lo, svc_hi.
  induction y as [|yi y IH]; intros [|ai a] [|fi f] Hm Hb; simpl in *; try tauto.
  destruct Hm as [M1 [M2 Hm]], Hb as [[B1 B2] Hb].
  split; [|split; [|apply IH; assumption]].
  - intros Hlt. destruct yi; simpl in *.
    + assert (Rabs ai < cpos) by (rewrite Rabs_right; lra). specialize (M1 H). lra.
    + assert (ai <> 0) by lra. specialize (M2 H). lra.
  - intros Hgt. destruct yi; simpl in *.
    + assert (ai <> 0) by lra. specialize (M2 H). lra.
    + assert (Rabs ai < cneg) by (rewrite Rabs_left1; lra). specialize (M1 H). lra.
Qed.

Lemma svc_lo_length c y : length (svc_lo c y) = length y. Proof. apply map_length. Qed.

Theorem svc_kkt_optimal_d : forall n K y cpos cneg a rho e eeq a' delta,
  wfM n K -> Sym n K -> PSDd n K delta -> length y = n -> length a = n -> length a' = n -> 0 <= e ->
  svc_spec K y cpos cneg a rho e eeq ->
  in_box (svc_lo cneg y) (svc_hi cpos y) a' -> Rsum a' = Rsum a ->
  svc_obj K y a' >= svc_obj K y a - e * l1R (vsubR a' a) - delta / 2 * sqnorm (vsubR a' a).
Proof.
  intros n K y cpos cneg a rho e eeq a' delta HK Hs Hp Ly La La' He [Hb [_ Hm]] Hb' Hsum.
  unfold svc_obj.
  apply (qp_kkt_eps_optimal_d n K _ (ones n) (svc_lo cneg y) (svc_hi cpos y) a a' rho e delta); auto.
  - rewrite map_length; auto.
  - unfold ones; apply repeat_length.
  - rewrite <- La' at 1. rewrite Rsum_ones_dot. rewrite <- La at 1. rewrite Rsum_ones_dot. auto.
  - destruct HK as [HK1 HK2]. rewrite <- HK1. rewrite lagr_grad_svc by congruence.
    apply svc_margins_kkt; auto.
Qed.

Theorem svc_kkt_optimal_l : forall n K y cpos cneg a rho e eeq a',
  wfM n K -> Sym n K -> PSD n K -> length y = n -> length a = n -> length a' = n -> 0 <= e ->
  svc_spec K y cpos cneg a rho e eeq ->
  in_box (svc_lo cneg y) (svc_hi cpos y) a' -> Rsum a' = Rsum a ->
  svc_obj K y a' >= svc_obj K y a - e * l1R (vsubR a' a).
Proof.
  intros n K y cpos cneg a rho e eeq a' HK Hs Hp Ly La La' He Hspec Hb' Hsum.
  pose proof (svc_kkt_optimal_d n K y cpos cneg a rho e eeq a' 0 HK Hs (PSD_PSDd n K Hp) Ly La La' He Hspec Hb' Hsum) as H.
  lra.
Qed.

(** the three-case wording follows from (and, inside the box, is equivalent to) the two implications *)
Lemma svc_margins_imp_wording cpos cneg e : forall y a f, 0 <= e ->
  svc_margins cpos cneg e y a f -> 0 < cpos -> 0 < cneg -> svc_margins_wording cpos cneg e y a f.
Proof.
  induction y as [|yi y IH]; intros [|ai a] [|fi f] He Hm Hp Hn; simpl in *; try tauto.
  destruct Hm as [M1 [M2 Hm]].
  split; [|split; [|split; [|apply IH; assumption]]].
  - intros ->. apply M1. rewrite Rabs_R0. destruct yi; assumption.
  - intros [H1 H2]. specialize (M1 H2).
    assert (H : ai <> 0). { intro; subst. rewrite Rabs_R0 in H1. lra. }
    specialize (M2 H). apply Rabs_le. lra.
  - intros H _. apply M2; assumption.
Qed.

(** * one-class *)
Lemma lagr_grad_oc K : forall a rho,
  lagr_grad K (repeat 0 (length K)) (ones (length K)) rho a = dec_valuesR K a rho.
Proof.
  unfold lagr_grad, vsubR, vaddR, vscaleR, dec_valuesR, mvR, ones.
  induction K as [|row K IH]; intros a rho; simpl in *; auto.
  f_equal; [ring|]. apply IH.
Qed.

Lemma oc_conditions_kkt e : forall a f, oc_conditions e a f -> Forall (fun x => 0 <= x <= 1) a ->
  kkt_box e (repeat 0 (length a)) (repeat 1 (length a)) a f /\ in_box (repeat 0 (length a)) (repeat 1 (length a)) a.
Proof.
  induction a as [|ai a IH]; intros [|fi f] Hc Hb; simpl in *; try tauto.
  destruct Hc as [C1 [C2 Hc]]. inversion Hb as [|? ? B Hb']; subst.
  destruct (IH f Hc Hb') as [I1 I2]. repeat split; auto; lra.
Qed.

Lemma Rdot_zero_l n : forall a, Rdot (repeat 0 n) a = 0.
Proof. induction n; intros [|x a]; simpl; auto. rewrite IHn; ring. Qed.

Theorem oneclass_kkt_optimal_l : forall n K total a rho e eeq a',
  wfM n K -> Sym n K -> PSD n K -> length a = n -> length a' = n -> 0 <= e ->
  oneclass_spec K total a rho e eeq ->
  Forall (fun x => 0 <= x <= 1) a' -> Rsum a' = Rsum a ->
  / 2 * quadR K a' >= / 2 * quadR K a - e * l1R (vsubR a' a).
Proof.
  intros n K total a rho e eeq a' HK Hs Hp La La' He [Hb [_ Hc]] Hb' Hsum.
  destruct (oc_conditions_kkt e a _ Hc Hb) as [Hk Hin].
  assert (Hin' : in_box (repeat 0 (length a)) (repeat 1 (length a)) a').
  { rewrite La, <- La'. clear -Hb'. induction Hb'; simpl; auto. }
  pose proof (qp_kkt_eps_optimal_l n K (repeat 0 n) (ones n) (repeat 0 n) (repeat 1 n) a a' rho e HK Hs Hp) as T.
  unfold qp_obj in T. rewrite !Rdot_zero_l in T. rewrite !Rplus_0_r in T.
  apply T; auto; try apply repeat_length; try (rewrite <- La; assumption).
  - rewrite <- La' at 1. rewrite Rsum_ones_dot. rewrite <- La at 1. rewrite Rsum_ones_dot. auto.
  - destruct HK as [HK1 _]. subst n. rewrite lagr_grad_oc. rewrite <- La. exact Hk.
Qed.

(** * epsilon-SVR (l1 term) *)
Lemma Rsum_vsub a : forall b, length a = length b -> Rsum (vsubR a b) = Rsum a - Rsum b.
Proof.
  unfold vsubR. induction a as [|x a IH]; intros [|y b] H; simpl in *; try discriminate; try lra.
  rewrite IH by lia. ring.
Qed.

Lemma svr_grad_split K : forall y d b rho, length y = length K -> length d = length K ->
  Rdot (vaddR (mvR K b) (map Ropp y)) d = Rdot (vsubR (dec_valuesR K b rho) y) d + rho * Rsum d.
Proof.
  unfold vaddR, vsubR, dec_valuesR, mvR.
  induction K as [|row K IH]; intros [|yi y] [|di d] b rho Hy Hd; simpl in *; try discriminate; try lra.
  rewrite (IH y d b rho) by lia. ring.
Qed.

Lemma svr_terms c p e : 0 <= e -> 0 <= p -> 0 < c -> forall y b f b',
  Forall (fun x => - c <= x <= c) b -> Forall (fun x => - c <= x <= c) b' -> length b' = length b ->
  svr_residuals c p e y b f ->
  Rdot (vsubR f y) (vsubR b' b) + p * (l1R b' - l1R b) >= - e * l1R (vsubR b' b).
Proof.
  intros He Hp Hc. unfold l1R, vsubR.
  induction y as [|yi y IH]; intros [|bi b] [|fi f] [|bi' b'] Hb Hb' Hl Hr; simpl in *; try tauto; try discriminate; try lra.
  destruct Hr as [R1 [R2 [R3 [R4 Hr]]]].
  inversion Hb as [|? ? B Hbt]; subst. inversion Hb' as [|? ? B' Hbt']; subst.
  assert (Hl' : length b' = length b) by lia.
  specialize (IH b f b' Hbt Hbt' Hl' Hr).
  assert (T : (fi - yi) * (bi' - bi) + p * (Rabs bi' - Rabs bi) >= - e * Rabs (bi' - bi)).
  { destruct (Rtotal_order bi 0) as [Neg|[Zero|Pos]].
    - (* bi < 0 *)
      specialize (R2 Neg). rewrite (Rabs_left bi) by lra.
      assert (Hab : Rabs bi' >= - bi') by (unfold Rabs; destruct (Rcase_abs bi'); lra).
      destruct (Rle_dec bi bi') as [L|L].
      + rewrite (Rabs_right (bi' - bi)) by lra. nra.
      + rewrite (Rabs_left (bi' - bi)) by lra.
        assert (- c < bi <= 0) by lra. specialize (R3 H). nra.
    - subst bi. rewrite Rabs_R0.
      assert (H1 : 0 <= 0 < c) by lra. assert (H2 : - c < 0 <= 0) by lra.
      specialize (R1 H1). specialize (R3 H2).
      rewrite !Rminus_0_r. unfold Rabs; destruct (Rcase_abs bi'); nra.
    - specialize (R4 Pos). rewrite (Rabs_right bi) by lra.
      assert (Hab : Rabs bi' >= bi') by (unfold Rabs; destruct (Rcase_abs bi'); lra).
      destruct (Rle_dec bi bi') as [L|L].
      + rewrite (Rabs_right (bi' - bi)) by lra.
        destruct (Req_dec bi bi') as [->|N]; [nra|].
        assert (0 <= bi < c) by lra. specialize (R1 H). nra.
      + rewrite (Rabs_left (bi' - bi)) by lra. nra. }
  lra.
Qed.

Theorem svr_kkt_optimal_l : forall n K y c p b rho e eeq b',
  wfM n K -> Sym n K -> PSD n K -> length y = n -> length b = n -> length b' = n ->
  0 <= e -> 0 <= p -> 0 < c ->
  svr_spec K y c p b rho e eeq ->
  Forall (fun x => - c <= x <= c) b' -> Rsum b' = Rsum b ->
  svr_obj K y p b' >= svr_obj K y p b - e * l1R (vsubR b' b).
Proof.
  intros n K y c p b rho e eeq b' HK Hs Hpsd Ly Lb Lb' He Hp Hc [Hb [_ Hr]] Hb' Hsum.
  unfold svr_obj.
  assert (Ly' : length (map Ropp y) = n) by (rewrite map_length; auto).
  pose proof (qp_first_order n K (map Ropp y) b b' 0 HK Hs (PSD_PSDd n K Hpsd) Ly' Lb Lb') as H1.
  destruct HK as [HK1 HK2].
  assert (Ld : length (vsubR b' b) = length K). { unfold vsubR. rewrite map2R_length; congruence. }
  rewrite (svr_grad_split K y (vsubR b' b) b rho) in H1 by congruence.
  rewrite Rsum_vsub in H1 by congruence.
  pose proof (svr_terms c p e He Hp Hc y b _ b' Hb Hb' ltac:(congruence) Hr) as H2.
  nra.
Qed.

(** * exact arithmetic of the checkers *)
Lemma Qadd'_eq x y : (Qadd' x y == x + y)%Q.
Proof.
  unfold Qadd'. destruct x as [a b], y as [c d]. cbn [Qnum Qden].
  destruct (Z.pos b <=? Z.pos d)%Z.
  - destruct (Z.eqb_spec (Z.pos b * (Z.pos d / Z.pos b)) (Z.pos d)) as [E|E]; [|reflexivity].
    unfold Qeq, Qplus. cbn [Qnum Qden]. set (q := (Z.pos d / Z.pos b)%Z) in *.
    rewrite Pos2Z.inj_mul. rewrite <- E. ring.
  - destruct (Z.eqb_spec (Z.pos d * (Z.pos b / Z.pos d)) (Z.pos b)) as [E|E]; [|reflexivity].
    unfold Qeq, Qplus. cbn [Qnum Qden]. set (q := (Z.pos b / Z.pos d)%Z) in *.
    rewrite Pos2Z.inj_mul. rewrite <- E. ring.
Qed.

Lemma Q2R_add' x y : Q2R (Qadd' x y) = Q2R x + Q2R y.
Proof. rewrite (Qeq_eqR _ _ (Qadd'_eq x y)). apply Q2R_plus. Qed.
Lemma Q2R_sub' x y : Q2R (Qsub' x y) = Q2R x - Q2R y.
Proof. unfold Qsub'. rewrite Q2R_add', Q2R_opp. ring. Qed.
Lemma Q2R_sum' l : Q2R (Qsum' l) = Rsum (map Q2R l).
Proof. induction l as [|a l IH]; simpl; [apply RMicromega.Q2R_0|]. rewrite Q2R_add', IH; reflexivity. Qed.
Lemma Q2R_dot' a : forall b, Q2R (Qdot' a b) = Rdot (map Q2R a) (map Q2R b).
Proof.
  induction a as [|x a IH]; intros [|y b]; simpl; try apply RMicromega.Q2R_0.
  rewrite Q2R_add', Q2R_mult, IH; reflexivity.
Qed.

Definition mQ (K : list (list Q)) : list (list R) := map (map Q2R) K.

Lemma dec_values_R K a rho :
  map Q2R (dec_values K a rho) = dec_valuesR (mQ K) (map Q2R a) (Q2R rho).
Proof.
  unfold dec_values, dec_valuesR, mQ. rewrite !map_map. apply map_ext. intros row.
  rewrite Q2R_sub', Q2R_dot'. reflexivity.
Qed.

Lemma Qltb_complete a b : Q2R a < Q2R b -> Qltb a b = true.
Proof.
  intros H. unfold Qltb. destruct (Qle_bool b a) eqn:E; [|reflexivity].
  apply Qle_bool_iff in E. apply Qle_Rle in E. lra.
Qed.
Lemma Qleb_complete a b : Q2R a <= Q2R b -> Qleb a b = true.
Proof. intros H. unfold Qleb. apply Qle_bool_iff. apply Rle_Qle. exact H. Qed.
Lemma Qeq_bool_complete a b : Q2R a = Q2R b -> Qeq_bool a b = true.
Proof. intros H. apply Qeq_bool_iff. apply eqR_Qeq. exact H. Qed.
Lemma Q2R_0' : Q2R 0 = 0. Proof. apply RMicromega.Q2R_0. Qed.
Lemma Q2R_1' : Q2R 1 = 1. Proof. unfold Q2R; simpl; field. Qed.

(** * soundness of the C-SVC checker *)
Lemma svc_box_sound cpos cneg : forall y a, all2 (svc_box cpos cneg) y a = true ->
  in_box (svc_lo (Q2R cneg) y) (svc_hi (Q2R cpos) y) (map Q2R a).
Proof.
  induction y as [|yi y IH]; intros [|ai a] H; simpl in *; try discriminate; auto.
  apply andb_true_iff in H as [H1 H2]. split; [|apply IH; exact H2].
  unfold svc_box in H1. destruct yi; apply andb_true_iff in H1 as [A B];
    apply Qleb_R in A; apply Qleb_R in B; rewrite ?Q2R_opp, ?Q2R_0' in *; lra.
Qed.

Lemma svc_kkt_sound cpos cneg e : forall y a f, all3 (svc_kkt1 cpos cneg e) y a f = true ->
  svc_margins (Q2R cpos) (Q2R cneg) (Q2R e) y (map Q2R a) (map Q2R f).
Proof.
  induction y as [|yi y IH]; intros [|ai a] [|fi f] H; simpl in *; try discriminate; auto.
  apply andb_true_iff in H as [H1 H2]. unfold svc_kkt1 in H1. apply andb_true_iff in H1 as [A B].
  split; [|split; [|apply IH; exact H2]].
  - intros Hlt. apply orb_true_iff in A as [A|A].
    + exfalso. rewrite negb_true_iff in A.
      rewrite <- Qabs'_R in Hlt.
      assert (Q2R (Qabs' ai) < Q2R (if yi then cpos else cneg)) by (destruct yi; exact Hlt).
      rewrite (Qltb_complete _ _ H) in A. discriminate.
    + apply Qleb_R in A. rewrite Q2R_minus, Q2R_1' in A. destruct yi; simpl; rewrite ?Q2R_opp in A; lra.
  - intros Hne. apply orb_true_iff in B as [B|B].
    + exfalso. apply Hne. apply Qeq_bool_R in B. rewrite Q2R_0' in B. exact B.
    + apply Qleb_R in B. rewrite Q2R_plus, Q2R_1' in B. destruct yi; simpl; rewrite ?Q2R_opp in B; lra.
Qed.

Theorem svc_ok_sound_l : forall K y cpos cneg a rho e eeq,
  svc_ok K y cpos cneg a rho e eeq = true ->
  svc_spec (mQ K) y (Q2R cpos) (Q2R cneg) (map Q2R a) (Q2R rho) (Q2R e) (Q2R eeq).
Proof.
  intros K y cpos cneg a rho e eeq H. unfold svc_ok, svc_feasible, svc_kkt in H.
  apply andb_true_iff in H as [H1 H3]. apply andb_true_iff in H1 as [H1 H2].
  split; [apply svc_box_sound; exact H1|]. split.
  - apply Qleb_R in H2. rewrite Qabs'_R, Q2R_sum' in H2. exact H2.
  - rewrite <- dec_values_R. apply svc_kkt_sound. exact H3.
Qed.

(** * soundness of the epsilon-SVR checker *)
Lemma svr_kkt_sound c p e : forall y b f, all3 (svr_kkt1 c p e) y b f = true ->
  svr_residuals (Q2R c) (Q2R p) (Q2R e) (map Q2R y) (map Q2R b) (map Q2R f).
Proof.
  induction y as [|yi y IH]; intros [|bi b] [|fi f] H; simpl in *; try discriminate; auto.
  apply andb_true_iff in H as [H1 H2]. unfold svr_kkt1 in H1.
  apply andb_true_iff in H1 as [H1 D]. apply andb_true_iff in H1 as [H1 C]. apply andb_true_iff in H1 as [A B].
  split; [|split; [|split; [|split; [|apply IH; exact H2]]]].
  - intros [G1 G2]. apply orb_true_iff in A as [A|A].
    + exfalso. rewrite negb_true_iff in A. rewrite <- Q2R_0' in G1.
      rewrite (Qleb_complete _ _ G1), (Qltb_complete _ _ G2) in A. discriminate.
    + apply Qleb_R in A. rewrite Q2R_minus, Q2R_plus in A. exact A.
  - intros G. apply orb_true_iff in B as [B|B].
    + exfalso. rewrite negb_true_iff in B. rewrite <- Q2R_0' in G. rewrite (Qltb_complete _ _ G) in B. discriminate.
    + apply Qleb_R in B. rewrite Q2R_minus, Q2R_plus, Q2R_opp in B. exact B.
  - intros [G1 G2]. apply orb_true_iff in C as [C|C].
    + exfalso. rewrite negb_true_iff in C. rewrite <- Q2R_0' in G2. rewrite <- Q2R_opp in G1.
      rewrite (Qltb_complete _ _ G1), (Qleb_complete _ _ G2) in C. discriminate.
    + apply Qleb_R in C. rewrite !Q2R_minus, Q2R_opp in C. exact C.
  - intros G. apply orb_true_iff in D as [D|D].
    + exfalso. rewrite negb_true_iff in D. rewrite <- Q2R_0' in G. rewrite (Qltb_complete _ _ G) in D. discriminate.
    + apply Qleb_R in D. rewrite !Q2R_minus in D. exact D.
Qed.

Theorem svr_ok_sound_l : forall K y c p b rho e eeq,
  svr_ok K y c p b rho e eeq = true ->
  svr_spec (mQ K) (map Q2R y) (Q2R c) (Q2R p) (map Q2R b) (Q2R rho) (Q2R e) (Q2R eeq).
Proof.
  intros K y c p b rho e eeq H. unfold svr_ok, svr_feasible, svr_kkt in H.
  apply andb_true_iff in H as [H1 H3]. apply andb_true_iff in H1 as [H1 H2].
  split; [|split].
  - apply Forall_forall. intros x Hx. apply in_map_iff in Hx as [q [<- Hq]].
    rewrite forallb_forall in H1. specialize (H1 q Hq). unfold svr_box in H1.
    apply andb_true_iff in H1 as [A B]. apply Qleb_R in A. apply Qleb_R in B. rewrite Q2R_opp in A. lra.
  - apply Qleb_R in H2. rewrite Qabs'_R, Q2R_sum' in H2. exact H2.
  - rewrite <- dec_values_R. apply svr_kkt_sound. exact H3.
Qed.

(** * soundness of the one-class checker *)
Lemma oc_kkt_sound e : forall a f, all2 (oc_kkt1 e) a f = true ->
  oc_conditions (Q2R e) (map Q2R a) (map Q2R f).
Proof.
  induction a as [|ai a IH]; intros [|fi f] H; simpl in *; try discriminate; auto.
  apply andb_true_iff in H as [H1 H2]. unfold oc_kkt1 in H1. apply andb_true_iff in H1 as [A B].
  split; [|split; [|apply IH; exact H2]].
  - intros G. apply orb_true_iff in A as [A|A].
    + exfalso. rewrite negb_true_iff in A. rewrite <- Q2R_1' in G. rewrite (Qltb_complete _ _ G) in A. discriminate.
    + apply Qleb_R in A. rewrite Q2R_opp in A. exact A.
  - intros G. apply orb_true_iff in B as [B|B].
    + exfalso. rewrite negb_true_iff in B. rewrite <- Q2R_0' in G. rewrite (Qltb_complete _ _ G) in B. discriminate.
    + apply Qleb_R in B. exact B.
Qed.

Theorem oneclass_ok_sound_l : forall K total a rho e eeq,
  oneclass_ok K total a rho e eeq = true ->
  oneclass_spec (mQ K) (Q2R total) (map Q2R a) (Q2R rho) (Q2R e) (Q2R eeq).
Proof.
  intros K total a rho e eeq H. unfold oneclass_ok in H.
  apply andb_true_iff in H as [H1 H3]. apply andb_true_iff in H1 as [H1 H2].
  split; [|split].
  - apply Forall_forall. intros x Hx. apply in_map_iff in Hx as [q [<- Hq]].
    rewrite forallb_forall in H1. specialize (H1 q Hq).
    apply andb_true_iff in H1 as [A B]. apply Qleb_R in A. apply Qleb_R in B.
    rewrite Q2R_0' in A. rewrite Q2R_1' in B. lra.
  - apply Qleb_R in H2. rewrite Qabs'_R, Q2R_sub', Q2R_sum' in H2. exact H2.
  - rewrite <- dec_values_R. apply oc_kkt_sound. exact H3.
Qed.

(** * decision values *)
Theorem decision_close_sound_l : forall kq a rho d tol,
  decision_close kq a rho d tol = true ->
  Rabs (Q2R d - (Rdot (map Q2R kq) (map Q2R a) - Q2R rho)) <= Q2R tol.
Proof.
  intros kq a rho d tol H. unfold decision_close, decision_exact in H.
  apply Qleb_R in H. rewrite Qabs'_R, !Q2R_sub', Q2R_dot' in H. exact H.
Qed.

(** * pattern A: pairing of support vectors and coefficients (any arithmetic) *)
Section Pairing.
Context {F : Type} (o : NumOps F) (feps : F).

Lemma filter_zip {A} (f : A -> F -> F) : forall (X : list A) (al : list F), length X = length al ->
  map2 f (map fst (filter (fun e => is_support o feps (snd e)) (combine X al))) (filter (is_support o feps) al)
  = map (fun e => f (fst e) (snd e)) (filter (fun e => is_support o feps (snd e)) (combine X al)).
Proof.
  induction X as [|x X IH]; intros [|a al] H; simpl in *; try discriminate; auto.
  destruct (is_support o feps a) eqn:E; simpl; [f_equal|]; apply IH; lia.
Qed.

Lemma weighted_sum_pairs_l (kf : list F -> F) (X : list (list F)) (al : list F) : length X = length al ->
  weighted_sum_sv o feps (map kf (support_vectors o feps X al)) al
  = iter_sum o (map (fun e => mul o (kf (fst e)) (snd e))
                    (filter (fun e => is_support o feps (snd e)) (combine X al))).
Proof.
  intros H. unfold weighted_sum_sv, support_vectors. f_equal.
  rewrite <- (filter_zip (fun x a => mul o (kf x) a) X al H).
  generalize (map fst (filter (fun e => is_support o feps (snd e)) (combine X al))).
  generalize (filter (is_support o feps) al).
  intros l2 l1; revert l2; induction l1 as [|u l1 IH]; intros [|v l2]; simpl; auto. f_equal; apply IH.
Qed.

Lemma nsupport_count_l (al : list F) :
  nsupport o feps al = length (filter (fun a => gtb o (abs o a) (mul o (hundred o) feps)) al).
Proof. reflexivity. Qed.
End Pairing.

Notation oR := R_ops.
Arguments is_support : simpl never.

Lemma fold_left_Rplus l : forall a, fold_left Rplus l a = a + Rsum l.
Proof. induction l as [|x l IH]; intros a; simpl; [lra|]. rewrite IH. lra. Qed.
Lemma iter_sum_R l : iter_sum oR l = Rsum l.
Proof. unfold iter_sum, negz; cbn [add opp zero oR]. rewrite fold_left_Rplus. lra. Qed.

Lemma chunks8_R : forall n xs p, (length xs <= n)%nat -> length p = 8%nat ->
  let '(p', rest) := chunks8 oR xs p in length p' = 8%nat /\ Rsum p' + Rsum rest = Rsum p + Rsum xs.
Proof.
  induction n as [|n IH]; intros xs p Hn Hp.
  - destruct xs; [|simpl in Hn; lia]. simpl. split; auto.
  - destruct xs as [|x0 [|x1 [|x2 [|x3 [|x4 [|x5 [|x6 [|x7 t]]]]]]]]; try (simpl; split; auto; fail).
    cbn [chunks8].
    destruct p as [|p0 [|p1 [|p2 [|p3 [|p4 [|p5 [|p6 [|p7 [|]]]]]]]]]; simpl in Hp; try lia.
    set (q := map _ _).
    specialize (IH t q). destruct (chunks8 oR t q) as [p' rest].
    assert (Hq : length q = 8%nat) by reflexivity.
    destruct IH as [H1 H2]; [simpl in Hn; lia | exact Hq |].
    split; [exact H1|]. rewrite H2. unfold q, Rsum. cbn. lra.
Qed.
Lemma usum_R l : usum oR l = Rsum l.
Proof.
  unfold usum. cbn [zero oR].
  pose proof (chunks8_R (length l) l [0;0;0;0;0;0;0;0] (le_n _) eq_refl) as H.
  destruct (chunks8 oR l [0;0;0;0;0;0;0;0]) as [p rest]. destruct H as [H1 H2].
  destruct p as [|p0 [|p1 [|p2 [|p3 [|p4 [|p5 [|p6 [|p7 [|]]]]]]]]]; simpl in H1; try lia.
  cbn [add oR]. rewrite fold_left_Rplus. simpl in H2. lra.
Qed.

Lemma map2_mul_Rdot a : forall b, Rsum (map2 Rmult a b) = Rdot a b.
Proof. induction a as [|x a IH]; intros [|y b]; simpl; auto. rewrite IH; reflexivity. Qed.

Lemma k_linear_R a b : k_linear oR a b = Rdot a b.
Proof. unfold k_linear. rewrite usum_R. cbn [mul oR]. apply map2_mul_Rdot. Qed.
Lemma weighted_sum_linear_R w x : weighted_sum_linear oR w x = Rdot w x.
Proof. unfold weighted_sum_linear. rewrite usum_R. cbn [mul oR]. apply map2_mul_Rdot. Qed.

(** the filtered sum over R: terms of the samples whose coefficient is above the threshold *)
Lemma filtered_sum_R (feps : R) (kf : list R -> R) : forall (X : list (list R)) (al : list R), length X = length al ->
  (forall a, In a al -> is_support oR feps a = true \/ a = 0) ->
  Rsum (map (fun e => kf (fst e) * snd e) (filter (fun e => is_support oR feps (snd e)) (combine X al)))
  = Rdot (map kf X) al.
Proof.
  induction X as [|x X IH]; intros [|a al] H Hz; simpl in *; try discriminate; auto.
  assert (IH' := IH al ltac:(lia) (fun a' Ha' => Hz a' (or_intror Ha'))).
  destruct (Hz a (or_introl eq_refl)) as [E|E].
  - rewrite E. simpl. rewrite IH'. reflexivity.
  - subst a. destruct (is_support oR feps 0); simpl; rewrite IH'; ring.
Qed.

Theorem weighted_sum_spec_l : forall (feps : R) (kf : list R -> R) (X : list (list R)) (al : list R),
  length X = length al ->
  (forall a, In a al -> is_support oR feps a = true \/ a = 0) ->
  weighted_sum_sv oR feps (map kf (support_vectors oR feps X al)) al = Rdot (map kf X) al.
Proof.
  intros feps kf X al H Hz. rewrite weighted_sum_pairs_l by exact H. rewrite iter_sum_R.
  cbn [mul oR]. apply filtered_sum_R; assumption.
Qed.

(** with threshold 0 every non-zero coefficient is a support vector *)
Lemma is_support_zero_thr a : is_support oR 0 a = true \/ a = 0.
Proof.
  unfold is_support, gtb, hundred. cbn [ltb abs mul of_N oR].
  destruct (Req_dec a 0) as [->|N]; [right; reflexivity|left].
  apply Rltb_true. rewrite Rmult_0_r. apply Rabs_pos_lt; exact N.
Qed.

Theorem nsupport_counts_nonzero_l : forall al : list R,
  nsupport oR 0 al = length (filter (fun a => negb (Reqb a 0)) al).
Proof.
  intros al. unfold nsupport. f_equal. apply filter_ext. intros a.
  unfold is_support, gtb, hundred. cbn [ltb abs mul of_N oR]. rewrite Rmult_0_r.
  destruct (Req_dec a 0) as [->|N].
  - rewrite Rabs_R0. assert (Reqb 0 0 = true) by (apply Reqb_true; reflexivity). rewrite H. simpl.
    apply Rltb_false. lra.
  - assert (Reqb a 0 = false). { destruct (Reqb a 0) eqn:E; auto. apply Reqb_true in E. contradiction. }
    rewrite H. simpl. apply Rltb_true. apply Rabs_pos_lt; exact N.
Qed.

Theorem label_is_sign_l : forall ws rho : R, label_of oR ws rho = true <-> 0 <= ws - rho.
Proof. intros. unfold label_of, geb, decision. cbn [leb sub zero oR]. apply Rleb_true. Qed.

(** * the Gram matrix of the linear kernel is symmetric positive semi-definite *)
Definition gram (X : list (list R)) : list (list R) := map (fun xi => map (fun xj => Rdot xi xj) X) X.

(* sum_j r_j * row_j *)
Fixpoint mtv (M : list (list R)) (r : list R) (d : nat) : list R :=
  match M, r with
  | row :: M', ri :: r' => vaddR (vscaleR ri row) (mtv M' r' d)
  | _, _ => repeat 0 d
  end.

Lemma vscaleR_length k a : length (vscaleR k a) = length a. Proof. apply map_length. Qed.
Lemma mtv_length M : forall r d, Forall (fun row => length row = d) M -> length (mtv M r d) = d.
Proof.
  induction M as [|row M IH]; intros r d H; simpl; [apply repeat_length|].
  destruct r as [|ri r]; [apply repeat_length|]. inversion H; subst.
  unfold vaddR. rewrite map2R_length; rewrite vscaleR_length; auto. rewrite IH; auto.
Qed.

Lemma gram_row X : forall xi v d, Forall (fun row => length row = d) X -> length xi = d -> length v = length X ->
  Rdot (map (fun xj => Rdot xi xj) X) v = Rdot xi (mtv X v d).
Proof.
  induction X as [|xj X IH]; intros xi v d HX Hi Hv; destruct v as [|vj v]; simpl in *; try discriminate.
  - rewrite Rdot_comm, Rdot_zero_l. reflexivity.
  - inversion HX as [|? ? Hrow HX']; subst.
    rewrite Rdot_vadd_r by (rewrite vscaleR_length, mtv_length; auto).
    rewrite (Rdot_comm xi (vscaleR vj xj)), Rdot_vscale_l, (Rdot_comm xj xi).
    rewrite (IH xi v (length xi)) by (auto; lia). ring.
Qed.

Lemma adjoint X : forall r u d, Forall (fun row => length row = d) X -> length r = length X ->
  Rdot r (mvR X u) = Rdot (mtv X r d) u.
Proof.
  induction X as [|row X IH]; intros r u d HX Hr; destruct r as [|ri r]; simpl in *; try discriminate.
  - rewrite Rdot_zero_l. reflexivity.
  - inversion HX as [|? ? Hrow HX']; subst.
    rewrite Rdot_vadd_l by (rewrite vscaleR_length, mtv_length; auto).
    rewrite Rdot_vscale_l. rewrite (IH r u (length row)) by (auto; lia). reflexivity.
Qed.

Lemma gram_mv X v d : Forall (fun row => length row = d) X -> length v = length X ->
  mvR (gram X) v = mvR X (mtv X v d).
Proof.
  intros HX Hv. unfold mvR, gram. rewrite map_map. apply map_ext_in. intros xi Hi.
  apply gram_row; auto. rewrite Forall_forall in HX. apply HX; exact Hi.
Qed.

Lemma Rdot_self_nonneg a : 0 <= Rdot a a.
Proof. induction a as [|x a IH]; simpl; [lra|]. nra. Qed.

Theorem gram_sym_psd_l : forall (X : list (list R)) (d : nat), Forall (fun row => length row = d) X ->
  wfM (length X) (gram X) /\ Sym (length X) (gram X) /\ PSD (length X) (gram X).
Proof.
  intros X d HX. split; [|split].
  - split; [unfold gram; apply map_length|]. unfold gram. apply Forall_forall. intros row Hr.
    apply in_map_iff in Hr as [xi [<- _]]. apply map_length.
  - intros u v Hu Hv. rewrite (gram_mv X v d HX Hv), (gram_mv X u d HX Hu).
    rewrite (adjoint X u _ d HX Hu), (adjoint X v _ d HX Hv). apply Rdot_comm.
  - intros v Hv. unfold quadR. rewrite (gram_mv X v d HX Hv). rewrite (adjoint X v _ d HX Hv).
    apply Rdot_self_nonneg.
Qed.

(** * end-to-end: an accepted C-SVC solution is eps-optimal for the dual (Q side -> R side) *)
Theorem svc_ok_certifies_optimality_l : forall n K y cpos cneg a rho e eeq a',
  svc_ok K y cpos cneg a rho e eeq = true ->
  wfM n (mQ K) -> Sym n (mQ K) -> PSD n (mQ K) -> length y = n -> length a = n -> length a' = n ->
  (0 <= Q2R e) ->
  in_box (svc_lo (Q2R cneg) y) (svc_hi (Q2R cpos) y) a' -> Rsum a' = Rsum (map Q2R a) ->
  svc_obj (mQ K) y a' >= svc_obj (mQ K) y (map Q2R a) - Q2R e * l1R (vsubR a' (map Q2R a)).
Proof.
  intros n K y cpos cneg a rho e eeq a' Hok HK Hs Hp Ly La La' He Hb Hsum.
  eapply svc_kkt_optimal_l; eauto.
  - rewrite map_length; exact La.
  - apply svc_ok_sound_l. exact Hok.
Qed.

(** * non-vacuity: a concrete accepted solution (3 + 3 points in the plane, linear kernel, C = 1, exact optimum) *)
Definition exX : list (list Q) := [[0;0]; [1;0]; [0;1]; [3;3]; [4;3]; [3;4]]%Q.
Definition exK : list (list Q) := map (fun a => map (fun b => Qred (Qdot a b)) exX) exX.
Definition exy : list bool := [true; true; true; false; false; false].
Definition exa : list Q := [0; 2#25; 2#25; -4#25; 0; 0]%Q.

Example svc_ok_example : svc_ok exK exy 1 1 exa (-7#5) 0 0 = true.
Proof. vm_compute. reflexivity. Qed.
(* a wrong intercept, a coefficient outside its box and a broken equality constraint are all rejected *)
Example svc_ok_rejects_rho : svc_ok exK exy 1 1 exa (-6#5) (1#100) 0 = false.
Proof. vm_compute. reflexivity. Qed.
Example svc_ok_rejects_box : svc_ok exK exy (1#20) 1 exa (-7#5) 0 0 = false.
Proof. vm_compute. reflexivity. Qed.
Example svc_ok_rejects_sum : svc_ok exK exy 1 1 [0; 2#25; 2#25; -3#25; 0; 0]%Q (-7#5) 1 (1#1000) = false.
Proof. vm_compute. reflexivity. Qed.

(* epsilon-SVR on the line y = 2x (x = 0,1,2,3), linear kernel, c = 1, p = 1/2: the exact optimum *)
Definition exRX : list (list Q) := [[0]; [1]; [2]; [3]]%Q.
Definition exRK : list (list Q) := map (fun a => map (fun b => Qred (Qdot a b)) exRX) exRX.
Definition exRy : list Q := [0; 2; 4; 6]%Q.
Example svr_ok_example : svr_ok exRK exRy 1 (1#2) [-5#9; 0; 0; 5#9]%Q (-1#2) 0 0 = true.
Proof. vm_compute. reflexivity. Qed.
Example svr_ok_rejects : svr_ok exRK exRy 1 (1#2) [-5#9; 0; 0; 5#9]%Q (1#2) (1#10) 0 = false.
Proof. vm_compute. reflexivity. Qed.

Example oneclass_ok_example : oneclass_ok [[1;0];[0;1]]%Q 1 [1#2; 1#2]%Q (1#2) 0 0 = true.
Proof. vm_compute. reflexivity. Qed.

Lemma mQ_gram (X : list (list Q)) :
  mQ (map (fun a => map (fun b => Qred (Qdot a b)) X) X) = gram (mQ X).
Proof.
  unfold mQ, gram. rewrite !map_map. apply map_ext. intros a. rewrite !map_map. apply map_ext. intros b.
  rewrite (Qeq_eqR _ _ (Qred_correct _)). apply Q2R_dot.
Qed.

(* the hypotheses of the optimality theorems are satisfiable on that example *)
Example svc_example_hypotheses : wfM 6 (mQ exK) /\ Sym 6 (mQ exK) /\ PSD 6 (mQ exK).
Proof.
  unfold exK. rewrite mQ_gram. apply (gram_sym_psd_l (mQ exX) 2).
  unfold mQ, exX. repeat constructor.
Qed.

(** * symmetric by entries => symmetric bilinear form *)
Lemma all2_Qeq_R a : forall b, all2 Qeq_bool a b = true -> length a = length b /\ map Q2R a = map Q2R b.
Proof.
  induction a as [|x a IH]; intros [|y b] H; simpl in *; try discriminate; auto.
  apply andb_true_iff in H as [H1 H2]. destruct (IH b H2) as [L E].
  split; [lia|]. f_equal; auto. apply Qeq_bool_R; exact H1.
Qed.

Lemma col_split (RM : list (list R)) : Forall (fun r => r <> []) RM -> forall u' v0 v',
  Rdot u' (map (fun row => Rdot row (v0 :: v')) RM)
  = v0 * Rdot (map (hd 0) RM) u' + Rdot u' (mvR (map (@tl R) RM) v').
Proof.
  intros HR. induction HR as [|row RM Hrow HR IH]; intros u' v0 v'; destruct u' as [|x u']; simpl; try lra.
  destruct row as [|c t]; [contradiction|]. simpl. rewrite IH. unfold mvR. ring.
Qed.

Lemma symb_sound : forall n M, symb n M = true -> wfM n (mQ M) /\ Sym n (mQ M).
Proof.
  induction n as [|n IH]; intros M H.
  - destruct M; simpl in H; try discriminate. split; [split; [reflexivity|constructor]|].
    intros u v Hu Hv. destruct u, v; simpl in *; try discriminate; reflexivity.
  - destruct M as [|[|m r0] rows]; simpl in H; try discriminate.
    apply andb_true_iff in H as [H H3]. apply andb_true_iff in H as [H1 H2].
    destruct (IH _ H3) as [[W1 W2] S']. destruct (all2_Qeq_R _ _ H1) as [L1 E1].
    rewrite map_length in L1.
    assert (Lrows : length rows = n). { unfold mQ in W1. rewrite !map_length in W1. exact W1. }
    assert (Hnn : Forall (fun r => r <> []) (mQ rows)).
    { unfold mQ. apply Forall_forall. intros r Hr. apply in_map_iff in Hr as [q [<- Hq]].
      rewrite forallb_forall in H2. specialize (H2 q Hq). destruct q; simpl in *; [discriminate|discriminate]. }
    assert (Etl : map (@tl R) (mQ rows) = mQ (map (@tl Q) rows)).
    { unfold mQ. rewrite !map_map. apply map_ext. intros q. destruct q; reflexivity. }
    assert (Ehd : map (hd 0) (mQ rows) = map Q2R r0).
    { rewrite E1. unfold mQ. rewrite !map_map. apply map_ext_in. intros q Hq.
      rewrite forallb_forall in H2. specialize (H2 q Hq). destruct q; simpl in *; [discriminate|reflexivity]. }
    split.
    + split; [unfold mQ; simpl; rewrite map_length; lia|].
      unfold mQ. simpl. constructor; [simpl; rewrite map_length; lia|].
      apply Forall_forall. intros r Hr. apply in_map_iff in Hr as [q [<- Hq]].
      rewrite forallb_forall in H2. specialize (H2 q Hq). destruct q as [|c t]; [discriminate|].
      simpl. f_equal. rewrite Forall_forall in W2.
      assert (In (map Q2R t) (mQ (map (@tl Q) rows))).
      { unfold mQ. rewrite map_map. apply in_map_iff. exists (c :: t). split; auto. }
      specialize (W2 _ H). rewrite map_length in *. exact W2.
    + intros u v Hu Hv. destruct u as [|u0 u'], v as [|v0 v']; simpl in Hu, Hv; try discriminate.
      change (mQ ((m :: r0) :: rows)) with ((Q2R m :: map Q2R r0) :: mQ rows).
      unfold mvR. cbn [map Rdot].
      rewrite !(col_split _ Hnn). rewrite Etl, Ehd.
      assert (Lu : length u' = n) by lia. assert (Lv : length v' = n) by lia.
      rewrite (S' u' v' Lu Lv). ring.
Qed.

(** * exact LDL^T certificate (Common/LDL.v) => positive semi-definite up to the shift *)
Lemma ldl_shift_PSDd n K dq : ldl_psd_shift n K (- dq) = true -> PSDd n (mQ K) (Q2R dq).
Proof.
  intros H v Hv. pose proof (ldl_psd_shift_sound n K (- dq)%Q H v Hv) as P.
  rewrite Q2R_opp in P. exact P.
Qed.

(** what a run certifies for C-SVC with no unchecked hypothesis about the kernel matrix *)
Theorem svc_ok_certified_l : forall n K y cpos cneg a rho e eeq dq a',
  svc_ok K y cpos cneg a rho e eeq = true -> symb n K = true -> ldl_psd_shift n K (- dq) = true ->
  length y = n -> length a = n -> length a' = n -> 0 <= Q2R e ->
  in_box (svc_lo (Q2R cneg) y) (svc_hi (Q2R cpos) y) a' -> Rsum a' = Rsum (map Q2R a) ->
  svc_obj (mQ K) y a' >= svc_obj (mQ K) y (map Q2R a) - Q2R e * l1R (vsubR a' (map Q2R a))
                         - Q2R dq / 2 * sqnorm (vsubR a' (map Q2R a)).
Proof.
  intros n K y cpos cneg a rho e eeq dq a' Hok Hsym Hldl Ly La La' He Hb Hsum.
  destruct (symb_sound n K Hsym) as [HK Hs].
  eapply svc_kkt_optimal_d; eauto.
  - apply ldl_shift_PSDd; exact Hldl.
  - rewrite map_length; exact La.
  - apply svc_ok_sound_l. exact Hok.
Qed.

Example svc_certified_example : symb 6 exK = true /\ ldl_psd_shift 6 exK 0 = true.
Proof. vm_compute. split; reflexivity. Qed.

(** nu-SVR as implemented ignores nu (known finding F32): on four points of the line y = 2x with nu = 0.1, c = 1
    the published coefficients have sum |b_i| > c nu n *)
Definition exNuX : list (list float) := [[0]; [1]; [2]; [3]]%float.
Definition exNuK : list (list float) := [[0;0;0;0]; [0;1;2;3]; [0;2;4;6]; [0;3;6;9]]%float.
Definition exNuY : list float := [0; 2; 4; 6]%float.
Definition exNu_fit : outcome :=
  fit_nu_svr B64_ops infinity tiny64 eps64 400 exNuK exNuX exNuY 0x1.0624dd2f1a9fcp-10%float false true
             0x1.999999999999ap-4%float 1%float.
Definition nu_constraint_holds (nu c : float) (n : nat) (m : svm) : bool :=
  Qleb (Qsum' (map Qabs' (map f64_Q (mAlpha m)))) (f64_Q c * f64_Q nu * inject_Z (Z.of_nat n)).
Lemma nusvr_refuted_l : exists m, exNu_fit = Fitted m /\ nu_constraint_holds 0x1.999999999999ap-4%float 1%float 4 m = false.
Proof. eexists. split; [vm_compute; reflexivity | vm_compute; reflexivity]. Qed.

(** * the explicit hyperplane of the linear kernel *)
Lemma zipp_axpy_R c : forall (w row x : list R), length w = length row ->
  length (zipp (fun y xv => y + c * xv) w row) = length w /\
  Rdot (zipp (fun y xv => y + c * xv) w row) x = Rdot w x + c * Rdot row x.
Proof.
  induction w as [|y w IH]; intros [|r row] x H; simpl in *; try discriminate; [split; [reflexivity|lra]|].
  destruct x as [|xv x]; simpl.
  - destruct (IH row [] ltac:(lia)) as [L _]. split; [lia|lra].
  - destruct (IH row x ltac:(lia)) as [L E]. split; [lia|]. rewrite E. ring.
Qed.

Lemma hyperplane_fold_R (x : list R) : forall (l : list (R * (list R * R))) (w0 : list R),
  Forall (fun e => length (fst (snd e)) = length w0) l ->
  Rdot (fold_left (fun w (e : R * (list R * R)) =>
                     let '(sg, (row, a)) := e in let c := sg * a in zipp (fun y xv => y + c * xv) w row) l w0) x
  = Rdot w0 x + Rsum (map (fun e => fst e * snd (snd e) * Rdot (fst (snd e)) x) l).
Proof.
  induction l as [|[sg [row a]] l IH]; intros w0 H; simpl; [lra|].
  inversion H as [|? ? Hr Hl]; subst. simpl in Hr.
  destruct (zipp_axpy_R (sg * a) w0 row x (eq_sym Hr)) as [L E].
  rewrite IH.
  - rewrite E. ring.
  - rewrite L. exact Hl.
Qed.

Theorem linear_hyperplane_spec_l : forall (sign : list R) (rows : list (list R)) (alpha x : list R) (d : nat),
  Forall (fun r => length r = d) rows ->
  weighted_sum_linear oR (hyperplane_of oR sign rows alpha d) x
  = Rsum (map (fun e => fst e * snd (snd e) * Rdot (fst (snd e)) x) (combine sign (combine rows alpha))).
Proof.
  intros sign rows alpha x d H. rewrite weighted_sum_linear_R. unfold hyperplane_of. cbn [mul add zero oR].
  rewrite hyperplane_fold_R.
  - rewrite Rdot_zero_l. lra.
  - rewrite repeat_length. apply Forall_forall. intros [sg [row a]] Hin. simpl.
    apply in_combine_r in Hin. apply in_combine_l in Hin. rewrite Forall_forall in H. apply H; exact Hin.
Qed.
