(** C13 - property theorems: optimality statements in which EVERY hypothesis about the kernel matrix is discharged
    by checks the oracle evaluates on every run (statements only; proofs are in C13/PsdCert.v and C13/ProofsCert.v).
    [symb n K] checks exact symmetry of the n x n float kernel matrix; [psd_cert n K L dq] (C13/PsdCert.v) takes ANY
    matrix L as a hint (the harness sends an approximate Cholesky factor of K + dq/2 I) and accepts iff
    K + dq I - L L^T, computed exactly over the integers, is symmetric and diagonally dominant with non-negative
    diagonal.  The oracle of C13/Corr.v evaluates it for every fit with n <= psd_limit = 130 (every case of
    the quick tier); rounding of the kernel values costs the term dq/2 |a' - a|^2, dq = n max|K| 2^-45. *)
From Coq Require Import List NArith QArith Qreals Reals.
From LinfaVerif Require Import Common.QF Common.LDL C13.Spec C13.Check C13.PsdCert C13.Proofs C13.ProofsNu C13.ProofsCert.
Import ListNotations.
Local Open Scope R_scope.

(** the certificate is sound for every hint L: an accepted matrix is positive semi-definite up to the shift dq *)
Theorem psd_certificate_sound : forall n K L dq, psd_cert n K L dq = true ->
  forall x, length x = n -> - Q2R dq * Rdot x x <= quadR (mQ K) x.
Proof. exact psd_cert_sound. Qed.

(** C-SVC: checker + symmetry check + certificate => e |a'-a|_1 + dq/2 |a'-a|^2 - optimality of the published
    coefficients among all feasible points of the dual E(a) = 1/2 a^T K a - sum_i y_i a_i *)
Theorem svc_ok_certified_cert : forall n K L y cpos cneg a rho e eeq dq a',
  svc_ok K y cpos cneg a rho e eeq = true -> symb n K = true -> psd_cert n K L dq = true ->
  length y = n -> length a = n -> length a' = n -> 0 <= Q2R e ->
  in_box (svc_lo (Q2R cneg) y) (svc_hi (Q2R cpos) y) a' -> Rsum a' = Rsum (map Q2R a) ->
  svc_obj (mQ K) y a' >= svc_obj (mQ K) y (map Q2R a) - Q2R e * l1R (vsubR a' (map Q2R a))
                         - Q2R dq / 2 * sqnorm (vsubR a' (map Q2R a)).
Proof. exact svc_ok_cert_l. Qed.

(** nu-SVC (two equality constraints: sum_i a_i and sum_i |a_i| fixed) *)
Theorem nusvc_ok_certified_cert : forall n K L y cb total rq a rho e eeq enu dq a',
  nusvc_ok K y cb total rq a rho e eeq enu = true -> symb n K = true -> psd_cert n K L dq = true ->
  length y = n -> length a = n -> length a' = n -> 0 <= Q2R e ->
  in_box (svc_lo (Q2R cb) y) (svc_hi (Q2R cb) y) a' -> Rsum a' = Rsum (map Q2R a) -> l1R a' = l1R (map Q2R a) ->
  nusvc_obj (mQ K) a' >= nusvc_obj (mQ K) (map Q2R a) - Q2R e * l1R (vsubR a' (map Q2R a))
                         - Q2R dq / 2 * sqnorm (vsubR a' (map Q2R a)).
Proof. exact nusvc_ok_cert_l. Qed.

(** one-class: E(a) = 1/2 a^T K a over 0 <= a_i <= 1 with sum_i a_i fixed *)
Theorem oneclass_ok_certified_cert : forall n K L total a rho e eeq dq a',
  oneclass_ok K total a rho e eeq = true -> symb n K = true -> psd_cert n K L dq = true ->
  length a = n -> length a' = n -> 0 <= Q2R e ->
  Forall (fun x => 0 <= x <= 1) a' -> Rsum a' = Rsum (map Q2R a) ->
  / 2 * quadR (mQ K) a' >= / 2 * quadR (mQ K) (map Q2R a) - Q2R e * l1R (vsubR a' (map Q2R a))
                           - Q2R dq / 2 * sqnorm (vsubR a' (map Q2R a)).
Proof. exact oneclass_ok_cert_l. Qed.

(** epsilon-SVR: E(b) = 1/2 b^T K b - y^T b + p sum_i |b_i| over |b_i| <= c with sum_i b_i fixed *)
Theorem svr_ok_certified_cert : forall n K L y c p b rho e eeq dq b',
  svr_ok K y c p b rho e eeq = true -> symb n K = true -> psd_cert n K L dq = true ->
  length y = n -> length b = n -> length b' = n -> 0 <= Q2R e -> 0 <= Q2R p -> 0 < Q2R c ->
  Forall (fun x => - Q2R c <= x <= Q2R c) b' -> Rsum b' = Rsum (map Q2R b) ->
  svr_obj (mQ K) (map Q2R y) (Q2R p) b' >= svr_obj (mQ K) (map Q2R y) (Q2R p) (map Q2R b)
      - Q2R e * l1R (vsubR b' (map Q2R b)) - Q2R dq / 2 * sqnorm (vsubR b' (map Q2R b)).
Proof. exact svr_ok_cert_l. Qed.

(** the shift variants of the optimality statements the certified theorems rest on *)
Theorem oneclass_kkt_optimal_shift : forall n K total a rho e eeq a' delta,
  wfM n K -> Sym n K -> PSDd n K delta -> length a = n -> length a' = n -> 0 <= e ->
  oneclass_spec K total a rho e eeq ->
  Forall (fun x => 0 <= x <= 1) a' -> Rsum a' = Rsum a ->
  / 2 * quadR K a' >= / 2 * quadR K a - e * l1R (vsubR a' a) - delta / 2 * sqnorm (vsubR a' a).
Proof. exact oneclass_kkt_optimal_d. Qed.

Theorem svr_kkt_optimal_shift : forall n K y c p b rho e eeq b' delta,
  wfM n K -> Sym n K -> PSDd n K delta -> length y = n -> length b = n -> length b' = n ->
  0 <= e -> 0 <= p -> 0 < c ->
  svr_spec K y c p b rho e eeq ->
  Forall (fun x => - c <= x <= c) b' -> Rsum b' = Rsum b ->
  svr_obj K y p b' >= svr_obj K y p b - e * l1R (vsubR b' b) - delta / 2 * sqnorm (vsubR b' b).
Proof. exact svr_kkt_optimal_d. Qed.

Theorem nusvr_kkt_optimal_shift : forall n K y c total p b rho e eeq enu b' delta,
  wfM n K -> Sym n K -> PSDd n K delta -> length y = n -> length b = n -> length b' = n ->
  0 <= e -> 0 <= p -> 0 < c -> 0 <= enu ->
  nusvr_spec K y c total p b rho e eeq enu ->
  Forall (fun x => - c <= x <= c) b' -> Rsum b' = Rsum b -> l1R b' <= total ->
  svr_obj0 K y b' >= svr_obj0 K y b - e * l1R (vsubR b' b) - Rmax (p * enu) (e * total)
                     - delta / 2 * sqnorm (vsubR b' b).
Proof. exact nusvr_kkt_optimal_d. Qed.
