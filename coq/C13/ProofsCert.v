(** C13 - lemmas: the a-posteriori positive semi-definiteness certificate (C13/PsdCert.v) discharges the
    hypothesis "kernel matrix positive semi-definite (up to the shift dq)" of the optimality theorems, for
    every problem kind; shift variants of the one-class and epsilon-SVR optimality statements. *)
From Coq Require Import List NArith ZArith QArith Qreals Reals Lra Lia Psatz Bool.
From LinfaVerif Require Import Common.Num Common.QF Common.LDL C13.Spec C13.Check C13.PsdCert C13.Proofs C13.ProofsNu.
Import ListNotations.
Local Open Scope R_scope.

Lemma psd_cert_PSDd n K L dq : psd_cert n K L dq = true -> PSDd n (mQ K) (Q2R dq).
Proof. intros H v Hv. exact (psd_cert_sound n K L dq H v Hv). Qed.

(** * shift variants *)
Theorem oneclass_kkt_optimal_d : forall n K total a rho e eeq a' delta,
  wfM n K -> Sym n K -> PSDd n K delta -> length a = n -> length a' = n -> 0 <= e ->
  oneclass_spec K total a rho e eeq ->
  Forall (fun x => 0 <= x <= 1) a' -> Rsum a' = Rsum a ->
  / 2 * quadR K a' >= / 2 * quadR K a - e * l1R (vsubR a' a) - delta / 2 * sqnorm (vsubR a' a).
Proof.
  intros n K total a rho e eeq a' delta HK Hs Hp La La' He [Hb [_ Hc]] Hb' Hsum.
  destruct (oc_conditions_kkt e a _ Hc Hb) as [Hk Hin].
  assert (Hin' : in_box (repeat 0 (length a)) (repeat 1 (length a)) a').
  { rewrite La, <- La'. clear -Hb'. induction Hb'; simpl; auto. }
  pose proof (qp_kkt_eps_optimal_d n K (repeat 0 n) (ones n) (repeat 0 n) (repeat 1 n) a a' rho e delta HK Hs Hp) as T.
  unfold qp_obj in T. rewrite !Rdot_zero_l in T. rewrite !Rplus_0_r in T.
  apply T; auto; try apply repeat_length; try (rewrite <- La; assumption).
  - rewrite <- La' at 1. rewrite Rsum_ones_dot. rewrite <- La at 1. rewrite Rsum_ones_dot. auto.
  - destruct HK as [HK1 _]. subst n. rewrite lagr_grad_oc. rewrite <- La. exact Hk.
Qed.

Theorem svr_kkt_optimal_d : forall n K y c p b rho e eeq b' delta,
  wfM n K -> Sym n K -> PSDd n K delta -> length y = n -> length b = n -> length b' = n ->
  0 <= e -> 0 <= p -> 0 < c ->
  svr_spec K y c p b rho e eeq ->
  Forall (fun x => - c <= x <= c) b' -> Rsum b' = Rsum b ->
  svr_obj K y p b' >= svr_obj K y p b - e * l1R (vsubR b' b) - delta / 2 * sqnorm (vsubR b' b).
Proof.
  intros n K y c p b rho e eeq b' delta HK Hs Hpsd Ly Lb Lb' He Hp Hc [Hb [_ Hr]] Hb' Hsum.
  unfold svr_obj.
  assert (Ly' : length (map Ropp y) = n) by (rewrite map_length; auto).
  pose proof (qp_first_order n K (map Ropp y) b b' delta HK Hs Hpsd Ly' Lb Lb') as H1.
  destruct HK as [HK1 HK2].
  assert (Ld : length (vsubR b' b) = length K). { unfold vsubR. rewrite map2R_length; congruence. }
  rewrite (svr_grad_split K y (vsubR b' b) b rho) in H1 by congruence.
  rewrite Rsum_vsub in H1 by congruence.
  pose proof (svr_terms c p e He Hp Hc y b _ b' Hb Hb' ltac:(congruence) Hr) as H2.
  nra.
Qed.

Theorem nusvr_kkt_optimal_d : forall n K y c total p b rho e eeq enu b' delta,
  wfM n K -> Sym n K -> PSDd n K delta -> length y = n -> length b = n -> length b' = n ->
  0 <= e -> 0 <= p -> 0 < c -> 0 <= enu ->
  nusvr_spec K y c total p b rho e eeq enu ->
  Forall (fun x => - c <= x <= c) b' -> Rsum b' = Rsum b -> l1R b' <= total ->
  svr_obj0 K y b' >= svr_obj0 K y b - e * l1R (vsubR b' b) - Rmax (p * enu) (e * total)
                     - delta / 2 * sqnorm (vsubR b' b).
Proof.
  intros n K y c total p b rho e eeq enu b' delta HK Hs Hpsd Ly Lb Lb' He Hp Hc Hnu [Hspec [_ [Hle Hcs]]] Hb' Hsum Hl1.
  pose proof (svr_kkt_optimal_d n K y c p b rho e eeq b' delta HK Hs Hpsd Ly Lb Lb' He Hp Hc Hspec Hb' Hsum) as T.
  unfold svr_obj in T. unfold svr_obj0.
  pose proof (l1R_nonneg b) as N1. pose proof (l1R_nonneg b') as N2.
  assert (G : p * (l1R b' - l1R b) <= Rmax (p * enu) (e * total)).
  { destruct Hcs as [Hs1|Hs2].
    - apply Rle_trans with (e * total); [|apply Rmax_r]. nra.
    - apply Rle_trans with (p * enu); [|apply Rmax_l]. nra. }
  lra.
Qed.

(** * what a run certifies, with every hypothesis about the kernel matrix discharged by run-time checks:
    [symb] (exact symmetry, n x n) and [psd_cert] (K + dq I - L L^T diagonally dominant, L any hint) *)
Theorem svc_ok_cert_l : forall n K L y cpos cneg a rho e eeq dq a',
  svc_ok K y cpos cneg a rho e eeq = true -> symb n K = true -> psd_cert n K L dq = true ->
  length y = n -> length a = n -> length a' = n -> 0 <= Q2R e ->
  in_box (svc_lo (Q2R cneg) y) (svc_hi (Q2R cpos) y) a' -> Rsum a' = Rsum (map Q2R a) ->
  svc_obj (mQ K) y a' >= svc_obj (mQ K) y (map Q2R a) - Q2R e * l1R (vsubR a' (map Q2R a))
                         - Q2R dq / 2 * sqnorm (vsubR a' (map Q2R a)).
Proof.
  intros n K L y cpos cneg a rho e eeq dq a' Hok Hsym Hc Ly La La' He Hb Hsum.
  destruct (symb_sound n K Hsym) as [HK Hs].
  eapply svc_kkt_optimal_d; eauto.
  - eapply psd_cert_PSDd; exact Hc.
  - rewrite map_length; exact La.
  - apply svc_ok_sound_l. exact Hok.
Qed.

Theorem nusvc_ok_cert_l : forall n K L y cb total rq a rho e eeq enu dq a',
  nusvc_ok K y cb total rq a rho e eeq enu = true -> symb n K = true -> psd_cert n K L dq = true ->
  length y = n -> length a = n -> length a' = n -> 0 <= Q2R e ->
  in_box (svc_lo (Q2R cb) y) (svc_hi (Q2R cb) y) a' -> Rsum a' = Rsum (map Q2R a) -> l1R a' = l1R (map Q2R a) ->
  nusvc_obj (mQ K) a' >= nusvc_obj (mQ K) (map Q2R a) - Q2R e * l1R (vsubR a' (map Q2R a))
                         - Q2R dq / 2 * sqnorm (vsubR a' (map Q2R a)).
Proof.
  intros n K L y cb total rq a rho e eeq enu dq a' Hok Hsym Hc Ly La La' He Hb Hsum Hl1.
  destruct (symb_sound n K Hsym) as [HK Hs].
  eapply nusvc_kkt_optimal_d; eauto.
  - eapply psd_cert_PSDd; exact Hc.
  - rewrite map_length; exact La.
  - apply nusvc_ok_sound_l. exact Hok.
Qed.

Theorem oneclass_ok_cert_l : forall n K L total a rho e eeq dq a',
  oneclass_ok K total a rho e eeq = true -> symb n K = true -> psd_cert n K L dq = true ->
  length a = n -> length a' = n -> 0 <= Q2R e ->
  Forall (fun x => 0 <= x <= 1) a' -> Rsum a' = Rsum (map Q2R a) ->
  / 2 * quadR (mQ K) a' >= / 2 * quadR (mQ K) (map Q2R a) - Q2R e * l1R (vsubR a' (map Q2R a))
                           - Q2R dq / 2 * sqnorm (vsubR a' (map Q2R a)).
Proof.
  intros n K L total a rho e eeq dq a' Hok Hsym Hc La La' He Hb Hsum.
  destruct (symb_sound n K Hsym) as [HK Hs].
  eapply oneclass_kkt_optimal_d; eauto.
  - eapply psd_cert_PSDd; exact Hc.
  - rewrite map_length; exact La.
  - apply oneclass_ok_sound_l. exact Hok.
Qed.

Theorem svr_ok_cert_l : forall n K L y c p b rho e eeq dq b',
  svr_ok K y c p b rho e eeq = true -> symb n K = true -> psd_cert n K L dq = true ->
  length y = n -> length b = n -> length b' = n -> 0 <= Q2R e -> 0 <= Q2R p -> 0 < Q2R c ->
  Forall (fun x => - Q2R c <= x <= Q2R c) b' -> Rsum b' = Rsum (map Q2R b) ->
  svr_obj (mQ K) (map Q2R y) (Q2R p) b' >= svr_obj (mQ K) (map Q2R y) (Q2R p) (map Q2R b)
      - Q2R e * l1R (vsubR b' (map Q2R b)) - Q2R dq / 2 * sqnorm (vsubR b' (map Q2R b)).
Proof.
  intros n K L y c p b rho e eeq dq b' Hok Hsym Hc Ly Lb Lb' He Hp Hcc Hb Hsum.
  destruct (symb_sound n K Hsym) as [HK Hs].
  eapply svr_kkt_optimal_d; eauto.
  - eapply psd_cert_PSDd; exact Hc.
  - rewrite map_length; exact Ly.
  - rewrite map_length; exact Lb.
  - apply svr_ok_sound_l. exact Hok.
Qed.

(** * non-vacuity: the six-point C-SVC example of Proofs.v with a hint computed by hand (L = Cholesky factor of
    the Gram matrix of exX is exX itself padded with zeros: K = X X^T) *)
Definition exL : list (list Q) := map (fun r => r ++ repeat 0%Q 4) exX.
Example svc_cert_example : symb 6 exK = true /\ psd_cert 6 exK exL 0 = true.
Proof. vm_compute. split; reflexivity. Qed.
(* a matrix that is not positive semi-definite has no certificate, whatever the hint *)
Example psd_cert_rejects : psd_cert 2 [[0; 1]; [1; 0]]%Q [[1; 0]; [0; 1]]%Q (1#2) = false.
Proof. vm_compute. reflexivity. Qed.
