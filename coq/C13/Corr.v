(** C13 - correspondence (model at binary64 vs linfa-svm, bit for bit) and property oracle
    (exact rational KKT / feasibility / decision-value checkers on the implementation's output). *)
From Coq Require Import List NArith ZArith QArith Bool Floats.
From LinfaVerif Require Export Common.Num Common.NdSum Common.Run Common.QF Common.LDL C13.Model C13.Check C13.PsdCert.
Import ListNotations.

Definition o64 := B64_ops.
Definition tiny64 : float := 0x1.b7cdfd9d7bdbbp-34%float.    (* 1e-10 as f64 *)
Definition eps64 : float := 0x1p-52%float.                   (* f64::EPSILON *)

Record case := {
  c_id : N;
  c_kind : kind;
  c_kernel : N;                    (* 0 linear, 1 Gaussian(c_kp1), 2 polynomial(c_kp1, c_kp2) *)
  c_kp1 : float; c_kp2 : float;
  c_X : list (list float);
  c_yb : list bool;                (* class labels (classification) *)
  c_yr : list float;               (* targets (regression) *)
  c_par1 : float; c_par2 : float;  (* C-SVC: cpos, cneg; nu-SVC / one-class: nu, -; eps-SVR: c, p; nu-SVR: nu, c *)
  c_eps : float;
  c_shrink : bool;
  c_nt : N;                        (* one-class: (nu * size).to_usize() *)
  c_replay : bool;                 (* replay the SMO solver in the model *)
  c_K : list (list float);         (* kernel matrix the Kernel transformer built *)
  c_KA : list (list float);        (* non-linear kernels: the harness's own exp argument / powf base per pair *)
  (* implementation outputs *)
  c_panic : bool;
  c_alpha : list float; c_rho : float; c_r : option float; c_obj : float; c_iter : N;
  c_w : list float;                (* linear kernel: stored hyperplane *)
  c_sv : list (list float);        (* otherwise: stored support vectors *)
  c_nsupport : N;
  c_Q : list (list float);         (* query samples *)
  c_QK : list (list float);        (* per query: KernelMethod::distance(x_j, q) for every training sample j *)
  c_QA : list (list float);        (* per query: exp argument / powf base (non-linear kernels) *)
  c_ws : list float;               (* weighted_sum(q) *)
  c_dec : list float;              (* regression: predict(q); classification: not used *)
  c_lab : list bool;               (* classification / one-class: predict(q) *)
  c_pr : list float;               (* Platt: predicted probability (f32 widened), [] when not calibrated *)
  c_tolk : float;                  (* KKT tolerance to use (harness: function of the solver eps) *)
  c_toleq : float;                 (* tolerance of the equality constraint *)
  c_told : float;                  (* tolerance of the decision values *)
  c_tolpsd : float;                (* shift delta of the positive semi-definiteness certificate of K *)
  c_tws : list float;              (* weighted_sum(x_i) of every training sample *)
  c_tout : list float;             (* regression: predict(x_i) of every training sample, else [] *)
  c_tlab : list bool;              (* classification without calibration / one-class: predict(x_i) of every training sample, else [] *)
  c_L : list (list float)          (* harness: floating-point Cholesky factor of K + delta/2 I, a hint for [psd_cert]; [] above [psd_limit] *)
}.

Definition lorl (l : list N) : N := fold_left N.lor l 0%N.

Definition vec_eqb (a b : list float) : bool := list_eqb f64_biteq a b.
Definition mat_eqb (a b : list (list float)) : bool := list_eqb vec_eqb a b.
(* equal as numbers or as bit patterns (identifies +0 / -0, and NaN with NaN) *)
Definition num_eqb (a b : float) : bool := f64_biteq a b || PrimFloat.eqb a b.
Definition is_finite (x : float) : bool := f64_finite x.

Definition is_linear (c : case) : bool := N.eqb (c_kernel c) 0.

(* ---- correspondence ---- *)

(* kernel values / arguments the model computes from the raw samples *)
Definition model_kval (c : case) (a b : list float) : float :=
  match c_kernel c with
  | 0%N => k_linear o64 a b
  | 1%N => k_gauss_arg o64 (c_kp1 c) a b
  | _ => k_poly_base o64 (c_kp1 c) a b
  end.

Definition corr_kernel (c : case) : N :=
  let M := map (fun a => map (fun b => model_kval c a b) (c_X c)) (c_X c) in
  let QM := map (fun q => map (fun x => model_kval c x q) (c_X c)) (c_Q c) in
  if is_linear c then flag (mat_eqb M (c_K c) && mat_eqb QM (c_QK c)) 1
  else flag (mat_eqb M (c_KA c) && mat_eqb QM (c_QA c)) 1.

Definition model_fit (c : case) : outcome :=
  let fuel := S (S (N.to_nat (c_iter c))) in
  let lin := is_linear c in
  match c_kind c with
  | CSvc => fit_c o64 infinity tiny64 eps64 fuel (c_K c) (c_X c) (c_yb c) (c_eps c) (c_shrink c) lin (c_par1 c) (c_par2 c)
  | NuSvc => fit_nu_svc o64 infinity tiny64 eps64 fuel (c_K c) (c_X c) (c_yb c) (c_eps c) (c_shrink c) lin (c_par1 c)
  | OneClass => fit_one_class o64 infinity tiny64 eps64 fuel (c_K c) (c_X c) (c_eps c) (c_shrink c) lin (c_par1 c) (N.to_nat (c_nt c))
  | EpsSvr => fit_epsilon o64 infinity tiny64 eps64 fuel (c_K c) (c_X c) (c_yr c) (c_eps c) (c_shrink c) lin (c_par1 c) (c_par2 c)
  | NuSvr => fit_nu_svr o64 infinity tiny64 eps64 fuel (c_K c) (c_X c) (c_yr c) (c_eps c) (c_shrink c) lin (c_par1 c) (c_par2 c)
  end.

Definition opt_eqb (a b : option float) : bool :=
  match a, b with Some x, Some y => num_eqb x y | None, None => true | _, _ => false end.

Definition corr_fit (c : case) : N :=
  if negb (c_replay c) then 0%N else
  match model_fit c with
  | Fuel => 128%N
  | Fitted m =>
      if c_panic c then 128%N else
      lorl [flag (vec_eqb (mAlpha m) (c_alpha c)) 2;
            flag (num_eqb (mRho m) (c_rho c) && opt_eqb (mR m) (c_r c)) 4;
            flag (num_eqb (mObj m) (c_obj c) && N.eqb (mIter m) (c_iter c)) 8;
            flag (match mSep m with
                  | HLinear w => vec_eqb w (c_w c)
                  | HSupport sv => mat_eqb sv (c_sv c)
                  end) 16]
  end.

(* weighted_sum / decision / label / nsupport recomputed by the model from the implementation's own
   coefficients, hyperplane and kernel values *)
(* kernel value of a stored support vector with a query: the stored vector is a training sample, its kernel
   value is the one of the first training sample with the same bit pattern (None: not a training sample) *)
Fixpoint lookup_row (sv : list float) (X : list (list float)) (kq : list float) : option float :=
  match X, kq with
  | x :: X', k :: kq' => if vec_eqb x sv then Some k else lookup_row sv X' kq'
  | _, _ => None
  end.
Definition sv_kvals (c : case) (kq : list float) : list float :=
  map (fun sv => match lookup_row sv (c_X c) kq with Some k => k | None => nan end) (c_sv c).

Definition model_ws (c : case) (q kq : list float) : float :=
  if is_linear c then weighted_sum_linear o64 (c_w c) q
  else weighted_sum_sv o64 eps64 (sv_kvals c kq) (c_alpha c).

(* the implementation published an explicit hyperplane instead of support vectors *)
Definition stores_hyperplane (c : case) : bool :=
  match c_w c, c_sv c with _ :: _, [] => true | _, _ => false end.

Definition is_regression (c : case) : bool :=
  match c_kind c with EpsSvr | NuSvr => true | _ => false end.

Definition corr_predict (c : case) : N :=
  if c_panic c then 0%N else
  let ws := map2 (model_ws c) (c_Q c) (c_QK c) in
  lorl [flag (vec_eqb ws (c_ws c)) 32;
        flag (if is_regression c
              then vec_eqb (map (fun w => decision o64 w (c_rho c)) (c_ws c)) (c_dec c)
              else list_eqb Bool.eqb (map (fun w => label_of o64 w (c_rho c)) (c_ws c)) (c_lab c)) 32;
        flag (N.eqb (N.of_nat (nsupport o64 eps64 (c_alpha c))) (c_nsupport c)) 64;
        flag (match c_kind c with
              | OneClass => trunc_ok o64 (PrimFloat.mul (c_par1 c) (of_N o64 (N.of_nat (length (c_X c))))) (N.to_nat (c_nt c))
              | _ => true
              end) 256].

(* ---- property oracle (exact arithmetic on the implementation's output) ---- *)
Definition qv (l : list float) : list Q := map f64_Q l.
Definition qm (l : list (list float)) : list (list Q) := map qv l.
Definition all_finite (l : list float) : bool := forallb is_finite l.

(* "non-zero" coefficient: above the crate's documented numerical-zero threshold 100 * f64::EPSILON *)
Definition nonzero (x : float) : bool := PrimFloat.ltb 0x1.9p-46%float (PrimFloat.abs x).
Definition count_nonzero (a : list float) : nat := length (filter nonzero a).

(* The update step of the solver can leave a coefficient one rounding error outside its bound
   (alpha_i = bound_j + diff rounds up).  The oracle therefore judges the coefficients clamped to their box and
   requires, separately (bit 1), that clamping moved no coefficient by more than 2^-50 relative to the bound. *)
Definition box_slack : Q := 1 # 1125899906842624.    (* 2^-50 *)
Definition clampQ (lo hi x : Q) : Q := if Qltb x lo then lo else if Qltb hi x then hi else x.
Definition near_box (lo hi x : Q) : bool :=
  let d := (box_slack * (Qabs' lo + Qabs' hi))%Q in Qleb (lo - d) x && Qleb x (hi + d).
Definition clamp_list (lo hi : list Q) (a : list Q) : list Q :=
  map (fun t => clampQ (fst (fst t)) (snd (fst t)) (snd t)) (combine (combine lo hi) a).
Definition near_list (lo hi : list Q) (a : list Q) : bool :=
  forallb (fun t => near_box (fst (fst t)) (snd (fst t)) (snd t)) (combine (combine lo hi) a).
Definition box_of (c : case) (r : Q) : list Q * list Q :=
  let n := length (c_alpha c) in
  match c_kind c with
  | CSvc => (map (fun b : bool => if b then 0 else - f64_Q (c_par2 c)) (c_yb c),
             map (fun b : bool => if b then f64_Q (c_par1 c) else 0) (c_yb c))
  | NuSvc => (map (fun b : bool => if b then 0 else - r) (c_yb c), map (fun b : bool => if b then r else 0) (c_yb c))
  | OneClass => (repeat 0 n, repeat 1 n)
  | EpsSvr => (repeat (- f64_Q (c_par1 c)) n, repeat (f64_Q (c_par1 c)) n)
  | NuSvr => (repeat (- f64_Q (c_par2 c)) n, repeat (f64_Q (c_par2 c)) n)
  end%Q.

Definition oracle_solution (c : case) : N :=
  let K := qm (c_K c) in
  let a0 := qv (c_alpha c) in
  let cbq := match c_r c with Some r => f64_Q (PrimFloat.div 1%float r) | None => 0%Q end in
  let '(blo, bhi) := box_of c cbq in
  let a := clamp_list blo bhi a0 in
  N.lor (flag (near_list blo bhi a0) 1) (
  let rho := f64_Q (c_rho c) in
  let e := f64_Q (c_tolk c) in
  let eeq := f64_Q (c_toleq c) in
  let n := length (c_X c) in
  match c_kind c with
  | CSvc =>
      lorl [flag (svc_feasible (c_yb c) (f64_Q (c_par1 c)) (f64_Q (c_par2 c)) a eeq) 1;
            flag (svc_kkt K (c_yb c) (f64_Q (c_par1 c)) (f64_Q (c_par2 c)) a rho e) 4]
  | NuSvc =>
      match c_r c with
      | None => 5%N
      | Some r =>
          if negb (PrimFloat.ltb 0%float r && is_finite r) then 5%N else
          let cb := f64_Q (PrimFloat.div 1%float r) in
          let rq := f64_Q r in
          let total := (f64_Q (c_par1 c) * inject_Z (Z.of_nat n))%Q in
          lorl [flag (svc_feasible (c_yb c) cb cb a eeq) 1;
                (* sum |a_i| * r = nu * n *)
                flag (nusvc_nu total rq a (eeq * (1 + rq))) 2;
                flag (svc_kkt K (c_yb c) cb cb a rho (e / rq)) 4]
      end
  | OneClass =>
      let total := (f64_Q (c_par1 c) * inject_Z (Z.of_nat n))%Q in
      flag (oneclass_ok K total a rho e eeq) 4
  | EpsSvr =>
      lorl [flag (svr_feasible (f64_Q (c_par1 c)) a eeq) 1;
            flag (svr_kkt K (qv (c_yr c)) (f64_Q (c_par1 c)) (f64_Q (c_par2 c)) a rho e) 4]
  | NuSvr =>
      (* nu-SVR dual: the loss epsilon is the second multiplier, -r (0 when the solver publishes none);
         sum |b_i| <= c nu n, with equality when the loss epsilon is positive *)
      let p := match c_r c with Some r => Qopp (f64_Q r) | None => 0%Q end in
      let cq := f64_Q (c_par2 c) in
      let total := (cq * f64_Q (c_par1 c) * inject_Z (Z.of_nat n))%Q in
      lorl [flag (svr_feasible cq a eeq) 1;
            flag (nusvr_nu total p a e (eeq * (1 + cq))) 2;
            flag (svr_kkt K (qv (c_yr c)) cq p a rho e) 4]
  end).

(* the labels / targets cover every sample *)
Definition case_shape (c : case) : bool :=
  match c_kind c with
  | CSvc | NuSvc => Nat.eqb (length (c_yb c)) (length (c_X c))
  | EpsSvr | NuSvr => Nat.eqb (length (c_yr c)) (length (c_X c))
  | OneClass => true
  end.

(* the box the published coefficients are judged against, and the coefficients clamped to it (see [box_slack]) *)
Definition published_box (c : case) : list Q * list Q :=
  box_of c (match c_r c with Some r => f64_Q (PrimFloat.div 1%float r) | None => 0%Q end).
Definition judged_alpha (c : case) : list Q :=
  clamp_list (fst (published_box c)) (snd (published_box c)) (qv (c_alpha c)).

(* sizes up to which the positive semi-definiteness certificate is evaluated (the harness sends no hint above it) *)
Definition psd_limit : nat := 130.

Definition oracle_case (c : case) : N :=
  if c_panic c then 0%N (* reported by the harness with code 512 *) else
  let a := qv (c_alpha c) in
  let rho := f64_Q (c_rho c) in
  let decs := if is_regression c then c_dec c else map (fun w => PrimFloat.sub w (c_rho c)) (c_ws c) in
  (* the same for every training sample *)
  let tdecs := if is_regression c then c_tout c else map (fun w => PrimFloat.sub w (c_rho c)) (c_tws c) in
  let fin := all_finite (c_alpha c) && is_finite (c_rho c) && forallb all_finite (c_K c)
             && forallb all_finite (c_QK c) && all_finite decs && all_finite (c_ws c)
             && all_finite tdecs && all_finite (c_tws c) in
  if negb fin then 256%N else
  lorl [oracle_solution c;
   flag (Nat.eqb (length (c_alpha c)) (length (c_X c)) && case_shape c
           && symb (length (c_X c)) (qm (c_K c))) 256;
   (* K + delta I is positive semi-definite: a-posteriori certificate (C13/PsdCert.v) K + delta I - L L^T
      diagonally dominant in exact integer arithmetic, L the harness's approximate Cholesky factor *)
   flag (if Nat.ltb psd_limit (length (c_X c)) then true
         else psd_cert (length (c_X c)) (qm (c_K c)) (qm (c_L c)) (f64_Q (c_tolpsd c))) 16384
   (* the decision value is sum_i alpha_i K(x_i, x) - rho of the published coefficients: query samples and
      every training sample (row i of the kernel matrix holds K(x_j, x_i)) *);
   flag (all2 (fun kq d => decision_close (qv kq) a rho (f64_Q d) (f64_Q (c_told c))) (c_QK c) decs
         && all2 (fun kq d => decision_close (qv kq) a rho (f64_Q d) (f64_Q (c_told c))) (c_K c) tdecs) 8
   (* labels are the sign of the decision value *);
   flag (is_regression c ||
           (all2 (fun d (l : bool) => Bool.eqb (PrimFloat.leb 0%float d) l) decs (c_lab c)
            && match c_tlab c with
               | [] => true
               | tl => all2 (fun d (l : bool) => Bool.eqb (PrimFloat.leb 0%float d) l) tdecs tl
               end)) 16
   (* the number of support vectors is the number of non-zero coefficients *);
   flag (N.eqb (N.of_nat (count_nonzero (c_alpha c))) (c_nsupport c)) 32
   (* when support vectors are stored, they are the samples with non-zero coefficient, in order (an explicit
      hyperplane published instead is judged by the decision values, bit 8) *);
   flag (is_linear c || stores_hyperplane c ||
           mat_eqb (map fst (filter (fun e => nonzero (snd e)) (combine (c_X c) (c_alpha c))))
                   (c_sv c)) 64
   (* calibrated probabilities lie in [0,1] and are a monotone function of the decision value *);
   flag (match c_pr c with
           | [] => true
           | pr =>
               forallb (fun p => PrimFloat.leb 0%float p && PrimFloat.leb p 1%float) pr &&
               (forallb (fun dp1 => forallb (fun dp2 =>
                     negb (PrimFloat.ltb (fst dp1) (fst dp2)) || PrimFloat.leb (snd dp1) (snd dp2))
                   (combine decs pr)) (combine decs pr)
                || forallb (fun dp1 => forallb (fun dp2 =>
                     negb (PrimFloat.ltb (fst dp1) (fst dp2)) || PrimFloat.leb (snd dp2) (snd dp1))
                   (combine decs pr)) (combine decs pr))
           end) 128].

Definition run_case (c : case) : verdict :=
  (c_id c, (lorl [corr_kernel c; corr_fit c; corr_predict c], oracle_case c)).

Definition run_cases (cs : list case) : list N := report (map run_case cs).
