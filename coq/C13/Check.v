(** C13 - decidable checkers of the published SVM solution, in exact rational arithmetic
    (definitions only; soundness is proved in C13/Proofs.v).  Every finite float is a dyadic rational
    (Common/QF.v); sums use [Qadd'], which keeps a common power-of-two denominator instead of
    multiplying denominators, and is Qeq-equal to Qplus by construction. *)
From Coq Require Import List ZArith QArith Bool.
From LinfaVerif Require Import Common.QF.
Import ListNotations.
Local Open Scope Q_scope.

(* a/b + c/d with b | d or d | b computed over the larger denominator; plain Qplus otherwise *)
Definition Qadd' (x y : Q) : Q :=
  let b := Zpos (Qden x) in let d := Zpos (Qden y) in
  if (b <=? d)%Z then
    let q := (d / b)%Z in
    if (b * q =? d)%Z then Qmake (Qnum x * q + Qnum y) (Qden y) else Qplus x y
  else
    let q := (b / d)%Z in
    if (d * q =? b)%Z then Qmake (Qnum x + Qnum y * q) (Qden x) else Qplus x y.

Definition Qsum' (l : list Q) : Q := fold_right Qadd' 0 l.
Fixpoint Qdot' (a b : list Q) : Q :=
  match a, b with x :: a', y :: b' => Qadd' (x * y) (Qdot' a' b') | _, _ => 0 end.

Definition Qsub' (x y : Q) : Q := Qadd' x (- y).

(** decision values on the training points: f_i = sum_j a_j K_ij - rho *)
Definition dec_values (K : list (list Q)) (a : list Q) (rho : Q) : list Q :=
  map (fun row => Qsub' (Qdot' row a) rho) K.

Definition all2 {A B} (f : A -> B -> bool) : list A -> list B -> bool :=
  fix go (a : list A) (b : list B) : bool :=
    match a, b with
    | [], [] => true
    | x :: a', y :: b' => f x y && go a' b'
    | _, _ => false
    end.
Fixpoint all3 {A B C} (f : A -> B -> C -> bool) (a : list A) (b : list B) (c : list C) : bool :=
  match a, b, c with
  | [], [], [] => true
  | x :: a', y :: b', z :: c' => f x y z && all3 f a' b' c'
  | _, _, _ => false
  end.

(** C-SVC (and nu-SVC after scaling by 1/r): published a_i = y_i alpha_i.
    feasibility:  y_i: 0 <= a_i <= cpos, not y_i: -cneg <= a_i <= 0;  |sum a_i| <= eeq
    KKT with m_i = y_i f_i:  |a_i| < C_i -> m_i >= 1 - e ;  a_i <> 0 -> m_i <= 1 + e *)
Definition svc_box (cpos cneg : Q) (y : bool) (a : Q) : bool :=
  if y then Qleb 0 a && Qleb a cpos else Qleb (- cneg) a && Qleb a 0.
Definition svc_kkt1 (cpos cneg e : Q) (y : bool) (a f : Q) : bool :=
  let m := if y then f else - f in
  let c := if y then cpos else cneg in
  (negb (Qltb (Qabs' a) c) || Qleb (1 - e) m) && (Qeq_bool a 0 || Qleb m (1 + e)).

Definition svc_feasible (y : list bool) (cpos cneg : Q) (a : list Q) (eeq : Q) : bool :=
  all2 (svc_box cpos cneg) y a && Qleb (Qabs' (Qsum' a)) eeq.
Definition svc_kkt (K : list (list Q)) (y : list bool) (cpos cneg : Q) (a : list Q) (rho e : Q) : bool :=
  all3 (svc_kkt1 cpos cneg e) y a (dec_values K a rho).
Definition svc_ok (K : list (list Q)) (y : list bool) (cpos cneg : Q) (a : list Q) (rho e eeq : Q) : bool :=
  svc_feasible y cpos cneg a eeq && svc_kkt K y cpos cneg a rho e.

(** epsilon-SVR: published b_i = alpha_i - alpha*_i, residual res_i = y_i - f_i, loss epsilon p.
    feasibility: |b_i| <= c, |sum b_i| <= eeq
    KKT:  0 <= b_i < c -> res_i <= p + e ;  b_i < 0 -> res_i <= -p + e ;
          -c < b_i <= 0 -> res_i >= -p - e ; b_i > 0 -> res_i >= p - e *)
Definition svr_box (c : Q) (b : Q) : bool := Qleb (- c) b && Qleb b c.
Definition svr_kkt1 (c p e : Q) (y b f : Q) : bool :=
  let res := y - f in
  (negb (Qleb 0 b && Qltb b c) || Qleb res (p + e)) &&
  (negb (Qltb b 0) || Qleb res (- p + e)) &&
  (negb (Qltb (- c) b && Qleb b 0) || Qleb (- p - e) res) &&
  (negb (Qltb 0 b) || Qleb (p - e) res).

Definition svr_feasible (c : Q) (b : list Q) (eeq : Q) : bool :=
  forallb (svr_box c) b && Qleb (Qabs' (Qsum' b)) eeq.
Definition svr_kkt (K : list (list Q)) (y : list Q) (c p : Q) (b : list Q) (rho e : Q) : bool :=
  all3 (svr_kkt1 c p e) y b (dec_values K b rho).
Definition svr_ok (K : list (list Q)) (y : list Q) (c p : Q) (b : list Q) (rho e eeq : Q) : bool :=
  svr_feasible c b eeq && svr_kkt K y c p b rho e.

(** nu-SVC (published a_i = y_i alpha_i / r, rho / r; cb = 1/r as the implementation computes it, rq = r,
    total = nu n): the C-SVC conditions with both box bounds cb, and the second equality constraint
    | r sum |a_i| - nu n | <= enu *)
Definition nusvc_nu (total rq : Q) (a : list Q) (enu : Q) : bool :=
  Qleb (Qabs' (Qsub' (Qsum' (map Qabs' a) * rq) total)) enu.
Definition nusvc_ok (K : list (list Q)) (y : list bool) (cb total rq : Q) (a : list Q) (rho e eeq enu : Q) : bool :=
  svc_feasible y cb cb a eeq && nusvc_nu total rq a enu && svc_kkt K y cb cb a rho e.

(** nu-SVR (published b_i, the tube width p = -r, total = c nu n): the epsilon-SVR conditions with loss epsilon p,
    p >= -e, sum |b_i| <= total + enu, and complementarity: p <= e or sum |b_i| >= total - enu *)
Definition nusvr_nu (total p : Q) (b : list Q) (e enu : Q) : bool :=
  let l1 := Qsum' (map Qabs' b) in
  Qleb (- e) p && Qleb l1 (total + enu) && (Qleb p e || Qleb (total - enu) l1).
Definition nusvr_ok (K : list (list Q)) (y : list Q) (c total p : Q) (b : list Q) (rho e eeq enu : Q) : bool :=
  svr_feasible c b eeq && nusvr_nu total p b e enu && svr_kkt K y c p b rho e.

(** one-class: 0 <= a_i <= 1, |sum a_i - total| <= eeq ;  a_i < 1 -> f_i >= -e ; a_i > 0 -> f_i <= e *)
Definition oc_kkt1 (e : Q) (a f : Q) : bool :=
  (negb (Qltb a 1) || Qleb (- e) f) && (negb (Qltb 0 a) || Qleb f e).
Definition oneclass_ok (K : list (list Q)) (total : Q) (a : list Q) (rho e eeq : Q) : bool :=
  forallb (fun x => Qleb 0 x && Qleb x 1) a && Qleb (Qabs' (Qsub' (Qsum' a) total)) eeq &&
  all2 (oc_kkt1 e) a (dec_values K a rho).

(** decision value of a query: sum_j a_j K(x_j, x) - rho from ALL published coefficients,
    compared with the value the implementation returns, |d_impl - d_exact| <= tol *)
Definition decision_exact (kq : list Q) (a : list Q) (rho : Q) : Q := Qsub' (Qdot' kq a) rho.
Definition decision_close (kq a : list Q) (rho d tol : Q) : bool :=
  Qleb (Qabs' (Qsub' d (decision_exact kq a rho))) tol.

(** the kernel matrix is symmetric: first row against first column, then the trailing block; the test also
   forces the matrix to be n x n *)
Definition nonnil {A} (l : list A) : bool := match l with [] => false | _ => true end.
Fixpoint symb (n : nat) (M : list (list Q)) : bool :=
  match n, M with
  | O, [] => true
  | S n', (m :: r0) :: rows =>
      all2 Qeq_bool r0 (map (hd 0%Q) rows) && forallb nonnil rows && symb n' (map (@tl Q) rows)
  | _, _ => false
  end.
