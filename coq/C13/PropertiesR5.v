(** C13 round 5 - property theorems: the SMO descent lemma for the analytic two-variable step of the model
    (C13/Model.v [update], the transliteration of solver_smo.rs `update` that the correspondence replays bit for bit),
    over the reals, for ALL states.  Statements only; proofs are in C13/ProofsR5.v, the notions (qmat, dual_obj, grad_ok,
    pair_change, violating, curvature, run_updates, smo_inv, valid_pair) in C13/ModelR5.v.
    Setting: a fully active state of n positions (sNact s = n, i.e. between shrinking phases); Q = [qmat R_ops P s] is the
    matrix of the dual in the solver's permuted coordinates, whose row k is literally the list `distances(k, n)` that
    [update] reads (Q_kl = y_k y_l K(idx k, idx l)); dual_obj P s = 1/2 alpha^T Q alpha + p^T alpha. *)
From Coq Require Import List NArith Arith Reals.
From LinfaVerif Require Import Common.Num Common.QF C13.Model C13.Spec C13.SpecStep C13.ModelR5 C13.ProofsR5.
Import ListNotations.
Local Open Scope R_scope.

(** moving two coordinates i <> j of a quadratic objective with a symmetric matrix changes it by exactly the
    second-order model in the gradient g = Q a + p and the entries Q_ii, Q_jj, Q_ij *)
Theorem qp_two_coordinate_change : forall n Q p a i j x y,
  wfM n Q -> Sym n Q -> length a = n -> length p = n -> i <> j -> (i < n)%nat -> (j < n)%nat ->
  let g := vaddR (mvR Q a) p in
  qp_obj Q p (setn (setn a i x) j y) - qp_obj Q p a =
  pair_change (nth i g 0) (nth j g 0) (ent Q i i) (ent Q j j) (ent Q i j) (x - nth i a 0) (y - nth j a 0).
Proof. exact qp_pair_change. Qed.

(** the curvature K_ii + K_jj - 2 K_ij = Q_ii + Q_jj - 2 y_i y_j Q_ij of any pair is non-negative for a positive
    semi-definite Q *)
Theorem psd_pair_curvature_nonneg : forall n Q i j differ,
  wfM n Q -> Sym n Q -> PSD n Q -> i <> j -> (i < n)%nat -> (j < n)%nat ->
  0 <= curvature differ (ent Q i i) (ent Q j j) (ent Q i j).
Proof. exact psd_curvature. Qed.

(** SMO descent lemma: one [update] of the working pair (i, j) - unclipped Newton step with the curvature guard
    `quad_coef <= 0 -> tiny`, then clipping to the box along the line that keeps y_i a_i + y_j a_j - never increases
    the dual objective, for every feasible state with the gradient invariant G = Q alpha + p, every symmetric Q with
    non-negative curvature on the pair and every positive guard constant; and it strictly decreases the objective
    when {i, j} is a violating pair (even when the curvature is zero and the guard constant is used) *)
Theorem smo_step_objective_noninc : forall tiny (P : problem (F := R)) s i j n,
  0 < tiny -> i <> j -> (i < n)%nat -> (j < n)%nat ->
  length (sA s) = n -> length (sU s) = n -> length (sP s) = n -> sNact s = n ->
  boxed (sA s) (sU s) ->
  let Q := qmat R_ops P s in
  let differ := negb (Bool.eqb (nth i (sT s) true) (nth j (sT s) true)) in
  wfM n Q -> Sym n Q -> grad_ok P s ->
  selfd R_ops P s i = ent Q i i -> selfd R_ops P s j = ent Q j j ->
  0 <= curvature differ (ent Q i i) (ent Q j j) (ent Q i j) ->
  let s' := update R_ops tiny P s i j in
  dual_obj P s' <= dual_obj P s /\
  (violating differ (nth i (sA s) 0) (nth j (sA s) 0) (nth i (sU s) 0) (nth j (sU s) 0) (nth i (sG s) 0) (nth j (sG s) 0) ->
   dual_obj P s' < dual_obj P s).
Proof. exact smo_step_descent_l. Qed.

(** gradient bookkeeping: the incrementally updated gradient G + Q_i da_i + Q_j da_j of [update] is the gradient
    Q alpha' + p recomputed from the new coefficients (and Q itself is unchanged by the step) *)
Theorem smo_step_gradient_bookkeeping : forall tiny (P : problem (F := R)) s i j n,
  i <> j -> (i < n)%nat -> (j < n)%nat ->
  length (sA s) = n -> length (sP s) = n -> sNact s = n ->
  let Q := qmat R_ops P s in
  wfM n Q -> Sym n Q -> grad_ok P s -> grad_ok P (update R_ops tiny P s i j).
Proof. exact grad_update_l. Qed.

Theorem update_keeps_dual_matrix : forall tiny (P : problem (F := R)) s i j,
  qmat R_ops P (update R_ops tiny P s i j) = qmat R_ops P s.
Proof. exact qmat_update. Qed.

(** the solver invariant (feasible coefficients, symmetric positive semi-definite Q, gradient invariant, kernel
    diagonal = diagonal of Q, fully active) is kept by every step on a valid pair, and the step does not increase the
    objective - with no curvature hypothesis left *)
Theorem smo_invariant_kept : forall tiny n (P : problem (F := R)) s ij,
  0 < tiny -> smo_inv n P s -> valid_pair n ij ->
  let s' := update R_ops tiny P s (fst ij) (snd ij) in
  smo_inv n P s' /\ dual_obj P s' <= dual_obj P s.
Proof. exact smo_inv_update_l. Qed.

(** progress of a whole run: along ANY sequence of working pairs (whatever selection rule produced them) the dual
    objective never increases and the invariant holds at the end *)
Theorem smo_run_objective_noninc : forall tiny n (P : problem (F := R)) pairs s,
  0 < tiny -> smo_inv n P s -> Forall (valid_pair n) pairs ->
  smo_inv n P (run_updates R_ops tiny P s pairs) /\ dual_obj P (run_updates R_ops tiny P s pairs) <= dual_obj P s.
Proof. exact smo_run_descent_l. Qed.

(** the main loop of the model ([smo_loop], solve() of solver_smo.rs) with shrinking switched off: if it terminates, the
    final state satisfies the invariant and its dual objective is not above the initial one.  PARTIAL: the hypothesis
    that working-set selection returns valid pairs (two different positions below n) on every state that satisfies the
    invariant is assumed, not proved here; it is discharged below (select_returns_valid_pair), which gives the
    hypothesis-free smo_loop_objective_noninc.  Still not theorems: the shrinking phases (swap, reconstruct_gradient)
    and termination. *)
Theorem smo_loop_objective_noninc_partial : forall inf tiny n (P : problem (F := R)) fuel s iter c s' it,
  0 < tiny -> pShrinking P = false -> smo_inv n P s ->
  (forall st i j, smo_inv n P st -> select R_ops inf tiny P st = Some (i, j) -> valid_pair n (i, j)) ->
  smo_loop R_ops inf tiny fuel P s iter c = Done s' it ->
  smo_inv n P s' /\ dual_obj P s' <= dual_obj P s.
Proof. exact smo_loop_descent_l. Qed.

(** working-set selection (select_working_set and select_working_set_nu of solver_smo.rs, i.e. [select_std] / [select_nu]
    of the model with their max_violating_pair(_nu) folds), over the reals, for EVERY state of n positions (in particular
    every state satisfying smo_inv n): it either reports "optimal" (None) or returns two DIFFERENT positions below n.
    Reason: the running maximum of max_violating_pair always carries the index i of an active position together with that
    position's value -y_i G_i, and the second-order choice takes j only among active positions with
    gmax + y_j G_j > 0 (same class in the nu variant), which is 0 > 0 at j = i. *)
Theorem select_std_returns_valid_pair : forall inf tiny n (P : problem (F := R)) s i j,
  length (sA s) = n -> select_std R_ops inf tiny P s = Some (i, j) -> i <> j /\ (i < n)%nat /\ (j < n)%nat.
Proof. exact select_std_valid_l. Qed.

Theorem select_nu_returns_valid_pair : forall inf tiny n (P : problem (F := R)) s i j,
  length (sA s) = n -> select_nu R_ops inf tiny P s = Some (i, j) -> i <> j /\ (i < n)%nat /\ (j < n)%nat.
Proof. exact select_nu_valid_l. Qed.

Theorem select_returns_valid_pair : forall inf tiny n (P : problem (F := R)) s i j,
  smo_inv n P s -> select R_ops inf tiny P s = Some (i, j) -> valid_pair n (i, j).
Proof. exact select_valid_inv_l. Qed.

(** the main loop of the model ([smo_loop], solve() of solver_smo.rs) with shrinking switched off, for all five problem
    kinds (standard and nu selection), with NO hypothesis on the selection rule: if it terminates, the final state
    satisfies the solver invariant and its dual objective is not above the initial one. *)
Theorem smo_loop_objective_noninc : forall inf tiny n (P : problem (F := R)) fuel s iter c s' it,
  0 < tiny -> pShrinking P = false -> smo_inv n P s ->
  smo_loop R_ops inf tiny fuel P s iter c = Done s' it ->
  smo_inv n P s' /\ dual_obj P s' <= dual_obj P s.
Proof. exact smo_loop_descent_full_l. Qed.
