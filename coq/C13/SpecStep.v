(** C13 - statements about single steps of the SMO model (definitions only): the per-position rows of the solver
    state that [swap] has to permute together, and the feasibility notions one [update] has to preserve. *)
From Coq Require Import List NArith Arith Reals.
From LinfaVerif Require Import Common.Num Common.QF C13.Model.
Import ListNotations.

(* the transposition (i j) on positions *)
Definition transp (i j k : nat) : nat := if (k =? j)%nat then i else if (k =? i)%nat then j else k.

Section Rows.
Context {F : Type} (o : NumOps F).

(* everything the solver keeps per position:
   (active_set, (alpha, (gradient, (gradient_fixed, (p, (bound, (target, (kernel index, kernel sign)))))))) *)
Definition srow := (nat * (F * (F * (F * (F * (F * (bool * (nat * bool))))))))%type.
Definition rows (s : state (F := F)) : list srow :=
  combine (sSet s) (combine (sA s) (combine (sG s) (combine (sGbar s) (combine (sP s) (combine (sU s)
    (combine (sT s) (combine (sKi s) (sKs s)))))))).
Definition drow : srow := (O, (zero o, (zero o, (zero o, (zero o, (zero o, (true, (O, true)))))))).

(* all per-position arrays have the same length n *)
Definition consistent (n : nat) (s : state (F := F)) : Prop :=
  length (sSet s) = n /\ length (sA s) = n /\ length (sG s) = n /\ length (sGbar s) = n /\ length (sP s) = n /\
  length (sU s) = n /\ length (sT s) = n /\ length (sKi s) = n /\ length (sKs s) = n.
End Rows.

Local Open Scope R_scope.
Definition sgnb (b : bool) : R := if b then 1 else -1.
(* sum_k y_k alpha_k *)
Fixpoint ydot (T : list bool) (A : list R) : R :=
  match T, A with t :: T', a :: A' => sgnb t * a + ydot T' A' | _, _ => 0 end.
(* every coefficient lies in [0, bound] *)
Definition boxed (A U : list R) : Prop := forall k, (k < length A)%nat -> 0 <= nth k A 0 <= nth k U 0.
