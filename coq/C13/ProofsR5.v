(** C13 round 5 - the SMO descent lemma for the analytic two-variable step of [update] (C13/Model.v) over the reals. *)
From Coq Require Import List NArith Arith Reals Lra Lia Psatz Bool.
From LinfaVerif Require Import Common.Num Common.QF C13.Model C13.Spec C13.SpecStep C13.ProofsStep C13.Proofs C13.ModelR5.
Import ListNotations.
Local Open Scope R_scope.

(** * the one-dimensional step: a clipped Newton step with over-estimated curvature decreases the parabola *)
Lemma step_pos G q0 quad D t : 0 <= q0 <= quad -> 0 < quad -> G = - D * quad -> 0 <= t <= D ->
  G * t + / 2 * q0 * t * t <= 0 /\ (t <> 0 -> G * t + / 2 * q0 * t * t < 0).
Proof.
  intros Hq Hquad -> Ht.
  assert (E : - D * quad * t + / 2 * q0 * t * t = t * (- D * quad + / 2 * q0 * t)) by ring.
  rewrite E.
  assert (H1 : q0 * t <= quad * t) by nra.
  assert (H2 : quad * t <= quad * D) by nra.
  split.
  - assert (H3 : - D * quad + / 2 * q0 * t <= 0) by nra. nra.
  - intros Hne. assert (Htp : 0 < t) by lra.
    assert (H3 : - D * quad + / 2 * q0 * t < 0) by nra. nra.
Qed.

Lemma step_between G q0 quad t : 0 <= q0 <= quad -> 0 < quad ->
  (0 <= t <= - G / quad \/ - G / quad <= t <= 0) ->
  G * t + / 2 * q0 * t * t <= 0 /\ (t <> 0 -> G * t + / 2 * q0 * t * t < 0).
Proof.
  intros Hq Hquad Hb. set (D := - G / quad) in *.
  assert (EG : G = - D * quad) by (unfold D; field; lra).
  destruct Hb as [Hb|Hb].
  - exact (step_pos G q0 quad D t Hq Hquad EG Hb).
  - assert (EG' : - G = - (- D) * quad) by lra.
    assert (Hb' : 0 <= - t <= - D) by lra.
    destruct (step_pos (- G) q0 quad (- D) (- t) Hq Hquad EG' Hb') as [A B].
    replace (G * t + / 2 * q0 * t * t) with (- G * - t + / 2 * q0 * - t * - t) by ring.
    split; [exact A|]. intros Hne. apply B. lra.
Qed.

(* the guarded curvature *)
Lemma guard_quad tiny q0 : 0 < tiny -> 0 <= q0 ->
  let quad := if Rleb q0 0 then tiny else q0 in 0 <= q0 <= quad /\ 0 < quad.
Proof.
  intros Ht Hq. cbv zeta. destruct (Rleb q0 0) eqn:E; [apply Rleb_true in E | apply Rleb_false in E]; lra.
Qed.

(** the clipped pair stays on the constraint line, between the old point and the unclipped Newton point, and moves
    whenever the pair is violating *)
Lemma upd_pair_between tiny differ oai oaj bi bj gi gj qi qj dij :
  0 <= oai <= bi -> 0 <= oaj <= bj ->
  let pr := upd_pair tiny differ oai oaj bi bj gi gj qi qj dij in
  let q0 := curvature differ qi qj dij in
  let quad := if Rleb q0 0 then tiny else q0 in
  let t := snd pr - oaj in
  let G := if differ then gi + gj else - (gi - gj) in
  let D := - G / quad in
  fst pr - oai = (if differ then t else - t) /\
  (0 <= t <= D \/ D <= t <= 0) /\
  (0 < D -> (if differ then oai < bi else 0 < oai) -> oaj < bj -> 0 < t) /\
  (D < 0 -> (if differ then 0 < oai else oai < bi) -> 0 < oaj -> t < 0).
Proof.
  intros Hi Hj. cbv zeta. unfold upd_pair, curvature, gtb. cbn [add sub mul div opp zero one ltb leb oR R_ops two].
  destruct differ.
  - replace (qi + qj + (1 + 1) * dij) with (qi + qj + 2 * dij) by ring.
    set (delta := - (gi + gj) / _). clearbody delta.
    cmp_cases; cbn [fst snd]; (split; [lra|split; [destruct (Rle_dec 0 delta); first [left; lra | right; lra]|split; intros; lra]]).
  - replace (qi + qj - (1 + 1) * dij) with (qi + qj - 2 * dij) by ring.
    replace (- - (gi - gj)) with (gi - gj) by ring.
    set (delta := (gi - gj) / _). clearbody delta.
    cmp_cases; cbn [fst snd]; (split; [lra|split; [destruct (Rle_dec 0 delta); first [left; lra | right; lra]|split; intros; lra]]).
Qed.

(** pair level: the second-order model of the objective change is non-positive, negative for a violating pair *)
Lemma upd_pair_descent tiny differ oai oaj bi bj gi gj qi qj dij :
  0 < tiny -> 0 <= oai <= bi -> 0 <= oaj <= bj -> 0 <= curvature differ qi qj dij ->
  let pr := upd_pair tiny differ oai oaj bi bj gi gj qi qj dij in
  pair_change gi gj qi qj dij (fst pr - oai) (snd pr - oaj) <= 0 /\
  (violating differ oai oaj bi bj gi gj -> pair_change gi gj qi qj dij (fst pr - oai) (snd pr - oaj) < 0).
Proof.
  intros Htiny Hi Hj Hc. cbv zeta.
  destruct (upd_pair_between tiny differ oai oaj bi bj gi gj qi qj dij Hi Hj) as [E1 [Hb [Hp Hn]]].
  cbv zeta in E1, Hb, Hp, Hn.
  destruct (guard_quad tiny _ Htiny Hc) as [Hq Hquad]. cbv zeta in Hq, Hquad.
  set (pr := upd_pair tiny differ oai oaj bi bj gi gj qi qj dij) in *.
  set (q0 := curvature differ qi qj dij) in *.
  set (quad := if Rleb q0 0 then tiny else q0) in *.
  set (t := snd pr - oaj) in *.
  set (G := if differ then gi + gj else - (gi - gj)) in *.
  destruct (step_between G q0 quad t Hq Hquad Hb) as [A B].
  assert (EP : pair_change gi gj qi qj dij (fst pr - oai) t = G * t + / 2 * q0 * t * t).
  { rewrite E1. unfold pair_change, G, q0, curvature. destruct differ; ring. }
  rewrite EP. split; [exact A|].
  intros V. apply B.
  assert (SD : (G < 0 -> 0 < - G / quad) /\ (0 < G -> - G / quad < 0)).
  { split; intros HG.
    - apply Rdiv_lt_0_compat; lra.
    - replace (- G / quad) with (- (G / quad)) by (field; lra).
      assert (0 < G / quad) by (apply Rdiv_lt_0_compat; lra). lra. }
  destruct SD as [SD1 SD2].
  unfold violating, G in *. destruct differ.
  - destruct V as [[V1 [V2 V3]]|[V1 [V2 V3]]].
    + specialize (Hp (SD1 V1) V2 V3). lra.
    + specialize (Hn (SD2 V1) V2 V3). lra.
  - destruct V as [[V1 [V2 V3]]|[V1 [V2 V3]]].
    + assert (V1' : - (gi - gj) < 0) by lra. specialize (Hp (SD1 V1') V2 V3). lra.
    + assert (V1' : 0 < - (gi - gj)) by lra. specialize (Hn (SD2 V1') V2 V3). lra.
Qed.

(** * list level: moving two coordinates of a quadratic objective *)
Lemma Rdot_setn_l : forall (l : list R) k x v, (k < length l)%nat ->
  Rdot (setn l k x) v = Rdot l v + (x - nth k l 0) * nth k v 0.
Proof.
  induction l as [|a l IH]; intros [|k] x v Hk; simpl in *; try lia.
  - destruct v as [|b v]; simpl; ring.
  - destruct v as [|b v]; simpl; [ring|]. rewrite IH by lia. ring.
Qed.

Lemma Rdot_pair_l (a : list R) i j x y v : i <> j -> (i < length a)%nat -> (j < length a)%nat ->
  Rdot (setn (setn a i x) j y) v = Rdot a v + (x - nth i a 0) * nth i v 0 + (y - nth j a 0) * nth j v 0.
Proof.
  intros Hij Hi Hj. rewrite Rdot_setn_l by (rewrite setn_length; lia). rewrite Rdot_setn_l by lia.
  rewrite nth_setn_neq by exact Hij. ring.
Qed.

Lemma nth_mvR Q v k : nth k (mvR Q v) 0 = Rdot (nth k Q []) v.
Proof. unfold mvR. change 0 with (Rdot [] v). apply (map_nth (fun row => Rdot row v)). Qed.

Lemma nth_vaddR : forall u v k, length u = length v -> nth k (vaddR u v) 0 = nth k u 0 + nth k v 0.
Proof.
  unfold vaddR. induction u as [|a u IH]; intros [|b v] [|k] H; simpl in *; try discriminate; try lra.
  apply IH. lia.
Qed.

Lemma wfM_row n Q k : wfM n Q -> (k < n)%nat -> length (nth k Q []) = n.
Proof.
  intros [HL HF] Hk. rewrite Forall_forall in HF. apply HF. apply nth_In. lia.
Qed.

(* entries of a symmetric form *)
Lemma ent_sym n Q i j : wfM n Q -> Sym n Q -> (i < n)%nat -> (j < n)%nat -> ent Q i j = ent Q j i.
Proof.
  intros Hwf Hs Hi Hj.
  set (e := fun k => setn (repeat 0 n) k 1).
  assert (Le : forall k, length (e k) = n) by (intros k; unfold e; rewrite setn_length, repeat_length; reflexivity).
  assert (De : forall k v, (k < n)%nat -> Rdot (e k) v = nth k v 0).
  { intros k v Hk. unfold e. rewrite Rdot_setn_l by (rewrite repeat_length; lia).
    rewrite Rdot_zero_l. rewrite nth_repeat. ring. }
  pose proof (Hs (e i) (e j) (Le i) (Le j)) as H.
  rewrite !De in H by assumption. rewrite !nth_mvR in H.
  rewrite (Rdot_comm _ (e j)), (Rdot_comm _ (e i)) in H. rewrite !De in H by assumption.
  unfold ent. exact H.
Qed.

Lemma qp_pair_change n Q p a i j x y : wfM n Q -> Sym n Q -> length a = n -> length p = n ->
  i <> j -> (i < n)%nat -> (j < n)%nat ->
  let g := vaddR (mvR Q a) p in
  qp_obj Q p (setn (setn a i x) j y) - qp_obj Q p a =
  pair_change (nth i g 0) (nth j g 0) (ent Q i i) (ent Q j j) (ent Q i j) (x - nth i a 0) (y - nth j a 0).
Proof.
  intros Hwf Hs La Lp Hij Hi Hj. cbv zeta.
  set (a' := setn (setn a i x) j y).
  assert (La' : length a' = n) by (unfold a'; rewrite !setn_length; exact La).
  set (d := vsubR a' a).
  assert (Ld : length d = n) by (unfold d, vsubR; rewrite map2R_length; congruence).
  assert (Ea' : a' = vaddR a d) by (unfold d; symmetry; apply vadd_vsub; congruence).
  assert (Dd : forall v, Rdot d v = (x - nth i a 0) * nth i v 0 + (y - nth j a 0) * nth j v 0).
  { intros v. unfold d. rewrite Rdot_vsub_l by congruence. unfold a'.
    rewrite Rdot_pair_l by (try exact Hij; lia). ring. }
  assert (Row : forall k, (k < n)%nat ->
            Rdot (nth k Q []) d = ent Q k i * (x - nth i a 0) + ent Q k j * (y - nth j a 0)).
  { intros k Hk. rewrite Rdot_comm, Dd. unfold ent. ring. }
  unfold qp_obj. rewrite Ea'. rewrite (quad_expand n Q a d Hwf Hs La Ld).
  rewrite (Rdot_comm p (vaddR a d)), Rdot_vadd_l by congruence.
  unfold quadR at 2. rewrite !Dd. rewrite !nth_mvR. rewrite !Row by assumption.
  rewrite !nth_vaddR by (rewrite mvR_length; destruct Hwf; congruence). rewrite !nth_mvR.
  rewrite (ent_sym n Q j i Hwf Hs Hj Hi).
  rewrite (Rdot_comm p a). unfold pair_change. field.
Qed.

(** * state level: one [update] of the model on a fully active state *)
Lemma proj_if_Gbar {X} (f : state (F := R) -> X) (c : bool) (s : state (F := R)) v :
  (forall s0 v0, f (upd_Gbar s0 v0) = f s0) -> f (if c then upd_Gbar s v else s) = f s.
Proof. intros H. destruct c; [apply H|reflexivity]. Qed.

Lemma update_fields2 tiny (P : problem (F := R)) s i j :
  sKi (update oR tiny P s i j) = sKi s /\ sKs (update oR tiny P s i j) = sKs s /\
  sP (update oR tiny P s i j) = sP s /\ sNact (update oR tiny P s i j) = sNact s.
Proof.
  unfold update.
  destruct (negb (Bool.eqb (nth i (sT s) true) (nth j (sT s) true))); cbv beta iota;
  repeat (match goal with
          | |- context [match ?X with _ => _ end] =>
              match type of X with (R * R)%type => destruct X end
          end; cbv beta iota);
  rewrite ?(proj_if_Gbar sKi), ?(proj_if_Gbar sKs), ?(proj_if_Gbar sP), ?(proj_if_Gbar sNact) by reflexivity;
  repeat split; reflexivity.
Qed.

Lemma nth_map_seq {X} (f : nat -> X) n k d : (k < n)%nat -> nth k (map f (seq O n)) d = f k.
Proof.
  intros Hk. rewrite (nth_indep _ d (f O)) by (rewrite map_length, seq_length; exact Hk).
  rewrite map_nth. rewrite seq_nth by exact Hk. reflexivity.
Qed.

Lemma qmat_update tiny (P : problem (F := R)) s i j :
  qmat oR P (update oR tiny P s i j) = qmat oR P s.
Proof.
  destruct (update_fields2 tiny P s i j) as [E1 [E2 _]].
  destruct (update_fields tiny P s i j) as [EA _]. cbv zeta in EA.
  unfold qmat, distances. rewrite E1, E2. rewrite EA, !setn_length. reflexivity.
Qed.

Lemma smo_step_descent_l : forall tiny (P : problem (F := R)) s i j n,
  0 < tiny -> i <> j -> (i < n)%nat -> (j < n)%nat ->
  length (sA s) = n -> length (sU s) = n -> length (sP s) = n -> sNact s = n ->
  boxed (sA s) (sU s) ->
  let Q := qmat oR P s in
  let differ := negb (Bool.eqb (nth i (sT s) true) (nth j (sT s) true)) in
  wfM n Q -> Sym n Q -> grad_ok P s ->
  selfd oR P s i = ent Q i i -> selfd oR P s j = ent Q j j ->
  0 <= curvature differ (ent Q i i) (ent Q j j) (ent Q i j) ->
  let s' := update oR tiny P s i j in
  dual_obj P s' <= dual_obj P s /\
  (violating differ (nth i (sA s) 0) (nth j (sA s) 0) (nth i (sU s) 0) (nth j (sU s) 0) (nth i (sG s) 0) (nth j (sG s) 0) ->
   dual_obj P s' < dual_obj P s).
Proof.
  intros tiny P s i j n Htiny Hij Hi Hj LA LU LP HN Hbox Q differ Hwf Hs HG Si Sj Hc s'.
  unfold dual_obj. unfold s'. rewrite qmat_update. fold Q.
  destruct (update_fields2 tiny P s i j) as [_ [_ [EP _]]]. rewrite EP.
  destruct (update_fields tiny P s i j) as [EA _]. cbv zeta in EA. rewrite EA. clear EA EP.
  fold differ. rewrite HN.
  assert (Edij : nthF oR (distances oR P s i n) j = ent Q i j).
  { unfold ent, Q, qmat, nthF. rewrite LA. rewrite nth_map_seq by exact Hi. reflexivity. }
  rewrite Edij, Si, Sj.
  unfold nthF. cbn [zero oR R_ops].
  assert (Bi : 0 <= nth i (sA s) 0 <= nth i (sU s) 0) by (apply Hbox; lia).
  assert (Bj : 0 <= nth j (sA s) 0 <= nth j (sU s) 0) by (apply Hbox; lia).
  set (pr := upd_pair tiny differ (nth i (sA s) 0) (nth j (sA s) 0) (nth i (sU s) 0) (nth j (sU s) 0)
               (nth i (sG s) 0) (nth j (sG s) 0) (ent Q i i) (ent Q j j) (ent Q i j)).
  pose proof (qp_pair_change n Q (sP s) (sA s) i j (fst pr) (snd pr) Hwf Hs LA LP Hij Hi Hj) as HC.
  cbv zeta in HC. unfold grad_ok in HG. fold Q in HG. rewrite <- HG in HC.
  destruct (upd_pair_descent tiny differ _ _ _ _ (nth i (sG s) 0) (nth j (sG s) 0) (ent Q i i) (ent Q j j) (ent Q i j)
              Htiny Bi Bj Hc) as [D1 D2].
  cbv zeta in D1, D2. fold pr in D1, D2.
  split; [lra|]. intros V. specialize (D2 V). lra.
Qed.

(** * gradient bookkeeping: the incrementally updated gradient is the gradient of the new point *)
Lemma zipp_length {X} (f : R -> X -> R) : forall xs ds, length (zipp f xs ds) = length xs.
Proof. induction xs as [|x xs IH]; intros [|d ds]; simpl; auto. Qed.

Lemma nth_zipp {X} (f : R -> X -> R) (dd : X) : forall xs ds k, (k < length xs)%nat -> (k < length ds)%nat ->
  nth k (zipp f xs ds) 0 = f (nth k xs 0) (nth k ds dd).
Proof.
  induction xs as [|x xs IH]; intros [|d ds] [|k] H1 H2; simpl in *; try lia; auto.
  apply IH; lia.
Qed.

Lemma update_G tiny (P : problem (F := R)) s i j :
  let na := sNact s in
  let pr := upd_pair tiny (negb (Bool.eqb (nth i (sT s) true) (nth j (sT s) true)))
              (nthF oR (sA s) i) (nthF oR (sA s) j) (nthF oR (sU s) i) (nthF oR (sU s) j)
              (nthF oR (sG s) i) (nthF oR (sG s) j) (selfd oR P s i) (selfd oR P s j)
              (nthF oR (distances oR P s i na) j) in
  sG (update oR tiny P s i j) =
  zipp (fun gk (d : R * R) => gk + (fst d * (fst pr - nthF oR (sA s) i) + snd d * (snd pr - nthF oR (sA s) j)))
       (sG s) (combine (distances oR P s i na) (distances oR P s j na)).
Proof.
  cbv zeta. unfold update, upd_pair.
  destruct (negb (Bool.eqb (nth i (sT s) true) (nth j (sT s) true))); cbv beta iota;
  repeat (match goal with
          | |- context [match ?X with _ => _ end] =>
              match type of X with (R * R)%type => destruct X end
          end; cbv beta iota);
  rewrite ?(proj_if_Gbar sG) by reflexivity; reflexivity.
Qed.

Lemma grad_update_l : forall tiny (P : problem (F := R)) s i j n,
  i <> j -> (i < n)%nat -> (j < n)%nat ->
  length (sA s) = n -> length (sP s) = n -> sNact s = n ->
  let Q := qmat oR P s in
  wfM n Q -> Sym n Q -> grad_ok P s -> grad_ok P (update oR tiny P s i j).
Proof.
  intros tiny P s i j n Hij Hi Hj LA LP HN Q Hwf Hs HG.
  unfold grad_ok. rewrite qmat_update. fold Q.
  destruct (update_fields2 tiny P s i j) as [_ [_ [EP _]]]. rewrite EP.
  destruct (update_fields tiny P s i j) as [EA _]. cbv zeta in EA. rewrite EA.
  rewrite update_G. cbv zeta.
  match type of EA with _ = setn (setn _ _ (fst ?X)) _ (snd ?X) => set (pr := X) in * end.
  clear EA EP. rewrite HN.
  assert (Ri : distances oR P s i n = nth i Q []).
  { unfold Q, qmat. rewrite LA. rewrite nth_map_seq by exact Hi. reflexivity. }
  assert (Rj : distances oR P s j n = nth j Q []).
  { unfold Q, qmat. rewrite LA. rewrite nth_map_seq by exact Hj. reflexivity. }
  rewrite Ri, Rj. unfold nthF. cbn [zero oR R_ops].
  set (x := fst pr). set (y := snd pr).
  assert (LQ : length Q = n) by (destruct Hwf; assumption).
  assert (LG : length (sG s) = n).
  { unfold grad_ok in HG. fold Q in HG. rewrite HG. unfold vaddR. rewrite map2R_length; rewrite mvR_length; congruence. }
  assert (Lc : length (combine (nth i Q []) (nth j Q [])) = n).
  { rewrite combine_length, !(wfM_row n Q) by assumption. apply Nat.min_id. }
  apply (nth_ext _ _ 0 0).
  - rewrite zipp_length. unfold vaddR. rewrite map2R_length; rewrite mvR_length; congruence.
  - intros k Hk. rewrite zipp_length, LG in Hk.
    rewrite (nth_zipp _ (0, 0)) by lia.
    rewrite combine_nth by (rewrite !(wfM_row n Q) by assumption; reflexivity).
    cbn [fst snd].
    rewrite nth_vaddR by (rewrite mvR_length; congruence). rewrite nth_mvR.
    rewrite (Rdot_comm (nth k Q [])). rewrite Rdot_pair_l by (try exact Hij; lia).
    unfold grad_ok in HG. fold Q in HG. rewrite HG.
    rewrite nth_vaddR by (rewrite mvR_length; congruence). rewrite nth_mvR.
    rewrite (Rdot_comm (sA s)).
    change (nth k (nth i Q []) 0) with (ent Q i k). change (nth k (nth j Q []) 0) with (ent Q j k).
    change (nth i (nth k Q []) 0) with (ent Q k i). change (nth j (nth k Q []) 0) with (ent Q k j).
    rewrite (ent_sym n Q k i Hwf Hs Hk Hi), (ent_sym n Q k j Hwf Hs Hk Hj). ring.
Qed.

(** * the curvature hypothesis follows from positive semi-definiteness *)
Lemma Rdot_zero_r n a : Rdot a (repeat 0 n) = 0.
Proof. rewrite Rdot_comm. apply Rdot_zero_l. Qed.

Lemma psd_curvature n Q i j differ : wfM n Q -> Sym n Q -> PSD n Q -> i <> j -> (i < n)%nat -> (j < n)%nat ->
  0 <= curvature differ (ent Q i i) (ent Q j j) (ent Q i j).
Proof.
  intros Hwf Hs Hp Hij Hi Hj.
  set (z := repeat 0 n). set (c := if differ then 1 else -1).
  assert (Lz : length z = n) by apply repeat_length.
  pose proof (qp_pair_change n Q z z i j 1 c Hwf Hs Lz Lz Hij Hi Hj) as H. cbv zeta in H.
  rewrite !nth_vaddR in H by (rewrite mvR_length; destruct Hwf; congruence).
  rewrite !nth_mvR in H.
  assert (Z1 : forall v, Rdot v z = 0) by (intros v; apply Rdot_zero_r).
  assert (Z2 : forall v, Rdot z v = 0) by (intros v; apply Rdot_zero_l).
  assert (Z3 : forall k, nth k z 0 = 0) by (intros k; apply nth_repeat).
  rewrite !Z1, !Z3 in H.
  unfold qp_obj in H. rewrite !Z2 in H. unfold quadR in H at 2. rewrite Z2 in H.
  assert (Lz' : length (setn (setn z i 1) j c) = n) by (rewrite !setn_length; exact Lz).
  pose proof (Hp _ Lz') as Hq.
  unfold pair_change in H. unfold curvature. unfold c in *. destruct differ; nra.
Qed.

(** * the invariant is kept by every step, and the objective never increases along a run *)
Lemma smo_inv_update_l : forall tiny n (P : problem (F := R)) s ij,
  0 < tiny -> smo_inv n P s -> valid_pair n ij ->
  let s' := update oR tiny P s (fst ij) (snd ij) in
  smo_inv n P s' /\ dual_obj P s' <= dual_obj P s.
Proof.
  intros tiny n P s [i j] Htiny Inv [Hij [Hi Hj]]. cbn [fst snd] in *. cbv zeta.
  destruct Inv as [LA [LU [LT [LP [HN [Hbox [Hwf [Hs [Hp [HG Hd]]]]]]]]]].
  destruct (update_keeps_equality_l tiny P s i j n Hij Hi Hj LA LU LT Hbox) as [B' [_ [_ [EU [ET LA']]]]].
  cbv zeta in B', EU, ET, LA'.
  destruct (update_fields2 tiny P s i j) as [EKi [EKs [EP EN]]].
  split.
  - unfold smo_inv. rewrite qmat_update.
    split; [exact LA'|]. split; [rewrite EU; exact LU|]. split; [rewrite ET; exact LT|].
    split; [rewrite EP; exact LP|]. split; [rewrite EN; exact HN|]. split; [exact B'|].
    split; [exact Hwf|]. split; [exact Hs|]. split; [exact Hp|].
    split; [exact (grad_update_l tiny P s i j n Hij Hi Hj LA LP HN Hwf Hs HG)|].
    intros k Hk. unfold selfd. rewrite EKi. apply (Hd k Hk).
  - apply (smo_step_descent_l tiny P s i j n Htiny Hij Hi Hj LA LU LP HN Hbox Hwf Hs HG (Hd i Hi) (Hd j Hj)).
    apply (psd_curvature n); assumption.
Qed.

Lemma smo_run_descent_l : forall tiny n (P : problem (F := R)) pairs s,
  0 < tiny -> smo_inv n P s -> Forall (valid_pair n) pairs ->
  smo_inv n P (run_updates oR tiny P s pairs) /\ dual_obj P (run_updates oR tiny P s pairs) <= dual_obj P s.
Proof.
  intros tiny n P pairs. induction pairs as [|ij pairs IH]; intros s Htiny Inv Hv.
  - simpl. split; [exact Inv|lra].
  - inversion Hv as [|? ? Hv1 Hv2]; subst.
    destruct (smo_inv_update_l tiny n P s ij Htiny Inv Hv1) as [Inv' D]. cbv zeta in Inv', D.
    destruct (IH _ Htiny Inv' Hv2) as [Inv'' D'].
    unfold run_updates in *. cbn [fold_left]. split; [exact Inv''|lra].
Qed.

(** * non-vacuity: the two-point problem of C13/ProofsStep.v at its start state satisfies every hypothesis, and its
    working pair (0, 1) is violating *)
Lemma exS_qmat : qmat oR exP exS = [[1; - -1]; [- -1; 1]].
Proof. reflexivity. Qed.

Example exS_smo_inv : smo_inv 2 exP exS /\ valid_pair 2 (O, S O) /\
  violating (negb (Bool.eqb (nth 0 (sT exS) true) (nth 1 (sT exS) true)))
    (nth 0 (sA exS) 0) (nth 1 (sA exS) 0) (nth 0 (sU exS) 0) (nth 1 (sU exS) 0) (nth 0 (sG exS) 0) (nth 1 (sG exS) 0).
Proof.
  split; [|split].
  - unfold smo_inv. rewrite exS_qmat.
    split; [reflexivity|]. split; [reflexivity|]. split; [reflexivity|]. split; [reflexivity|]. split; [reflexivity|].
    split; [exact (proj1 exS_hypotheses)|].
    split; [split; [reflexivity|repeat constructor]|].
    split.
    { intros u v Hu Hv. destruct u as [|a [|b [|]]]; try discriminate. destruct v as [|c [|d [|]]]; try discriminate.
      unfold mvR; simpl. ring. }
    split.
    { intros v Hv. destruct v as [|a [|b [|]]]; try discriminate. unfold quadR, mvR; simpl. pose proof (Rle_0_sqr (a + b)) as H; unfold Rsqr in H. nra. }
    split.
    { unfold grad_ok. rewrite exS_qmat. unfold exS, mvR, vaddR; simpl. f_equal; [ring|f_equal; ring]. }
    intros [|[|k]] Hk; try lia; rewrite ?exS_qmat; unfold selfd, ent, exS, exP, mk_problem, diag, nthF; simpl; reflexivity.
  - unfold valid_pair; simpl. repeat split; lia.
  - simpl. left. repeat split; lra.
Qed.

(** * the main loop without shrinking is a run of updates *)
Lemma upd_Nact_id (s : state (F := R)) : sNact s = length (sA s) -> upd_Nact s (ntotal s) = s.
Proof. destruct s; unfold upd_Nact, ntotal; simpl. intros ->. reflexivity. Qed.

Lemma reconstruct_gradient_id (P : problem (F := R)) s : sNact s = length (sA s) -> reconstruct_gradient oR P s = s.
Proof. intros H. unfold reconstruct_gradient, ntotal. rewrite H, Nat.eqb_refl. reflexivity. Qed.

Lemma smo_loop_descent_l : forall inf tiny n (P : problem (F := R)) fuel s iter c s' it,
  0 < tiny -> pShrinking P = false -> smo_inv n P s ->
  (forall st i j, smo_inv n P st -> select oR inf tiny P st = Some (i, j) -> valid_pair n (i, j)) ->
  smo_loop oR inf tiny fuel P s iter c = Done s' it ->
  smo_inv n P s' /\ dual_obj P s' <= dual_obj P s.
Proof.
  intros inf tiny n P fuel. induction fuel as [|f IH]; intros s iter c s' it Htiny Hsh Inv Hsel H.
  - discriminate.
  - cbn [smo_loop] in H. rewrite Hsh, andb_false_r in H.
    assert (HN : sNact s = length (sA s)).
    { destruct Inv as [LA [_ [_ [_ [HN _]]]]]. congruence. }
    destruct (select oR inf tiny P s) as [[i j]|] eqn:Es.
    + pose proof (Hsel s i j Inv Es) as Hv.
      destruct (smo_inv_update_l tiny n P s (i, j) Htiny Inv Hv) as [Inv' D]. cbn [fst snd] in Inv', D.
      destruct (IH _ _ _ _ _ Htiny Hsh Inv' Hsel H) as [Inv'' D'].
      split; [exact Inv''|lra].
    + rewrite (reconstruct_gradient_id P s HN) in H. rewrite (upd_Nact_id s HN) in H. rewrite Es in H.
      injection H as <- _. split; [exact Inv|lra].
Qed.

(** * working-set selection returns valid pairs *)
Lemma fold_left_inv {A B} (f : A -> B -> A) (I : A -> Prop) (l : list B) : forall a,
  I a -> (forall a e, In e l -> I a -> I (f a e)) -> I (fold_left f l a).
Proof.
  induction l as [|x l IH]; intros a Ha Hs; simpl; [exact Ha|].
  apply IH; [apply Hs; [left; reflexivity|exact Ha]|].
  intros a' e He. apply Hs. right; exact He.
Qed.

Lemma in_firstn_in {A} (l : list A) : forall m x, In x (firstn m l) -> In x l.
Proof.
  induction l as [|y l IH]; intros [|m] x H; simpl in *; try contradiction.
  destruct H as [H|H]; [left; exact H|right; exact (IH m x H)].
Qed.

Lemma combine_seq_fun {X} (L : list X) : forall n a k x x',
  In (k, x) (combine (seq a n) L) -> In (k, x') (combine (seq a n) L) -> x = x'.
Proof.
  induction L as [|y L IH]; intros [|n] a k x x' H H'; simpl in *; try contradiction.
  destruct H as [H|H]; destruct H' as [H'|H'].
  - congruence.
  - injection H as <- _. apply in_combine_l in H'. apply in_seq in H'. lia.
  - injection H' as <- _. apply in_combine_l in H. apply in_seq in H. lia.
  - exact (IH n (S a) k x x' H H').
Qed.

Lemma view_fun (s : state (F := R)) k x x' : In (k, x) (view s) -> In (k, x') (view s) -> x = x'.
Proof.
  unfold view, view_all. intros H H'. apply in_firstn_in in H. apply in_firstn_in in H'.
  exact (combine_seq_fun _ _ _ _ _ _ H H').
Qed.

Lemma view_lt (s : state (F := R)) k x : In (k, x) (view s) -> (k < length (sA s))%nat.
Proof.
  unfold view, view_all, ntotal. intros H. apply in_firstn_in in H. apply in_combine_l in H. apply in_seq in H. lia.
Qed.

(* the running maximum of max_violating_pair carries the index of an active position and the value that position has *)
Definition gm_ok (s : state (F := R)) (m : gidx (F := R)) : Prop :=
  forall i, snd m = Some i -> exists t a u g, In (i, (t, (a, (u, g)))) (view s) /\ fst m = (if t then - g else g).

Lemma mvp_ok inf (s : state (F := R)) : gm_ok s (fst (mvp oR inf s)).
Proof.
  unfold mvp.
  apply (fold_left_inv _ (fun acc => gm_ok s (fst acc))).
  - intros i H. discriminate.
  - intros [m1 m2] [i [t [a [u gi]]]] He Hm. cbn [fst] in *.
    destruct t; cbn [fst].
    + match goal with |- context [if ?c then _ else _] => destruct c end; [|exact Hm].
      intros i' E. injection E as <-. exists true, a, u, gi. split; [exact He|reflexivity].
    + match goal with |- context [if ?c then _ else _] => destruct c end; [|exact Hm].
      intros i' E. injection E as <-. exists false, a, u, gi. split; [exact He|reflexivity].
Qed.

Lemma select_std_valid_l : forall inf tiny n (P : problem (F := R)) s i j,
  length (sA s) = n -> select_std oR inf tiny P s = Some (i, j) -> valid_pair n (i, j).
Proof.
  intros inf tiny n P s i j LA H. unfold select_std in H.
  pose proof (mvp_ok inf s) as Hm.
  destruct (mvp oR inf s) as [gm1 gm2]. cbn [fst] in Hm.
  destruct (ltb oR (add oR (fst gm1) (fst gm2)) (pEps P)); [discriminate|].
  destruct (snd gm1) as [i0|] eqn:E1; [|discriminate].
  match type of H with match snd ?b with _ => _ end = _ => set (best := b) in * end.
  assert (Hb : forall j0, snd best = Some j0 -> exists t a u g, In (j0, (t, (a, (u, g)))) (view s) /\
            (if t then 0 < fst gm1 + g else 0 < fst gm1 - g)).
  { unfold best.
    apply (fold_left_inv _ (fun b : gidx => forall j0, snd b = Some j0 -> exists t a u g, In (j0, (t, (a, (u, g)))) (view s) /\
            (if t then 0 < fst gm1 + g else 0 < fst gm1 - g))).
    - intros j0 E. discriminate.
    - intros b [[j0 [t [a [u gj]]]] dij] He Hb. apply in_combine_l in He.
      destruct t.
      + destruct (negb (is_lower oR a)); [|exact Hb].
        destruct (gtb oR (add oR (fst gm1) gj) (zero oR)) eqn:Eg; [|exact Hb].
        match goal with |- context [if ?c then _ else _] => destruct c end; [|exact Hb].
        intros j1 E. injection E as <-. exists true, a, u, gj. split; [exact He|].
        unfold gtb in Eg. apply Rltb_true in Eg. exact Eg.
      + destruct (negb (is_upper oR a u)); [|exact Hb].
        destruct (gtb oR (sub oR (fst gm1) gj) (zero oR)) eqn:Eg; [|exact Hb].
        match goal with |- context [if ?c then _ else _] => destruct c end; [|exact Hb].
        intros j1 E. injection E as <-. exists false, a, u, gj. split; [exact He|].
        unfold gtb in Eg. apply Rltb_true in Eg. exact Eg. }
  destruct (snd best) as [j0|] eqn:E2; [|discriminate].
  injection H as <- <-.
  destruct (Hm i0 E1) as [t [a [u [g [Hi Hv]]]]].
  destruct (Hb j0 eq_refl) as [t' [a' [u' [g' [Hj Hg]]]]].
  unfold valid_pair; cbn [fst snd]. split; [|split].
  - intros ->. pose proof (view_fun s _ _ _ Hi Hj) as E. injection E as <- _ _ <-.
    rewrite Hv in Hg. destruct t; lra.
  - rewrite <- LA. exact (view_lt s _ _ Hi).
  - rewrite <- LA. exact (view_lt s _ _ Hj).
Qed.

(* max_violating_pair_nu: the maxima of the two classes carry a position of their own class *)
Definition gm_ok_cls (s : state (F := R)) (b : bool) (m : gidx (F := R)) : Prop :=
  forall i, snd m = Some i -> exists a u g, In (i, (b, (a, (u, g)))) (view s) /\ fst m = (if b then - g else g).

Lemma mvp_nu_ok inf (s : state (F := R)) :
  gm_ok_cls s true (fst (fst (mvp_nu oR inf s))) /\ gm_ok_cls s false (snd (fst (mvp_nu oR inf s))).
Proof.
  unfold mvp_nu.
  apply (fold_left_inv _ (fun acc : (gidx * gidx) * (gidx * gidx) =>
           gm_ok_cls s true (fst (fst acc)) /\ gm_ok_cls s false (snd (fst acc)))).
  - split; intros i H; discriminate.
  - intros [[m1 m2] [m3 m4]] [i [t [a [u gi]]]] He [H1 H2]. cbn [fst snd] in *.
    destruct t; cbn [fst snd]; (split; [|try exact H2]); try exact H1.
    + match goal with |- context [if ?c then _ else _] => destruct c end; [|exact H1].
      intros i' E. injection E as <-. exists a, u, gi. split; [exact He|reflexivity].
    + match goal with |- context [if ?c then _ else _] => destruct c end; [|exact H2].
      intros i' E. injection E as <-. exists a, u, gi. split; [exact He|reflexivity].
Qed.

Lemma select_nu_valid_l : forall inf tiny n (P : problem (F := R)) s i j,
  length (sA s) = n -> select_nu oR inf tiny P s = Some (i, j) -> valid_pair n (i, j).
Proof.
  intros inf tiny n P s i j LA H. unfold select_nu in H.
  pose proof (mvp_nu_ok inf s) as Hm.
  destruct (mvp_nu oR inf s) as [[gp1 gn1] [gp2 gn2]]. cbn [fst snd] in Hm. destruct Hm as [Hp Hn].
  match type of H with (if _ then _ else match snd ?b with _ => _ end) = _ => set (best := b) in * end.
  assert (Hb : forall j0, snd best = Some j0 -> exists t a u g, In (j0, (t, (a, (u, g)))) (view s) /\
            (if t then 0 < fst gp1 + g else 0 < fst gn1 - g)).
  { unfold best.
    apply (fold_left_inv _ (fun b : gidx => forall j0, snd b = Some j0 -> exists t a u g, In (j0, (t, (a, (u, g)))) (view s) /\
            (if t then 0 < fst gp1 + g else 0 < fst gn1 - g))).
    - intros j0 E. discriminate.
    - intros b [j0 [t [a [u gj]]]] He Hb.
      destruct t.
      + destruct (negb (is_lower oR a)); [|exact Hb].
        destruct (gtb oR (add oR (fst gp1) gj) (zero oR)) eqn:Eg; [|exact Hb].
        destruct (snd gp1) as [ip|]; [|exact Hb].
        match goal with |- context [if ?c then _ else _] => destruct c end; [|exact Hb].
        intros j1 E. injection E as <-. exists true, a, u, gj. split; [exact He|].
        unfold gtb in Eg. apply Rltb_true in Eg. exact Eg.
      + destruct (negb (is_upper oR a u)); [|exact Hb].
        destruct (gtb oR (sub oR (fst gn1) gj) (zero oR)) eqn:Eg; [|exact Hb].
        destruct (snd gn1) as [ineg|]; [|exact Hb].
        match goal with |- context [if ?c then _ else _] => destruct c end; [|exact Hb].
        intros j1 E. injection E as <-. exists false, a, u, gj. split; [exact He|].
        unfold gtb in Eg. apply Rltb_true in Eg. exact Eg. }
  match type of H with (if ?c then _ else _) = _ => destruct c end; [discriminate|].
  destruct (snd best) as [j0|] eqn:E2; [|discriminate].
  destruct (Hb j0 eq_refl) as [t' [a' [u' [g' [Hj Hg]]]]].
  assert (Lj : (j0 < n)%nat) by (rewrite <- LA; exact (view_lt s _ _ Hj)).
  destruct (nth j0 (sT s) true).
  - destruct (snd gp1) as [i0|] eqn:E1; [|discriminate]. injection H as <- <-.
    destruct (Hp i0 E1) as [a [u [g [Hi Hv]]]].
    unfold valid_pair; cbn [fst snd]. split; [|split; [rewrite <- LA; exact (view_lt s _ _ Hi)|exact Lj]].
    intros ->. pose proof (view_fun s _ _ _ Hi Hj) as E. injection E as <- _ _ <-.
    rewrite Hv in Hg. lra.
  - destruct (snd gn1) as [i0|] eqn:E1; [|discriminate]. injection H as <- <-.
    destruct (Hn i0 E1) as [a [u [g [Hi Hv]]]].
    unfold valid_pair; cbn [fst snd]. split; [|split; [rewrite <- LA; exact (view_lt s _ _ Hi)|exact Lj]].
    intros ->. pose proof (view_fun s _ _ _ Hi Hj) as E. injection E as <- _ _ <-.
    rewrite Hv in Hg. lra.
Qed.

Lemma select_valid_l : forall inf tiny n (P : problem (F := R)) s i j,
  length (sA s) = n -> select oR inf tiny P s = Some (i, j) -> valid_pair n (i, j).
Proof.
  intros inf tiny n P s i j LA H. unfold select in H. destruct (pNu P).
  - exact (select_nu_valid_l inf tiny n P s i j LA H).
  - exact (select_std_valid_l inf tiny n P s i j LA H).
Qed.

Lemma select_valid_inv_l : forall inf tiny n (P : problem (F := R)) s i j,
  smo_inv n P s -> select oR inf tiny P s = Some (i, j) -> valid_pair n (i, j).
Proof. intros inf tiny n P s i j Inv. exact (select_valid_l inf tiny n P s i j (proj1 Inv)). Qed.

(** * the main loop without shrinking, with no hypothesis on the selection rule *)
Lemma smo_loop_descent_full_l : forall inf tiny n (P : problem (F := R)) fuel s iter c s' it,
  0 < tiny -> pShrinking P = false -> smo_inv n P s ->
  smo_loop oR inf tiny fuel P s iter c = Done s' it ->
  smo_inv n P s' /\ dual_obj P s' <= dual_obj P s.
Proof.
  intros inf tiny n P fuel s iter c s' it Htiny Hsh Inv H.
  apply (smo_loop_descent_l inf tiny n P fuel s iter c s' it Htiny Hsh Inv); [|exact H].
  intros st i j Inv' Hs. apply (select_valid_l inf tiny n P st i j); [|exact Hs].
  destruct Inv' as [LA _]. exact LA.
Qed.

(* non-vacuity: the start state of the two-point problem satisfies the hypotheses of both lemmas (exS_smo_inv), so
   whatever pair its selection returns is valid *)
Example exS_select_valid : forall inf tiny i j,
  select oR inf tiny exP exS = Some (i, j) -> valid_pair 2 (i, j).
Proof. intros inf tiny i j H. exact (select_valid_l inf tiny 2%nat exP exS i j eq_refl H). Qed.
