(** C13 - lemmas: what an accepted run case certifies.  [oracle_case c = 0] (C13/Corr.v, the value every run
    computes by vm_compute for every fit) implies the hypotheses of the certified optimality theorems of
    C13/ProofsCert.v - checker, exact symmetry, positive semi-definiteness certificate, shapes - so that the
    optimality statement holds for the case with NO hypothesis left about the data or the implementation's
    output.  The coefficients judged are the published ones clamped to their box ([judged_alpha]; bit 1 of the
    oracle bounds the clamping by 2^-50 relative to the bound). *)
From Coq Require Import List NArith ZArith QArith Qreals Reals Lra Lia Bool Floats.
From LinfaVerif Require Import Common.Num Common.Run Common.QF Common.LDL C13.Model C13.Spec C13.Check C13.PsdCert C13.Corr
  C13.Proofs C13.ProofsNu C13.ProofsCert.
Import ListNotations.

Lemma flag_zero b k : k <> 0%N -> flag b k = 0%N -> b = true.
Proof. intros H E. destruct b; [reflexivity|]. unfold flag in E. congruence. Qed.

Lemma fold_lor_zero : forall l acc, fold_left N.lor l acc = 0%N -> acc = 0%N /\ Forall (fun x => x = 0%N) l.
Proof.
  induction l as [|x l IH]; intros acc H; simpl in H.
  - split; auto.
  - apply IH in H as [H1 H2]. apply N.lor_eq_0_iff in H1 as [Ha Hx]. split; auto.
Qed.
Lemma lorl_zero l : lorl l = 0%N -> Forall (fun x => x = 0%N) l.
Proof. intros H. apply fold_lor_zero in H. tauto. Qed.

Lemma oracle_zero_parts c : c_panic c = false -> oracle_case c = 0%N ->
  oracle_solution c = 0%N /\
  length (c_alpha c) = length (c_X c) /\ case_shape c = true /\ symb (length (c_X c)) (qm (c_K c)) = true /\
  (Nat.ltb psd_limit (length (c_X c)) = false ->
     psd_cert (length (c_X c)) (qm (c_K c)) (qm (c_L c)) (f64_Q (c_tolpsd c)) = true).
Proof.
  intros Hp H. unfold oracle_case in H. rewrite Hp in H.
  cbv zeta in H.
  match type of H with (if negb ?F then _ else _) = _ => destruct F; cbn [negb] in H; [|discriminate] end.
  apply lorl_zero in H.
  inversion H as [|? ? H1 T1]; subst. inversion T1 as [|? ? H2 T2]; subst. inversion T2 as [|? ? H3 T3]; subst.
  clear H T1 T2 T3.
  apply flag_zero in H2; [|discriminate]. apply andb_true_iff in H2 as [H2a H2b]. apply andb_true_iff in H2a as [H2a H2c]. apply Nat.eqb_eq in H2a.
  apply flag_zero in H3; [|discriminate].
  repeat split; auto.
  intros Hl. rewrite Hl in H3. exact H3.
Qed.

Lemma clamp_list_length lo hi a : length lo = length a -> length hi = length a ->
  length (clamp_list lo hi a) = length a.
Proof. intros H1 H2. unfold clamp_list. rewrite map_length, !combine_length. lia. Qed.

Local Open Scope R_scope.

(** C-SVC *)
Lemma oracle_solution_csvc c : c_kind c = CSvc -> oracle_solution c = 0%N ->
  svc_ok (qm (c_K c)) (c_yb c) (f64_Q (c_par1 c)) (f64_Q (c_par2 c)) (judged_alpha c)
         (f64_Q (c_rho c)) (f64_Q (c_tolk c)) (f64_Q (c_toleq c)) = true.
Proof.
  intros Hk H. unfold oracle_solution in H. unfold judged_alpha, published_box.
  unfold box_of in *. rewrite Hk in *. cbv beta iota zeta in H. cbn [fst snd].
  apply N.lor_eq_0_iff in H as [_ H]. apply lorl_zero in H.
  inversion H as [|? ? H1 T1]; subst. inversion T1 as [|? ? H2 T2]; subst.
  apply flag_zero in H1; [|discriminate]. apply flag_zero in H2; [|discriminate].
  unfold svc_ok. rewrite H1, H2. reflexivity.
Qed.

Lemma ltb_limit n : (n <= psd_limit)%nat -> Nat.ltb psd_limit n = false.
Proof. intros H. apply Nat.ltb_ge. exact H. Qed.

Theorem csvc_run_certified_l : forall c a',
  c_panic c = false -> c_kind c = CSvc -> oracle_case c = 0%N -> (length (c_X c) <= psd_limit)%nat ->
  length a' = length (c_X c) -> 0 <= Q2R (f64_Q (c_tolk c)) ->
  in_box (svc_lo (Q2R (f64_Q (c_par2 c))) (c_yb c)) (svc_hi (Q2R (f64_Q (c_par1 c))) (c_yb c)) a' ->
  Rsum a' = Rsum (map Q2R (judged_alpha c)) ->
  svc_obj (mQ (qm (c_K c))) (c_yb c) a' >= svc_obj (mQ (qm (c_K c))) (c_yb c) (map Q2R (judged_alpha c))
     - Q2R (f64_Q (c_tolk c)) * l1R (vsubR a' (map Q2R (judged_alpha c)))
     - Q2R (f64_Q (c_tolpsd c)) / 2 * sqnorm (vsubR a' (map Q2R (judged_alpha c))).
Proof.
  intros c a' Hp Hk H0 Hn La' He Hb Hs.
  destruct (oracle_zero_parts c Hp H0) as (Hsol & Lal & Hsh & Hsym & Hpsd).
  specialize (Hpsd (ltb_limit _ Hn)).
  unfold case_shape in Hsh. rewrite Hk in Hsh. apply Nat.eqb_eq in Hsh.
  apply (svc_ok_cert_l (length (c_X c)) (qm (c_K c)) (qm (c_L c)) (c_yb c) (f64_Q (c_par1 c)) (f64_Q (c_par2 c))
           (judged_alpha c) (f64_Q (c_rho c)) (f64_Q (c_tolk c)) (f64_Q (c_toleq c)) (f64_Q (c_tolpsd c)) a'); auto.
  - apply oracle_solution_csvc; assumption.
  - unfold judged_alpha, published_box, box_of. rewrite Hk. cbn [fst snd].
    rewrite clamp_list_length; unfold qv; rewrite ?map_length; congruence.
Qed.

(** one-class *)
Lemma oracle_solution_oc c : c_kind c = OneClass -> oracle_solution c = 0%N ->
  oneclass_ok (qm (c_K c)) (f64_Q (c_par1 c) * inject_Z (Z.of_nat (length (c_X c))))%Q (judged_alpha c)
         (f64_Q (c_rho c)) (f64_Q (c_tolk c)) (f64_Q (c_toleq c)) = true.
Proof.
  intros Hk H. unfold oracle_solution in H. unfold judged_alpha, published_box.
  unfold box_of in *. rewrite Hk in *. cbv beta iota zeta in H. cbn [fst snd].
  apply N.lor_eq_0_iff in H as [_ H].
  apply flag_zero in H; [|discriminate]. exact H.
Qed.

Theorem oneclass_run_certified_l : forall c a',
  c_panic c = false -> c_kind c = OneClass -> oracle_case c = 0%N -> (length (c_X c) <= psd_limit)%nat ->
  length a' = length (c_X c) -> 0 <= Q2R (f64_Q (c_tolk c)) ->
  Forall (fun x => 0 <= x <= 1) a' -> Rsum a' = Rsum (map Q2R (judged_alpha c)) ->
  / 2 * quadR (mQ (qm (c_K c))) a' >= / 2 * quadR (mQ (qm (c_K c))) (map Q2R (judged_alpha c))
     - Q2R (f64_Q (c_tolk c)) * l1R (vsubR a' (map Q2R (judged_alpha c)))
     - Q2R (f64_Q (c_tolpsd c)) / 2 * sqnorm (vsubR a' (map Q2R (judged_alpha c))).
Proof.
  intros c a' Hp Hk H0 Hn La' He Hb Hs.
  destruct (oracle_zero_parts c Hp H0) as (Hsol & Lal & Hsh & Hsym & Hpsd).
  specialize (Hpsd (ltb_limit _ Hn)).
  apply (oneclass_ok_cert_l (length (c_X c)) (qm (c_K c)) (qm (c_L c)) _ (judged_alpha c) (f64_Q (c_rho c))
           (f64_Q (c_tolk c)) (f64_Q (c_toleq c)) (f64_Q (c_tolpsd c)) a' (oracle_solution_oc c Hk Hsol)); auto.
  unfold judged_alpha, published_box, box_of. rewrite Hk. cbn [fst snd].
  rewrite clamp_list_length; unfold qv; rewrite ?map_length, ?repeat_length; congruence.
Qed.

(** epsilon-SVR *)
Lemma oracle_solution_svr c : c_kind c = EpsSvr -> oracle_solution c = 0%N ->
  svr_ok (qm (c_K c)) (qv (c_yr c)) (f64_Q (c_par1 c)) (f64_Q (c_par2 c)) (judged_alpha c)
         (f64_Q (c_rho c)) (f64_Q (c_tolk c)) (f64_Q (c_toleq c)) = true.
Proof.
  intros Hk H. unfold oracle_solution in H. unfold judged_alpha, published_box.
  unfold box_of in *. rewrite Hk in *. cbv beta iota zeta in H. cbn [fst snd].
  apply N.lor_eq_0_iff in H as [_ H]. apply lorl_zero in H.
  inversion H as [|? ? H1 T1]; subst. inversion T1 as [|? ? H2 T2]; subst.
  apply flag_zero in H1; [|discriminate]. apply flag_zero in H2; [|discriminate].
  unfold svr_ok. rewrite H1, H2. reflexivity.
Qed.

Theorem epssvr_run_certified_l : forall c b',
  c_panic c = false -> c_kind c = EpsSvr -> oracle_case c = 0%N -> (length (c_X c) <= psd_limit)%nat ->
  length b' = length (c_X c) -> 0 <= Q2R (f64_Q (c_tolk c)) -> 0 <= Q2R (f64_Q (c_par2 c)) -> 0 < Q2R (f64_Q (c_par1 c)) ->
  Forall (fun x => - Q2R (f64_Q (c_par1 c)) <= x <= Q2R (f64_Q (c_par1 c))) b' ->
  Rsum b' = Rsum (map Q2R (judged_alpha c)) ->
  svr_obj (mQ (qm (c_K c))) (map Q2R (qv (c_yr c))) (Q2R (f64_Q (c_par2 c))) b'
    >= svr_obj (mQ (qm (c_K c))) (map Q2R (qv (c_yr c))) (Q2R (f64_Q (c_par2 c))) (map Q2R (judged_alpha c))
     - Q2R (f64_Q (c_tolk c)) * l1R (vsubR b' (map Q2R (judged_alpha c)))
     - Q2R (f64_Q (c_tolpsd c)) / 2 * sqnorm (vsubR b' (map Q2R (judged_alpha c))).
Proof.
  intros c b' Hp Hk H0 Hn Lb' He Hpp Hc Hb Hs.
  destruct (oracle_zero_parts c Hp H0) as (Hsol & Lal & Hsh & Hsym & Hpsd).
  specialize (Hpsd (ltb_limit _ Hn)).
  unfold case_shape in Hsh. rewrite Hk in Hsh. apply Nat.eqb_eq in Hsh.
  apply (svr_ok_cert_l (length (c_X c)) (qm (c_K c)) (qm (c_L c)) (qv (c_yr c)) (f64_Q (c_par1 c)) (f64_Q (c_par2 c))
           (judged_alpha c) (f64_Q (c_rho c)) (f64_Q (c_tolk c)) (f64_Q (c_toleq c)) (f64_Q (c_tolpsd c)) b'
           (oracle_solution_svr c Hk Hsol)); auto.
  - unfold qv. rewrite map_length. exact Hsh.
  - unfold judged_alpha, published_box, box_of. rewrite Hk. cbn [fst snd].
    rewrite clamp_list_length; unfold qv; rewrite ?map_length, ?repeat_length; congruence.
Qed.

(** nu-SVC *)
Lemma oracle_solution_nusvc c : c_kind c = NuSvc -> oracle_solution c = 0%N ->
  exists r, c_r c = Some r /\ PrimFloat.ltb 0%float r = true /\
  let cb := f64_Q (PrimFloat.div 1%float r) in let rq := f64_Q r in
  nusvc_ok (qm (c_K c)) (c_yb c) cb (f64_Q (c_par1 c) * inject_Z (Z.of_nat (length (c_X c))))%Q rq (judged_alpha c)
           (f64_Q (c_rho c)) (f64_Q (c_tolk c) / rq)%Q (f64_Q (c_toleq c)) (f64_Q (c_toleq c) * (1 + rq))%Q = true.
Proof.
  intros Hk H. unfold oracle_solution in H. unfold judged_alpha, published_box.
  unfold box_of in *. rewrite Hk in *.
  destruct (c_r c) as [r|] eqn:Er.
  2:{ cbv beta iota zeta in H. apply N.lor_eq_0_iff in H as [_ H]. discriminate. }
  cbv beta iota zeta in H. cbn [fst snd].
  apply N.lor_eq_0_iff in H as [_ H].
  destruct (PrimFloat.ltb 0 r && is_finite r)%bool eqn:Ec; cbn [negb] in H; [|discriminate].
  apply andb_true_iff in Ec as [Ec _].
  apply lorl_zero in H.
  inversion H as [|? ? H1 T1]; subst. inversion T1 as [|? ? H2 T2]; subst. inversion T2 as [|? ? H3 T3]; subst.
  apply flag_zero in H1; [|discriminate]. apply flag_zero in H2; [|discriminate]. apply flag_zero in H3; [|discriminate].
  exists r. split; [reflexivity|]. split; [exact Ec|].
  cbv zeta. unfold nusvc_ok. rewrite H1, H2, H3. reflexivity.
Qed.

Theorem nusvc_run_certified_l : forall c a',
  c_panic c = false -> c_kind c = NuSvc -> oracle_case c = 0%N -> (length (c_X c) <= psd_limit)%nat ->
  length a' = length (c_X c) ->
  exists r, c_r c = Some r /\
  let cb := Q2R (f64_Q (PrimFloat.div 1%float r)) in
  let e := Q2R (f64_Q (c_tolk c) / f64_Q r)%Q in
  (0 <= e ->
   in_box (svc_lo cb (c_yb c)) (svc_hi cb (c_yb c)) a' ->
   Rsum a' = Rsum (map Q2R (judged_alpha c)) -> l1R a' = l1R (map Q2R (judged_alpha c)) ->
   nusvc_obj (mQ (qm (c_K c))) a' >= nusvc_obj (mQ (qm (c_K c))) (map Q2R (judged_alpha c))
     - e * l1R (vsubR a' (map Q2R (judged_alpha c)))
     - Q2R (f64_Q (c_tolpsd c)) / 2 * sqnorm (vsubR a' (map Q2R (judged_alpha c)))).
Proof.
  intros c a' Hp Hk H0 Hn La'.
  destruct (oracle_zero_parts c Hp H0) as (Hsol & Lal & Hsh & Hsym & Hpsd).
  specialize (Hpsd (ltb_limit _ Hn)).
  unfold case_shape in Hsh. rewrite Hk in Hsh. apply Nat.eqb_eq in Hsh.
  destruct (oracle_solution_nusvc c Hk Hsol) as (r & Er & _ & Hok). cbv zeta in Hok.
  exists r. split; [exact Er|]. cbv zeta. intros He Hb Hs Hl.
  apply (nusvc_ok_cert_l (length (c_X c)) (qm (c_K c)) (qm (c_L c)) (c_yb c) _ _ _ (judged_alpha c) _ _ _ _
           (f64_Q (c_tolpsd c)) a' Hok); auto.
  unfold judged_alpha, published_box, box_of. rewrite Hk, Er. cbn [fst snd].
  rewrite clamp_list_length; unfold qv; rewrite ?map_length, ?repeat_length; congruence.
Qed.

(** * non-vacuity: a case of the run of 2026-09-29 (stream "small", id 7: three points on a line, C = (2, 1),
    linear kernel, shrinking) is accepted by the oracle *)
Definition exCase : case :=
  {| c_id := 7%N; c_kind := CSvc; c_kernel := 0%N; c_kp1 := (0)%float; c_kp2 := (0)%float; c_X := ([[(-0x1p+0)]; [0]; [0x1p-1]])%float; c_yb := [false; true; false]; c_yr := ([0; 0; 0])%float; c_par1 := (0x1p+1)%float; c_par2 := (0x1p+0)%float; c_eps := (0x14f8b588e368f1p-69)%float; c_shrink := true; c_nt := 0%N; c_replay := true; c_K := ([[0x1p+0; 0; (-0x1p-1)]; [0; 0; 0]; [(-0x1p-1); 0; 0x1p-2]])%float; c_KA := []; c_panic := false; c_alpha := ([(-0x1p+0); 0x1p+1; (-0x1p+0)])%float; c_rho := ((-0x1p-2))%float; c_r := None; c_obj := ((-0x1fp-3))%float; c_iter := 2%N; c_w := ([0x1p-1])%float; c_sv := []; c_nsupport := 3%N; c_Q := ([[0x1p-2]; [(-0x3p+0)]; [(-0x1p+0)]])%float; c_QK := ([[(-0x1p-2); 0; 0x1p-3]; [0x3p+0; 0; (-0x3p-1)]; [0x1p+0; 0; (-0x1p-1)]])%float; c_QA := []; c_ws := ([0x1p-3; (-0x3p-1); (-0x1p-1)])%float; c_dec := []; c_lab := [true; false; false]; c_pr := []; c_tolk := (0x14f8bac8e368f1p-68)%float; c_toleq := (0x1cf876ccdf6cd9p-89)%float; c_told := (0x350e1p-50)%float; c_tolpsd := (0x3p-45)%float; c_tws := ([(-0x1p-1); 0; 0x1p-2])%float; c_tout := []; c_tlab := [false; true; true]; c_L := ([[0x800000000003p-47; 0; 0]; [0; 0x6ed9eba161p-61; 0]; [(-0x7ffffffffffdp-48); 0; 0x7bef7ac53dp-61]])%float |}.
Example exCase_accepted :
  c_panic exCase = false /\ c_kind exCase = CSvc /\ run_case exCase = (7%N, (0%N, 0%N)) /\
  (length (c_X exCase) <= psd_limit)%nat.
Proof. vm_compute. repeat split; try reflexivity. repeat constructor. Qed.
