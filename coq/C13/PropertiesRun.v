(** C13 - property theorems: what ONE accepted run case certifies (statements only; proofs in C13/ProofsRun.v).
    [oracle_case c] (C13/Corr.v) is the value every run computes by vm_compute for every fit [c] (input + the
    implementation's published output); 0 means that no conjunct of the property oracle failed.  The theorems say
    that an accepted case of at most [psd_limit] = 130 samples has epsilon-optimal published coefficients, with NO
    hypothesis left about the kernel matrix or the output: the checker (svc_ok / oneclass_ok / svr_ok / nusvc_ok), the
    exact symmetry check, the positive semi-definiteness certificate and the shape checks are all conjuncts of the
    oracle.  [judged_alpha c] are the published coefficients clamped to their box (oracle bit 1 bounds the clamping by
    2^-50 relative to the bound); e = c_tolk c is the KKT tolerance 2 eps_solver + rounding allowance the harness
    sends, dq = c_tolpsd c = n max|K| 2^-45 the shift of the certificate.  nu-SVR has no such theorem: the
    implementation ignores nu there (known finding F32). *)
From Coq Require Import List NArith ZArith QArith Qreals Reals Floats.
From LinfaVerif Require Import Common.QF C13.Model C13.Spec C13.Check C13.Corr C13.Proofs C13.ProofsRun.
Import ListNotations.
Local Open Scope R_scope.

(** C-SVC: no point a' of the box with the same sum has a dual objective 1/2 a^T K a - sum_i y_i a_i better than the
    published coefficients by more than e |a' - a|_1 + dq/2 |a' - a|^2 *)
Theorem csvc_run_certified : forall c a',
  c_panic c = false -> c_kind c = CSvc -> oracle_case c = 0%N -> (length (c_X c) <= psd_limit)%nat ->
  length a' = length (c_X c) -> 0 <= Q2R (f64_Q (c_tolk c)) ->
  in_box (svc_lo (Q2R (f64_Q (c_par2 c))) (c_yb c)) (svc_hi (Q2R (f64_Q (c_par1 c))) (c_yb c)) a' ->
  Rsum a' = Rsum (map Q2R (judged_alpha c)) ->
  svc_obj (mQ (qm (c_K c))) (c_yb c) a' >= svc_obj (mQ (qm (c_K c))) (c_yb c) (map Q2R (judged_alpha c))
     - Q2R (f64_Q (c_tolk c)) * l1R (vsubR a' (map Q2R (judged_alpha c)))
     - Q2R (f64_Q (c_tolpsd c)) / 2 * sqnorm (vsubR a' (map Q2R (judged_alpha c))).
Proof. exact csvc_run_certified_l. Qed.

(** one-class: E(a) = 1/2 a^T K a over 0 <= a_i <= 1 with the same sum *)
Theorem oneclass_run_certified : forall c a',
  c_panic c = false -> c_kind c = OneClass -> oracle_case c = 0%N -> (length (c_X c) <= psd_limit)%nat ->
  length a' = length (c_X c) -> 0 <= Q2R (f64_Q (c_tolk c)) ->
  Forall (fun x => 0 <= x <= 1) a' -> Rsum a' = Rsum (map Q2R (judged_alpha c)) ->
  / 2 * quadR (mQ (qm (c_K c))) a' >= / 2 * quadR (mQ (qm (c_K c))) (map Q2R (judged_alpha c))
     - Q2R (f64_Q (c_tolk c)) * l1R (vsubR a' (map Q2R (judged_alpha c)))
     - Q2R (f64_Q (c_tolpsd c)) / 2 * sqnorm (vsubR a' (map Q2R (judged_alpha c))).
Proof. exact oneclass_run_certified_l. Qed.

(** epsilon-SVR (c = c_par1, loss epsilon p = c_par2): E(b) = 1/2 b^T K b - y^T b + p sum_i |b_i| over |b_i| <= c *)
Theorem epssvr_run_certified : forall c b',
  c_panic c = false -> c_kind c = EpsSvr -> oracle_case c = 0%N -> (length (c_X c) <= psd_limit)%nat ->
  length b' = length (c_X c) -> 0 <= Q2R (f64_Q (c_tolk c)) -> 0 <= Q2R (f64_Q (c_par2 c)) -> 0 < Q2R (f64_Q (c_par1 c)) ->
  Forall (fun x => - Q2R (f64_Q (c_par1 c)) <= x <= Q2R (f64_Q (c_par1 c))) b' ->
  Rsum b' = Rsum (map Q2R (judged_alpha c)) ->
  svr_obj (mQ (qm (c_K c))) (map Q2R (qv (c_yr c))) (Q2R (f64_Q (c_par2 c))) b'
    >= svr_obj (mQ (qm (c_K c))) (map Q2R (qv (c_yr c))) (Q2R (f64_Q (c_par2 c))) (map Q2R (judged_alpha c))
     - Q2R (f64_Q (c_tolk c)) * l1R (vsubR b' (map Q2R (judged_alpha c)))
     - Q2R (f64_Q (c_tolpsd c)) / 2 * sqnorm (vsubR b' (map Q2R (judged_alpha c))).
Proof. exact epssvr_run_certified_l. Qed.

(** nu-SVC: an accepted case publishes a multiplier r > 0; with cb = 1/r (as the implementation computes it) and the
    tolerance e = c_tolk / r, no point of the class-signed box [0, cb] with the same sum_i a_i and the same
    sum_i |a_i| has a smaller 1/2 a^T K a *)
Theorem nusvc_run_certified : forall c a',
  c_panic c = false -> c_kind c = NuSvc -> oracle_case c = 0%N -> (length (c_X c) <= psd_limit)%nat ->
  length a' = length (c_X c) ->
  exists r, c_r c = Some r /\
  let cb := Q2R (f64_Q (PrimFloat.div 1%float r)) in
  let e := Q2R (f64_Q (c_tolk c) / f64_Q r)%Q in
  (0 <= e ->
   in_box (svc_lo cb (c_yb c)) (svc_hi cb (c_yb c)) a' ->
   Rsum a' = Rsum (map Q2R (judged_alpha c)) -> l1R a' = l1R (map Q2R (judged_alpha c)) ->
   nusvc_obj (mQ (qm (c_K c))) a' >= nusvc_obj (mQ (qm (c_K c))) (map Q2R (judged_alpha c))
     - e * l1R (vsubR a' (map Q2R (judged_alpha c)))
     - Q2R (f64_Q (c_tolpsd c)) / 2 * sqnorm (vsubR a' (map Q2R (judged_alpha c)))).
Proof. exact nusvc_run_certified_l. Qed.
