(** C13 - executable model of linfa-svm (solver_smo.rs: SolverState::{new, swap, reconstruct_gradient,
    update, max_violating_pair(_nu), select_working_set(_nu), should_shrunk(_nu), do_shrinking(_nu),
    calculate_rho(_nu), solve}; permutable_kernel.rs; classification.rs fit_c / fit_nu / fit_one_class;
    regression.rs fit_epsilon / fit_nu; lib.rs Svm::weighted_sum / nsupport; linfa-kernel
    KernelMethod::distance up to its exp / powf call).  A transliteration of the code after the repairs
    432f285 (F10, shrinking; design-notes/fixes/C13_F10.diff) and edbd656 (F31, nu-SVC linear hyperplane;
    C13_F25.diff), de2a01f / 4625418 (F-C13-L1 targets in logical order - nothing to model; F-C13-S1 nu-SVC support-vector selection after the division by r); nu-SVR is modelled as it is (nu_constraint = false, known finding F32).  Polymorphic in NumOps; run at B64_ops against the Rust f64 implementation bit for bit. *)
From Coq Require Import List NArith ZArith Bool.
From LinfaVerif Require Import Common.Num Common.NdSum.
Import ListNotations.

Fixpoint setn {A} (l : list A) (k : nat) (v : A) : list A :=
  match l, k with
  | [], _ => []
  | _ :: t, O => v :: t
  | a :: t, S k' => a :: setn t k' v
  end.

(* Vec::swap *)
Definition swapn {A} (d : A) (l : list A) (i j : nat) : list A :=
  setn (setn l i (nth j l d)) j (nth i l d).

Definition is_none {A} (x : option A) : bool := match x with None => true | Some _ => false end.

Inductive kind := CSvc | NuSvc | OneClass | EpsSvr | NuSvr.

Section SVM.
Context {F : Type} (o : NumOps F).
Context (inf : F).      (* F::infinity() *)
Context (tiny : F).     (* F::cast(1e-10) *)
Context (feps : F).     (* F::epsilon() *)

Notation "a + b" := (add o a b).
Notation "a - b" := (sub o a b).
Notation "a * b" := (mul o a b).
Notation "a / b" := (div o a b).
Notation "- a" := (opp o a).
Notation "0" := (zero o).
Notation "1" := (one o).

Definition two : F := 1 + 1.
Definition neg1 : F := opp o (one o).
Definition negz : F := opp o (zero o).
Definition ten : F := of_N o 10%N.
Definition hundred : F := of_N o 100%N.
Definition gtb (a b : F) : bool := ltb o b a.
Definition geb (a b : F) : bool := leb o b a.
(* f64::max / f64::min on non-NaN arguments *)
Definition fmax (a b : F) : F := if ltb o a b then b else a.
Definition fmin (a b : F) : F := if ltb o b a then b else a.
Definition nthF (l : list F) (i : nat) : F := nth i l 0.

(* Iterator::sum::<f64>() : a fold that starts from -0.0 (Rust >= 1.83) *)
Definition iter_sum (xs : list F) : F := fold_left (add o) xs negz.

Fixpoint map2 {A B C} (f : A -> B -> C) (a : list A) (b : list B) : list C :=
  match a, b with x :: a', y :: b' => f x y :: map2 f a' b' | _, _ => [] end.

(* apply f along the prefix of xs that ds covers, keep the rest *)
Fixpoint zipp {X} (f : F -> X -> F) (xs : list F) (ds : list X) : list F :=
  match xs, ds with
  | x :: xs', d :: ds' => f x d :: zipp f xs' ds'
  | _, _ => xs
  end.

(** * linfa-kernel: KernelMethod::distance *)
Definition k_linear (a b : list F) : F := usum o (map2 (mul o) a b).
Definition k_sqdist (a b : list F) : F := iter_sum (map2 (fun x y => (x - y) * (x - y)) a b).
(* argument handed to exp by the Gaussian kernel *)
Definition k_gauss_arg (e : F) (a b : list F) : F := (- (k_sqdist a b)) / e.
(* base handed to powf by the polynomial kernel *)
Definition k_poly_base (c : F) (a b : list F) : F := k_linear a b + c.

(** * solver_smo.rs *)
Record problem := {
  pK : list (list F);        (* dense kernel matrix *)
  pKdiag : list F;           (* kernel.diagonal() *)
  pBounds : list F;          (* bounds as passed to SolverState::new *)
  pEps : F;
  pShrinking : bool;
  pNu : bool;                (* nu_constraint *)
  pRows : list (list F);     (* dataset *)
  pLinear : bool             (* kernel.inner().is_linear() *)
}.

Record state := {
  sG : list F;               (* gradient *)
  sGbar : list F;            (* gradient_fixed *)
  sA : list F;               (* alpha[i].value *)
  sU : list F;               (* bounds / alpha[i].upper_bound (permuted together by swap) *)
  sSet : list nat;           (* active_set *)
  sNact : nat;               (* nactive *)
  sUnshrink : bool;
  sP : list F;               (* p *)
  sT : list bool;            (* targets *)
  sKi : list nat;            (* kernel.kernel_indices *)
  sKs : list bool;           (* kernel sign per position: targets[kernel_indices[pos]] resp. signs[pos] *)
  sR : F
}.

Definition upd_G s v := {| sG := v; sGbar := sGbar s; sA := sA s; sU := sU s; sSet := sSet s; sNact := sNact s;
  sUnshrink := sUnshrink s; sP := sP s; sT := sT s; sKi := sKi s; sKs := sKs s; sR := sR s |}.
Definition upd_Gbar s v := {| sG := sG s; sGbar := v; sA := sA s; sU := sU s; sSet := sSet s; sNact := sNact s;
  sUnshrink := sUnshrink s; sP := sP s; sT := sT s; sKi := sKi s; sKs := sKs s; sR := sR s |}.
Definition upd_A s v := {| sG := sG s; sGbar := sGbar s; sA := v; sU := sU s; sSet := sSet s; sNact := sNact s;
  sUnshrink := sUnshrink s; sP := sP s; sT := sT s; sKi := sKi s; sKs := sKs s; sR := sR s |}.
Definition upd_U s v := {| sG := sG s; sGbar := sGbar s; sA := sA s; sU := v; sSet := sSet s; sNact := sNact s;
  sUnshrink := sUnshrink s; sP := sP s; sT := sT s; sKi := sKi s; sKs := sKs s; sR := sR s |}.
Definition upd_Nact s v := {| sG := sG s; sGbar := sGbar s; sA := sA s; sU := sU s; sSet := sSet s; sNact := v;
  sUnshrink := sUnshrink s; sP := sP s; sT := sT s; sKi := sKi s; sKs := sKs s; sR := sR s |}.
Definition upd_Unshrink s v := {| sG := sG s; sGbar := sGbar s; sA := sA s; sU := sU s; sSet := sSet s; sNact := sNact s;
  sUnshrink := v; sP := sP s; sT := sT s; sKi := sKi s; sKs := sKs s; sR := sR s |}.
Definition upd_R s v := {| sG := sG s; sGbar := sGbar s; sA := sA s; sU := sU s; sSet := sSet s; sNact := sNact s;
  sUnshrink := sUnshrink s; sP := sP s; sT := sT s; sKi := sKi s; sKs := sKs s; sR := v |}.

Definition ntotal (s : state) : nat := length (sA s).

(* Alpha::reached_upper / reached_lower / free_floating *)
Definition is_upper (a u : F) : bool := geb a u.
Definition is_lower (a : F) : bool := eqb o a 0.
Definition is_free (a u : F) : bool := ltb o a u && gtb a 0.

(* Permutable::distances(idx, length) and self_distance(idx), for the three permutable kernels *)
Definition kcolumn (P : problem) (c : nat) : list F := map (fun row => nthF row c) (pK P).
Definition distances (P : problem) (s : state) (idx len : nat) : list F :=
  let col := kcolumn P (nth idx (sKi s) O) in
  let si := nth idx (sKs s) true in
  map (fun p => let v := nthF col (fst p) in if xorb si (snd p) then - v else v)
      (firstn len (combine (sKi s) (sKs s))).
Definition selfd (P : problem) (s : state) (idx : nat) : F := nthF (pKdiag P) (nth idx (sKi s) O).

Definition target_of (s : state) (i : nat) : F := if nth i (sT s) true then 1 else neg1.

(* SolverState::new *)
Definition init_state (P : problem) (alpha0 p : list F) (tgs : list bool) (ki : list nat) (ks : list bool) : state :=
  let n := length alpha0 in
  let s0 := {| sG := p; sGbar := repeat 0 n; sA := alpha0; sU := firstn n (pBounds P); sSet := seq O n; sNact := n;
               sUnshrink := false; sP := p; sT := tgs; sKi := ki; sKs := ks; sR := 0 |} in
  fold_left (fun s i =>
      let ai := nthF (sA s) i in
      if is_lower ai then s else
      let d := distances P s i n in
      let s1 := upd_G s (zipp (fun gj dj => gj + ai * dj) (sG s) d) in
      if is_upper ai (nthF (sU s) i)
      then upd_Gbar s1 (zipp (fun gj dj => gj + nthF (sU s) i * dj) (sGbar s1) d)
      else s1)
    (seq O n) s0.

(* SolverState::swap *)
Definition swap (s : state) (i j : nat) : state :=
  {| sG := swapn 0 (sG s) i j; sGbar := swapn 0 (sGbar s) i j; sA := swapn 0 (sA s) i j; sU := swapn 0 (sU s) i j;
     sSet := swapn O (sSet s) i j; sNact := sNact s; sUnshrink := sUnshrink s; sP := swapn 0 (sP s) i j;
     sT := swapn true (sT s) i j; sKi := swapn O (sKi s) i j; sKs := swapn true (sKs s) i j; sR := sR s |}.

(* per-position view of the active prefix: (i, (target, (alpha, (upper, gradient)))) *)
Definition ventry := (nat * (bool * (F * (F * F))))%type.
Definition view_all (s : state) : list ventry :=
  combine (seq O (ntotal s)) (combine (sT s) (combine (sA s) (combine (sU s) (sG s)))).
Definition view (s : state) : list ventry := firstn (sNact s) (view_all s).

(* reconstruct_gradient *)
Definition reconstruct_gradient (P : problem) (s : state) : state :=
  let na := sNact s in let nt := ntotal s in
  if Nat.eqb na nt then s else
  let g1 := firstn na (sG s) ++ map2 (fun gb pj => gb + pj) (skipn na (sGbar s)) (skipn na (sP s)) in
  let s1 := upd_G s g1 in
  let nfree := length (filter (fun e : ventry => let '(_, (_, (a, (u, _)))) := e in is_free a u) (view s1)) in
  if Nat.ltb (Nat.mul (Nat.mul 2 na) (Nat.sub nt na)) (Nat.mul nfree nt) then
    fold_left (fun st i =>
        let d := distances P st i na in
        let gi := fold_left (fun acc (e : (F * F) * F) =>
                      let '((aj, uj), dj) := e in if is_free aj uj then acc + aj * dj else acc)
                    (combine (combine (sA st) (sU st)) d) (nthF (sG st) i) in
        upd_G st (setn (sG st) i gi))
      (seq na (Nat.sub nt na)) s1
  else
    fold_left (fun (st : state) (e : ventry) =>
        let '(i, (_, (a, (u, _)))) := e in
        if is_free a u then
          let d := distances P st i nt in
          upd_G st (firstn na (sG st) ++ map2 (fun gj dj => gj + a * dj) (skipn na (sG st)) (skipn na d))
        else st)
      (view s1) s1.

(* update *)
Definition update (P : problem) (s : state) (i j : nat) : state :=
  let na := sNact s in
  let di := distances P s i na in
  let dj := distances P s j na in
  let bi := nthF (sU s) i in
  let bj := nthF (sU s) j in
  let oai := nthF (sA s) i in
  let oaj := nthF (sA s) j in
  let gi := nthF (sG s) i in
  let gj := nthF (sG s) j in
  let dij := nthF di j in
  let '(ai, aj) :=
    if negb (Bool.eqb (nth i (sT s) true) (nth j (sT s) true)) then
      let q0 := selfd P s i + selfd P s j + two * dij in
      let quad := if leb o q0 0 then tiny else q0 in
      let delta := (- (gi + gj)) / quad in
      let diff := oai - oaj in
      let ai := oai + delta in
      let aj := oaj + delta in
      let '(ai, aj) :=
        if gtb diff 0 then (if ltb o aj 0 then (diff, 0) else (ai, aj))
        else if ltb o ai 0 then (0, - diff) else (ai, aj) in
      if gtb diff (bi - bj) then (if gtb ai bi then (bi, bi - diff) else (ai, aj))
      else if gtb aj bj then (bj + diff, bj) else (ai, aj)
    else
      let q0 := selfd P s i + selfd P s j - two * dij in
      let quad := if leb o q0 0 then tiny else q0 in
      let delta := (gi - gj) / quad in
      let sum := oai + oaj in
      let ai := oai - delta in
      let aj := oaj + delta in
      let '(ai, aj) :=
        if gtb sum bi then (if gtb ai bi then (bi, sum - bi) else (ai, aj))
        else if ltb o aj 0 then (sum, 0) else (ai, aj) in
      if gtb sum bj then (if gtb aj bj then (sum - bj, bj) else (ai, aj))
      else if ltb o ai 0 then (0, sum) else (ai, aj) in
  let dai := ai - oai in
  let daj := aj - oaj in
  let g' := zipp (fun gk d => gk + (fst d * dai + snd d * daj)) (sG s) (combine di dj) in
  (* `i == j` cannot happen for a selected pair; the two writes are sequential as in the code *)
  let a' := setn (setn (sA s) i ai) j aj in
  (* status of both variables before they changed *)
  let ui := is_upper oai bi in
  let uj := is_upper oaj bj in
  let u' := sU s in
  let s1 := upd_A (upd_G s g') a' in
  let s2 :=
    if negb (Bool.eqb ui (is_upper (nthF a' i) (nthF u' i))) then
      let d := distances P s1 i (ntotal s1) in
      upd_Gbar s1 (zipp (fun gb dk => if ui then gb - bi * dk else gb + bi * dk) (sGbar s1) d)
    else s1 in
  if negb (Bool.eqb uj (is_upper (nthF a' j) (nthF u' j))) then
    let d := distances P s2 j (ntotal s2) in
    upd_Gbar s2 (zipp (fun gb dk => if uj then gb - bj * dk else gb + bj * dk) (sGbar s2) d)
  else s2.

Definition gidx := (F * option nat)%type.
Definition ginit : gidx := (- inf, None).

(* max_violating_pair: ties go to the later index (>=) *)
Definition mvp (s : state) : gidx * gidx :=
  fold_left (fun (acc : gidx * gidx) (e : ventry) =>
      let '(i, (t, (a, (u, gi)))) := e in
      let '(m1, m2) := acc in
      let up := is_upper a u in let low := is_lower a in
      if t then
        (if negb up && geb (- gi) (fst m1) then (- gi, Some i) else m1,
         if negb low && geb gi (fst m2) then (gi, Some i) else m2)
      else
        (if negb low && geb gi (fst m1) then (gi, Some i) else m1,
         if negb up && geb (- gi) (fst m2) then (- gi, Some i) else m2))
    (view s) (ginit, ginit).

(* max_violating_pair_nu: strict >, four maxima (p1, n1, p2, n2) *)
Definition mvp_nu (s : state) : (gidx * gidx) * (gidx * gidx) :=
  fold_left (fun (acc : (gidx * gidx) * (gidx * gidx)) (e : ventry) =>
      let '(i, (t, (a, (u, gi)))) := e in
      let '((m1, m2), (m3, m4)) := acc in
      let up := is_upper a u in let low := is_lower a in
      if t then
        ((if negb up && gtb (- gi) (fst m1) then (- gi, Some i) else m1, m2),
         (if negb low && gtb gi (fst m3) then (gi, Some i) else m3, m4))
      else
        ((m1, if negb low && gtb gi (fst m2) then (gi, Some i) else m2),
         (m3, if negb up && gtb (- gi) (fst m4) then (- gi, Some i) else m4)))
    (view s) ((ginit, ginit), (ginit, ginit)).

Definition obj_diff_of (gd quad : F) : F :=
  if gtb quad 0 then (- (gd * gd)) / quad else (- (gd * gd)) / tiny.

(* select_working_set: None = optimal *)
Definition select_std (P : problem) (s : state) : option (nat * nat) :=
  let '(gm1, gm2) := mvp s in
  let best : gidx :=
    match snd gm1 with
    | None => (inf, None)
    | Some i =>
        let di := distances P s i (ntotal s) in
        let ti := target_of s i in
        let sdi := selfd P s i in
        fold_left (fun (best : gidx) (e : ventry * F) =>
            let '((j, (t, (a, (u, gj)))), dij) := e in
            if t then
              if negb (is_lower a) then
                let gd := fst gm1 + gj in
                if gtb gd 0 then
                  let od := obj_diff_of gd (sdi + selfd P s j - two * ti * dij) in
                  if leb o od (fst best) then (od, Some j) else best
                else best
              else best
            else if negb (is_upper a u) then
              let gd := fst gm1 - gj in
              if gtb gd 0 then
                let od := obj_diff_of gd (sdi + selfd P s j + two * ti * dij) in
                if leb o od (fst best) then (od, Some j) else best
              else best
            else best)
          (combine (view s) di) (inf, None)
    end in
  if ltb o (fst gm1 + fst gm2) (pEps P) then None
  else match snd gm1, snd best with
       | Some i, Some j => Some (i, j)
       | _, _ => None
       end.

(* select_working_set_nu *)
Definition select_nu (P : problem) (s : state) : option (nat * nat) :=
  let '((gp1, gn1), (gp2, gn2)) := mvp_nu s in
  let dip := match snd gp1 with Some i => Some (i, distances P s i (ntotal s)) | None => None end in
  let din := match snd gn1 with Some i => Some (i, distances P s i (ntotal s)) | None => None end in
  let best : gidx :=
    fold_left (fun (best : gidx) (e : ventry) =>
        let '(j, (t, (a, (u, gj)))) := e in
        if t then
          if negb (is_lower a) then
            let gd := fst gp1 + gj in
            if gtb gd 0 then
              match dip with
              | None => best
              | Some (i, d) =>
                  let od := obj_diff_of gd (selfd P s i + selfd P s j - two * nthF d j) in
                  if leb o od (fst best) then (od, Some j) else best
              end
            else best
          else best
        else if negb (is_upper a u) then
          let gd := fst gn1 - gj in
          if gtb gd 0 then
            match din with
            | None => best
            | Some (i, d) =>
                let od := obj_diff_of gd (selfd P s i + selfd P s j - two * nthF d j) in
                if leb o od (fst best) then (od, Some j) else best
            end
          else best
        else best)
      (view s) (inf, None) in
  if ltb o (fmax (fst gp1 + fst gp2) (fst gn1 + fst gn2)) (pEps P) then None
  else match snd best with
       | None => None
       | Some j =>
           (* a selected j of a class implies that class's gmax index exists *)
           match (if nth j (sT s) true then snd gp1 else snd gn1) with
           | Some i => Some (i, j)
           | None => None
           end
       end.

Definition select (P : problem) (s : state) : option (nat * nat) :=
  if pNu P then select_nu P s else select_std P s.

(* should_shrunk / should_shrunk_nu on position i *)
Definition should_shrunk (s : state) (g1 g2 : F) (i : nat) : bool :=
  let a := nthF (sA s) i in let u := nthF (sU s) i in let gi := nthF (sG s) i in let t := nth i (sT s) true in
  if is_upper a u then (if t then gtb (- gi) g1 else gtb (- gi) g2)
  else if is_lower a then (if t then gtb gi g2 else gtb gi g1)
  else false.
Definition should_shrunk_nu (s : state) (g1 g2 g3 g4 : F) (i : nat) : bool :=
  let a := nthF (sA s) i in let u := nthF (sU s) i in let gi := nthF (sG s) i in let t := nth i (sT s) true in
  if is_upper a u then (if t then gtb (- gi) g1 else gtb (- gi) g4)
  else if is_lower a then (if t then gtb gi g2 else gtb gi g3)
  else false.

(* the `while self.nactive > i` loop *)
Fixpoint shrink_inner (fuel : nat) (sh : state -> nat -> bool) (s : state) (i : nat) : state :=
  match fuel with
  | O => s
  | S f =>
      if Nat.ltb i (sNact s) then
        if negb (sh s (sNact s)) then swap s i (sNact s)
        else shrink_inner f sh (upd_Nact s (Nat.pred (sNact s))) i
      else s
  end.

(* `while i < self.nactive()` *)
Fixpoint shrink_outer (fuel : nat) (sh : state -> nat -> bool) (s : state) (i : nat) : state :=
  match fuel with
  | O => s
  | S f =>
      if Nat.ltb i (sNact s) then
        let s' := if sh s i then shrink_inner (S (ntotal s)) sh (upd_Nact s (Nat.pred (sNact s))) i else s in
        shrink_outer f sh s' (S i)
      else s
  end.
Definition shrink_loop (sh : state -> nat -> bool) (s : state) : state := shrink_outer (S (ntotal s)) sh s O.

Definition do_shrinking (P : problem) (s : state) : state :=
  if pNu P then
    let '((m1, m2), (m3, m4)) := mvp_nu s in
    (* (+1 not upper, +1 not lower, -1 not lower, -1 not upper) *)
    let '(g1, g2, g3, g4) := (fst m1, fst m3, fst m2, fst m4) in
    let s1 :=
      if negb (sUnshrink s) && leb o (fmax (g1 + g2) (g3 + g4)) (pEps P * ten) then
        let s' := reconstruct_gradient P (upd_Unshrink s true) in upd_Nact s' (ntotal s')
      else s in
    shrink_loop (fun st => should_shrunk_nu st g1 g2 g3 g4) s1
  else
    let '(m1, m2) := mvp s in
    let '(g1, g2) := (fst m1, fst m2) in
    let s1 :=
      if negb (sUnshrink s) && leb o (g1 + g2) (pEps P * ten) then
        let s' := reconstruct_gradient P (upd_Unshrink s true) in upd_Nact s' (ntotal s')
      else s in
    shrink_loop (fun st => should_shrunk st g1 g2) s1.

(* calculate_rho / calculate_rho_nu: (state with r set, rho) *)
Definition rho_std (s : state) : F :=
  let '(nfree, sumf, ubv, lbv) :=
    fold_left (fun (acc : N * F * F * F) (e : ventry) =>
        let '(i, (t, (a, (u, gi)))) := e in
        let '(nf, sf, ubv, lbv) := acc in
        let yg := (if t then 1 else neg1) * gi in
        if is_upper a u then (if t then (nf, sf, ubv, fmax lbv yg) else (nf, sf, fmin ubv yg, lbv))
        else if is_lower a then (if t then (nf, sf, fmin ubv yg, lbv) else (nf, sf, ubv, fmax lbv yg))
        else (N.succ nf, sf + yg, ubv, lbv))
      (view s) (N0, 0, inf, - inf) in
  if N.ltb N0 nfree then sumf / of_N o nfree else (ubv + lbv) / two.

Definition rho_nu (s : state) : state * F :=
  let '((nf1, sf1, ub1, lb1), (nf2, sf2, ub2, lb2)) :=
    fold_left (fun (acc : (N * F * F * F) * (N * F * F * F)) (e : ventry) =>
        let '(i, (t, (a, (u, gi)))) := e in
        let '((nf1, sf1, ub1, lb1), (nf2, sf2, ub2, lb2)) := acc in
        if t then
          (if is_upper a u then (nf1, sf1, ub1, fmax lb1 gi)
           else if is_lower a then (nf1, sf1, fmin ub1 gi, lb1)
           else (N.succ nf1, sf1 + gi, ub1, lb1), (nf2, sf2, ub2, lb2))
        else
          ((nf1, sf1, ub1, lb1),
           if is_upper a u then (nf2, sf2, ub2, fmax lb2 gi)
           else if is_lower a then (nf2, sf2, fmin ub2 gi, lb2)
           else (N.succ nf2, sf2 + gi, ub2, lb2)))
      (view s) ((N0, 0, inf, - inf), (N0, 0, inf, - inf)) in
  let r1 := if N.ltb N0 nf1 then sf1 / of_N o nf1 else (ub1 + lb1) / two in
  let r2 := if N.ltb N0 nf2 then sf2 / of_N o nf2 else (ub2 + lb2) / two in
  (upd_R s ((r1 + r2) / two), (r1 - r2) / two).

(* the main loop of solve(); max_iter (>= 10^7) is never reached within [fuel] *)
Inductive loop_result := Done (s : state) (iter : N) | OutOfFuel.

Fixpoint smo_loop (fuel : nat) (P : problem) (s : state) (iter : N) (counter : nat) : loop_result :=
  match fuel with
  | O => OutOfFuel
  | S f =>
      let c1 := Nat.pred counter in
      let shr := Nat.eqb c1 O in
      let c2 := if shr then Nat.min (ntotal s) 1000 else c1 in
      let s1 := if shr && pShrinking P then do_shrinking P s else s in
      match select P s1 with
      | Some (i, j) => smo_loop f P (update P s1 i j) (N.succ iter) c2
      | None =>
          let s2 := reconstruct_gradient P s1 in
          let s2 := upd_Nact s2 (ntotal s2) in
          match select P s2 with
          | None => Done s2 iter
          | Some (i, j) => smo_loop f P (update P s2 i j) (N.succ iter) (S O)
          end
      end
  end.

Inductive hyperplane := HLinear (w : list F) | HSupport (sv : list (list F)).

Record svm := {
  mAlpha : list F; mRho : F; mR : option F; mObj : F; mIter : N; mSep : hyperplane
}.

Definition is_support (a : F) : bool := gtb (abs o a) (hundred * feps).

(* dataset.select(Axis(0), indices of the coefficients above the threshold) *)
Definition support_vectors (rows : list (list F)) (alpha : list F) : list (list F) :=
  map fst (filter (fun e => is_support (snd e)) (combine rows alpha)).

(* tmp.scaled_add(sign_i * alpha_i, row_i) over the dataset rows, starting from zeros(d) *)
Definition hyperplane_of (sign : list F) (rows : list (list F)) (alpha : list F) (d : nat) : list F :=
  fold_left (fun w (e : F * (list F * F)) =>
               let '(sg, (row, a)) := e in
               let c := sg * a in
               zipp (fun y x => y + c * x) w row)
            (combine sign (combine rows alpha)) (repeat 0 d).

(* the part of solve() after the loop *)
Definition finish (P : problem) (s : state) (iter : N) : svm :=
  let '(s1, rho) := if pNu P then rho_nu s else (s, rho_std s) in
  let v := fold_left (fun acc e => acc + fst e * (fst (snd e) + snd (snd e)))
                     (combine (sA s1) (combine (sG s1) (sP s1))) 0 in
  (* alpha[active_set[i]] = alpha_i, sign[active_set[i]] = target(i) *)
  let alpha := fold_left (fun acc (e : nat * F) => setn acc (fst e) (snd e)) (combine (sSet s1) (sA s1)) (repeat 0 (ntotal s1)) in
  let sign := fold_left (fun acc (e : nat * bool) => setn acc (fst e) (if snd e then 1 else neg1))
                        (combine (sSet s1) (sT s1)) (repeat 1 (ntotal s1)) in
  let n := length (pRows P) in
  let alpha := if Nat.ltb n (ntotal s1)
               then map2 (fun a b => a - b) (firstn n alpha) (skipn n alpha) else alpha in
  let sep :=
    if pLinear P then
      let d := match pRows P with [] => O | r :: _ => length r end in
      HLinear (hyperplane_of sign (pRows P) alpha d)
    else HSupport (support_vectors (pRows P) alpha) in
  {| mAlpha := alpha; mRho := rho; mR := if pNu P then Some (sR s1) else None;
     mObj := v / two; mIter := iter; mSep := sep |}.

Inductive outcome := Fitted (m : svm) | Fuel.

Definition solve (fuel : nat) (P : problem) (s : state) : outcome :=
  match smo_loop fuel P s N0 (S (Nat.min (length (sT s)) 1000)) with
  | Done s' it => Fitted (finish P s' it)
  | OutOfFuel => Fuel
  end.

Definition diag (K : list (list F)) : list F := map (fun p => nthF (snd p) (fst p)) (combine (seq O (length K)) K).

Definition mk_problem (K rows : list (list F)) (bounds : list F) (eps : F) (shr nu lin : bool) : problem :=
  {| pK := K; pKdiag := diag K; pBounds := bounds; pEps := eps; pShrinking := shr; pNu := nu;
     pRows := rows; pLinear := lin |}.

Definition sign_alpha (tgs : list bool) (alpha : list F) : list F :=
  map2 (fun a (b : bool) => if b then a else - a) alpha tgs.

Definition with_alpha_rho_obj (m : svm) (a : list F) (rho obj : F) : svm :=
  {| mAlpha := a; mRho := rho; mR := mR m; mObj := obj; mIter := mIter m; mSep := mSep m |}.

Definition map_outcome (f : svm -> svm) (x : outcome) : outcome :=
  match x with Fitted m => Fitted (f m) | other => other end.

(** * classification.rs *)
Definition fit_c (fuel : nat) (K rows : list (list F)) (tgs : list bool) (eps : F) (shr lin : bool) (cpos cneg : F) : outcome :=
  let n := length tgs in
  let bounds := map (fun (t : bool) => if t then cpos else cneg) tgs in
  let P := mk_problem K rows bounds eps shr false lin in
  let s := init_state P (repeat 0 n) (repeat (neg1) n) tgs (seq O n) tgs in
  map_outcome (fun m => with_alpha_rho_obj m (sign_alpha tgs (mAlpha m)) (mRho m) (mObj m)) (solve fuel P s).

Definition nu_init_alpha (tgs : list bool) (nu : F) : list F :=
  let half := nu * of_N o (N.of_nat (length tgs)) / two in
  fst (fold_left (fun acc (t : bool) =>
         let '(out, (sp, sn)) := acc in
         if t then let v := fmin 1 sp in (out ++ [v], (sp - v, sn))
         else let v := fmin 1 sn in (out ++ [v], (sp, sn - v)))
       tgs ([], (half, half))).

Definition fit_nu_svc (fuel : nat) (K rows : list (list F)) (tgs : list bool) (eps : F) (shr lin : bool) (nu : F) : outcome :=
  let n := length tgs in
  let P := mk_problem K rows (repeat 1 n) eps shr true lin in
  let s := init_state P (nu_init_alpha tgs nu) (repeat 0 n) tgs (seq O n) tgs in
  map_outcome (fun m =>
      let r := match mR m with Some r => r | None => 0 end in
      let m' := with_alpha_rho_obj m (map (fun x => x / r) (sign_alpha tgs (mAlpha m))) (mRho m / r) (mObj m / (r * r)) in
      match mSep m' with
      | HLinear w => {| mAlpha := mAlpha m'; mRho := mRho m'; mR := mR m'; mObj := mObj m'; mIter := mIter m';
                        mSep := HLinear (map (fun x => x / r) w) |}
      (* repair 4625418 (finding F-C13-S1): the stored support vectors are re-selected from the DIVIDED coefficients, the
         ones weighted_sum filters by the same threshold; before the repair the selection made by solve() on the
         undivided coefficients was kept ([HSupport _ => m'], see [nusvc_pre_repair_sv]) *)
      | HSupport _ => {| mAlpha := mAlpha m'; mRho := mRho m'; mR := mR m'; mObj := mObj m'; mIter := mIter m';
                         mSep := HSupport (support_vectors rows (mAlpha m')) |}
      end)
    (solve fuel P s).

(* the stored vectors of a nu-SVC fit before the repair 4625418: selected by the coefficients before their division by r *)
Definition nusvc_pre_repair_sv (rows : list (list F)) (alpha_undivided : list F) : list (list F) :=
  support_vectors rows alpha_undivided.

(* [nt] = (nu * size).to_usize() is supplied by the caller, see [trunc_ok] *)
Definition one_class_init (size : nat) (nu : F) (nt : nat) : list F :=
  map (fun x => match Nat.compare x nt with
                | Lt => 1 | Gt => 0
                | Eq => nu * of_N o (N.of_nat size) - of_N o (N.of_nat x) end) (seq O size).
(* nt = trunc(v) for v >= 0 : nt <= v < nt + 1 *)
Definition trunc_ok (v : F) (nt : nat) : bool :=
  leb o (of_N o (N.of_nat nt)) v && ltb o v (of_N o (N.of_nat (S nt))).

Definition fit_one_class (fuel : nat) (K rows : list (list F)) (eps : F) (shr lin : bool) (nu : F) (nt : nat) : outcome :=
  let n := length K in
  let P := mk_problem K rows (repeat 1 n) eps shr false lin in
  let s := init_state P (one_class_init n nu nt) (repeat 0 n) (repeat true n) (seq O n) (repeat true n) in
  solve fuel P s.

(** * regression.rs *)
Definition reg_state (P : problem) (n : nat) (alpha0 p : list F) : state :=
  init_state P alpha0 p (repeat true n ++ repeat false n) (seq O n ++ seq O n) (repeat true n ++ repeat false n).

Definition fit_epsilon (fuel : nat) (K rows : list (list F)) (y : list F) (eps : F) (shr lin : bool) (c p : F) : outcome :=
  let n := length y in
  let P := mk_problem K rows (repeat c (Nat.mul 2 n)) eps shr false lin in
  solve fuel P (reg_state P n (repeat 0 (Nat.mul 2 n)) (map (fun t => p - t) y ++ map (fun t => p + t) y)).

Definition nu_svr_init (n : nat) (c nu : F) : list F :=
  let sum0 := c * nu * of_N o (N.of_nat n) / two in
  let half := fst (fold_left (fun acc _ => let '(out, sum) := acc in let v := fmin sum c in (out ++ [v], sum - v))
                             (seq O n) ([], sum0)) in
  half ++ half.

Definition fit_nu_svr (fuel : nat) (K rows : list (list F)) (y : list F) (eps : F) (shr lin : bool) (nu c : F) : outcome :=
  let n := length y in
  (* nu_constraint = false: the plain solver runs from the nu-dependent start (known finding F32) *)
  let P := mk_problem K rows (repeat c (Nat.mul 2 n)) eps shr false lin in
  solve fuel P (reg_state P n (nu_svr_init n c nu) (map (fun t => - t) y ++ y)).

(** * lib.rs: Svm::weighted_sum, nsupport, the decision rules *)
Definition nsupport (alpha : list F) : nat := length (filter is_support alpha).

(* linear hyperplane: x.mul(sample).sum() *)
Definition weighted_sum_linear (w x : list F) : F := usum o (map2 (mul o) w x).
(* support vectors zipped with the filtered coefficients; [kv] = kernel value of each stored support vector with the sample *)
Definition weighted_sum_sv (kv alpha : list F) : F :=
  iter_sum (map2 (fun k a => k * a) kv (filter is_support alpha)).

Definition decision (ws rho : F) : F := ws - rho.
Definition label_of (ws rho : F) : bool := geb (decision ws rho) 0.

End SVM.
