(** C02 - memory layouts.  An ndarray array is a raw vector, the offset of its first logical element
    and a stride per axis; the dataset operations of linfa touch that representation in exactly
    four places, which are transliterated here:

    - owned [split_with_ratio]: [assert!(records.is_standard_layout())], the same for the targets,
      then [into_raw_vec()] / [split_off] / [from_shape_vec] on the RAW vectors of records, targets
      and - without any layout test - of the weights;
    - [DatasetBase::weights()] = [self.weights.as_slice().unwrap()] (called by [with_labels]);
    - [into_single_target]: [targets.into_shape(nsamples).unwrap()] (C- or F-contiguous memory order).

    Every other operation goes through ndarray's logical accessors (select, split_at, collapse_axis,
    slice_axis_inplace, rows(), axis_iter, iter, to_owned, map, clone), i.e. it is the operation of
    C02/Model.v on the logical contents; that ndarray implements those accessors independently of the
    layout is what the layout stream of the correspondence exercises.  Definitions only. *)
From Coq Require Import List NArith ZArith Bool Arith SpecFloat.
From LinfaVerif Require Import Common.Num Common.B32 C02.Model.
Import ListNotations.

Record arr2 (X : Type) := mkA2 {
  a_buf : list X;        (* the raw vector (owned arrays) / the allocation a view points into *)
  a_off : nat;           (* position of element [0,0] in it *)
  a_n : nat; a_w : nat;  (* shape *)
  a_rs : Z; a_cs : Z }.  (* strides, in elements *)
Record arr1 (X : Type) := mkA1 { v_buf : list X; v_off : nat; v_n : nat; v_s : Z }.
Arguments mkA2 {X}. Arguments a_buf {X}. Arguments a_off {X}. Arguments a_n {X}. Arguments a_w {X}.
Arguments a_rs {X}. Arguments a_cs {X}.
Arguments mkA1 {X}. Arguments v_buf {X}. Arguments v_off {X}. Arguments v_n {X}. Arguments v_s {X}.

Definition addr2 {X} (a : arr2 X) (i j : nat) : Z :=
  (Z.of_nat (a_off a) + Z.of_nat i * a_rs a + Z.of_nat j * a_cs a)%Z.
Definition addr1 {X} (v : arr1 X) (i : nat) : Z := (Z.of_nat (v_off v) + Z.of_nat i * v_s v)%Z.

Definition at_addr {X} (buf : list X) (p : Z) : option X :=
  if Z.ltb p 0 then None else nth_error buf (Z.to_nat p).

(* the logical contents, row by row; [None] if some element lies outside the buffer (never for an
   array ndarray hands out) *)
Definition rows2 {X} (a : arr2 X) : option (list (list X)) :=
  mapM (fun i => mapM (fun j => at_addr (a_buf a) (addr2 a i j)) (seq 0 (a_w a))) (seq 0 (a_n a)).
Definition elems1 {X} (v : arr1 X) : option (list X) :=
  mapM (fun i => at_addr (v_buf v) (addr1 v i)) (seq 0 (v_n v)).

(* every logical element lies inside the buffer *)
Definition in_buf {X} (buf : list X) (p : Z) : bool := Z.leb 0 p && Z.ltb p (Z.of_nat (length buf)).
Definition ok2 {X} (a : arr2 X) : bool :=
  forallb (fun i => forallb (fun j => in_buf (a_buf a) (addr2 a i j)) (seq 0 (a_w a))) (seq 0 (a_n a)).
Definition ok1 {X} (v : arr1 X) : bool := forallb (fun i => in_buf (v_buf v) (addr1 v i)) (seq 0 (v_n v)).

(* ndarray::dimension::is_layout_c for Ix2 and Ix1 *)
Definition is_std2 {X} (a : arr2 X) : bool :=
  Nat.eqb (a_n a) 0 || Nat.eqb (a_w a) 0
  || ((Nat.eqb (a_w a) 1 || Z.eqb (a_cs a) 1)
      && (Nat.eqb (a_n a) 1 || Z.eqb (a_rs a) (if Nat.eqb (a_w a) 1 then 1 else Z.of_nat (a_w a)))).
Definition is_std1 {X} (v : arr1 X) : bool := Z.eqb (v_s v) 1 || Nat.leb (v_n v) 1.
(* self.raw_view().reversed_axes().is_standard_layout() *)
Definition is_f2 {X} (a : arr2 X) : bool :=
  is_std2 (mkA2 (a_buf a) (a_off a) (a_w a) (a_n a) (a_cs a) (a_rs a)).

(* the memory block [ptr, ptr + len) that as_slice / with_strides_dim expose *)
Definition block {X} (buf : list X) (off len : nat) : list X := firstn len (skipn off buf).

Inductive tarr (X : Type) := T1 (v : arr1 X) | T2 (a : arr2 X).
Arguments T1 {X}. Arguments T2 {X}.

Definition t_rows {X} (t : tarr X) : option (list (list X)) :=
  match t with
  | T1 v => match elems1 v with Some l => Some (map (fun x => [x]) l) | None => None end
  | T2 a => rows2 a
  end.
Definition t_is1 {X} (t : tarr X) : bool := match t with T1 _ => true | T2 _ => false end.
Definition t_nt {X} (t : tarr X) : nat := match t with T1 _ => 1 | T2 a => a_w a end.
Definition t_std {X} (t : tarr X) : bool := match t with T1 v => is_std1 v | T2 a => is_std2 a end.
Definition t_buf {X} (t : tarr X) : list X := match t with T1 v => v_buf v | T2 a => a_buf a end.
Definition t_ok {X} (t : tarr X) : bool := match t with T1 v => ok1 v | T2 a => ok2 a end.

Section Layout.
Variables A B W Nm : Type.
Variable beq : B -> B -> bool.
Variable of_bool : bool -> B.

Record ldset := mkL {
  l_recs : arr2 A; l_tgts : tarr B; l_ws : arr1 W; l_fn : list Nm; l_tn : list Nm }.

Definition ok_l (l : ldset) : bool := ok2 (l_recs l) && t_ok (l_tgts l) && ok1 (l_ws l).

(* what the public accessors show *)
Definition logical (l : ldset) : option (dset A B W Nm) :=
  match rows2 (l_recs l), t_rows (l_tgts l), elems1 (l_ws l) with
  | Some r, Some t, Some w =>
      Some (mkD (a_w (l_recs l)) (t_nt (l_tgts l)) (t_is1 (l_tgts l)) r t w (l_fn l) (l_tn l))
  | _, _, _ => None
  end.

(** ** Dataset::split_with_ratio (owned) on the representation.
    [raw_w]: the weights are cut in their RAW vector ([self.weights.into_raw_vec()], the code as it
    stands - no layout test protects that) / in logical order ([self.weights.to_vec()], the repair of
    design-notes/fixes/C02_owned_split_weights_layout.diff).  tools/c02_layout_switch.py reads from the
    sources which of the two the checked tree contains (coq/gen/C02_switch.v). *)
Definition split_owned_l (raw_w : bool) (ratio : spec_float) (l : ldset) : option (list (out A B W Nm)) :=
  let R := l_recs l in
  if negb (is_std2 R) then None                 (* assert!(self.records.is_standard_layout()) *)
  else if negb (t_std (l_tgts l)) then None     (* assert!(self.targets.is_standard_layout()) *)
  else
    let n := a_n R in
    let nf := a_w R in
    let n1N := ceil_ratio_f32 (N.of_nat n) ratio in
    if N.ltb (N.of_nat n) n1N then None
    else
      let n1 := N.to_nat n1N in
      let n2 := n - n1 in
      match split_off (n1 * nf) (a_buf R) with            (* self.records.into_raw_vec() *)
      | None => None
      | Some (b1, b2) =>
        match from_shape_vec n1 nf b1, from_shape_vec n2 nf b2 with
        | Some r1, Some r2 =>
          let tw := t_nt (l_tgts l) in
          match split_off (n1 * tw) (t_buf (l_tgts l)) with   (* self.targets.into_raw_vec() *)
          | None => None
          | Some (c1, c2) =>
            match from_shape_vec n1 tw c1, from_shape_vec n2 tw c2 with
            | Some t1, Some t2 =>
              match (if Nat.eqb (v_n (l_ws l)) (n1 + n2)
                     then (if raw_w
                           then Some (firstn n1 (v_buf (l_ws l)), skipn n1 (v_buf (l_ws l)))   (* into_raw_vec() *)
                           else match elems1 (l_ws l) with
                                | Some w => Some (firstn n1 w, skipn n1 w)                       (* to_vec() *)
                                | None => None end)
                     else match elems1 (l_ws l) with Some w => Some (w, []) | None => None end) with
              | None => None
              | Some (w1, w2) =>
                let t1b := t_is1 (l_tgts l) in
                match with_names A B W Nm (new_ds A B W Nm nf tw t1b r1 t1 w1) (l_fn l) (l_tn l),
                      with_names A B W Nm (new_ds A B W Nm nf tw t1b r2 t2 w2) (l_fn l) (l_tn l) with
                | Some d1, Some d2 => Some [plain A B W Nm d1; plain A B W Nm d2]
                | _, _ => None
                end
              end
            | _, _ => None
            end
          end
        | _, _ => None
        end
      end.

Definition lift (f : dset A B W Nm -> option (list (out A B W Nm))) (l : ldset) : option (list (out A B W Nm)) :=
  match logical l with Some d => f d | None => None end.

(** ** with_labels: `let old_weights = self.weights();` comes first *)
Definition weights_slice_panics (l : ldset) : bool :=
  negb (Nat.eqb (v_n (l_ws l)) 0) && negb (is_std1 (l_ws l)).
Definition with_labels_l (labels : list B) (l : ldset) : option (list (out A B W Nm)) :=
  if weights_slice_panics l then None else lift (with_labels A B W Nm beq labels) l.

(** ** into_single_target: into_shape(nsamples) keeps the memory order of a contiguous array *)
Definition into_single_l (l : ldset) : option (list (out A B W Nm)) :=
  match l_tgts l with
  | T1 _ => None                                   (* not expressible *)
  | T2 a =>
    let ns := a_n (l_recs l) in
    if negb (Nat.eqb (a_n a * a_w a) ns) then None          (* IncompatibleShape *)
    else if is_std2 a || is_f2 a then
      match rows2 (l_recs l) with
      | Some r => Some [plain A B W Nm (new_ds A B W Nm (a_w (l_recs l)) 1 true r
                                               (map (fun x => [x]) (block (a_buf a) (a_off a) ns)) [])]
      | None => None
      end
    else None                                               (* IncompatibleLayout *)
  end.

Definition apply_l (raw_w : bool) (o : op B) (l : ldset) : option (list (out A B W Nm)) :=
  match o with
  | OpSplitOwned r => split_owned_l raw_w r l
  | OpWithLabels ls => with_labels_l ls l
  | OpIntoSingle => into_single_l l
  | _ => lift (apply A B W Nm beq of_bool o) l
  end.

(* the calls that a layout alone turns into a panic (given that the logical call would return) *)
Definition layout_rejects (o : op B) (l : ldset) : bool :=
  match o with
  | OpSplitOwned _ =>
      negb (is_std2 (l_recs l)) || negb (t_std (l_tgts l))
      || negb (Nat.eqb (length (a_buf (l_recs l))) (a_n (l_recs l) * a_w (l_recs l)))
      || negb (Nat.eqb (length (t_buf (l_tgts l))) (a_n (l_recs l) * t_nt (l_tgts l)))
  | OpWithLabels _ => weights_slice_panics l
  | OpIntoSingle => match l_tgts l with T2 a => negb (is_std2 a) | T1 _ => false end
  | _ => false
  end.

(* the weight array is its own raw vector (what Array1::from(vec) gives) *)
Definition plain_weights (l : ldset) : bool :=
  Nat.eqb (v_off (l_ws l)) 0 && Nat.eqb (length (v_buf (l_ws l))) (v_n (l_ws l))
  && (Z.eqb (v_s (l_ws l)) 1 || Nat.leb (v_n (l_ws l)) 1).

End Layout.

Arguments mkL {A B W Nm}. Arguments l_recs {A B W Nm}. Arguments l_tgts {A B W Nm}.
Arguments l_ws {A B W Nm}. Arguments l_fn {A B W Nm}. Arguments l_tn {A B W Nm}.
