(** C02 - executable model of linfa's dataset operations (src/dataset/impl_dataset.rs,
    impl_targets.rs, iter.rs).  Part 1 is a transliteration of what the code does (flat buffers for
    the owned ratio split and the label filter, index selections for the RNG-driven operations, the
    name rules of the iterators, the panics as [None]).  Part 2 is the *specification*: every
    operation as an explicit selection (row indices, column indices, target columns, target map,
    which side containers are kept) applied to a dataset.  Definitions only; proofs are in Proofs.v. *)
From Coq Require Import List NArith ZArith Bool Arith SpecFloat.
From LinfaVerif Require Import Common.Num Common.B32.
Import ListNotations.

(** * The split point: [(n as f32 * ratio).ceil() as usize] *)
Definition usize_max : N := 18446744073709551615%N.

(* f32::ceil followed by the saturating cast `as usize` (NaN and negatives give 0) *)
Definition sf_ceil_usize (x : spec_float) : N :=
  match x with
  | S754_zero _ | S754_nan => 0%N
  | S754_infinity s => if s then 0%N else usize_max
  | S754_finite true _ _ => 0%N
  | S754_finite false m e =>
      let z := match e with
               | Z0 => Zpos m
               | Zpos p => (Zpos m * 2 ^ Zpos p)%Z
               | Zneg p => let d := (2 ^ Zpos p)%Z in ((Zpos m + d - 1) / d)%Z
               end in
      N.min usize_max (Z.to_N z)
  end.

Definition ceil_ratio_f32 (n : N) (ratio : spec_float) : N :=
  sf_ceil_usize (SFmul p32 e32 (b32_of_Z (Z.of_N n)) ratio).

(** * Generic helpers *)
Fixpoint mapM {X Y} (f : X -> option Y) (l : list X) : option (list Y) :=
  match l with
  | [] => Some []
  | x :: r => match f x, mapM f r with Some y, Some ys => Some (y :: ys) | _, _ => None end
  end.

(* ndarray `select(axis, indices)` on one axis: panics on an index out of bounds *)
Definition select {X} (l : list X) (idx : list nat) : option (list X) := mapM (nth_error l) idx.
Definition select_cols {X} (rows : list (list X)) (cidx : list nat) : option (list (list X)) :=
  mapM (fun r => select r cidx) rows.

(* Vec::split_off(at): panics when at > len *)
Definition split_off {X} (at_ : nat) (buf : list X) : option (list X * list X) :=
  if Nat.leb at_ (length buf) then Some (firstn at_ buf, skipn at_ buf) else None.

Fixpoint chunk_rows {X} (w n : nat) (buf : list X) : list (list X) :=
  match n with 0 => [] | S n' => firstn w buf :: chunk_rows w n' (skipn w buf) end.

(* Array::from_shape_vec((n, w), buf): error (unwrap panics) unless the sizes match *)
Definition from_shape_vec {X} (n w : nat) (buf : list X) : option (list (list X)) :=
  if Nat.eqb (length buf) (n * w) then Some (chunk_rows w n buf) else None.

(* a[lo .. hi) by slice_axis_inplace: panics when hi > len *)
Definition slice_rows {X} (lo hi : nat) (l : list X) : option (list X) :=
  if Nat.leb hi (length l) then Some (firstn (hi - lo) (skipn lo l)) else None.

Section Model.
Variables A B W Nm : Type.
Variable beq : B -> B -> bool.        (* label equality *)
Variable of_bool : bool -> B.         (* how a boolean target is written in B (one_vs_all) *)

(** * Datasets: five parallel containers.  Targets are kept as rows; a one-dimensional target array
    ([d_t1 = true]) has rows of length one.  [d_nf]/[d_nt] are the array widths (they exist even
    when there is no row). *)
Record dset := mkD {
  d_nf : nat; d_nt : nat; d_t1 : bool;
  d_recs : list (list A); d_tgts : list (list B);
  d_ws : list W; d_fn : list Nm; d_tn : list Nm }.

(* one result of an operation: the label it belongs to (one_vs_all), the dataset, and the stored
   per-column label counts when the result type carries them (CountedTargets) *)
Record out := mkO { o_label : option B; o_ds : dset; o_counts : list (list (B * nat)) }.
Definition plain (d : dset) : out := mkO None d [].

Definition nsamples (d : dset) : nat := length (d_recs d).
Definition ntargets (d : dset) : nat := if d_t1 d then 1 else d_nt d.     (* DatasetBase::ntargets *)

(* with_feature_names / with_target_names assert `names.is_empty() || names.len() == width` *)
Definition names_ok (names : list Nm) (width : nat) : bool :=
  match names with [] => true | _ => Nat.eqb (length names) width end.

Definition with_names (d : dset) (fnm tnm : list Nm) : option dset :=
  if names_ok fnm (d_nf d) && names_ok tnm (ntargets d)
  then Some (mkD (d_nf d) (d_nt d) (d_t1 d) (d_recs d) (d_tgts d) (d_ws d) fnm tnm) else None.

(* DatasetBase::new(records, targets).with_weights(w) *)
Definition new_ds (nf nt : nat) (t1 : bool) recs tgts (w : list W) : dset := mkD nf nt t1 recs tgts w [] [].

(** ** split_with_ratio on an owned dataset (raw vectors, split_off, from_shape_vec) *)
Definition split_owned (ratio : spec_float) (d : dset) : option (list out) :=
  let n := nsamples d in
  let nf := d_nf d in
  let n1N := ceil_ratio_f32 (N.of_nat n) ratio in
  if N.ltb (N.of_nat n) n1N then None            (* n - n1 underflows / split_off past the end *)
  else
    let n1 := N.to_nat n1N in
    let n2 := n - n1 in
    match split_off (n1 * nf) (concat (d_recs d)) with
    | None => None
    | Some (b1, b2) =>
      match from_shape_vec n1 nf b1, from_shape_vec n2 nf b2 with
      | Some r1, Some r2 =>
        let tw := ntargets d in                                      (* dim1.size() = n1 * tw *)
        match split_off (n1 * tw) (concat (d_tgts d)) with
        | None => None
        | Some (c1, c2) =>
          match from_shape_vec n1 tw c1, from_shape_vec n2 tw c2 with
          | Some t1, Some t2 =>
            let '(w1, w2) := if Nat.eqb (length (d_ws d)) (n1 + n2)
                             then (firstn n1 (d_ws d), skipn n1 (d_ws d))
                             else (d_ws d, []) in
            match with_names (new_ds nf (d_nt d) (d_t1 d) r1 t1 w1) (d_fn d) (d_tn d),
                  with_names (new_ds nf (d_nt d) (d_t1 d) r2 t2 w2) (d_fn d) (d_tn d) with
            | Some d1, Some d2 => Some [plain d1; plain d2]
            | _, _ => None
            end
          | _, _ => None
          end
        end
      | _, _ => None
      end
    end.

(** ** split_with_ratio on a view (split_at on both arrays, weight slices) *)
Definition split_at {X} (k : nat) (l : list X) : option (list X * list X) :=
  if Nat.leb k (length l) then Some (firstn k l, skipn k l) else None.

Definition split_view (ratio : spec_float) (d : dset) : option (list out) :=
  let n := nsamples d in
  let n1N := ceil_ratio_f32 (N.of_nat n) ratio in
  if N.ltb (N.of_nat n) n1N then None
  else
    let n1 := N.to_nat n1N in
    match split_at n1 (d_recs d), split_at n1 (d_tgts d) with
    | Some (r1, r2), Some (t1, t2) =>
      let '(w1, w2) := if Nat.eqb (length (d_ws d)) n
                       then (firstn n1 (d_ws d), skipn n1 (d_ws d)) else ([], []) in
      match with_names (new_ds (d_nf d) (d_nt d) (d_t1 d) r1 t1 w1) (d_fn d) (d_tn d),
            with_names (new_ds (d_nf d) (d_nt d) (d_t1 d) r2 t2 w2) (d_fn d) (d_tn d) with
      | Some d1, Some d2 => Some [plain d1; plain d2]
      | _, _ => None
      end
    | _, _ => None
    end.

(** ** shuffle / bootstrap: select(Axis, indices) with the drawn indices as an argument *)
Definition shuffle (idx : list nat) (d : dset) : option (list out) :=
  match select (d_recs d) idx, select (d_tgts d) idx with
  | Some r, Some t =>
    match with_names (new_ds (d_nf d) (d_nt d) (d_t1 d) r t []) (d_fn d) (d_tn d) with
    | Some d' => Some [plain d'] | None => None end
  | _, _ => None
  end.

(* rng.gen_range(0..0) panics ("cannot sample empty range") as soon as one index is requested *)
Definition draw_ok (k bound : nat) : bool := Nat.eqb k 0 || negb (Nat.eqb bound 0).

Definition bootstrap1 (d : dset) (draw : list nat * list nat) : option out :=
  if negb (draw_ok (length (fst draw)) (nsamples d) && draw_ok (length (snd draw)) (d_nf d)) then None else
  match select (d_recs d) (fst draw), select (d_tgts d) (fst draw) with
  | Some r, Some t =>
    match select_cols r (snd draw) with
    | Some r' => Some (plain (new_ds (length (snd draw)) (d_nt d) (d_t1 d) r' t []))
    | None => None end
  | _, _ => None
  end.
Definition bootstrap (draws : list (list nat * list nat)) (d : dset) : option (list out) :=
  mapM (bootstrap1 d) draws.

Definition bootstrap_samples1 (d : dset) (idx : list nat) : option out :=
  if negb (draw_ok (length idx) (nsamples d)) then None else
  match select (d_recs d) idx, select (d_tgts d) idx with
  | Some r, Some t => Some (plain (new_ds (d_nf d) (d_nt d) (d_t1 d) r t []))
  | _, _ => None
  end.
Definition bootstrap_samples (draws : list (list nat)) (d : dset) : option (list out) :=
  mapM (bootstrap_samples1 d) draws.

Definition bootstrap_features1 (d : dset) (cidx : list nat) : option out :=
  if negb (draw_ok (length cidx) (d_nf d)) then None else
  match select_cols (d_recs d) cidx with
  | Some r => Some (plain (new_ds (length cidx) (d_nt d) (d_t1 d) r (d_tgts d) []))
  | None => None
  end.
Definition bootstrap_features (draws : list (list nat)) (d : dset) : option (list out) :=
  mapM (bootstrap_features1 d) draws.

(** ** with_labels: the row loop, then flatten + from_shape_vec *)
Definition mem (x : B) (l : list B) : bool := existsb (beq x) l.
Definition any_in (labels t : list B) : bool := existsb (fun a => mem a labels) t.

(* `*map.entry(val).or_insert(0) += 1` on an association list (first-occurrence order) *)
Fixpoint count_incr (m : list (B * nat)) (v : B) : list (B * nat) :=
  match m with
  | [] => [(v, 1)]
  | (k, c) :: r => if beq k v then (k, S c) :: r else (k, c) :: count_incr r v
  end.
(* map.iter_mut().zip(t.iter()) *)
Fixpoint zip_incr (maps : list (list (B * nat))) (t : list B) : list (list (B * nat)) :=
  match maps, t with
  | m :: ms, v :: vs => count_incr m v :: zip_incr ms vs
  | ms, _ => ms
  end.

Definition weights_opt (d : dset) : option (list W) :=          (* DatasetBase::weights() *)
  match d_ws d with [] => None | w => Some w end.

Fixpoint wl_loop (labels : list B) (old_w : option (list W)) (i : nat)
         (rows : list (list A * list B)) (maps : list (list (B * nat)))
  : option (list (list A) * list (list B) * list W * list (list (B * nat))) :=
  match rows with
  | [] => Some ([], [], [], maps)
  | (r, t) :: rest =>
    if any_in labels t then
      match (match old_w with
             | Some w => match nth_error w i with Some x => Some [x] | None => None end   (* weight[i] *)
             | None => Some [] end) with
      | None => None
      | Some wi =>
        match wl_loop labels old_w (S i) rest (zip_incr maps t) with
        | Some (rs, ts, ws, m) => Some (r :: rs, t :: ts, wi ++ ws, m)
        | None => None
        end
      end
    else wl_loop labels old_w (S i) rest maps
  end.

Definition with_labels (labels : list B) (d : dset) : option (list out) :=
  match wl_loop labels (weights_opt d) 0 (combine (d_recs d) (d_tgts d)) (repeat [] (ntargets d)) with
  | None => None
  | Some (rs, ts, ws, maps) =>
    let n' := length rs in
    match from_shape_vec n' (d_nf d) (concat rs), from_shape_vec n' (ntargets d) (concat ts) with
    | Some r, Some t =>
      Some [mkO None (mkD (d_nf d) (d_nt d) (d_t1 d) r t ws (d_fn d) (d_tn d)) maps]
    | _, _ => None
    end
  end.

(** ** one_vs_all (single-target datasets only) *)
Fixpoint distinct (l : list B) : list B :=          (* the key set of label_count(), first occurrence first *)
  match l with
  | [] => []
  | x :: r => x :: filter (fun y => negb (beq x y)) (distinct r)
  end.
Definition counts_of (col : list B) : list (B * nat) := fold_left count_incr col [].
Definition column {X} (j : nat) (rows : list (list X)) : option (list X) := mapM (fun r => nth_error r j) rows.

Definition one_vs_all (d : dset) : option (list out) :=
  if negb (d_t1 d) then None                          (* not expressible: AsSingleTargets is required *)
  else
    match column 0 (d_tgts d) with
    | None => None
    | Some col =>
      mapM (fun label =>
              let t := map (fun x => of_bool (beq x label)) col in
              match with_names (new_ds (d_nf d) 1 true (d_recs d) (map (fun x => [x]) t) (d_ws d))
                               (d_fn d) (d_tn d) with
              | Some d' => Some (mkO (Some label) d' [counts_of t])
              | None => None
              end)
           (distinct col)
    end.

(** ** map_targets, view, to_owned, into_single_target *)
Definition map_targets (f : B -> B) (d : dset) : option (list out) :=
  Some [plain (mkD (d_nf d) (d_nt d) (d_t1 d) (d_recs d) (map (map f) (d_tgts d)) (d_ws d) (d_fn d) (d_tn d))].

Definition view (d : dset) : option (list out) :=
  match with_names (new_ds (d_nf d) (d_nt d) (d_t1 d) (d_recs d) (d_tgts d) (d_ws d)) (d_fn d) (d_tn d) with
  | Some d' => Some [plain d'] | None => None end.

Definition to_owned (d : dset) : option (list out) :=
  Some [plain (new_ds (d_nf d) (d_nt d) (d_t1 d) (d_recs d) (d_tgts d) [])].

Definition into_single_target (d : dset) : option (list out) :=
  if d_t1 d then None                                  (* not expressible: Dataset<X, Y, Ix2> only *)
  else
    let flat := concat (d_tgts d) in
    if Nat.eqb (length flat) (nsamples d)               (* into_shape(nsamples).unwrap() *)
    then Some [plain (new_ds (d_nf d) 1 true (d_recs d) (map (fun x => [x]) flat) [])]
    else None.

(** ** the iterators *)
(* Iter: for idx in 0..nsamples: (records.index_axis(0, idx), targets.index_axis(0, idx)) *)
Definition sample_iter (d : dset) : option (list out) :=
  let ids := seq 0 (nsamples d) in
  match select (d_recs d) ids, select (d_tgts d) ids with
  | Some r, Some t => Some [plain (new_ds (d_nf d) (d_nt d) (d_t1 d) r t [])]
  | _, _ => None
  end.

(* DatasetIter with target_or_feature = true *)
Definition feature_iter1 (d : dset) (idx : nat) : option out :=
  match select_cols (d_recs d) [idx] with
  | None => None
  | Some r =>
    match (if Nat.eqb (length (d_fn d)) 1                 (* compared with the *collapsed* width *)
           then match nth_error (d_fn d) idx with Some x => Some [x] | None => None end
           else Some []) with
    | None => None
    | Some fnm => Some (plain (mkD 1 (d_nt d) (d_t1 d) r (d_tgts d) (d_ws d) fnm (d_tn d)))
    end
  end.
Definition feature_iter (d : dset) : option (list out) := mapM (feature_iter1 d) (seq 0 (d_nf d)).

(* DatasetIter with target_or_feature = false; collapse_axis(Axis(1), _) panics on 1-D targets *)
Definition target_iter1 (d : dset) (idx : nat) : option out :=
  if d_t1 d then None
  else
    match select_cols (d_tgts d) [idx] with
    | None => None
    | Some t =>
      match (match d_tn d with
             | [] => Some []
             | _ => match nth_error (d_tn d) idx with Some x => Some [x] | None => None end
             end) with
      | None => None
      | Some tnm => Some (plain (mkD (d_nf d) 1 false (d_recs d) t (d_ws d) (d_fn d) tnm))
      end
    end.
Definition target_iter (d : dset) : option (list out) := mapM (target_iter1 d) (seq 0 (ntargets d)).

(* ChunksIter over Axis(0) *)
Definition chunk1 (size : nat) (d : dset) (idx : nat) : option out :=
  match slice_rows (idx * size) ((idx + 1) * size) (d_recs d),
        slice_rows (idx * size) ((idx + 1) * size) (d_tgts d) with
  | Some r, Some t => Some (plain (new_ds (d_nf d) (d_nt d) (d_t1 d) r t []))
  | _, _ => None
  end.
Definition sample_chunks (size : nat) (d : dset) : option (list out) :=
  match size with
  | 0 => None                                           (* len / 0 *)
  | _ => mapM (chunk1 size d) (seq 0 (nsamples d / size))
  end.

(** ** operations and operation sequences *)
Inductive op :=
| OpSplitOwned (ratio : spec_float)
| OpSplitView (ratio : spec_float)
| OpShuffle (idx : list nat)
| OpBootstrap (draws : list (list nat * list nat))
| OpBootSamples (draws : list (list nat))
| OpBootFeatures (draws : list (list nat))
| OpWithLabels (labels : list B)
| OpOneVsAll
| OpMapTargets (f : B -> B)
| OpView
| OpToOwned
| OpIntoSingle
| OpSampleIter
| OpFeatureIter
| OpTargetIter
| OpChunks (size : nat).

Definition apply (o : op) (d : dset) : option (list out) :=
  match o with
  | OpSplitOwned r => split_owned r d
  | OpSplitView r => split_view r d
  | OpShuffle idx => shuffle idx d
  | OpBootstrap ds => bootstrap ds d
  | OpBootSamples ds => bootstrap_samples ds d
  | OpBootFeatures ds => bootstrap_features ds d
  | OpWithLabels ls => with_labels ls d
  | OpOneVsAll => one_vs_all d
  | OpMapTargets f => map_targets f d
  | OpView => view d
  | OpToOwned => to_owned d
  | OpIntoSingle => into_single_target d
  | OpSampleIter => sample_iter d
  | OpFeatureIter => feature_iter d
  | OpTargetIter => target_iter d
  | OpChunks s => sample_chunks s d
  end.

(* a history: each step names the operation and which of its results is carried on *)
Fixpoint run (ops : list (op * nat)) (d : dset) : option dset :=
  match ops with
  | [] => Some d
  | (o, k) :: rest =>
    match apply o d with
    | None => None
    | Some outs => match nth_error outs k with Some r => run rest (o_ds r) | None => None end
    end
  end.

(** * Part 2 - the specification: every result is a selection of the source *)
(* total selection: indices out of range are skipped (never happens under the side conditions) *)
Definition sel {X} (l : list X) (idx : list nat) : list X :=
  flat_map (fun i => match nth_error l i with Some x => [x] | None => [] end) idx.

Record selection := mkSel {
  s_rows : list nat;          (* which samples, in which order *)
  s_cols : list nat;          (* which feature columns *)
  s_tcols : list nat;         (* which target columns *)
  s_g : B -> B;               (* what happens to a target value *)
  s_kw : bool; s_kf : bool; s_kt : bool;     (* weights / feature names / target names carried *)
  s_t1 : bool; s_nt : nat }.  (* target shape of the result *)

Definition apply_sel (s : selection) (d : dset) : dset :=
  mkD (length (s_cols s)) (s_nt s) (s_t1 s)
      (map (fun r => sel r (s_cols s)) (sel (d_recs d) (s_rows s)))
      (map (fun t => map (s_g s) (sel t (s_tcols s))) (sel (d_tgts d) (s_rows s)))
      (if s_kw s then sel (d_ws d) (s_rows s) else [])
      (if s_kf s then sel (d_fn d) (s_cols s) else [])
      (if s_kt s then sel (d_tn d) (s_tcols s) else []).

Definition idB (x : B) : B := x.
Definition all_rows (d : dset) := seq 0 (nsamples d).
Definition all_cols (d : dset) := seq 0 (d_nf d).
Definition all_tcols (d : dset) := seq 0 (ntargets d).

(* rows [s_rows], everything else untouched *)
Definition sel_rows (d : dset) (rows : list nat) (kw kn : bool) : selection :=
  mkSel rows (all_cols d) (all_tcols d) idB kw kn kn (d_t1 d) (d_nt d).

Definition split_point (ratio : spec_float) (d : dset) : N := ceil_ratio_f32 (N.of_nat (nsamples d)) ratio.

Definition in_range (bound : nat) (idx : list nat) : bool := forallb (fun i => Nat.ltb i bound) idx.

(* the documented row filter of with_labels *)
Definition kept_rows (labels : list B) (d : dset) : list nat :=
  filter (fun i => match nth_error (d_tgts d) i with Some t => any_in labels t | None => false end)
         (all_rows d).

Definition first_column (d : dset) : list B :=
  flat_map (fun t => match t with x :: _ => [x] | [] => [] end) (d_tgts d).

(* [None]: the operation is outside its documented domain on this dataset (it panics) *)
Definition spec (o : op) (d : dset) : option (list (option B * selection)) :=
  let n := nsamples d in
  match o with
  | OpSplitOwned r | OpSplitView r =>
      let n1N := split_point r d in
      if N.ltb (N.of_nat n) n1N then None
      else let n1 := N.to_nat n1N in
           Some [(None, sel_rows d (seq 0 n1) true true); (None, sel_rows d (seq n1 (n - n1)) true true)]
  | OpShuffle idx =>
      if in_range n idx then Some [(None, sel_rows d idx false true)] else None
  | OpBootstrap draws =>
      if forallb (fun dr => in_range n (fst dr) && in_range (d_nf d) (snd dr)) draws
      then Some (map (fun dr => (None, mkSel (fst dr) (snd dr) (all_tcols d) idB false false false (d_t1 d) (d_nt d))) draws)
      else None
  | OpBootSamples draws =>
      if forallb (in_range n) draws
      then Some (map (fun idx => (None, sel_rows d idx false false)) draws) else None
  | OpBootFeatures draws =>
      if forallb (in_range (d_nf d)) draws
      then Some (map (fun c => (None, mkSel (all_rows d) c (all_tcols d) idB false false false (d_t1 d) (d_nt d))) draws)
      else None
  | OpWithLabels ls => Some [(None, sel_rows d (kept_rows ls d) true true)]
  | OpOneVsAll =>
      if d_t1 d
      then Some (map (fun l => (Some l, mkSel (all_rows d) (all_cols d) [0] (fun x => of_bool (beq x l))
                                              true true true true 1))
                     (distinct (first_column d)))
      else None
  | OpMapTargets f =>
      Some [(None, mkSel (all_rows d) (all_cols d) (all_tcols d) f true true true (d_t1 d) (d_nt d))]
  | OpView => Some [(None, sel_rows d (all_rows d) true true)]
  | OpToOwned | OpSampleIter => Some [(None, sel_rows d (all_rows d) false false)]
  | OpIntoSingle =>
      if negb (d_t1 d) && Nat.eqb (n * d_nt d) n
      then Some [(None, mkSel (all_rows d) (all_cols d) (all_tcols d) idB false false false true 1)]
      else None
  | OpFeatureIter =>
      Some (map (fun j => (None, mkSel (all_rows d) [j] (all_tcols d) idB true (Nat.eqb (d_nf d) 1) true (d_t1 d) (d_nt d)))
                (all_cols d))
  | OpTargetIter =>
      if d_t1 d then None
      else Some (map (fun j => (None, mkSel (all_rows d) (all_cols d) [j] idB true true true false 1))
                     (seq 0 (d_nt d)))
  | OpChunks size =>
      match size with
      | 0 => None
      | _ => Some (map (fun i => (None, sel_rows d (seq (i * size) size) false false)) (seq 0 (n / size)))
      end
  end.

Definition spec_outs (o : op) (d : dset) : option (list (option B * dset)) :=
  match spec o d with
  | None => None
  | Some l => Some (map (fun p => (fst p, apply_sel (snd p) d)) l)
  end.

(* well-formed dataset: what the constructors of DatasetBase guarantee (and `with_weights` with a
   weight per sample) *)
Definition wf (d : dset) : bool :=
  forallb (fun r => Nat.eqb (length r) (d_nf d)) (d_recs d)
  && forallb (fun t => Nat.eqb (length t) (ntargets d)) (d_tgts d)
  && Nat.eqb (length (d_tgts d)) (nsamples d)
  && (Nat.eqb (length (d_ws d)) 0 || Nat.eqb (length (d_ws d)) (nsamples d))
  && names_ok (d_fn d) (d_nf d) && names_ok (d_tn d) (ntargets d)
  && (negb (d_t1 d) || Nat.eqb (d_nt d) 1).

(* stored label counts are right: no duplicate key, no zero entry, every key counted exactly *)
Definition count_occb (v : B) (col : list B) : nat := length (filter (beq v) col).
Fixpoint keys_nodup (m : list (B * nat)) : bool :=
  match m with [] => true | (k, _) :: r => negb (mem k (map fst r)) && keys_nodup r end.
Definition counts_ok1 (m : list (B * nat)) (col : list B) : bool :=
  keys_nodup m
  && forallb (fun kc => negb (Nat.eqb (snd kc) 0) && Nat.eqb (snd kc) (count_occb (fst kc) col)) m
  && forallb (fun v => mem v (map fst m)) col.
Definition tcolumn (j : nat) (d : dset) : list B :=
  flat_map (fun t => match nth_error t j with Some x => [x] | None => [] end) (d_tgts d).
Definition counts_ok (o : out) : bool :=
  match o_counts o with
  | [] => true
  | ms => Nat.eqb (length ms) (ntargets (o_ds o))
          && forallb (fun jm => counts_ok1 (snd jm) (tcolumn (fst jm) (o_ds o)))
                     (combine (seq 0 (length ms)) ms)
  end.

End Model.

Arguments mkD {A B W Nm}. Arguments mkO {A B W Nm}. Arguments mkSel {B}.
Arguments d_nf {A B W Nm}. Arguments d_nt {A B W Nm}. Arguments d_t1 {A B W Nm}.
Arguments d_recs {A B W Nm}. Arguments d_tgts {A B W Nm}. Arguments d_ws {A B W Nm}.
Arguments d_fn {A B W Nm}. Arguments d_tn {A B W Nm}.
Arguments o_label {A B W Nm}. Arguments o_ds {A B W Nm}. Arguments o_counts {A B W Nm}.
Arguments nsamples {A B W Nm}. Arguments ntargets {A B W Nm}.
Arguments OpSplitOwned {B}. Arguments OpSplitView {B}. Arguments OpShuffle {B}.
Arguments OpBootstrap {B}. Arguments OpBootSamples {B}. Arguments OpBootFeatures {B}.
Arguments OpWithLabels {B}. Arguments OpOneVsAll {B}. Arguments OpMapTargets {B}.
Arguments OpView {B}. Arguments OpToOwned {B}. Arguments OpIntoSingle {B}.
Arguments OpSampleIter {B}. Arguments OpFeatureIter {B}. Arguments OpTargetIter {B}.
Arguments OpChunks {B}.
